(** USpec proofs, part 3: reading back the marshalled extension yields exactly the list;
    what one dial hands to uTLS is the suppressed (and permuted) list, an empty typed
    initial_source_connection_id filled in; canonical ids. *)
From Coq Require Import List ZArith Bool Lia Permutation.
From V Require Import Gen.Params Lib.Hex Wire.Varint Wire.VarintProofs USpec.Model USpec.Proofs.
Import ListNotations.
Open Scope Z_scope.

(* a parameter uTLS can marshal: id and value length are encodable varints *)
Definition wfp (p : param) : Prop := 0 <= pid p <= maxVarInt8 /\ zlen (pval p) <= maxVarInt8.

Lemma zlen_nonneg {A} (l : list A) : 0 <= zlen l.
Proof. unfold zlen. lia. Qed.

Lemma vappend_nonempty v : vwf v -> vappend v <> [].
Proof.
  intros H E. pose proof (vappend_length v H) as Hl. rewrite E in Hl. cbn in Hl.
  destruct (vlen_cases v H) as [Hc|[Hc|[Hc|Hc]]]; lia.
Qed.

Lemma parse_fuel_unfold f b : b <> [] ->
  parse_fuel (S f) b =
  match vparse b with
  | inr (id, _, r1) =>
    match vparse r1 with
    | inr (len, _, r2) =>
      if zlen r2 <? len then None
      else match parse_fuel f (skipn (Z.to_nat len) r2) with
           | Some ps => Some ((id, firstn (Z.to_nat len) r2) :: ps)
           | None => None
           end
    | inl _ => None
    end
  | inl _ => None
  end.
Proof. destruct b; [congruence | reflexivity]. Qed.

Lemma firstn_len_app {A} (a b : list A) : firstn (length a) (a ++ b) = a.
Proof. induction a; cbn; [destruct b; reflexivity | f_equal; assumption]. Qed.
Lemma skipn_len_app {A} (a b : list A) : skipn (length a) (a ++ b) = b.
Proof. induction a; cbn; [reflexivity | assumption]. Qed.

Lemma parse_fuel_marshal ps : Forall wfp ps ->
  forall fuel, (length ps <= fuel)%nat -> parse_fuel fuel (marshal ps) = Some (map idval ps).
Proof.
  induction 1 as [|p ps Hp Hps IH]; intros fuel Hf.
  - destruct fuel; reflexivity.
  - destruct fuel as [|f]; [cbn in Hf; lia|].
    destruct Hp as [Hid Hlen].
    assert (Hv1 : vwf (pid p)) by exact Hid.
    assert (Hv2 : vwf (zlen (pval p))) by (split; [apply zlen_nonneg | exact Hlen]).
    change (marshal (p :: ps)) with (marshal1 p ++ marshal ps).
    unfold marshal1. rewrite <- !app_assoc.
    rewrite parse_fuel_unfold.
    2:{ intros E. apply app_eq_nil in E as [E _]. exact (vappend_nonempty _ Hv1 E). }
    rewrite vparse_vappend by exact Hv1. rewrite vparse_vappend by exact Hv2.
    assert (Hlt : (zlen (pval p ++ marshal ps) <? zlen (pval p)) = false).
    { apply Z.ltb_ge. unfold zlen. rewrite app_length. lia. }
    rewrite Hlt.
    assert (Hn : Z.to_nat (zlen (pval p)) = length (pval p)) by (unfold zlen; lia).
    rewrite Hn, skipn_len_app, firstn_len_app.
    rewrite IH by (cbn in Hf; lia). reflexivity.
Qed.

Lemma marshal1_nonempty p : wfp p -> (1 <= length (marshal1 p))%nat.
Proof.
  intros [Hid _]. unfold marshal1. rewrite app_length.
  pose proof (vappend_nonempty (pid p) Hid). destruct (vappend (pid p)); [congruence | cbn; lia].
Qed.

Lemma marshal_length ps : Forall wfp ps -> (length ps <= length (marshal ps))%nat.
Proof.
  induction 1 as [|p ps Hp _ IH]; [cbn; lia|].
  change (marshal (p :: ps)) with (marshal1 p ++ marshal ps). rewrite app_length.
  pose proof (marshal1_nonempty p Hp). cbn [length]. lia.
Qed.

Theorem parse_marshal ps : Forall wfp ps -> parse (marshal ps) = Some (map idval ps).
Proof. intros H. unfold parse. apply parse_fuel_marshal; [exact H | apply marshal_length, H]. Qed.

(** * PopulateFromUQUIC leaves the list as it is, except an empty typed
      initial_source_connection_id, which receives the source connection ID *)

Definition filled (p p' : param) : Prop :=
  p' = p \/ (pid p = tpid_initialSourceConnectionID /\ ptyped p = true /\ pval p = [] /\
             pid p' = pid p /\ ptyped p' = true).

Definition scid_ok (v : view) : Prop := zlen (vInitialSourceConnectionID v) <= maxVarInt8.

Lemma maxConnIDLen_small : uspec_maxConnectionIDLen <= maxVarInt8.
Proof. unfold uspec_maxConnectionIDLen, maxVarInt8. lia. Qed.

Ltac step_cases H :=
  unfold pop_step in H;
  repeat match type of H with
         | context [if ?c then _ else _] => destruct c eqn:?
         | context [match pval ?p with _ => _ end] => destruct (pval p) eqn:?
         end.

Lemma pop_step_inv v p v' p' :
  pop_step v p = Some (v', p') -> wfp p -> scid_ok v ->
  filled p p' /\ wfp p' /\ scid_ok v'.
Proof.
  intros H Hw Hs.
  step_cases H; try discriminate; inversion H; subst; clear H;
    try (split; [left; reflexivity | split; [exact Hw | exact Hs]]).
  - (* empty typed initial_source_connection_id *)
    match goal with E : (pid p =? tpid_initialSourceConnectionID) = true |- _ => apply Z.eqb_eq in E; rename E into Eid end.
    split; [right; cbn; auto|]. split; [|exact Hs].
    destruct Hw as [Hid _]. split; cbn; [exact Hid | exact Hs].
  - (* explicit source connection ID *)
    split; [left; reflexivity|]. split; [exact Hw|].
    match goal with E : (zlen _ <=? uspec_maxConnectionIDLen) = true |- _ => apply Z.leb_le in E; rename E into Elen end.
    unfold scid_ok. cbn [set_scid vInitialSourceConnectionID].
    pose proof maxConnIDLen_small. lia.
Qed.

Lemma populate_loop_inv ps : forall v v' ps',
  populate_loop v ps = Some (v', ps') -> Forall wfp ps -> scid_ok v ->
  Forall2 filled ps ps' /\ Forall wfp ps' /\ scid_ok v'.
Proof.
  induction ps as [|p ps IH]; intros v v' ps' H Hw Hs; cbn in H.
  - inversion H; subst. repeat split; [constructor | constructor | exact Hs].
  - destruct (pop_step v p) as [[v1 p1]|] eqn:E1; [|discriminate].
    destruct (populate_loop v1 ps) as [[v2 r]|] eqn:E2; [|discriminate].
    inversion H; subst; clear H. inversion Hw as [|? ? Hp Hps]; subst.
    destruct (pop_step_inv _ _ _ _ E1 Hp Hs) as [Hf [Hw1 Hs1]].
    destruct (IH _ _ _ E2 Hps Hs1) as [Hf2 [Hw2 Hs2]].
    repeat split; [constructor; assumption | constructor; assumption | exact Hs2].
Qed.

Lemma filled_pid p p' : filled p p' -> pid p' = pid p.
Proof. intros [->|[_ [_ [_ [H _]]]]]; [reflexivity | exact H]. Qed.

Lemma Forall2_filled_pids l l' : Forall2 filled l l' -> map pid l' = map pid l.
Proof. induction 1 as [|p p' l l' H _ IH]; cbn; [reflexivity | rewrite IH, (filled_pid _ _ H); reflexivity]. Qed.

(* no empty typed initial_source_connection_id: the list is untouched *)
Definition needs_fill (p : param) : bool :=
  (pid p =? tpid_initialSourceConnectionID) && ptyped p && is_nil (pval p).
Lemma Forall2_filled_same l l' :
  Forall2 filled l l' -> forallb (fun p => negb (needs_fill p)) l = true -> l' = l.
Proof.
  induction 1 as [|p p' l l' H _ IH]; cbn; [reflexivity|].
  rewrite andb_true_iff. intros [Hn Hr]. rewrite IH by exact Hr. f_equal.
  destruct H as [->|[Hid [Ht [Hv _]]]]; [reflexivity|].
  unfold needs_fill in Hn. rewrite Hid, Z.eqb_refl, Ht, Hv in Hn. discriminate.
Qed.

Lemma suppress_wf sup ps : Forall wfp ps -> Forall wfp (suppress sup ps).
Proof.
  rewrite !Forall_forall. intros H p Hin. apply suppress_In in Hin as [Hin _]. apply H, Hin.
Qed.

Lemma dial_list_wf sup rnd js ps : Forall wfp ps -> Forall wfp (dial_list sup rnd js ps).
Proof.
  intros H. unfold dial_list. destruct rnd; [|apply suppress_wf, H].
  eapply Permutation_Forall; [apply shuffle_perm | apply suppress_wf, H].
Qed.

(** C11_wire_is_spec *)
Theorem wire_is_spec sup rnd js scid ps v ps' ov :
  Forall wfp ps -> zlen scid <= maxVarInt8 ->
  dial sup rnd js scid ps = Some (v, ps', ov) ->
  (* what uTLS serialises parses back to exactly the list it was handed; ClientOverride is those bytes *)
  ov = marshal ps' /\ parse (marshal ps') = Some (map idval ps') /\
  (* that list is the suppressed list, in order or permuted by the draws, ... *)
  (if rnd then Permutation (suppress sup ps) (dial_list sup rnd js ps)
   else dial_list sup rnd js ps = suppress sup ps) /\
  (* ... with the same ids, and the same values but for an empty typed source connection ID *)
  Forall2 filled (dial_list sup rnd js ps) ps' /\
  map pid ps' = map pid (dial_list sup rnd js ps) /\
  (forallb (fun p => negb (needs_fill p)) ps = true -> ps' = dial_list sup rnd js ps).
Proof.
  intros Hw Hs H. unfold dial, populate in H.
  destruct (populate_loop (init_view scid) (dial_list sup rnd js ps)) as [[v1 l1]|] eqn:E; [|discriminate].
  inversion H; subst; clear H.
  destruct (populate_loop_inv _ _ _ _ E (dial_list_wf sup rnd js ps Hw) Hs) as [Hf [Hw' _]].
  split; [reflexivity|]. split; [apply parse_marshal, Hw'|].
  split; [destruct rnd; unfold dial_list; [apply shuffle_perm | reflexivity]|].
  split; [exact Hf|]. split; [apply Forall2_filled_pids, Hf|].
  intros Hn. apply Forall2_filled_same; [exact Hf|].
  (* nothing to fill in the input => nothing to fill after suppression / permutation *)
  rewrite forallb_forall in *. intros p Hin. apply Hn.
  assert (Hin' : In p (suppress sup ps)).
  { unfold dial_list in Hin. destruct rnd; [|exact Hin].
    eapply Permutation_in; [apply Permutation_sym, shuffle_perm | exact Hin]. }
  apply suppress_In in Hin' as [Hp _]. exact Hp.
Qed.

(** * C11_ids_canonical *)

Lemma canon_fp id : canon id = fp_canon id.
Proof. reflexivity. Qed.

(* TransportParamIDs = what a fingerprinter computes from the wire of a later dial:
   parse, fold GREASE ids to 27, sort -- whatever the permutation; duplicates kept *)
Theorem ids_canonical sup rnd js scid ps v ps' ov wire :
  Forall wfp ps -> zlen scid <= maxVarInt8 ->
  dial sup rnd js scid (snd (tp_ids sup ps)) = Some (v, ps', ov) ->
  parse ov = Some wire ->
  fst (tp_ids sup ps) = isort (map (fun p => fp_canon (fst p)) wire) /\
  length (fst (tp_ids sup ps)) = length wire /\
  (* calling it first changes nothing a dial sends *)
  dial sup rnd js scid (snd (tp_ids sup ps)) = dial sup rnd js scid ps.
Proof.
  intros Hw Hs Hd Hp. cbn [tp_ids fst snd] in *.
  assert (Hsame : dial sup rnd js scid ps = dial sup rnd js scid ps) by reflexivity.
  clear Hsame. assert (Hsame : dial sup rnd js scid ps = dial sup rnd js scid ps) by reflexivity.
  destruct (wire_is_spec _ _ _ _ _ _ _ _ Hw Hs Hd) as [Ho [Hparse [Hperm [_ [Hids _]]]]].
  subst ov. rewrite Hparse in Hp. inversion Hp; subst wire; clear Hp.
  assert (Hpm : Permutation (map (fun p => canon (pid p)) (suppress sup ps))
                            (map (fun p => fp_canon (fst p)) (map idval ps'))).
  { rewrite map_map. cbn [idval fst].
    replace (map (fun x => fp_canon (pid x)) ps') with (map fp_canon (map pid ps')) by (rewrite map_map; reflexivity).
    rewrite Hids. rewrite map_map.
    apply Permutation_map. destruct rnd; [exact Hperm | rewrite Hperm; apply Permutation_refl]. }
  split; [apply isort_perm_eq, Hpm|]. split; [|exact Hsame].
  rewrite <- (Permutation_length (isort_perm _)).
  rewrite (Permutation_length Hpm). rewrite !map_length. reflexivity.
Qed.

(** * Round 8 (audit P4): WHICH value lands in the placeholder.
    When the spec has no typed initial_source_connection_id with an explicit value, the list a
    dial hands to uTLS is exactly the dial list with every typed EMPTY placeholder replaced by
    the connection's source connection ID -- a raw parameter with id 0x0f is left alone. *)
Definition fill_typed (scid : list Z) (p : param) : param :=
  if needs_fill p then P (pid p) scid true else p.
Definition no_explicit (p : param) : Prop :=
  pid p = tpid_initialSourceConnectionID -> ptyped p = true -> pval p = [].

Lemma pop_step_fill v p v' p' :
  pop_step v p = Some (v', p') -> no_explicit p ->
  vInitialSourceConnectionID v' = vInitialSourceConnectionID v /\
  p' = fill_typed (vInitialSourceConnectionID v) p.
Proof.
  intros H Hn. unfold fill_typed, needs_fill.
  step_cases H; try discriminate; inversion H; subst; clear H;
    repeat match goal with E : (pid _ =? _) = true |- _ => apply Z.eqb_eq in E end;
    repeat match goal with E : (pid _ =? _) = false |- _ => rewrite E end;
    try (split; [reflexivity|]; cbn [andb]; reflexivity);
    try (split; [reflexivity|];
         match goal with E : pid _ = tpid_initialSourceConnectionID |- _ => rewrite E, Z.eqb_refl end;
         match goal with E : ptyped _ = _ |- _ => rewrite E end;
         match goal with E : pval _ = _ |- _ => rewrite E end; cbn; try rewrite E; reflexivity).
  all: try (exfalso;
            match goal with E : pid ?q = tpid_initialSourceConnectionID, T : ptyped ?q = true, V : pval ?q = _ :: _ |- _ =>
              specialize (Hn E T); congruence end).
  all: try (split; [reflexivity|]; destruct p' as [i v0 t]; cbn in *; subst; cbn;
            repeat match goal with E : (_ =? _) = false |- _ => rewrite E end; reflexivity).
Qed.

Lemma populate_loop_fill ps : forall v v' ps',
  populate_loop v ps = Some (v', ps') -> Forall no_explicit ps ->
  vInitialSourceConnectionID v' = vInitialSourceConnectionID v /\
  ps' = map (fill_typed (vInitialSourceConnectionID v)) ps.
Proof.
  induction ps as [|p ps IH]; intros v v' ps' H Hn; cbn in H.
  - inversion H; subst. split; reflexivity.
  - destruct (pop_step v p) as [[v1 p1]|] eqn:E1; [|discriminate].
    destruct (populate_loop v1 ps) as [[v2 r]|] eqn:E2; [|discriminate].
    inversion H; subst; clear H. inversion Hn as [|? ? Hp Hps]; subst.
    destruct (pop_step_fill _ _ _ _ E1 Hp) as [Hs Hf].
    destruct (IH _ _ _ E2 Hps) as [Hs2 Hf2]. rewrite Hs in Hs2, Hf2.
    split; [exact Hs2 | cbn; rewrite Hf, Hf2; reflexivity].
Qed.

Lemma no_explicit_dial_list sup rnd js ps : Forall no_explicit ps -> Forall no_explicit (dial_list sup rnd js ps).
Proof.
  intros H. assert (Hs : Forall no_explicit (suppress sup ps)).
  { rewrite Forall_forall in *. intros p Hin. apply suppress_In in Hin as [Hin _]. apply H, Hin. }
  unfold dial_list. destruct rnd; [|exact Hs].
  eapply Permutation_Forall; [apply shuffle_perm | exact Hs].
Qed.

(** C11_wire_values *)
Theorem wire_values sup rnd js scid ps v ps' ov :
  Forall no_explicit ps ->
  dial sup rnd js scid ps = Some (v, ps', ov) ->
  ps' = map (fill_typed scid) (dial_list sup rnd js ps) /\
  vInitialSourceConnectionID v = scid /\ ov = marshal ps'.
Proof.
  intros Hn H. unfold dial, populate in H.
  destruct (populate_loop (init_view scid) (dial_list sup rnd js ps)) as [[v1 l1]|] eqn:E; [|discriminate].
  inversion H; subst; clear H.
  destruct (populate_loop_fill _ _ _ _ E (no_explicit_dial_list sup rnd js ps Hn)) as [Hv Hl].
  cbn in Hv, Hl. auto.
Qed.
