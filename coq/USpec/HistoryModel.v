(** USpec, round 8 (audit P3): histories of a QUICSpec value INCLUDING calls of
    QUICSpec.TransportParamIDs(), the one remaining operation that touched the spec.

    [hrun_with ids] runs dials (C02's [UDial.Model.dial]), the caller's edits and IDs() calls.
    [ids_legacy] is u_quic_spec.go before fixes/C11-transport-parameter-ids-on-a-copy.patch: it
    suppressed on the spec's own extension, so the spec's list became the suppressed list for
    good.  [ids_fixed] is the repaired method: same result, computed on a copy.
    Executable definitions first, then the proofs. *)
From Coq Require Import List ZArith Bool.
From V Require Import Gen.Params Lib.Hex Wire.Varint USpec.Model UDial.Model.
Import ListNotations.
Open Scope Z_scope.

Inductive hop :=
| HDial (scid : list Z) (o : oracle)
| HSetSup (sup : list Z)
| HSetRnd (b : bool)
| HIds.

Definition set_params (st : spec_state) (ps : list param) : spec_state :=
  Spec ps (sCache st) (sKeys st) (sSNI st) (sSup st) (sRnd st).

(* TransportParamIDs(): the ids, and the spec afterwards *)
Definition ids_legacy (st : spec_state) : list Z * spec_state :=
  let '(ids, kept) := tp_ids_legacy (sSup st) (sParams st) in (ids, set_params st kept).
Definition ids_fixed (st : spec_state) : list Z * spec_state :=
  (fst (tp_ids (sSup st) (sParams st)), st).

Inductive hout := HWire (scid : list Z) (w : wire_view) | HIdsOut (ids : list Z).

Section HRun.
  Variable IDS : spec_state -> list Z * spec_state.
  Fixpoint hrun_with (st : spec_state) (ops : list hop) : option (spec_state * list hout) :=
    match ops with
    | [] => Some (st, [])
    | HDial scid o :: r =>
      match UDial.Model.dial st scid o with
      | None => None
      | Some (st', w) =>
        match hrun_with st' r with
        | None => None
        | Some (st'', outs) => Some (st'', HWire scid w :: outs)
        end
      end
    | HSetSup s :: r => hrun_with (set_sup st s) r
    | HSetRnd b :: r => hrun_with (set_rnd st b) r
    | HIds :: r =>
      let '(ids, st') := IDS st in
      match hrun_with st' r with
      | None => None
      | Some (st'', outs) => Some (st'', HIdsOut ids :: outs)
      end
    end.
End HRun.
Definition hrun := hrun_with ids_fixed.
Definition hrun_legacy := hrun_with ids_legacy.

(* the same history without its IDs() calls, as C02's operations *)
Fixpoint erase_ids (ops : list hop) : list op :=
  match ops with
  | [] => []
  | HDial s o :: r => ODial s o :: erase_ids r
  | HSetSup s :: r => OSetSup s :: erase_ids r
  | HSetRnd b :: r => OSetRnd b :: erase_ids r
  | HIds :: r => erase_ids r
  end.
Fixpoint wires_of (outs : list hout) : list (list Z * wire_view) :=
  match outs with
  | [] => []
  | HWire s w :: r => (s, w) :: wires_of r
  | HIdsOut _ :: r => wires_of r
  end.

