(** USpec proofs, part 2: the Fisher-Yates loop of math/rand.Shuffle is a bijection between
    admissible draw vectors and the permutations of a duplicate-free list. *)
From Coq Require Import List ZArith Bool Lia Permutation Arith.
From V Require Import USpec.Model USpec.Proofs.
Import ListNotations.

Lemma upd_app {A} (l s : list A) k x : (k < length l)%nat -> upd (l ++ s) k x = upd l k x ++ s.
Proof.
  revert k. induction l as [|h t IH]; intros k Hk; cbn in *; [lia|].
  destruct k as [|k]; cbn; [reflexivity|]. f_equal. apply IH. lia.
Qed.

Lemma swap_app {A} (pre suf : list A) i j :
  (i < length pre)%nat -> (j < length pre)%nat -> swap (pre ++ suf) i j = swap pre i j ++ suf.
Proof.
  intros Hi Hj. unfold swap. rewrite !nth_error_app1 by assumption.
  destruct (nth_error pre i) as [a|] eqn:Ei; [|apply nth_error_None in Ei; lia].
  destruct (nth_error pre j) as [b|] eqn:Ej; [|apply nth_error_None in Ej; lia].
  rewrite upd_app by assumption. rewrite upd_app by (rewrite upd_length; assumption). reflexivity.
Qed.

Lemma admissible_iff i js : admissibleb i js = true <-> admissible i js.
Proof.
  revert js. induction i as [|i IH]; intros [|j js]; cbn; try (split; [discriminate | tauto]); try tauto.
  rewrite andb_true_iff, Nat.leb_le, IH. tauto.
Qed.

Lemma admissible_length i js : admissible i js -> length js = i.
Proof.
  revert js. induction i as [|i IH]; intros [|j js]; cbn; try tauto.
  intros [_ H]. f_equal. apply IH, H.
Qed.

(* the loop below index i never touches what lies at or beyond i+1 *)
Lemma shuffle_from_app {A} i (pre suf : list A) js :
  (i < length pre)%nat -> admissible i js ->
  shuffle_from i (pre ++ suf) js = shuffle_from i pre js ++ suf.
Proof.
  revert pre js. induction i as [|i IH]; intros pre js Hi Ha.
  - destruct js; reflexivity.
  - destruct js as [|j js]; [contradiction|]. destruct Ha as [Hj Ha]. cbn [shuffle_from].
    rewrite swap_app by lia. apply IH; [rewrite swap_length; lia | exact Ha].
Qed.

(* one step: the element drawn goes to the last place and stays there *)
Lemma swap_last {A} (l : list A) n j y :
  length l = S n -> nth_error l j = Some y ->
  exists pre, swap l n j = pre ++ [y] /\ length pre = n.
Proof.
  intros Hl Hj.
  assert (Hlen : length (swap l n j) = S n) by (rewrite swap_length; exact Hl).
  destruct (exists_last (l := swap l n j)) as [pre [z Hz]].
  { intros E. rewrite E in Hlen. discriminate. }
  assert (Hpre : length pre = n).
  { rewrite Hz, app_length in Hlen. cbn in Hlen. lia. }
  exists pre. split; [|exact Hpre]. rewrite Hz. f_equal. f_equal.
  (* the last element of the swapped list is y *)
  assert (Hn : nth_error (swap l n j) n = Some y).
  { unfold swap. destruct (nth_error l n) as [a|] eqn:En; [|apply nth_error_None in En; lia].
    rewrite Hj. rewrite nth_error_upd.
    destruct (Nat.eqb j n) eqn:E.
    - apply Nat.eqb_eq in E. subst j. rewrite nth_error_upd, Nat.eqb_refl, En. congruence.
    - rewrite nth_error_upd, Nat.eqb_refl, En. reflexivity. }
  rewrite Hz in Hn. rewrite nth_error_app2 in Hn by lia.
  rewrite Hpre, Nat.sub_diag in Hn. cbn in Hn. congruence.
Qed.

Lemma shuffle_step {A} (l : list A) i j js y :
  length l = S (S i) -> nth_error l j = Some y -> admissible i js ->
  exists pre, swap l (S i) j = pre ++ [y] /\ length pre = S i /\
              shuffle_from (S i) l (j :: js) = shuffle_from i pre js ++ [y].
Proof.
  intros Hl Hj Ha. destruct (swap_last l (S i) j y Hl Hj) as [pre [Hs Hp]].
  exists pre. split; [exact Hs|]. split; [exact Hp|].
  cbn [shuffle_from]. rewrite Hs. apply shuffle_from_app; [lia | exact Ha].
Qed.

Lemma shuffle_from_injective {A} i : forall (l : list A) js1 js2,
  length l = S i -> NoDup l -> admissible i js1 -> admissible i js2 ->
  shuffle_from i l js1 = shuffle_from i l js2 -> js1 = js2.
Proof.
  induction i as [|i IH]; intros l js1 js2 Hl Hnd H1 H2 He.
  - destruct js1, js2; cbn in *; try contradiction. reflexivity.
  - destruct js1 as [|j1 js1]; [contradiction|]. destruct js2 as [|j2 js2]; [contradiction|].
    destruct H1 as [Hj1 H1], H2 as [Hj2 H2].
    destruct (nth_error l j1) as [y1|] eqn:E1; [|apply nth_error_None in E1; lia].
    destruct (nth_error l j2) as [y2|] eqn:E2; [|apply nth_error_None in E2; lia].
    destruct (shuffle_step l i j1 js1 y1 Hl E1 H1) as [p1 [Hs1 [Hp1 Hr1]]].
    destruct (shuffle_step l i j2 js2 y2 Hl E2 H2) as [p2 [Hs2 [Hp2 Hr2]]].
    rewrite Hr1, Hr2 in He. apply app_inj_tail in He as [Hs Hy]. subst y2.
    assert (j1 = j2).
    { rewrite NoDup_nth_error in Hnd. apply Hnd; [lia | congruence]. }
    subst j2. rewrite Hs1 in Hs2. apply app_inj_tail in Hs2 as [Hp _]. subst p2.
    f_equal. apply (IH p1); try assumption.
    assert (Hperm : Permutation l (p1 ++ [y1])) by (rewrite <- Hs1; apply swap_perm).
    apply (Permutation_NoDup Hperm) in Hnd. apply NoDup_remove_1 in Hnd.
    rewrite app_nil_r in Hnd. exact Hnd.
Qed.

Lemma shuffle_from_surjective {A} i : forall (l p : list A),
  length l = S i -> Permutation l p ->
  exists js, admissible i js /\ shuffle_from i l js = p.
Proof.
  induction i as [|i IH]; intros l p Hl Hp.
  - exists []. split; [exact I|]. cbn.
    destruct l as [|x [|? ?]]; try discriminate. apply Permutation_length_1_inv in Hp. congruence.
  - assert (Hlp : length p = S (S i)) by (rewrite <- (Permutation_length Hp); exact Hl).
    destruct (exists_last (l := p)) as [p0 [y Hy]]; [intros E; rewrite E in Hlp; discriminate|].
    subst p.
    assert (Hin : In y l).
    { apply (Permutation_in _ (Permutation_sym Hp)). apply in_or_app. right. left. reflexivity. }
    apply In_nth_error in Hin as [j Hj].
    assert (Hjl : (j < length l)%nat) by (apply nth_error_Some; congruence).
    destruct (swap_last l (S i) j y Hl Hj) as [pre [Hs Hpre]].
    assert (Hperm : Permutation pre p0).
    { apply (Permutation_app_inv_r [y]).
      eapply perm_trans; [|exact Hp]. rewrite <- Hs. apply Permutation_sym, swap_perm. }
    destruct (IH pre p0 Hpre Hperm) as [js [Ha Hr]].
    exists (j :: js). split; [split; [lia | exact Ha]|].
    cbn [shuffle_from]. rewrite Hs. rewrite shuffle_from_app by (try lia; exact Ha).
    rewrite Hr. reflexivity.
Qed.

Theorem shuffle_injective {A} (l : list A) js1 js2 :
  NoDup l -> admissible (length l - 1) js1 -> admissible (length l - 1) js2 ->
  shuffle l js1 = shuffle l js2 -> js1 = js2.
Proof.
  intros Hnd H1 H2 He. unfold shuffle in He.
  destruct l as [|x l].
  - cbn in *. destruct js1, js2; try contradiction. reflexivity.
  - cbn [length] in *. replace (S (length l) - 1)%nat with (length l) in * by lia.
    apply (shuffle_from_injective (length l) (x :: l)); auto.
Qed.

Theorem shuffle_surjective {A} (l p : list A) :
  Permutation l p -> exists js, admissible (length l - 1) js /\ shuffle l js = p.
Proof.
  intros Hp. unfold shuffle. destruct l as [|x l].
  - apply Permutation_nil in Hp. subst. exists []. split; [exact I | reflexivity].
  - cbn [length]. replace (S (length l) - 1)%nat with (length l) by lia.
    apply shuffle_from_surjective; [reflexivity | exact Hp].
Qed.

(* both directions together, and the count of admissible vectors: n! (one choice in [0,i] per step) *)
Theorem shuffle_bijective {A} (l : list A) :
  NoDup l ->
  (forall js1 js2, admissible (length l - 1) js1 -> admissible (length l - 1) js2 ->
                   shuffle l js1 = shuffle l js2 -> js1 = js2) /\
  (forall p, Permutation l p -> exists js, admissible (length l - 1) js /\ shuffle l js = p) /\
  (forall js, Permutation l (shuffle l js)).
Proof.
  intros Hnd. split; [|split].
  - intros js1 js2. apply shuffle_injective, Hnd.
  - apply shuffle_surjective.
  - apply shuffle_perm.
Qed.

(* all admissible draw vectors for a loop starting at i; there are (i+1)! of them *)
Fixpoint all_draws (i : nat) : list (list nat) :=
  match i with
  | O => [[]]
  | S i' => flat_map (fun j => map (cons j) (all_draws i')) (seq 0 (S i))
  end.

Lemma all_draws_complete i js : admissible i js <-> In js (all_draws i).
Proof.
  revert js. induction i as [|i IH]; intros js.
  - cbn. destruct js; cbn; intuition congruence.
  - cbn [all_draws]. rewrite in_flat_map. split.
    + destruct js as [|j js]; [contradiction|]. intros [Hj Ha].
      exists j. split; [apply in_seq; lia|]. apply in_map, IH, Ha.
    + intros [j [Hj Hin]]. apply in_map_iff in Hin as [js' [<- Hin']].
      apply in_seq in Hj. split; [lia | apply IH, Hin'].
Qed.

Lemma all_draws_length i : length (all_draws i) = fact (S i).
Proof.
  induction i as [|i IH]; [reflexivity|].
  cbn [all_draws].
  assert (H : forall (l : list nat), length (flat_map (fun j => map (cons j) (all_draws i)) l) = (length l * fact (S i))%nat).
  { induction l as [|a l IHl]; [reflexivity|]. cbn [flat_map]. rewrite app_length, map_length, IH, IHl. cbn [length]. lia. }
  rewrite H, seq_length. change (fact (S (S i))) with (S (S i) * fact (S i))%nat. reflexivity.
Qed.

(** * Round 3: the identity (and every other order) is reachable; Sattolo's variant cannot *)

(* drawing j = i at every step leaves the list alone: the explicit witness for the identity *)
Fixpoint ident_draws (i : nat) : list nat :=
  match i with O => [] | S i' => i :: ident_draws i' end.

Lemma ident_draws_admissible i : admissible i (ident_draws i).
Proof. induction i as [|i IH]; cbn; [exact I | split; [lia | exact IH]]. Qed.

Lemma upd_same {A} (l : list A) k x : nth_error l k = Some x -> upd l k x = l.
Proof.
  revert k. induction l as [|h t IH]; intros [|k] H; cbn in *; try discriminate.
  - inversion H; reflexivity.
  - f_equal. apply IH, H.
Qed.

Lemma swap_same {A} (l : list A) i : swap l i i = l.
Proof.
  unfold swap. destruct (nth_error l i) as [a|] eqn:E; [|reflexivity].
  rewrite (upd_same l i a E). apply upd_same, E.
Qed.

Lemma shuffle_from_ident {A} i (l : list A) : shuffle_from i l (ident_draws i) = l.
Proof.
  revert l. induction i as [|i IH]; intros l; [reflexivity|].
  cbn [ident_draws shuffle_from]. rewrite swap_same. apply IH.
Qed.

Theorem shuffle_reaches_identity {A} (l : list A) :
  admissible (length l - 1) (ident_draws (length l - 1)) /\
  shuffle l (ident_draws (length l - 1)) = l.
Proof. split; [apply ident_draws_admissible | apply shuffle_from_ident]. Qed.

(* Sattolo's algorithm draws j from [0, i-1] instead of [0, i] *)
Fixpoint sattolo_admissible (i : nat) (js : list nat) : Prop :=
  match i, js with
  | O, [] => True
  | S i', j :: js' => (j <= i')%nat /\ sattolo_admissible i' js'
  | _, _ => False
  end.

Lemma sattolo_is_admissible i js : sattolo_admissible i js -> admissible i js.
Proof.
  revert js. induction i as [|i IH]; intros [|j js]; cbn; try tauto.
  intros [Hj H]. split; [lia | apply IH, H].
Qed.

(* with Sattolo's draws a duplicate-free list of two or more elements never keeps its order:
   the last element is exchanged with an earlier one and never comes back *)
Theorem sattolo_never_identity {A} (l : list A) js :
  NoDup l -> (2 <= length l)%nat -> sattolo_admissible (length l - 1) js -> shuffle l js <> l.
Proof.
  intros Hnd Hlen Hs He. unfold shuffle in He.
  destruct (length l) as [|[|i]] eqn:El; try lia.
  replace (S (S i) - 1)%nat with (S i) in * by lia.
  destruct js as [|j js]; [contradiction|]. destruct Hs as [Hj Hs].
  destruct (nth_error l j) as [y|] eqn:Ej; [|apply nth_error_None in Ej; lia].
  destruct (shuffle_step l i j js y El Ej (sattolo_is_admissible _ _ Hs)) as [pre [_ [Hp Hr]]].
  rewrite Hr in He.
  (* the last element of l is y = l[j] with j < last index: contradicts NoDup *)
  assert (Hlast : nth_error l (S i) = Some y).
  { rewrite <- He. rewrite nth_error_app2 by (rewrite <- (Permutation_length (shuffle_from_perm i pre js)); lia).
    rewrite <- (Permutation_length (shuffle_from_perm i pre js)), Hp, Nat.sub_diag. reflexivity. }
  rewrite NoDup_nth_error in Hnd. assert (j = S i) by (apply Hnd; [lia | congruence]). lia.
Qed.
