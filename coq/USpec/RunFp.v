(** Correspondence glue for the simfingerprint unit (harness/drv/simfingerprint.go): every
    emitted dial of the simulation as a case.  The case carries the spec as the caller wrote it
    (transport parameters with the "typed" flag, key shares (group, Data), the extension ids the
    spec's extension objects stand for), the caller's settings, the source connection ID of the
    packets, and what the independent readers found on the wire: extension 57, the key_share
    entries and the extension id list -- GREASE values RAW, as uTLS drew them: folding them into
    their class is done here, by the model's [isGrease16], so the class is tied to uTLS's output.

    The dial is C02's [UDial.Model.dial] (per-dial copy, suppress, shuffle, populate, marshal;
    key shares by [gen_keys]).  The simulation does not seed math/rand, so a randomised dial is
    checked up to the draws: the wire must be a permutation of the model's unshuffled wire --
    which by C11_shuffle_bijective is exactly "the model's wire under SOME admissible draws"
    ([fp_case_has_draws] in ProofsFpCase.v). *)
From Coq Require Import List ZArith Bool String.
From V Require Import Gen.Params Lib.Hex Wire.Varint USpec.Model UDial.Model USpec.RunDial.
Import ListNotations.
Open Scope Z_scope.

Inductive case :=
| FDial (ps0 : list rp) (sup : list Z) (rnd : bool) (scid : string)
        (keys0 : list (Z * string)) (exts0 : list Z)
        (wire : list (Z * string)) (wkeys : list (Z * Z * string)) (wexts : list Z)
(* a dial of a fresh built-in spec: index of the QUICID in the generated table
   [uspec_builtin_tp], and extension 57 as read off the wire (unmasked) *)
| FBuiltin (q : Z) (wire : list (Z * string)).

(** multiset equality of parameter lists *)
Definition pv_eqb (a b : Z * list Z) : bool := (fst a =? fst b) && zeqb_list (snd a) (snd b).
Fixpoint remove1 (x : Z * list Z) (l : list (Z * list Z)) : option (list (Z * list Z)) :=
  match l with
  | [] => None
  | y :: r => if pv_eqb x y then Some r
              else match remove1 x r with Some r' => Some (y :: r') | None => None end
  end.
Fixpoint perm_eqb (a b : list (Z * list Z)) : bool :=
  match a with
  | [] => match b with [] => true | _ => false end
  | x :: a' => match remove1 x b with Some b' => perm_eqb a' b' | None => false end
  end.
Fixpoint list_eqb (a b : list (Z * list Z)) : bool :=
  match a, b with
  | [], [] => true
  | x :: a', y :: b' => pv_eqb x y && list_eqb a' b'
  | _, _ => false
  end.

(** extension ids: position by position, GREASE values folded; the spec's padding extension
    (21) may be absent from the wire (uTLS omits it when its rule asks for no padding) *)
Fixpoint exts_match (spec wire : list Z) : bool :=
  match spec, wire with
  | [], [] => true
  | s :: spec', w :: wire' =>
    if norm16 s =? norm16 w then exts_match spec' wire'
    else if s =? 21 then exts_match spec' wire else false
  | s :: spec', [] => (s =? 21) && exts_match spec' []
  | [], _ :: _ => false
  end.

(** key shares: as RunDial.keys_eqb, the wire's group is raw here *)
Fixpoint fkeys_eqb (spec : list (Z * string)) (m : list keyshare) (w : list (Z * Z * string)) : bool :=
  match spec, m, w with
  | [], [], [] => true
  | (_, sd) :: spec', k :: m', (g, len, d) :: w' =>
    (norm16 (kGroup k) =? norm16 g) &&
    (match hx sd with
     | [] => 0 <? len
     | _ => zeqb_list (kData k) (hx d) && (zlen (kData k) =? len)
     end) && fkeys_eqb spec' m' w'
  | _, _, _ => false
  end.

(** what the reference fingerprinter's transport-parameter hash can see of one parameter: the id
    with GREASE folded, and the value only for the eleven ids it hashes *)
Definition fp_proj (p : Z * list Z) : Z * list Z :=
  (fp_canon (fst p), if existsb (Z.eqb (fst p)) fp_ids11 then snd p else []).
Definition builtin_tp (q : Z) : list (Z * list Z) :=
  map (fun p => (fst p, hx (snd p))) (nth (Z.to_nat q) uspec_builtin_tp []).
Definition builtin_check (q : Z) (w : list (Z * list Z)) : bool :=
  (0 <=? q) && (q <? Z.of_nat (List.length uspec_builtin_tp)) && perm_eqb (map fp_proj w) (builtin_tp q).

Definition wire_of (l : list (Z * string)) : list (Z * list Z) := map (fun p => (fst p, hx (snd p))) l.

(** the model's view of one dial, without the shuffle *)
Definition model_dial (ps0 : list rp) (sup : list Z) (scid : string) (keys0 : list (Z * string)) (nfresh : nat)
  : option (list (Z * list Z) * list keyshare) :=
  let st := Spec (map mkp ps0) None (map (fun k => KS (fst k) (hx (snd k))) keys0) [] sup false in
  match UDial.Model.dial st (hx scid) (Oracle [] [] (repeat [1; 1] nfresh)) with
  | Some (_, w) => match parse (wExt w) with Some l => Some (l, wKeys w) | None => None end
  | None => None
  end.

Inductive obs := OFp (tp : list (Z * list Z)) (keys : list keyshare) | ONone.
Definition model_obs (c : case) : obs :=
  match c with
  | FDial ps0 sup _ scid keys0 _ _ wk _ =>
    match model_dial ps0 sup scid keys0 (List.length wk) with
    | Some (l, ks) => OFp l ks
    | None => ONone
    end
  | FBuiltin q _ => OFp (builtin_tp q) []
  end.

Definition check_case (c : case) : bool :=
  match c with
  | FBuiltin q wire => builtin_check q (wire_of wire)
  | FDial ps0 sup rnd scid keys0 exts0 wire wk wexts =>
  match model_obs c with
  | OFp l ks =>
    (if rnd then perm_eqb l (wire_of wire) else list_eqb l (wire_of wire)) &&
    (match keys0, wk with [], [] => true | _, _ => fkeys_eqb keys0 ks wk end) &&
    exts_match exts0 wexts
  | ONone => false
  end
  end.
