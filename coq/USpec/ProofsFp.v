(** USpec proofs, part 4: what the reference fingerprinter hashes is invariant under the
    shuffle and under every draw of the frame builder -- exactly when the set of frame types
    does not depend on the draw; otherwise two draws give different inputs to the hash. *)
From Coq Require Import List ZArith Bool Lia Permutation Sorted.
From V Require Import Gen.Params Lib.Hex Wire.Varint USpec.Model USpec.Proofs.
Import ListNotations.
Open Scope Z_scope.

(** * Transport parameter part *)

Definition lv_step (id : Z) (acc : list Z) (p : Z * list Z) : list Z :=
  if (fst p =? id) && negb (is_nil (snd p)) then unsetVLI (snd p) else acc.

Lemma last_val_fold id ps : last_val id ps = fold_left (lv_step id) ps [].
Proof. reflexivity. Qed.

Lemma lv_notin id ps acc : ~ In id (map fst ps) -> fold_left (lv_step id) ps acc = acc.
Proof.
  revert acc. induction ps as [|[i w] r IH]; intros acc Hn; [reflexivity|].
  cbn [fold_left]. cbn in Hn. unfold lv_step at 2. cbn [fst snd].
  destruct (Z.eqb_spec i id) as [->|Hne]; [exfalso; apply Hn; left; reflexivity|].
  cbn. apply IH. intros H. apply Hn. right. exact H.
Qed.

Lemma lv_in id v ps acc : NoDup (map fst ps) -> In (id, v) ps ->
  fold_left (lv_step id) ps acc = if is_nil v then acc else unsetVLI v.
Proof.
  revert acc. induction ps as [|[i w] r IH]; intros acc Hnd Hin; [contradiction|].
  cbn in Hnd. inversion Hnd as [|? ? Hni Hnd']; subst.
  cbn [fold_left]. destruct Hin as [He|Hin].
  - inversion He; subst. unfold lv_step at 2. cbn [fst snd]. rewrite Z.eqb_refl. cbn [andb].
    rewrite lv_notin by exact Hni. destruct (is_nil v); reflexivity.
  - assert (Hne : i <> id).
    { intros ->. apply Hni. apply in_map_iff. exists (id, v). split; [reflexivity | exact Hin]. }
    unfold lv_step at 2. cbn [fst snd]. apply Z.eqb_neq in Hne. rewrite Hne. cbn [andb].
    apply IH; assumption.
Qed.

Lemma last_val_perm id ps ps' :
  NoDup (map fst ps) -> Permutation ps ps' -> last_val id ps = last_val id ps'.
Proof.
  intros Hnd Hp. rewrite !last_val_fold.
  assert (Hnd' : NoDup (map fst ps')) by (eapply Permutation_NoDup; [apply Permutation_map, Hp | exact Hnd]).
  destruct (in_dec Z.eq_dec id (map fst ps)) as [Hin|Hn].
  - apply in_map_iff in Hin as [[i v] [He Hin]]. cbn in He. subst i.
    rewrite (lv_in id v ps) by assumption.
    rewrite (lv_in id v ps') by (try assumption; eapply Permutation_in; eassumption). reflexivity.
  - rewrite lv_notin by exact Hn. rewrite lv_notin; [reflexivity|].
    intros H. apply Hn. eapply Permutation_in; [apply Permutation_sym, Permutation_map, Hp | exact H].
Qed.

Theorem qtp_features_perm ps ps' :
  NoDup (map fst ps) -> Permutation ps ps' -> qtp_features ps = qtp_features ps'.
Proof.
  intros Hnd Hp. unfold qtp_features. f_equal.
  - apply map_ext. intros id. apply last_val_perm; assumption.
  - apply isort_perm_eq, Permutation_map, Hp.
Qed.

(* in particular under the shuffle, whatever the draws *)
Corollary qtp_features_shuffle (l : list param) js1 js2 :
  NoDup (map pid l) ->
  qtp_features (map idval (shuffle l js1)) = qtp_features (map idval (shuffle l js2)).
Proof.
  intros Hnd.
  assert (H : forall js, qtp_features (map idval l) = qtp_features (map idval (shuffle l js))).
  { intros js. apply qtp_features_perm.
    - rewrite map_map. exact Hnd.
    - apply Permutation_map, shuffle_perm. }
  rewrite <- (H js1), <- (H js2). reflexivity.
Qed.

(** * Frame-type part: the hashed list is determined by the SET of frame types *)

Lemma dedup_cons2 x y r : dedup (x :: y :: r) = if x =? y then dedup (y :: r) else x :: dedup (y :: r).
Proof. reflexivity. Qed.

Lemma dedup_In t l : In t (dedup l) <-> In t l.
Proof.
  induction l as [|x r IH]; [tauto|]. destruct r as [|y r']; [tauto|].
  rewrite dedup_cons2. destruct (Z.eqb_spec x y) as [->|Hne].
  - rewrite IH. cbn. tauto.
  - cbn [In] in *. rewrite IH. tauto.
Qed.

Lemma dedup_sorted l : StronglySorted Z.le l -> StronglySorted Z.lt (dedup l).
Proof.
  induction l as [|x r IH]; intros Hs; [constructor|].
  destruct r as [|y r']; [repeat constructor|].
  inversion Hs as [|? ? Hr Hall]; subst. rewrite dedup_cons2.
  destruct (Z.eqb_spec x y) as [->|Hne]; [apply IH, Hr|].
  constructor; [apply IH, Hr|].
  rewrite Forall_forall in *. intros t Ht. rewrite dedup_In in Ht.
  inversion Hr as [|? ? _ Hall2]; subst. rewrite Forall_forall in Hall2.
  pose proof (Hall y (or_introl eq_refl)).
  destruct Ht as [<-|Ht]; [lia|]. specialize (Hall2 t Ht). lia.
Qed.

Lemma strict_sorted_ext l1 : forall l2,
  StronglySorted Z.lt l1 -> StronglySorted Z.lt l2 -> (forall t, In t l1 <-> In t l2) -> l1 = l2.
Proof.
  induction l1 as [|x r1 IH]; intros l2 H1 H2 He.
  - destruct l2 as [|y r2]; [reflexivity|]. exfalso. apply (He y). left. reflexivity.
  - destruct l2 as [|y r2]; [exfalso; apply (He x); left; reflexivity|].
    inversion H1 as [|? ? Hs1 Ha1]; inversion H2 as [|? ? Hs2 Ha2]; subst.
    rewrite Forall_forall in Ha1, Ha2.
    assert (x = y).
    { destruct (proj1 (He x) (or_introl eq_refl)) as [E|Hx]; [congruence|].
      destruct (proj2 (He y) (or_introl eq_refl)) as [E|Hy]; [congruence|].
      specialize (Ha1 y Hy). specialize (Ha2 x Hx). lia. }
    subst y. f_equal. apply IH; try assumption.
    intros t. split; intros Ht.
    + destruct (proj1 (He t) (or_intror Ht)) as [E|H]; [|exact H]. specialize (Ha1 t Ht). lia.
    + destruct (proj2 (He t) (or_intror Ht)) as [E|H]; [|exact H]. specialize (Ha2 t Ht). lia.
Qed.

Lemma isort_In t l : In t (isort l) <-> In t l.
Proof.
  split; intros H.
  - eapply Permutation_in; [apply Permutation_sym, isort_perm | exact H].
  - eapply Permutation_in; [apply isort_perm | exact H].
Qed.

Definition frame_types (pkts : list pkt) : list Z :=
  flat_map (fun k => map (fun t => t mod 256) (kFrames k)) pkts.

Lemma frame_set_In t pkts : In t (frame_set pkts) <-> In t (frame_types pkts).
Proof. unfold frame_set. rewrite dedup_In, isort_In. reflexivity. Qed.

Theorem frame_set_ext pkts1 pkts2 :
  (forall t, In t (frame_types pkts1) <-> In t (frame_types pkts2)) <->
  frame_set pkts1 = frame_set pkts2.
Proof.
  split.
  - intros He. apply strict_sorted_ext; try (apply dedup_sorted, isort_sorted).
    intros t. rewrite !frame_set_In. apply He.
  - intros He t. rewrite <- !frame_set_In, He. reflexivity.
Qed.

(** * C11_fp_invariant *)
Definition same_header (a b : pkt) : Prop :=
  kVersion a = kVersion b /\ kDcidLen a = kDcidLen b /\ kScidLen a = kScidLen b /\
  kPN a = kPN b /\ kHasToken a = kHasToken b.

Theorem fp_invariant a r1 b r2 ch w1 w2 :
  same_header a b ->
  (forall t, In t (frame_types (a :: r1)) <-> In t (frame_types (b :: r2))) ->
  NoDup (map fst w1) -> Permutation w1 w2 ->
  fp_features (a :: r1) ch w1 = fp_features (b :: r2) ch w2.
Proof.
  intros [Hv [Hd [Hs [Hp Ht]]]] Hf Hnd Hperm. unfold fp_features, gci_features.
  rewrite (qtp_features_perm w1 w2 Hnd Hperm).
  rewrite (proj1 (frame_set_ext (a :: r1) (b :: r2)) Hf).
  rewrite Hv, Hd, Hs, Hp, Ht. reflexivity.
Qed.

(** * The frame builder: when does the set of frame types depend on the draw? *)

Definition with_frames (k : pkt) (fs : list Z) : pkt :=
  Pkt (kVersion k) (kDcidLen k) (kScidLen k) (kPN k) (kHasToken k) fs.

Lemma in_repeat (x t : Z) n : In t (repeat x n) <-> (t = x /\ n <> O).
Proof.
  induction n as [|n IH]; cbn; [intuition congruence|]. rewrite IH. intuition congruence.
Qed.

Lemma rf_has_ping nP nC nPad : In 1 (frame_types [with_frames (Pkt [] 0 0 [] false []) (rf_types nP nC nPad)]) <-> nP <> O.
Proof.
  unfold frame_types, with_frames, rf_types. cbn [flat_map kFrames]. rewrite app_nil_r.
  rewrite in_map_iff. split.
  - intros [t [Hm Hin]]. rewrite !in_app_iff, !in_repeat in Hin.
    destruct Hin as [[-> H]|[[-> H]|[-> H]]]; cbn in Hm; try discriminate. exact H.
  - intros H. exists 1. split; [reflexivity|]. rewrite in_app_iff, in_repeat. left. auto.
Qed.

(* the frame-type set of a one-packet flight built with nP PINGs *)
Definition built (k : pkt) (nP nC nPad : nat) : list pkt := [with_frames k (rf_types nP nC nPad)].

Lemma built_has_ping k nP nC nPad : In 1 (frame_set (built k nP nC nPad)) <-> nP <> O.
Proof.
  rewrite frame_set_In. unfold built, frame_types, with_frames. cbn [flat_map kFrames].
  pose proof (rf_has_ping nP nC nPad) as H. unfold frame_types, with_frames in H. cbn [flat_map kFrames] in H.
  exact H.
Qed.

(* the candidate finding, for every configuration: if the PING range allows both zero and a
   positive count, two draws give different inputs to the fingerprint hash -- whatever the
   header, the other counts, the ClientHello and the transport parameters are *)
Theorem fp_not_invariant mn mx n :
  draw_ok mn mx 0 = true -> draw_ok mn mx (Z.of_nat (S n)) = true ->
  forall k nC nPad ch w,
    fp_features (built k 0 nC nPad) ch w <> fp_features (built k (S n) nC nPad) ch w.
Proof.
  intros _ _ k nC nPad ch w He. unfold fp_features in He.
  assert (Hg : gci_features (built k 0 nC nPad) = gci_features (built k (S n) nC nPad)) by congruence.
  unfold gci_features, built in Hg. cbn [with_frames kVersion kDcidLen kScidLen kPN kHasToken] in Hg.
  assert (Hf : frame_set (built k 0 nC nPad) = frame_set (built k (S n) nC nPad)).
  { unfold built. congruence. }
  assert (H1 : In 1 (frame_set (built k (S n) nC nPad))) by (apply built_has_ping; discriminate).
  rewrite <- Hf in H1. apply built_has_ping in H1. congruence.
Qed.

(* and conversely: a range that excludes zero PINGs keeps the PING part of the set fixed *)
Theorem fp_ping_stable mn mx n1 n2 :
  1 <= mn -> draw_ok mn mx (Z.of_nat n1) = true -> draw_ok mn mx (Z.of_nat n2) = true ->
  forall k nC nPad, (nC <> O) ->
    frame_set (built k n1 nC nPad) = frame_set (built k n2 nC nPad).
Proof.
  intros Hmn H1 H2 k nC nPad HC.
  assert (Hpos : forall n, draw_ok mn mx (Z.of_nat n) = true -> n <> O).
  { intros n H E. subst n. unfold draw_ok in H. change (Z.of_nat 0) with 0 in H.
    destruct (mx <=? mn); [apply Z.eqb_eq in H; lia|].
    apply andb_true_iff in H as [H _]. apply Z.leb_le in H. lia. }
  apply frame_set_ext. intros t. unfold built, frame_types, with_frames, rf_types. cbn [flat_map kFrames].
  rewrite !app_nil_r, !in_map_iff.
  pose proof (Hpos n1 H1). pose proof (Hpos n2 H2).
  split; intros [x [Hm Hin]]; exists x; (split; [exact Hm|]);
    rewrite !in_app_iff, !in_repeat in *; intuition.
Qed.

(* the same for every range that cannot mix zero with a positive count *)
Theorem ping_range_stable mn mx n1 n2 :
  ping_range_ok mn mx = true ->
  draw_ok mn mx (Z.of_nat n1) = true -> draw_ok mn mx (Z.of_nat n2) = true ->
  forall k nC nPad, (nC <> O) ->
    frame_set (built k n1 nC nPad) = frame_set (built k n2 nC nPad).
Proof.
  intros Hok H1 H2 k nC nPad HC.
  destruct (draw_ok mn mx 0) eqn:D0.
  - (* zero can be drawn: then nothing else can *)
    assert (Hz : forall n, draw_ok mn mx (Z.of_nat n) = true -> n = O).
    { intros n H. unfold ping_range_ok in Hok. rewrite D0 in Hok. cbn [negb orb] in Hok.
      unfold draw_ok in H, D0. destruct (Z.leb_spec mx mn) as [Hle|Hlt].
      - apply Z.eqb_eq in H, D0. lia.
      - apply Z.leb_le in Hok. apply andb_true_iff in H as [_ H]. apply Z.ltb_lt in H. lia. }
    rewrite (Hz n1 H1), (Hz n2 H2). reflexivity.
  - (* zero cannot be drawn: every build has a PING *)
    assert (Hpos : forall n, draw_ok mn mx (Z.of_nat n) = true -> n <> O).
    { intros n H E. subst n. change (Z.of_nat 0) with 0 in H. congruence. }
    apply frame_set_ext. intros t. unfold built, frame_types, with_frames, rf_types. cbn [flat_map kFrames].
    rewrite !app_nil_r, !in_map_iff.
    pose proof (Hpos n1 H1). pose proof (Hpos n2 H2).
    split; intros [x [Hm Hin]]; exists x; (split; [exact Hm|]);
      rewrite !in_app_iff, !in_repeat in *; intuition.
Qed.

(* ... and a range that can mix them is exactly one that is not ok (for the ranges a uint8 pair can give) *)
Lemma ping_range_not_ok mn mx : 0 <= mn -> ping_range_ok mn mx = false ->
  draw_ok mn mx 0 = true /\ draw_ok mn mx (Z.of_nat 1) = true.
Proof.
  intros Hmn H. unfold ping_range_ok in H.
  apply orb_false_iff in H as [H H3]. apply orb_false_iff in H as [H1 H2].
  apply negb_false_iff in H1. split; [exact H1|].
  apply Z.leb_gt in H2, H3. unfold draw_ok in *. destruct (Z.leb_spec mx mn); [lia|].
  apply andb_true_iff in H1 as [Ha _]. apply Z.leb_le in Ha.
  change (Z.of_nat 1) with 1. apply andb_true_iff. split; [apply Z.leb_le | apply Z.ltb_lt]; lia.
Qed.

Theorem ping_mix_differs mn mx : 0 <= mn -> ping_range_ok mn mx = false ->
  draw_ok mn mx 0 = true /\ draw_ok mn mx (Z.of_nat 1) = true /\
  forall k nC nPad ch w,
    fp_features (built k 0 nC nPad) ch w <> fp_features (built k 1 nC nPad) ch w.
Proof.
  intros Hmn H. destruct (ping_range_not_ok mn mx Hmn H) as [H0 H1].
  split; [exact H0|]. split; [exact H1|]. exact (fp_not_invariant mn mx 0%nat H0 H1).
Qed.

(** The built-in parrots (table generated from QUICID2Spec of every built-in QUICID) *)
Lemma parrots_ping_ranges_ok :
  forallb (fun r => ping_range_ok (fst r) (snd r)) uspec_parrot_ping_ranges = true.
Proof. reflexivity. Qed.

Theorem parrots_ping_stable : forall r, In r uspec_parrot_ping_ranges ->
  forall n1 n2, draw_ok (fst r) (snd r) (Z.of_nat n1) = true -> draw_ok (fst r) (snd r) (Z.of_nat n2) = true ->
  forall k nC nPad, nC <> O ->
    frame_set (built k n1 nC nPad) = frame_set (built k n2 nC nPad).
Proof.
  intros r Hin n1 n2 H1 H2. apply (ping_range_stable (fst r) (snd r)); try assumption.
  pose proof parrots_ping_ranges_ok as H. rewrite forallb_forall in H. apply (H r Hin).
Qed.
