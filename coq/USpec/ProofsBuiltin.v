(** USpec proofs, round 8 (audit P1): clause (e), transport-parameter part, INSTANTIATED for
    the built-in QUICIDs.  What clienthellod hashes of the parameters ([qtp_features]) sees an
    id only with GREASE folded, and a value only for eleven ids -- so it ignores the value of
    initial_source_connection_id (differs per dial), GREASE ids and values (differ per spec
    build) and every other non-hashed value.  Every wire list that projects onto the generated
    table entry of a QUICID (checked for each simulated dial of a fresh built-in spec by
    RunFp.builtin_check) has the same feature tuple, the table's. *)
From Coq Require Import List ZArith Bool Lia Permutation String.
From V Require Import Gen.Params Lib.Hex Wire.Varint USpec.Model USpec.Proofs USpec.ProofsFp
  UDial.Model USpec.RunDial USpec.RunFp USpec.ProofsFpCase.
Import ListNotations.
Open Scope Z_scope.

Lemma fp_canon_idem id : fp_canon (fp_canon id) = fp_canon id.
Proof.
  unfold fp_canon. destruct (fp_isGrease id) eqn:E; [reflexivity | rewrite E; reflexivity].
Qed.

Lemma hashed_small id : In id fp_ids11 -> fp_canon id = id.
Proof.
  unfold fp_ids11. cbn. intros H.
  repeat (destruct H as [<-|H]; [reflexivity|]). contradiction.
Qed.

Lemma hashed_existsb id : existsb (Z.eqb id) fp_ids11 = true <-> In id fp_ids11.
Proof.
  rewrite existsb_exists. split.
  - intros [x [Hin He]]. apply Z.eqb_eq in He. subst. exact Hin.
  - intros H. exists id. split; [exact H | apply Z.eqb_refl].
Qed.

(* for a hashed id, the projection neither moves a parameter to that id nor away from it *)
Lemma proj_fst_hashed id p : In id fp_ids11 -> (fst (fp_proj p) =? id) = (fst p =? id).
Proof.
  intros Hid. unfold fp_proj. cbn [fst].
  destruct (Z.eqb_spec (fst p) id) as [->|Hne].
  - rewrite (hashed_small id Hid). apply Z.eqb_refl.
  - apply Z.eqb_neq. intros E. apply Hne.
    unfold fp_canon in E. destruct (fp_isGrease (fst p)); [|exact E].
    (* 27 is not hashed *)
    subst id. exfalso. unfold fp_ids11 in Hid. cbn in Hid. intuition discriminate.
Qed.

Lemma last_val_proj id w : In id fp_ids11 -> last_val id (map fp_proj w) = last_val id w.
Proof.
  intros Hid. unfold last_val. generalize (@nil Z). induction w as [|p w IH]; intros acc; [reflexivity|].
  cbn [map fold_left]. rewrite IH. f_equal.
  rewrite (proj_fst_hashed id p Hid).
  destruct (Z.eqb_spec (fst p) id) as [E|E]; [|reflexivity]. cbn [andb].
  unfold fp_proj. cbn [snd]. rewrite E.
  rewrite (proj2 (hashed_existsb id) Hid). reflexivity.
Qed.

Theorem qtp_features_proj w : qtp_features (map fp_proj w) = qtp_features w.
Proof.
  unfold qtp_features. f_equal.
  - apply map_ext_in. intros id Hid. apply last_val_proj, Hid.
  - f_equal. rewrite map_map. apply map_ext. intros p. unfold fp_proj. cbn [fst]. apply fp_canon_idem.
Qed.

(** hence: the SCID value, GREASE ids and values and all other non-hashed values are ignored *)
Corollary qtp_features_ignores w1 w2 :
  map fp_proj w1 = map fp_proj w2 -> qtp_features w1 = qtp_features w2.
Proof. intros H. rewrite <- (qtp_features_proj w1), <- (qtp_features_proj w2), H. reflexivity. Qed.

(** * the built-in QUICIDs *)
Fixpoint nodupb (l : list Z) : bool :=
  match l with [] => true | x :: r => negb (existsb (Z.eqb x) r) && nodupb r end.
Lemma nodupb_NoDup l : nodupb l = true -> NoDup l.
Proof.
  induction l as [|x r IH]; cbn; [constructor|]. rewrite andb_true_iff, negb_true_iff. intros [Hn Hr].
  constructor; [|apply IH, Hr]. intros Hin.
  assert (existsb (Z.eqb x) r = true) by (apply existsb_exists; exists x; split; [exact Hin | apply Z.eqb_refl]).
  congruence.
Qed.

Lemma builtin_tables_nodup :
  forallb (fun t => nodupb (map fst t)) uspec_builtin_tp = true.
Proof. reflexivity. Qed.

Lemma builtin_tp_nodup q : NoDup (map fst (builtin_tp q)).
Proof.
  unfold builtin_tp. rewrite map_map. cbn [fst].
  pose proof builtin_tables_nodup as H. rewrite forallb_forall in H.
  destruct (nth_in_or_default (Z.to_nat q) uspec_builtin_tp []) as [Hin|Hd].
  - apply nodupb_NoDup. specialize (H _ Hin). rewrite <- H. f_equal.
  - rewrite Hd. constructor.
Qed.

(** C11_builtin_qtp_features: every wire list accepted for built-in QUICID number q -- whatever
    the dial's source connection ID, the spec build's GREASE draw, the shuffle -- has the
    feature tuple of the table entry. *)
Theorem builtin_qtp_features q w :
  builtin_check q w = true -> qtp_features w = qtp_features (builtin_tp q).
Proof.
  unfold builtin_check. rewrite !andb_true_iff. intros [_ Hp].
  apply perm_eqb_sound in Hp. rewrite <- (qtp_features_proj w).
  apply Permutation_sym in Hp. symmetry.
  apply qtp_features_perm; [apply builtin_tp_nodup | exact Hp].
Qed.

Corollary builtin_same_on_every_dial q w1 w2 :
  builtin_check q w1 = true -> builtin_check q w2 = true -> qtp_features w1 = qtp_features w2.
Proof. intros H1 H2. rewrite (builtin_qtp_features q w1 H1), (builtin_qtp_features q w2 H2). reflexivity. Qed.

(* non-vacuity: two Chrome_115 wires with different GREASE draws, orders and (for the sake of
   the example) source connection IDs are both accepted *)
Lemma builtin_example :
  let w1 := [(1, [128; 0; 117; 48]); (3, [69; 192]); (4, [128; 240; 0; 0]); (5, [128; 96; 0; 0]); (6, [128; 96; 0; 0]);
             (7, [128; 96; 0; 0]); (8, [64; 100]); (9, [64; 103]); (15, []); (58, [1; 2]); (32, [128; 1; 0; 0]);
             (12584, [82; 86; 67; 77]); (18258, [0; 0; 0; 1]); (16741339, [0; 0; 0; 1])] in
  let w2 := [(16741339, [0; 0; 0; 1; 10; 10; 10; 10]); (89, []); (15, [7; 7; 7]); (9, [64; 103]); (8, [64; 100]);
             (7, [128; 96; 0; 0]); (6, [128; 96; 0; 0]); (5, [128; 96; 0; 0]); (4, [128; 240; 0; 0]); (3, [69; 192]);
             (1, [128; 0; 117; 48]); (32, [128; 1; 0; 0]); (12584, [82; 86; 67; 77]); (18258, [0; 0; 0; 1])] in
  builtin_check 0 w1 = true /\ builtin_check 0 w2 = true /\ w1 <> w2 /\ perm_eqb w1 w2 = false.
Proof. repeat split; try (vm_compute; reflexivity). vm_compute. discriminate. Qed.
