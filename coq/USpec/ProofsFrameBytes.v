(** USpec proofs, round 7: the frame types a byte-level reader in the manner of clienthellod's
    ReadAllFrames (type as a one-byte varint; PADDING = a run of zero bytes; PING; CRYPTO with
    varint offset and length) extracts from the ENCODED payload are, as a set, [wtypes] of the
    frame list C09's builder model produced.  Closes the gap between ProofsBuilder.wtypes (over
    wire frames) and what the fingerprinter reads (over bytes). *)
From Coq Require Import List ZArith Bool Lia.
From V Require Import Gen.Params Lib.Hex Wire.Varint Wire.VarintProofs
  UFrames.Model UFrames.Proofs USpec.ProofsBuilder.
Import ListNotations.
Open Scope Z_scope.

(* transcribed from clienthellod quic_frame.go ReadAllFrames / PADDING.ReadReader / CRYPTO.ReadReader:
   the frame types in order; None = "unknown frame type" or a truncated CRYPTO header/body *)
Fixpoint types_of (fuel : nat) (b : list Z) : option (list Z) :=
  match b with
  | [] => Some []
  | t :: r =>
    match fuel with
    | O => None
    | S f =>
      if t =? 0 then option_map (cons 0) (types_of f (skip_zeros r))
      else if t =? 1 then option_map (cons 1) (types_of f r)
      else if t =? 6 then
        match vparse r with
        | inr (_, _, r1) =>
          match vparse r1 with
          | inr (len, _, r2) =>
            if zlen r2 <? len then None else option_map (cons 6) (types_of f (skipn (Z.to_nat len) r2))
          | inl _ => None
          end
        | inl _ => None
        end
      else None
    end
  end.

Definition wf_w (w : wframe) : Prop :=
  match w with
  | WCrypto o d => 0 <= o <= maxVarInt8 /\ zlen d <= maxVarInt8
  | _ => True
  end.

Lemma skip_zeros_zeros n b : skip_zeros (zeros n ++ b) = skip_zeros b.
Proof. unfold zeros. induction (Z.to_nat n) as [|k IH]; cbn; [reflexivity | exact IH]. Qed.

Lemma skip_zeros_len b : (length (skip_zeros b) <= length b)%nat.
Proof. induction b as [|x r IH]; cbn; [lia|]. destruct x; cbn; lia. Qed.

Lemma skip_zeros_nz x r : x <> 0 -> skip_zeros (x :: r) = x :: r.
Proof. intros H. cbn. destruct x; congruence. Qed.

Lemma encode_cons w r : encode (w :: r) = enc_w w ++ encode r.
Proof. reflexivity. Qed.

Lemma zeros_pos n : 0 < n -> zeros n = 0 :: zeros (n - 1).
Proof.
  intros H. unfold zeros. replace (Z.to_nat n) with (S (Z.to_nat (n - 1))) by lia. reflexivity.
Qed.
Lemma zeros_nonpos n : n <= 0 -> zeros n = [].
Proof. intros H. unfold zeros. replace (Z.to_nat n) with O by lia. reflexivity. Qed.

Lemma firstn_skipn_app {A} (a b : list A) : skipn (length a) (a ++ b) = b.
Proof. induction a; cbn; auto. Qed.

(* [sub l ws]: l holds only types of ws and every visible non-PADDING type of ws *)
Definition sub (l : list Z) (ws : list wframe) : Prop :=
  (forall t, In t l -> In t (wtypes ws)) /\ (forall t, t <> 0 -> In t (wtypes ws) -> In t l).
Definition same (l : list Z) (ws : list wframe) : Prop := forall t, In t l <-> In t (wtypes ws).

Lemma types_read ws : Forall wf_w ws ->
  (forall fuel, (length (encode ws) <= fuel)%nat -> exists l, types_of fuel (encode ws) = Some l /\ same l ws) /\
  (forall fuel, (length (encode ws) <= fuel)%nat -> exists l, types_of fuel (skip_zeros (encode ws)) = Some l /\ sub l ws).
Proof.
  induction 1 as [|w r Hw Hr [IHB IHC]].
  - split; intros fuel _; exists []; (split; [destruct fuel; reflexivity|]); [intros t; reflexivity | split; [intros t [] | intros t _ []]].
  - assert (B : forall fuel, (length (encode (w :: r)) <= fuel)%nat ->
                exists l, types_of fuel (encode (w :: r)) = Some l /\ same l (w :: r)).
    { intros fuel Hf. rewrite encode_cons in *. rewrite app_length in Hf.
      destruct w as [|n|o d]; cbn [enc_w] in *.
      - (* PING *)
        destruct fuel as [|f]; [cbn in Hf; lia|]. cbn [app types_of]. cbn in Hf.
        destruct (IHB f ltac:(lia)) as [l [Hl Hs]]. rewrite Hl. exists (1 :: l). split; [reflexivity|].
        intros t. cbn. rewrite (Hs t). unfold wtypes. cbn. tauto.
      - (* PADDING *)
        destruct (Z.ltb_spec 0 n) as [Hn|Hn].
        + rewrite (zeros_pos n Hn) in *. destruct fuel as [|f]; [cbn in Hf; lia|]. cbn [app types_of]. cbn in Hf.
          rewrite Z.eqb_refl. rewrite skip_zeros_zeros.
          destruct (IHC f ltac:(lia)) as [l [Hl [Hs1 Hs2]]]. rewrite Hl. exists (0 :: l). split; [reflexivity|].
          intros t. unfold wtypes. cbn [flat_map wtype]. apply Z.ltb_lt in Hn. rewrite Hn. cbn. fold (wtypes r).
          split.
          * intros [<-|Ht]; [left; reflexivity | right; apply Hs1, Ht].
          * intros [<-|Ht]; [left; reflexivity|]. destruct (Z.eq_dec t 0) as [->|Hne]; [left; reflexivity|].
            right. apply Hs2; assumption.
        + rewrite (zeros_nonpos n Hn) in *. cbn [app length] in *.
          destruct (IHB fuel ltac:(lia)) as [l [Hl Hs]]. exists l. split; [exact Hl|].
          intros t. rewrite (Hs t). unfold wtypes. cbn [flat_map wtype].
          assert (E : (0 <? n) = false) by (apply Z.ltb_ge; lia). rewrite E. reflexivity.
      - (* CRYPTO *)
        destruct Hw as [Ho Hd].
        destruct fuel as [|f]; [cbn in Hf; lia|]. cbn [app types_of].
        change (6 =? 0) with false. change (6 =? 1) with false. rewrite Z.eqb_refl. cbn [negb].
        rewrite <- !app_assoc.
        rewrite vparse_vappend by exact Ho.
        rewrite vparse_vappend by (split; [unfold zlen; lia | exact Hd]).
        assert (Hlt : (zlen (d ++ encode r) <? zlen d) = false) by (apply Z.ltb_ge; unfold zlen; rewrite app_length; lia).
        rewrite Hlt. replace (Z.to_nat (zlen d)) with (length d) by (unfold zlen; lia).
        rewrite firstn_skipn_app.
        cbn in Hf. rewrite !app_length in Hf.
        destruct (IHB f ltac:(lia)) as [l [Hl Hs]]. rewrite Hl. exists (6 :: l). split; [reflexivity|].
        intros t. cbn. rewrite (Hs t). unfold wtypes. cbn. tauto. }
    split; [exact B|].
    intros fuel Hf. rewrite encode_cons in *.
    destruct w as [|n|o d]; cbn [enc_w] in *.
    + cbn [app]. rewrite skip_zeros_nz by discriminate.
      destruct (B fuel) as [l [Hl Hs]]; [exact Hf|].
      cbn [enc_w app] in Hl. exists l. split; [exact Hl|].
      split; intros t; [apply Hs | intros _; apply Hs].
    + rewrite skip_zeros_zeros. rewrite app_length in Hf.
      destruct (IHC fuel ltac:(lia)) as [l [Hl [Hs1 Hs2]]]. exists l. split; [exact Hl|].
      unfold sub, wtypes. cbn [flat_map wtype]. fold (wtypes r). split.
      * intros t Ht. apply in_or_app. right. apply Hs1, Ht.
      * intros t Hne Ht. apply in_app_or in Ht as [Ht|Ht]; [|apply Hs2; assumption].
        destruct (0 <? n); cbn in Ht; [destruct Ht as [<-|[]]; congruence | contradiction].
    + cbn [app]. rewrite skip_zeros_nz by discriminate.
      destruct (B fuel) as [l [Hl Hs]]; [exact Hf|].
      cbn [enc_w app] in Hl. exists l. split; [exact Hl|].
      split; intros t; [apply Hs | intros _; apply Hs].
Qed.

Theorem types_of_encode ws : Forall wf_w ws ->
  exists l, types_of (length (encode ws)) (encode ws) = Some l /\ forall t, In t l <-> In t (wtypes ws).
Proof. intros H. apply (proj1 (types_read ws H)). lia. Qed.

(** * composed with the builder: the reader applied to the bytes of any payload of an accepted
      builder finds exactly [builder_types] *)
Lemma chained_bounds ps : forall o, chained o ps ->
  forall o' d, In (o', d) ps -> o <= o' /\ o' + zlen d <= o + zlen (concat (map snd ps)).
Proof.
  induction ps as [|[o1 d1] r IH]; intros o Hc o' d Hin; [contradiction|].
  destruct Hc as [-> Hc]. cbn [map snd concat]. unfold zlen in *. rewrite app_length.
  destruct Hin as [E|Hin].
  - inversion E; subst. lia.
  - destruct (IH _ Hc _ _ Hin). unfold zlen in *. lia.
Qed.

Lemma in_wcryptos ws o d : In (WCrypto o d) ws -> In (o, d) (wcryptos ws).
Proof.
  intros H. unfold wcryptos. apply in_flat_map. exists (WCrypto o d). split; [exact H | left; reflexivity].
Qed.

Lemma exact_cover_wf data base ws :
  0 <= base -> base + zlen data <= maxVarInt8 -> exact_cover data base ws -> Forall wf_w ws.
Proof.
  intros Hb Hm (ps & Hp & Hc & Hd). rewrite Forall_forall. intros w Hin.
  destruct w as [|n|o d]; cbn; try exact I.
  apply in_wcryptos in Hin. apply (Permutation.Permutation_in _ Hp) in Hin.
  destruct (chained_bounds ps base Hc o d Hin) as [H1 H2]. rewrite Hd in H2.
  assert (0 <= zlen d) by (unfold zlen; lia). lia.
Qed.

Theorem builder_bytes_types p data base bs us ws bs' us' :
  builder_ok p -> slice_ok p data base ->
  build_internal p data base bs us = Ok (ws, bs', us') ->
  exists l, types_of (length (encode ws)) (encode ws) = Some l /\
            forall t, In t l <-> In t (builder_types p).
Proof.
  intros Hp Hs Hb.
  pose proof Hp as (Hwf & Hlen & Hpad & Hrange). pose proof Hs as (Hb0 & Hmax & Hd).
  assert (Hmd : base + zlen data <= maxVarInt8) by (pose proof (maxCryptoData_le p base Hlen Hwf); lia).
  pose proof (build_internal_exact p data base bs us Hwf Hb0 Hmd) as Hex. rewrite Hb in Hex.
  destruct Hex as [Hcov _].
  destruct (types_of_encode ws (exact_cover_wf _ _ _ Hb0 Hmd Hcov)) as [l [Hl Hsame]].
  exists l. split; [exact Hl|]. intros t. rewrite (Hsame t).
  exact (frame_types_from_builder p data base bs us ws bs' us' Hp Hs Hb t).
Qed.
