(** USpec, round 8 (audit P3): proofs about histories with TransportParamIDs() calls
    (definitions in HistoryModel.v). *)
From Coq Require Import List ZArith Bool Lia Permutation.
From V Require Import Gen.Params Lib.Hex Wire.Varint USpec.Model USpec.Proofs USpec.ProofsWire
  UDial.Model UDial.Proofs USpec.ProofsDial USpec.HistoryModel.
Import ListNotations.
Open Scope Z_scope.

(** * the repaired method: IDs() calls are invisible to every dial *)
Theorem hrun_erase ops : forall st,
  match hrun st ops, run st (erase_ids ops) with
  | Some (st1, outs), Some (st2, views) => st1 = st2 /\ wires_of outs = views
  | None, None => True
  | _, _ => False
  end.
Proof.
  induction ops as [|[scid o| s | b |] r IH]; intros st; unfold hrun, run in *; cbn [hrun_with erase_ids run_with].
  - split; reflexivity.
  - destruct (UDial.Model.dial st scid o) as [[st' w]|]; [|exact I].
    specialize (IH st'). destruct (hrun_with ids_fixed st' r) as [[s1 o1]|]; destruct (run_with UDial.Model.dial st' (erase_ids r)) as [[s2 v2]|]; try contradiction; [|exact I].
    destruct IH as [-> <-]. split; reflexivity.
  - apply IH.
  - apply IH.
  - change (ids_fixed st) with (fst (tp_ids (sSup st) (sParams st)), st). cbv iota beta. specialize (IH st).
    destruct (hrun_with ids_fixed st r) as [[s1 o1]|]; destruct (run_with UDial.Model.dial st (erase_ids r)) as [[s2 v2]|]; try contradiction; [|exact I].
    destruct IH as [-> <-]. split; reflexivity.
Qed.

(* the settings in force after a prefix of a history *)
Definition hedits (st : spec_state) (ops : list hop) : spec_state := edits st (erase_ids ops).

Lemma erase_ids_app a b : erase_ids (a ++ b) = erase_ids a ++ erase_ids b.
Proof. induction a as [|[? ?|?|?|] r IH]; cbn; rewrite ?IH; reflexivity. Qed.

(** C11_dial_k_wire over histories that include IDs() calls (repaired method) *)
Theorem hdial_k_wire st ops1 scid o ops2 st' outs :
  wf_spec st -> zlen scid <= maxVarInt8 ->
  hrun st (ops1 ++ HDial scid o :: ops2) = Some (st', outs) ->
  let cur := hedits st ops1 in
  exists w,
    nth_error (wires_of outs) (count_dials (erase_ids ops1)) = Some (scid, w) /\
    parse (wExt w) = Some (wire_list (sSup cur) (sRnd cur) (oJs o) scid (sParams st)) /\
    (if sRnd cur
     then Permutation (suppress (sSup cur) (sParams st)) (dial_list (sSup cur) (sRnd cur) (oJs o) (sParams st))
     else dial_list (sSup cur) (sRnd cur) (oJs o) (sParams st) = suppress (sSup cur) (sParams st)).
Proof.
  intros Hw Hs H cur.
  pose proof (hrun_erase (ops1 ++ HDial scid o :: ops2) st) as He. rewrite H in He.
  rewrite erase_ids_app in He. cbn [erase_ids] in He.
  destruct (run st (erase_ids ops1 ++ ODial scid o :: erase_ids ops2)) as [[st2 views]|] eqn:Er; [|contradiction].
  destruct He as [_ Hv]. rewrite Hv.
  destruct (dial_k_wire _ _ _ _ _ _ _ Hw Hs Er) as [w [Hn [Hp [_ Hperm]]]].
  exists w. split; [exact Hn|]. split; [exact Hp | exact Hperm].
Qed.

(** every IDs() call of a history returns the canonicalised ids of what a dial at that point
    sends, and leaves the spec as written *)
Fixpoint ids_outs (outs : list hout) : list (list Z) :=
  match outs with
  | [] => []
  | HIdsOut i :: r => i :: ids_outs r
  | HWire _ _ :: r => ids_outs r
  end.
Fixpoint count_ids (ops : list hop) : nat :=
  match ops with
  | [] => O
  | HIds :: r => S (count_ids r)
  | _ :: r => count_ids r
  end.

Lemma hrun_ids_prefix ops1 : forall st ops2 st' outs,
  hrun st (ops1 ++ HIds :: ops2) = Some (st', outs) ->
  nth_error (ids_outs outs) (count_ids ops1) =
    Some (fst (tp_ids (sSup (hedits st ops1)) (sParams st))) /\ sParams st' = sParams st.
Proof.
  induction ops1 as [|[scid o| s | b |] r IH]; intros st ops2 st' outs H; unfold hrun in *; cbn [app hrun_with] in H.
  - change (ids_fixed st) with (fst (tp_ids (sSup st) (sParams st)), st) in H. cbv iota beta in H.
    destruct (hrun_with ids_fixed st ops2) as [[s1 o1]|] eqn:E; [|discriminate]. inversion H; subst. cbn.
    split; [reflexivity|].
    pose proof (hrun_erase ops2 st) as He. unfold hrun in He. rewrite E in He.
    destruct (run st (erase_ids ops2)) as [[s2 v2]|] eqn:Er; [|contradiction]. destruct He as [-> _].
    rewrite (run_final _ _ _ _ Er). apply edits_params.
  - destruct (UDial.Model.dial st scid o) as [[st1 w]|] eqn:Ed; [|discriminate].
    pose proof (dial_unchanged _ _ _ _ _ Ed). subst st1.
    destruct (hrun_with ids_fixed st (r ++ HIds :: ops2)) as [[s1 o1]|] eqn:E; [|discriminate]. inversion H; subst.
    cbn [ids_outs count_ids hedits erase_ids edits]. apply (IH _ _ _ _ E).
  - cbn [count_ids]. destruct (IH _ _ _ _ H) as [H1 H2]. split; [exact H1 | exact H2].
  - cbn [count_ids]. destruct (IH _ _ _ _ H) as [H1 H2]. split; [exact H1 | exact H2].
  - change (ids_fixed st) with (fst (tp_ids (sSup st) (sParams st)), st) in H. cbv iota beta in H.
    destruct (hrun_with ids_fixed st (r ++ HIds :: ops2)) as [[s1 o1]|] eqn:E; [|discriminate]. inversion H; subst.
    cbn [ids_outs count_ids nth_error hedits erase_ids]. apply (IH _ _ _ _ E).
Qed.

(** * the method before the repair: a witness that a dial after IDs() is not the spec's *)
Definition p3_spec : spec_state := Spec [P 4 [5] true; P 1 [7] true; P 9 [3] true] None [] [] [] false.
Definition p3_history : list hop := [HSetSup [4]; HIds; HSetSup []; HDial [] (Oracle [] [] [])].
Definition wire_ids (outs : list hout) : list (option (list Z)) :=
  map (fun sw => option_map (map fst) (parse (wExt (snd sw)))) (wires_of outs).

Lemma p3_legacy_refuted :
  option_map (fun r => wire_ids (snd r)) (hrun_legacy p3_spec p3_history) = Some [Some [1; 9]] /\
  option_map (fun r => wire_ids (snd r)) (hrun p3_spec p3_history) = Some [Some [4; 1; 9]] /\
  wire_list [] false [] [] (sParams p3_spec) = [(4, [5]); (1, [7]); (9, [3])].
Proof. repeat split; vm_compute; reflexivity. Qed.
