(** USpec proofs, round 7: what the replay of the simfingerprint cases (RunFp.v) establishes,
    the per-dial copy of key shares and server name, and the GREASE / extension-order classes. *)
From Coq Require Import List ZArith Bool Lia Permutation String ZifyBool.
From V Require Import Gen.Params Lib.Hex Wire.Varint USpec.Model USpec.Proofs USpec.ProofsShuffle
  USpec.ProofsWire UDial.Model UDial.Proofs USpec.ProofsDial USpec.RunDial USpec.RunFp.
Import ListNotations.
Open Scope Z_scope.

(** * the executable permutation test is sound and complete *)
Lemma pv_eqb_eq a b : pv_eqb a b = true <-> a = b.
Proof.
  destruct a as [i v], b as [j w]. unfold pv_eqb. cbn [fst snd].
  rewrite andb_true_iff, Z.eqb_eq, zeqb_list_eq. split; [intros [-> ->]; reflexivity | intros H; inversion H; auto].
Qed.

Lemma remove1_perm x l r : remove1 x l = Some r -> Permutation l (x :: r).
Proof.
  revert r. induction l as [|y l IH]; intros r H; cbn in H; [discriminate|].
  destruct (pv_eqb x y) eqn:E.
  - apply pv_eqb_eq in E. subst y. inversion H; subst. apply Permutation_refl.
  - destruct (remove1 x l) as [r'|]; [|discriminate]. inversion H; subst.
    eapply perm_trans; [apply perm_skip, IH; reflexivity | apply perm_swap].
Qed.

Lemma remove1_in x l : In x l -> exists r, remove1 x l = Some r.
Proof.
  induction l as [|y l IH]; intros Hin; [contradiction|]. cbn.
  destruct (pv_eqb x y) eqn:E; [eexists; reflexivity|].
  destruct Hin as [->|Hin]; [rewrite (proj2 (pv_eqb_eq x x) eq_refl) in E; discriminate|].
  destruct (IH Hin) as [r Hr]. rewrite Hr. eexists; reflexivity.
Qed.

Theorem perm_eqb_sound a : forall b, perm_eqb a b = true -> Permutation a b.
Proof.
  induction a as [|x a IH]; intros b H; cbn in H.
  - destruct b; [constructor | discriminate].
  - destruct (remove1 x b) as [b'|] eqn:E; [|discriminate].
    apply Permutation_sym. eapply perm_trans; [apply remove1_perm; exact E|].
    apply perm_skip, Permutation_sym, IH, H.
Qed.

Theorem perm_eqb_complete a : forall b, Permutation a b -> perm_eqb a b = true.
Proof.
  induction a as [|x a IH]; intros b Hp; cbn.
  - apply Permutation_nil in Hp. subst. reflexivity.
  - assert (Hin : In x b) by (eapply Permutation_in; [exact Hp | left; reflexivity]).
    destruct (remove1_in x b Hin) as [r Hr]. rewrite Hr. apply IH.
    apply (Permutation_cons_inv (a := x)).
    eapply perm_trans; [exact Hp | apply remove1_perm, Hr].
Qed.

(** * a randomised case that passes is the model's dial under some admissible draws *)
Theorem fp_case_has_draws sup scid ps w :
  perm_eqb (wire_list sup false [] scid ps) w = true ->
  exists js, admissible (List.length (suppress sup ps) - 1) js /\ wire_list sup true js scid ps = w.
Proof.
  intros H. apply perm_eqb_sound in H. unfold wire_list, dial_list in *.
  rewrite map_map in H. apply Permutation_sym in H.
  destruct (Permutation_map_inv _ _ H) as [l3 [Hw Hp]].
  destruct (shuffle_surjective _ _ Hp) as [js [Ha Hs]].
  exists js. split; [exact Ha|]. rewrite Hs, map_map. symmetry. exact Hw.
Qed.

(* and conversely the model's dial under any draws passes the test *)
Theorem fp_case_any_draws sup scid ps js :
  perm_eqb (wire_list sup false [] scid ps) (wire_list sup true js scid ps) = true.
Proof.
  apply perm_eqb_complete. unfold wire_list, dial_list.
  apply Permutation_map, Permutation_map, shuffle_perm.
Qed.

(** * key shares and server name of the k-th dial (dialClientHelloSpec: per-dial copies) *)
Definition supplied (k : keyshare) : Prop := isGrease16 (kGroup k) = true \/ 1 < zlen (kData k).
(* what uTLS does to one entry: the group stays; a GREASE entry and a key the caller supplied
   go out with their own bytes; the others get a generated key *)
Definition key_rel (ks kw : keyshare) : Prop :=
  kGroup kw = kGroup ks /\ (supplied ks -> kData kw = kData ks).

Lemma gen_keys_rel ks : forall fresh, Forall2 key_rel ks (fst (gen_keys ks fresh)).
Proof.
  induction ks as [|k r IH]; intros fresh; [constructor|]. cbn [gen_keys].
  destruct (isGrease16 (kGroup k)) eqn:Eg.
  - specialize (IH fresh). destruct (gen_keys r fresh) as [r' h]. cbn in *.
    constructor; [split; auto | exact IH].
  - destruct (1 <? zlen (kData k)) eqn:El.
    + specialize (IH fresh). destruct (gen_keys r fresh) as [r' h]. cbn in *.
      constructor; [split; auto | exact IH].
    + destruct fresh as [|f fr].
      * specialize (IH []). destruct (gen_keys r []) as [r' h]. cbn in *.
        constructor; [split; auto | exact IH].
      * specialize (IH fr). destruct (gen_keys r fr) as [r' h]. cbn in *.
        constructor; [|exact IH]. split; [reflexivity|].
        intros [Hg|Hd]; [congruence|]. apply Z.ltb_ge in El. lia.
Qed.

Theorem dial_k_keys st ops1 scid o ops2 st' views :
  run st (ops1 ++ ODial scid o :: ops2) = Some (st', views) ->
  exists w, nth_error views (count_dials ops1) = Some (scid, w) /\
    Forall2 key_rel (sKeys st) (wKeys w) /\
    wSNI w = pick_sni (sSNI st) (oName o) /\
    sKeys st' = sKeys st /\ sSNI st' = sSNI st /\ sParams st' = sParams st.
Proof.
  intros H. destruct (run_split _ _ _ _ _ _ _ H) as [w [Hd [Hn Hfin]]].
  exists w. split; [exact Hn|]. unfold UDial.Model.dial in Hd.
  destruct (USpec.Model.dial _ _ _ _ _) as [[[v own] ov]|]; [|discriminate].
  rewrite edits_keys, edits_sni in Hd.
  pose proof (gen_keys_rel (sKeys st) (oFresh o)) as Hk.
  destruct (gen_keys (sKeys st) (oFresh o)) as [keys held]. inversion Hd; subst w; clear Hd. cbn [wKeys wSNI fst] in *.
  split; [exact Hk|]. split; [reflexivity|]. subst st'.
  rewrite edits_keys, edits_sni, edits_params. auto.
Qed.

(** * classes: GREASE values and the extension list *)

(* uTLS's GREASE values are the sixteen 0x?a?a with equal bytes *)
Section Grease.
Local Ltac Zify.zify_post_hook ::= Z.div_mod_to_equations.
Theorem grease16_class v : 0 <= v < 65536 ->
  (isGrease16 v = true <-> exists k, 0 <= k < 16 /\ v = 2570 + 4112 * k).
Proof.
  intros Hv. unfold isGrease16. rewrite andb_true_iff, !Z.eqb_eq. split.
  - intros [H1 H2]. exists ((v mod 256) / 16). lia.
  - intros [k [Hk ->]]. lia.
Qed.
End Grease.

Lemma norm16_idem v : norm16 (norm16 v) = norm16 v.
Proof. unfold norm16. destruct (isGrease16 v) eqn:E; [reflexivity | rewrite E; reflexivity]. Qed.

(* what [exts_match] allows: the wire list is the spec's list with GREASE values folded,
   position by position, from which some padding extensions (21) may have been left out *)
Fixpoint drop_some_padding (spec wire : list Z) : Prop :=
  match spec with
  | [] => wire = []
  | s :: spec' =>
    (exists w wire', wire = w :: wire' /\ norm16 s = norm16 w /\ drop_some_padding spec' wire') \/
    (s = 21 /\ drop_some_padding spec' wire)
  end.

Theorem exts_match_spec spec : forall wire, exts_match spec wire = true -> drop_some_padding spec wire.
Proof.
  induction spec as [|s spec IH]; intros wire H.
  - destruct wire; [reflexivity | discriminate].
  - destruct wire as [|w wire]; cbn in H.
    + apply andb_true_iff in H as [H1 H2]. apply Z.eqb_eq in H1. right. split; [exact H1 | apply IH, H2].
    + destruct (Z.eqb_spec (norm16 s) (norm16 w)) as [E|E].
      * left. exists w, wire. auto.
      * destruct (Z.eqb_spec s 21) as [E2|E2]; [|discriminate]. right. split; [exact E2 | apply IH, H].
Qed.

(* without a padding extension in the spec the lists agree position by position *)
Corollary exts_match_exact spec wire :
  ~ In 21 spec -> exts_match spec wire = true -> map norm16 wire = map norm16 spec.
Proof.
  revert wire. induction spec as [|s spec IH]; intros wire Hn H; apply exts_match_spec in H.
  - cbn in H. subst. reflexivity.
  - cbn in H. destruct H as [[w [wire' [-> [E H]]]]|[E _]].
    + cbn. f_equal; [symmetry; exact E|]. apply IH; [intros Hi; apply Hn; right; exact Hi|].
      (* back to the boolean to reuse IH *)
      clear -H Hn. revert wire' H. induction spec as [|s' spec IH2]; intros wire' H.
      * cbn in H. subst. reflexivity.
      * cbn in H. destruct H as [[w' [w'' [-> [E H]]]]|[E _]].
        -- cbn. rewrite E, Z.eqb_refl. apply IH2; [intros Hi; apply Hn; cbn in *; tauto | exact H].
        -- exfalso. apply Hn. right. left. exact E.
    + exfalso. apply Hn. left. exact E.
Qed.
