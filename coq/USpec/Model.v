(** USpec: what a QUICSpec does to its QUIC transport parameters on the way to the wire.

    Mirrors (uquic):
      u_parrot.go        IsGREASEQTPID, SuppressQUICTransportParams, ShuffleQUICTransportParams
      u_quic_spec.go     QUICSpec.TransportParamIDs
      u_connection.go    newUClientConnection: suppress, optional shuffle, PopulateFromUQUIC
      internal/wire/u_transport_parameters.go   PopulateFromUQUIC (typed read-back, ClientOverride)
    and (outside /repo, transcribed as the environment the property talks about)
      utls  TransportParams.Marshal  (varint id, varint length, value)
      math/rand.Shuffle                  (i from n-1 down to 1, swap(i, j) with j drawn from [0,i])
      clienthellod                       the fields its QUIC fingerprint hashes.

    A transport parameter is (id, value bytes, typed?).  uTLS computes id and value of a
    parameter object (oracle: the harness logs them); [ptyped] says whether the Go value has
    the dedicated uTLS type of its id, which is what PopulateFromUQUIC's type assertions
    look at.  Executable definitions only.
    (Go identifiers are written with "Param" for their longer spelling, e.g. TransportParamIDs.) *)
From Coq Require Import List ZArith Bool.
From V Require Import Gen.Params Lib.Hex Wire.Varint.
Import ListNotations.
Open Scope Z_scope.

Record param := P { pid : Z; pval : list Z; ptyped : bool }.

(** ** u_parrot.go: IsGREASEQTPID (uint64 arithmetic; no wrap because of the first test) *)
Definition isGrease (id : Z) : bool :=
  (uspec_QTPGrease <=? id) && ((id - uspec_QTPGrease) mod 31 =? 0).

(** ** u_parrot.go: SuppressQUICTransportParams *)
Definition suppressGrease (sup : list Z) : bool := existsb (fun s => s =? uspec_QTPGrease) sup.
(* the [ids] map: every listed id except QTPGrease itself *)
Definition listed (sup : list Z) (id : Z) : bool :=
  existsb (fun s => negb (s =? uspec_QTPGrease) && (s =? id)) sup.
Definition dropped (sup : list Z) (id : Z) : bool :=
  listed sup id || (suppressGrease sup && isGrease id).
Definition suppress (sup : list Z) (ps : list param) : list param :=
  match sup with
  | [] => ps                                                 (* len(suppress) == 0: untouched *)
  | _ => filter (fun p => negb (dropped sup (pid p))) ps
  end.

(** ** math/rand.Shuffle as used by ShuffleQUICTransportParams *)
Fixpoint upd {A} (l : list A) (k : nat) (x : A) : list A :=
  match l, k with
  | [], _ => []
  | _ :: t, O => x :: t
  | h :: t, S k' => h :: upd t k' x
  end.

(* l[i], l[j] = l[j], l[i]; Go would panic on an index out of range, the model leaves the
   list alone (admissible draws never get there). *)
Definition swap {A} (l : list A) (i j : nat) : list A :=
  match nth_error l i, nth_error l j with
  | Some a, Some b => upd (upd l i b) j a
  | _, _ => l
  end.

(* for i := n-1; i > 0; i-- { j := draw in [0,i]; swap(i, j) } -- [js] are the draws in order *)
Fixpoint shuffle_from {A} (i : nat) (l : list A) (js : list nat) : list A :=
  match i, js with
  | S i', j :: js' => shuffle_from i' (swap l i j) js'
  | _, _ => l
  end.
Definition shuffle {A} (l : list A) (js : list nat) : list A := shuffle_from (length l - 1) l js.

(* draws the generator can produce for the loop starting at index i: one per step, j <= i *)
Fixpoint admissible (i : nat) (js : list nat) : Prop :=
  match i, js with
  | O, [] => True
  | S i', j :: js' => (j <= i)%nat /\ admissible i' js'
  | _, _ => False
  end.
Fixpoint admissibleb (i : nat) (js : list nat) : bool :=
  match i, js with
  | O, [] => true
  | S i', j :: js' => (j <=? i)%nat && admissibleb i' js'
  | _, _ => false
  end.

(* the (i, j) pairs a recording callback sees must be (n-1, j1), (n-2, j2), ..., (1, j_{n-1}) *)
Fixpoint swaps_wellformed (i : nat) (sw : list (nat * nat)) : bool :=
  match i, sw with
  | O, [] => true
  | S i', (a, j) :: r => (a =? i)%nat && (j <=? i)%nat && swaps_wellformed i' r
  | _, _ => false
  end.

(** ** u_quic_spec.go: TransportParamIDs *)
Definition canon (id : Z) : Z := if isGrease id then uspec_QTPGrease else id.
Fixpoint insert (x : Z) (l : list Z) : list Z :=
  match l with
  | [] => [x]
  | y :: r => if x <=? y then x :: l else y :: insert x r
  end.
Definition isort (l : list Z) : list Z := fold_right insert [] l.
(* returns the ids and the list the spec holds afterwards.  Since
   fixes/C11-transport-parameter-ids-on-a-copy.patch the method suppresses on a COPY: the spec
   keeps the list as the caller wrote it.  [tp_ids_legacy] is the method before the repair
   (it suppressed on the spec's own extension, so the spec kept the shortened list). *)
Definition tp_ids (sup : list Z) (ps : list param) : list Z * list param :=
  (isort (map (fun p => canon (pid p)) (suppress sup ps)), ps).
Definition tp_ids_legacy (sup : list Z) (ps : list param) : list Z * list param :=
  let s := suppress sup ps in (isort (map (fun p => canon (pid p)) s), s).

(** ** utls TransportParams.Marshal and a reader for it *)
Definition marshal1 (p : param) : list Z := vappend (pid p) ++ vappend (zlen (pval p)) ++ pval p.
Definition marshal (ps : list param) : list Z := flat_map marshal1 ps.

Fixpoint parse_fuel (fuel : nat) (b : list Z) : option (list (Z * list Z)) :=
  match b with
  | [] => Some []
  | _ =>
    match fuel with
    | O => None
    | S f =>
      match vparse b with
      | inr (id, _, r1) =>
        match vparse r1 with
        | inr (len, _, r2) =>
          if zlen r2 <? len then None
          else match parse_fuel f (skipn (Z.to_nat len) r2) with
               | Some ps => Some ((id, firstn (Z.to_nat len) r2) :: ps)
               | None => None
               end
        | inl _ => None
        end
      | inl _ => None
      end
    end
  end.
Definition parse (b : list Z) : option (list (Z * list Z)) := parse_fuel (length b) b.
Definition idval (p : param) : Z * list Z := (pid p, pval p).

(** ** internal/wire/u_transport_parameters.go: PopulateFromUQUIC
    (as rewritten by /repo 7263726, fixes/C12-record-every-advertised-parameter.patch: the record
    starts from the protocol defaults a peer assumes for parameters the list leaves out, and
    every integer parameter is read BY ID from the value that goes on the wire, whatever Go
    type carries it; a value that is not exactly one varint is skipped; durations saturate;
    max_udp_payload_size and ack_delay_exponent are recorded too) *)
Record view := View {
  vMaxIdleTimeout : Z;          (* time.Duration, ns *)
  vInitialMaxData : Z;
  vBidiLocal : Z; vBidiRemote : Z; vUni : Z;
  vMaxBidiStreamNum : Z; vMaxUniStreamNum : Z;
  vMaxAckDelay : Z;             (* time.Duration, ns *)
  vDisableActiveMigration : bool;
  vActiveConnectionIDLimit : Z;
  vInitialSourceConnectionID : list Z;
  vMaxDatagramFrameSize : Z;
  vMaxUDPPayloadSize : Z;
  vAckDelayExponent : Z }.

Definition maxInt64 : Z := 2 ^ 63 - 1.
(* duration(v, time.Millisecond): saturates instead of wrapping around *)
Definition millis (v : Z) : Z := if maxInt64 / 1000000 <? v then maxInt64 else v * 1000000.
(* numeric(param): the value is exactly one varint *)
Definition is_single (b : list Z) : bool :=
  match vparse b with inr (_, n, _) => n =? zlen b | inl _ => false end.
Definition sval (b : list Z) : Z := match vparse b with inr (v, _, _) => v | inl _ => 0 end.

Definition set_idle v x := View x (vInitialMaxData v) (vBidiLocal v) (vBidiRemote v) (vUni v) (vMaxBidiStreamNum v) (vMaxUniStreamNum v) (vMaxAckDelay v) (vDisableActiveMigration v) (vActiveConnectionIDLimit v) (vInitialSourceConnectionID v) (vMaxDatagramFrameSize v) (vMaxUDPPayloadSize v) (vAckDelayExponent v).
Definition set_data v x := View (vMaxIdleTimeout v) x (vBidiLocal v) (vBidiRemote v) (vUni v) (vMaxBidiStreamNum v) (vMaxUniStreamNum v) (vMaxAckDelay v) (vDisableActiveMigration v) (vActiveConnectionIDLimit v) (vInitialSourceConnectionID v) (vMaxDatagramFrameSize v) (vMaxUDPPayloadSize v) (vAckDelayExponent v).
Definition set_bl v x := View (vMaxIdleTimeout v) (vInitialMaxData v) x (vBidiRemote v) (vUni v) (vMaxBidiStreamNum v) (vMaxUniStreamNum v) (vMaxAckDelay v) (vDisableActiveMigration v) (vActiveConnectionIDLimit v) (vInitialSourceConnectionID v) (vMaxDatagramFrameSize v) (vMaxUDPPayloadSize v) (vAckDelayExponent v).
Definition set_br v x := View (vMaxIdleTimeout v) (vInitialMaxData v) (vBidiLocal v) x (vUni v) (vMaxBidiStreamNum v) (vMaxUniStreamNum v) (vMaxAckDelay v) (vDisableActiveMigration v) (vActiveConnectionIDLimit v) (vInitialSourceConnectionID v) (vMaxDatagramFrameSize v) (vMaxUDPPayloadSize v) (vAckDelayExponent v).
Definition set_uni v x := View (vMaxIdleTimeout v) (vInitialMaxData v) (vBidiLocal v) (vBidiRemote v) x (vMaxBidiStreamNum v) (vMaxUniStreamNum v) (vMaxAckDelay v) (vDisableActiveMigration v) (vActiveConnectionIDLimit v) (vInitialSourceConnectionID v) (vMaxDatagramFrameSize v) (vMaxUDPPayloadSize v) (vAckDelayExponent v).
Definition set_mb v x := View (vMaxIdleTimeout v) (vInitialMaxData v) (vBidiLocal v) (vBidiRemote v) (vUni v) x (vMaxUniStreamNum v) (vMaxAckDelay v) (vDisableActiveMigration v) (vActiveConnectionIDLimit v) (vInitialSourceConnectionID v) (vMaxDatagramFrameSize v) (vMaxUDPPayloadSize v) (vAckDelayExponent v).
Definition set_mu v x := View (vMaxIdleTimeout v) (vInitialMaxData v) (vBidiLocal v) (vBidiRemote v) (vUni v) (vMaxBidiStreamNum v) x (vMaxAckDelay v) (vDisableActiveMigration v) (vActiveConnectionIDLimit v) (vInitialSourceConnectionID v) (vMaxDatagramFrameSize v) (vMaxUDPPayloadSize v) (vAckDelayExponent v).
Definition set_ack v x := View (vMaxIdleTimeout v) (vInitialMaxData v) (vBidiLocal v) (vBidiRemote v) (vUni v) (vMaxBidiStreamNum v) (vMaxUniStreamNum v) x (vDisableActiveMigration v) (vActiveConnectionIDLimit v) (vInitialSourceConnectionID v) (vMaxDatagramFrameSize v) (vMaxUDPPayloadSize v) (vAckDelayExponent v).
Definition set_dam v x := View (vMaxIdleTimeout v) (vInitialMaxData v) (vBidiLocal v) (vBidiRemote v) (vUni v) (vMaxBidiStreamNum v) (vMaxUniStreamNum v) (vMaxAckDelay v) x (vActiveConnectionIDLimit v) (vInitialSourceConnectionID v) (vMaxDatagramFrameSize v) (vMaxUDPPayloadSize v) (vAckDelayExponent v).
Definition set_acl v x := View (vMaxIdleTimeout v) (vInitialMaxData v) (vBidiLocal v) (vBidiRemote v) (vUni v) (vMaxBidiStreamNum v) (vMaxUniStreamNum v) (vMaxAckDelay v) (vDisableActiveMigration v) x (vInitialSourceConnectionID v) (vMaxDatagramFrameSize v) (vMaxUDPPayloadSize v) (vAckDelayExponent v).
Definition set_scid v x := View (vMaxIdleTimeout v) (vInitialMaxData v) (vBidiLocal v) (vBidiRemote v) (vUni v) (vMaxBidiStreamNum v) (vMaxUniStreamNum v) (vMaxAckDelay v) (vDisableActiveMigration v) (vActiveConnectionIDLimit v) x (vMaxDatagramFrameSize v) (vMaxUDPPayloadSize v) (vAckDelayExponent v).
Definition set_dg v x := View (vMaxIdleTimeout v) (vInitialMaxData v) (vBidiLocal v) (vBidiRemote v) (vUni v) (vMaxBidiStreamNum v) (vMaxUniStreamNum v) (vMaxAckDelay v) (vDisableActiveMigration v) (vActiveConnectionIDLimit v) (vInitialSourceConnectionID v) x (vMaxUDPPayloadSize v) (vAckDelayExponent v).
Definition set_udp v x := View (vMaxIdleTimeout v) (vInitialMaxData v) (vBidiLocal v) (vBidiRemote v) (vUni v) (vMaxBidiStreamNum v) (vMaxUniStreamNum v) (vMaxAckDelay v) (vDisableActiveMigration v) (vActiveConnectionIDLimit v) (vInitialSourceConnectionID v) (vMaxDatagramFrameSize v) x (vAckDelayExponent v).
Definition set_ade v x := View (vMaxIdleTimeout v) (vInitialMaxData v) (vBidiLocal v) (vBidiRemote v) (vUni v) (vMaxBidiStreamNum v) (vMaxUniStreamNum v) (vMaxAckDelay v) (vDisableActiveMigration v) (vActiveConnectionIDLimit v) (vInitialSourceConnectionID v) (vMaxDatagramFrameSize v) (vMaxUDPPayloadSize v) x.

(* one iteration of the loop: the new view and what quicparams[pIdx] holds afterwards.
   None = the Go code panics: only ParseConnectionID on a typed source connection ID of more
   than 20 bytes (there is no type assertion on the integer parameters any more). *)
Definition pop_step (v : view) (p : param) : option (view * param) :=
  let id := pid p in
  let num (set : view -> Z -> view) (f : Z -> Z) : option (view * param) :=
      if is_single (pval p) then Some (set v (f (sval (pval p))), p) else Some (v, p) in
  if id =? tpid_maxIdleTimeout then num set_idle millis
  else if id =? tpid_maxUDPPayloadSize then num set_udp (fun x => x)
  else if id =? tpid_initialMaxData then num set_data (fun x => x)
  else if id =? tpid_initialMaxStreamDataBidiLocal then num set_bl (fun x => x)
  else if id =? tpid_initialMaxStreamDataBidiRemote then num set_br (fun x => x)
  else if id =? tpid_initialMaxStreamDataUni then num set_uni (fun x => x)
  else if id =? tpid_initialMaxStreamsBidi then num set_mb (fun x => x)
  else if id =? tpid_initialMaxStreamsUni then num set_mu (fun x => x)
  else if id =? tpid_ackDelayExponent then num set_ade (fun x => Z.min x 255)
  else if id =? tpid_maxAckDelay then num set_ack millis
  else if id =? tpid_disableActiveMigration then Some (set_dam v true, p)
  else if id =? tpid_activeConnectionIDLimit then num set_acl (fun x => x)
  else if id =? tpid_initialSourceConnectionID then
    if ptyped p then
      match pval p with
      | [] => Some (v, P id (vInitialSourceConnectionID v) true)  (* fill in the real source connection ID *)
      | _ => if zlen (pval p) <=? uspec_maxConnectionIDLen then Some (set_scid v (pval p), p) else None
      end
    else Some (v, p)                                               (* comma-ok assertion failed: ignored *)
  else if id =? tpid_maxDatagramFrameSize then num set_dg (fun x => x)
  else Some (v, p).

Fixpoint populate_loop (v : view) (ps : list param) : option (view * list param) :=
  match ps with
  | [] => Some (v, [])
  | p :: r =>
    match pop_step v p with
    | None => None
    | Some (v', p') =>
      match populate_loop v' r with
      | None => None
      | Some (v'', r') => Some (v'', p' :: r')
      end
    end
  end.

(* result: the view, the list as PopulateFromUQUIC leaves it, and ClientOverride *)
Definition populate (v : view) (ps : list param) : option (view * list param * list Z) :=
  match populate_loop v ps with
  | Some (v', ps') => Some (v', ps', marshal ps')
  | None => None
  end.

(* wire.TransportParams{InitialSourceConnectionID: srcConnID} after the five assignments
   PopulateFromUQUIC starts with: MaxAckDelay, ActiveConnectionIDLimit, MaxDatagramFrameSize,
   MaxUDPPayloadSize and AckDelayExponent hold the protocol defaults *)
Definition init_view (scid : list Z) : view :=
  View 0 0 0 0 0 0 0 uspec_DefaultMaxAckDelayNs false uspec_DefaultActiveConnectionIDLimit scid
       uspec_InvalidByteCount uspec_MaxByteCount uspec_DefaultAckDelayExponent.

(** ** u_connection.go:110-140: what one dial does to the extension's list *)
Definition dial_list (sup : list Z) (randomize : bool) (js : list nat) (ps : list param) : list param :=
  let s := suppress sup ps in if randomize then shuffle s js else s.
(* what uTLS is handed (and serialises): the list after PopulateFromUQUIC *)
Definition dial (sup : list Z) (randomize : bool) (js : list nat) (scid : list Z) (ps : list param)
  : option (view * list param * list Z) :=
  populate (init_view scid) (dial_list sup randomize js ps).

(** ** clienthellod: the fields its QUIC fingerprint hashes (v0.5.0-alpha2, fingerprint_hash.go,
    quic_client_initial.go, quic_transport_parameters.go) *)
Record pkt := Pkt {
  kVersion : list Z; kDcidLen : Z; kScidLen : Z;
  kPN : list Z;            (* packet number bytes as sent *)
  kHasToken : bool;
  kFrames : list Z }.      (* frame types in order *)

Fixpoint dedup (l : list Z) : list Z :=   (* of a sorted list *)
  match l with
  | x :: ((y :: _) as r) => if x =? y then dedup r else x :: dedup r
  | _ => l
  end.
Definition frame_set (pkts : list pkt) : list Z :=
  dedup (isort (flat_map (fun k => map (fun t => t mod 256) (kFrames k)) pkts)).

(* GatheredClientInitials.calcNumericID: header of the first packet (lowest packet number),
   merged deduplicated sorted frame types of all gathered packets, token presence *)
Definition gci_features (pkts : list pkt) : option (list Z * Z * Z * list Z * list Z * bool) :=
  match pkts with
  | [] => None
  | k :: _ => Some (kVersion k, kDcidLen k, kScidLen k, kPN k, frame_set pkts, kHasToken k)
  end.

(* QUICTransportParams: eleven values (later occurrence wins, empty values are skipped,
   the two length bits of the first byte cleared) and the sorted canonical id list *)
Definition fp_ids11 : list Z := [1; 3; 4; 5; 6; 7; 8; 9; 10; 11; 14].
Definition unsetVLI (v : list Z) : list Z := match v with b :: r => (b mod 64) :: r | [] => [] end.
Definition is_nil {A} (l : list A) : bool := match l with [] => true | _ => false end.
Definition last_val (id : Z) (ps : list (Z * list Z)) : list Z :=
  fold_left (fun acc p => if (fst p =? id) && negb (is_nil (snd p)) then unsetVLI (snd p) else acc) ps [].
Definition fp_isGrease (id : Z) : bool := (27 <=? id) && ((id - 27) mod 31 =? 0).
Definition fp_canon (id : Z) : Z := if fp_isGrease id then 27 else id.
Definition qtp_features (ps : list (Z * list Z)) : list (list Z) * list Z :=
  (map (fun id => last_val id ps) fp_ids11, isort (map (fun p => fp_canon (fst p)) ps)).

(* the whole input of GenerateQUICFingerprint's hash; [ch] is the ClientHello's normalised id
   (computed by clienthellod from the uTLS output: an oracle) *)
Definition fp_features (pkts : list pkt) (ch : Z) (wire : list (Z * list Z)) :=
  (gci_features pkts, ch, qtp_features wire).

(** ** u_quic_frames.go QUICRandomFrames.buildInternal: which frame types one build emits.
    cryptoSafeRandUint64(min, max) yields min when max <= min, else a value in [min, max). *)
Definition draw_ok (mn mx n : Z) : bool := if mx <=? mn then n =? mn else (mn <=? n) && (n <? mx).
(* a PING range is harmless for the frame-type set when it cannot yield both zero and a
   positive count: zero is not drawable, or nothing but zero is *)
Definition ping_range_ok (mn mx : Z) : bool :=
  negb (draw_ok mn mx 0) || (mx <=? mn) || (mx <=? 1).
Definition rf_types (nPing nCrypto nPadding : nat) : list Z :=
  repeat 1 nPing ++ repeat 6 nCrypto ++ repeat 0 nPadding.
