(** USpec proofs, round 4: the frame-type set the reference fingerprinter hashes, DERIVED from
    C09's byte-exact model of QUICRandomFrames.buildInternal (UFrames.Model.build_internal) on
    the slices C10's packer model hands it (UPacker: maxCryptoData), and the header fields it
    hashes, from C10's flight model -- instead of assuming "which frame types occur".
    Proof-level composition only: UFrames.Model is tied to the code by C09's units, UPacker.Model
    by C10's, USpec.Model (clienthellod's feature list) by simfingerprint. *)
From Coq Require Import List ZArith Bool Lia Permutation.
From V Require Import Gen.Params Lib.Hex Wire.Varint
  UFrames.Model UFrames.ProofsBase UFrames.Proofs UFrames.ProofsCounts UFrames.ProofsLength
  UPacker.Model UPacker.ProofsRandom UPacker.ProofsTop
  USpec.Model USpec.Proofs USpec.ProofsFp.
Import ListNotations.
Open Scope Z_scope.

(** the frame types a reader of the payload sees: a PADDING frame of no bytes is invisible *)
Definition wtype (w : wframe) : list Z :=
  match w with WPing => [1] | WPad n => if 0 <? n then [0] else [] | WCrypto _ _ => [6] end.
Definition wtypes (ws : list wframe) : list Z := flat_map wtype ws.

Lemma wtypes_range ws t : In t (wtypes ws) -> t = 0 \/ t = 1 \/ t = 6.
Proof.
  unfold wtypes. rewrite in_flat_map. intros [w [_ H]]. destruct w as [|n|o d]; cbn in H.
  - destruct H as [<-|[]]. auto.
  - destruct (0 <? n); cbn in H; [destruct H as [<-|[]]; auto | contradiction].
  - destruct H as [<-|[]]. auto.
Qed.

Lemma wtypes_ping ws : In 1 (wtypes ws) <-> wpings ws <> [].
Proof.
  induction ws as [|w r IH]; cbn; [intuition congruence|].
  rewrite in_app_iff, IH. destruct w as [|n|o d]; cbn.
  - split; [discriminate | auto].
  - destruct (0 <? n); cbn; intuition discriminate.
  - intuition discriminate.
Qed.

Lemma wtypes_crypto ws : In 6 (wtypes ws) <-> wcryptos ws <> [].
Proof.
  induction ws as [|w r IH]; cbn; [intuition congruence|].
  rewrite in_app_iff, IH. destruct w as [|n|o d]; cbn.
  - intuition discriminate.
  - destruct (0 <? n); cbn; intuition discriminate.
  - split; [discriminate | auto].
Qed.

Lemma wtypes_pad ws : wpads_ok ws -> (In 0 (wtypes ws) <-> 0 < wpadbytes ws).
Proof.
  induction 1 as [|w r Hw Hrest IH]; cbn; [lia|].
  rewrite in_app_iff, IH. destruct w as [|n|o d]; cbn [wtype wpadbytes In].
  - intuition discriminate.
  - assert (Hr : 0 <= wpadbytes r).
    { clear -Hrest. induction Hrest as [|w r Hw _ IH]; [cbn; lia|]. destruct w; cbn [wpadbytes]; lia. }
    destruct (Z.ltb_spec 0 n); cbn [In]; intuition lia.
  - intuition discriminate.
Qed.

(** the frame-type set a builder's parameters determine *)
Definition builder_types (p : rf) : list Z := if 1 <=? minPing p then [0; 1; 6] else [0; 6].

(** what the packer guarantees about the slice it hands to the builder (C10_random_split_exact:
    it pops exactly maxCryptoData bytes, or what is left of the ClientHello) and what the dial
    accepts as a builder *)
Definition builder_ok (p : rf) : Prop :=
  rf_wf p /\ 0 < rfLen p /\ 1 <= minPad p /\ ping_range_ok (minPing p) (maxPing p) = true.
Definition slice_ok (p : rf) (data : list Z) (base : Z) : Prop :=
  0 <= base /\ base + rfLen p <= maxVarInt8 /\ 0 < zlen data <= maxCryptoData (rfTuple p) base.

Lemma maxCryptoData_le p base : 0 < rfLen p -> rf_wf p -> maxCryptoData (rfTuple p) base <= rfLen p.
Proof.
  intros Hl (H1 & _ & H3 & _ & H5 & _). unfold maxCryptoData, rfTuple.
  assert (0 <= Z.max (Z.max (minCrypto p) (maxCrypto p - 1)) 1 * (1 + vlen (base + rfLen p) + vlen (rfLen p))).
  { apply Z.mul_nonneg_nonneg; [lia|]. unfold vlen.
    repeat match goal with |- context [if ?c then _ else _] => destruct c end; lia. }
  lia.
Qed.

(** C11_fp_frame_types_from_builder, one payload: for every draw of both randomness sources
    the set of frame types is [builder_types p] -- PADDING always (at least MinPADDING bytes,
    C10_random_payload_exact), CRYPTO always (C09_random_frames_counts: at least one frame),
    PING iff MinPING >= 1 (same theorem: the count lies in [MinPING, max(MinPING, MaxPING-1)]). *)
Theorem frame_types_from_builder p data base bs us ws bs' us' :
  builder_ok p -> slice_ok p data base ->
  build_internal p data base bs us = Ok (ws, bs', us') ->
  forall t, In t (wtypes ws) <-> In t (builder_types p).
Proof.
  intros (Hwf & Hlen & Hpad & Hrange) (Hb & Hmax & Hd) Hbuild.
  assert (Hmd : base + zlen data <= maxVarInt8) by (pose proof (maxCryptoData_le p base Hlen Hwf); lia).
  pose proof (build_internal_exact p data base bs us Hwf Hb Hmd) as Hex.
  pose proof (build_internal_counts p data base bs us Hwf Hb Hmd) as Hcnt.
  rewrite Hbuild in Hex, Hcnt. destruct Hex as [_ Hpads]. destruct Hcnt as [Hping Hcr].
  destruct (random_payload_exact p data base bs us ws bs' us' Hwf Hb Hlen Hpad Hmax Hd Hbuild) as [_ Hpb].
  (* the three facts *)
  assert (H0 : In 0 (wtypes ws)) by (apply wtypes_pad; [exact Hpads | lia]).
  assert (H6 : In 6 (wtypes ws)).
  { apply wtypes_crypto. intros E. rewrite E in Hcr. unfold crypto_bounds in Hcr.
    destruct (Z.eqb_spec (zlen data) 0); [lia|]. cbn in Hcr. lia. }
  assert (H1 : In 1 (wtypes ws) <-> 1 <= minPing p).
  { rewrite wtypes_ping. unfold ping_bounds in Hping. split.
    - intros Hne. destruct (Z.leb_spec 1 (minPing p)) as [|Hlt]; [assumption|]. exfalso.
      (* MinPING = 0 and the range is not mixed: no PING can be drawn *)
      destruct Hwf as (Hmn & _). assert (Hmn0 : minPing p = 0) by lia.
      unfold ping_range_ok, draw_ok in Hrange. rewrite Hmn0 in Hrange, Hping.
      assert (Hz : zlen (wpings ws) = 0).
      { destruct (Z.leb_spec (maxPing p) 0) as [Hle|Hgt]; cbn in Hrange; [lia|].
        destruct (Z.ltb_spec 0 (maxPing p)); cbn in Hrange; [|lia].
        apply Z.leb_le in Hrange. lia. }
      destruct (wpings ws); [congruence | cbn in Hz; lia].
    - intros Hmn E. rewrite E in Hping. cbn in Hping. lia. }
  intros t. unfold builder_types. split.
  - intros Ht. destruct (wtypes_range _ _ Ht) as [-> | [-> | ->]];
      destruct (Z.leb_spec 1 (minPing p)); cbn; auto.
    apply H1 in Ht. lia.
  - destruct (Z.leb_spec 1 (minPing p)) as [Hge|Hlt]; cbn.
    + intros [<- | [<- | [<- | []]]]; [exact H0 | apply H1, Hge | exact H6].
    + intros [<- | [<- | []]]; [exact H0 | exact H6].
Qed.

(** two payloads of the same builder -- different slices, offsets, draws -- show the same set *)
Corollary frame_types_draw_independent p d1 b1 bs1 us1 ws1 r1 s1 d2 b2 bs2 us2 ws2 r2 s2 :
  builder_ok p -> slice_ok p d1 b1 -> slice_ok p d2 b2 ->
  build_internal p d1 b1 bs1 us1 = Ok (ws1, r1, s1) ->
  build_internal p d2 b2 bs2 us2 = Ok (ws2, r2, s2) ->
  forall t, In t (wtypes ws1) <-> In t (wtypes ws2).
Proof.
  intros Hp H1 H2 B1 B2 t.
  rewrite (frame_types_from_builder _ _ _ _ _ _ _ _ Hp H1 B1 t).
  rewrite (frame_types_from_builder _ _ _ _ _ _ _ _ Hp H2 B2 t). reflexivity.
Qed.

(** ** every built-in parrot's randomised builder (table generated from QUICID2Spec) *)
Definition rf_of (r : Z * Z * Z * Z * Z * Z * Z) : rf :=
  let '(a, b, c, d, e, f, g) := r in mkRF a b c d e f g.

Definition builder_okb (p : rf) : bool :=
  (0 <=? minPing p) && (maxPing p <? 2 ^ 32) && (0 <=? minCrypto p) && (maxCrypto p <? 2 ^ 32) &&
  (0 <=? minPad p) && (maxPad p <? 2 ^ 32) && (rfLen p <? 2 ^ 32) &&
  (0 <? rfLen p) && (1 <=? minPad p) && ping_range_ok (minPing p) (maxPing p).

Lemma builder_okb_ok p : builder_okb p = true -> builder_ok p.
Proof.
  unfold builder_okb, builder_ok, rf_wf. rewrite !andb_true_iff.
  rewrite !Z.leb_le, !Z.ltb_lt. tauto.
Qed.

Lemma parrot_builders_ok : forallb (fun r => builder_okb (rf_of r)) uspec_parrot_builders = true.
Proof. reflexivity. Qed.

Lemma parrot_builders_match_ranges :
  map (fun r => (minPing (rf_of r), maxPing (rf_of r))) uspec_parrot_builders = uspec_parrot_ping_ranges.
Proof. reflexivity. Qed.

Theorem parrots_frame_types_from_builder : forall r, In r uspec_parrot_builders ->
  let p := rf_of r in
  builder_ok p /\
  forall d1 b1 bs1 us1 ws1 r1 s1 d2 b2 bs2 us2 ws2 r2 s2,
    slice_ok p d1 b1 -> slice_ok p d2 b2 ->
    build_internal p d1 b1 bs1 us1 = Ok (ws1, r1, s1) ->
    build_internal p d2 b2 bs2 us2 = Ok (ws2, r2, s2) ->
    (forall t, In t (wtypes ws1) <-> In t (builder_types p)) /\
    (forall t, In t (wtypes ws1) <-> In t (wtypes ws2)).
Proof.
  intros r Hin p.
  assert (Hp : builder_ok p).
  { apply builder_okb_ok. pose proof parrot_builders_ok as H. rewrite forallb_forall in H. apply (H r Hin). }
  split; [exact Hp|]. intros d1 b1 bs1 us1 ws1 r1 s1 d2 b2 bs2 us2 ws2 r2 s2 S1 S2 B1 B2. split.
  - exact (frame_types_from_builder _ _ _ _ _ _ _ _ Hp S1 B1).
  - exact (frame_types_draw_independent _ _ _ _ _ _ _ _ _ _ _ _ _ _ _ Hp S1 S2 B1 B2).
Qed.

(** ** C11_fp_features_deterministic: everything clienthellod hashes for the Initial packets *)

(* the packet number bytes as sent: the low pnLen bytes of the packet number, big-endian *)
Definition pn_bytes (pnLen pn : Z) : list Z := be (Z.to_nat pnLen) pn.

(* the fingerprinter's view of a flight: first packet's header from C10's datagram record,
   frame types from the payloads the builder returned *)
Definition pkt_of (version : list Z) (c : cfg) (pn pnLen : Z) (ws : list wframe) : pkt :=
  Pkt version (c_dcid c) (c_scid c) (pn_bytes pnLen pn) (0 <? c_tokLen c) (wtypes ws).

(* the hashed header fields as a function of the packer configuration alone *)
Definition header_features (version : list Z) (c : cfg) :=
  (version, c_dcid c, c_scid c, pn_bytes (pnLenOf c 0) (c_first c), 0 <? c_tokLen c).

(* one payload built by p on a slice the packer may hand it *)
Definition built_by (p : rf) (ws : list wframe) : Prop :=
  exists data base bs us bs' us', slice_ok p data base /\ build_internal p data base bs us = Ok (ws, bs', us').

Lemma frame_types_flat p wss :
  builder_ok p -> Forall (built_by p) wss -> wss <> [] ->
  forall t, In t (flat_map wtypes wss) <-> In t (builder_types p).
Proof.
  intros Hp Hall Hne t. rewrite in_flat_map. split.
  - intros [ws [Hin Ht]]. rewrite Forall_forall in Hall.
    destruct (Hall ws Hin) as (data & base & bs & us & bs' & us' & Hs & Hb).
    apply (frame_types_from_builder _ _ _ _ _ _ _ _ Hp Hs Hb t). exact Ht.
  - intros Ht. destruct wss as [|ws r]; [congruence|]. exists ws. split; [left; reflexivity|].
    inversion Hall as [|? ? (data & base & bs & us & bs' & us' & Hs & Hb) _]; subst.
    apply (frame_types_from_builder _ _ _ _ _ _ _ _ Hp Hs Hb t). exact Ht.
Qed.

Lemma frame_types_mod (l : list Z) :
  (forall t, In t l -> t = 0 \/ t = 1 \/ t = 6) -> map (fun t => t mod 256) l = l.
Proof.
  intros H. induction l as [|x r IH]; [reflexivity|]. cbn. rewrite IH by (intros; apply H; right; assumption).
  destruct (H x (or_introl eq_refl)) as [-> | [-> | ->]]; reflexivity.
Qed.

Lemma frame_types_of_flight version c pn pnLen ws wss :
  frame_types (pkt_of version c pn pnLen ws :: map (fun w => pkt_of version c 0 0 w) wss) = flat_map wtypes (ws :: wss).
Proof.
  unfold frame_types. cbn [flat_map kFrames pkt_of].
  rewrite (frame_types_mod (wtypes ws)) by apply wtypes_range. f_equal.
  induction wss as [|w r IH]; [reflexivity|]. cbn [map flat_map kFrames pkt_of].
  rewrite (frame_types_mod (wtypes w)) by apply wtypes_range. f_equal. exact IH.
Qed.

(** Two flights of ONE packer configuration whose builder is [p] -- different ClientHello
    lengths, payload-length oracles, slices and draws -- give the fingerprinter the same
    GatheredClientInitials features: they equal a function of (version, c, p). *)
Theorem fp_features_deterministic version c p helloLen plens pn pnLen h fs lf pk dl ix rp ws wss :
  builder_ok p ->
  nth_error (flight c helloLen plens) 0 = Some (DG pn pnLen h fs lf pk dl ix rp) ->
  Forall (built_by p) (ws :: wss) ->
  gci_features (pkt_of version c pn pnLen ws :: map (fun w => pkt_of version c 0 0 w) wss)
  = Some (version, c_dcid c, c_scid c, pn_bytes (pnLenOf c 0) (c_first c),
          dedup (isort (builder_types p)), 0 <? c_tokLen c).
Proof.
  intros Hp Hdg Hall.
  destruct (t_C10_header_fields _ _ _ _ _ _ _ _ _ _ _ _ _ Hdg) as (Hpn & Hlen & _).
  assert (Epn : pn_bytes pnLen pn = pn_bytes (pnLenOf c 0) (c_first c)).
  { rewrite Hlen, Hpn. unfold pnLenOf, pnOf. cbn [Z.of_nat]. rewrite !Z.add_0_r. reflexivity. }
  assert (Efs : frame_set (pkt_of version c pn pnLen ws :: map (fun w => pkt_of version c 0 0 w) wss)
                = dedup (isort (builder_types p))).
  { assert (Eb : frame_set [with_frames (Pkt [] 0 0 [] false []) (builder_types p)] = dedup (isort (builder_types p))).
    { unfold frame_set, with_frames. cbn [flat_map kFrames]. rewrite app_nil_r.
      rewrite frame_types_mod; [reflexivity | unfold builder_types; destruct (1 <=? minPing p); cbn; intuition]. }
    rewrite <- Eb.
    apply frame_set_ext. intros t. rewrite frame_types_of_flight.
    rewrite (frame_types_flat p (ws :: wss) Hp Hall ltac:(discriminate) t).
    unfold frame_types, with_frames. cbn [flat_map kFrames]. rewrite app_nil_r.
    rewrite frame_types_mod; [reflexivity|].
    unfold builder_types. destruct (1 <=? minPing p); cbn; intuition. }
  unfold gci_features. rewrite Efs. cbn [kVersion kDcidLen kScidLen kPN kHasToken pkt_of].
  rewrite Epn. reflexivity.
Qed.

(** non-vacuity: the Chrome_146 builder on a full slice and on a short last slice, two different
    oracle positions: both payloads are built, satisfy every hypothesis, and show [0;1;6] *)
Definition out_ws (r : res (list wframe * list Z * list Z)) : list wframe := match r with Ok (ws, _, _) => ws | _ => [] end.
Definition out_bs (r : res (list wframe * list Z * list Z)) : list Z := match r with Ok (_, b, _) => b | _ => [] end.
Definition out_us (r : res (list wframe * list Z * list Z)) : list Z := match r with Ok (_, _, u) => u | _ => [] end.
Definition ex_run1 := build_internal ex_p (repeat 7 300%nat) 0 ex_bs ex_us.
Definition ex_run2 := build_internal ex_p (repeat 9 120%nat) 300 (skipn 300 ex_bs) (skipn 50 ex_us).
Lemma ex_run1_ok : ex_run1 = Ok (out_ws ex_run1, out_bs ex_run1, out_us ex_run1).
Proof. vm_compute. reflexivity. Qed.
Lemma ex_run2_ok : ex_run2 = Ok (out_ws ex_run2, out_bs ex_run2, out_us ex_run2).
Proof. vm_compute. reflexivity. Qed.

Lemma builder_example :
  In (1, 4, 6, 14, 2, 6, 1215) uspec_parrot_builders /\
  slice_ok ex_p (repeat 7 300%nat) 0 /\ slice_ok ex_p (repeat 9 120%nat) 300 /\
  exists ws1 r1 s1 ws2 r2 s2,
    build_internal ex_p (repeat 7 300%nat) 0 ex_bs ex_us = Ok (ws1, r1, s1) /\
    build_internal ex_p (repeat 9 120%nat) 300 (skipn 300 ex_bs) (skipn 50 ex_us) = Ok (ws2, r2, s2) /\
    dedup (isort (wtypes ws1)) = [0; 1; 6] /\ dedup (isort (wtypes ws2)) = [0; 1; 6] /\ wtypes ws1 <> wtypes ws2.
Proof.
  split; [vm_compute; tauto|]. split; [vm_compute; intuition discriminate|]. split; [vm_compute; intuition discriminate|].
  exists (out_ws ex_run1), (out_bs ex_run1), (out_us ex_run1), (out_ws ex_run2), (out_bs ex_run2), (out_us ex_run2).
  split; [exact ex_run1_ok|]. split; [exact ex_run2_ok|].
  split; [vm_compute; reflexivity|]. split; [vm_compute; reflexivity|].
  assert (H : negb (zeqb_list (wtypes (out_ws ex_run1)) (wtypes (out_ws ex_run2))) = true) by (vm_compute; reflexivity).
  intros E. rewrite E in H. clear E.
  assert (R : forall l, zeqb_list l l = true) by (intros l; apply zeqb_list_eq; reflexivity).
  rewrite R in H. discriminate.
Qed.
