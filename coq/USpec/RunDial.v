(** Correspondence glue for the uspecdial unit (harness/drv/uspecdial.go): one QUICSpec value
    dialled several times for real; per dial the caller's settings, the recorded (i, j) swaps of
    the dial-time shuffle, the source connection ID of the packets and extension 57 as read off
    the wire.  The model replays the whole history with [UDial.Model.run] (C02's model of the
    repaired newUClientConnection) and compares every dial's extension with what a reader of
    the model's bytes gets. *)
From Coq Require Import List ZArith Bool String.
From V Require Import Gen.Params Lib.Hex Wire.Varint USpec.Model UDial.Model USpec.HistoryModel.
Import ListNotations.
Open Scope Z_scope.

Definition rp := (Z * string * bool)%type.
Definition mkp (x : rp) : param := let '(id, s, t) := x in P id (hx s) t.

(* wkeys: key_share entries on the wire as (group with GREASE values folded to 0x0a0a,
   key_exchange length, bytes when the spec supplied bytes for that entry, else "") *)
Inductive dstep :=
| DStep (sup : list Z) (rnd : bool) (swaps : list (Z * Z)) (scid : string) (wire : list (Z * string))
        (wkeys : list (Z * Z * string))
(* a call of QUICSpec.TransportParamIDs() under the settings in force, and what it returned *)
| DIds (sup : list Z) (rnd : bool) (ids : list Z).
(* keys0: the spec's KeyShareExtension as (group, Data) *)
Inductive case := DSeq (ps0 : list rp) (keys0 : list (Z * string)) (steps : list dstep).

Definition nat_swaps (sw : list (Z * Z)) : list (nat * nat) :=
  map (fun p => (Z.to_nat (fst p), Z.to_nat (snd p))) sw.
Definition nonneg_swaps (sw : list (Z * Z)) : bool :=
  forallb (fun p => (0 <=? fst p) && (0 <=? snd p)) sw.

(* the recorded swaps must be those of rand.Shuffle over the kept list (n-1 .. 1, j <= i);
   none when the dial does not shuffle *)
Definition swaps_ok (ps : list param) (s : dstep) : bool :=
  match s with
  | DStep sup rnd sw _ _ _ =>
    if rnd then nonneg_swaps sw && swaps_wellformed (List.length (suppress sup ps) - 1) (nat_swaps sw)
    else match sw with [] => true | _ => false end
  | DIds _ _ _ => true
  end.

Fixpoint ops_of (steps : list dstep) : list hop :=
  match steps with
  | [] => []
  | DIds sup rnd _ :: r => HSetSup sup :: HSetRnd rnd :: HIds :: ops_of r
  | DStep sup rnd sw scid _ wk :: r =>
    (* the keys uTLS generates are not the model's business: any key longer than one byte *)
    HSetSup sup :: HSetRnd rnd ::
    HDial (hx scid) (Oracle (map snd (nat_swaps sw)) [] (repeat [1; 1] (List.length wk))) :: ops_of r
  end.

Inductive obs :=
| OBadSwaps
| OPanic
| OWires (l : list hout).

Definition model_obs (c : case) : obs :=
  let '(DSeq ps0 keys0 steps) := c in
  let ps := map mkp ps0 in
  let keys := map (fun k => KS (fst k) (hx (snd k))) keys0 in
  if forallb (swaps_ok ps) steps then
    match hrun (Spec ps None keys [] [] false) (ops_of steps) with
    | Some (_, outs) => OWires outs
    | None => OPanic
    end
  else OBadSwaps.

Fixpoint wire_eqb (a : list (Z * list Z)) (b : list (Z * string)) : bool :=
  match a, b with
  | [], [] => true
  | (i, v) :: a', (j, s) :: b' => (i =? j) && zeqb_list v (hx s) && wire_eqb a' b'
  | _, _ => false
  end.
Definition norm16 (g : Z) : Z := if isGrease16 g then 2570 else g.
(* spec entry, the model's entry for the wire, the wire's entry *)
Fixpoint keys_eqb (spec : list (Z * string)) (m : list keyshare) (w : list (Z * Z * string)) : bool :=
  match spec, m, w with
  | [], [], [] => true
  | (_, sd) :: spec', k :: m', (g, len, d) :: w' =>
    (norm16 (kGroup k) =? g) &&
    (match hx sd with
     | [] => 0 <? len                                        (* generated: some key, never empty *)
     | _ => zeqb_list (kData k) (hx d) && (zlen (kData k) =? len)   (* supplied: exactly those bytes *)
     end) && keys_eqb spec' m' w'
  | _, _, _ => false
  end.
Fixpoint wires_eqb (keys0 : list (Z * string)) (m : list hout) (steps : list dstep) : bool :=
  match m, steps with
  | [], [] => true
  | HWire _ w :: m', DStep _ _ _ _ wire wk :: r =>
    match parse (wExt w) with
    | Some l => wire_eqb l wire && (match wk with [] => true | _ => keys_eqb keys0 (wKeys w) wk end) && wires_eqb keys0 m' r
    | None => false
    end
  | HIdsOut ids :: m', DIds _ _ ids' :: r => zeqb_list ids ids' && wires_eqb keys0 m' r
  | _, _ => false
  end.

Definition check_case (c : case) : bool :=
  match model_obs c with
  | OWires m => let '(DSeq _ keys0 steps) := c in wires_eqb keys0 m steps
  | _ => false
  end.
