(** USpec proofs, part 1: suppression, the shuffle is a permutation, sorting/canonical ids. *)
From Coq Require Import List ZArith Bool Lia Permutation Sorted.
From V Require Import Gen.Params Lib.Hex Wire.Varint USpec.Model.
Import ListNotations.
Open Scope Z_scope.

(** * Suppression *)

(* the specification, as a boolean and as a proposition *)
Definition keptb (sup : list Z) (id : Z) : bool :=
  negb (existsb (fun s => s =? id) sup) &&
  (negb (existsb (fun s => s =? uspec_QTPGrease) sup) || negb (isGrease id)).
Definition kept (sup : list Z) (id : Z) : Prop :=
  ~ In id sup /\ (In uspec_QTPGrease sup -> isGrease id = false).

Inductive subseq {A} : list A -> list A -> Prop :=
| sub_nil : subseq [] []
| sub_skip x l1 l2 : subseq l1 l2 -> subseq l1 (x :: l2)
| sub_take x l1 l2 : subseq l1 l2 -> subseq (x :: l1) (x :: l2).

Lemma existsb_eqb_In (sup : list Z) (x : Z) : existsb (fun s => s =? x) sup = true <-> In x sup.
Proof.
  rewrite existsb_exists. split.
  - intros [s [Hin He]]. apply Z.eqb_eq in He. subst. exact Hin.
  - intros Hin. exists x. split; [exact Hin | apply Z.eqb_refl].
Qed.

Lemma isGrease_self : isGrease uspec_QTPGrease = true.
Proof. unfold isGrease. rewrite Z.leb_refl, Z.sub_diag. reflexivity. Qed.

Lemma isGrease_spec id : isGrease id = true <-> uspec_QTPGrease <= id /\ (id - uspec_QTPGrease) mod 31 = 0.
Proof.
  unfold isGrease. rewrite andb_true_iff, Z.leb_le, Z.eqb_eq. tauto.
Qed.

Lemma listed_spec sup id : listed sup id = true <-> In id sup /\ id <> uspec_QTPGrease.
Proof.
  unfold listed. rewrite existsb_exists. split.
  - intros [s [Hin H]]. apply andb_true_iff in H as [H1 H2].
    apply Z.eqb_eq in H2. subst s. apply negb_true_iff, Z.eqb_neq in H1. auto.
  - intros [Hin Hne]. exists id. split; [exact Hin|].
    rewrite Z.eqb_refl, andb_true_r. apply negb_true_iff, Z.eqb_neq. exact Hne.
Qed.

Lemma suppressGrease_spec sup : suppressGrease sup = true <-> In uspec_QTPGrease sup.
Proof. unfold suppressGrease. apply existsb_eqb_In. Qed.

Lemma dropped_false_kept sup id : dropped sup id = false <-> kept sup id.
Proof.
  unfold dropped, kept. rewrite orb_false_iff, andb_false_iff. split.
  - intros [Hl Hg]. split.
    + intros Hin. destruct (Z.eq_dec id uspec_QTPGrease) as [He|Hne].
      * subst id. assert (Hs : suppressGrease sup = true) by (apply suppressGrease_spec; exact Hin).
        rewrite isGrease_self, Hs in Hg. destruct Hg; discriminate.
      * assert (Hl' : listed sup id = true) by (apply listed_spec; auto). congruence.
    + intros Hin. apply suppressGrease_spec in Hin. rewrite Hin in Hg. destruct Hg; [discriminate | assumption].
  - intros [Hn Hg]. split.
    + destruct (listed sup id) eqn:El; [|reflexivity].
      apply listed_spec in El as [Hin _]. contradiction.
    + destruct (suppressGrease sup) eqn:Es; [|left; reflexivity].
      right. apply Hg, suppressGrease_spec, Es.
Qed.

Lemma keptb_kept sup id : keptb sup id = true <-> kept sup id.
Proof.
  unfold keptb, kept. rewrite andb_true_iff, orb_true_iff, !negb_true_iff.
  rewrite <- (existsb_eqb_In sup uspec_QTPGrease), <- (existsb_eqb_In sup id).
  destruct (existsb (fun s => s =? id) sup); destruct (existsb (fun s => s =? uspec_QTPGrease) sup);
    destruct (isGrease id); intuition congruence.
Qed.

Lemma dropped_keptb sup id : negb (dropped sup id) = keptb sup id.
Proof.
  destruct (dropped sup id) eqn:D; destruct (keptb sup id) eqn:K; cbn; try reflexivity; exfalso.
  - apply keptb_kept, dropped_false_kept in K. congruence.
  - apply dropped_false_kept, keptb_kept in D. congruence.
Qed.

Lemma suppress_filter sup ps : suppress sup ps = filter (fun p => keptb sup (pid p)) ps.
Proof.
  unfold suppress. destruct sup as [|s sup'].
  - (* nothing listed: everything is kept *)
    induction ps as [|p ps IH]; [reflexivity|]. cbn [filter].
    change (keptb [] (pid p)) with true. cbn iota. f_equal. exact IH.
  - apply filter_ext. intros p. apply dropped_keptb.
Qed.

Lemma filter_idem {A} (f : A -> bool) l : filter f (filter f l) = filter f l.
Proof.
  induction l as [|x l IH]; [reflexivity|]. cbn. destruct (f x) eqn:E; cbn; rewrite ?E, IH; reflexivity.
Qed.

Lemma suppress_idem sup ps : suppress sup (suppress sup ps) = suppress sup ps.
Proof. rewrite !suppress_filter. apply filter_idem. Qed.

Lemma filter_subseq {A} (f : A -> bool) l : subseq (filter f l) l.
Proof.
  induction l as [|x l IH]; [constructor|]. cbn. destruct (f x); constructor; exact IH.
Qed.

Lemma suppress_subseq sup ps : subseq (suppress sup ps) ps.
Proof. rewrite suppress_filter. apply filter_subseq. Qed.

Lemma suppress_In sup ps p : In p (suppress sup ps) <-> In p ps /\ kept sup (pid p).
Proof. rewrite suppress_filter, filter_In, keptb_kept. tauto. Qed.

Theorem suppress_spec sup ps :
  suppress sup ps = filter (fun p => keptb sup (pid p)) ps
  /\ (forall id, keptb sup id = true <->
        (~ In id sup /\ (In 27 sup -> ~ (27 <= id /\ (id - 27) mod 31 = 0))))
  /\ suppress sup (suppress sup ps) = suppress sup ps
  /\ subseq (suppress sup ps) ps.
Proof.
  split; [apply suppress_filter|]. split; [|split; [apply suppress_idem | apply suppress_subseq]].
  intros id. rewrite keptb_kept. unfold kept.
  change 27 with uspec_QTPGrease.
  split; intros [H1 H2]; (split; [exact H1|]); intros Hin; specialize (H2 Hin).
  - intros Hg. apply isGrease_spec in Hg. congruence.
  - destruct (isGrease id) eqn:E; [|reflexivity]. apply isGrease_spec in E. contradiction.
Qed.

(** * The shuffle is a permutation, for every list of draws *)

Lemma nth_error_upd {A} (l : list A) k x j :
  nth_error (upd l k x) j =
  if Nat.eqb k j then (match nth_error l k with Some _ => Some x | None => None end) else nth_error l j.
Proof.
  revert k j. induction l as [|h t IH]; intros k j.
  - cbn. destruct k, j; cbn; try reflexivity. destruct (Nat.eqb k j); reflexivity.
  - destruct k, j; cbn; try reflexivity. apply IH.
Qed.

Lemma upd_length {A} (l : list A) k x : length (upd l k x) = length l.
Proof. revert k. induction l as [|h t IH]; intros [|k]; cbn; auto. Qed.

(* writing y over the x at position k: x :: new list is a permutation of y :: old list *)
Lemma upd_perm {A} (l : list A) k x y :
  nth_error l k = Some x -> Permutation (x :: upd l k y) (y :: l).
Proof.
  revert k. induction l as [|h t IH]; intros [|k] H; cbn in *; try discriminate.
  - inversion H; subst. apply perm_swap.
  - specialize (IH k H).
    eapply perm_trans; [apply perm_swap|]. eapply perm_trans; [apply perm_skip, IH|].
    apply perm_swap.
Qed.

Lemma swap_perm {A} (l : list A) i j : Permutation l (swap l i j).
Proof.
  unfold swap. destruct (nth_error l i) as [a|] eqn:Ei; [|apply Permutation_refl].
  destruct (nth_error l j) as [b|] eqn:Ej; [|apply Permutation_refl].
  assert (H1 : Permutation (a :: upd l i b) (b :: l)) by (apply upd_perm; exact Ei).
  assert (Ej' : nth_error (upd l i b) j = Some b).
  { rewrite nth_error_upd. destruct (Nat.eqb i j) eqn:E; [|exact Ej]. rewrite Ei. reflexivity. }
  assert (H2 : Permutation (b :: upd (upd l i b) j a) (a :: upd l i b)) by (apply upd_perm; exact Ej').
  apply Permutation_sym. apply (Permutation_cons_inv (a := b)).
  eapply perm_trans; [exact H2 | exact H1].
Qed.

Lemma swap_length {A} (l : list A) i j : length (swap l i j) = length l.
Proof. symmetry. apply Permutation_length, swap_perm. Qed.

Lemma shuffle_from_perm {A} i (l : list A) js : Permutation l (shuffle_from i l js).
Proof.
  revert l js. induction i as [|i IH]; intros l js; cbn; [apply Permutation_refl|].
  destruct js as [|j js]; [apply Permutation_refl|].
  eapply perm_trans; [apply swap_perm | apply IH].
Qed.

Theorem shuffle_perm {A} (l : list A) js : Permutation l (shuffle l js).
Proof. apply shuffle_from_perm. Qed.

(** * Sorting: [isort] sorts, is a permutation, and sorted permutations are unique *)

Lemma insert_perm x l : Permutation (x :: l) (insert x l).
Proof.
  induction l as [|y r IH]; cbn; [apply Permutation_refl|].
  destruct (x <=? y); [apply Permutation_refl|].
  eapply perm_trans; [apply perm_swap | apply perm_skip, IH].
Qed.

Lemma isort_perm l : Permutation l (isort l).
Proof.
  induction l as [|x l IH]; cbn; [constructor|].
  eapply perm_trans; [apply perm_skip, IH | apply insert_perm].
Qed.

Lemma insert_sorted x l : StronglySorted Z.le l -> StronglySorted Z.le (insert x l).
Proof.
  induction l as [|y r IH]; intros Hs; cbn.
  - repeat constructor.
  - inversion Hs as [|? ? Hr Hall]; subst.
    destruct (Z.leb_spec x y).
    + constructor; [exact Hs|]. constructor; [assumption|].
      rewrite Forall_forall in *. intros z Hz. specialize (Hall z Hz). lia.
    + constructor; [apply IH; exact Hr|].
      rewrite Forall_forall in *. intros z Hz.
      apply (Permutation_in _ (Permutation_sym (insert_perm x r))) in Hz.
      destruct Hz as [<-|Hz]; [lia | apply Hall; exact Hz].
Qed.

Lemma isort_sorted l : StronglySorted Z.le (isort l).
Proof. induction l as [|x l IH]; cbn; [constructor | apply insert_sorted, IH]. Qed.

Lemma sorted_perm_eq l1 l2 :
  StronglySorted Z.le l1 -> StronglySorted Z.le l2 -> Permutation l1 l2 -> l1 = l2.
Proof.
  revert l2. induction l1 as [|x l1 IH]; intros l2 H1 H2 Hp.
  - apply Permutation_nil in Hp. congruence.
  - destruct l2 as [|y l2]; [apply Permutation_sym, Permutation_nil in Hp; discriminate|].
    inversion H1 as [|? ? Hs1 Ha1]; inversion H2 as [|? ? Hs2 Ha2]; subst.
    assert (x = y).
    { rewrite Forall_forall in Ha1, Ha2.
      assert (Hy : In y (x :: l1)) by (apply (Permutation_in _ (Permutation_sym Hp)); left; reflexivity).
      assert (Hx : In x (y :: l2)) by (apply (Permutation_in _ Hp); left; reflexivity).
      destruct Hy as [->|Hy]; [reflexivity|]. destruct Hx as [->|Hx]; [reflexivity|].
      specialize (Ha1 y Hy). specialize (Ha2 x Hx). lia. }
    subst y. f_equal. apply IH; try assumption. eapply Permutation_cons_inv; exact Hp.
Qed.

Lemma isort_perm_eq l1 l2 : Permutation l1 l2 -> isort l1 = isort l2.
Proof.
  intros Hp. apply sorted_perm_eq; try apply isort_sorted.
  eapply perm_trans; [apply Permutation_sym, isort_perm|].
  eapply perm_trans; [exact Hp | apply isort_perm].
Qed.
