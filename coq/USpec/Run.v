(** Correspondence glue for the uspec unit: a case is what the Go harness logged
    (harness/drv/uspec.go); [check_case] replays it on the model. *)
From Coq Require Import List ZArith Bool String.
From V Require Import Gen.Params Lib.Hex Wire.Varint USpec.Model.
Import ListNotations.
Open Scope Z_scope.

(* a parameter as printed by the harness: (id, "value in hex", typed) *)
Definition rp := (Z * string * bool)%type.
Definition mkp (x : rp) : param := let '(id, s, t) := x in P id (hx s) t.
Definition mkps (l : list rp) : list param := map mkp l.

Definition View := Model.View.   (* constructor used by the harness's terms *)

Inductive case :=
| SupCase (ps : list rp) (sup : list Z) (out : list rp)
| ShufCase (ps : list rp) (swaps : list (Z * Z)) (out : list rp)
| IdsCase (ps : list rp) (sup : list Z) (ids : list Z) (after : list rp)
| WireCase (ps : list rp) (bytes : string)
| PopCase (ps : list rp) (scid : string) (res : option (view * list rp * string))
| DialCase (ps : list rp) (sup : list Z) (randomize : bool) (swaps : list (Z * Z)) (scid : string)
           (res : option (view * list rp * string)).

Inductive obs :=
| OList (l : list param)
| OBad                                   (* the recorded swaps are not those of rand.Shuffle *)
| OIds (ids : list Z) (after : list param)
| OWire (bytes : list Z) (back : option (list (Z * list Z)))
| OPop (r : option (view * list param * list Z)).

Definition nat_swaps (sw : list (Z * Z)) : list (nat * nat) :=
  map (fun p => (Z.to_nat (fst p), Z.to_nat (snd p))) sw.
Definition nonneg_swaps (sw : list (Z * Z)) : bool :=
  forallb (fun p => (0 <=? fst p) && (0 <=? snd p)) sw.

(* shuffle under recorded swaps: None when they are not the (i, j) sequence of rand.Shuffle *)
Definition shuffle_rec {A} (l : list A) (sw : list (Z * Z)) : option (list A) :=
  let ns := nat_swaps sw in
  if nonneg_swaps sw && swaps_wellformed (List.length l - 1) ns then Some (shuffle l (map snd ns)) else None.

Definition model_obs (c : case) : obs :=
  match c with
  | SupCase ps sup _ => OList (suppress sup (mkps ps))
  | ShufCase ps sw _ => match shuffle_rec (mkps ps) sw with Some l => OList l | None => OBad end
  | IdsCase ps sup _ _ => let '(ids, after) := tp_ids sup (mkps ps) in OIds ids after
  | WireCase ps _ => let b := marshal (mkps ps) in OWire b (parse b)
  | PopCase ps scid _ => OPop (populate (init_view (hx scid)) (mkps ps))
  | DialCase ps sup rnd sw scid _ =>
    let s := suppress sup (mkps ps) in
    if rnd then
      match shuffle_rec s sw with
      | Some l => OPop (populate (init_view (hx scid)) l)
      | None => OBad
      end
    else OPop (populate (init_view (hx scid)) s)
  end.

Definition param_eqb (a b : param) : bool :=
  (pid a =? pid b) && zeqb_list (pval a) (pval b) && Bool.eqb (ptyped a) (ptyped b).
Fixpoint params_eqb (a b : list param) : bool :=
  match a, b with
  | [], [] => true
  | x :: a', y :: b' => param_eqb x y && params_eqb a' b'
  | _, _ => false
  end.
Fixpoint idvals_eqb (a : list (Z * list Z)) (b : list param) : bool :=
  match a, b with
  | [], [] => true
  | (i, v) :: a', y :: b' => (i =? pid y) && zeqb_list v (pval y) && idvals_eqb a' b'
  | _, _ => false
  end.
Definition view_eqb (a b : view) : bool :=
  (vMaxIdleTimeout a =? vMaxIdleTimeout b) && (vInitialMaxData a =? vInitialMaxData b) &&
  (vBidiLocal a =? vBidiLocal b) && (vBidiRemote a =? vBidiRemote b) && (vUni a =? vUni b) &&
  (vMaxBidiStreamNum a =? vMaxBidiStreamNum b) && (vMaxUniStreamNum a =? vMaxUniStreamNum b) &&
  (vMaxAckDelay a =? vMaxAckDelay b) &&
  Bool.eqb (vDisableActiveMigration a) (vDisableActiveMigration b) &&
  (vActiveConnectionIDLimit a =? vActiveConnectionIDLimit b) &&
  zeqb_list (vInitialSourceConnectionID a) (vInitialSourceConnectionID b) &&
  (vMaxDatagramFrameSize a =? vMaxDatagramFrameSize b) &&
  (vMaxUDPPayloadSize a =? vMaxUDPPayloadSize b) && (vAckDelayExponent a =? vAckDelayExponent b).

Definition pop_eqb (m : option (view * list param * list Z)) (r : option (view * list rp * string)) : bool :=
  match m, r with
  | None, None => true                        (* both: panic *)
  | Some (v, l, o), Some (v', l', o') => view_eqb v v' && params_eqb l (mkps l') && zeqb_list o (hx o')
  | _, _ => false
  end.

Definition check_case (c : case) : bool :=
  match c, model_obs c with
  | SupCase _ _ out, OList l => params_eqb l (mkps out)
  | ShufCase _ _ out, OList l => params_eqb l (mkps out)
  | IdsCase _ _ ids after, OIds i a => zeqb_list i ids && params_eqb a (mkps after)
  | WireCase ps bytes, OWire b back =>
    zeqb_list b (hx bytes) &&
    match back with Some l => idvals_eqb l (mkps ps) | None => false end
  | PopCase _ _ res, OPop m => pop_eqb m res
  | DialCase _ _ _ _ _ res, OPop m => pop_eqb m res
  | _, _ => false
  end.
