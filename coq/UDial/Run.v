(** Correspondence glue for the udial unit: a case is what the Go harness logged
    (harness/drv/udial.go); [check_case] replays it on the model.

    [Seq]: one QUICSpec value dialled several times through UTransport. The case carries the
    spec as the caller wrote it (transport parameters with the "typed" flag, key shares as
    (group, length of Data), server name) and per dial: the caller's current suppression list
    and randomize flag, the draws that turn the list into the wire order (recovered by the
    harness by inverting rand.Shuffle's loop; [jsok = false] when the wire is no permutation),
    the source connection ID of the packets, tls.Config.ServerName, then the observables: the
    spec's parameter list / key shares / server name AFTER the dial, extension 57 as read off
    the wire, server_name on the wire.
    [NilSpec]: first flight of UTransport{QUICSpec: nil} and of Transport under the same (random)
    Config: datagram sizes, transport parameters, and a feature list (packet numbers and their
    lengths, ClientHello extension ids in order, key share groups and lengths, cipher suites, SNI /
    source connection ID / token lengths): the model of u_dial None is plain_dial, so they agree.
    [Retx]: the real uPacketPacker driven packet by packet (harness/quic/udial.go): the first
    flight as (packet number, CRYPTO frames), then losses / acknowledgements through the frames'
    own handlers and packing calls (regular, PTO probe, PTO probe with addPingIfEmpty), each with
    the retransmission queue before and after it, the ranges it took, whether the payload on the
    wire is exactly what the packer selected, and its result (nothing / packet / error class);
    [layout] is the spec's QUICFrames layout when it has a non-empty one. *)
From Coq Require Import List ZArith Bool String.
From V Require Import Gen.Params Lib.Hex Wire.Varint USpec.Model UDial.Model.
From V Require Export UDial.Retx.   (* the harness prints rop / rres constructors *)
From V Require Import UDial.Reg UDial.Heap.
Import ListNotations.
Open Scope Z_scope.

Definition rp := (Z * string * bool)%type.
Definition mkp (x : rp) : param := let '(id, s, t) := x in P id (hx s) t.
Definition mkps (l : list rp) : list param := map mkp l.
Definition mkkey (x : Z * Z) : keyshare := KS (fst x) (repeat 0 (Z.to_nat (snd x))).

Inductive step :=
| Dial (sup : list Z) (rnd : bool) (jsok : bool) (js : list Z) (scid : string) (name : string)
       (after : list rp) (afterKeys : list (Z * Z)) (afterSNI : string)
       (wire : list (Z * string)) (wsni : string).

(* Reg: ONE UTransport, dials through the real doDial with closes and pauses; after every step,
   for every source connection ID used so far (0 = the empty ID, else 0x01 || bytes as a number):
   (ID, kind, owner) with kind 0 = no entry, 1 = live connection of dial [owner], 2 = a
   closed-connection handler. GWaitShort is shorter than any expiry, GWaitLong longer than all. *)
Inductive regop :=
| GDial (k id : Z) (ok : bool)
| GClose (k id : Z)
| GDestroy (k id : Z)
| GWaitShort
| GWaitLong.
Inductive regstep := GStep (o : regop) (obs : list (Z * Z * Z)).

Inductive case :=
| Seq (ps0 : list rp) (keys0 : list (Z * Z)) (sni0 : string) (steps : list step)
| NilSpec (sizesU : list Z) (tpU : list (Z * string)) (featU : list Z)
          (sizesP : list Z) (tpP : list (Z * string)) (featP : list Z)
| Retx (n : Z) (planned : bool) (layout : option (list lframe)) (flight : list (Z * list (Z * Z))) (ops : list rop)
| Reg (steps : list regstep).

(* per dial: spec after the dial (parameters, key shares as (group, |Data|), server name),
   extension 57 as a reader sees it, server_name *)
Definition step_obs := (list param * list (Z * Z) * list Z * option (list (Z * list Z)) * list Z)%type.
Inductive obs :=
| OSeq (l : list step_obs)
| OPanic (l : list step_obs)       (* the model says this dial panics (PopulateFromUQUIC) *)
| ONil
| ORetx (ok : bool).

(* the keys uTLS generates are not observable before they are on the wire: any value longer
   than one byte does for the replay (only lengths are compared) *)
Definition placeholder_fresh (n : nat) : list (list Z) := repeat (repeat 1 32%nat) n.

Definition keylens (ks : list keyshare) : list (Z * Z) := map (fun k => (kGroup k, zlen (kData k))) ks.

Definition param_eqb (a b : param) : bool :=
  (pid a =? pid b) && zeqb_list (pval a) (pval b) && Bool.eqb (ptyped a) (ptyped b).
Fixpoint params_eqb (a b : list param) : bool :=
  match a, b with
  | [], [] => true
  | x :: a', y :: b' => param_eqb x y && params_eqb a' b'
  | _, _ => false
  end.
(* the object-level dial (UDial.Heap) on the spec's transport parameter object: the spec's object
   is left alone and the connection's own object caches the bytes the value-level dial sends *)
Definition heap_agrees (st1 : spec_state) (scid : list Z) (o : oracle) (w : wire_view) : bool :=
  match heap_dial (sSup st1) (sRnd st1) scid o [OTP (sParams st1) None] [0%nat] with
  | Some (h2, _) =>
    match hget h2 0, hget h2 1 with
    | OTP p0 None, OTP _ (Some b) => params_eqb p0 (sParams st1) && zeqb_list b (wExt w)
    | _, _ => false
    end
  | None => false
  end.

Fixpoint replay (st : spec_state) (steps : list step) : obs :=
  match steps with
  | [] => OSeq []
  | Dial sup rnd _ js scid name _ _ _ _ _ :: r =>
    let st1 := set_rnd (set_sup st sup) rnd in
    let o := Oracle (map Z.to_nat js) (hx name) (placeholder_fresh (List.length (sKeys st1))) in
    match dial st1 (hx scid) o with
    | None => OPanic []
    | Some (st2, w) =>
      if negb (heap_agrees st1 (hx scid) o w) then OPanic [] else
      let so : step_obs := (sParams st2, keylens (sKeys st2), sSNI st2, parse (wExt w), wSNI w) in
      match replay st2 r with
      | OSeq l => OSeq (so :: l)
      | OPanic l => OPanic (so :: l)
      | other => other
      end
    end
  end.

(* Retx: the model's queue equals the logged one before and after every packing call, the
   logged pops are legal, and the model's result is the implementation's *)
Fixpoint ranges_eqb (a b : list range) : bool :=
  match a, b with
  | [], [] => true
  | x :: a', y :: b' => (fst x =? fst y) && (snd x =? snd y) && ranges_eqb a' b'
  | _, _ => false
  end.
Definition rres_eqb (m o : rres) : bool :=
  match m, o with
  | RNone, RNone => true
  | RPkt p f, RPkt p' f' => (p =? p') && ranges_eqb f f'
  | RErr c, RErr c' => c =? c'
  | _, _ => false
  end.
(* AsPacked: the wire must be exactly the packer's frames. Reframed: a builder may reproduce the
   very same frames, except a QUICFrames layout of the harness, which always adds a PING. *)
Definition path_ok (layout : option (list lframe)) (m : mpath) (aspacked : bool) : bool :=
  match m, layout with
  | AsPacked, _ => aspacked
  | Reframed, Some _ => negb aspacked
  | Reframed, None => true
  end.
Fixpoint retx_ok (planned : bool) (layout : option (list lframe)) (st : rstate) (ops : list rop) : bool :=
  match ops with
  | [] => true
  | o :: r =>
    match rstep planned layout st o with
    | None => false
    | Some (st', res) =>
      match o with
      | RPack _ _ before popped after aspacked obs =>
        ranges_eqb (rQueue st) before && ranges_eqb (rQueue st') after && rres_eqb res obs &&
        path_ok layout (marshal_path planned layout popped) aspacked &&
        retx_ok planned layout st' r
      | RCoalesce before popped after aspacked count obs =>
        ranges_eqb (rQueue st) before && ranges_eqb (rQueue st') after && rres_eqb res obs &&
        path_ok layout (marshal_path planned layout popped) aspacked &&
        (count =? coalesced_count popped false true) &&
        retx_ok planned layout st' r
      | _ => retx_ok planned layout st' r
      end
    end
  end.

Definition reg_apply (st : rgstate) (o : regop) : rgstate :=
  match o with
  | GDial k id _ => rgstep st (RgDial k id)
  | GClose k id => rgstep st (RgClose k id)
  | GDestroy k id => rgstep st (RgDestroy k id)
  | GWaitShort => st
  | GWaitLong => expire_all st
  end.
Definition reg_obs_ok (st : rgstate) (x : Z * Z * Z) : bool :=
  let '(id, kind, owner) := x in
  match route st id with
  | None => kind =? 0
  | Some (Live k) => (kind =? 1) && (owner =? k)
  | Some (Tomb _) => kind =? 2
  end.
Fixpoint reg_ok (st : rgstate) (steps : list regstep) : bool :=
  match steps with
  | [] => true
  | GStep o obs :: r =>
    let st' := reg_apply st o in
    (match o with GDial k id ok => Bool.eqb ok (snd (rgdial st k id)) | _ => true end) &&   (* accepted <=> the dial works and its replies arrive *)
    forallb (reg_obs_ok st') obs && reg_ok st' r
  end.

Definition model_obs (c : case) : obs :=
  match c with
  | Seq ps0 keys0 sni0 steps => replay (Spec (mkps ps0) None (map mkkey keys0) (hx sni0) [] false) steps
  | NilSpec _ _ _ _ _ _ => ONil
  | Retx n planned layout flight ops => ORetx (retx_ok planned layout (RS flight [] []) ops)
  | Reg steps => ORetx (reg_ok (RG [] []) steps)
  end.

Fixpoint idvals_eqb (a : list (Z * list Z)) (b : list (Z * string)) : bool :=
  match a, b with
  | [], [] => true
  | (i, v) :: a', (j, s) :: b' => (i =? j) && zeqb_list v (hx s) && idvals_eqb a' b'
  | _, _ => false
  end.
Fixpoint pairs_eqb (a b : list (Z * Z)) : bool :=
  match a, b with
  | [], [] => true
  | (x1, x2) :: a', (y1, y2) :: b' => (x1 =? y1) && (x2 =? y2) && pairs_eqb a' b'
  | _, _ => false
  end.
Fixpoint zs_eqb_str (a : list (Z * string)) (b : list (Z * string)) : bool :=
  match a, b with
  | [], [] => true
  | (i, s) :: a', (j, t) :: b' => (i =? j) && zeqb_list (hx s) (hx t) && zs_eqb_str a' b'
  | _, _ => false
  end.

Definition step_ok (m : step_obs) (s : step) : bool :=
  let '(ps, ks, sni, wire, wsni) := m in
  match s with
  | Dial _ _ jsok _ _ _ after afterKeys afterSNI w wsni' =>
    jsok && params_eqb ps (mkps after) && pairs_eqb ks afterKeys && zeqb_list sni (hx afterSNI) &&
    match wire with Some l => idvals_eqb l w | None => false end &&
    zeqb_list wsni (hx wsni')
  end.

Fixpoint steps_ok (m : list step_obs) (s : list step) : bool :=
  match m, s with
  | [], [] => true
  | x :: m', y :: s' => step_ok x y && steps_ok m' s'
  | _, _ => false
  end.

Definition check_case (c : case) : bool :=
  match c, model_obs c with
  | Seq _ _ _ steps, OSeq l => steps_ok l steps
  | NilSpec su tu fu sp tp fp, ONil => zeqb_list su sp && zs_eqb_str tu tp && zeqb_list fu fp
  | Retx _ _ _ _ _, ORetx ok => ok
  | Reg _, ORetx ok => ok
  | _, _ => false
  end.
