(** UDial.Reg: which connection the Transport's packet handler map routes a connection ID to,
    across dials, closes and the expiry of closed-connection entries.

    Mirrors (uquic):
      u_transport.go  UTransport.doDial (after fixes/C02-empty-scid-one-open-connection.patch): under
                      t.mutex, refuse the dial when the ID is held by an OPEN connection; otherwise
                      [t.handlers[srcConnID] = conn], a plain map write that takes over whatever
                      a CLOSED connection left under that ID.  [overwrite_dial]: the code before
                      that repair wrote unconditionally
      transport.go    packetHandlerMap.ReplaceWithClosed: every ID of a gracefully closed connection
                      is re-pointed to a closed-connection handler (closedLocalConn / closedRemoteConn)
                      and a timer (3 PTO) is armed that deletes the entry ONLY if it still holds
                      that very handler (repair cbbefc3)
      transport.go    packetHandlerMap.Remove (connIDGenerator.RemoveAll on an immediate close --
                      destroy, idle / handshake timeout): deletes the ID, unconditionally
      transport.go    packetHandlerMap.Add (used for IDs issued later): refuses an existing ID
      transport.go    handlePacket: routes by the handler found under the destination ID
    With zero-length source connection IDs (every Chrome parrot) all connections dialled from
    one Transport use the same ID, so the entries of earlier dials matter to later ones.
    [legacy_expire] (before cbbefc3: unconditional delete) and [add_dial] (registration through
    Add, seeded change C02-f) are kept as the specifications of the two defects.
    Executable definitions only. *)
From Coq Require Import List ZArith Bool.
Import ListNotations.
Open Scope Z_scope.

Inductive handler :=
| Live (k : Z)                 (* connection of dial k *)
| Tomb (k : Z).                (* closed-connection handler installed when dial k was closed *)

Definition handler_eqb (a b : handler) : bool :=
  match a, b with
  | Live x, Live y => x =? y
  | Tomb x, Tomb y => x =? y
  | _, _ => false
  end.

Definition hmap := list (Z * handler).          (* connection ID (as a number) -> handler *)

Fixpoint lookup (id : Z) (m : hmap) : option handler :=
  match m with
  | [] => None
  | (i, h) :: r => if i =? id then Some h else lookup id r
  end.
Fixpoint remove (id : Z) (m : hmap) : hmap :=
  match m with
  | [] => []
  | (i, h) :: r => if i =? id then remove id r else (i, h) :: remove id r
  end.
Definition set (id : Z) (h : handler) (m : hmap) : hmap := (id, h) :: remove id m.

Record rgstate := RG {
  rgMap : hmap;
  rgTimers : list (Z * Z) }.                    (* armed expiry callbacks: (ID, dial) *)

Inductive rgop :=
| RgDial (k id : Z)                             (* doDial registers connection k under id *)
| RgClose (k id : Z)                            (* graceful close (local or remote): ReplaceWithClosed *)
| RgDestroy (k id : Z)                          (* immediate close: RemoveAll *)
| RgExpire (k id : Z).                          (* the timer armed by RgClose k id fires *)

Fixpoint has_timer (k id : Z) (l : list (Z * Z)) : bool :=
  match l with
  | [] => false
  | (i, j) :: r => ((i =? id) && (j =? k)) || has_timer k id r
  end.
Fixpoint drop_timer (k id : Z) (l : list (Z * Z)) : list (Z * Z) :=
  match l with
  | [] => []
  | (i, j) :: r => if (i =? id) && (j =? k) then r else (i, j) :: drop_timer k id r
  end.

(** doDial: the new state and whether the dial was accepted *)
Definition rgdial (st : rgstate) (k id : Z) : rgstate * bool :=
  match lookup id (rgMap st) with
  | Some (Live _) => (st, false)                                   (* in use by an open connection: refused *)
  | _ => (RG (set id (Live k) (rgMap st)) (rgTimers st), true)
  end.
(* before fixes/C02-empty-scid-one-open-connection.patch *)
Definition overwrite_dial (st : rgstate) (k id : Z) : rgstate :=
  RG (set id (Live k) (rgMap st)) (rgTimers st).

Definition rgstep (st : rgstate) (o : rgop) : rgstate :=
  match o with
  | RgDial k id => fst (rgdial st k id)
  | RgClose k id => RG (set id (Tomb k) (rgMap st)) ((id, k) :: rgTimers st)
  | RgDestroy _ id => RG (remove id (rgMap st)) (rgTimers st)
  | RgExpire k id =>
    if has_timer k id (rgTimers st) then
      RG (match lookup id (rgMap st) with
          | Some h => if handler_eqb h (Tomb k) then remove id (rgMap st) else rgMap st
          | None => rgMap st
          end)
         (drop_timer k id (rgTimers st))
    else st
  end.
Definition rgrun (st : rgstate) (ops : list rgop) : rgstate := fold_left rgstep ops st.

(** handlePacket: who gets a packet with destination ID [id] *)
Definition route (st : rgstate) (id : Z) : option handler := lookup id (rgMap st).

(** An operation is enabled when the connection it belongs to exists: connection j can be closed
    or destroyed only while it is the open connection registered under its ID (Dial returned it,
    nobody can take an open connection's entry, it has not been closed before). Dials and timer
    expiries are always enabled. *)
Definition enabled (st : rgstate) (o : rgop) : bool :=
  match o with
  | RgClose j i | RgDestroy j i =>
    match route st i with Some h => handler_eqb h (Live j) | None => false end
  | _ => true
  end.
Fixpoint wf_run (st : rgstate) (ops : list rgop) : bool :=
  match ops with
  | [] => true
  | o :: r => enabled st o && wf_run (rgstep st o) r
  end.

(** all pending timers fire, oldest first (what a long pause does) *)
Definition expire_all (st : rgstate) : rgstate :=
  fold_left (fun s t => rgstep s (RgExpire (snd t) (fst t))) (rev (rgTimers st)) st.

(** ** the two defects *)
(* before cbbefc3: the timer deletes the ID whatever it holds now *)
Definition legacy_expire (st : rgstate) (k id : Z) : rgstate :=
  if has_timer k id (rgTimers st) then RG (remove id (rgMap st)) (drop_timer k id (rgTimers st)) else st.
(* seeded change C02-f: registration through packetHandlerMap.Add *)
Definition add_dial (st : rgstate) (k id : Z) : rgstate :=
  match lookup id (rgMap st) with
  | Some _ => st
  | None => RG (set id (Live k) (rgMap st)) (rgTimers st)
  end.
