(** UDial.Retx: proofs. Losses, acknowledgements and retransmissions only move CRYPTO ranges
    between "outstanding", "queued" and "acknowledged"; a retransmission carries exactly the bytes
    it takes out of the queue; packing never errs, and the spec's frame builder is only ever
    handed one contiguous non-empty slice that its layout fits. Before the repair the
    contiguity requirement of the re-framing path failed the connection when two non-adjacent
    datagrams were lost together. *)
From Coq Require Import List ZArith Bool Lia.
From V Require Import UDial.Retx.
Import ListNotations.
Open Scope Z_scope.

Lemma covers_app b l1 l2 : covers b (l1 ++ l2) <-> covers b l1 \/ covers b l2.
Proof.
  unfold covers. split.
  - intros [r [Hin Hr]]. apply in_app_or in Hin as [H|H]; [left|right]; exists r; auto.
  - intros [[r [Hin Hr]]|[r [Hin Hr]]]; exists r; split; auto; apply in_or_app; auto.
Qed.

Lemma take_pkt_ranges pn out fs out' :
  take_pkt pn out = Some (fs, out') ->
  forall r, In r (flat_map snd out) <-> In r fs \/ In r (flat_map snd out').
Proof.
  revert fs out'. induction out as [|[p f] t IH]; intros fs out' H r; cbn in H; [discriminate|].
  destruct (p =? pn).
  - inversion H; subst. cbn. rewrite in_app_iff. reflexivity.
  - destruct (take_pkt pn t) as [[fs' t']|] eqn:E; [|discriminate]. inversion H; subst.
    cbn. rewrite !in_app_iff, (IH _ _ eq_refl r). tauto.
Qed.

Lemma covers_take b pn out fs out' :
  take_pkt pn out = Some (fs, out') ->
  (covers b (flat_map snd out) <-> covers b fs \/ covers b (flat_map snd out')).
Proof.
  intros H. unfold covers. split.
  - intros [r [Hin Hr]]. apply (take_pkt_ranges _ _ _ _ H) in Hin as [Hi|Hi]; [left|right]; exists r; auto.
  - intros [[r [Hin Hr]]|[r [Hin Hr]]]; exists r; split; auto; apply (take_pkt_ranges _ _ _ _ H); auto.
Qed.

(** C02_initial_retx_complete, first half: what one Pack call takes out of the queue is, byte
    for byte, what the queue loses *)
Theorem pop_check_covers popped : forall q q', pop_check q popped = Some q' ->
  forall b, covers b q <-> covers b popped \/ covers b q'.
Proof.
  induction popped as [|p ps IH]; intros q q' H b; cbn in H.
  - inversion H; subst. split.
    + intros Hc. right. exact Hc.
    + intros [Hc|Hc]; [|exact Hc]. destruct Hc as [r [Hin _]]. destruct Hin.
  - destruct q as [|h t]; [discriminate|].
    destruct ((fst p =? fst h) && (snd p =? snd h)) eqn:E1.
    + apply andb_true_iff in E1 as [Ea Eb]. apply Z.eqb_eq in Ea, Eb.
      assert (p = h) by (destruct p, h; cbn in *; subst; reflexivity). subst p.
      specialize (IH _ _ H b).
      change (h :: t) with ([h] ++ t). change (h :: ps) with ([h] ++ ps).
      rewrite !covers_app, IH. tauto.
    + destruct ((fst p =? fst h) && (0 <? snd p) && (snd p <? snd h)) eqn:E2; [|discriminate].
      destruct ps; [|discriminate]. inversion H; subst; clear H.
      apply andb_true_iff in E2 as [E2 Ec]. apply andb_true_iff in E2 as [Ea Eb].
      apply Z.eqb_eq in Ea. apply Z.ltb_lt in Eb, Ec.
      change (h :: t) with ([h] ++ t).
      change ((fst h + snd p, snd h - snd p) :: t) with ([(fst h + snd p, snd h - snd p)] ++ t).
      rewrite !covers_app.
      assert (Hs : covers b [h] <-> covers b [p] \/ covers b [(fst h + snd p, snd h - snd p)]).
      { unfold covers, r_end. split.
        - intros [r [[<-|[]] Hr]].
          destruct (Z.lt_ge_cases b (fst p + snd p)) as [Hlt|Hge].
          + left. exists p. split; [left; reflexivity | lia].
          + right. eexists. split; [left; reflexivity|]. cbn. lia.
        - intros [[r [[<-|[]] Hr]]|[r [[<-|[]] Hr]]]; exists h; (split; [left; reflexivity|]); cbn in *; lia. }
      rewrite Hs. tauto.
Qed.

(** every step keeps every byte accounted for *)
Lemma rstep_covers planned layout st o st' res b :
  rstep planned layout st o = Some (st', res) ->
  covers b (all_ranges st) -> covers b (all_ranges st').
Proof.
  unfold all_ranges. destruct o as [pn|pn|probe ping before popped after asp r0|before popped after asp cnt r0]; cbn [rstep]; intros H Hc.
  - destruct (take_pkt pn (rOut st)) as [[fs out']|] eqn:E; inversion H; subst; clear H; [|exact Hc].
    cbn [rOut rQueue rAcked]. rewrite !covers_app in *. rewrite (covers_take b _ _ _ _ E) in Hc. tauto.
  - destruct (take_pkt pn (rOut st)) as [[fs out']|] eqn:E; inversion H; subst; clear H; [|exact Hc].
    cbn [rOut rQueue rAcked]. rewrite !covers_app in *. rewrite (covers_take b _ _ _ _ E) in Hc. tauto.
  - destruct (pop_check (rQueue st) popped) as [q'|] eqn:E; [|discriminate].
    pose proof (pop_check_covers _ _ _ E b) as Hp.
    assert (Hnil : ~ covers b []) by (intros [r [Hin _]]; destruct Hin).
    destruct popped as [|p ps].
    + destruct ping; inversion H; subst; clear H; cbn [rOut rQueue rAcked].
      * rewrite flat_map_app. cbn [flat_map snd]. rewrite !covers_app in *. tauto.
      * rewrite !covers_app in *. tauto.
    + inversion H; subst; clear H. cbn [rOut rQueue rAcked].
      rewrite flat_map_app. cbn [flat_map snd]. rewrite app_nil_r. rewrite !covers_app in *. tauto.
  - destruct (pop_check (rQueue st) popped) as [q'|] eqn:E; [|discriminate].
    pose proof (pop_check_covers _ _ _ E b) as Hp.
    assert (Hnil : ~ covers b []) by (intros [r [Hin _]]; destruct Hin).
    destruct popped as [|p ps]; inversion H; subst; clear H; cbn [rOut rQueue rAcked].
    + rewrite !covers_app in *. tauto.
    + rewrite flat_map_app. cbn [flat_map snd]. rewrite app_nil_r. rewrite !covers_app in *. tauto.
Qed.

(** C02_initial_retx_never_errors: no step ends in an error *)
Theorem rstep_never_errors planned layout st o st' res :
  rstep planned layout st o = Some (st', res) -> is_err res = false.
Proof.
  destruct o as [pn|pn|probe ping before popped after asp r0|before popped after asp cnt r0]; cbn [rstep]; intros H.
  - destruct (take_pkt pn (rOut st)) as [[fs out']|]; inversion H; reflexivity.
  - destruct (take_pkt pn (rOut st)) as [[fs out']|]; inversion H; reflexivity.
  - destruct (pop_check (rQueue st) popped) as [q'|]; [|discriminate].
    destruct popped; [destruct ping|]; inversion H; reflexivity.
  - destruct (pop_check (rQueue st) popped) as [q'|]; [|discriminate].
    destruct popped; inversion H; reflexivity.
Qed.

(** a spec-driven Initial packet with frames shares its datagram with nothing *)
Theorem spec_initial_travels_alone frames ping hs :
  frames <> [] \/ ping = true -> coalesced_count frames ping hs = 1.
Proof.
  intros [H| ->].
  - destruct frames; [contradiction | reflexivity].
  - destruct frames; reflexivity.
Qed.

Example legacy_coalesced : legacy_coalesced_count [(0, 300)] false true = 2 /\ coalesced_count [(0, 300)] false true = 1.
Proof. split; reflexivity. Qed.

(** C02_initial_retx_complete: for EVERY history of losses, acknowledgements and packing calls no
    result is an error and every byte that was outstanding, queued or acknowledged before still is *)
Theorem rrun_covers planned layout ops : forall st st' rs,
  rrun planned layout st ops = Some (st', rs) ->
  existsb is_err rs = false /\
  forall b, covers b (all_ranges st) -> covers b (all_ranges st').
Proof.
  unfold rrun. induction ops as [|o r IH]; intros st st' rs H; cbn in H.
  - inversion H; subst. split; [reflexivity | auto].
  - destruct (rstep planned layout st o) as [[st1 res]|] eqn:E; [|discriminate].
    rewrite (rstep_never_errors _ _ _ _ _ _ E) in H.
    destruct (rrun_with (rstep planned layout) st1 r) as [[st2 rs2]|] eqn:E2; [|discriminate].
    inversion H; subst; clear H. destruct (IH _ _ _ E2) as [He Hc]. split.
    + cbn. rewrite (rstep_never_errors _ _ _ _ _ _ E). exact He.
    + intros b Hb. apply Hc. eapply rstep_covers; eassumption.
Qed.

Corollary flight_stays_covered planned layout flight n ops st' rs :
  (forall b, 0 <= b < n -> covers b (flat_map snd flight)) ->
  rrun planned layout (RS flight [] []) ops = Some (st', rs) ->
  existsb is_err rs = false /\ forall b, 0 <= b < n -> covers b (all_ranges st').
Proof.
  intros Hf H. destruct (rrun_covers _ _ _ _ _ _ H) as [He Hc]. split; [exact He|].
  intros b Hb. apply Hc. unfold all_ranges. cbn. rewrite !app_nil_r. apply Hf, Hb.
Qed.

(** the spec's frame builder is consulted only for one contiguous, non-empty slice which, for a
    QUICFrames layout, the layout fits; in particular never for a PING-only probe and never
    after a planned flight *)
Theorem reframed_only_one_range planned layout frames :
  marshal_path planned layout frames = Reframed ->
  planned = false /\ 0 < total_len frames /\ contiguous frames = true /\
  (forall l, layout = Some l -> layout_fits l (total_len frames) = true).
Proof.
  unfold marshal_path, one_range. destruct planned; [discriminate|].
  destruct (0 <? total_len frames) eqn:Et; cbn [andb negb]; [|discriminate].
  destruct (contiguous frames) eqn:Ec; cbn [negb]; [|discriminate].
  apply Z.ltb_lt in Et. intros H. repeat split; try assumption.
  intros l ->. destruct (layout_fits l (total_len frames)); [reflexivity | discriminate].
Qed.

Lemma ping_only_as_packed planned layout : marshal_path planned layout [] = AsPacked.
Proof. unfold marshal_path. destruct planned; reflexivity. Qed.

(** ** before the repair *)
Theorem legacy_rstep_error_iff planned st probe ping before popped after asp r0 st' res :
  legacy_rstep planned st (RPack probe ping before popped after asp r0) = Some (st', res) ->
  (is_err res = true <-> planned = false /\ popped <> [] /\ contiguous popped = false).
Proof.
  cbn [legacy_rstep]. destruct (pop_check (rQueue st) popped) as [q'|]; [|discriminate].
  destruct popped as [|p ps].
  - intros H. inversion H; subst. cbn. split; [discriminate | intros [_ [Hn _]]; congruence].
  - unfold legacy_marshal_ok. destruct planned; cbn [orb].
    + intros H. inversion H; subst. cbn. split; [discriminate | intros [Hp _]; discriminate].
    + destruct (contiguous (p :: ps)) eqn:Ec; intros H; inversion H; subst; cbn.
      * split; [discriminate | intros [_ [_ Hc]]; discriminate].
      * split; [intros _; repeat split; discriminate | reflexivity].
Qed.

(** three datagrams, the middle one acknowledged, the outer two lost together, both fit into one
    retransmission *)
Definition ex_flight : list (Z * list range) := [(0, [(0, 300)]); (1, [(300, 300)]); (2, [(600, 300)])].
Definition ex_ops : list rop :=
  [RAck 1; RLose 0; RLose 2; RPack true false [(0, 300); (600, 300)] [(0, 300); (600, 300)] [] true (RPkt 3 [])].

Lemma ex_flight_covers : forall b, 0 <= b < 900 -> covers b (flat_map snd ex_flight).
Proof.
  intros b Hb. unfold covers, r_end. cbn.
  destruct (Z.lt_ge_cases b 300); [exists (0, 300); cbn; split; [auto | lia]|].
  destruct (Z.lt_ge_cases b 600); [exists (300, 300); cbn; split; [auto | lia]|].
  exists (600, 300); cbn; split; [auto | lia].
Qed.

(** before the repair that history closed the connection and lost byte 0 ... *)
Theorem legacy_retx_error_reachable :
  (forall b, 0 <= b < 900 -> covers b (flat_map snd ex_flight)) /\
  exists st', legacy_rrun false (RS ex_flight [] []) ex_ops = Some (st', [RNone; RNone; RNone; RErr 1]) /\
              ~ covers 0 (all_ranges st').
Proof.
  split; [exact ex_flight_covers|].
  eexists. split; [vm_compute; reflexivity|].
  intros [r [Hin Hr]]. cbn in Hin. destruct Hin as [<-|[]]. unfold r_end in Hr. cbn in Hr. lia.
Qed.

(** ... now both ranges go out in one packet, as the packer selected them (regression) *)
Theorem retx_witness_handled :
  marshal_path false None [(0, 300); (600, 300)] = AsPacked /\
  exists st', rrun false None (RS ex_flight [] []) ex_ops = Some (st', [RNone; RNone; RNone; RPkt 3 [(0, 300); (600, 300)]]) /\
              forall b, 0 <= b < 900 -> covers b (all_ranges st').
Proof.
  split; [vm_compute; reflexivity|].
  eexists. split; [vm_compute; reflexivity|].
  intros b Hb. unfold covers, r_end. cbn.
  destruct (Z.lt_ge_cases b 300); [exists (0, 300); cbn; split; [auto 6 | lia]|].
  destruct (Z.lt_ge_cases b 600); [exists (300, 300); cbn; split; [auto 6 | lia]|].
  exists (600, 300); cbn; split; [auto 6 | lia].
Qed.

(** a fixed layout that cuts its slice at offset 35 is not applied to the 5 bytes a
    retransmission left over, nor to an empty probe; it is applied to a slice it fits *)
Example layout_examples :
  let l := [LCrypto 35 0; LOther; LCrypto 0 35] in
  marshal_path false (Some l) [(2475, 5)] = AsPacked /\
  marshal_path false (Some l) [] = AsPacked /\
  marshal_path false (Some l) [(0, 700); (700, 500)] = Reframed /\
  marshal_path true (Some l) [(0, 700)] = AsPacked.
Proof. vm_compute. repeat split; reflexivity. Qed.

(** the decision of MarshalInitialPacketPayload, both directions *)
Theorem reframed_iff planned layout frames :
  marshal_path planned layout frames = Reframed <->
  planned = false /\ 0 < total_len frames /\ contiguous frames = true /\
  match layout with Some l => layout_fits l (total_len frames) = true | None => True end.
Proof.
  unfold marshal_path, one_range. split.
  - destruct planned; [discriminate|].
    destruct (0 <? total_len frames) eqn:Et; cbn [andb negb]; [|discriminate].
    destruct (contiguous frames) eqn:Ec; cbn [negb]; [|discriminate].
    apply Z.ltb_lt in Et. intros H. repeat split; try assumption.
    destruct layout as [l|]; [|exact I]. destruct (layout_fits l (total_len frames)); [reflexivity | discriminate].
  - intros [-> [Ht [Hc Hl]]]. apply Z.ltb_lt in Ht. rewrite Ht, Hc. cbn [andb negb].
    destruct layout as [l|]; [rewrite Hl|]; reflexivity.
Qed.
