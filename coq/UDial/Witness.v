(** UDial: concrete witnesses (a Firefox-shaped spec dialled twice). *)
From Coq Require Import List ZArith Bool Lia.
From V Require Import Gen.Params Lib.Hex Wire.Varint USpec.Model USpec.Proofs USpec.ProofsWire
  UDial.Model UDial.Proofs.
Import ListNotations.
Open Scope Z_scope.

Definition ex_spec : spec_state :=
  Spec [P 1 [128; 0; 117; 48] true; P 14 [8] true; P 15 [] true; P 4 [129; 128; 0; 0] true]
       None [KS 29 []] [] [] false.
Definition ex_o1 : oracle := Oracle [] [104; 49] [repeat 7 32%nat].
Definition ex_o2 : oracle := Oracle [] [104; 50] [repeat 9 32%nat].


Lemma ex_spec_wf : wf_spec ex_spec.
Proof.
  split.
  - repeat (constructor; [unfold wfp, maxVarInt8; cbn; lia|]). constructor.
  - repeat (constructor; [unfold leaves_scid; cbn; intros H; (discriminate H || (split; reflexivity))|]). constructor.
Qed.
Lemma ex_spec_keys : Forall wants_key (sKeys ex_spec).
Proof. repeat constructor. Qed.

Lemma legacy_refuted_witness :
  wf_spec ex_spec /\ Forall wants_key (sKeys ex_spec) /\
  exists st' w1 w2,
    legacy_run ex_spec [ODial [1; 2; 3] ex_o1; ODial [4; 5; 6] ex_o2] = Some (st', [([1; 2; 3], w1); ([4; 5; 6], w2)]) /\
    wire_iscids w2 = Some [[1; 2; 3]] /\
    vInitialSourceConnectionID (wView w2) = [1; 2; 3] /\
    map kData (wKeys w2) = oFresh ex_o1 /\ wHeld w2 = [false] /\
    wSNI w2 = oName ex_o1.
Proof.
  split; [exact ex_spec_wf|]. split; [exact ex_spec_keys|].
  eexists _, _, _. vm_compute. repeat split; reflexivity.
Qed.

Lemma ex_history :
  wf_spec ex_spec /\ Forall wants_key (sKeys ex_spec) /\
  exists w1 w2,
    run ex_spec ([ODial [1; 2; 3] ex_o1; OSetSup [14]] ++ ODial [4; 5; 6] ex_o2 :: []) =
      Some (set_sup ex_spec [14], [([1; 2; 3], w1); ([4; 5; 6], w2)]) /\
    wire_iscids w1 = Some [[1; 2; 3]] /\ wire_iscids w2 = Some [[4; 5; 6]] /\
    parse (wExt w2) = Some [(1, [128; 0; 117; 48]); (15, [4; 5; 6]); (4, [129; 128; 0; 0])] /\
    map kData (wKeys w2) = oFresh ex_o2 /\ wHeld w2 = [true] /\ wSNI w2 = oName ex_o2.
Proof.
  split; [exact ex_spec_wf|]. split; [exact ex_spec_keys|].
  eexists _, _. vm_compute. repeat split; reflexivity.
Qed.
