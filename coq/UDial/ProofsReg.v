(** UDial.Reg: proofs. A dial owns its connection ID from the moment doDial registered it,
    whatever earlier dials left behind and whichever of their timers fire later. *)
From Coq Require Import List ZArith Bool Lia.
From V Require Import UDial.Reg.
Import ListNotations.
Open Scope Z_scope.

Lemma lookup_remove_same id m : lookup id (remove id m) = None.
Proof.
  induction m as [|[i h] r IH]; cbn; [reflexivity|].
  destruct (i =? id) eqn:E; [exact IH|]. cbn. rewrite E. exact IH.
Qed.
Lemma lookup_remove_other id j m : j <> id -> lookup id (remove j m) = lookup id m.
Proof.
  intros Hn. induction m as [|[i h] r IH]; cbn; [reflexivity|].
  destruct (i =? j) eqn:E.
  - apply Z.eqb_eq in E. subst i. rewrite IH. destruct (j =? id) eqn:E2; [apply Z.eqb_eq in E2; contradiction | reflexivity].
  - cbn. rewrite IH. reflexivity.
Qed.
Lemma lookup_set_same id h m : lookup id (set id h m) = Some h.
Proof. unfold set. cbn. rewrite Z.eqb_refl. reflexivity. Qed.
Lemma lookup_set_other id j h m : j <> id -> lookup id (set j h m) = lookup id m.
Proof.
  intros Hn. unfold set. cbn. destruct (j =? id) eqn:E; [apply Z.eqb_eq in E; contradiction|].
  apply lookup_remove_other, Hn.
Qed.

Lemma handler_eqb_eq a b : handler_eqb a b = true <-> a = b.
Proof.
  destruct a, b; cbn; split; intros H; try discriminate; try (inversion H; subst; apply Z.eqb_refl);
    apply Z.eqb_eq in H; subst; reflexivity.
Qed.

(** what doDial answers *)
Theorem rgdial_result st k id :
  (snd (rgdial st k id) = true -> route (fst (rgdial st k id)) id = Some (Live k)) /\
  (snd (rgdial st k id) = false -> fst (rgdial st k id) = st /\ exists j, route st id = Some (Live j)).
Proof.
  unfold rgdial, route. destruct (lookup id (rgMap st)) as [[j|j]|] eqn:E; cbn [fst snd]; split; intros H;
    try discriminate; try (cbn; apply lookup_set_same).
  split; [reflexivity | exists j; reflexivity].
Qed.

(** the operations that may follow dial k under [id] without ending it: anything but connection
    k's own close or destroy *)
Definition not_own_end (k id : Z) (o : rgop) : Prop :=
  match o with
  | RgClose j i | RgDestroy j i => ~ (j = k /\ i = id)
  | _ => True
  end.

Lemma rgstep_keeps_owner st o id k :
  enabled st o = true -> not_own_end k id o ->
  route st id = Some (Live k) -> route (rgstep st o) id = Some (Live k).
Proof.
  unfold route. destruct o as [k' i|k' i|k' i|k' i]; cbn [rgstep enabled not_own_end]; intros He Hn Hl.
  - (* another dial: refused under this ID, elsewhere harmless *)
    unfold rgdial. destruct (Z.eq_dec i id) as [->|Hne].
    + rewrite Hl. exact Hl.
    + destruct (lookup i (rgMap st)) as [[j|j]|]; cbn [fst rgMap]; try exact Hl;
        rewrite lookup_set_other; assumption.
  - (* a close is enabled only for the connection that owns its ID *)
    unfold route in He. destruct (Z.eq_dec i id) as [->|Hne].
    + rewrite Hl in He. apply handler_eqb_eq in He. inversion He; subst. exfalso. apply Hn. split; reflexivity.
    + cbn [rgMap]. rewrite lookup_set_other; assumption.
  - unfold route in He. destruct (Z.eq_dec i id) as [->|Hne].
    + rewrite Hl in He. apply handler_eqb_eq in He. inversion He; subst. exfalso. apply Hn. split; reflexivity.
    + cbn [rgMap]. rewrite lookup_remove_other; assumption.
  - destruct (has_timer k' i (rgTimers st)); [|exact Hl]. cbn [rgMap].
    destruct (Z.eq_dec i id) as [->|Hne].
    + rewrite Hl. cbn [handler_eqb]. exact Hl.
    + destruct (lookup i (rgMap st)) as [h|]; [|exact Hl].
      destruct (handler_eqb h (Tomb k')); [|exact Hl]. rewrite lookup_remove_other; assumption.
Qed.

(** C02_redial_registered: an accepted dial owns its ID until its own close *)
Theorem redial_registered : forall ops st k id,
  snd (rgdial st k id) = true ->
  wf_run (fst (rgdial st k id)) ops = true ->
  Forall (not_own_end k id) ops ->
  route (rgrun (fst (rgdial st k id)) ops) id = Some (Live k).
Proof.
  intros ops st k id Hacc.
  pose proof (proj1 (rgdial_result st k id) Hacc) as H0. revert H0.
  generalize (fst (rgdial st k id)) as s.
  induction ops as [|o r IH]; intros s Hs Hwf Hf; cbn in *; [exact Hs|].
  apply andb_true_iff in Hwf as [He Hw]. inversion Hf as [|? ? Ho Hr]; subst.
  apply IH; [|exact Hw | exact Hr]. apply rgstep_keeps_owner; assumption.
Qed.

(** what earlier dials left behind never makes a dial fail: only an OPEN connection does *)
Theorem dial_accepted_unless_open st k id :
  snd (rgdial st k id) = true <-> (forall j, route st id <> Some (Live j)).
Proof.
  unfold rgdial, route. destruct (lookup id (rgMap st)) as [[j|j]|]; cbn [snd]; split; intros H.
  - discriminate.
  - exfalso. apply (H j). reflexivity.
  - intros j' Hc. discriminate.
  - reflexivity.
  - intros j' Hc. discriminate.
  - reflexivity.
Qed.

(** a graceful close leaves a closed-connection entry that its own timer removes, unless a later
    dial took the ID over *)
Theorem tombstone_expires st k id :
  route (rgstep (rgstep st (RgClose k id)) (RgExpire k id)) id = None.
Proof.
  unfold route. cbn [rgstep rgMap rgTimers has_timer]. rewrite !Z.eqb_refl. cbn [andb orb rgMap].
  rewrite lookup_set_same. cbn [handler_eqb]. rewrite Z.eqb_refl. apply lookup_remove_same.
Qed.

(** ** the two defects, on the history dial 1, close 1, dial 2, timer of 1 *)
Example legacy_expire_refuted :
  let st := rgrun (RG [] []) [RgDial 1 0; RgClose 1 0; RgDial 2 0] in
  route st 0 = Some (Live 2) /\ route (legacy_expire st 1 0) 0 = None /\
  route (rgstep st (RgExpire 1 0)) 0 = Some (Live 2).
Proof. vm_compute. repeat split; reflexivity. Qed.

Example add_dial_refuted :
  let st := rgrun (RG [] []) [RgDial 1 0; RgClose 1 0] in
  route (add_dial st 2 0) 0 = Some (Tomb 1) /\
  route (rgstep (add_dial st 2 0) (RgExpire 1 0)) 0 = None /\
  route (rgstep st (RgDial 2 0)) 0 = Some (Live 2).
Proof. vm_compute. repeat split; reflexivity. Qed.

(** before fixes/C02-empty-scid-one-open-connection.patch: dial 2 overwrote the entry of the OPEN
    connection 1 (which lost its packets at once), and the end of connection 1 then cut off
    connection 2 as well; now dial 2 is refused and connection 1 keeps its entry *)
Example overlap_refuted :
  let st1 := rgstep (RG [] []) (RgDial 1 0) in
  let st2 := overwrite_dial st1 2 0 in
  route st2 0 = Some (Live 2) /\
  route (rgstep st2 (RgDestroy 1 0)) 0 = None /\
  route (rgstep st2 (RgClose 1 0)) 0 = Some (Tomb 1) /\
  rgdial st1 2 0 = (st1, false) /\ route st1 0 = Some (Live 1).
Proof. vm_compute. repeat split; reflexivity. Qed.

(** non-vacuity of redial_registered: dial 1, close, dial 2 accepted over the closed entry, then
    the timer of connection 1, another dial attempt (refused) -- all enabled, connection 2 stays *)
Example redial_history_ok :
  let st := rgrun (RG [] []) [RgDial 1 0; RgClose 1 0] in
  let ops := [RgExpire 1 0; RgDial 3 0; RgDial 4 7; RgClose 4 7] in
  snd (rgdial st 2 0) = true /\ wf_run (fst (rgdial st 2 0)) ops = true /\
  Forall (not_own_end 2 0) ops /\ route (rgrun (fst (rgdial st 2 0)) ops) 0 = Some (Live 2).
Proof.
  vm_compute. repeat split; try reflexivity.
  repeat constructor; intros [H1 H2]; discriminate.
Qed.

(** ** the closed-connection entry of connection k goes away when ITS timer fires, whatever
    happens under other IDs and whichever other timers fire in between *)
Definition elsewhere (id : Z) (o : rgop) : Prop :=
  match o with
  | RgExpire _ _ => True
  | RgDial _ i | RgClose _ i | RgDestroy _ i => i <> id
  end.

Lemma has_timer_drop_other k id k' i l :
  ~ (i = id /\ k' = k) -> has_timer k id l = true -> has_timer k id (drop_timer k' i l) = true.
Proof.
  intros Hn. induction l as [|[a b] r IH]; cbn; [auto|]. intros H.
  destruct ((a =? i) && (b =? k')) eqn:E1.
  - apply andb_true_iff in E1 as [Ea Eb]. apply Z.eqb_eq in Ea, Eb. subst a b.
    apply orb_true_iff in H as [H|H]; [|exact H].
    apply andb_true_iff in H as [Ha Hb]. apply Z.eqb_eq in Ha, Hb. subst. exfalso. apply Hn. split; reflexivity.
  - cbn. apply orb_true_iff in H as [H|H]; [rewrite H; reflexivity|]. rewrite (IH H). apply orb_true_r.
Qed.

Definition tomb_inv (k id : Z) (st : rgstate) : Prop :=
  route st id = None \/ (route st id = Some (Tomb k) /\ has_timer k id (rgTimers st) = true).

Lemma tomb_inv_step k id st o : elsewhere id o -> tomb_inv k id st -> tomb_inv k id (rgstep st o).
Proof.
  unfold tomb_inv, route. destruct o as [k' i|k' i|k' i|k' i]; cbn [rgstep elsewhere]; intros He Hi.
  - unfold rgdial. destruct (lookup i (rgMap st)) as [[j|j]|]; cbn [fst rgMap rgTimers]; try exact Hi;
      rewrite lookup_set_other by exact He; exact Hi.
  - cbn [rgMap rgTimers]. rewrite lookup_set_other by exact He.
    destruct Hi as [Hi|[Hi Ht]]; [left; exact Hi | right; split; [exact Hi|]]. cbn. rewrite Ht. apply orb_true_r.
  - cbn [rgMap rgTimers]. rewrite lookup_remove_other by exact He. exact Hi.
  - destruct (has_timer k' i (rgTimers st)) eqn:Eh; [|exact Hi]. cbn [rgMap rgTimers].
    destruct (Z.eq_dec i id) as [->|Hne].
    + destruct Hi as [Hi|[Hi Ht]].
      * rewrite Hi. left. exact Hi.
      * rewrite Hi. cbn [handler_eqb]. destruct (k =? k') eqn:Ek.
        -- left. apply lookup_remove_same.
        -- right. split; [exact Hi|]. apply has_timer_drop_other; [|exact Ht].
           intros [_ ->]. rewrite Z.eqb_refl in Ek. discriminate.
    + assert (Hl : lookup id (match lookup i (rgMap st) with
                              | Some h => if handler_eqb h (Tomb k') then remove i (rgMap st) else rgMap st
                              | None => rgMap st end) = lookup id (rgMap st)).
      { destruct (lookup i (rgMap st)) as [h|]; [|reflexivity].
        destruct (handler_eqb h (Tomb k')); [apply lookup_remove_other; exact Hne | reflexivity]. }
      rewrite Hl. destruct Hi as [Hi|[Hi Ht]]; [left; exact Hi | right; split; [exact Hi|]].
      apply has_timer_drop_other; [|exact Ht]. intros [-> _]. contradiction.
Qed.

Theorem tombstone_expires_reachable : forall ops st k id,
  Forall (elsewhere id) ops ->
  route (rgstep (rgrun (rgstep st (RgClose k id)) ops) (RgExpire k id)) id = None.
Proof.
  intros ops st k id Hf.
  assert (H0 : tomb_inv k id (rgstep st (RgClose k id))).
  { right. unfold route. cbn. rewrite Z.eqb_refl. cbn. rewrite !Z.eqb_refl. split; reflexivity. }
  revert H0. generalize (rgstep st (RgClose k id)) as s.
  induction Hf as [|o r Ho _ IH]; intros s Hs; cbn [rgrun fold_left].
  - destruct Hs as [Hs|[Hs Ht]]; unfold route in *; cbn [rgstep].
    + destruct (has_timer k id (rgTimers s)); [|exact Hs]. cbn [rgMap]. rewrite Hs. exact Hs.
    + rewrite Ht. cbn [rgMap]. rewrite Hs. cbn [handler_eqb]. rewrite Z.eqb_refl. apply lookup_remove_same.
  - apply IH. apply tomb_inv_step; assumption.
Qed.
