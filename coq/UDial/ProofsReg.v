(** UDial.Reg: proofs. A dial owns its connection ID from the moment doDial registered it,
    whatever earlier dials left behind and whichever of their timers fire later. *)
From Coq Require Import List ZArith Bool Lia.
From V Require Import UDial.Reg.
Import ListNotations.
Open Scope Z_scope.

Lemma lookup_remove_same id m : lookup id (remove id m) = None.
Proof.
  induction m as [|[i h] r IH]; cbn; [reflexivity|].
  destruct (i =? id) eqn:E; [exact IH|]. cbn. rewrite E. exact IH.
Qed.
Lemma lookup_remove_other id j m : j <> id -> lookup id (remove j m) = lookup id m.
Proof.
  intros Hn. induction m as [|[i h] r IH]; cbn; [reflexivity|].
  destruct (i =? j) eqn:E.
  - apply Z.eqb_eq in E. subst i. rewrite IH. destruct (j =? id) eqn:E2; [apply Z.eqb_eq in E2; contradiction | reflexivity].
  - cbn. rewrite IH. reflexivity.
Qed.
Lemma lookup_set_same id h m : lookup id (set id h m) = Some h.
Proof. unfold set. cbn. rewrite Z.eqb_refl. reflexivity. Qed.
Lemma lookup_set_other id j h m : j <> id -> lookup id (set j h m) = lookup id m.
Proof.
  intros Hn. unfold set. cbn. destruct (j =? id) eqn:E; [apply Z.eqb_eq in E; contradiction|].
  apply lookup_remove_other, Hn.
Qed.

(** operations that do not dial, close or destroy under [id]: every timer may fire, everything
    may happen under other IDs *)
Definition harmless (id : Z) (o : rgop) : Prop :=
  match o with
  | RgExpire _ _ => True
  | RgDial _ i | RgClose _ i | RgDestroy _ i => i <> id
  end.

Lemma rgstep_keeps_live st o id k :
  harmless id o -> route st id = Some (Live k) -> route (rgstep st o) id = Some (Live k).
Proof.
  unfold route. destruct o as [k' i|k' i|k' i|k' i]; cbn [rgstep rgMap harmless]; intros Hh Hl.
  - rewrite lookup_set_other; assumption.
  - rewrite lookup_set_other; assumption.
  - rewrite lookup_remove_other; assumption.
  - destruct (has_timer k' i (rgTimers st)); [|exact Hl]. cbn [rgMap].
    destruct (Z.eq_dec i id) as [->|Hn].
    + rewrite Hl. cbn [handler_eqb]. exact Hl.
    + destruct (lookup i (rgMap st)) as [h|]; [|exact Hl].
      destruct (handler_eqb h (Tomb k')); [|exact Hl]. rewrite lookup_remove_other; assumption.
Qed.

(** C02_redial_registered *)
Theorem redial_registered : forall ops st k id,
  Forall (harmless id) ops ->
  route (rgrun (rgstep st (RgDial k id)) ops) id = Some (Live k).
Proof.
  intros ops st k id Hf.
  assert (H0 : route (rgstep st (RgDial k id)) id = Some (Live k)) by (unfold route; cbn; apply lookup_set_same).
  revert H0. generalize (rgstep st (RgDial k id)) as s.
  induction Hf as [|o r Ho _ IH]; intros s Hs; cbn; [exact Hs|].
  apply IH. apply rgstep_keeps_live; assumption.
Qed.

(** a graceful close leaves a closed-connection entry that its own timer removes, unless a later
    dial took the ID over *)
Theorem tombstone_expires st k id :
  route (rgstep (rgstep st (RgClose k id)) (RgExpire k id)) id = None.
Proof.
  unfold route. cbn [rgstep rgMap rgTimers has_timer]. rewrite !Z.eqb_refl. cbn [andb orb rgMap].
  rewrite lookup_set_same. cbn [handler_eqb]. rewrite Z.eqb_refl. apply lookup_remove_same.
Qed.

(** ** the two defects, on the history dial 1, close 1, dial 2, timer of 1 *)
Example legacy_expire_refuted :
  let st := rgrun (RG [] []) [RgDial 1 0; RgClose 1 0; RgDial 2 0] in
  route st 0 = Some (Live 2) /\ route (legacy_expire st 1 0) 0 = None /\
  route (rgstep st (RgExpire 1 0)) 0 = Some (Live 2).
Proof. vm_compute. repeat split; reflexivity. Qed.

Example add_dial_refuted :
  let st := rgrun (RG [] []) [RgDial 1 0; RgClose 1 0] in
  route (add_dial st 2 0) 0 = Some (Tomb 1) /\
  route (rgstep (add_dial st 2 0) (RgExpire 1 0)) 0 = None /\
  route (rgstep st (RgDial 2 0)) 0 = Some (Live 2).
Proof. vm_compute. repeat split; reflexivity. Qed.
