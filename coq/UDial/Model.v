(** UDial: what ONE dial does with the QUICSpec value it shares with every other dial.

    Mirrors (uquic, after the repair fixes/C02-redial-shared-clienthello-state.patch):
      u_transport.go     UTransport.dial / doDial (which connection constructor, which inputs)
      u_connection.go    newUClientConnection: dialClientHelloSpec (the connection's own
                         QUICTransportParamsExtension, KeyShareExtension, SNIExtension),
                         then suppress, optional shuffle, PopulateFromUQUIC on the OWN list
      internal/wire/u_transport_parameters.go   PopulateFromUQUIC (from USpec.Model: it writes
                         the source connection ID into the list it is handed)
    and, outside /repo (transcribed: the environment the property talks about),
      utls  QUICTransportParamsExtension.Len(): marshals the list on first use and caches the
            bytes in the extension OBJECT for ever;
      utls  UConn.ApplyPreset: a key share whose Data is longer than one byte counts as supplied
            by the caller (no key generated, nothing the connection holds a private key for);
            an empty SNIExtension.ServerName receives tls.Config.ServerName.

    [legacy_dial] is the code before the repair (the same steps on the spec's own extension
    objects): kept as the specification of the defect the repair removes.
    Executable definitions only.
    (Go identifiers are written with "Param" for their longer spelling, e.g. QUICTransportParamsExtension.) *)
From Coq Require Import List ZArith Bool.
From V Require Import Gen.Params Lib.Hex Wire.Varint USpec.Model.
Import ListNotations.
Open Scope Z_scope.

(** tls.KeyShare *)
Record keyshare := KS { kGroup : Z; kData : list Z }.

(** The part of a QUICSpec a dial reads (and, before the repair, wrote). *)
Record spec_state := Spec {
  sParams : list param;        (* ClientHelloSpec: QUICTransportParamsExtension.TransportParams *)
  sCache : option (list Z);    (* ... and that extension object's marshalResult (uTLS) *)
  sKeys : list keyshare;       (* KeyShareExtension.KeyShares *)
  sSNI : list Z;               (* SNIExtension.ServerName, [] = take tls.Config.ServerName *)
  sSup : list Z;               (* QUICSpec.SuppressTransportParams *)
  sRnd : bool }.               (* QUICSpec.RandomizeTransportParams *)

(** What the environment contributes to one dial. *)
Record oracle := Oracle {
  oJs : list nat;              (* math/rand draws of the shuffle *)
  oName : list Z;              (* tls.Config.ServerName of this dial *)
  oFresh : list (list Z) }.    (* public keys uTLS generates, in order of need *)

(** What one dial puts on the wire / keeps for itself. *)
Record wire_view := WV {
  wExt : list Z;               (* body of extension 57 in the ClientHello *)
  wKeys : list keyshare;       (* key_share entries *)
  wHeld : list bool;           (* per entry: does this connection hold the private key? *)
  wSNI : list Z;               (* server_name *)
  wView : view }.              (* the connection's own transport parameters *)

(** utls isGREASEUint16 *)
Definition isGrease16 (v : Z) : bool := (v / 256 =? v mod 256) && (v mod 16 =? 10).

(** utls ApplyPreset, case *KeyShareExtension: which shares get a generated key. Returns the
    list the extension holds afterwards, and for each share whether a private key was stored. *)
Fixpoint gen_keys (ks : list keyshare) (fresh : list (list Z)) : list keyshare * list bool :=
  match ks with
  | [] => ([], [])
  | k :: r =>
    if isGrease16 (kGroup k) then
      let '(r', h) := gen_keys r fresh in (k :: r', true :: h)           (* group re-greased, no key needed *)
    else if 1 <? zlen (kData k) then
      let '(r', h) := gen_keys r fresh in (k :: r', false :: h)          (* "supplied by the caller": continue *)
    else
      match fresh with
      | f :: fr => let '(r', h) := gen_keys r fr in (KS (kGroup k) f :: r', true :: h)
      | [] => let '(r', h) := gen_keys r [] in (k :: r', false :: h)      (* generator failed: not modelled further *)
      end
  end.

Definition pick_sni (spec_name cfg_name : list Z) : list Z :=
  match spec_name with [] => cfg_name | _ => spec_name end.

(** ** newUClientConnection after the repair.
    dialClientHelloSpec gives the connection its own extension objects: the transport parameter
    list is a copy (nothing cached in the new object), so are the key shares and the SNI. The
    spec value is only read. *)
Definition dial (st : spec_state) (scid : list Z) (o : oracle) : option (spec_state * wire_view) :=
  match USpec.Model.dial (sSup st) (sRnd st) (oJs o) scid (sParams st) with
  | None => None                                   (* PopulateFromUQUIC panics (see USpec.Model.pop_step) *)
  | Some (v, own, _) =>
    let '(keys, held) := gen_keys (sKeys st) (oFresh o) in
    Some (st, WV (marshal own) keys held (pick_sni (sSNI st) (oName o)) v)
  end.

(** ** the same function before the repair: every step acts on the spec's own objects. *)
Definition legacy_dial (st : spec_state) (scid : list Z) (o : oracle) : option (spec_state * wire_view) :=
  match USpec.Model.dial (sSup st) (sRnd st) (oJs o) scid (sParams st) with
  | None => None
  | Some (v, ps', _) =>
    let bytes := match sCache st with Some b => b | None => marshal ps' end in
    let '(keys, held) := gen_keys (sKeys st) (oFresh o) in
    let sni := pick_sni (sSNI st) (oName o) in
    Some (Spec ps' (Some bytes) keys sni (sSup st) (sRnd st), WV bytes keys held sni v)
  end.

(** ** histories: dials interleaved with the caller's edits of the spec *)
Inductive op :=
| ODial (scid : list Z) (o : oracle)
| OSetSup (sup : list Z)
| OSetRnd (b : bool).

Definition set_sup (st : spec_state) (sup : list Z) : spec_state :=
  Spec (sParams st) (sCache st) (sKeys st) (sSNI st) sup (sRnd st).
Definition set_rnd (st : spec_state) (b : bool) : spec_state :=
  Spec (sParams st) (sCache st) (sKeys st) (sSNI st) (sSup st) b.

(* the caller's edits alone *)
Fixpoint edits (st : spec_state) (ops : list op) : spec_state :=
  match ops with
  | [] => st
  | ODial _ _ :: r => edits st r
  | OSetSup s :: r => edits (set_sup st s) r
  | OSetRnd b :: r => edits (set_rnd st b) r
  end.

Section Run.
  Variable D : spec_state -> list Z -> oracle -> option (spec_state * wire_view).
  (* final state and, per dial in order, (source connection ID, wire view) *)
  Fixpoint run_with (st : spec_state) (ops : list op) : option (spec_state * list (list Z * wire_view)) :=
    match ops with
    | [] => Some (st, [])
    | ODial scid o :: r =>
      match D st scid o with
      | None => None
      | Some (st', w) =>
        match run_with st' r with
        | None => None
        | Some (st'', ws) => Some (st'', (scid, w) :: ws)
        end
      end
    | OSetSup s :: r => run_with (set_sup st s) r
    | OSetRnd b :: r => run_with (set_rnd st b) r
    end.
End Run.
Definition run := run_with dial.
Definition legacy_run := run_with legacy_dial.

(** the values of initial_source_connection_id a reader finds in extension 57 *)
Definition wire_iscids (w : wire_view) : option (list (list Z)) :=
  match parse (wExt w) with
  | None => None
  | Some l => Some (map snd (filter (fun p => fst p =? tpid_initialSourceConnectionID) l))
  end.

(** ** UTransport.dial / doDial: which constructor runs, and on what.
    The inputs that do not come from the spec are the environment: the transport's connection ID
    generator, crypto/rand for the destination connection ID, the populated Config. *)
Record ips := IPS {            (* InitialPacketSpec fields read by dial *)
  iSrcLen : Z; iDstLen : Z; iInitPN : Z; iToken : bool }.
Record denv := DEnv {
  eGenSCID : Z -> list Z;      (* generator installed for a given length (0 = empty IDs) *)
  eOwnSCID : list Z;           (* what the transport's own generator yields *)
  eRandDCID : Z -> list Z;     (* destination connection ID of a given length, 0 = library's choice *)
  eConfToken : bool }.         (* does the caller's Config carry a TokenStore *)
Inductive conn :=
| PlainConn (scid dcid : list Z) (pn : Z) (token : bool)                 (* newClientConnection *)
| SpecConn (scid dcid : list Z) (pn : Z) (token : bool) (st : spec_state). (* newUClientConnection *)

Definition plain_dial (e : denv) : conn :=
  PlainConn (eOwnSCID e) (eRandDCID e 0) 0 (eConfToken e).

Definition maxPN : Z := 2 ^ 62 - 1.
(** UTransport.dial + doDial, statement by statement: the generator is replaced only when a spec
    is set (u_transport.go:50-57); UpdateConfig and the Initial packet number seed only when a spec
    is set (:88-93); the destination connection ID has a pinned length only for a spec with
    DestConnIDLength > 0 (:131-136); the constructor is chosen by [QUICSpec == nil] (:157).
    Everything else is shared with Transport.dial / doDial. *)
Definition u_dial (e : denv) (spec : option (ips * spec_state)) : conn :=
  let scid := match spec with Some (i, _) => eGenSCID e (iSrcLen i) | None => eOwnSCID e end in
  let token := match spec with Some (i, _) => iToken i || eConfToken e | None => eConfToken e end in
  let pn := match spec with Some (i, _) => if maxPN <? iInitPN i then 0 else iInitPN i | None => 0 end in
  let dcid := eRandDCID e (match spec with Some (i, _) => if 0 <? iDstLen i then iDstLen i else 0 | None => 0 end) in
  match spec with
  | None => PlainConn scid dcid pn token
  | Some (_, st) => SpecConn scid dcid pn token st
  end.
