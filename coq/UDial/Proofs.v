(** UDial: proofs. The repaired dial leaves the spec alone, so every dial of a history is the
    first dial of the spec as the caller wrote it; its initial_source_connection_id is its own
    source connection ID. The legacy dial froze the first dial's bytes. *)
From Coq Require Import List ZArith Bool Lia Permutation.
From V Require Import Gen.Params Lib.Hex Wire.Varint USpec.Model USpec.Proofs USpec.ProofsWire UDial.Model.
Import ListNotations.
Open Scope Z_scope.

Notation iscid := tpid_initialSourceConnectionID.
Notation vscid := vInitialSourceConnectionID.

(** the spec leaves initial_source_connection_id to the library: every parameter with that id is
    the typed one with an empty value (what all built-in parrots do) *)
Definition leaves_scid (p : param) : Prop := pid p = iscid -> ptyped p = true /\ pval p = [].
Definition wf_spec (st : spec_state) : Prop := Forall wfp (sParams st) /\ Forall leaves_scid (sParams st).

(** what PopulateFromUQUIC does to one element under that hypothesis *)
Definition fills (scid : list Z) (p p' : param) : Prop :=
  if pid p =? iscid then p' = P (pid p) scid true else p' = p.

Lemma pop_step_scid v p v' p' :
  pop_step v p = Some (v', p') -> leaves_scid p ->
  vscid v' = vscid v /\ fills (vscid v) p p'.
Proof.
  intros H L. unfold fills.
  destruct (Z.eqb_spec (pid p) iscid) as [Heq|Hne].
  - destruct (L Heq) as [Ht Hv]. unfold pop_step in H. cbv zeta in H.
    rewrite Heq, Ht, Hv in H. vm_compute in H. inversion H; subst. split; [reflexivity|].
    rewrite Heq. reflexivity.
  - unfold pop_step in H. cbv zeta in H.
    apply Z.eqb_neq in Hne.
    repeat match type of H with
           | context [if ?c then _ else _] => destruct c eqn:?
           | context [match pval ?q with _ => _ end] => destruct (pval q) eqn:?
           end; try discriminate; try congruence;
      inversion H; subst; clear H; split; reflexivity.
Qed.

Lemma populate_loop_scid ps : forall v v' ps',
  populate_loop v ps = Some (v', ps') -> Forall leaves_scid ps ->
  vscid v' = vscid v /\ Forall2 (fills (vscid v)) ps ps'.
Proof.
  induction ps as [|p ps IH]; intros v v' ps' H L; cbn in H.
  - inversion H; subst. split; [reflexivity | constructor].
  - destruct (pop_step v p) as [[v1 p1]|] eqn:E1; [|discriminate].
    destruct (populate_loop v1 ps) as [[v2 r]|] eqn:E2; [|discriminate].
    inversion H; subst; clear H. inversion L as [|? ? Lp Lps]; subst.
    destruct (pop_step_scid _ _ _ _ E1 Lp) as [Hs Hf].
    destruct (IH _ _ _ E2 Lps) as [Hs2 Hf2]. rewrite Hs in Hs2, Hf2.
    split; [exact Hs2 | constructor; assumption].
Qed.

Lemma leaves_dial_list sup rnd js ps : Forall leaves_scid ps -> Forall leaves_scid (dial_list sup rnd js ps).
Proof.
  intros H. assert (Hs : Forall leaves_scid (suppress sup ps)).
  { rewrite Forall_forall in *. intros p Hin. apply suppress_In in Hin as [Hin _]. apply H, Hin. }
  unfold dial_list. destruct rnd; [|exact Hs].
  eapply Permutation_Forall; [apply shuffle_perm | exact Hs].
Qed.

Lemma fills_wire scid l own :
  Forall2 (fills scid) l own ->
  Forall (fun p' => pid p' = iscid -> pval p' = scid) own /\
  (forall p, In p l -> pid p = iscid -> In (P iscid scid true) own).
Proof.
  induction 1 as [|p p' l own Hf _ [IH1 IH2]].
  - split; [constructor | intros ? []].
  - unfold fills in Hf. split.
    + constructor; [|exact IH1]. intros Hid.
      destruct (Z.eqb_spec (pid p) iscid) as [Heq|Hne]; subst p'; [reflexivity|]. contradiction.
    + intros q [<-|Hin] Hq.
      * left. rewrite (proj2 (Z.eqb_eq _ _) Hq) in Hf. rewrite Hq in Hf. exact Hf.
      * right. apply (IH2 q); assumption.
Qed.

(** ** one dial *)
Lemma dial_unchanged st scid o st' w : dial st scid o = Some (st', w) -> st' = st.
Proof.
  unfold dial. destruct (USpec.Model.dial _ _ _ _ _) as [[[v own] ov]|]; [|discriminate].
  destruct (gen_keys _ _). intros H. inversion H. reflexivity.
Qed.

Lemma In_iscid_filter (l : list (Z * list Z)) x :
  In x (map snd (filter (fun p => fst p =? iscid) l)) <-> In (iscid, x) l.
Proof.
  rewrite in_map_iff. split.
  - intros [[i v] [Hv Hin]]. cbn in Hv. subst v. apply filter_In in Hin as [Hin Hi].
    cbn in Hi. apply Z.eqb_eq in Hi. subst i. exact Hin.
  - intros Hin. exists (iscid, x). split; [reflexivity|]. apply filter_In. split; [exact Hin|].
    cbn [fst]. apply Z.eqb_refl.
Qed.

Theorem dial_wire st scid o st' w :
  wf_spec st -> zlen scid <= maxVarInt8 -> dial st scid o = Some (st', w) ->
  st' = st /\ vscid (wView w) = scid /\
  exists l, wire_iscids w = Some l /\ Forall (eq scid) l /\
    (forall p, In p (sParams st) -> pid p = iscid -> kept (sSup st) iscid -> l <> []).
Proof.
  intros [Hw Hl] Hs H. split; [eapply dial_unchanged; exact H|].
  unfold dial in H.
  destruct (USpec.Model.dial (sSup st) (sRnd st) (oJs o) scid (sParams st)) as [[[v own] ov]|] eqn:E; [|discriminate].
  destruct (gen_keys (sKeys st) (oFresh o)) as [keys held]. injection H as Hst Hwv. subst st' w. cbn [wView wExt].
  unfold USpec.Model.dial, populate in E.
  destruct (populate_loop (init_view scid) (dial_list (sSup st) (sRnd st) (oJs o) (sParams st))) as [[v1 l1]|] eqn:E1; [|discriminate].
  inversion E; subst; clear E.
  destruct (populate_loop_scid _ _ _ _ E1 (leaves_dial_list _ _ _ _ Hl)) as [Hv Hf]. cbn in Hv, Hf.
  destruct (populate_loop_inv _ _ _ _ E1 (dial_list_wf _ _ _ _ Hw) Hs) as [_ [Hwo _]].
  split; [exact Hv|].
  unfold wire_iscids. cbn [wExt]. rewrite (parse_marshal _ Hwo).
  eexists. split; [reflexivity|].
  destruct (fills_wire _ _ _ Hf) as [Hall Hex]. split.
  - rewrite Forall_forall. intros x Hin. apply In_iscid_filter in Hin.
    apply in_map_iff in Hin as [p' [Hp' Hin]]. unfold idval in Hp'. inversion Hp' as [[Hid Hval]].
    rewrite Forall_forall in Hall. symmetry. apply (Hall _ Hin Hid).
  - intros p Hin Hid Hk Hnil.
    assert (Hd : In p (dial_list (sSup st) (sRnd st) (oJs o) (sParams st))).
    { assert (Hsup : In p (suppress (sSup st) (sParams st))) by (apply suppress_In; rewrite Hid; auto).
      unfold dial_list. destruct (sRnd st); [|exact Hsup].
      eapply Permutation_in; [apply shuffle_perm | exact Hsup]. }
    specialize (Hex _ Hd Hid).
    assert (Hi : In scid (map snd (filter (fun q => fst q =? iscid) (map idval own)))).
    { apply In_iscid_filter. apply in_map_iff. exists (P iscid scid true). split; [reflexivity | exact Hex]. }
    rewrite Hnil in Hi. exact Hi.
Qed.

(** ** histories *)
Fixpoint count_dials (ops : list op) : nat :=
  match ops with
  | [] => O
  | ODial _ _ :: r => S (count_dials r)
  | _ :: r => count_dials r
  end.

Lemma run_final ops : forall st st' views, run st ops = Some (st', views) -> st' = edits st ops.
Proof.
  induction ops as [|[scid o|s|b] r IH]; intros st st' views H; cbn in H.
  - inversion H. reflexivity.
  - unfold run in H. cbn in H. destruct (dial st scid o) as [[st1 w]|] eqn:E; [|discriminate].
    apply dial_unchanged in E. subst st1.
    destruct (run_with dial st r) as [[st2 ws]|] eqn:E2; [|discriminate].
    inversion H; subst. cbn. apply (IH _ _ _ E2).
  - cbn. apply (IH _ _ _ H).
  - cbn. apply (IH _ _ _ H).
Qed.

(** every dial of a history is the dial of the spec as the caller wrote it (with the caller's
    edits so far): earlier dials left nothing behind *)
Theorem run_split ops1 : forall st scid o ops2 st' views,
  run st (ops1 ++ ODial scid o :: ops2) = Some (st', views) ->
  exists w, dial (edits st ops1) scid o = Some (edits st ops1, w) /\
            nth_error views (count_dials ops1) = Some (scid, w) /\
            st' = edits st (ops1 ++ ODial scid o :: ops2).
Proof.
  induction ops1 as [|[s1 o1|s|b] r IH]; intros st scid o ops2 st' views H;
    pose proof (run_final _ _ _ _ H) as Hfin.
  - change (([] : list op) ++ ODial scid o :: ops2) with (ODial scid o :: ops2) in H.
    unfold run in H. cbn [run_with] in H.
    destruct (dial st scid o) as [[st1 w]|] eqn:E; [|discriminate].
    pose proof (dial_unchanged _ _ _ _ _ E). subst st1.
    destruct (run_with dial st ops2) as [[st2 ws]|]; [|discriminate].
    injection H as H1 H2. subst st2 views.
    exists w. split; [exact E|]. split; [reflexivity | exact Hfin].
  - change ((ODial s1 o1 :: r) ++ ODial scid o :: ops2) with (ODial s1 o1 :: (r ++ ODial scid o :: ops2)) in H.
    unfold run in H. cbn [run_with] in H.
    destruct (dial st s1 o1) as [[st1 w1]|] eqn:E; [|discriminate].
    pose proof (dial_unchanged _ _ _ _ _ E). subst st1.
    destruct (run_with dial st (r ++ ODial scid o :: ops2)) as [[st2 ws]|] eqn:E2; [|discriminate].
    injection H as H1 H2. subst st2 views.
    destruct (IH _ _ _ _ _ _ E2) as [w [Hd [Hn _]]].
    exists w. split; [exact Hd|]. split; [exact Hn | exact Hfin].
  - change ((OSetSup s :: r) ++ ODial scid o :: ops2) with (OSetSup s :: (r ++ ODial scid o :: ops2)) in H.
    unfold run in H. cbn [run_with] in H.
    destruct (IH _ _ _ _ _ _ H) as [w [Hd [Hn _]]].
    exists w. split; [exact Hd|]. split; [exact Hn | exact Hfin].
  - change ((OSetRnd b :: r) ++ ODial scid o :: ops2) with (OSetRnd b :: (r ++ ODial scid o :: ops2)) in H.
    unfold run in H. cbn [run_with] in H.
    destruct (IH _ _ _ _ _ _ H) as [w [Hd [Hn _]]].
    exists w. split; [exact Hd|]. split; [exact Hn | exact Hfin].
Qed.

Lemma edits_params st ops : sParams (edits st ops) = sParams st.
Proof. revert st. induction ops as [|[? ?|?|?] r IH]; intros st; cbn; [reflexivity | apply IH | rewrite IH; reflexivity | rewrite IH; reflexivity]. Qed.
Lemma edits_keys st ops : sKeys (edits st ops) = sKeys st.
Proof. revert st. induction ops as [|[? ?|?|?] r IH]; intros st; cbn; [reflexivity | apply IH | rewrite IH; reflexivity | rewrite IH; reflexivity]. Qed.
Lemma edits_sni st ops : sSNI (edits st ops) = sSNI st.
Proof. revert st. induction ops as [|[? ?|?|?] r IH]; intros st; cbn; [reflexivity | apply IH | rewrite IH; reflexivity | rewrite IH; reflexivity]. Qed.
Lemma edits_wf st ops : wf_spec st -> wf_spec (edits st ops).
Proof. unfold wf_spec. rewrite edits_params. auto. Qed.

(** C02_dial_k_wire_scid *)
Theorem dial_k_wire_scid st ops1 scid o ops2 st' views :
  wf_spec st -> zlen scid <= maxVarInt8 ->
  run st (ops1 ++ ODial scid o :: ops2) = Some (st', views) ->
  exists w l,
    nth_error views (count_dials ops1) = Some (scid, w) /\
    wire_iscids w = Some l /\ Forall (eq scid) l /\
    vscid (wView w) = scid /\
    (forall p, In p (sParams st) -> pid p = iscid -> kept (sSup (edits st ops1)) iscid -> l <> []) /\
    st' = edits st (ops1 ++ ODial scid o :: ops2).
Proof.
  intros Hw Hs H. destruct (run_split _ _ _ _ _ _ _ H) as [w [Hd [Hn Hfin]]].
  destruct (dial_wire _ _ _ _ _ (edits_wf _ ops1 Hw) Hs Hd) as [_ [Hv [l [Hl [Hall Hex]]]]].
  exists w, l. repeat split; try assumption.
  intros p Hin. apply Hex. rewrite edits_params. exact Hin.
Qed.

(** ** key shares and server name *)
Definition wants_key (k : keyshare) : Prop := isGrease16 (kGroup k) = false /\ kData k = [].

Lemma gen_keys_fresh ks : forall fresh, Forall wants_key ks -> length fresh = length ks ->
  map kData (fst (gen_keys ks fresh)) = fresh /\
  map kGroup (fst (gen_keys ks fresh)) = map kGroup ks /\
  Forall (eq true) (snd (gen_keys ks fresh)).
Proof.
  induction ks as [|k r IH]; intros fresh Hw Hlen.
  - destruct fresh; [|discriminate]. cbn. repeat split; constructor.
  - destruct fresh as [|f fr]; [discriminate|]. inversion Hw as [|? ? [Hg Hd] Hr]; subst.
    cbn [gen_keys]. rewrite Hg, Hd. cbn [zlen length Z.of_nat Z.ltb Z.compare].
    injection Hlen as Hlen. destruct (IH fr Hr Hlen) as [H1 [H2 H3]].
    destruct (gen_keys r fr) as [r' h]. cbn in *. repeat split; [f_equal; exact H1 | f_equal; exact H2 | constructor; [reflexivity | exact H3]].
Qed.

Theorem dial_k_fresh_keys st ops1 scid o ops2 st' views :
  Forall wants_key (sKeys st) -> length (oFresh o) = length (sKeys st) ->
  run st (ops1 ++ ODial scid o :: ops2) = Some (st', views) ->
  exists w, nth_error views (count_dials ops1) = Some (scid, w) /\
    map kData (wKeys w) = oFresh o /\ map kGroup (wKeys w) = map kGroup (sKeys st) /\
    Forall (eq true) (wHeld w) /\
    wSNI w = pick_sni (sSNI st) (oName o).
Proof.
  intros Hk Hlen H. destruct (run_split _ _ _ _ _ _ _ H) as [w [Hd [Hn _]]].
  exists w. split; [exact Hn|]. unfold dial in Hd.
  destruct (USpec.Model.dial _ _ _ _ _) as [[[v own] ov]|]; [|discriminate].
  rewrite edits_keys, edits_sni in Hd.
  destruct (gen_keys_fresh _ _ Hk Hlen) as [H1 [H2 H3]].
  destruct (gen_keys (sKeys st) (oFresh o)) as [keys held]. inversion Hd; subst; clear Hd. cbn in *.
  repeat split; assumption.
Qed.

(** ** suppress / shuffle applied to an already suppressed / shuffled list *)
Lemma filter_all {A} (f : A -> bool) l : Forall (fun x => f x = true) l -> filter f l = l.
Proof. induction 1 as [|x l Hx _ IH]; cbn; [reflexivity | rewrite Hx, IH; reflexivity]. Qed.

Lemma suppress_of_perm sup ps X : Permutation (suppress sup ps) X -> suppress sup X = X.
Proof.
  intros Hp. rewrite suppress_filter. apply filter_all.
  eapply Permutation_Forall; [exact Hp|]. rewrite suppress_filter. rewrite Forall_forall.
  intros p Hin. apply filter_In in Hin as [_ H]. exact H.
Qed.

Theorem dial_list_idem sup rnd js1 js2 ps :
  Permutation (dial_list sup rnd js2 (dial_list sup rnd js1 ps)) (dial_list sup rnd js1 ps) /\
  (rnd = false -> dial_list sup rnd js2 (dial_list sup rnd js1 ps) = dial_list sup rnd js1 ps) /\
  suppress sup (dial_list sup rnd js1 ps) = dial_list sup rnd js1 ps.
Proof.
  assert (Hs : suppress sup (dial_list sup rnd js1 ps) = dial_list sup rnd js1 ps).
  { unfold dial_list. destruct rnd; [|apply suppress_idem]. apply (suppress_of_perm sup ps), shuffle_perm. }
  split; [|split; [|exact Hs]].
  - unfold dial_list at 1. rewrite Hs. destruct rnd; [|reflexivity]. apply Permutation_sym, shuffle_perm.
  - intros ->. unfold dial_list at 1. exact Hs.
Qed.

(** ** the legacy dial: the first dial's bytes for ever *)
Lemma legacy_cache st scid o st' w :
  legacy_dial st scid o = Some (st', w) ->
  sCache st' = Some (wExt w) /\ (forall b, sCache st = Some b -> wExt w = b).
Proof.
  unfold legacy_dial. destruct (USpec.Model.dial _ _ _ _ _) as [[[v ps'] ov]|]; [|discriminate].
  destruct (gen_keys _ _) as [keys held]. intros H. inversion H; subst; clear H. cbn.
  split; [reflexivity|]. intros b Hb. rewrite Hb. reflexivity.
Qed.

Theorem legacy_frozen st s1 o1 st1 w1 s2 o2 st2 w2 :
  legacy_dial st s1 o1 = Some (st1, w1) -> legacy_dial st1 s2 o2 = Some (st2, w2) ->
  wExt w2 = wExt w1.
Proof.
  intros H1 H2. destruct (legacy_cache _ _ _ _ _ H1) as [Hc _].
  destruct (legacy_cache _ _ _ _ _ H2) as [_ Hb]. apply Hb, Hc.
Qed.

(** a key generated by one legacy dial is "supplied by the caller" for the next *)
Lemma gen_keys_stale ks : forall fresh, Forall wants_key ks -> length fresh = length ks ->
  Forall (fun f => 1 < zlen f) fresh ->
  forall fresh2, gen_keys (fst (gen_keys ks fresh)) fresh2 = (fst (gen_keys ks fresh), map (fun _ => false) ks).
Proof.
  induction ks as [|k r IH]; intros fresh Hw Hlen Hf fresh2.
  - destruct fresh; [|discriminate]. reflexivity.
  - destruct fresh as [|f fr]; [discriminate|]. inversion Hw as [|? ? [Hg Hd] Hr]; subst.
    inversion Hf as [|? ? Hf1 Hfr]; subst. injection Hlen as Hlen.
    cbn [gen_keys]. rewrite Hg, Hd. cbn [zlen length Z.of_nat Z.ltb Z.compare].
    specialize (IH fr Hr Hlen Hfr fresh2).
    destruct (gen_keys r fr) as [r' h] eqn:E. cbn [fst] in *. cbn [gen_keys kGroup kData].
    rewrite Hg. apply Z.ltb_lt in Hf1. rewrite Hf1. rewrite IH. reflexivity.
Qed.

(** ** nil spec *)
Theorem nil_spec_is_plain e : u_dial e None = plain_dial e.
Proof. reflexivity. Qed.
