(** UDial.Heap: the ClientHelloSpec as OBJECTS. uTLS and newUClientConnection write into the
    extension objects of the ClientHelloSpec they are handed ([apply_exts]: the transport
    parameter list and its byte cache, the generated key shares, the server name); the repaired
    newUClientConnection first makes its own objects for exactly those extensions
    (u_connection.go dialClientHelloSpec: [clone]) and hands THEM on ([heap_dial]); before the
    repair the spec's own objects were handed on ([legacy_heap_dial]).  The spec-as-a-value model
    UDial.Model.dial is what [heap_dial] computes (ProofsHeap).  Executable definitions only. *)
From Coq Require Import List ZArith Bool.
From V Require Import Gen.Params Lib.Hex Wire.Varint USpec.Model UDial.Model.
Import ListNotations.
Open Scope Z_scope.

Inductive obj :=
| OTP (ps : list param) (cache : option (list Z))   (* QUICTransportParamsExtension: list, marshalResult *)
| OKS (ks : list keyshare)                            (* KeyShareExtension *)
| OSNI (name : list Z)                                (* SNIExtension *)
| OOther.                                             (* any other extension: shared, not modelled *)

Definition heap := list obj.                          (* address = position *)
Definition hget (h : heap) (a : nat) : obj := nth a h OOther.
Fixpoint hset (h : heap) (a : nat) (x : obj) : heap :=
  match h, a with
  | [], _ => []
  | _ :: t, O => x :: t
  | y :: t, S a' => y :: hset t a' x
  end.

(** what the connection set-up and uTLS do to ONE extension object they are handed *)
Definition touch (sup : list Z) (rnd : bool) (scid : list Z) (o : oracle) (x : obj) : option obj :=
  match x with
  | OTP ps cache =>
    match USpec.Model.dial sup rnd (oJs o) scid ps with
    | None => None
    | Some (_, ps', _) => Some (OTP ps' (Some (match cache with Some b => b | None => marshal ps' end)))
    end
  | OKS ks => Some (OKS (fst (gen_keys ks (oFresh o))))
  | OSNI n => Some (OSNI (pick_sni n (oName o)))
  | OOther => Some OOther
  end.

Fixpoint apply_exts (sup : list Z) (rnd : bool) (scid : list Z) (o : oracle) (h : heap) (exts : list nat) : option heap :=
  match exts with
  | [] => Some h
  | a :: r =>
    match touch sup rnd scid o (hget h a) with
    | None => None
    | Some x => apply_exts sup rnd scid o (hset h a x) r
    end
  end.

(** dialClientHelloSpec: new objects (appended to the heap) for the three stateful kinds, a
    fresh byte cache; every other extension object is shared *)
Fixpoint clone (h : heap) (exts : list nat) : heap * list nat :=
  match exts with
  | [] => (h, [])
  | a :: r =>
    match hget h a with
    | OTP ps _ => let '(h', own) := clone (h ++ [OTP ps None]) r in (h', length h :: own)
    | OKS ks => let '(h', own) := clone (h ++ [OKS ks]) r in (h', length h :: own)
    | OSNI n => let '(h', own) := clone (h ++ [OSNI n]) r in (h', length h :: own)
    | OOther => let '(h', own) := clone h r in (h', a :: own)
    end
  end.

(** the repaired dial and the one before the repair: heap afterwards, the extension objects the
    ClientHello is marshalled from *)
Definition heap_dial (sup : list Z) (rnd : bool) (scid : list Z) (o : oracle) (h : heap) (exts : list nat)
  : option (heap * list nat) :=
  let '(h1, own) := clone h exts in
  match apply_exts sup rnd scid o h1 own with Some h2 => Some (h2, own) | None => None end.
Definition legacy_heap_dial (sup : list Z) (rnd : bool) (scid : list Z) (o : oracle) (h : heap) (exts : list nat)
  : option (heap * list nat) :=
  match apply_exts sup rnd scid o h exts with Some h2 => Some (h2, exts) | None => None end.
