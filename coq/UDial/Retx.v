(** UDial.Retx: bookkeeping of the Initial CRYPTO stream under loss, as the spec-driven
    client packer does it.

    Mirrors (uquic):
      retransmission_queue.go   addInitial (OnLost of a CRYPTO frame appends it), GetFrame
                                (the head frame whole, or a prefix split off it)
      packet_packer.go          maybeGetCryptoPacket: with retransmissions queued, GetFrame is
                                called until it yields nothing; all frames go into ONE packet
      u_packet_packer.go        MarshalInitialPacketPayload (after the repair
                                fixes/C02-initial-retx-as-packed.patch): the frames are serialised
                                as the packer selected them after a planned flight, when they
                                carry no CRYPTO data (PING-only PTO probe), when they are not one
                                contiguous range (cryptoFramesFormOneRange), and when a non-empty
                                QUICFrames layout addresses bytes the slice does not have
                                (quicFramesLayoutFits); otherwise the spec's frame builder
                                re-frames the slice.  [legacy_rstep]: the code before the repair
                                handed every payload to clienthellod.ReassembleCRYPTOFrames, which
                                sorts by offset and fails unless each frame starts where the
                                previous one ended
    How many bytes fit (header and varint sizes against the packet size) is not modelled: the
    ranges one call takes out of the queue are an input ([popped], logged by the harness from the
    queue before and after the call) that the model checks to be a legal sequence of GetFrame
    results. Executable definitions only. *)
From Coq Require Import List ZArith Bool.
Import ListNotations.
Open Scope Z_scope.

Definition range := (Z * Z)%type.               (* offset, length *)
Definition r_end (r : range) : Z := fst r + snd r.

Record rstate := RS {
  rOut : list (Z * list range);                 (* outstanding packets: number, CRYPTO frames *)
  rQueue : list range;                          (* retransmissionQueue.initial.crypto *)
  rAcked : list range }.

Inductive rres := RNone | RPkt (pn : Z) (frames : list range) | RErr (cls : Z).
Inductive rop :=
| RLose (pn : Z)
| RAck (pn : Z)
| RPack (probe ping : bool) (before popped after : list range) (aspacked : bool) (res : rres)
| RCoalesce (before popped after : list range) (aspacked : bool) (count : Z) (res : rres).
      (* PackCoalescedPacket while Handshake keys and Handshake CRYPTO data are available *)

(** a non-empty QUICFrames layout: QUICFrameCrypto{Offset, Length} or anything else *)
Inductive lframe := LCrypto (off len : Z) | LOther.

Fixpoint take_pkt (pn : Z) (out : list (Z * list range)) : option (list range * list (Z * list range)) :=
  match out with
  | [] => None
  | (p, fs) :: r =>
    if p =? pn then Some (fs, r)
    else match take_pkt pn r with
         | Some (fs', r') => Some (fs', (p, fs) :: r')
         | None => None
         end
  end.

(** GetFrame called until it returns nil: whole head frames, then at most one proper prefix of
    the next head (MaybeSplitOffFrame leaves the remainder at the head of the queue). *)
Fixpoint pop_check (q popped : list range) {struct popped} : option (list range) :=
  match popped with
  | [] => Some q
  | p :: ps =>
    match q with
    | [] => None
    | h :: q' =>
      if (fst p =? fst h) && (snd p =? snd h) then pop_check q' ps
      else if (fst p =? fst h) && (0 <? snd p) && (snd p <? snd h) then
        match ps with
        | [] => Some ((fst h + snd p, snd h - snd p) :: q')
        | _ => None
        end
      else None
    end
  end.

(** clienthellod.ReassembleCRYPTOFrames: sort by offset, then every frame must start where the
    data gathered so far ends. *)
Fixpoint insert_r (x : range) (l : list range) : list range :=
  match l with
  | [] => [x]
  | y :: r => if fst x <=? fst y then x :: l else y :: insert_r x r
  end.
Definition sort_r (l : list range) : list range := fold_right insert_r [] l.
Fixpoint contig_from (pos : Z) (l : list range) : bool :=
  match l with
  | [] => true
  | r :: t => (fst r =? pos) && contig_from (r_end r) t
  end.
Definition contiguous (l : list range) : bool :=
  match sort_r l with
  | [] => true
  | r :: t => contig_from (r_end r) t
  end.

Definition total_len (l : list range) : Z := fold_right (fun r a => snd r + a) 0 l.

(** cryptoFramesFormOneRange: at least one byte, and contiguous in stream order *)
Definition one_range (frames : list range) : bool := (0 <? total_len frames) && contiguous frames.

(** quicFramesLayoutFits: offsets relative to the lowest offset of the layout (non-CRYPTO frames
    report offset 0; the search starts from math.MaxUint16), Length 0 = to the end of the slice *)
Definition l_off (f : lframe) : Z := match f with LCrypto o _ => o | LOther => 0 end.
Definition lowest_off (l : list lframe) : Z := fold_right (fun f a => Z.min (l_off f) a) 65535 l.
Definition layout_fits (l : list lframe) (n : Z) : bool :=
  let low := lowest_off l in
  forallb (fun f => match f with
                    | LOther => true
                    | LCrypto o len =>
                      let start := o - low in
                      negb ((len <? 0) || (start <? 0) || (n <? start) || ((0 <? len) && (n <? start + len)))
                    end) l.

(** how MarshalInitialPacketPayload serialises the frames the packer selected *)
Inductive mpath := AsPacked | Reframed.
Definition marshal_path (planned : bool) (layout : option (list lframe)) (frames : list range) : mpath :=
  if planned then AsPacked
  else if negb (one_range frames) then AsPacked
  else match layout with
       | Some l => if layout_fits l (total_len frames) then Reframed else AsPacked
       | None => Reframed
       end.

(** before the repair: error unless planned or contiguous (an empty list is contiguous: the
    builder was then handed an empty slice) *)
Definition legacy_marshal_ok (planned : bool) (frames : list range) : bool := planned || contiguous frames.

(** one step; None = the logged pops are not a legal GetFrame sequence.  A packing call that
    takes nothing yields a packet only for a probe with addPingIfEmpty. *)
Definition rstep (planned : bool) (layout : option (list lframe)) (st : rstate) (o : rop) : option (rstate * rres) :=
  match o with
  | RLose pn =>
    match take_pkt pn (rOut st) with
    | Some (fs, out') => Some (RS out' (rQueue st ++ fs) (rAcked st), RNone)
    | None => Some (st, RNone)
    end
  | RAck pn =>
    match take_pkt pn (rOut st) with
    | Some (fs, out') => Some (RS out' (rQueue st) (rAcked st ++ fs), RNone)
    | None => Some (st, RNone)
    end
  | RPack _ ping _ popped _ _ res =>
    match pop_check (rQueue st) popped with
    | None => None
    | Some q' =>
      let pn := match res with RPkt pn _ => pn | _ => 0 end in   (* packet numbers: not modelled *)
      match popped with
      | [] => if ping then Some (RS (rOut st ++ [(pn, [])]) q' (rAcked st), RPkt pn [])
              else Some (RS (rOut st) q' (rAcked st), RNone)
      | _ => Some (RS (rOut st ++ [(pn, popped)]) q' (rAcked st), RPkt pn popped)
      end
    end
  | RCoalesce _ popped _ _ _ res =>
    match pop_check (rQueue st) popped with
    | None => None
    | Some q' =>
      let pn := match res with RPkt pn _ => pn | _ => 0 end in
      match popped with
      | [] => Some (RS (rOut st) q' (rAcked st), RNone)          (* only the Handshake packet: not tracked here *)
      | _ => Some (RS (rOut st ++ [(pn, popped)]) q' (rAcked st), RPkt pn popped)
      end
    end
  end.

(** PackCoalescedPacket (after fixes/C02-spec-initial-travels-alone.patch): how many QUIC packets
    share the datagram when the Initial payload holds [frames] (CRYPTO ranges) and possibly a PING,
    and Handshake data is ready or not.  An Initial packet with frames is serialised under the
    spec's control (re-framing, PacketSize, UDPDatagramMinSize padding), so it travels alone. *)
Definition coalesced_count (frames : list range) (ping handshake_ready : bool) : Z :=
  match frames, ping with
  | [], false => if handshake_ready then 1 else 0      (* no Initial packet: the Handshake packet alone *)
  | _, _ => 1
  end.
(* before that repair the Handshake packet was appended behind the padded Initial packet *)
Definition legacy_coalesced_count (frames : list range) (ping handshake_ready : bool) : Z :=
  match frames, ping with
  | [], false => if handshake_ready then 1 else 0
  | _, _ => if handshake_ready then 2 else 1
  end.

(** the same step before the repair *)
Definition legacy_rstep (planned : bool) (st : rstate) (o : rop) : option (rstate * rres) :=
  match o with
  | RPack _ _ _ popped _ _ res =>
    match pop_check (rQueue st) popped with
    | None => None
    | Some q' =>
      match popped with
      | [] => Some (RS (rOut st) q' (rAcked st), RNone)
      | _ =>
        if legacy_marshal_ok planned popped then
          let pn := match res with RPkt pn _ => pn | _ => 0 end in
          Some (RS (rOut st ++ [(pn, popped)]) q' (rAcked st), RPkt pn popped)
        else Some (RS (rOut st) q' (rAcked st), RErr 1)
      end
    end
  | _ => rstep planned None st o
  end.

Definition is_err (r : rres) : bool := match r with RErr _ => true | _ => false end.

(** all steps; stops at the first error result (the connection is gone) *)
Section RRun.
  Variable step : rstate -> rop -> option (rstate * rres).
  Fixpoint rrun_with (st : rstate) (ops : list rop) : option (rstate * list rres) :=
    match ops with
    | [] => Some (st, [])
    | o :: r =>
      match step st o with
      | None => None
      | Some (st', res) =>
        if is_err res then Some (st', [res])
        else match rrun_with st' r with
             | Some (st'', rs) => Some (st'', res :: rs)
             | None => None
             end
      end
    end.
End RRun.
Definition rrun (planned : bool) (layout : option (list lframe)) := rrun_with (rstep planned layout).
Definition legacy_rrun (planned : bool) := rrun_with (legacy_rstep planned).

(** every range the connection still accounts for *)
Definition all_ranges (st : rstate) : list range := flat_map snd (rOut st) ++ rQueue st ++ rAcked st.
Definition covers (b : Z) (l : list range) : Prop := exists r, In r l /\ fst r <= b < r_end r.
