(** UDial.Retx: bookkeeping of the Initial CRYPTO stream under loss, as the spec-driven
    client packer does it.

    Mirrors (uquic):
      retransmission_queue.go   addInitial (OnLost of a CRYPTO frame appends it), GetFrame
                                (the head frame whole, or a prefix split off it)
      packet_packer.go          maybeGetCryptoPacket: with retransmissions queued, GetFrame is
                                called until it yields nothing; all frames go into ONE packet
      u_packet_packer.go        MarshalInitialPacketPayload: after a planned flight the frames
                                are serialised as they are; otherwise they are handed to
                                clienthellod.ReassembleCRYPTOFrames, which sorts them by offset
                                and fails unless each starts where the previous one ended
    How many bytes fit (header and varint sizes against the packet size) is not modelled: the
    ranges one call takes out of the queue are an input ([popped], logged by the harness from the
    queue before and after the call) that the model checks to be a legal sequence of GetFrame
    results. Executable definitions only. *)
From Coq Require Import List ZArith Bool.
Import ListNotations.
Open Scope Z_scope.

Definition range := (Z * Z)%type.               (* offset, length *)
Definition r_end (r : range) : Z := fst r + snd r.

Record rstate := RS {
  rOut : list (Z * list range);                 (* outstanding packets: number, CRYPTO frames *)
  rQueue : list range;                          (* retransmissionQueue.initial.crypto *)
  rAcked : list range }.

Inductive rres := RNone | RPkt (pn : Z) (frames : list range) | RErr (cls : Z).
Inductive rop :=
| RLose (pn : Z)
| RAck (pn : Z)
| RPack (probe : bool) (before popped after : list range) (res : rres).

Fixpoint take_pkt (pn : Z) (out : list (Z * list range)) : option (list range * list (Z * list range)) :=
  match out with
  | [] => None
  | (p, fs) :: r =>
    if p =? pn then Some (fs, r)
    else match take_pkt pn r with
         | Some (fs', r') => Some (fs', (p, fs) :: r')
         | None => None
         end
  end.

(** GetFrame called until it returns nil: whole head frames, then at most one proper prefix of
    the next head (MaybeSplitOffFrame leaves the remainder at the head of the queue). *)
Fixpoint pop_check (q popped : list range) {struct popped} : option (list range) :=
  match popped with
  | [] => Some q
  | p :: ps =>
    match q with
    | [] => None
    | h :: q' =>
      if (fst p =? fst h) && (snd p =? snd h) then pop_check q' ps
      else if (fst p =? fst h) && (0 <? snd p) && (snd p <? snd h) then
        match ps with
        | [] => Some ((fst h + snd p, snd h - snd p) :: q')
        | _ => None
        end
      else None
    end
  end.

(** clienthellod.ReassembleCRYPTOFrames: sort by offset, then every frame must start where the
    data gathered so far ends. *)
Fixpoint insert_r (x : range) (l : list range) : list range :=
  match l with
  | [] => [x]
  | y :: r => if fst x <=? fst y then x :: l else y :: insert_r x r
  end.
Definition sort_r (l : list range) : list range := fold_right insert_r [] l.
Fixpoint contig_from (pos : Z) (l : list range) : bool :=
  match l with
  | [] => true
  | r :: t => (fst r =? pos) && contig_from (r_end r) t
  end.
Definition contiguous (l : list range) : bool :=
  match sort_r l with
  | [] => true
  | r :: t => contig_from (r_end r) t
  end.

(** MarshalInitialPacketPayload on the frames of a retransmission *)
Definition marshal_ok (planned : bool) (frames : list range) : bool := planned || contiguous frames.

(** one step; None = the connection is closed by the packer's error (or the logged pops are not
    a legal GetFrame sequence) *)
Definition rstep (planned : bool) (st : rstate) (o : rop) : option (rstate * rres) :=
  match o with
  | RLose pn =>
    match take_pkt pn (rOut st) with
    | Some (fs, out') => Some (RS out' (rQueue st ++ fs) (rAcked st), RNone)
    | None => Some (st, RNone)
    end
  | RAck pn =>
    match take_pkt pn (rOut st) with
    | Some (fs, out') => Some (RS out' (rQueue st) (rAcked st ++ fs), RNone)
    | None => Some (st, RNone)
    end
  | RPack _ _ popped _ res =>
    match pop_check (rQueue st) popped with
    | None => None
    | Some q' =>
      match popped with
      | [] => Some (RS (rOut st) q' (rAcked st), RNone)
      | _ =>
        if marshal_ok planned popped then
          let pn := match res with RPkt pn _ => pn | _ => 0 end in   (* packet numbers: not modelled *)
          Some (RS (rOut st ++ [(pn, popped)]) q' (rAcked st), RPkt pn popped)
        else Some (RS (rOut st) q' (rAcked st), RErr 1)
      end
    end
  end.

Definition is_err (r : rres) : bool := match r with RErr _ => true | _ => false end.

(** all steps; stops at the first error result (the connection is gone) *)
Fixpoint rrun (planned : bool) (st : rstate) (ops : list rop) : option (rstate * list rres) :=
  match ops with
  | [] => Some (st, [])
  | o :: r =>
    match rstep planned st o with
    | None => None
    | Some (st', res) =>
      if is_err res then Some (st', [res])
      else match rrun planned st' r with
           | Some (st'', rs) => Some (st'', res :: rs)
           | None => None
           end
    end
  end.

(** every range the connection still accounts for *)
Definition all_ranges (st : rstate) : list range := flat_map snd (rOut st) ++ rQueue st ++ rAcked st.
Definition covers (b : Z) (l : list range) : Prop := exists r, In r l /\ fst r <= b < r_end r.
