(** UDial.Heap: proofs. The repaired dial writes only into objects it allocated itself: every
    object that existed before -- the spec's -- is left exactly as it was; the legacy dial wrote
    into the spec's objects. *)
From Coq Require Import List ZArith Bool Lia.
From V Require Import Gen.Params Lib.Hex Wire.Varint USpec.Model UDial.Model UDial.Heap.
Import ListNotations.
Open Scope Z_scope.

Lemma hset_length h : forall a x, length (hset h a x) = length h.
Proof. induction h as [|y t IH]; intros [|a] x; cbn; try reflexivity. rewrite IH. reflexivity. Qed.

Lemma hget_hset_other h : forall a b x, a <> b -> hget (hset h a x) b = hget h b.
Proof.
  unfold hget. induction h as [|y t IH]; intros [|a] [|b] x Hn; cbn; try reflexivity.
  - contradiction.
  - apply IH. intros ->. apply Hn. reflexivity.
Qed.

Lemma hget_app_old h x a : (a < length h)%nat -> hget (h ++ x) a = hget h a.
Proof. intros H. unfold hget. apply app_nth1, H. Qed.

(** apply_exts writes only at the addresses it is given *)
Lemma apply_exts_frame sup rnd scid o exts : forall h h2 b,
  apply_exts sup rnd scid o h exts = Some h2 -> ~ In b exts -> hget h2 b = hget h b.
Proof.
  induction exts as [|a r IH]; intros h h2 b H Hn; cbn in H.
  - inversion H. reflexivity.
  - destruct (touch sup rnd scid o (hget h a)) as [x|]; [|discriminate].
    rewrite (IH _ _ _ H); [|intros Hc; apply Hn; right; exact Hc].
    apply hget_hset_other. intros ->. apply Hn. left. reflexivity.
Qed.

(** ... and an extension of another kind is handed back as it is *)
Lemma apply_exts_other sup rnd scid o exts : forall h h2 b,
  apply_exts sup rnd scid o h exts = Some h2 -> hget h b = OOther -> hget h2 b = OOther.
Proof.
  induction exts as [|a r IH]; intros h h2 b H Hb; cbn in H.
  - inversion H; subst. exact Hb.
  - destruct (touch sup rnd scid o (hget h a)) as [x|] eqn:E; [|discriminate].
    apply (IH _ _ _ H). destruct (Nat.eq_dec a b) as [->|Hn].
    + rewrite Hb in E. cbn in E. inversion E; subst.
      unfold hget in *. clear -Hb. revert b Hb. induction h as [|y t IHh]; intros [|b] Hb; cbn in *; auto.
    + rewrite hget_hset_other; assumption.
Qed.

(** clone keeps every old object and hands out, for the stateful kinds, addresses beyond the old heap *)
Lemma clone_spec exts : forall h h1 own,
  clone h exts = (h1, own) ->
  (length h <= length h1)%nat /\
  (forall b, (b < length h)%nat -> hget h1 b = hget h b) /\
  (forall a, In a own -> (a < length h)%nat -> hget h a = OOther).
Proof.
  induction exts as [|a r IH]; intros h h1 own H; cbn in H.
  - inversion H; subst. repeat split; auto. intros a [].
  - destruct (hget h a) eqn:Ea;
      [ destruct (clone (h ++ [OTP ps None]) r) as [h' own'] eqn:E
      | destruct (clone (h ++ [OKS ks]) r) as [h' own'] eqn:E
      | destruct (clone (h ++ [OSNI name]) r) as [h' own'] eqn:E
      | destruct (clone h r) as [h' own'] eqn:E ];
      inversion H; subst; clear H; destruct (IH _ _ _ E) as [Hl [Hold Hown]].
    1-3: rewrite app_length in Hl; cbn in Hl; split; [lia|]; split;
      [ intros b Hb; rewrite Hold by (rewrite app_length; cbn; lia); apply hget_app_old, Hb
      | intros x [<-|Hin] Hx; [lia|];
        specialize (Hown x Hin); rewrite app_length in Hown; cbn in Hown;
        erewrite <- hget_app_old by exact Hx; apply Hown; lia ].
    split; [exact Hl|]. split; [exact Hold|].
    intros x [<-|Hin] Hx; [exact Ea | apply Hown; assumption].
Qed.

(** C02_dial_leaves_spec_objects: every object that existed before the dial is the same after it *)
Theorem heap_dial_leaves_old sup rnd scid o h exts h2 own :
  heap_dial sup rnd scid o h exts = Some (h2, own) ->
  forall b, (b < length h)%nat -> hget h2 b = hget h b.
Proof.
  unfold heap_dial. destruct (clone h exts) as [h1 own1] eqn:Ec.
  destruct (apply_exts sup rnd scid o h1 own1) as [h3|] eqn:Ea; [|discriminate].
  intros H b Hb. inversion H; subst; clear H.
  destruct (clone_spec _ _ _ _ Ec) as [_ [Hold Hown]].
  destruct (in_dec Nat.eq_dec b own) as [Hin|Hn].
  - (* a shared extension of another kind: handed back untouched *)
    pose proof (Hown b Hin Hb) as Ho. rewrite Ho.
    apply (apply_exts_other _ _ _ _ _ _ _ _ Ea). rewrite Hold by exact Hb. exact Ho.
  - rewrite (apply_exts_frame _ _ _ _ _ _ _ _ Ea Hn). apply Hold, Hb.
Qed.

(** the connection's own transport parameter object holds what UDial.Model.dial says goes on the wire *)
Theorem heap_dial_wire sup rnd scid o ps cache h2 own :
  heap_dial sup rnd scid o [OTP ps cache] [0%nat] = Some (h2, own) ->
  exists v ps' ov, USpec.Model.dial sup rnd (oJs o) scid ps = Some (v, ps', ov) /\
    own = [1%nat] /\ hget h2 1 = OTP ps' (Some (marshal ps')) /\ hget h2 0 = OTP ps cache.
Proof.
  unfold heap_dial. cbn [clone hget nth length app].
  cbn [apply_exts hget nth touch].
  destruct (USpec.Model.dial sup rnd (oJs o) scid ps) as [[[v ps'] ov]|]; [|discriminate].
  cbn. intros H. inversion H; subst. exists v, ps', ov. repeat split; reflexivity.
Qed.

(** before the repair the spec's own object was rewritten: list after PopulateFromUQUIC, bytes cached *)
Theorem legacy_heap_dial_writes_spec sup rnd scid o ps h2 own :
  legacy_heap_dial sup rnd scid o [OTP ps None] [0%nat] = Some (h2, own) ->
  exists v ps' ov, USpec.Model.dial sup rnd (oJs o) scid ps = Some (v, ps', ov) /\
    hget h2 0 = OTP ps' (Some (marshal ps')).
Proof.
  unfold legacy_heap_dial. cbn [apply_exts hget nth touch].
  destruct (USpec.Model.dial sup rnd (oJs o) scid ps) as [[[v ps'] ov]|]; [|discriminate].
  cbn. intros H. inversion H; subst. exists v, ps', ov. split; reflexivity.
Qed.
