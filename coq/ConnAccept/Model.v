(** ConnAccept — the pre-authentication decision state of a connection in /repo/connection.go:
    handleOnePacket (version check), handleLongHeaderPacket (source-connection-ID / 0-RTT guards),
    handleRetryPacket, handleVersionNegotiationPacket, handleUnpackedLongHeaderPacket (first packet),
    the transport-params check (connection.go:2384), and the handshake part of the timer of run()/maybeResetTimer.

    Executable definitions only.  What is NOT re-implemented and enters as data:
      - wire parsing (the packet arrives as its parsed header fields),
      - the Retry integrity tag function (parameter [tagf], AES-128-GCM in the code),
      - Initial packet protection: a packet carries the connection ID its keys were derived
        from; it opens iff that equals the ID the connection's Initial keys come from
        (idealised AEAD; the real check is AES-GCM under HKDF(initial_salt, cid)),
      - TLS: no Handshake keys ever become available in this model. *)
From Coq Require Import List ZArith Bool.
From V Require Import Gen.Params Lib.Hex.
Import ListNotations.
Open Scope Z_scope.

Definition cid := list Z.
Definition cid_eqb (a b : cid) : bool := zeqb_list a b.

Fixpoint zmem (x : Z) (l : list Z) : bool :=
  match l with [] => false | y :: r => (x =? y) || zmem x r end.

(** protocol.ChooseSupportedVersion *)
Fixpoint choose_version (ours theirs : list Z) : option Z :=
  match ours with
  | [] => None
  | v :: r => if zmem v theirs then Some v else choose_version r theirs
  end.

Inductive ptype := TInitial | T0RTT | THandshake.
Definition ptype_eqb (a b : ptype) : bool :=
  match a, b with TInitial, TInitial | T0RTT, T0RTT | THandshake, THandshake => true | _, _ => false end.

Inductive payload := PlPing | PlClose.

(** A datagram as the connection sees it after header parsing. *)
Inductive pkt :=
| PBad (unsupported : bool)                                   (* header parse error / unsupported version *)
| PVN (parse_ok : bool) (vers : list Z)                       (* long header, version 0 *)
| PRetry (ver : Z) (scid : cid) (tok body tag : list Z)       (* body = packet without the 16-byte tag *)
| PLong (ty : ptype) (ver : Z) (scid : cid) (keycid : cid) (pn : Z) (pl : payload).

(** Things that happen to the connection. *)
Inductive op :=
| OpPkt (p : pkt)
| OpTP (iscid odcid : cid) (rscid : option cid)               (* peer transport parameters reach the transport-params handler *)
| OpDropInitial.                                              (* dropEncryptionLevel(Initial) *)

Record state := mkState {
  client : bool;
  version : Z;
  cfgVersions : list Z;          (* Config.Versions *)
  rcvFirst : bool;               (* receivedFirstPacket *)
  rcvRetry : bool;               (* receivedRetry *)
  verNeg : bool;                 (* versionNegotiated *)
  hsDCID : cid;                  (* handshakeDestConnID *)
  origDCID : cid;                (* origDestConnID (client only; empty at the server) *)
  retrySCID : option cid;        (* retrySrcConnID *)
  dcid : cid;                    (* connIDManager's active connection ID (handshake not complete) *)
  keyCID : cid;                  (* connection ID the Initial keys are derived from *)
  initDropped : bool;            (* Initial keys dropped *)
  token : list Z;                (* packer token *)
  initPNs : list Z;              (* Initial packet numbers recorded by the received-packet handler *)
  nUndec : Z                     (* len(undecryptablePackets) *)
}.

(** qlog PacketDropped triggers (DSilent: dropped without an event). *)
Inductive drop := DUnexpectedPacket | DUnknownCID | DDecryptErr | DUnexpectedVersion | DUnsupportedVersion
                | DHeaderParse | DKeyUnavailable | DDuplicate | DDosPrevention | DSilent.

Inductive outcome :=
| ODropped (d : drop)
| OBuffered                      (* queued as undecryptable *)
| OProcessed                     (* authenticated packet processed (wasProcessed = true) *)
| ORetryAccepted
| ORecreate (v : Z)              (* errCloseForRecreating{nextVersion} *)
| OVNError                       (* destroyImpl(VersionNegotiationError) *)
| ORemoteClose                   (* CONNECTION_CLOSE inside an authenticated packet *)
| OTPOk | OTPError               (* the transport-params check (connection.go:2384) *)
| ONone.

(** Terminal outcomes: the run loop leaves, nothing is handled afterwards. *)
Definition terminal (o : outcome) : bool :=
  match o with ORecreate _ | OVNError | ORemoteClose | OTPError => true | _ => false end.

Definition init_client (ver : Z) (vers : list Z) (negotiated : bool) (dc : cid) (tok : list Z) : state :=
  mkState true ver vers false false negotiated dc dc None dc dc false tok [] 0.

(** newConnection: destConnID = the client's SCID, keys from the client's first DCID. *)
Definition init_server (ver : Z) (vers : list Z) (clientDCID peerSCID : cid) : state :=
  mkState false ver vers false false false peerSCID [] None peerSCID clientDCID false [] [] 0.

Section WithTag.
Variable tagf : cid -> list Z -> Z -> list Z.   (* GetRetryIntegrityTag(body, odcid, version) *)

(** connection.go handleRetryPacket *)
Definition handle_retry (s : state) (scid : cid) (tok body tag : list Z) (ver : Z) : state * outcome :=
  if negb (client s) then (s, ODropped DUnexpectedPacket)
  else if rcvFirst s then (s, ODropped DUnexpectedPacket)
  else if cid_eqb scid (dcid s) then (s, ODropped DUnexpectedPacket)
  else if rcvRetry s then (s, ODropped DSilent)
  else if negb (zeqb_list tag (tagf (dcid s) body ver)) then (s, ODropped DDecryptErr)
  else (mkState (client s) (version s) (cfgVersions s) (rcvFirst s) true (verNeg s)
                scid (origDCID s) (Some scid) scid scid (initDropped s) tok (initPNs s) (nUndec s),
        ORetryAccepted).

(** connection.go handleVersionNegotiationPacket *)
Definition handle_vn (s : state) (parse_ok : bool) (vers : list Z) : state * outcome :=
  if negb (client s) || rcvFirst s || verNeg s then (s, ODropped DUnexpectedPacket)
  else if negb parse_ok then (s, ODropped DHeaderParse)
  else if zmem (version s) vers then (s, ODropped DUnexpectedVersion)
  else match choose_version (cfgVersions s) vers with
       | None => (s, OVNError)
       | Some v => (s, ORecreate v)
       end.

(** handleUnpackedLongHeaderPacket, the part before the frames: first authenticated packet. *)
Definition first_packet (s : state) (scid : cid) : state :=
  if rcvFirst s then s
  else if cid_eqb scid (hsDCID s)
       then mkState (client s) (version s) (cfgVersions s) true (rcvRetry s) (verNeg s) (hsDCID s) (origDCID s)
                    (retrySCID s) (dcid s) (keyCID s) (initDropped s) (token s) (initPNs s) (nUndec s)
       else mkState (client s) (version s) (cfgVersions s) true (rcvRetry s) (verNeg s) scid (origDCID s)
                    (retrySCID s) scid (keyCID s) (initDropped s) (token s) (initPNs s) (nUndec s).

Definition record_pn (s : state) (pn : Z) : state :=
  mkState (client s) (version s) (cfgVersions s) (rcvFirst s) (rcvRetry s) (verNeg s) (hsDCID s) (origDCID s)
          (retrySCID s) (dcid s) (keyCID s) (initDropped s) (token s) (pn :: initPNs s) (nUndec s).

Definition queue_undec (s : state) : state * outcome :=
  if caMaxUndecryptablePackets <? nUndec s + 1 then (s, ODropped DDosPrevention)
  else (mkState (client s) (version s) (cfgVersions s) (rcvFirst s) (rcvRetry s) (verNeg s) (hsDCID s) (origDCID s)
                (retrySCID s) (dcid s) (keyCID s) (initDropped s) (token s) (initPNs s) (nUndec s + 1), OBuffered).

(** handleLongHeaderPacket (non-Retry) + UnpackLongHeader + handleUnpackedLongHeaderPacket *)
Definition handle_long (s : state) (ty : ptype) (scid keycid : cid) (pn : Z) (pl : payload) : state * outcome :=
  if rcvFirst s && ptype_eqb ty TInitial && negb (cid_eqb scid (hsDCID s)) then (s, ODropped DUnknownCID)
  else if client s && ptype_eqb ty T0RTT then (s, ODropped DUnexpectedPacket)
  else match ty with
       | TInitial =>
           if initDropped s then (s, ODropped DKeyUnavailable)
           else if negb (cid_eqb keycid (keyCID s)) then (s, ODropped DDecryptErr)
           else if zmem pn (initPNs s) then (s, ODropped DDuplicate)
           else let s1 := first_packet s scid in
                match pl with
                | PlPing => (record_pn s1 pn, OProcessed)
                | PlClose => (s1, ORemoteClose)
                end
       | T0RTT | THandshake =>
           if initDropped s then (s, ODropped DKeyUnavailable) else queue_undec s
       end.

(** handleOnePacket *)
Definition handle_pkt (s : state) (p : pkt) : state * outcome :=
  match p with
  | PBad unsupported => (s, ODropped (if unsupported then DUnsupportedVersion else DHeaderParse))
  | PVN ok vers => handle_vn s ok vers
  | PRetry ver scid tok body tag =>
      if negb (ver =? version s) then (s, ODropped DUnexpectedVersion)
      else handle_retry s scid tok body tag ver
  | PLong ty ver scid keycid pn pl =>
      if negb (ver =? version s) then (s, ODropped DUnexpectedVersion)
      else handle_long s ty scid keycid pn pl
  end.

(** the transport-params check (connection.go:2384) *)
Definition opt_cid_eqb (a b : option cid) : bool :=
  match a, b with
  | None, None => true
  | Some x, Some y => cid_eqb x y
  | _, _ => false
  end.

Definition check_tp (s : state) (iscid odcid : cid) (rscid : option cid) : bool :=
  cid_eqb iscid (hsDCID s) &&
  (negb (client s) || (cid_eqb odcid (origDCID s) && opt_cid_eqb rscid (retrySCID s))).

Definition drop_initial (s : state) : state :=
  mkState (client s) (version s) (cfgVersions s) (rcvFirst s) (rcvRetry s) (verNeg s) (hsDCID s) (origDCID s)
          (retrySCID s) (dcid s) (keyCID s) true (token s) (initPNs s) (nUndec s).

Definition step (s : state) (o : op) : state * outcome :=
  match o with
  | OpPkt p => handle_pkt s p
  | OpTP i od r => (s, if check_tp s i od r then OTPOk else OTPError)
  | OpDropInitial => (drop_initial s, ONone)
  end.

(** The run loop: ops are handled in order until a terminal outcome. *)
Fixpoint run (s : state) (ops : list op) : state * list outcome :=
  match ops with
  | [] => (s, [])
  | o :: r =>
      let '(s1, out) := step s o in
      if terminal out then (s1, [out])
      else let '(s2, outs) := run s1 r in (s2, out :: outs)
  end.

End WithTag.

(** The decision state: what the peer-authentication of the handshake hangs on. *)
Definition decision (s : state) :=
  (version s, rcvRetry s, verNeg s, hsDCID s, origDCID s, retrySCID s, dcid s, keyCID s, token s).

(** ---- the handshake part of the timer (maybeResetTimer, run) ---- *)

Record tstate := mkT {
  creation : Z;            (* creationTime *)
  lastRcv : Z;             (* lastPacketReceivedTime *)
  firstAE : Z;             (* firstAckElicitingPacketAfterIdleSentTime, 0 = unset *)
  hsIdle : Z;              (* config.HandshakeIdleTimeout *)
  kaPeriod : Z;            (* config.KeepAlivePeriod *)
  kaSent : bool;           (* keepAlivePingSent *)
  kaInterval : Z           (* max(keepAliveInterval, 3/2 PTO): oracle, float RTT inside *)
}.

Definition handshake_timeout (t : tstate) : Z := caHandshakeTimeoutFactor * hsIdle t.

(** idleTimeoutStartTime *)
Definition idle_start (t : tstate) : Z :=
  if (negb (firstAE t =? 0)) && (lastRcv t <? firstAE t) then firstAE t else lastRcv t.

(** maybeResetTimer, branch !handshakeComplete, before the ack/loss/pacing alarms can only lower it *)
Definition hs_deadline (t : tstate) : Z :=
  let d := creation t + handshake_timeout t in
  let i := idle_start t + hsIdle t in
  if i <? d then i else d.

(** nextKeepAliveTime *)
Definition next_keepalive (t : tstate) : Z :=
  if (kaPeriod t =? 0) || kaSent t then 0 else lastRcv t + kaInterval t.

Inductive tout := TKeepAlive | THandshakeTimeout | TIdleTimeout | TContinue.

(** run(): the timeout branch after a wake-up at [now], handshake not complete *)
Definition timeout_branch (t : tstate) (now : Z) : tstate * tout :=
  let ka := next_keepalive t in
  if negb (ka =? 0) && (ka <=? now)
  then (mkT (creation t) (lastRcv t) (firstAE t) (hsIdle t) (kaPeriod t) true (kaInterval t), TKeepAlive)
  else if handshake_timeout t <=? now - creation t then (t, THandshakeTimeout)
  else if hsIdle t <=? now - idle_start t then (t, TIdleTimeout)
  else (t, TContinue).
