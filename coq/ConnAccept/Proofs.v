(** Proofs about the ConnAccept model (C13). *)
From Coq Require Import List ZArith Bool Lia.
From V Require Import Gen.Params Lib.Hex ConnAccept.Model.
Import ListNotations.
Open Scope Z_scope.

(** ---- small facts ---- *)

Lemma cid_eqb_eq a b : cid_eqb a b = true <-> a = b.
Proof. apply zeqb_list_eq. Qed.

Lemma cid_eqb_refl a : cid_eqb a a = true.
Proof. apply cid_eqb_eq. reflexivity. Qed.

Lemma cid_eqb_neq a b : cid_eqb a b = false <-> a <> b.
Proof.
  split; intros H.
  - intros E. apply cid_eqb_eq in E. congruence.
  - destruct (cid_eqb a b) eqn:E; auto. apply cid_eqb_eq in E. contradiction.
Qed.

Lemma zeqb_list_neq a b : zeqb_list a b = false <-> a <> b.
Proof. apply cid_eqb_neq. Qed.

Lemma zmem_In x l : zmem x l = true <-> In x l.
Proof.
  induction l as [|y l IH]; simpl.
  - split; [discriminate | tauto].
  - rewrite orb_true_iff, IH, Z.eqb_eq. split; intros [H|H]; auto.
Qed.

Lemma zmem_not_In x l : zmem x l = false <-> ~ In x l.
Proof.
  split.
  - intros H I. apply zmem_In in I. congruence.
  - intros H. destruct (zmem x l) eqn:E; auto. apply zmem_In in E. contradiction.
Qed.

Lemma opt_cid_eqb_eq a b : opt_cid_eqb a b = true <-> a = b.
Proof.
  destruct a, b; simpl; try (split; congruence).
  rewrite cid_eqb_eq. split; congruence.
Qed.

(** protocol.ChooseSupportedVersion: first of ours that they list. *)
Lemma choose_version_some ours theirs v :
  choose_version ours theirs = Some v ->
  In v ours /\ In v theirs /\
  exists pre post, ours = pre ++ v :: post /\ forall w, In w pre -> ~ In w theirs.
Proof.
  induction ours as [|o ours IH]; simpl; [discriminate|].
  destruct (zmem o theirs) eqn:M; intros H.
  - inversion H; subst. apply zmem_In in M. split; [auto|split; [auto|]].
    exists [], ours. split; [reflexivity | intros w []].
  - destruct (IH H) as (I1 & I2 & pre & post & E & N).
    split; [auto|split; [auto|]]. exists (o :: pre), post. split; [simpl; congruence|].
    intros w [->|Hw]; [apply zmem_not_In; auto | auto].
Qed.

Lemma choose_version_none ours theirs :
  choose_version ours theirs = None -> forall v, In v ours -> ~ In v theirs.
Proof.
  induction ours as [|o ours IH]; simpl; intros H v Hv; [contradiction|].
  destruct (zmem o theirs) eqn:M; [discriminate|].
  destruct Hv as [->|Hv]; [apply zmem_not_In; auto | apply IH; auto].
Qed.

Section WithTag.
Variable tagf : cid -> list Z -> Z -> list Z.

Local Notation step := (step tagf).
Local Notation run := (run tagf).
Local Notation handle_pkt := (handle_pkt tagf).

(** ---- Retry ---- *)

(** The conditions under which handleRetryPacket accepts. *)
Definition retry_ok (s : state) (ver : Z) (scid : cid) (body tag : list Z) : Prop :=
  client s = true /\ rcvFirst s = false /\ rcvRetry s = false /\ scid <> dcid s /\
  ver = version s /\ tag = tagf (dcid s) body ver.

Definition retry_state (s : state) (scid : cid) (tok : list Z) : state :=
  mkState (client s) (version s) (cfgVersions s) (rcvFirst s) true (verNeg s)
          scid (origDCID s) (Some scid) scid scid (initDropped s) tok (initPNs s) (nUndec s).

Lemma retry_rules s ver scid tok body tag :
  (retry_ok s ver scid body tag ->
     handle_pkt s (PRetry ver scid tok body tag) = (retry_state s scid tok, ORetryAccepted)) /\
  (~ retry_ok s ver scid body tag ->
     exists d, handle_pkt s (PRetry ver scid tok body tag) = (s, ODropped d)).
Proof.
  unfold retry_ok, handle_pkt, handle_retry, retry_state. split.
  - intros (Hc & Hf & Hr & Hs & Hv & Ht). subst ver.
    rewrite Z.eqb_refl, Hc, Hf, Hr. simpl.
    apply cid_eqb_neq in Hs. rewrite Hs.
    assert (E : zeqb_list tag (tagf (dcid s) body (version s)) = true) by (apply zeqb_list_eq; auto).
    rewrite E. reflexivity.
  - intros N.
    destruct (ver =? version s) eqn:Ev; simpl; [|eauto].
    apply Z.eqb_eq in Ev.
    destruct (client s) eqn:Hc; simpl; [|eauto].
    destruct (rcvFirst s) eqn:Hf; [eauto|].
    destruct (cid_eqb scid (dcid s)) eqn:Hs; [eauto|].
    destruct (rcvRetry s) eqn:Hr; [eauto|].
    destruct (zeqb_list tag (tagf (dcid s) body ver)) eqn:Ht; simpl; [|eauto].
    exfalso. apply N. apply cid_eqb_neq in Hs. apply zeqb_list_eq in Ht. repeat split; auto.
Qed.

Lemma bad_tag_ignored s ver scid tok body tag :
  tag <> tagf (dcid s) body ver ->
  exists d, handle_pkt s (PRetry ver scid tok body tag) = (s, ODropped d).
Proof.
  intros H. apply (proj2 (retry_rules s ver scid tok body tag)).
  intros (_ & _ & _ & _ & _ & E). contradiction.
Qed.

(** ---- Version Negotiation ---- *)

Lemma vn_rules s ok vers :
  exists o, handle_pkt s (PVN ok vers) = (s, o) /\
  ((exists d, o = ODropped d) \/
   (client s = true /\ rcvFirst s = false /\ verNeg s = false /\ ok = true /\ ~ In (version s) vers /\
    ((exists v, o = ORecreate v /\ In v (cfgVersions s) /\ In v vers /\ v <> version s /\
                exists pre post, cfgVersions s = pre ++ v :: post /\ forall w, In w pre -> ~ In w vers)
     \/ (o = OVNError /\ forall v, In v (cfgVersions s) -> ~ In v vers)))).
Proof.
  unfold handle_pkt, handle_vn.
  destruct (client s) eqn:Hc; simpl; [|eauto 6].
  destruct (rcvFirst s) eqn:Hf; simpl; [eauto 6|].
  destruct (verNeg s) eqn:Hn; simpl; [eauto 6|].
  destruct ok; simpl; [|eauto 6].
  destruct (zmem (version s) vers) eqn:Hm; [eauto 6|].
  apply zmem_not_In in Hm.
  destruct (choose_version (cfgVersions s) vers) as [v|] eqn:Hv.
  - destruct (choose_version_some _ _ _ Hv) as (I1 & I2 & pre & post & E & N).
    eexists; split; [reflexivity|]. right. repeat split; auto. left.
    exists v. repeat split; auto. { intros ->. contradiction. } eauto.
  - eexists; split; [reflexivity|]. right. repeat split; auto. right. split; auto.
    apply choose_version_none; auto.
Qed.

(** ---- one step: what can change ---- *)

Ltac destr_ifs :=
  repeat match goal with
         | |- context [if ?b then _ else _] => destruct b eqn:?
         | |- context [match ?x with PlPing => _ | PlClose => _ end] => destruct x eqn:?
         | |- context [match ?x with TInitial => _ | T0RTT => _ | THandshake => _ end] => destruct x eqn:?
         | |- context [match ?x with Some _ => _ | None => _ end] => destruct x eqn:?
         end.

Ltac step_cases o :=
  unfold Model.step, Model.handle_pkt, handle_retry, handle_vn, handle_long, queue_undec, first_packet, record_pn, drop_initial;
  destruct o as [[u|ok vers|ver scid tok body tag|ty ver scid keycid pn pl]|i od r|];
  destr_ifs; intros H; inversion H; subst; clear H; simpl in *.

Lemma step_static s o s' out : step s o = (s', out) ->
  client s' = client s /\ version s' = version s /\ cfgVersions s' = cfgVersions s /\
  origDCID s' = origDCID s /\ verNeg s' = verNeg s.
Proof. step_cases o; auto. Qed.

Lemma step_first_mono s o s' out : step s o = (s', out) ->
  rcvFirst s = true -> rcvFirst s' = true /\ decision s' = decision s.
Proof. unfold decision. step_cases o; intros F; try congruence; auto. Qed.

Lemma step_retry_mono s o s' out : step s o = (s', out) ->
  rcvRetry s = true -> rcvRetry s' = true /\ retrySCID s' = retrySCID s /\ out <> ORetryAccepted.
Proof. step_cases o; intros F; repeat split; try congruence; auto. Qed.

Lemma step_accept s o s' out : step s o = (s', out) -> out = ORetryAccepted ->
  rcvRetry s = false /\ rcvRetry s' = true /\
  exists ver scid tok body tag, o = OpPkt (PRetry ver scid tok body tag) /\ retry_ok s ver scid body tag /\
                                s' = retry_state s scid tok.
Proof.
  intros H E. subst out.
  destruct o as [p|i od r|].
  2: { simpl in H. revert H. destr_ifs; intros H; inversion H. }
  2: { simpl in H. inversion H. }
  change (handle_pkt s p = (s', ORetryAccepted)) in H.
  destruct p as [u|ok vers|ver scid tok body tag|ty ver scid keycid pn pl].
  - simpl in H. inversion H.
  - destruct (vn_rules s ok vers) as (o & Ho & Hc). rewrite Ho in H. inversion H; subst.
    destruct Hc as [(d & Hd)|(_ & _ & _ & _ & _ & [(v & Hv & _)|(Hv & _)])]; discriminate.
  - destruct (retry_rules s ver scid tok body tag) as [A B].
    assert (D : retry_ok s ver scid body tag \/ ~ retry_ok s ver scid body tag).
    { unfold retry_ok.
      destruct (client s), (rcvFirst s), (rcvRetry s); try (right; intros (?&?&?&?); congruence).
      destruct (cid_eqb scid (dcid s)) eqn:E1.
      { apply cid_eqb_eq in E1. right. intros (?&?&?&?&?). contradiction. }
      apply cid_eqb_neq in E1.
      destruct (Z.eq_dec ver (version s)) as [E2|E2]; [|right; intros (?&?&?&?&?&?); contradiction].
      destruct (zeqb_list tag (tagf (dcid s) body ver)) eqn:E3.
      { apply zeqb_list_eq in E3. left. repeat split; auto. }
      apply zeqb_list_neq in E3. right. intros (?&?&?&?&?&?); contradiction. }
    destruct D as [D|D].
    + specialize (A D). rewrite A in H. inversion H; subst.
      destruct D as (?&?&?&?). split; [auto|]. split; [reflexivity|].
      exists ver, scid, tok, body, tag. split; [reflexivity|]. split; [|reflexivity].
      unfold retry_ok; auto.
    + destruct (B D) as (d & Hd). rewrite Hd in H. inversion H.
  - revert H. unfold Model.handle_pkt, handle_long, queue_undec, first_packet, record_pn.
    destr_ifs; intros H; inversion H.
Qed.

Definition is_accept (o : outcome) : bool := match o with ORetryAccepted => true | _ => false end.

Lemma step_retryscid_nonaccept s o s' out : step s o = (s', out) -> is_accept out = false ->
  retrySCID s' = retrySCID s.
Proof. step_cases o; intros N; auto; discriminate. Qed.

(** ---- at most one Retry ---- *)

Lemma run_cons s o r :
  run s (o :: r) =
  let '(s1, out) := step s o in
  if terminal out then (s1, [out]) else let '(s2, outs) := run s1 r in (s2, out :: outs).
Proof. reflexivity. Qed.

Lemma at_most_one_retry_gen ops : forall s,
  (length (filter is_accept (snd (run s ops))) <= (if rcvRetry s then 0 else 1))%nat.
Proof.
  induction ops as [|o r IH]; intros s.
  - simpl. destruct (rcvRetry s); lia.
  - rewrite run_cons. destruct (step s o) as [s1 out] eqn:Hs.
    destruct (terminal out) eqn:Ht.
    + simpl. destruct out; simpl in *; try discriminate; destruct (rcvRetry s); simpl; lia.
    + specialize (IH s1). destruct (run s1 r) as [s2 outs] eqn:Hr. simpl in *.
      destruct (is_accept out) eqn:Ha.
      * destruct out; try discriminate.
        destruct (step_accept _ _ _ _ Hs eq_refl) as (R0 & R1 & _).
        rewrite R0. rewrite R1 in IH. simpl. lia.
      * destruct (rcvRetry s) eqn:R0.
        -- destruct (step_retry_mono _ _ _ _ Hs R0) as (R1 & _). rewrite R1 in IH. exact IH.
        -- destruct (rcvRetry s1); lia.
Qed.

Lemma at_most_one_retry s ops :
  (length (filter is_accept (snd (run s ops))) <= 1)%nat.
Proof. pose proof (at_most_one_retry_gen ops s). destruct (rcvRetry s); lia. Qed.

(** ---- after the first authenticated packet ---- *)

(** Packets that must be inert once a packet has been authenticated: every Retry, every Version
    Negotiation, every malformed packet, every Initial whose SCID is not the handshake DCID,
    every 0-RTT packet at a client. *)
Definition forged (cl : bool) (h : cid) (p : pkt) : Prop :=
  match p with
  | PBad _ | PVN _ _ | PRetry _ _ _ _ _ => True
  | PLong TInitial _ scid _ _ _ => scid <> h
  | PLong T0RTT _ _ _ _ _ => cl = true
  | PLong THandshake _ _ _ _ _ => False
  end.

Lemma forged_inert_step s p :
  rcvFirst s = true -> forged (client s) (hsDCID s) p ->
  exists d, step s (OpPkt p) = (s, ODropped d).
Proof.
  intros F G. destruct p as [u|ok vers|ver scid tok body tag|ty ver scid keycid pn pl]; simpl in *.
  - eauto.
  - unfold handle_vn. rewrite F. rewrite orb_true_r. simpl. eauto.
  - destruct (ver =? version s); simpl; [|eauto].
    unfold handle_retry. destruct (client s); simpl; [|eauto]. rewrite F. eauto.
  - destruct (ver =? version s); simpl; [|eauto].
    unfold handle_long. rewrite F. destruct ty; simpl in *.
    + apply cid_eqb_neq in G. rewrite G. simpl. eauto.
    + rewrite G. simpl. eauto.
    + contradiction.
Qed.

Definition nondrop (o : outcome) : bool := match o with ODropped _ => false | _ => true end.

Lemma step_first_hs s o s' out : step s o = (s', out) -> rcvFirst s = true -> hsDCID s' = hsDCID s.
Proof.
  intros H F. destruct (step_first_mono _ _ _ _ H F) as (_ & D). unfold decision in D. congruence.
Qed.

Lemma after_genuine_inert ops1 : forall s p ops2,
  rcvFirst s = true -> forged (client s) (hsDCID s) p ->
  fst (run s (ops1 ++ OpPkt p :: ops2)) = fst (run s (ops1 ++ ops2)) /\
  filter nondrop (snd (run s (ops1 ++ OpPkt p :: ops2))) = filter nondrop (snd (run s (ops1 ++ ops2))).
Proof.
  induction ops1 as [|o r IH]; intros s p ops2 F G.
  - simpl app. rewrite run_cons.
    destruct (forged_inert_step s p F G) as (d & Hd). rewrite Hd. simpl terminal. cbv iota.
    destruct (run s ops2) as [s2 outs]. simpl. auto.
  - simpl app. rewrite !run_cons. destruct (step s o) as [s1 out] eqn:Hs.
    destruct (terminal out); [auto|].
    destruct (step_first_mono _ _ _ _ Hs F) as (F1 & _).
    pose proof (step_first_hs _ _ _ _ Hs F) as H1.
    destruct (step_static _ _ _ _ Hs) as (C1 & _).
    assert (G1 : forged (client s1) (hsDCID s1) p) by (rewrite C1, H1; exact G).
    destruct (IH s1 p ops2 F1 G1) as (A & B).
    destruct (run s1 (r ++ OpPkt p :: ops2)) as [sa oa].
    destruct (run s1 (r ++ ops2)) as [sb ob]. simpl in *. subst.
    split; auto. destruct (nondrop out); simpl; congruence.
Qed.

(** ---- the same for every packet that is dropped without effect where it is inserted ---- *)

Definition inert_at (s : state) (p : pkt) : Prop := exists d, step s (OpPkt p) = (s, ODropped d).

Lemma insert_inert ops1 : forall s p ops2,
  (forall s1 outs, run s ops1 = (s1, outs) -> terminal (last outs ONone) = true \/ inert_at s1 p) ->
  fst (run s (ops1 ++ OpPkt p :: ops2)) = fst (run s (ops1 ++ ops2)) /\
  filter nondrop (snd (run s (ops1 ++ OpPkt p :: ops2))) = filter nondrop (snd (run s (ops1 ++ ops2))).
Proof.
  induction ops1 as [|o r IH]; intros s p ops2 Hyp.
  - simpl app. rewrite run_cons. destruct (Hyp s [] eq_refl) as [T|(d & Hd)]; [simpl in T; discriminate|].
    rewrite Hd. simpl terminal. cbv iota. destruct (run s ops2) as [s2 outs]. simpl. auto.
  - simpl app. rewrite !run_cons. destruct (step s o) as [s1 out] eqn:Hs.
    destruct (terminal out) eqn:Ht; [auto|].
    assert (Hyp1 : forall s1' outs', run s1 r = (s1', outs') -> terminal (last outs' ONone) = true \/ inert_at s1' p).
    { intros s1' outs' Hr. specialize (Hyp s1' (out :: outs')). rewrite run_cons, Hs, Ht, Hr in Hyp.
      specialize (Hyp eq_refl). destruct outs' as [|x outs'']; [|exact Hyp].
      simpl in Hyp. destruct Hyp as [T|I]; [congruence | right; exact I]. }
    destruct (IH s1 p ops2 Hyp1) as (A & B).
    destruct (run s1 (r ++ OpPkt p :: ops2)) as [sa oa]. destruct (run s1 (r ++ ops2)) as [sb ob]. simpl in *. subst.
    split; auto. destruct (nondrop out); simpl; congruence.
Qed.

(** Replayed or corrupted packets, whatever connection IDs they carry: a long header packet of another version; an Initial
    that arrives after the Initial keys were dropped, that was protected with other keys than the connection's (corrupted,
    or built for another connection ID), or whose packet number was already processed (a replay). *)
Definition stale (s : state) (p : pkt) : Prop :=
  match p with
  | PLong ty ver scid keycid pn pl =>
      ver <> version s \/
      (ty = TInitial /\ (initDropped s = true \/ keycid <> keyCID s \/ zmem pn (initPNs s) = true))
  | _ => False
  end.

Lemma stale_inert s p : stale s p -> inert_at s p.
Proof.
  destruct p as [u|ok vers|ver scid tok body tag|ty ver scid keycid pn pl]; simpl; try contradiction.
  intros [V|(-> & H)]; unfold inert_at; simpl.
  - apply Z.eqb_neq in V. rewrite V. simpl. eauto.
  - destruct (ver =? version s); simpl; [|eauto]. unfold handle_long. simpl.
    destruct (rcvFirst s && true && negb (cid_eqb scid (hsDCID s))); [eauto|].
    rewrite andb_false_r. simpl.
    destruct (initDropped s) eqn:D; [eauto|].
    destruct (cid_eqb keycid (keyCID s)) eqn:K; simpl; [|eauto].
    destruct (zmem pn (initPNs s)) eqn:M; [eauto|].
    exfalso. destruct H as [H|[H|H]]; try congruence. apply cid_eqb_eq in K. contradiction.
Qed.

Lemma step_stale_mono s o s' out : step s o = (s', out) -> rcvFirst s = true ->
  (initDropped s = true -> initDropped s' = true) /\
  (forall pn, zmem pn (initPNs s) = true -> zmem pn (initPNs s') = true).
Proof.
  step_cases o; intros F; split; auto; try congruence;
    intros pn0 M; simpl; rewrite ?M, ?orb_true_r; auto.
Qed.

Lemma stale_persists ops : forall s p s1 outs, rcvFirst s = true -> stale s p -> run s ops = (s1, outs) ->
  rcvFirst s1 = true /\ stale s1 p.
Proof.
  induction ops as [|o r IH]; intros s p s1 outs F S H.
  - simpl in H. inversion H; subst. auto.
  - rewrite run_cons in H. destruct (step s o) as [sa out] eqn:Hs.
    destruct (step_first_mono _ _ _ _ Hs F) as (Fa & Da).
    destruct (step_static _ _ _ _ Hs) as (_ & Va & _).
    destruct (step_stale_mono _ _ _ _ Hs F) as (Ma & Pa).
    assert (Sa : stale sa p).
    { destruct p as [u|ok vers|ver scid tok body tag|ty ver scid keycid pn pl]; simpl in *; try contradiction.
      rewrite Va. destruct S as [V|(T & [D|[K|M]])].
      - left. exact V.
      - right. split; [exact T | left; exact (Ma D)].
      - right. split; [exact T | right; left]. unfold decision in Da. injection Da as _ _ _ _ _ _ _ Ek _. congruence.
      - right. split; [exact T | right; right; exact (Pa _ M)]. }
    destruct (terminal out); [inversion H; subst; auto|].
    destruct (run sa r) as [sb ob] eqn:Hr. inversion H; subst. eapply IH; eauto.
Qed.

Lemma forged_persists ops : forall s p s1 outs, rcvFirst s = true -> forged (client s) (hsDCID s) p -> run s ops = (s1, outs) ->
  rcvFirst s1 = true /\ forged (client s1) (hsDCID s1) p.
Proof.
  induction ops as [|o r IH]; intros s p s1 outs F G H.
  - simpl in H. inversion H; subst. auto.
  - rewrite run_cons in H. destruct (step s o) as [sa out] eqn:Hs.
    destruct (step_first_mono _ _ _ _ Hs F) as (Fa & _).
    pose proof (step_first_hs _ _ _ _ Hs F) as Ha. destruct (step_static _ _ _ _ Hs) as (Ca & _).
    assert (Ga : forged (client sa) (hsDCID sa) p) by (rewrite Ca, Ha; exact G).
    destruct (terminal out); [inversion H; subst; auto|].
    destruct (run sa r) as [sb ob] eqn:Hr. inversion H; subst. eapply IH; eauto.
Qed.

(** The full clause: once a packet has been authenticated, inserting — at any position of any input — any Retry, any
    Version Negotiation packet, any malformed packet, any Initial with another SCID, any 0-RTT packet at a client, AND any
    replayed or corrupted packet carrying the genuine connection IDs (stale) leaves the final state and all non-drop
    outcomes unchanged. *)
Theorem after_genuine_inert_strong ops1 s p ops2 :
  rcvFirst s = true -> forged (client s) (hsDCID s) p \/ stale s p ->
  fst (run s (ops1 ++ OpPkt p :: ops2)) = fst (run s (ops1 ++ ops2)) /\
  filter nondrop (snd (run s (ops1 ++ OpPkt p :: ops2))) = filter nondrop (snd (run s (ops1 ++ ops2))).
Proof.
  intros F C. apply insert_inert. intros s1 outs Hr. right.
  destruct C as [G|S].
  - destruct (forged_persists ops1 s p s1 outs F G Hr) as (F1 & G1). exact (forged_inert_step s1 p F1 G1).
  - destruct (stale_persists ops1 s p s1 outs F S Hr) as (_ & S1). apply stale_inert. exact S1.
Qed.

(** ---- connection-ID authentication ---- *)

Lemma check_tp_iff s i od r :
  check_tp s i od r = true <->
  i = hsDCID s /\ (client s = true -> od = origDCID s /\ r = retrySCID s).
Proof.
  unfold check_tp. rewrite andb_true_iff, cid_eqb_eq.
  destruct (client s); simpl.
  - rewrite andb_true_iff, cid_eqb_eq, opt_cid_eqb_eq. split.
    + intros (A & B & C). split; auto.
    + intros (A & B). destruct (B eq_refl). auto.
  - split.
    + intros (A & _). split; auto. discriminate.
    + intros (A & _). auto.
Qed.

(** Invariant of a client connection (reachable states). *)
Definition inv (s : state) : Prop :=
  client s = true /\ dcid s = hsDCID s /\
  (rcvRetry s = false -> retrySCID s = None /\ keyCID s = origDCID s /\ (rcvFirst s = false -> dcid s = origDCID s)) /\
  (rcvRetry s = true -> exists a, retrySCID s = Some a /\ keyCID s = a /\ (rcvFirst s = false -> dcid s = a)).

Lemma inv_init ver vers neg dc tok : inv (init_client ver vers neg dc tok).
Proof. unfold inv, init_client; simpl. repeat split; auto; discriminate. Qed.

Lemma inv_step s o s' out : step s o = (s', out) -> inv s -> inv s'.
Proof.
  unfold inv. intros H (C & D & A & B).
  revert H. step_cases o.
  all: try (split; [|split; [|split]]; assumption).
  all: split; [assumption|]; split; [simpl; congruence|]; split; intros R; simpl in *; try discriminate.
  all: try (destruct (A R) as (A1 & A2 & A3); split; [assumption|]; split; [assumption|];
            intros F; first [exact (A3 F) | exact (A3 eq_refl) | congruence]).
  all: try (destruct (B R) as (a & B1 & B2 & B3); exists a; split; [assumption|]; split; [assumption|];
            intros F; first [exact (B3 F) | exact (B3 eq_refl) | congruence]).
  all: try (eexists; split; [reflexivity|]; split; [reflexivity|]; intros; reflexivity).
  all: try congruence.
  all: try (destruct (A eq_refl) as (A1 & A2 & A3); split; [assumption|]; split; [assumption|];
            intros F; first [exact (A3 F) | exact (A3 eq_refl) | congruence]).
  all: try (destruct (B eq_refl) as (a & B1 & B2 & B3); exists a; split; [assumption|]; split; [assumption|];
            intros F; first [exact (B3 F) | exact (B3 eq_refl) | congruence]).
Qed.

(** The retry_source_connection_id a client expects is absent, or is the SCID of a Retry that was
    in the input with the tag of the ORIGINAL destination connection ID. *)
Lemma retry_scid_origin ops : forall s s' outs a,
  inv s -> run s ops = (s', outs) -> retrySCID s' = Some a ->
  retrySCID s = Some a \/
  exists ver tok body, In (OpPkt (PRetry ver a tok body (tagf (origDCID s) body ver))) ops.
Proof.
  induction ops as [|o r IH]; intros s s' outs a I H E.
  - simpl in H. inversion H; subst. auto.
  - rewrite run_cons in H. destruct (step s o) as [s1 out] eqn:Hs.
    pose proof (inv_step _ _ _ _ Hs I) as I1.
    destruct (step_static _ _ _ _ Hs) as (_ & _ & _ & O1 & _).
    assert (K : retrySCID s1 = Some a -> retrySCID s = Some a \/
                exists ver tok body, o = OpPkt (PRetry ver a tok body (tagf (origDCID s) body ver))).
    { intros E1. destruct (rcvRetry s) eqn:R0.
      - destruct (step_retry_mono _ _ _ _ Hs R0) as (_ & R & _). left. congruence.
      - destruct I as (C & D & A & B). destruct (A R0) as (A1 & A2 & A3).
        destruct (is_accept out) eqn:Ha.
        + destruct out; try discriminate.
          destruct (step_accept _ _ _ _ Hs eq_refl) as (_ & _ & ver & scid & tok & body & tag & Eo & Ok & Es).
          destruct Ok as (_ & F0 & _ & _ & _ & Et). subst s1. simpl in E1. inversion E1; subst scid.
          right. exists ver, tok, body. rewrite <- (A3 F0). congruence.
        + exfalso. rewrite (step_retryscid_nonaccept _ _ _ _ Hs Ha) in E1. congruence. }
    destruct (terminal out).
    + inversion H; subst. destruct (K E) as [L|(ver & tok & body & Eo)]; auto.
      right. exists ver, tok, body. left. auto.
    + destruct (run s1 r) as [s2 outs2] eqn:Hr. inversion H; subst.
      destruct (IH s1 s' outs2 a I1 Hr E) as [L|(ver & tok & body & Hin)].
      * destruct (K L) as [L'|(ver & tok & body & Eo)]; auto.
        right. exists ver, tok, body. left. auto.
      * right. exists ver, tok, body. right. rewrite <- O1. exact Hin.
Qed.

Lemma run_orig ops : forall s s' outs, run s ops = (s', outs) ->
  origDCID s' = origDCID s /\ client s' = client s /\ verNeg s' = verNeg s /\ version s' = version s.
Proof.
  induction ops as [|o r IH]; intros s s' outs H.
  - simpl in H. inversion H; auto.
  - rewrite run_cons in H. destruct (step s o) as [s1 out] eqn:Hs.
    destruct (step_static _ _ _ _ Hs) as (A & B & _ & C & D).
    destruct (terminal out).
    + inversion H; subst. auto.
    + destruct (run s1 r) as [s2 o2] eqn:Hr. inversion H; subst.
      destruct (IH _ _ _ Hr) as (A' & B' & C' & D'). repeat split; congruence.
Qed.

Lemma run_inv ops : forall s s' outs, inv s -> run s ops = (s', outs) -> inv s'.
Proof.
  induction ops as [|o r IH]; intros s s' outs I H.
  - simpl in H. inversion H; subst; auto.
  - rewrite run_cons in H. destruct (step s o) as [s1 out] eqn:Hs.
    pose proof (inv_step _ _ _ _ Hs I) as I1.
    destruct (terminal out); [inversion H; subst; auto|].
    destruct (run s1 r) as [s2 o2] eqn:Hr. inversion H; subst. eapply IH; eauto.
Qed.

(** C13_cid_authentication, run level: whatever was injected, the peer's transport parameters are
    accepted by a client only if they name the original DCID and, as retry SCID, nothing (no Retry
    was accepted) or the SCID of a Retry present in the input whose tag was valid for the original DCID. *)
Lemma cid_authentication ver vers neg dc tok ops s' outs i od r :
  run (init_client ver vers neg dc tok) ops = (s', outs) ->
  check_tp s' i od r = true ->
  i = hsDCID s' /\ od = dc /\
  match r with
  | None => retrySCID s' = None
  | Some a => exists v t body, In (OpPkt (PRetry v a t body (tagf dc body v))) ops
  end.
Proof.
  intros H T. apply check_tp_iff in T. destruct T as (Ti & Tc).
  destruct (run_orig _ _ _ _ H) as (O & C & _). simpl in O, C.
  destruct (Tc C) as (To & Tr). repeat split; [auto | congruence |].
  destruct r as [a|]; [|auto].
  destruct (retry_scid_origin ops _ _ _ a (inv_init ver vers neg dc tok) H (eq_sym Tr)) as [L|L].
  - simpl in L. discriminate.
  - exact L.
Qed.

(** A client that accepted a (possibly forged) Retry with SCID [a] rejects the transport parameters of
    every server that does not itself claim to have sent that Retry. *)
Lemma forged_retry_rejected s i od r a :
  client s = true -> retrySCID s = Some a -> r <> Some a ->
  step s (OpTP i od r) = (s, OTPError).
Proof.
  intros C R N. simpl. destruct (check_tp s i od r) eqn:T; auto.
  apply check_tp_iff in T. destruct T as (_ & T). destruct (T C) as (_ & E). congruence.
Qed.

Lemma after_genuine_step s :
  rcvFirst s = true ->
  (forall p, forged (client s) (hsDCID s) p -> exists d, step s (OpPkt p) = (s, ODropped d)) /\
  (forall o s' out, step s o = (s', out) -> rcvFirst s' = true /\ decision s' = decision s).
Proof.
  intros F. split.
  - intros p G. exact (forged_inert_step s p F G).
  - intros o s' out H. exact (step_first_mono s o s' out H F).
Qed.

(** Once the connection is closed (terminal outcome) nothing queued behind is handled:
    handlePackets leaves its loop when closeErr is set, the run loop exits. *)
Lemma closed_stops ops1 : forall s s1 outs ops2,
  run s ops1 = (s1, outs) -> terminal (last outs ONone) = true ->
  run s (ops1 ++ ops2) = (s1, outs).
Proof.
  induction ops1 as [|o rs IH]; intros s s1 outs ops2 H T.
  - simpl in H. inversion H; subst. simpl in T. discriminate.
  - simpl app. rewrite run_cons in *. destruct (step s o) as [sa out] eqn:Hs.
    destruct (terminal out) eqn:Ht; [exact H|].
    destruct (run sa rs) as [sb ob] eqn:Hr. inversion H; subst.
    assert (T' : terminal (last ob ONone) = true).
    { destruct ob as [|x ob']; [simpl in T; congruence | exact T]. }
    rewrite (IH sa s1 ob ops2 Hr T'). reflexivity.
Qed.

(** A connection created after a version negotiation never negotiates again. *)
Lemma negotiated_no_vn ops : forall s s' outs, verNeg s = true -> run s ops = (s', outs) ->
  forall o, In o outs -> (forall v, o <> ORecreate v) /\ o <> OVNError.
Proof.
  induction ops as [|o rs IH]; intros s s' outs N H x Hx.
  - simpl in H. inversion H; subst. contradiction.
  - rewrite run_cons in H. destruct (step s o) as [s1 out] eqn:Hs.
    assert (G : (forall v, out <> ORecreate v) /\ out <> OVNError).
    { clear IH H. revert Hs. step_cases o; try (split; [intros v|]; discriminate);
        rewrite N in *; rewrite ?orb_true_r in *; simpl in *; try discriminate. }
    destruct (step_static _ _ _ _ Hs) as (_ & _ & _ & _ & N1). rewrite N in N1.
    destruct (terminal out).
    + inversion H; subst. destruct Hx as [<-|[]]. exact G.
    + destruct (run s1 rs) as [s2 o2] eqn:Hr. inversion H; subst.
      destruct Hx as [<-|Hx]; [exact G|]. eapply IH; eauto.
Qed.

End WithTag.

(** ---- the handshake deadline ---- *)

Lemma handshake_timeout_factor : caHandshakeTimeoutFactor = 2.
Proof. reflexivity. Qed.

Lemma hs_deadline_le t : hs_deadline t <= creation t + 2 * hsIdle t.
Proof.
  unfold hs_deadline, handshake_timeout. rewrite handshake_timeout_factor.
  destruct (Z.ltb_spec (idle_start t + hsIdle t) (creation t + 2 * hsIdle t)); lia.
Qed.

Definition closes (o : tout) : Prop := o = THandshakeTimeout \/ o = TIdleTimeout.

Lemma timeout_no_keepalive t now :
  next_keepalive t = 0 -> hs_deadline t <= now -> closes (snd (timeout_branch t now)).
Proof.
  unfold timeout_branch, hs_deadline, closes. intros K D. rewrite K. simpl.
  destruct (Z.leb_spec (handshake_timeout t) (now - creation t)); simpl; auto.
  destruct (Z.leb_spec (hsIdle t) (now - idle_start t)); simpl; auto.
  exfalso. destruct (Z.ltb_spec (idle_start t + hsIdle t) (creation t + handshake_timeout t)); lia.
Qed.

(** A wake-up at or after the deadline closes the connection, at the latest on the second pass
    (a due keep-alive is served first, once). *)
Lemma handshake_deadline t now now' :
  hs_deadline t <= now -> now <= now' ->
  let '(t1, o1) := timeout_branch t now in
  closes o1 \/ (o1 = TKeepAlive /\ hs_deadline t1 = hs_deadline t /\ closes (snd (timeout_branch t1 now'))).
Proof.
  intros D L. destruct (timeout_branch t now) as [t1 o1] eqn:E.
  unfold timeout_branch in E.
  destruct (negb (next_keepalive t =? 0) && (next_keepalive t <=? now)) eqn:K.
  - inversion E; subst. right. split; auto.
    assert (H1 : hs_deadline (mkT (creation t) (lastRcv t) (firstAE t) (hsIdle t) (kaPeriod t) true (kaInterval t)) = hs_deadline t)
      by reflexivity.
    split; auto. apply timeout_no_keepalive; [|lia].
    unfold next_keepalive. simpl. rewrite orb_true_r. reflexivity.
  - left. clear K.
    unfold closes, hs_deadline in *.
    destruct (Z.leb_spec (handshake_timeout t) (now - creation t)); [inversion E; auto|].
    destruct (Z.leb_spec (hsIdle t) (now - idle_start t)); [inversion E; auto|].
    exfalso. destruct (Z.ltb_spec (idle_start t + hsIdle t) (creation t + handshake_timeout t)); lia.
Qed.

Lemma handshake_deadline_full t now now' :
  hs_deadline t <= creation t + 2 * hsIdle t /\
  (hs_deadline t <= now -> now <= now' ->
   let '(t1, o1) := timeout_branch t now in
   closes o1 \/ (o1 = TKeepAlive /\ hs_deadline t1 = hs_deadline t /\ closes (snd (timeout_branch t1 now')))).
Proof. split; [exact (hs_deadline_le t) | exact (handshake_deadline t now now')]. Qed.
