(** Correspondence glue for the unit ConnAccept: what harness/drv/connaccept.go prints. *)
From Coq Require Import List ZArith Bool String.
From V Require Import Gen.Params Lib.Hex.
From V Require Export ConnAccept.Model.
Import ListNotations.
Open Scope Z_scope.

Inductive cpkt :=
| CBad (unsupported : bool)
| CVN (parse_ok : bool) (vers : list Z)
| CRetry (ver : Z) (scid tok body tag : string)
| CLong (ty : ptype) (ver : Z) (scid keycid : string) (pn : Z) (pl : payload).

Inductive cop :=
| COpPkt (p : cpkt)
| COpTP (iscid odcid : string) (rscid : option string)
| COpDrop.

(** Observed decision state after a step. *)
Inductive cobs :=
| Obs (ver : Z) (first retry verneg : bool) (hs orig : string) (rscid : option string) (dc tok : string) (nundec : Z).

(** one step: the op, the Retry-tag oracle (the original DCID the harness used and the tag
    handshake.GetRetryIntegrityTag returned for it), the implementation's outcome and state *)
Inductive cstep := St (o : cop) (okey otag : string) (out : outcome) (ob : cobs).

Inductive cinit :=
| CClient (ver : Z) (vers : list Z) (negotiated : bool) (dcid tok : string)
| CServer (ver : Z) (vers : list Z) (clientDCID peerSCID : string).

Inductive case :=
| CaseSeq (i : cinit) (ob0 : cobs) (steps : list cstep)
| CaseBatch (i : cinit) (ob0 : cobs) (steps : list cstep) (final : cobs) (remaining : Z)
    (* the same datagrams queued together and worked off by one handlePackets call: final state and
       number of datagrams left in the queue (per-step outcomes/states of [steps] are not compared) *)
| CaseTrace (i : cinit) (steps : list cstep) (ver : Z) (first retry verneg : bool) (hs orig : string) (rscid : option string)
    (* one client connection of a simulated handshake (unit hstrace): the pre-authentication events it logged, turned
       into ops, with the outcome of each, and the decision state the connection ended in (the [cobs] of the steps
       are not used: intermediate states are not observable in a running connection) *)
| CaseTimer (creation lastRcv firstAE hsIdle kaPeriod : Z) (kaSent : bool) (kaInterval closeAt : Z) (kind : tout).

Definition to_pkt (p : cpkt) : pkt :=
  match p with
  | CBad b => PBad b
  | CVN ok vs => PVN ok vs
  | CRetry ver scid tok body tag => PRetry ver (hx scid) (hx tok) (hx body) (hx tag)
  | CLong ty ver scid key pn pl => PLong ty ver (hx scid) (hx key) pn pl
  end.

Definition to_op (o : cop) : op :=
  match o with
  | COpPkt p => OpPkt (to_pkt p)
  | COpTP i od r => OpTP (hx i) (hx od) (option_map hx r)
  | COpDrop => OpDropInitial
  end.

Definition to_init (i : cinit) : state :=
  match i with
  | CClient ver vers neg dc tok => init_client ver vers neg (hx dc) (hx tok)
  | CServer ver vers cd ps => init_server ver vers (hx cd) (hx ps)
  end.

(** The tag function of one step: defined only on the key the harness computed the oracle for. *)
Definition oracle_tagf (okey otag : list Z) : cid -> list Z -> Z -> list Z :=
  fun od _ _ => if cid_eqb od okey then otag else [].

Definition drop_eqb (a b : drop) : bool :=
  match a, b with
  | DUnexpectedPacket, DUnexpectedPacket | DUnknownCID, DUnknownCID | DDecryptErr, DDecryptErr
  | DUnexpectedVersion, DUnexpectedVersion | DUnsupportedVersion, DUnsupportedVersion | DHeaderParse, DHeaderParse
  | DKeyUnavailable, DKeyUnavailable | DDuplicate, DDuplicate | DDosPrevention, DDosPrevention | DSilent, DSilent => true
  | _, _ => false
  end.

Definition outcome_eqb (a b : outcome) : bool :=
  match a, b with
  | ODropped x, ODropped y => true   (* the qlog trigger is reported (model_obs) but never declares a mismatch *)
  | OBuffered, OBuffered | OProcessed, OProcessed | ORetryAccepted, ORetryAccepted | OVNError, OVNError
  | ORemoteClose, ORemoteClose | OTPOk, OTPOk | OTPError, OTPError | ONone, ONone => true
  | ORecreate v, ORecreate w => v =? w
  | _, _ => false
  end.

Definition obs_ok (s : state) (ob : cobs) : bool :=
  match ob with
  | Obs ver first retry verneg hs orig rscid dc tok nundec =>
      (version s =? ver) && Bool.eqb (rcvFirst s) first && Bool.eqb (rcvRetry s) retry && Bool.eqb (verNeg s) verneg &&
      cid_eqb (hsDCID s) (hx hs) && cid_eqb (origDCID s) (hx orig) && opt_cid_eqb (retrySCID s) (option_map hx rscid) &&
      cid_eqb (dcid s) (hx dc) && zeqb_list (token s) (hx tok) && (nUndec s =? nundec)
  end.

(** model outcome/state of one step *)
Definition model_step (s : state) (st : cstep) : state * outcome :=
  match st with St o okey otag _ _ => step (oracle_tagf (hx okey) (hx otag)) s (to_op o) end.

Fixpoint check_steps (s : state) (l : list cstep) : bool :=
  match l with
  | [] => true
  | (St _ _ _ out ob as st) :: r =>
      let '(s1, mo) := model_step s st in
      outcome_eqb mo out && obs_ok s1 ob &&
      (if terminal mo then match r with [] => true | _ => false end else check_steps s1 r)
  end.

Definition tout_eqb (a b : tout) : bool :=
  match a, b with
  | TKeepAlive, TKeepAlive | THandshakeTimeout, THandshakeTimeout | TIdleTimeout, TIdleTimeout | TContinue, TContinue => true
  | _, _ => false
  end.

Definition mkTimer (creation lastRcv firstAE hsIdle kaPeriod : Z) (kaSent : bool) (kaInterval : Z) : tstate :=
  mkT creation lastRcv firstAE hsIdle kaPeriod kaSent kaInterval.

(** What the model says about a case (for the replay file). *)
Inductive obs :=
| ObsSeq (l : list (outcome * state))
| ObsTimer (deadline : Z) (k : tout).

Fixpoint model_steps (s : state) (l : list cstep) : list (outcome * state) :=
  match l with
  | [] => []
  | st :: r => let '(s1, mo) := model_step s st in (mo, s1) :: (if terminal mo then [] else model_steps s1 r)
  end.

Definition last_state (s0 : state) (l : list (outcome * state)) : state :=
  match rev l with (_, s) :: _ => s | [] => s0 end.

Definition model_obs (c : case) : obs :=
  match c with
  | CaseSeq i _ steps => ObsSeq (model_steps (to_init i) steps)
  | CaseBatch i _ steps _ _ => ObsSeq (model_steps (to_init i) steps)
  | CaseTrace i steps _ _ _ _ _ _ _ => ObsSeq (model_steps (to_init i) steps)
  | CaseTimer cr lr fa hi kp ks ki closeAt _ =>
      let t := mkTimer cr lr fa hi kp ks ki in ObsTimer (hs_deadline t) (snd (timeout_branch t closeAt))
  end.

Definition check_case (c : case) : bool :=
  match c with
  | CaseSeq i ob0 steps => obs_ok (to_init i) ob0 && check_steps (to_init i) steps
  | CaseTrace i steps ver first retry verneg hs orig rscid =>
      let ms := model_steps (to_init i) steps in
      let s' := last_state (to_init i) ms in
      (* same number of steps handled (the model stops where the connection stopped), same outcome of each,
         same decision state at the end *)
      (Nat.eqb (List.length ms) (List.length steps)) &&
      forallb (fun p => outcome_eqb (fst (fst p)) (match snd p with St _ _ _ out _ => out end)) (combine ms steps) &&
      (version s' =? ver) && Bool.eqb (rcvFirst s') first && Bool.eqb (rcvRetry s') retry && Bool.eqb (verNeg s') verneg &&
      cid_eqb (hsDCID s') (hx hs) && cid_eqb (origDCID s') (hx orig) && opt_cid_eqb (retrySCID s') (option_map hx rscid)
  | CaseBatch i ob0 steps final remaining =>
      let ms := model_steps (to_init i) steps in
      obs_ok (to_init i) ob0 && obs_ok (last_state (to_init i) ms) final &&
      (Z.of_nat (List.length steps) - Z.of_nat (List.length ms) =? remaining)
  | CaseTimer cr lr fa hi kp ks ki closeAt kind =>
      let t := mkTimer cr lr fa hi kp ks ki in
      (* the run loop gave up exactly at the model's deadline, through the model's branch *)
      (hs_deadline t =? closeAt) && tout_eqb (snd (timeout_branch t closeAt)) kind
  end.
