(** Soundness of the executable invariant checker: [inv_ok S s = true -> Inv S s]. *)
From Coq Require Import List ZArith Lia Bool.
From V Require Import Gen.Params Lib.Hex FrameSorter.Model FrameSorter.InvCheck FrameSorter.ProofsBase.
Import ListNotations.
Open Scope Z_scope.

Lemma gsortedb_sound lo gs : gsortedb lo gs = true -> gsorted lo gs.
Proof.
  revert lo; induction gs as [|[s e] r IH]; simpl; intros lo H; [exact I|].
  apply andb_prop in H as [H H3]. apply andb_prop in H as [H1 H2].
  repeat split; [lia|lia|auto].
Qed.

Lemma lastb_sound gs : lastb gs = true -> exists pre sl, gs = pre ++ [(sl, MaxBC)].
Proof.
  unfold lastb. intros H. destruct (rev gs) as [|[s e] r] eqn:E; [discriminate|].
  apply Z.eqb_eq in H. subst e. exists (rev r), s.
  rewrite <- (rev_involutive gs), E. reflexivity.
Qed.

Lemma memZ_In k l : memZ k l = true <-> In k l.
Proof.
  induction l as [|x r IH]; simpl; [split; [discriminate|tauto]|].
  rewrite orb_true_iff, IH, Z.eqb_eq. tauto.
Qed.
Lemma nodupZ_sound l : nodupZ l = true -> NoDup l.
Proof.
  induction l as [|x r IH]; simpl; intros H; [constructor|].
  apply andb_prop in H as [H1 H2]. constructor; [|auto].
  intros Hin. apply memZ_In in Hin. rewrite Hin in H1. discriminate.
Qed.

Lemma tileb_sound fuel Q p t : tileb fuel Q p t = true ->
  p <= t /\ forall x, p <= x < t -> cov Q x.
Proof.
  revert p; induction fuel as [|fuel IH]; simpl; intros p H; [discriminate|].
  destruct (Z.eqb_spec p t); [split; [lia|intros; lia]|].
  destruct (qget Q p) as [en|] eqn:E; [|discriminate].
  apply andb_prop in H as [H H3]. apply andb_prop in H as [H1 H2].
  apply IH in H3. destruct H3 as [Hle Hc].
  split; [lia|]. intros x Hx.
  destruct (Z.lt_ge_cases x (p + elen en)).
  - exists p, en. split; [apply qget_In; auto|lia].
  - apply Hc. lia.
Qed.

Lemma blocksb_sound Q gs : forall p M,
  (exists pre sl, gs = pre ++ [(sl, M)]) -> blocksb Q p gs = true ->
  forall x, p <= x < M -> ing gs x \/ cov Q x.
Proof.
  induction gs as [|[s e] r IH]; intros p M (pre&sl&Hd) H x Hx.
  - destruct pre; discriminate.
  - cbn [blocksb] in H. apply andb_prop in H as [H1 H2]. apply tileb_sound in H1 as [Hps Hc].
    destruct (Z.lt_ge_cases x s); [right; apply Hc; lia|].
    destruct (Z.lt_ge_cases x e); [left; apply ing_cons; left; lia|].
    destruct pre as [|g pre].
    + simpl in Hd. inversion Hd; subst. lia.
    + simpl in Hd. inversion Hd; subst.
      destruct (IH e M) with (x := x) as [Hg|Hq]; eauto; [lia|].
      left. apply ing_cons. auto.
Qed.

Theorem inv_ok_sound S s : inv_ok S s = true -> Inv S s.
Proof.
  unfold inv_ok. intros H.
  apply andb_prop in H as [H B7]. apply andb_prop in H as [H B6]. apply andb_prop in H as [H B5].
  apply andb_prop in H as [H B4]. apply andb_prop in H as [H B3]. apply andb_prop in H as [H B2].
  apply andb_prop in H as [B0 B1].
  pose proof (lastb_sound _ B2) as Hlast.
  rewrite forallb_forall in B4, B5, B6.
  constructor.
  - lia.
  - apply gsortedb_sound; auto.
  - exact Hlast.
  - apply nodupZ_sound; auto.
  - intros k en Hin. specialize (B4 _ Hin). unfold entry_ok in B4.
    apply andb_prop in B4 as [B4 D3]. apply andb_prop in B4 as [B4 D2]. apply andb_prop in B4 as [D0 D1].
    apply zeqb_list_eq in D3. repeat split; try lia. exact D3.
  - intros k1 e1 k2 e2 H1 H2 L1 L2.
    specialize (B5 _ H1). rewrite forallb_forall in B5. specialize (B5 _ H2).
    unfold disj_ok in B5. lia.
  - destruct Hlast as (pre&sl&Hl). intros x Hx. eapply blocksb_sound; eauto.
  - intros x (gs&ge&Hg&Hx) (k&en&Hk&Hkx).
    specialize (B6 _ Hk). unfold nogap_ok in B6. rewrite forallb_forall in B6.
    specialize (B6 _ Hg). simpl in B6. lia.
Qed.
