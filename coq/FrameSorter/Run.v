(** Correspondence glue for the frame sorter unit: a case is what harness/drv/framesorter.go logged. *)
From Coq Require Import List ZArith Bool String.
From V Require Import Gen.Params Lib.Hex FrameSorter.Model FrameSorter.InvCheck.
Import ListNotations.
Open Scope Z_scope.

Inductive op :=
| OPush (off n cb : Z)          (* data = S[off, off+n); cb = -1: nil doneCb *)
| OPop
| OPeek (off n : Z)
| OHasMore.

Inductive obs :=
| RPush (err gapcount : Z) (firedNow : list Z)  (* err: 0 nil, 1 too many gaps, 9 other *)
| RPop (off n hash cb : Z)                      (* cb = -1: nil *)
| RPeek (err hash : Z)                          (* err: 0 nil, 1 errTooLittleData *)
| RHasMore (b : bool)
| RBug.

Inductive case :=
| SorterCase (ops : list (op * obs))
| GapCase (stride firstErr gapcount : Z).

Definition bhash (d : list Z) : Z := fold_left (fun h b => (h * 31 + b) mod 4294967296) d 7.

Definition cbopt (cb : Z) : option Z := if cb <? 0 then None else Some cb.
Definition optcb (cb : option Z) : Z := match cb with Some c => c | None => -1 end.

Definition step (s : st) (o : op) : st * obs :=
  match o with
  | OPush off n cb =>
    let '(s', r) := Push s (slice sbyte off n) off (cbopt cb) in
    let nf := skipn (List.length (fired s)) (fired s') in
    (s', match r with
         | Ok => RPush 0 (zlen (gaps s')) nf
         | TooManyGaps => RPush 1 (zlen (gaps s')) nf
         | _ => RBug end)
  | OPop =>
    let '(s', (off, d, cb), bug) := Pop s in
    if bug then (s', RBug) else
    (* the harness calls the returned callback at once *)
    ({| gaps := gaps s'; queue := queue s'; readPos := readPos s'; fired := fire (fired s') cb |},
     RPop off (len d) (bhash d) (optcb cb))
  | OPeek off n =>
    (s, match Peek s off n with Some d => RPeek 0 (bhash d) | None => RPeek 1 0 end)
  | OHasMore => (s, RHasMore (HasMoreData s))
  end.

Definition obs_eqb (a b : obs) : bool :=
  match a, b with
  | RPush e g f, RPush e' g' f' => (e =? e') && (g =? g') && zeqb_list f f'
  | RPop o n h c, RPop o' n' h' c' => (o =? o') && (n =? n') && (h =? h') && (c =? c')
  | RPeek e h, RPeek e' h' => (e =? e') && (h =? h')
  | RHasMore b, RHasMore b' => Bool.eqb b b'
  | _, _ => false
  end.

(* runs the ops; every observable must agree and the executable invariant checker must
   accept every state reached by a step that did not return the gap-limit error *)
Fixpoint run (s : st) (l : list (op * obs)) : bool :=
  match l with
  | [] => true
  | (o, want) :: r =>
    let '(s', got) := step s o in
    obs_eqb got want &&
    (match got with RPush 1 _ _ => true | _ => inv_ok sbyte s' end) &&
    run s' r
  end.

Fixpoint run_obs (s : st) (l : list (op * obs)) : list obs :=
  match l with
  | [] => []
  | (o, _) :: r => let '(s', got) := step s o in got :: run_obs s' r
  end.

(* gap limit: pushes of one byte at offsets stride*i, i = 1, 2, ...; index of the first
   refused push (or -1) and the gap count at that point *)
Fixpoint gaprun (fuel : nat) (s : st) (stride i : Z) : Z * Z :=
  match fuel with
  | O => (-1, zlen (gaps s))
  | S fuel' =>
    let '(s', r) := Push s [sbyte (stride * i)] (stride * i) None in
    match r with
    | Ok => gaprun fuel' s' stride (i + 1)
    | _ => (i, zlen (gaps s'))
    end
  end.

Definition model_obs (c : case) : list obs + (Z * Z) :=
  match c with
  | SorterCase l => inl (run_obs init l)
  | GapCase stride _ _ => inr (gaprun 1100 init stride 1)
  end.

Definition check_case (c : case) : bool :=
  match c with
  | SorterCase l => inv_ok sbyte init && run init l
  | GapCase stride fe gc =>
    let '(fe', gc') := gaprun 1100 init stride 1 in (fe =? fe') && (gc =? gc')
  end.
