(** Model of /repo/frame_sorter.go (frameSorter.push / Push / Pop / Peek / HasMoreData).
    Transliteration of the Go control flow: explicit gap list (the linked list), queue as
    an association list keyed by offset (the Go map), readPos, and a log of fired doneCb ids.
    Executable definitions only. *)
From Coq Require Import List ZArith Lia Bool.
From V Require Import Gen.Params.
Import ListNotations.
Open Scope Z_scope.

Record entry := { e_data : list Z; e_cb : option Z (* callback id *) }.
Record st := { gaps : list (Z * Z); queue : list (Z * entry); readPos : Z;
               fired : list Z (* callback ids in firing order *) }.

Definition MaxBC : Z := FS_MaxByteCount.
Definition MinBuf : Z := FS_MinStreamFrameBufferSize.
Definition MaxGaps : Z := FS_MaxStreamFrameSorterGaps.

Definition init : st := {| gaps := [(0, MaxBC)]; queue := []; readPos := 0; fired := [] |}.

Fixpoint qget (q : list (Z * entry)) (k : Z) : option entry :=
  match q with [] => None | (k', e) :: r => if k' =? k then Some e else qget r k end.
Fixpoint qdel (q : list (Z * entry)) (k : Z) : list (Z * entry) :=
  match q with [] => [] | (k', e) :: r => if k' =? k then r else (k', e) :: qdel r k end.
Definition qset (q : list (Z * entry)) (k : Z) (e : entry) := (k, e) :: qdel q k.

Definition fire (f : list Z) (cb : option Z) := match cb with Some c => f ++ [c] | None => f end.

Definition len (d : list Z) := Z.of_nat (length d).
Definition dskip (n : Z) (d : list Z) := skipn (Z.to_nat n) d.
Definition dtake (n : Z) (d : list Z) := firstn (Z.to_nat n) d.

(* findStartGap: index of the start gap, startsInGap *)
Fixpoint findStartGap (gs : list (Z * Z)) (i : nat) (off : Z) : option (nat * bool) :=
  match gs with
  | [] => None
  | (s, e) :: r => if (s <=? off) && (off <=? e) then Some (i, true)
                   else if off <? s then Some (i, false) else findStartGap r (S i) off
  end.
(* findEndGap: gs is the list starting AT the start gap; i its index. gap.Prev() = pred i *)
Fixpoint findEndGap (gs : list (Z * Z)) (i : nat) (off : Z) : option (nat * bool) :=
  match gs with
  | [] => None
  | (s, e) :: r => if (s <=? off) && (off <? e) then Some (i, true)
                   else if off <? s then Some (pred i, false) else findEndGap r (S i) off
  end.

Definition gnth (gs : list (Z*Z)) (i : nat) := nth i gs (0, 0).
Fixpoint gupd (gs : list (Z*Z)) (i : nat) (v : Z*Z) : list (Z*Z) :=
  match gs, i with [], _ => [] | _ :: r, O => v :: r | g :: r, S i' => g :: gupd r i' v end.
Fixpoint gdel (gs : list (Z*Z)) (i : nat) : list (Z*Z) :=
  match gs, i with [], _ => [] | _ :: r, O => r | g :: r, S i' => g :: gdel r i' end.
Fixpoint gins_after (gs : list (Z*Z)) (i : nat) (v : Z*Z) : list (Z*Z) :=
  match gs, i with [], _ => [v] | g :: r, O => g :: v :: r | g :: r, S i' => g :: gins_after r i' v end.

(* the replace loop of push. Result code: 0 = left the loop with no entry at pos,
   1 = errDuplicateStreamData, 2 = new frame cut at pos *)
Fixpoint replLoop (fuel : nat) (q : list (Z*entry)) (f : list Z) (pos endp : Z) (replaced : bool)
  : list (Z*entry) * list Z * Z * bool * Z :=
  match fuel with
  | O => (q, f, pos, replaced, 3)
  | S fuel' =>
    match qget q pos with
    | None => (q, f, pos, replaced, 0)
    | Some old =>
      let ol := len (e_data old) in
      if (ol <? endp - pos) || (replaced && (endp - pos =? ol))
      then replLoop fuel' (qdel q pos) (fire f (e_cb old)) (pos + ol) endp true
      else if negb replaced then (q, f, pos, replaced, 1) else (q, f, pos, replaced, 2)
    end
  end.

(* deleteConsecutive *)
Fixpoint delConsec (fuel : nat) (q : list (Z*entry)) (f : list Z) (pos : Z) : list (Z*entry) * list Z :=
  match fuel with
  | O => (q, f)
  | S fuel' => match qget q pos with
               | None => (q, f)
               | Some old => delConsec fuel' (qdel q pos) (fire f (e_cb old)) (pos + len (e_data old))
               end
  end.

(* the loop over the gaps between start gap and end gap: at index i of the current list *)
Fixpoint midLoop (fuel : nat) (gs : list (Z*Z)) (i : nat) (endGapStart : Z) (q : list (Z*entry)) (f : list Z)
  : list (Z*Z) * list (Z*entry) * list Z :=
  match fuel with
  | O => (gs, q, f)
  | S fuel' =>
    let g := gnth gs i in
    if snd g <? endGapStart then
      let '(q', f') := delConsec (S (length q)) q f (snd g) in
      midLoop fuel' (gdel gs i) i endGapStart q' f'
    else (gs, q, f)
  end.

Inductive res := Ok | Dup | TooManyGaps | Bug.

Definition push (s : st) (data : list Z) (offset : Z) (cb : option Z) : st * res :=
  if len data =? 0 then (s, Dup) else
  let start := offset in let endp := offset + len data in
  let gs := gaps s in
  if endp <=? fst (gnth gs 0) then (s, Dup) else
  match findStartGap gs 0 start with None => (s, Bug) | Some (sgi, startsInGap) =>
  match findEndGap (skipn sgi gs) sgi endp with None => (s, Bug) | Some (egi, endsInGap) =>
  let sg := gnth gs sgi in let eg := gnth gs egi in
  let same := Nat.eqb sgi egi in
  if (same && (endp <=? fst sg)) || (negb same && (fst eg <=? snd sg) && (endp <=? fst sg)) then (s, Dup) else
  let startGapEnd := snd sg in let endGapStart := fst eg in let endGapEnd := snd eg in
  let '(q1, f1, pos, replaced, r) := replLoop (S (length (queue s))) (queue s) (fired s) start endp false in
  if r =? 3 then (s, Bug) else
  if r =? 1 then (s, Dup) else
  let '(data1, endp1, wasCut1) := if r =? 2 then (dtake (pos - start) data, pos, true) else (data, endp, false) in
  (* cut at start *)
  let '(data2, start2, wasCut2) :=
      if negb startsInGap && negb replaced then (dskip (fst sg - start) data1, fst sg, true) else (data1, start, wasCut1) in
  (* adjust start gap; sgRemoved tracks the index shift *)
  let '(gs3, adjustedStartGapEnd, sgRemoved) :=
      if start2 <=? fst sg then
        if snd sg <=? endp1 then (gdel gs sgi, false, true)
        else (gupd gs sgi (endp1, snd sg), false, false)
      else if negb replaced then (gupd gs sgi (fst sg, start2), true, false)
      else (gs, false, false) in
  (* index of startGapNext in the current list *)
  let nexti := if sgRemoved then sgi else S sgi in
  let '(gs4, q4, f4) :=
      if negb same then
        let '(qa, fa) := delConsec (S (length q1)) q1 f1 startGapEnd in
        midLoop (S (length gs3)) gs3 nexti endGapStart qa fa
      else (gs3, q1, f1) in
  (* after the middle loop the end gap (if distinct) sits at index nexti *)
  let egi' := if same then sgi else nexti in
  let '(data5, endp5, wasCut5) :=
      if negb endsInGap && negb (start2 =? endGapEnd) && (endGapEnd <? endp1)
      then (dtake (endGapEnd - start2) data2, endGapEnd, true) else (data2, endp1, wasCut2) in
  let gs6 :=
      if endp5 =? endGapEnd then (if negb same then gdel gs4 egi' else gs4)
      else if same && adjustedStartGapEnd then gins_after gs4 sgi (endp5, startGapEnd)
      else if negb same then gupd gs4 egi' (endp5, endGapEnd) else gs4 in
  let '(cb7, f7) := if wasCut5 && (len data5 <? MinBuf) then (None, fire f4 cb) else (cb, f4) in
  if MaxGaps <? Z.of_nat (length gs6) then ({| gaps := gs6; queue := q4; readPos := readPos s; fired := f7 |}, TooManyGaps) else
  ({| gaps := gs6; queue := qset q4 start2 {| e_data := data5; e_cb := cb7 |}; readPos := readPos s; fired := f7 |}, Ok)
  end end.

(* Push: the exported wrapper; errDuplicateStreamData fires doneCb and returns nil *)
Definition Push (s : st) (data : list Z) (offset : Z) (cb : option Z) : st * res :=
  let '(s', r) := push s data offset cb in
  match r with
  | Dup => ({| gaps := gaps s'; queue := queue s'; readPos := readPos s'; fired := fire (fired s') cb |}, Ok)
  | _ => (s', r)
  end.

(* Pop. The third component of the result is true when the code would reach
   panic("frame sorter BUG: read position higher than a gap"). *)
Definition Pop (s : st) : st * (Z * list Z * option Z) * bool :=
  match qget (queue s) (readPos s) with
  | None => (s, (readPos s, [], None), false)
  | Some e =>
    let rp := readPos s + len (e_data e) in
    ({| gaps := gaps s; queue := qdel (queue s) (readPos s); readPos := rp; fired := fired s |},
     (readPos s, e_data e, e_cb e), snd (gnth (gaps s) 0) <=? rp)
  end.

Definition HasMoreData (s : st) : bool := match queue s with [] => false | _ => true end.

(* Peek: first loop (enough consecutive data?), second loop (copy) *)
Fixpoint peekCheck (fuel : nat) (q : list (Z*entry)) (pos remaining : Z) : bool :=
  match fuel with
  | O => false
  | S fuel' =>
    if remaining <=? 0 then true else
    match qget q pos with
    | None => false
    | Some e => let l := len (e_data e) in
                if remaining <=? l then true else peekCheck fuel' q (pos + l) (remaining - l)
    end
  end.
Fixpoint peekCopy (fuel : nat) (q : list (Z*entry)) (pos remaining : Z) : list Z :=
  match fuel with
  | O => []
  | S fuel' =>
    if remaining <=? 0 then [] else
    match qget q pos with
    | None => []
    | Some e => let l := len (e_data e) in
                dtake remaining (e_data e) ++ peekCopy fuel' q (pos + l) (remaining - l)
    end
  end.
(* None = errTooLittleData *)
Definition Peek (s : st) (offset n : Z) : option (list Z) :=
  if n <=? 0 then Some [] else
  let fuel := S (length (queue s)) in
  if peekCheck fuel (queue s) offset n then Some (peekCopy fuel (queue s) offset n) else None.

(** The byte string of the correspondence runs: a fixed function of the absolute offset
    (the theorems quantify over an arbitrary [S : Z -> Z]). *)
Definition sbyte (x : Z) : Z := ((x mod 256) * 37 + ((x / 256) mod 256) * 101 + 7) mod 256.
Fixpoint slice_from (S : Z -> Z) (a : Z) (n : nat) : list Z :=
  match n with O => [] | Datatypes.S n' => S a :: slice_from S (a + 1) n' end.
Definition slice (S : Z -> Z) (a n : Z) : list Z := slice_from S a (Z.to_nat n).
