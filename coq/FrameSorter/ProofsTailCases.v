(** The tail of push in each configuration of start gap / end gap. *)
From Coq Require Import List ZArith Lia Bool Permutation.
From V Require Import Gen.Params Lib.Hex FrameSorter.Model FrameSorter.InvCheck FrameSorter.Spec FrameSorter.ProofsBase
  FrameSorter.ProofsLoops FrameSorter.ProofsFind FrameSorter.ProofsPop FrameSorter.ProofsInv
  FrameSorter.ProofsReinsert FrameSorter.ProofsTail.
Import ListNotations.
Open Scope Z_scope.

Section WithS.
Variable S : Z -> Z.

Lemma finish_spec rp G' q4 f4 a' data5 wc cb :
  exists cb7 f7, ((cb7 = None /\ f7 = fire f4 cb) \/ (cb7 = cb /\ f7 = f4)) /\
    finish rp G' q4 f4 a' data5 wc cb =
      if MaxGaps <? Z.of_nat (length G')
      then ({| gaps := G'; queue := q4; readPos := rp; fired := f7 |}, TooManyGaps)
      else ({| gaps := G'; queue := qset q4 a' {| e_data := data5; e_cb := cb7 |};
               readPos := rp; fired := f7 |}, Ok).
Proof.
  unfold finish. destruct (wc && (len data5 <? MinBuf)).
  - exists None, (fire f4 cb). split; auto.
  - exists cb, f4. split; auto.
Qed.

Lemma endCut_in a' endp1 d data2 wc : endCut true a' endp1 d data2 wc = (data2, endp1, wc).
Proof. reflexivity. Qed.

Lemma endCut_out a' endp1 d wc : a' < d <= endp1 ->
  exists wc5, endCut false a' endp1 d (slice S a' (endp1 - a')) wc = (slice S a' (d - a'), d, wc5).
Proof.
  intros H. unfold endCut. cbn [negb andb].
  destruct (Z.eqb_spec a' d); [lia|]. cbn [negb andb].
  destruct (Z.ltb_spec d endp1).
  - exists true. rewrite dtake_slice by lia. reflexivity.
  - exists wc. replace endp1 with d by lia. reflexivity.
Qed.

(* no end cut when the frame starts at the end of the (single) gap *)
Lemma endCut_at_end e1 endp1 data2 wc : endCut false e1 endp1 e1 data2 wc = (data2, endp1, wc).
Proof. unfold endCut. rewrite Z.eqb_refl. reflexivity. Qed.

(** start gap adjustment when the frame reaches beyond the start gap *)
Lemma startAdj_beyond A s1 e1 R a' endp1 replaced :
  e1 <= endp1 -> a' <= e1 ->
  (a' <= s1 \/ replaced = false \/ (replaced = true /\ a' = e1)) ->
  exists adj rem,
    startAdj (A ++ (s1, e1) :: R) (length A) (s1, e1) a' endp1 replaced = (A ++ Lgap s1 a' ++ R, adj, rem) /\
    (if rem then length A else Datatypes.S (length A)) = length (A ++ Lgap s1 a').
Proof.
  intros H1 H2 H3. unfold startAdj, Lgap. cbn [fst snd].
  destruct (Z.leb_spec a' s1).
  - destruct (Z.leb_spec e1 endp1); [|lia]. destruct (Z.ltb_spec s1 a'); [lia|].
    exists false, true. rewrite gdel_app. simpl. rewrite app_nil_r. auto.
  - destruct (Z.ltb_spec s1 a'); [|lia].
    destruct H3 as [H3|[H3|[H3 H4]]]; [lia|subst replaced|subst replaced].
    + cbn [negb]. exists true, false. rewrite gupd_app. rewrite app_length. simpl. split; [reflexivity|lia].
    + cbn [negb]. subst a'. exists false, false. rewrite app_length. simpl. split; [reflexivity|lia].
Qed.

(** start gap <> end gap *)
Lemma tail_diff s A s1 e1 M' c d B' egi endsInGap q1 f1 replaced data2 a' endp1 wasCut2 cb h :
  Inv S s ->
  gaps s = A ++ (s1, e1) :: M' ++ (c, d) :: B' ->
  egi = (length A + Datatypes.S (length M'))%nat ->
  readPos s <= a' -> a' <= e1 -> endp1 < MaxBC ->
  (forall u v, In (u, v) A -> v < a') ->
  (a' <= s1 \/ replaced = false \/ (replaced = true /\ a' = e1)) ->
  a' <= h -> h <= fst (hd (c, d) M') ->
  ((s1 <= h <= e1) \/ (a' = e1 /\ h = fst (hd (c, d) M'))) ->
  NoDup (map fst q1) -> (forall k e, In (k, e) q1 <-> In (k, e) (queue s) /\ ~ (a' <= k < h)) ->
  data2 = slice S a' (endp1 - a') ->
  ((endsInGap = true /\ c <= endp1 < d) \/
   (endsInGap = false /\ d <= endp1 /\ forall u v, In (u, v) B' -> endp1 < u)) ->
  TailOK S s a' endp1 cb q1 f1
    (tail2 (readPos s) (gaps s) (length A) egi endsInGap q1 f1 replaced data2 a' endp1 wasCut2 cb).
Proof.
  intros I Hg Hegi Hrp Hae Hmax HA Hrep Hah Hhg Hcls Hnd Hq1 Hd2 Hend.
  pose proof (i_sorted _ _ I) as Hs. rewrite Hg in Hs.
  pose proof (gsorted_mid _ _ _ _ _ Hs) as (M1&M2&M3&M4&M5&M6).
  pose proof (gsorted_mid _ _ _ _ _ M4) as (N1&N2&N3&N4&N5&N6).
  assert (Hgs1 : In (s1, e1) (gaps s)) by (rewrite Hg; apply in_or_app; right; simpl; auto).
  assert (Hgcd : In (c, d) (gaps s)).
  { rewrite Hg. apply in_or_app. right. right. apply in_or_app. right. simpl. auto. }
  assert (He1c : e1 < c) by lia.
  assert (Hcle : c <= endp1) by (destruct Hend as [(_&?)|(_&?&_)]; lia).
  assert (Hg1 : e1 < fst (hd (c, d) M')).
  { destruct M' as [|[m n] M'']; simpl in *; lia. }
  assert (Hgc : fst (hd (c, d) M') <= c).
  { destruct M' as [|[m n] M'']; simpl; [lia|].
    assert (In (m, n) ((m, n) :: M'')) by (simpl; auto). apply N5 in H. lia. }
  (* the pieces of the computation *)
  unfold tail2.
  assert (Hsg : gnth (gaps s) (length A) = (s1, e1)) by (rewrite Hg; apply gnth_app).
  assert (Heg : gnth (gaps s) egi = (c, d)).
  { rewrite Hg. change (A ++ (s1, e1) :: M' ++ (c, d) :: B') with (A ++ ((s1, e1) :: M') ++ (c, d) :: B').
    rewrite app_assoc. apply gnth_app'. rewrite app_length. simpl. lia. }
  rewrite Hsg, Heg. cbn [fst snd].
  assert (Hsame : Nat.eqb (length A) egi = false) by (apply Nat.eqb_neq; lia).
  rewrite Hsame. cbn [negb].
  destruct (startAdj_beyond A s1 e1 (M' ++ (c, d) :: B') a' endp1 replaced) as (adj&rem&E3&Enext); auto; [lia|].
  rewrite Hg at 1. rewrite E3. rewrite Enext.
  set (X := A ++ Lgap s1 a').
  replace (A ++ Lgap s1 a' ++ M' ++ (c, d) :: B') with (X ++ M' ++ (c, d) :: B') by (unfold X; rewrite <- app_assoc; reflexivity).
  (* between *)
  destruct (between_spec S s A s1 e1 M' c d B' X q1 f1 (Datatypes.S (length (X ++ M' ++ (c, d) :: B'))) I Hg)
    as (q4&f4&E4&Q4&Ag4&P4&L4).
  { split; [exact Hnd|split].
    - intros [k e] Hin. apply Hq1 in Hin. tauto.
    - intros k e Hk Hin. apply Hq1. split; auto. lia. }
  { destruct Hcls as [Hc|[Hc1 Hc2]].
    - left. split; [exact Hnd|split].
      + intros [k e] Hin. apply Hq1 in Hin. tauto.
      + intros k e Hk Hin. apply Hq1. split; auto. lia.
    - right. intros k e Hin. apply Hq1 in Hin. lia. }
  { rewrite !app_length. simpl. lia. }
  rewrite E4.
  (* facts about the queue *)
  assert (Hq4 : forall b', c <= b' <= d -> forall k e, In (k, e) q4 <-> In (k, e) (queue s) /\ ~ (a' <= k < b')).
  { intros b' Hb' k e. rewrite Q4, Hq1. split.
    - intros ((D1&D2)&D3). split; auto. intros D4.
      destruct (entry_gap_disj S s k e s1 e1 I D1 Hgs1); destruct (entry_gap_disj S s k e c d I D1 Hgcd);
        destruct (i_ent _ _ I _ _ D1) as (_&?&_); destruct Hcls as [?|[? ?]]; lia.
    - intros (D1&D2). split; [split; auto|]; lia. }
  destruct Ag4 as (Nd4&_&_).
  destruct Hend as [(->&He1)|(->&He1&He2)].
  - (* the frame ends inside the end gap *)
    rewrite endCut_in. unfold endAdj.
    destruct (Z.eqb_spec endp1 d); [lia|]. cbn [andb negb]. rewrite gupd_app.
    destruct (finish_spec (readPos s) (X ++ (endp1, d) :: B') q4 f4 a' data2 wasCut2 cb) as (cb7&f7&Hcb&Efin).
    rewrite Efin. clear Efin.
    destruct (surgery_diff (readPos s) A s1 e1 M' c d B' a' endp1 MaxBC Hs) as (G1&G2&G3); auto; try lia.
    { rewrite <- Hg. apply (i_last _ _ I). }
    { intros u v Hin. apply N6 in Hin. lia. }
    assert (EG : X ++ (endp1, d) :: B' = A ++ Lgap s1 a' ++ Rgap endp1 d ++ B').
    { unfold X, Rgap. destruct (Z.ltb_spec endp1 d); [|lia]. rewrite <- app_assoc. reflexivity. }
    rewrite EG. rewrite <- Hg in G3.
    exists endp1, (A ++ Lgap s1 a' ++ Rgap endp1 d ++ B'), q4, f4, cb7, f7.
    split; [lia|]. split; [intros; lia|]. split; [exact G1|]. split; [exact G2|]. split; [exact G3|].
    split; [exact Nd4|]. split; [apply Hq4; lia|].
    split; [left; exists c, d; split; auto|].
    split; [exact P4|]. split; [exact L4|]. split; [exact Hcb|].
    rewrite Hd2. reflexivity.
  - (* the frame ends in the data behind the end gap *)
    subst data2. destruct (endCut_out a' endp1 d wasCut2) as (wc5&Ecut); [lia|]. rewrite Ecut.
    unfold endAdj. rewrite Z.eqb_refl. cbn [negb]. rewrite gdel_app.
    destruct (finish_spec (readPos s) (X ++ B') q4 f4 a' (slice S a' (d - a')) wc5 cb) as (cb7&f7&Hcb&Efin).
    rewrite Efin. clear Efin.
    destruct (surgery_diff (readPos s) A s1 e1 M' c d B' a' d MaxBC Hs) as (G1&G2&G3); auto; try lia.
    { rewrite <- Hg. apply (i_last _ _ I). }
    { intros u v Hin. apply N6 in Hin. lia. }
    assert (EG : X ++ B' = A ++ Lgap s1 a' ++ Rgap d d ++ B').
    { unfold X, Rgap. rewrite Z.ltb_irrefl. rewrite <- app_assoc. reflexivity. }
    rewrite EG. rewrite <- Hg in G3.
    exists d, (A ++ Lgap s1 a' ++ Rgap d d ++ B'), q4, f4, cb7, f7.
    split; [lia|]. split.
    { intros x Hx. destruct (i_cov _ _ I x) as [(u&v&Hu&Hux)|Hc]; auto.
      - destruct (inv_gap_bound S s c d I Hgcd). lia.
      - exfalso. rewrite Hg in Hu. apply in_app_or in Hu. destruct Hu as [Hu|[Hu|Hu]].
        + apply M5 in Hu. lia.
        + inversion Hu; subst. lia.
        + apply in_app_or in Hu. destruct Hu as [Hu|[Hu|Hu]].
          * apply N5 in Hu. lia.
          * inversion Hu; subst. lia.
          * apply He2 in Hu. lia. }
    split; [exact G1|]. split; [exact G2|]. split; [exact G3|].
    split; [exact Nd4|]. split; [apply Hq4; lia|].
    split; [right; apply (gap_end_key S s c d I Hgcd); lia|].
    split; [exact P4|]. split; [exact L4|]. split; [exact Hcb|]. reflexivity.
Qed.

(** start gap = end gap, the frame ends inside the gap *)
Lemma tail_same_in s A s1 e1 B0 q1 f1 replaced data2 a' endp1 wasCut2 cb h :
  Inv S s ->
  gaps s = A ++ (s1, e1) :: B0 ->
  readPos s <= a' -> a' < endp1 -> s1 < endp1 < e1 ->
  (forall u v, In (u, v) A -> v < a') ->
  (a' <= s1 \/ replaced = false) ->
  a' <= h -> s1 <= h <= endp1 ->
  NoDup (map fst q1) -> (forall k e, In (k, e) q1 <-> In (k, e) (queue s) /\ ~ (a' <= k < h)) ->
  data2 = slice S a' (endp1 - a') ->
  TailOK S s a' endp1 cb q1 f1
    (tail2 (readPos s) (gaps s) (length A) (length A) true q1 f1 replaced data2 a' endp1 wasCut2 cb).
Proof.
  intros I Hg Hrp Hab Hend HA Hrep Hah Hh Hnd Hq1 Hd2.
  pose proof (i_sorted _ _ I) as Hs. rewrite Hg in Hs.
  pose proof (gsorted_mid _ _ _ _ _ Hs) as (M1&M2&M3&M4&M5&M6).
  assert (Hgs1 : In (s1, e1) (gaps s)) by (rewrite Hg; apply in_or_app; right; simpl; auto).
  destruct (inv_gap_bound S s s1 e1 I Hgs1) as (_&_&He1max).
  unfold tail2.
  assert (Hsg : gnth (gaps s) (length A) = (s1, e1)) by (rewrite Hg; apply gnth_app).
  rewrite Hsg. cbn [fst snd]. rewrite Nat.eqb_refl. cbn [negb].
  rewrite endCut_in.
  destruct (surgery_same (readPos s) A s1 e1 B0 a' endp1 MaxBC Hs) as (G1&G2&G3); auto; try lia.
  { rewrite <- Hg. apply (i_last _ _ I). }
  { intros u v Hin. apply M6 in Hin. lia. }
  rewrite <- Hg in G3.
  assert (Hq4 : forall k e, In (k, e) q1 <-> In (k, e) (queue s) /\ ~ (a' <= k < endp1)).
  { intros k e. rewrite Hq1. split.
    - intros (D1&D2). split; auto. intros D4.
      destruct (entry_gap_disj S s k e s1 e1 I D1 Hgs1); destruct (i_ent _ _ I _ _ D1) as (_&?&_); lia.
    - intros (D1&D2). split; auto; lia. }
  assert (Hgoal : forall G6, G6 = A ++ Lgap s1 a' ++ Rgap endp1 e1 ++ B0 ->
     TailOK S s a' endp1 cb q1 f1 (finish (readPos s) G6 q1 f1 a' data2 wasCut2 cb)).
  { intros G6 ->.
    destruct (finish_spec (readPos s) (A ++ Lgap s1 a' ++ Rgap endp1 e1 ++ B0) q1 f1 a' data2 wasCut2 cb) as (cb7&f7&Hcb&Efin).
    rewrite Efin. clear Efin.
    exists endp1, (A ++ Lgap s1 a' ++ Rgap endp1 e1 ++ B0), q1, f1, cb7, f7.
    split; [lia|]. split; [intros; lia|]. split; [exact G1|]. split; [exact G2|]. split; [exact G3|].
    split; [exact Hnd|]. split; [exact Hq4|].
    split; [left; exists s1, e1; split; auto; lia|].
    split; [apply Permutation_refl|]. split; [exists []; rewrite app_nil_r; reflexivity|]. split; [exact Hcb|].
    rewrite Hd2. reflexivity. }
  unfold startAdj, endAdj. cbn [fst snd].
  destruct (Z.eqb_spec endp1 e1); [lia|]. cbn [andb negb].
  destruct (Z.leb_spec a' s1).
  - destruct (Z.leb_spec e1 endp1); [lia|]. cbn [andb negb].
    apply Hgoal. rewrite Hg, gupd_app. unfold Lgap, Rgap.
    destruct (Z.ltb_spec s1 a'); [lia|]. destruct (Z.ltb_spec endp1 e1); [|lia]. reflexivity.
  - destruct Hrep as [? | -> ]; [lia|]. cbn [andb negb].
    apply Hgoal. rewrite Hg, gupd_app, gins_after_app. unfold Lgap, Rgap.
    destruct (Z.ltb_spec s1 a'); [|lia]. destruct (Z.ltb_spec endp1 e1); [|lia]. reflexivity.
Qed.

(** start gap = end gap, the frame ends in the data behind the gap *)
Lemma tail_same_out s A s1 e1 B0 q1 f1 replaced data2 a' endp1 wasCut2 cb h :
  Inv S s ->
  gaps s = A ++ (s1, e1) :: B0 ->
  readPos s <= a' -> a' < endp1 -> e1 <= endp1 -> endp1 < MaxBC ->
  (forall u v, In (u, v) A -> v < a') ->
  (forall u v, In (u, v) B0 -> endp1 < u) ->
  ((a' < e1 /\ a' <= h /\ s1 <= h <= e1 /\ (a' <= s1 \/ replaced = false)) \/
   (a' = e1 /\ replaced = true /\ h = endp1 /\ exists e, In (endp1, e) (queue s))) ->
  NoDup (map fst q1) -> (forall k e, In (k, e) q1 <-> In (k, e) (queue s) /\ ~ (a' <= k < h)) ->
  data2 = slice S a' (endp1 - a') ->
  TailOK S s a' endp1 cb q1 f1
    (tail2 (readPos s) (gaps s) (length A) (length A) false q1 f1 replaced data2 a' endp1 wasCut2 cb).
Proof.
  intros I Hg Hrp Hab Hend Hmax HA HB Hcls Hnd Hq1 Hd2.
  pose proof (i_sorted _ _ I) as Hs. rewrite Hg in Hs.
  pose proof (gsorted_mid _ _ _ _ _ Hs) as (M1&M2&M3&M4&M5&M6).
  assert (Hgs1 : In (s1, e1) (gaps s)) by (rewrite Hg; apply in_or_app; right; simpl; auto).
  unfold tail2.
  assert (Hsg : gnth (gaps s) (length A) = (s1, e1)) by (rewrite Hg; apply gnth_app).
  rewrite Hsg. cbn [fst snd]. rewrite Nat.eqb_refl. cbn [negb].
  destruct (startAdj_beyond A s1 e1 B0 a' endp1 replaced) as (adj&rem&E3&_); auto.
  { destruct Hcls as [(?&_)|(?&_)]; lia. }
  { destruct Hcls as [(?&?&?&[?|?])|(?&?&_)]; auto. }
  rewrite Hg at 1. rewrite E3.
  destruct Hcls as [(Hc1&Hc2&Hc3&Hc4)|(Hc1&Hc2&Hc3&(eo&Hc4))].
  - (* cut at the end of the gap *)
    subst data2. destruct (endCut_out a' endp1 e1 wasCut2) as (wc5&Ecut); [lia|]. rewrite Ecut.
    unfold endAdj. rewrite Z.eqb_refl. cbn [negb].
    destruct (finish_spec (readPos s) (A ++ Lgap s1 a' ++ B0) q1 f1 a' (slice S a' (e1 - a')) wc5 cb) as (cb7&f7&Hcb&Efin).
    rewrite Efin. clear Efin.
    destruct (surgery_same (readPos s) A s1 e1 B0 a' e1 MaxBC Hs) as (G1&G2&G3); auto; try lia.
    { rewrite <- Hg. apply (i_last _ _ I). }
    { intros u v Hin. apply M6 in Hin. lia. }
    assert (EG : A ++ Lgap s1 a' ++ B0 = A ++ Lgap s1 a' ++ Rgap e1 e1 ++ B0).
    { unfold Rgap. rewrite Z.ltb_irrefl. reflexivity. }
    rewrite EG. rewrite <- Hg in G3.
    exists e1, (A ++ Lgap s1 a' ++ Rgap e1 e1 ++ B0), q1, f1, cb7, f7.
    split; [lia|]. split.
    { intros x Hx. destruct (i_cov _ _ I x) as [(u&v&Hu&Hux)|Hc]; auto.
      - destruct (inv_gap_bound S s s1 e1 I Hgs1). lia.
      - exfalso. rewrite Hg in Hu. apply in_app_or in Hu. destruct Hu as [Hu|[Hu|Hu]].
        + apply M5 in Hu. lia.
        + inversion Hu; subst. lia.
        + apply HB in Hu. lia. }
    split; [exact G1|]. split; [exact G2|]. split; [exact G3|].
    split; [exact Hnd|]. split.
    { intros k e. rewrite Hq1. split.
      - intros (D1&D2). split; auto. intros D4.
        destruct (entry_gap_disj S s k e s1 e1 I D1 Hgs1); destruct (i_ent _ _ I _ _ D1) as (_&?&_); lia.
      - intros (D1&D2). split; auto; lia. }
    split; [right; apply (gap_end_key S s s1 e1 I Hgs1); lia|].
    split; [apply Permutation_refl|]. split; [exists []; rewrite app_nil_r; reflexivity|]. split; [exact Hcb|].
    reflexivity.
  - (* the frame starts at the end of the gap and was cut by the replace loop *)
    subst a' h. rewrite endCut_at_end.
    unfold endAdj. destruct (Z.eqb_spec endp1 e1); [lia|].
    assert (Eadj : adj = false).
    { unfold startAdj in E3. cbn [fst snd] in E3. destruct (Z.leb_spec e1 s1); [lia|].
      rewrite Hc2 in E3. cbn [negb] in E3. congruence. }
    subst adj. cbn [andb negb].
    destruct (finish_spec (readPos s) (A ++ Lgap s1 e1 ++ B0) q1 f1 e1 data2 wasCut2 cb) as (cb7&f7&Hcb&Efin).
    rewrite Efin. clear Efin.
    destruct (surgery_same (readPos s) A s1 e1 B0 e1 endp1 MaxBC Hs) as (G1&G2&G3); auto; try lia.
    { rewrite <- Hg. apply (i_last _ _ I). }
    assert (EG : A ++ Lgap s1 e1 ++ B0 = A ++ Lgap s1 e1 ++ Rgap endp1 e1 ++ B0).
    { unfold Rgap. destruct (Z.ltb_spec endp1 e1); [lia|]. reflexivity. }
    rewrite EG. rewrite <- Hg in G3.
    exists endp1, (A ++ Lgap s1 e1 ++ Rgap endp1 e1 ++ B0), q1, f1, cb7, f7.
    split; [lia|]. split; [intros; lia|].
    split; [exact G1|]. split; [exact G2|]. split; [exact G3|].
    split; [exact Hnd|]. split; [exact Hq1|].
    split; [right; eauto|].
    split; [apply Permutation_refl|]. split; [exists []; rewrite app_nil_r; reflexivity|]. split; [exact Hcb|].
    rewrite Hd2. reflexivity.
Qed.

End WithS.
