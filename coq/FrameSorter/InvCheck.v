(** The frame sorter invariant [Inv] (a Prop) and its executable checker [inv_ok]
    (definitions only; soundness [inv_ok S s = true -> Inv S s] is in ProofsInvOk.v). *)
From Coq Require Import List ZArith Lia Bool.
From V Require Import Gen.Params Lib.Hex FrameSorter.Model.
Import ListNotations.
Open Scope Z_scope.

Definition elen (e : entry) : Z := len (e_data e).

(* x lies in a gap / x lies in a queued entry *)
Definition ing (G : list (Z*Z)) (x : Z) : Prop := exists s e, In (s, e) G /\ s <= x < e.
Definition cov (Q : list (Z*entry)) (x : Z) : Prop := exists k en, In (k, en) Q /\ k <= x < k + elen en.

(* gaps sorted, non-empty, separated by at least one byte, all at or above lo *)
Fixpoint gsorted (lo : Z) (gs : list (Z*Z)) : Prop :=
  match gs with
  | [] => True
  | (s, e) :: r => lo <= s /\ s < e /\ gsorted (e + 1) r
  end.

Record Inv (S : Z -> Z) (s : st) : Prop := {
  i_rp : 0 <= readPos s;
  i_sorted : gsorted (readPos s) (gaps s);
  i_last : exists pre sl, gaps s = pre ++ [(sl, MaxBC)];
  i_keys : NoDup (map fst (queue s));
  i_ent : forall k en, In (k, en) (queue s) ->
            readPos s <= k /\ 0 < elen en /\ k + elen en < MaxBC /\ e_data en = slice S k (elen en);
  i_disj : forall k1 e1 k2 e2, In (k1, e1) (queue s) -> In (k2, e2) (queue s) ->
            k1 < k2 + elen e2 -> k2 < k1 + elen e1 -> k1 = k2;
  i_cov : forall x, readPos s <= x < MaxBC -> ing (gaps s) x \/ cov (queue s) x;
  i_excl : forall x, ing (gaps s) x -> cov (queue s) x -> False
}.

(** executable checker *)
Fixpoint gsortedb (lo : Z) (gs : list (Z*Z)) : bool :=
  match gs with
  | [] => true
  | (s, e) :: r => (lo <=? s) && (s <? e) && gsortedb (e + 1) r
  end.

Definition lastb (gs : list (Z*Z)) : bool :=
  match rev gs with (_, e) :: _ => e =? MaxBC | [] => false end.

Fixpoint memZ (k : Z) (l : list Z) : bool :=
  match l with [] => false | x :: r => (x =? k) || memZ k r end.
Fixpoint nodupZ (l : list Z) : bool :=
  match l with [] => true | x :: r => negb (memZ x r) && nodupZ r end.

Definition entry_ok (S : Z -> Z) (rp : Z) (ke : Z * entry) : bool :=
  let '(k, en) := ke in
  (rp <=? k) && (0 <? elen en) && (k + elen en <? MaxBC) && zeqb_list (e_data en) (slice S k (elen en)).

Definition disj_ok (a b : Z * entry) : bool :=
  let '(k1, e1) := a in let '(k2, e2) := b in
  (k2 + elen e2 <=? k1) || (k1 + elen e1 <=? k2) || (k1 =? k2).

Definition nogap_ok (G : list (Z*Z)) (ke : Z * entry) : bool :=
  let '(k, en) := ke in forallb (fun g => (snd g <=? k) || (k + elen en <=? fst g)) G.

(* entries tile [p, t): walk the chain of keys from p and arrive exactly at t *)
Fixpoint tileb (fuel : nat) (Q : list (Z*entry)) (p t : Z) : bool :=
  match fuel with
  | O => false
  | S fuel' =>
    if p =? t then true else
    match qget Q p with
    | None => false
    | Some en => (0 <? elen en) && (p + elen en <=? t) && tileb fuel' Q (p + elen en) t
    end
  end.

(* all blocks between gaps are tiled: [p, s1), [e1, s2), ... *)
Fixpoint blocksb (Q : list (Z*entry)) (p : Z) (gs : list (Z*Z)) : bool :=
  match gs with
  | [] => true
  | (s, e) :: r => tileb (S (length Q)) Q p s && blocksb Q e r
  end.

Definition inv_ok (S : Z -> Z) (s : st) : bool :=
  (0 <=? readPos s) && gsortedb (readPos s) (gaps s) && lastb (gaps s) &&
  nodupZ (map fst (queue s)) &&
  forallb (entry_ok S (readPos s)) (queue s) &&
  forallb (fun a => forallb (disj_ok a) (queue s)) (queue s) &&
  forallb (nogap_ok (gaps s)) (queue s) &&
  blocksb (queue s) (readPos s) (gaps s).
