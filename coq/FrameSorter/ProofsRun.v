(** Every reachable state of the frame sorter satisfies [Inv]; refinement to the set of
    received bytes; delivered bytes; callback accounting. *)
From Coq Require Import List ZArith Lia Bool Permutation.
From V Require Import Gen.Params Lib.Hex FrameSorter.Model FrameSorter.InvCheck FrameSorter.Spec FrameSorter.ProofsBase
  FrameSorter.ProofsLoops FrameSorter.ProofsFind FrameSorter.ProofsPop FrameSorter.ProofsInv
  FrameSorter.ProofsReinsert FrameSorter.ProofsTail FrameSorter.ProofsTailCases FrameSorter.ProofsStart
  FrameSorter.ProofsPush.
Import ListNotations.
Open Scope Z_scope.

Section WithS.
Variable S : Z -> Z.

Lemma init_Inv : Inv S init.
Proof.
  pose proof MaxBC_pos.
  constructor; simpl.
  - lia.
  - repeat split; lia.
  - exists [], 0. reflexivity.
  - constructor.
  - intros k en [].
  - intros k1 e1 k2 e2 [].
  - intros x Hx. left. exists 0, MaxBC. simpl. split; auto.
  - intros x _ (k&en&[]&_).
Qed.

(** the exported Push on a consistent frame *)
Lemma Push_post s off n cb s' r :
  Inv S s -> 0 <= off -> 0 <= n -> off + n < MaxBC ->
  Push s (slice S off n) off cb = (s', r) ->
  (r = Ok \/ r = TooManyGaps) /\
  (r = Ok ->
     Inv S s' /\ readPos s' = readPos s /\
     (forall x, cov (queue s') x <-> cov (queue s) x \/ (off <= x < off + n /\ readPos s <= x)) /\
     (Z.of_nat (length (gaps s)) <= MaxGaps -> Z.of_nat (length (gaps s')) <= MaxGaps) /\
     Permutation (fired s' ++ live (queue s')) (optl cb ++ fired s ++ live (queue s)) /\
     exists l, fired s' = fired s ++ l).
Proof.
  intros I H0 Hn Hmax HP. unfold Push in HP.
  assert (Hl : len (slice S off n) = n) by (apply len_slice; lia).
  pose proof (push_post S s (slice S off n) off cb I H0) as HPP.
  rewrite Hl in HPP. specialize (HPP Hmax eq_refl).
  destruct (push s (slice S off n) off cb) as [s1 r1]. unfold PushPost in HPP. cbn [fst snd] in HPP.
  rewrite Hl in HPP.
  destruct r1; inversion HP; subst; clear HP.
  - split; [auto|]. intros _. destruct HPP as (A&B&C&D&E&F).
    split; [exact A|]. split; [exact B|]. split; [exact C|]. split; [intros _; exact D|]. split; [exact E|exact F].
  - destruct HPP as (->&Hc). split; [auto|]. intros _. simpl.
    split; [destruct I; constructor; auto|]. split; [reflexivity|]. split.
    { intros x. split; [auto|]. intros [?|(?&?)]; auto. }
    split; [auto|]. split.
    { rewrite fire_optl. rewrite <- app_assoc. rewrite app_assoc.
      rewrite (Permutation_app_comm (fired s) (optl cb)). rewrite <- app_assoc. reflexivity. }
    exists (optl cb). apply fire_optl.
  - split; [auto|]. discriminate.
  - destruct HPP.
Qed.

(** run invariant *)
Record RInv (rs : run_st) : Prop := {
  ri_inv : Inv S (r_st rs);
  ri_out : r_out rs = slice S 0 (readPos (r_st rs));
  ri_cbs : Permutation (fired (r_st rs) ++ live (queue (r_st rs)) ++ r_held rs) (r_pushed rs);
  ri_gaps : Z.of_nat (length (gaps (r_st rs))) <= MaxGaps
}.

Lemma RInv_init : RInv run_init.
Proof.
  constructor; simpl.
  - apply init_Inv.
  - reflexivity.
  - constructor.
  - vm_compute. discriminate.
Qed.

Lemma sstep_RInv rs o rs' : RInv rs -> valid_op o -> sstep S rs o = Some rs' ->
  RInv rs' /\ r_pushed rs' = r_pushed rs ++ op_cbs [o].
Proof.
  intros [I Ho Hc Hg] Hv Hs. destruct o as [off n cb|]; simpl in Hs.
  - destruct Hv as (V1&V2&V3).
    destruct (Push (r_st rs) (slice S off n) off cb) as [s' r] eqn:EP.
    destruct (Push_post _ _ _ _ _ _ I V1 V2 V3 EP) as (Hr&Hok).
    destruct r; try discriminate. inversion Hs; subst; clear Hs.
    destruct (Hok eq_refl) as (I'&Hrp&Hcov&Hgl&Hperm&Hl). simpl.
    split; [|rewrite app_nil_r; reflexivity]. constructor; simpl; auto.
    + rewrite Hrp. exact Ho.
    + rewrite app_assoc, Hperm. rewrite <- Hc.
      rewrite <- !app_assoc. rewrite Permutation_app_comm. rewrite <- !app_assoc. reflexivity.
  - destruct (Pop (r_st rs)) as [[s' [[off d] cb]] bug] eqn:EP.
    destruct (Pop_preserves S _ _ _ _ _ _ I EP) as (I'&Hb&Hoff&Hrp&Hd&Hpos&Hgaps&Hf&Hq).
    subst bug. inversion Hs; subst; clear Hs. simpl.
    split; [|rewrite app_nil_r; reflexivity]. constructor; simpl; auto.
    + rewrite Ho, Hrp. pose proof (i_rp _ _ I). rewrite slice_app by auto using len_nonneg.
      rewrite Z.add_0_l. rewrite <- Hd. reflexivity.
    + rewrite Hf. rewrite <- Hc. apply Permutation_app_head.
      unfold Pop in EP. destruct (qget (queue (r_st rs)) (readPos (r_st rs))) as [en|] eqn:E.
      * inversion EP; subst; simpl. rewrite (live_qdel _ _ _ E).
        rewrite <- app_assoc. rewrite app_assoc. apply Permutation_app_comm.
      * inversion EP; subst; simpl. rewrite app_nil_r. reflexivity.
    + rewrite Hgaps. exact Hg.
Qed.

Lemma srun_RInv ops : forall rs rs', RInv rs -> Forall valid_op ops -> srun S rs ops = Some rs' ->
  RInv rs' /\ r_pushed rs' = r_pushed rs ++ op_cbs ops.
Proof.
  induction ops as [|o ops IH]; intros rs rs' R Hv Hs; simpl in Hs.
  - inversion Hs; subst. split; auto. simpl. rewrite app_nil_r. reflexivity.
  - inversion Hv; subst. destruct (sstep S rs o) as [rs1|] eqn:E1; [|discriminate].
    destruct (sstep_RInv _ _ _ R H1 E1) as (R1&P1).
    destruct (IH _ _ R1 H2 Hs) as (R2&P2). split; auto.
    rewrite P2, P1. simpl. rewrite !app_nil_r. rewrite <- app_assoc. reflexivity.
Qed.

(** the only way a history fails is the gap limit *)
Lemma sstep_none rs o : RInv rs -> valid_op o -> sstep S rs o = None ->
  exists off n cb s', o = SPush off n cb /\ Push (r_st rs) (slice S off n) off cb = (s', TooManyGaps).
Proof.
  intros [I Ho Hc Hg] Hv Hs. destruct o as [off n cb|]; simpl in Hs.
  - destruct Hv as (V1&V2&V3).
    destruct (Push (r_st rs) (slice S off n) off cb) as [s' r] eqn:EP.
    destruct (Push_post _ _ _ _ _ _ I V1 V2 V3 EP) as ([->| ->]&_); [discriminate|].
    exists off, n, cb, s'. auto.
  - destruct (Pop (r_st rs)) as [[s' [[off d] cb]] bug] eqn:EP.
    destruct (Pop_preserves S _ _ _ _ _ _ I EP) as (_&Hb&_). subst bug. discriminate.
Qed.

(** * Statements used by Props/C03.v *)

Theorem sorter_inv ops rs : Forall valid_op ops -> srun S run_init ops = Some rs -> Inv S (r_st rs).
Proof. intros Hv Hs. apply (srun_RInv ops run_init rs RInv_init Hv Hs). Qed.

Theorem sorter_inv_steps :
  Inv S init /\
  (forall s off n cb s', Inv S s -> 0 <= off -> 0 <= n -> off + n < MaxBC ->
     Push s (slice S off n) off cb = (s', Ok) -> Inv S s') /\
  (forall s s' out bug, Inv S s -> Pop s = (s', out, bug) -> Inv S s').
Proof.
  split; [apply init_Inv|split].
  - intros s off n cb s' I H0 Hn Hm HP. destruct (Push_post _ _ _ _ _ _ I H0 Hn Hm HP) as (_&H). apply H. reflexivity.
  - intros s s' [[off d] cb] bug I HP. destruct (Pop_preserves S _ _ _ _ _ _ I HP) as (I'&_). exact I'.
Qed.

Theorem sorter_delivers ops rs : Forall valid_op ops -> srun S run_init ops = Some rs ->
  r_out rs = slice S 0 (readPos (r_st rs)).
Proof. intros Hv Hs. apply (srun_RInv ops run_init rs RInv_init Hv Hs). Qed.

Theorem sorter_refines_push s off n cb s' r :
  Inv S s -> 0 <= off -> 0 <= n -> off + n < MaxBC ->
  Push s (slice S off n) off cb = (s', r) ->
  (r = Ok \/ r = TooManyGaps) /\
  (r = Ok -> readPos s' = readPos s /\
     forall x, cov (queue s') x <-> cov (queue s) x \/ (off <= x < off + n /\ readPos s <= x)).
Proof.
  intros I H0 Hn Hm HP. destruct (Push_post _ _ _ _ _ _ I H0 Hn Hm HP) as (Hr&H).
  split; auto. intros E. destruct (H E) as (_&A&B&_). auto.
Qed.

Theorem sorter_refines_pop s s' off d cb bug :
  Inv S s -> Pop s = (s', (off, d, cb), bug) ->
  bug = false /\ off = readPos s /\ d = slice S (readPos s) (len d) /\
  (0 < len d <-> cov (queue s) (readPos s)) /\
  readPos s' = readPos s + len d /\
  (forall x, cov (queue s') x <-> cov (queue s) x /\ readPos s' <= x).
Proof.
  intros I HP. destruct (Pop_preserves S _ _ _ _ _ _ I HP) as (I'&Hb&Hoff&Hrp&Hd&Hpos&Hgaps&Hf&Hq).
  split; auto. split; auto. split; auto. split; [|split; auto].
  - rewrite Hpos. split.
    + intros Hn. destruct (i_cov _ _ I (readPos s)) as [?|?]; auto; [|tauto].
      pose proof (inv_readPos_lt S s I). pose proof (i_rp _ _ I). lia.
    + intros Hc Hg. apply (i_excl _ _ I (readPos s)); auto.
  - intros x. split.
    + intros (k&en&Hin&Hx). destruct (i_ent _ _ I' _ _ Hin) as (A&_). apply Hq in Hin.
      split; [exists k, en; tauto|lia].
    + intros ((k&en&Hin&Hx)&Hr). exists k, en. split; auto. apply Hq. split; auto.
      intros ->. unfold Pop in HP. apply In_qget in Hin; [|apply (i_keys _ _ I)].
      rewrite Hin in HP. inversion HP; subst. simpl in *. fold (elen en) in *. lia.
Qed.

Theorem sorter_buffers_once ops rs : Forall valid_op ops -> NoDup (op_cbs ops) ->
  srun S run_init ops = Some rs ->
  Permutation (fired (r_st rs) ++ live (queue (r_st rs)) ++ r_held rs) (op_cbs ops) /\
  NoDup (fired (r_st rs) ++ live (queue (r_st rs)) ++ r_held rs).
Proof.
  intros Hv Hnd Hs. destruct (srun_RInv ops run_init rs RInv_init Hv Hs) as ([_ _ Hc _]&Hp).
  simpl in Hp. rewrite Hp in Hc. split; auto.
  eapply Permutation_NoDup; [symmetry; exact Hc|exact Hnd].
Qed.

Theorem sorter_fails_only_on_gap_limit ops : Forall valid_op ops -> srun S run_init ops = None ->
  exists pre off n cb rest rs s', ops = pre ++ SPush off n cb :: rest /\ srun S run_init pre = Some rs /\
    Push (r_st rs) (slice S off n) off cb = (s', TooManyGaps) /\
    MaxGaps < Z.of_nat (length (gaps s')).
Proof.
  intros Hv. assert (G : forall rs0, RInv rs0 -> srun S rs0 ops = None ->
    exists pre off n cb rest rs s', ops = pre ++ SPush off n cb :: rest /\ srun S rs0 pre = Some rs /\
    Push (r_st rs) (slice S off n) off cb = (s', TooManyGaps) /\ MaxGaps < Z.of_nat (length (gaps s'))).
  { induction ops as [|o ops IH]; intros rs0 R Hs; simpl in Hs; [discriminate|].
    inversion Hv; subst. destruct (sstep S rs0 o) as [rs1|] eqn:E1.
    - destruct (sstep_RInv _ _ _ R H1 E1) as (R1&_).
      destruct (IH H2 _ R1 Hs) as (pre&off&n&cb&rest&rs&s'&A&B&C&D).
      exists (o :: pre), off, n, cb, rest, rs, s'. simpl. rewrite E1. subst ops. auto.
    - destruct (sstep_none _ _ R H1 E1) as (off&n&cb&s'&->&HP).
      exists [], off, n, cb, ops, rs0, s'. simpl. repeat split; auto.
      destruct H1 as (V1&V2&V3). unfold Push in HP.
      assert (Hl : len (slice S off n) = n) by (apply len_slice; lia).
      pose proof (push_post S (r_st rs0) (slice S off n) off cb (ri_inv _ R) V1) as HPP.
      rewrite Hl in HPP. specialize (HPP V3 eq_refl).
      destruct (push (r_st rs0) (slice S off n) off cb) as [s1 r1]. unfold PushPost in HPP. cbn [fst snd] in HPP.
      destruct r1; inversion HP; subst. apply HPP. }
  apply G. apply RInv_init.
Qed.

End WithS.
