(** The head of push: what the replace loop and the cut at the start establish, by the
    position of the frame's start relative to the start gap. *)
From Coq Require Import List ZArith Lia Bool Permutation.
From V Require Import Gen.Params Lib.Hex FrameSorter.Model FrameSorter.InvCheck FrameSorter.Spec FrameSorter.ProofsBase
  FrameSorter.ProofsLoops FrameSorter.ProofsFind FrameSorter.ProofsPop FrameSorter.ProofsInv
  FrameSorter.ProofsReinsert FrameSorter.ProofsTail.
Import ListNotations.
Open Scope Z_scope.

Section WithS.
Variable S : Z -> Z.

(* no gap between the gaps of A (which end before lo) and the gap (s1,e1) *)
Lemma covered_before_gap s A s1 e1 B0 lo x :
  Inv S s -> gaps s = A ++ (s1, e1) :: B0 -> (forall u v, In (u, v) A -> v < lo) ->
  lo <= x < s1 -> readPos s <= x -> cov (queue s) x.
Proof.
  intros I Hg HA Hx Hrp.
  pose proof (i_sorted _ _ I) as Hs. rewrite Hg in Hs.
  pose proof (gsorted_mid _ _ _ _ _ Hs) as (M1&M2&M3&M4&M5&M6).
  assert (Hgs1 : In (s1, e1) (gaps s)) by (rewrite Hg; apply in_or_app; right; simpl; auto).
  destruct (inv_gap_bound S s s1 e1 I Hgs1) as (_&_&?).
  destruct (i_cov _ _ I x) as [(u&v&Hu&Hux)|Hc]; auto; [lia|].
  exfalso. rewrite Hg in Hu. apply in_app_or in Hu. destruct Hu as [Hu|[Hu|Hu]].
  - apply HA in Hu. lia.
  - inversion Hu; subst. lia.
  - apply M6 in Hu. lia.
Qed.

Lemma start_class s A s1 e1 B0 data offset q1 f1 pos replaced r :
  Inv S s -> gaps s = A ++ (s1, e1) :: B0 ->
  (forall u v, In (u, v) A -> v < offset) -> offset <= e1 -> 0 <= offset ->
  s1 < offset + len data -> offset + len data < MaxBC -> 0 < len data ->
  data = slice S offset (len data) ->
  replLoop (Datatypes.S (length (queue s))) (queue s) (fired s) offset (offset + len data) false
    = (q1, f1, pos, replaced, r) ->
  (r = 0 \/ r = 1 \/ r = 2) /\
  (r = 1 -> forall x, offset <= x < offset + len data -> cov (queue s) x) /\
  (r <> 1 -> exists data2 a' wasCut2 endp1 h,
      (forall T (K : list Z -> Z -> Z -> bool -> T),
         (let '(data1, endp1, wasCut1) :=
              if r =? 2 then (dtake (pos - offset) data, pos, true) else (data, offset + len data, false) in
          let '(data2, start2, wasCut2) :=
              if negb (s1 <=? offset) && negb replaced then (dskip (s1 - offset) data1, s1, true)
              else (data1, offset, wasCut1) in
          K data2 start2 endp1 wasCut2) = K data2 a' endp1 wasCut2) /\
      offset <= a' /\ readPos s <= a' /\ a' <= e1 /\ a' < endp1 /\ endp1 <= offset + len data /\
      (forall u v, In (u, v) A -> v < a') /\
      (forall x, offset <= x < a' -> readPos s <= x -> cov (queue s) x) /\
      (forall x, endp1 <= x < offset + len data -> cov (queue s) x) /\
      (ing (gaps s) a' \/ exists e, In (a', e) (queue s)) /\
      a' <= h /\
      NoDup (map fst q1) /\ (forall k e, In (k, e) q1 <-> In (k, e) (queue s) /\ ~ (a' <= k < h)) /\
      Permutation (f1 ++ live q1) (fired s ++ live (queue s)) /\ (exists l, f1 = fired s ++ l) /\
      data2 = slice S a' (endp1 - a') /\
      ((a' < e1 /\ endp1 = offset + len data /\ s1 <= h <= e1 /\ (h = s1 \/ h = a') /\ (a' <= s1 \/ replaced = false)) \/
       (a' = e1 /\ replaced = true /\ exists g gd B1, B0 = (g, gd) :: B1 /\
           ((endp1 = offset + len data /\ h = g /\ g <= offset + len data) \/
            (h = endp1 /\ offset + len data < g /\ exists e, In (endp1, e) (queue s)))))).
Proof.
  intros I Hg HA Hoe Hoff Hs1 Hmax Hlen Hdata Hrepl.
  set (endp := offset + len data) in *.
  pose proof (inv_QWF S s I) as W.
  destruct (replLoop_spec _ _ _ _ _ _ _ _ _ _ _ W (Nat.lt_succ_diag_r _) Hrepl)
    as (R1&R2&R3&R4&R5&R6&R7&R8&R9&R10&R11&R12&R13).
  simpl in R9.
  pose proof (i_sorted _ _ I) as Hs. rewrite Hg in Hs.
  pose proof (gsorted_mid _ _ _ _ _ Hs) as (M1&M2&M3&M4&M5&M6).
  assert (Hgs1 : In (s1, e1) (gaps s)) by (rewrite Hg; apply in_or_app; right; simpl; auto).
  destruct (inv_gap_bound S s s1 e1 I Hgs1) as (_&_&He1max).
  split; [exact R10|]. split.
  { intros Hr x Hx. destruct (R12 Hr) as (Hb&old&Ho&Hl). rewrite R9 in Hb.
    apply Z.ltb_ge in Hb. assert (pos = offset) by lia. subst pos.
    exists offset, old. split; [apply qget_In; auto|lia]. }
  intros Hr1.
  (* a start position without an entry: the replace loop does nothing *)
  assert (Hnokey : qget (queue s) offset = None -> pos = offset /\ replaced = false /\ r = 0).
  { intros Hn. assert (Hp : pos = offset).
    { destruct (Z.eq_dec pos offset); auto. exfalso.
      destruct (R4 offset) as (k&e&K1&K2&K3&K4); [lia|].
      assert (k = offset) by lia. subst k. eapply qget_None; eauto. }
    subst pos. rewrite Z.ltb_irrefl in R9. split; auto. split; auto.
    destruct R10 as [?|[?|Hr2]]; auto; [lia|]. destruct (R13 Hr2) as (?&_). congruence. }
  assert (Hcase : offset < s1 \/ s1 <= offset < e1 \/ offset = e1) by lia.
  destruct Hcase as [Hc|[Hc|Hc]].
  - (* the frame starts in the data before the start gap *)
    destruct (qget (queue s) offset) as [e0|] eqn:Eq0.
    + (* at the start of an entry: the loop replaces the chain up to the gap *)
      pose proof (qget_In _ _ _ Eq0) as Hin0.
      destruct (i_ent _ _ I _ _ Hin0) as (Hrp0&Hl0&_).
      assert (Hpos_le : pos <= s1).
      { destruct (Z.le_gt_cases pos s1); auto. exfalso.
        apply (tiled_no_gap S s offset pos s1 I R4); [lia|]. exists s1, e1. split; auto. lia. }
      assert (Hr0 : r = 0 /\ pos = s1).
      { destruct R10 as [Hr|[Hr|Hr]]; [|lia|].
        - split; auto. specialize (R11 Hr).
          assert (pos <> offset) by (intros ->; congruence).
          destruct (chain_pin S s offset pos I) as (d'&Hd'); auto; [lia|intros e He; eapply qget_None; eauto|].
          rewrite Hg in Hd'. apply in_app_or in Hd'. destruct Hd' as [Hd'|[Hd'|Hd']].
          + pose proof (HA _ _ Hd'). pose proof (M5 _ _ Hd'). lia.
          + inversion Hd'; subst; auto.
          + apply M6 in Hd'. lia.
        - exfalso. destruct (R13 Hr) as (_&old&Ho&Hl). apply qget_In in Ho.
          destruct (entry_gap_disj S s pos old s1 e1 I Ho Hgs1); destruct (i_ent _ _ I _ _ Ho) as (_&?&_); lia. }
      destruct Hr0 as (-> & ->).
      assert (Hrt : replaced = true) by (rewrite R9; apply Z.ltb_lt; lia). rewrite Hrt in *.
      exists data, offset, false, endp, s1.
      split.
      { intros T K. cbn [Z.eqb]. destruct (Z.leb_spec s1 offset); [lia|]. reflexivity. }
      split; [lia|]. split; [lia|]. split; [lia|]. split; [lia|]. split; [lia|]. split; [exact HA|].
      split; [intros; lia|]. split; [intros; lia|]. split; [right; eauto|]. split; [lia|].
      split; [exact R6|]. split; [exact R5|]. split; [exact R7|]. split; [exact R8|].
      split; [rewrite Hdata at 1; f_equal; unfold endp; lia|].
      left. split; [lia|]. split; [reflexivity|]. split; [lia|]. split; [left; reflexivity|]. left. lia.
    + (* inside an entry (or below the read position): cut to the start of the gap *)
      destruct (Hnokey eq_refl) as (-> & -> & ->).
      exists (dskip (s1 - offset) data), s1, true, endp, s1.
      split.
      { intros T K. cbn [Z.eqb]. destruct (Z.leb_spec s1 offset); [lia|]. reflexivity. }
      split; [lia|]. split; [lia|]. split; [lia|]. split; [lia|]. split; [lia|].
      split; [intros u v Hin; apply M5 in Hin; lia|].
      split; [intros x Hx Hrp; eapply covered_before_gap; eauto|].
      split; [intros; lia|]. split; [left; exists s1, e1; split; auto; lia|]. split; [lia|].
      split; [exact R6|]. split.
      { intros k e. rewrite R5. split; intros (?&?); split; auto; lia. }
      split; [exact R7|]. split; [exact R8|].
      split; [rewrite Hdata at 1; rewrite dskip_slice by (unfold endp in *; lia); f_equal; unfold endp; lia|].
      left. split; [lia|]. split; [reflexivity|]. split; [lia|]. split; [left; reflexivity|]. left. lia.
  - (* the frame starts inside the start gap *)
    assert (Hn : qget (queue s) offset = None).
    { destruct (qget (queue s) offset) as [e0|] eqn:Eq0; auto. exfalso. apply qget_In in Eq0.
      destruct (entry_gap_disj S s offset e0 s1 e1 I Eq0 Hgs1); destruct (i_ent _ _ I _ _ Eq0) as (_&?&_); lia. }
    destruct (Hnokey Hn) as (-> & -> & ->).
    exists data, offset, false, endp, offset.
    split.
    { intros T K. cbn [Z.eqb]. destruct (Z.leb_spec s1 offset); [|lia]. reflexivity. }
    split; [lia|]. split; [lia|]. split; [lia|]. split; [unfold endp; lia|]. split; [lia|]. split; [exact HA|].
    split; [intros; lia|]. split; [intros; lia|]. split; [left; exists s1, e1; split; auto; lia|]. split; [lia|].
    split; [exact R6|]. split; [exact R5|]. split; [exact R7|]. split; [exact R8|].
    split; [rewrite Hdata at 1; f_equal; unfold endp; lia|].
    left. split; [lia|]. split; [reflexivity|]. split; [lia|]. split; [right; reflexivity|]. right. reflexivity.
  - (* the frame starts exactly at the end of the start gap *)
    subst offset.
    destruct (gap_end_key S s s1 e1 I Hgs1) as (e0&Hin0); [unfold endp in *; lia|].
    pose proof (In_qget _ _ _ (i_keys _ _ I) Hin0) as Eq0.
    destruct (i_ent _ _ I _ _ Hin0) as (Hrp0&Hl0&_).
    destruct B0 as [|[g gd] B1].
    { exfalso. destruct (i_last _ _ I) as (pre&sl&Hl). rewrite Hg in Hl.
      apply last_split in Hl. destruct Hl as [(_&E)|(B'&E)]; [inversion E; unfold endp in *; lia|].
      destruct B'; discriminate. }
    assert (Hgg : In (g, gd) (gaps s)) by (rewrite Hg; apply in_or_app; right; simpl; auto).
    assert (He1g : e1 < g /\ g < gd) by (simpl in M4; lia).
    assert (Hpos_le : pos <= g).
    { destruct (Z.le_gt_cases pos g); auto. exfalso.
      apply (tiled_no_gap S s e1 pos g I R4); [lia|]. exists g, gd. split; auto. lia. }
    assert (Hposgt : pos <> e1 -> replaced = true) by (intros; rewrite R9; apply Z.ltb_lt; lia).
    destruct R10 as [Hr|[Hr|Hr]]; [|lia|].
    + (* the loop ran to the next gap *)
      specialize (R11 Hr). subst r.
      assert (Hne : pos <> e1) by (intros ->; congruence).
      rewrite (Hposgt Hne) in *.
      assert (pos = g).
      { destruct (chain_pin S s e1 pos I) as (d'&Hd'); auto; [lia|intros e He; eapply qget_None; eauto|].
        rewrite Hg in Hd'. destruct (gap_next _ _ _ _ _ _ _ _ _ Hs Hd'); lia. }
      subst pos.
      exists data, e1, false, endp, g.
      split.
      { intros T K. cbn [Z.eqb]. destruct (Z.leb_spec s1 e1); [|lia]. reflexivity. }
      split; [lia|]. split; [lia|]. split; [lia|]. split; [unfold endp; lia|]. split; [lia|]. split; [exact HA|].
      split; [intros; lia|]. split; [intros; lia|]. split; [right; eauto|]. split; [lia|].
      split; [exact R6|]. split; [exact R5|]. split; [exact R7|]. split; [exact R8|].
      split; [rewrite Hdata at 1; f_equal; unfold endp; lia|].
      right. split; [reflexivity|]. split; [reflexivity|]. exists g, gd, B1. split; [reflexivity|].
      left. split; [reflexivity|]. split; [reflexivity|]. apply R2. lia.
    + (* the loop met a longer entry: the frame is cut there *)
      destruct (R13 Hr) as (Hb&old&Ho&Hl). rewrite Hb in *. subst r.
      symmetry in R9. apply Z.ltb_lt in R9.
      pose proof (qget_In _ _ _ Ho) as Hino.
      assert (Hpg : pos + elen old <= g).
      { destruct (entry_gap_disj S s pos old g gd I Hino Hgg); destruct (i_ent _ _ I _ _ Hino) as (_&?&_); lia. }
      specialize (R2 R9).
      exists (dtake (pos - e1) data), e1, true, pos, pos.
      split.
      { intros T K. cbn [Z.eqb]. destruct (Z.leb_spec s1 e1); [|lia]. reflexivity. }
      split; [lia|]. split; [lia|]. split; [lia|]. split; [lia|]. split; [lia|]. split; [exact HA|].
      split; [intros; lia|].
      split; [intros x Hx; exists pos, old; split; auto; lia|].
      split; [right; eauto|]. split; [lia|].
      split; [exact R6|]. split; [exact R5|]. split; [exact R7|]. split; [exact R8|].
      split; [rewrite Hdata at 1; rewrite dtake_slice by (unfold endp in *; lia); reflexivity|].
      right. split; [reflexivity|]. split; [reflexivity|]. exists g, gd, B1. split; [reflexivity|].
      right. split; [reflexivity|]. split; [unfold endp in *; lia|]. eauto.
Qed.

End WithS.
