(** Gap list surgery (the new gap list is the old one minus [a', b')) and the re-insert
    lemma: storing S[a', b') after removing the entries inside [a', b') preserves [Inv]. *)
From Coq Require Import List ZArith Lia Bool Permutation.
From V Require Import Gen.Params Lib.Hex FrameSorter.Model FrameSorter.InvCheck FrameSorter.Spec FrameSorter.ProofsBase
  FrameSorter.ProofsLoops FrameSorter.ProofsFind FrameSorter.ProofsPop FrameSorter.ProofsInv.
Import ListNotations.
Open Scope Z_scope.

Definition Lgap (s1 a' : Z) : list (Z*Z) := if s1 <? a' then [(s1, a')] else [].
Definition Rgap (b' ek : Z) : list (Z*Z) := if b' <? ek then [(b', ek)] else [].

Lemma gsorted_lower lo lo' B : gsorted lo B -> (forall u v, In (u, v) B -> lo' <= u) -> gsorted lo' B.
Proof.
  destruct B as [|[u v] B]; simpl; auto. intros (H1&H2&H3) H. repeat split; auto. apply (H u v). auto.
Qed.

Lemma LR_sorted s1 ek a' b' B : a' < b' -> s1 <= b' -> gsorted (ek + 1) B ->
  (forall u v, In (u, v) B -> b' < u) -> gsorted s1 (Lgap s1 a' ++ Rgap b' ek ++ B).
Proof.
  intros H1 H2 HB Hb. unfold Lgap, Rgap.
  destruct (Z.ltb_spec s1 a'); destruct (Z.ltb_spec b' ek); simpl; repeat split; try lia; auto.
  - apply gsorted_lower with (lo := ek + 1); auto. intros u v Hin. apply Hb in Hin. lia.
  - apply gsorted_lower with (lo := ek + 1); auto. intros u v Hin. apply Hb in Hin. lia.
Qed.

Lemma ing_Lgap s1 a' x : ing (Lgap s1 a') x <-> s1 <= x < a'.
Proof.
  unfold Lgap. destruct (Z.ltb_spec s1 a').
  - rewrite ing_cons. split; [intros [H'|H']; [auto|destruct (ing_nil _ H')]|auto].
  - split; [intros H'; destruct (ing_nil _ H')|lia].
Qed.
Lemma ing_Rgap b' ek x : ing (Rgap b' ek) x <-> b' <= x < ek.
Proof.
  unfold Rgap. destruct (Z.ltb_spec b' ek).
  - rewrite ing_cons. split; [intros [H'|H']; [auto|destruct (ing_nil _ H')]|auto].
  - split; [intros H'; destruct (ing_nil _ H')|lia].
Qed.

Lemma last_split {T} (A : list T) g B pre z : A ++ g :: B = pre ++ [z] ->
  (B = [] /\ g = z) \/ exists B', B = B' ++ [z].
Proof.
  intros H. destruct (@exists_last _ (g :: B)) as (l&y&Hl); [discriminate|].
  destruct B as [|b B] using rev_ind.
  - left. split; auto. replace (A ++ [g]) with (A ++ [g]) in H by auto.
    apply app_inj_tail in H. tauto.
  - right. exists B. f_equal.
    rewrite app_comm_cons, app_assoc in H. apply app_inj_tail in H. destruct H as [_ ->]. reflexivity.
Qed.

(** start gap = end gap *)
Lemma surgery_same lo A s1 e1 B a' b' M :
  gsorted lo (A ++ (s1, e1) :: B) -> (exists pre sl, A ++ (s1, e1) :: B = pre ++ [(sl, M)]) ->
  lo <= a' -> a' < b' -> b' < M -> a' <= e1 -> s1 <= b' ->
  (forall u v, In (u, v) A -> v < a') -> (forall u v, In (u, v) B -> b' < u) ->
  let G' := A ++ Lgap s1 a' ++ Rgap b' e1 ++ B in
  gsorted lo G' /\ (exists pre sl, G' = pre ++ [(sl, M)]) /\
  forall x, ing G' x <-> ing (A ++ (s1, e1) :: B) x /\ ~ (a' <= x < b').
Proof.
  intros Hs (pre&sl&Hl) H1 H2 H3 H4 H5 HA HB G'. subst G'.
  pose proof (gsorted_mid _ _ _ _ _ Hs) as (M1&M2&M3&M4&M5&M6).
  split; [|split].
  - apply gsorted_app_intro with (m := s1); auto.
    + intros u v Hin. apply M5 in Hin. lia.
    + apply LR_sorted; auto.
  - destruct (last_split _ _ _ _ _ Hl) as [(->&E)|(B'&->)].
    + injection E as Es Ee. unfold Rgap. destruct (Z.ltb_spec b' M); [|lia].
      subst e1. destruct (Z.ltb_spec b' M); [|lia].
      exists (A ++ Lgap s1 a'), b'. rewrite app_nil_r, app_assoc. reflexivity.
    + exists (A ++ Lgap s1 a' ++ Rgap b' e1 ++ B'), sl. rewrite <- !app_assoc. reflexivity.
  - intros x. rewrite !ing_app, ing_cons, ing_Lgap, ing_Rgap. split.
    + intros [H|[H|[H|H]]].
      * split; auto. destruct H as (u&v&Hin&Hx). apply HA in Hin. lia.
      * split; [right; left|]; lia.
      * split; [right; left|]; lia.
      * split; auto. destruct H as (u&v&Hin&Hx). apply HB in Hin. lia.
    + intros ([H|[H|H]]&Hn); auto.
      destruct (Z.lt_ge_cases x a'); [right; left; lia|right; right; left; lia].
Qed.

(** start gap <> end gap; the gaps in between disappear *)
Lemma surgery_diff lo A s1 e1 Mm sk ek B a' b' M :
  gsorted lo (A ++ (s1, e1) :: Mm ++ (sk, ek) :: B) ->
  (exists pre sl, A ++ (s1, e1) :: Mm ++ (sk, ek) :: B = pre ++ [(sl, M)]) ->
  lo <= a' -> a' < b' -> b' < M -> a' <= e1 -> sk <= b' ->
  (forall u v, In (u, v) A -> v < a') -> (forall u v, In (u, v) B -> b' < u) ->
  let G' := A ++ Lgap s1 a' ++ Rgap b' ek ++ B in
  gsorted lo G' /\ (exists pre sl, G' = pre ++ [(sl, M)]) /\
  forall x, ing G' x <-> ing (A ++ (s1, e1) :: Mm ++ (sk, ek) :: B) x /\ ~ (a' <= x < b').
Proof.
  intros Hs (pre&sl&Hl) H1 H2 H3 H4 H5 HA HB G'. subst G'.
  pose proof (gsorted_mid _ _ _ _ _ Hs) as (M1&M2&M3&M4&M5&M6).
  pose proof (gsorted_mid _ _ _ _ _ M4) as (N1&N2&N3&N4&N5&N6).
  split; [|split].
  - apply gsorted_app_intro with (m := s1); auto.
    + intros u v Hin. apply M5 in Hin. lia.
    + apply LR_sorted; auto. lia.
  - replace (A ++ (s1, e1) :: Mm ++ (sk, ek) :: B) with ((A ++ (s1, e1) :: Mm) ++ (sk, ek) :: B) in Hl
      by (rewrite <- app_assoc; reflexivity).
    destruct (last_split _ _ _ _ _ Hl) as [(->&E)|(B'&->)].
    + injection E as Es Ee. unfold Rgap. destruct (Z.ltb_spec b' M); [|lia].
      subst ek. destruct (Z.ltb_spec b' M); [|lia].
      exists (A ++ Lgap s1 a'), b'. rewrite app_nil_r, app_assoc. reflexivity.
    + exists (A ++ Lgap s1 a' ++ Rgap b' ek ++ B'), sl. rewrite <- !app_assoc. reflexivity.
  - intros x. rewrite !ing_app, !ing_cons, ing_app, ing_cons, ing_Lgap, ing_Rgap. split.
    + intros [H|[H|[H|H]]].
      * split; auto. destruct H as (u&v&Hin&Hx). apply HA in Hin. lia.
      * split; [right; left|]; lia.
      * split; [right; right; right; left|]; lia.
      * split; auto. destruct H as (u&v&Hin&Hx). apply HB in Hin. lia.
    + intros ([H|[H|[H|[H|H]]]]&Hn); auto.
      * right; left; lia.
      * exfalso. destruct H as (u&v&Hin&Hx). apply N5 in Hin. lia.
      * right; right; left; lia.
Qed.

Section WithS.
Variable S : Z -> Z.

(** the re-insert lemma *)
Lemma reinsert s G' Q' a' b' new f' :
  Inv S s -> readPos s <= a' -> a' < b' -> b' < MaxBC ->
  gsorted (readPos s) G' -> (exists pre sl, G' = pre ++ [(sl, MaxBC)]) ->
  (forall x, ing G' x <-> ing (gaps s) x /\ ~ (a' <= x < b')) ->
  NoDup (map fst Q') ->
  (forall k e, In (k, e) Q' <-> (k = a' /\ e = new) \/ (In (k, e) (queue s) /\ ~ (a' <= k < b'))) ->
  e_data new = slice S a' (b' - a') ->
  (ing (gaps s) a' \/ exists e, In (a', e) (queue s)) ->
  (ing (gaps s) b' \/ exists e, In (b', e) (queue s)) ->
  Inv S {| gaps := G'; queue := Q'; readPos := readPos s; fired := f' |} /\
  forall x, cov Q' x <-> cov (queue s) x \/ a' <= x < b'.
Proof.
  intros I R1 R2 R3 G1 G2 G3 Q1 Q2 N E1 E2.
  assert (Hnew : elen new = b' - a').
  { unfold elen. rewrite N. apply len_slice. lia. }
  assert (Hstr1 : forall k e, In (k, e) (queue s) -> ~ (a' <= k < b') -> k + elen e <= a' \/ b' <= k).
  { intros k e Hin Hn. destruct (i_ent _ _ I _ _ Hin) as (_&P&_).
    destruct (Z.le_gt_cases (k + elen e) a'); auto. destruct (Z.le_gt_cases b' k); auto.
    exfalso. assert (k < a') by lia. destruct E1 as [(u&v&Hu&Hx)|(e0&He0)].
    - destruct (entry_gap_disj S s k e u v I Hin Hu); lia.
    - destruct (i_ent _ _ I _ _ He0) as (_&P0&_).
      assert (k = a') by (eapply (i_disj _ _ I k e a' e0); eauto; lia). lia. }
  assert (Hstr2 : forall k e, In (k, e) (queue s) -> a' <= k < b' -> k + elen e <= b').
  { intros k e Hin Hn. destruct (i_ent _ _ I _ _ Hin) as (_&P&_).
    destruct (Z.le_gt_cases (k + elen e) b'); auto.
    exfalso. destruct E2 as [(u&v&Hu&Hx)|(e0&He0)].
    - destruct (entry_gap_disj S s k e u v I Hin Hu); lia.
    - destruct (i_ent _ _ I _ _ He0) as (_&P0&_).
      assert (k = b') by (eapply (i_disj _ _ I k e b' e0); eauto; lia). lia. }
  assert (Hcov : forall x, cov Q' x <-> cov (queue s) x \/ a' <= x < b').
  { intros x. split.
    - intros (k&e&Hin&Hx). apply Q2 in Hin. destruct Hin as [(->&->)|(Hin&Hn)].
      + right. lia.
      + left. exists k, e. auto.
    - intros [(k&e&Hin&Hx)|Hx].
      + destruct (Z.lt_ge_cases x a'); [|destruct (Z.lt_ge_cases x b')].
        * exists k, e. split; auto. apply Q2. right. split; auto. intros Hk.
          pose proof (Hstr2 _ _ Hin Hk). lia.
        * exists a', new. split; [apply Q2; auto|lia].
        * exists k, e. split; auto. apply Q2. right. split; auto. intros Hk.
          pose proof (Hstr2 _ _ Hin Hk). lia.
      + exists a', new. split; [apply Q2; auto|lia]. }
  split; [|exact Hcov].
  constructor; simpl.
  - apply (i_rp _ _ I).
  - exact G1.
  - exact G2.
  - exact Q1.
  - intros k e Hin. apply Q2 in Hin. destruct Hin as [(->&->)|(Hin&Hn)].
    + rewrite Hnew. repeat split; try lia. rewrite N. reflexivity.
    + apply (i_ent _ _ I); auto.
  - intros k1 e1 k2 e2 H1 H2 L1 L2. apply Q2 in H1. apply Q2 in H2.
    destruct H1 as [(->&->)|(H1&N1)]; destruct H2 as [(->&->)|(H2&N2)]; auto.
    + rewrite Hnew in *. destruct (Hstr1 _ _ H2 N2); lia.
    + rewrite Hnew in *. destruct (Hstr1 _ _ H1 N1); lia.
    + eapply (i_disj _ _ I); eauto.
  - intros x Hx. destruct (Z.lt_ge_cases x a'); [|destruct (Z.lt_ge_cases x b')].
    + destruct (i_cov _ _ I x Hx) as [Hg|Hc].
      * left. apply G3. split; auto. lia.
      * right. apply Hcov. auto.
    + right. apply Hcov. right. lia.
    + destruct (i_cov _ _ I x Hx) as [Hg|Hc].
      * left. apply G3. split; auto. lia.
      * right. apply Hcov. auto.
  - intros x Hg Hc. apply G3 in Hg. destruct Hg as [Hg Hn]. apply Hcov in Hc.
    destruct Hc as [Hc|Hc]; [|lia]. apply (i_excl _ _ I x); auto.
Qed.

End WithS.
