(** The part of push after the replace loop and the two cuts at the start ("tail"):
    start-gap adjustment, deletion of the blocks and gaps in between, cut at the end,
    end-gap adjustment, copy of small cut frames, gap limit, store. *)
From Coq Require Import List ZArith Lia Bool Permutation.
From V Require Import Gen.Params Lib.Hex FrameSorter.Model FrameSorter.InvCheck FrameSorter.Spec FrameSorter.ProofsBase
  FrameSorter.ProofsLoops FrameSorter.ProofsFind FrameSorter.ProofsPop FrameSorter.ProofsInv
  FrameSorter.ProofsReinsert.
Import ListNotations.
Open Scope Z_scope.

Definition startAdj (gs : list (Z*Z)) (sgi : nat) (sg : Z*Z) (start2 endp1 : Z) (replaced : bool)
  : list (Z*Z) * bool * bool :=
  if start2 <=? fst sg then
    if snd sg <=? endp1 then (gdel gs sgi, false, true)
    else (gupd gs sgi (endp1, snd sg), false, false)
  else if negb replaced then (gupd gs sgi (fst sg, start2), true, false)
  else (gs, false, false).

Definition endCut (endsInGap : bool) (start2 endp1 endGapEnd : Z) (data2 : list Z) (wasCut2 : bool)
  : list Z * Z * bool :=
  if negb endsInGap && negb (start2 =? endGapEnd) && (endGapEnd <? endp1)
  then (dtake (endGapEnd - start2) data2, endGapEnd, true) else (data2, endp1, wasCut2).

Definition endAdj (gs4 : list (Z*Z)) (same adjusted : bool) (sgi egi' : nat) (endp5 startGapEnd endGapEnd : Z)
  : list (Z*Z) :=
  if endp5 =? endGapEnd then (if negb same then gdel gs4 egi' else gs4)
  else if same && adjusted then gins_after gs4 sgi (endp5, startGapEnd)
  else if negb same then gupd gs4 egi' (endp5, endGapEnd) else gs4.

Definition finish (rp : Z) (gs6 : list (Z*Z)) (q4 : list (Z*entry)) (f4 : list Z) (start2 : Z)
  (data5 : list Z) (wasCut5 : bool) (cb : option Z) : st * res :=
  let '(cb7, f7) := if wasCut5 && (len data5 <? MinBuf) then (None, fire f4 cb) else (cb, f4) in
  if MaxGaps <? Z.of_nat (length gs6) then ({| gaps := gs6; queue := q4; readPos := rp; fired := f7 |}, TooManyGaps) else
  ({| gaps := gs6; queue := qset q4 start2 {| e_data := data5; e_cb := cb7 |}; readPos := rp; fired := f7 |}, Ok).

Definition tail2 (rp : Z) (gs : list (Z*Z)) (sgi egi : nat) (endsInGap : bool)
  (q1 : list (Z*entry)) (f1 : list Z) (replaced : bool)
  (data2 : list Z) (start2 endp1 : Z) (wasCut2 : bool) (cb : option Z) : st * res :=
  let sg := gnth gs sgi in let eg := gnth gs egi in
  let same := Nat.eqb sgi egi in
  let startGapEnd := snd sg in let endGapStart := fst eg in let endGapEnd := snd eg in
  let '(gs3, adjustedStartGapEnd, sgRemoved) := startAdj gs sgi sg start2 endp1 replaced in
  let nexti := if sgRemoved then sgi else S sgi in
  let '(gs4, q4, f4) :=
      if negb same then
        let '(qa, fa) := delConsec (S (length q1)) q1 f1 startGapEnd in
        midLoop (S (length gs3)) gs3 nexti endGapStart qa fa
      else (gs3, q1, f1) in
  let egi' := if same then sgi else nexti in
  let '(data5, endp5, wasCut5) := endCut endsInGap start2 endp1 endGapEnd data2 wasCut2 in
  let gs6 := endAdj gs4 same adjustedStartGapEnd sgi egi' endp5 startGapEnd endGapEnd in
  finish rp gs6 q4 f4 start2 data5 wasCut5 cb.

Lemma push_unfold s data offset cb :
  push s data offset cb =
  if len data =? 0 then (s, Dup) else
  let start := offset in let endp := offset + len data in
  let gs := gaps s in
  if endp <=? fst (gnth gs 0) then (s, Dup) else
  match findStartGap gs 0 start with None => (s, Bug) | Some (sgi, startsInGap) =>
  match findEndGap (skipn sgi gs) sgi endp with None => (s, Bug) | Some (egi, endsInGap) =>
  let sg := gnth gs sgi in let eg := gnth gs egi in
  let same := Nat.eqb sgi egi in
  if (same && (endp <=? fst sg)) || (negb same && (fst eg <=? snd sg) && (endp <=? fst sg)) then (s, Dup) else
  let '(q1, f1, pos, replaced, r) := replLoop (S (length (queue s))) (queue s) (fired s) start endp false in
  if r =? 3 then (s, Bug) else
  if r =? 1 then (s, Dup) else
  let '(data1, endp1, wasCut1) := if r =? 2 then (dtake (pos - start) data, pos, true) else (data, endp, false) in
  let '(data2, start2, wasCut2) :=
      if negb startsInGap && negb replaced then (dskip (fst sg - start) data1, fst sg, true) else (data1, start, wasCut1) in
  tail2 (readPos s) gs sgi egi endsInGap q1 f1 replaced data2 start2 endp1 wasCut2 cb
  end end.
Proof. reflexivity. Qed.

Section WithS.
Variable S : Z -> Z.

(** deleteConsecutive(startGapEnd) followed by the loop over the middle gaps: all entries
    between the start gap and the end gap disappear, and so do the middle gaps.
    [g] is the start of the gap that follows the start gap. The queue either still
    has the block after the start gap, or the replace loop has already removed it. *)
Lemma between_spec s A s1 e1 M' c d B' X q f fuel :
  Inv S s -> gaps s = A ++ (s1, e1) :: M' ++ (c, d) :: B' ->
  let g := fst (hd (c, d) M') in
  agree_from (queue s) q g ->
  (agree_from (queue s) q e1 \/ forall k e, In (k, e) q -> ~ (e1 <= k < g)) ->
  (length M' + 1 < fuel)%nat ->
  exists q' f',
    (let '(qa, fa) := delConsec (Datatypes.S (length q)) q f e1 in
     midLoop fuel (X ++ M' ++ (c, d) :: B') (length X) c qa fa) = (X ++ (c, d) :: B', q', f') /\
    (forall k e, In (k, e) q' <-> In (k, e) q /\ ~ (e1 <= k < c)) /\
    agree_from (queue s) q' c /\ Permutation (f' ++ live q') (f ++ live q) /\ (exists l, f' = f ++ l).
Proof.
  intros I Hg g Hag Hcase Hf.
  pose proof (i_sorted _ _ I) as Hs. rewrite Hg in Hs.
  assert (He1g : e1 < g).
  { apply gsorted_mid in Hs. destruct Hs as (_&_&_&H4&_). subst g.
    destruct M' as [|[m n] M'']; simpl in *; lia. }
  (* first step *)
  assert (Hstep : exists qa fa, delConsec (Datatypes.S (length q)) q f e1 = (qa, fa) /\
     (forall k e, In (k, e) qa <-> In (k, e) q /\ ~ (e1 <= k < g)) /\
     agree_from (queue s) qa g /\ Permutation (fa ++ live qa) (f ++ live q) /\ (exists l, fa = f ++ l)).
  { destruct Hcase as [Ha|Hn].
    - destruct (delConsec (Datatypes.S (length q)) q f e1) as [qa fa] eqn:Ed.
      exists qa, fa. split; [reflexivity|].
      destruct M' as [|[m n] M''].
      + simpl in *. eapply (delConsec_block S s A s1 e1 c d B'); eauto.
      + simpl in g. subst g. eapply (delConsec_block S s A s1 e1 m n (M'' ++ (c, d) :: B')); eauto.
    - exists q, f. split.
      + apply delConsec_none. destruct (qget q e1) as [e|] eqn:E; auto.
        apply qget_In in E. exfalso. apply (Hn _ _ E). lia.
      + split; [intros k e; split; [intros H; split; eauto|tauto]|].
        split; [exact Hag|]. split; [apply Permutation_refl|]. exists []. rewrite app_nil_r. reflexivity. }
  destruct Hstep as (qa&fa&Ed&A1&A2&A3&(l1&A4)). rewrite Ed.
  destruct M' as [|[m n] M''].
  - simpl in g. subst g. destruct fuel as [|fuel]; [simpl in Hf; lia|].
    cbn [app midLoop]. rewrite gnth_app. cbn [snd].
    assert (c < d). { apply gsorted_mid in Hs. destruct Hs as (_&_&_&H4&_). simpl in H4. lia. }
    destruct (Z.ltb_spec d c); [lia|].
    exists qa, fa. split; [reflexivity|]. split; [exact A1|]. split; [exact A2|]. split; [exact A3|].
    exists l1. exact A4.
  - simpl in g. subst g.
    assert (Hmn : m < n /\ n < c).
    { apply gsorted_mid in Hs. destruct Hs as (_&_&_&H4&_). simpl in H4. destruct H4 as (_&?&H4).
      assert (Hcd : In (c, d) (M'' ++ (c, d) :: B')) by (apply in_or_app; right; simpl; auto).
      apply (gsorted_In _ _ _ _ H4) in Hcd. lia. }
    assert (Hg' : gaps s = (A ++ [(s1, e1)]) ++ (m, n) :: M'' ++ (c, d) :: B').
    { rewrite Hg, <- app_assoc. reflexivity. }
    destruct (midLoop_spec S s I M'' m n (A ++ [(s1, e1)]) c d B' X qa fa fuel Hg') as (q'&f'&C1&C2&C3&C4&(l2&C5)).
    { eapply agree_weaken; [|exact A2]. lia. }
    { simpl in Hf. lia. }
    exists q', f'. split; [exact C1|]. split; [|split; [exact C3|split]].
    + intros k e. rewrite C2, A1. split.
      * intros ((D1&D2)&D3). split; auto. intros D4.
        assert (Hin : In (k, e) (queue s)) by (apply Hag; auto).
        assert (Hgp : In (m, n) (gaps s)) by (rewrite Hg'; apply in_or_app; right; simpl; auto).
        destruct (entry_gap_disj S s k e m n I Hin Hgp); [|lia].
        destruct (i_ent _ _ I _ _ Hin) as (_&?&_). lia.
      * intros (D1&D2). split; [split; auto; lia|lia].
    + rewrite C4. exact A3.
    + exists (l1 ++ l2). rewrite C5, A4, app_assoc. reflexivity.
Qed.

(** what every successful run of the tail establishes ([a'] = final start, [b'] = final end) *)
Definition TailOK (s : st) (a' endp1 : Z) (cb : option Z) (q1 : list (Z*entry)) (f1 : list Z)
  (out : st * res) : Prop :=
  exists b' G' q4 f4 cb7 f7,
    a' < b' <= endp1 /\
    (forall x, b' <= x < endp1 -> cov (queue s) x) /\
    gsorted (readPos s) G' /\ (exists pre sl, G' = pre ++ [(sl, MaxBC)]) /\
    (forall x, ing G' x <-> ing (gaps s) x /\ ~ (a' <= x < b')) /\
    NoDup (map fst q4) /\
    (forall k e, In (k, e) q4 <-> In (k, e) (queue s) /\ ~ (a' <= k < b')) /\
    (ing (gaps s) b' \/ exists e, In (b', e) (queue s)) /\
    Permutation (f4 ++ live q4) (f1 ++ live q1) /\ (exists l, f4 = f1 ++ l) /\
    ((cb7 = None /\ f7 = fire f4 cb) \/ (cb7 = cb /\ f7 = f4)) /\
    out = if MaxGaps <? Z.of_nat (length G')
          then ({| gaps := G'; queue := q4; readPos := readPos s; fired := f7 |}, TooManyGaps)
          else ({| gaps := G'; queue := qset q4 a' {| e_data := slice S a' (b' - a'); e_cb := cb7 |};
                   readPos := readPos s; fired := f7 |}, Ok).

End WithS.

(* resolve comparisons that lia can decide *)
Ltac zbool :=
  repeat match goal with
  | |- context [?x <=? ?y] => first [rewrite (proj2 (Z.leb_le x y)) by lia | rewrite (proj2 (Z.leb_gt x y)) by lia]
  | |- context [?x <? ?y] => first [rewrite (proj2 (Z.ltb_lt x y)) by lia | rewrite (proj2 (Z.ltb_ge x y)) by lia]
  | |- context [?x =? ?y] => first [rewrite (proj2 (Z.eqb_eq x y)) by lia | rewrite (proj2 (Z.eqb_neq x y)) by lia]
  end.
