(** Index-based gap list surgery expressed on list decompositions, and the specifications
    of findStartGap / findEndGap on a sorted gap list. *)
From Coq Require Import List ZArith Lia Bool.
From V Require Import Gen.Params Lib.Hex FrameSorter.Model FrameSorter.InvCheck FrameSorter.ProofsBase.
Import ListNotations.
Open Scope Z_scope.

Lemma gnth_app A g B : gnth (A ++ g :: B) (length A) = g.
Proof. unfold gnth. rewrite app_nth2 by lia. rewrite Nat.sub_diag. reflexivity. Qed.
Lemma gnth_app' A g B i : i = length A -> gnth (A ++ g :: B) i = g.
Proof. intros ->. apply gnth_app. Qed.
Lemma gupd_app A g B v : gupd (A ++ g :: B) (length A) v = A ++ v :: B.
Proof. induction A; simpl; [reflexivity|]. rewrite IHA. reflexivity. Qed.
Lemma gdel_app A g B : gdel (A ++ g :: B) (length A) = A ++ B.
Proof. induction A; simpl; [reflexivity|]. rewrite IHA. reflexivity. Qed.
Lemma gins_after_app A g B v : gins_after (A ++ g :: B) (length A) v = A ++ g :: v :: B.
Proof. induction A; simpl; [reflexivity|]. rewrite IHA. reflexivity. Qed.
Lemma skipn_app_len {T} (A B : list T) : skipn (length A) (A ++ B) = B.
Proof. induction A; simpl; auto. Qed.

(** findStartGap: the first gap whose End is >= off *)
Lemma findStartGap_spec : forall gs i off lo M,
  gsorted lo gs -> (exists pre sl, gs = pre ++ [(sl, M)]) -> off <= M ->
  exists A s e B, gs = A ++ (s, e) :: B /\
    findStartGap gs i off = Some ((i + length A)%nat, s <=? off) /\
    (forall s' e', In (s', e') A -> e' < off) /\ off <= e.
Proof.
  induction gs as [|[s e] r IH]; intros i off lo M Hs (pre&sl&Hl) Hoff.
  - destruct pre; discriminate.
  - cbn [findStartGap]. simpl in Hs. destruct Hs as (S1&S2&S3).
    destruct (Z.leb_spec s off); destruct (Z.leb_spec off e); simpl.
    + exists [], s, e, r. simpl. rewrite Nat.add_0_r.
      split; [reflexivity|]. split; [f_equal; f_equal; symmetry; apply Z.leb_le; lia|]. split; [tauto|lia].
    + (* off > e: continue *)
      destruct (Z.ltb_spec off s); [lia|].
      destruct pre as [|g pre]; simpl in Hl.
      { inversion Hl; subst. lia. }
      injection Hl as Hg Hr.
      destruct (IH (S i) off (e + 1) M S3) as (A&s'&e'&B&E1&E2&E3&E4); [eauto|lia|].
      exists ((s, e) :: A), s', e', B. split; [simpl; rewrite E1; reflexivity|]. simpl.
      split; [rewrite E2; f_equal; f_equal; lia|]. split; [|exact E4].
      intros s0 e0 [Hi|Hi]; [inversion Hi; subst; lia|eauto].
    + destruct (Z.ltb_spec off s); [|lia].
      exists [], s, e, r. simpl. rewrite Nat.add_0_r.
      split; [reflexivity|]. split; [f_equal; f_equal; symmetry; apply Z.leb_gt; lia|]. split; [tauto|lia].
    + lia.
Qed.

(** findEndGap on the list that starts at the start gap.
    Result (j, true): endp lies in the gap at position j;
    result (pred j, false): endp lies before the gap at position j (and after all earlier ones). *)
Lemma findEndGap_spec : forall gs i off lo M,
  gsorted lo gs -> (exists pre sl, gs = pre ++ [(sl, M)]) -> off < M ->
  exists X c d B, gs = X ++ (c, d) :: B /\
    (forall s' e', In (s', e') X -> e' <= off) /\
    ((c <= off < d /\ findEndGap gs i off = Some ((i + length X)%nat, true)) \/
     (off < c /\ findEndGap gs i off = Some (pred (i + length X)%nat, false))).
Proof.
  induction gs as [|[s e] r IH]; intros i off lo M Hs (pre&sl&Hl) Hoff.
  - destruct pre; discriminate.
  - cbn [findEndGap]. simpl in Hs. destruct Hs as (S1&S2&S3).
    destruct (Z.leb_spec s off); destruct (Z.ltb_spec off e); simpl.
    + exists [], s, e, r. simpl. rewrite Nat.add_0_r. split; [reflexivity|]. split; [tauto|]. left. split; [lia|reflexivity].
    + destruct (Z.ltb_spec off s); [lia|].
      destruct pre as [|g pre]; simpl in Hl.
      { inversion Hl; subst. lia. }
      injection Hl as Hg Hr.
      destruct (IH (S i) off (e + 1) M S3) as (X&c&d&B&E1&E2&E3); [eauto|lia|].
      exists ((s, e) :: X), c, d, B. split; [simpl; rewrite E1; reflexivity|]. simpl.
      split. { intros s0 e0 [Hi|Hi]; [inversion Hi; subst; lia|eauto]. }
      replace (i + S (length X))%nat with (S i + length X)%nat by lia. exact E3.
    + destruct (Z.ltb_spec off s); [|lia].
      exists [], s, e, r. simpl. rewrite Nat.add_0_r. split; [reflexivity|]. split; [tauto|]. right. split; [lia|reflexivity].
    + destruct (Z.ltb_spec off s); [|lia].
      exists [], s, e, r. simpl. rewrite Nat.add_0_r. split; [reflexivity|]. split; [tauto|]. right. split; [lia|reflexivity].
Qed.
