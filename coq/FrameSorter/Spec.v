(** Histories of the frame sorter: consistent pushes (data = S[off, off+n)) and pops, with
    ghost logs of what the reader received. Executable definitions only. *)
From Coq Require Import List ZArith Lia Bool.
From V Require Import Gen.Params Lib.Hex FrameSorter.Model FrameSorter.InvCheck.
Import ListNotations.
Open Scope Z_scope.

Inductive sop :=
| SPush (off n : Z) (cb : option Z)   (* Push(S[off, off+n), off, doneCb = cb) *)
| SPop.

Record run_st := {
  r_st : st;
  r_out : list Z;      (* all bytes returned by Pop so far, concatenated *)
  r_held : list Z;     (* callback ids returned by Pop (now owned by the reader) *)
  r_pushed : list Z    (* callback ids handed to Push so far *)
}.

Definition optl (cb : option Z) : list Z := match cb with Some c => [c] | None => [] end.
(* callbacks still attached to queued entries *)
Definition live (Q : list (Z*entry)) : list Z := flat_map (fun ke => optl (e_cb (snd ke))) Q.

Definition run_init : run_st := {| r_st := init; r_out := []; r_held := []; r_pushed := [] |}.

(* None: the sorter returned an error (the connection is closed) or the model hit a Bug value *)
Definition sstep (S : Z -> Z) (rs : run_st) (o : sop) : option run_st :=
  match o with
  | SPush off n cb =>
    let '(s', r) := Push (r_st rs) (slice S off n) off cb in
    match r with
    | Ok => Some {| r_st := s'; r_out := r_out rs; r_held := r_held rs; r_pushed := r_pushed rs ++ optl cb |}
    | _ => None
    end
  | SPop =>
    let '(s', (off, d, cb), bug) := Pop (r_st rs) in
    if bug then None else
    Some {| r_st := s'; r_out := r_out rs ++ d; r_held := r_held rs ++ optl cb; r_pushed := r_pushed rs |}
  end.

Fixpoint srun (S : Z -> Z) (rs : run_st) (ops : list sop) : option run_st :=
  match ops with
  | [] => Some rs
  | o :: r => match sstep S rs o with Some rs' => srun S rs' r | None => None end
  end.

Definition valid_op (o : sop) : Prop :=
  match o with SPush off n cb => 0 <= off /\ 0 <= n /\ off + n < MaxBC | SPop => True end.

(* callback ids of a history *)
Definition op_cbs (ops : list sop) : list Z :=
  flat_map (fun o => match o with SPush _ _ cb => optl cb | SPop => [] end) ops.
