(** The gap limit: bound on the number of gaps in reachable states, the exact condition under
    which Push refuses, and the state it leaves behind. *)
From Coq Require Import List ZArith Lia Bool Permutation.
From V Require Import Gen.Params Lib.Hex FrameSorter.Model FrameSorter.InvCheck FrameSorter.Spec FrameSorter.ProofsBase
  FrameSorter.ProofsLoops FrameSorter.ProofsPush FrameSorter.ProofsRun.
Import ListNotations.
Open Scope Z_scope.

Lemma MaxGaps_val : MaxGaps = 1000.
Proof. reflexivity. Qed.

Section WithS.
Variable S : Z -> Z.

(** Push refuses exactly when the frame would leave more than MaxStreamFrameSorterGaps gaps *)
Theorem push_gap_limit_iff s off n cb s' r :
  Inv S s -> 0 <= off -> 0 <= n -> off + n < MaxBC -> Z.of_nat (length (gaps s)) <= MaxGaps ->
  Push s (slice S off n) off cb = (s', r) ->
  (r = TooManyGaps <-> MaxGaps < Z.of_nat (length (gaps s'))) /\
  (r = Ok -> Z.of_nat (length (gaps s')) <= MaxGaps).
Proof.
  intros I H0 Hn Hmax Hg HP. unfold Push in HP.
  assert (Hl : len (slice S off n) = n) by (apply len_slice; lia).
  pose proof (push_post S s (slice S off n) off cb I H0) as HPP.
  rewrite Hl in HPP. specialize (HPP Hmax eq_refl).
  destruct (push s (slice S off n) off cb) as [s1 r1]. unfold PushPost in HPP. cbn [fst snd] in HPP.
  destruct r1; inversion HP; subst; clear HP.
  - destruct HPP as (_&_&_&D&_). split; [split; [discriminate|lia]|auto].
  - destruct HPP as (->&_). simpl. split; [split; [discriminate|lia]|auto].
  - destruct HPP as (A&_). split; [split; auto|discriminate].
  - destruct HPP.
Qed.

(** the state a refused Push leaves behind: read position unchanged, the queue only lost entries
    (whose bytes are still correct), callbacks only appended, and every callback id is still in
    exactly one place — except that the refused frame's own id may be in none (dropped buffer) *)
Theorem push_gap_limit_state s off n cb s' :
  Inv S s -> 0 <= off -> 0 <= n -> off + n < MaxBC ->
  Push s (slice S off n) off cb = (s', TooManyGaps) ->
  readPos s' = readPos s /\ (exists l, fired s' = fired s ++ l) /\
  (forall k e, In (k, e) (queue s') -> In (k, e) (queue s)) /\
  (exists rest, (rest = [] \/ rest = optl cb) /\
     Permutation (fired s' ++ live (queue s') ++ rest) (optl cb ++ fired s ++ live (queue s))).
Proof.
  intros I H0 Hn Hmax HP. unfold Push in HP.
  assert (Hl : len (slice S off n) = n) by (apply len_slice; lia).
  pose proof (push_post S s (slice S off n) off cb I H0) as HPP.
  rewrite Hl in HPP. specialize (HPP Hmax eq_refl).
  destruct (push s (slice S off n) off cb) as [s1 r1]. unfold PushPost in HPP. cbn [fst snd] in HPP.
  destruct r1; inversion HP; subst; clear HP.
  destruct HPP as (_&B&C&D&E). auto.
Qed.

Lemma push_refused_count s off n cb s' :
  Inv S s -> 0 <= off -> 0 <= n -> off + n < MaxBC ->
  Push s (slice S off n) off cb = (s', TooManyGaps) -> MaxGaps < Z.of_nat (length (gaps s')).
Proof.
  intros I H0 Hn Hmax HP. unfold Push in HP.
  assert (Hl : len (slice S off n) = n) by (apply len_slice; lia).
  pose proof (push_post S s (slice S off n) off cb I H0) as HPP.
  rewrite Hl in HPP. specialize (HPP Hmax eq_refl).
  destruct (push s (slice S off n) off cb) as [s1 r1]. unfold PushPost in HPP. cbn [fst snd] in HPP.
  destruct r1; inversion HP; subst; clear HP. apply HPP.
Qed.

(** in every reachable state the number of gaps is within the limit *)
Theorem sorter_gap_bound ops rs : Forall valid_op ops -> srun S run_init ops = Some rs ->
  Z.of_nat (length (gaps (r_st rs))) <= MaxGaps.
Proof. intros Hv Hs. apply (srun_RInv S ops run_init rs (RInv_init S) Hv Hs). Qed.

(** a refused Push, with distinct callback ids: still no id fired twice and no fired id attached
    to a queued entry *)
Corollary push_gap_limit_nodup s off n cb s' :
  Inv S s -> 0 <= off -> 0 <= n -> off + n < MaxBC ->
  NoDup (optl cb ++ fired s ++ live (queue s)) ->
  Push s (slice S off n) off cb = (s', TooManyGaps) ->
  NoDup (fired s' ++ live (queue s')).
Proof.
  intros I H0 Hn Hmax Hnd HP.
  destruct (push_gap_limit_state _ _ _ _ _ I H0 Hn Hmax HP) as (_&_&_&rest&_&Hp).
  assert (Hn2 : NoDup (fired s' ++ live (queue s') ++ rest)) by (eapply Permutation_NoDup; [symmetry; exact Hp|exact Hnd]).
  rewrite app_assoc in Hn2. revert Hn2. generalize (fired s' ++ live (queue s')). intros l Hn2.
  induction l as [|x l IH]; simpl in *; [constructor|]. inversion Hn2 as [|? ? Hnotin Hrest]; subst. constructor; auto.
  intros Hin. apply Hnotin. apply in_or_app. auto.
Qed.

End WithS.
