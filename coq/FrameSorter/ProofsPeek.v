(** frameSorter.Peek returns S[offset, offset+n) when it succeeds. *)
From Coq Require Import List ZArith Lia Bool.
From V Require Import Gen.Params Lib.Hex FrameSorter.Model FrameSorter.InvCheck FrameSorter.ProofsBase.
Import ListNotations.
Open Scope Z_scope.

Lemma slice_nonpos S a n : n <= 0 -> slice S a n = [].
Proof. intros. unfold slice. replace (Z.to_nat n) with 0%nat by lia. reflexivity. Qed.

Lemma peekCopy_spec S Q : (forall k e, In (k, e) Q -> 0 < elen e /\ e_data e = slice S k (elen e)) ->
  forall fuel pos rem, peekCheck fuel Q pos rem = true ->
  peekCopy fuel Q pos rem = slice S pos rem /\ forall x, pos <= x < pos + rem -> cov Q x.
Proof.
  intros HQ. induction fuel as [|fuel IH]; intros pos rem Hc; simpl in Hc; [discriminate|].
  cbn [peekCopy]. destruct (Z.leb_spec rem 0).
  - rewrite slice_nonpos by lia. split; auto. intros; lia.
  - destruct (qget Q pos) as [e|] eqn:E; [|discriminate].
    pose proof (qget_In _ _ _ E) as Hin. destruct (HQ _ _ Hin) as (Hl&Hd). fold (elen e) in *.
    destruct (Z.leb_spec rem (elen e)).
    + assert (Hnil : peekCopy fuel Q (pos + elen e) (rem - elen e) = []).
      { destruct fuel; simpl; auto. destruct (Z.leb_spec (rem - elen e) 0); auto. lia. }
      rewrite Hnil, app_nil_r. rewrite Hd. rewrite dtake_slice by lia. split; auto.
      intros x Hx. exists pos, e. split; auto. lia.
    + destruct (IH _ _ Hc) as (IH1&IH2). rewrite IH1.
      assert (Hall : dtake rem (e_data e) = e_data e).
      { unfold dtake. apply firstn_all2. unfold elen, len in *. lia. }
      rewrite Hall, Hd. replace rem with (elen e + (rem - elen e)) at 2 by lia.
      rewrite slice_app by lia. split; auto.
      intros x Hx. destruct (Z.lt_ge_cases x (pos + elen e)).
      * exists pos, e. split; auto. lia.
      * apply IH2. lia.
Qed.

Lemma Peek_spec S q off n d : Inv S q -> Peek q off n = Some d -> 0 < n ->
  d = slice S off n /\ forall x, off <= x < off + n -> cov (queue q) x.
Proof.
  intros I HP Hn. unfold Peek in HP. destruct (Z.leb_spec n 0); [lia|].
  destruct (peekCheck (Datatypes.S (length (queue q))) (queue q) off n) eqn:Hc; [|discriminate].
  assert (Hd : d = peekCopy (Datatypes.S (length (queue q))) (queue q) off n) by congruence.
  rewrite Hd. apply peekCopy_spec; auto.
  intros k e Hin. destruct (i_ent _ _ I _ _ Hin) as (_&A&_&B). auto.
Qed.
