(** frameSorter.Peek returns S[offset, offset+n) when it succeeds. *)
From Coq Require Import List ZArith Lia Bool.
From V Require Import Gen.Params Lib.Hex FrameSorter.Model FrameSorter.InvCheck FrameSorter.ProofsBase.
Import ListNotations.
Open Scope Z_scope.

Lemma slice_nonpos S a n : n <= 0 -> slice S a n = [].
Proof. intros. unfold slice. replace (Z.to_nat n) with 0%nat by lia. reflexivity. Qed.

Lemma peekCopy_spec S Q : (forall k e, In (k, e) Q -> 0 < elen e /\ e_data e = slice S k (elen e)) ->
  forall fuel pos rem, peekCheck fuel Q pos rem = true ->
  peekCopy fuel Q pos rem = slice S pos rem /\ forall x, pos <= x < pos + rem -> cov Q x.
Proof.
  intros HQ. induction fuel as [|fuel IH]; intros pos rem Hc; simpl in Hc; [discriminate|].
  cbn [peekCopy]. destruct (Z.leb_spec rem 0).
  - rewrite slice_nonpos by lia. split; auto. intros; lia.
  - destruct (qget Q pos) as [e|] eqn:E; [|discriminate].
    pose proof (qget_In _ _ _ E) as Hin. destruct (HQ _ _ Hin) as (Hl&Hd). fold (elen e) in *.
    destruct (Z.leb_spec rem (elen e)).
    + assert (Hnil : peekCopy fuel Q (pos + elen e) (rem - elen e) = []).
      { destruct fuel; simpl; auto. destruct (Z.leb_spec (rem - elen e) 0); auto. lia. }
      rewrite Hnil, app_nil_r. rewrite Hd. rewrite dtake_slice by lia. split; auto.
      intros x Hx. exists pos, e. split; auto. lia.
    + destruct (IH _ _ Hc) as (IH1&IH2). rewrite IH1.
      assert (Hall : dtake rem (e_data e) = e_data e).
      { unfold dtake. apply firstn_all2. unfold elen, len in *. lia. }
      rewrite Hall, Hd. replace rem with (elen e + (rem - elen e)) at 2 by lia.
      rewrite slice_app by lia. split; auto.
      intros x Hx. destruct (Z.lt_ge_cases x (pos + elen e)).
      * exists pos, e. split; auto. lia.
      * apply IH2. lia.
Qed.

Lemma Peek_spec S q off n d : Inv S q -> Peek q off n = Some d -> 0 < n ->
  d = slice S off n /\ forall x, off <= x < off + n -> cov (queue q) x.
Proof.
  intros I HP Hn. unfold Peek in HP. destruct (Z.leb_spec n 0); [lia|].
  destruct (peekCheck (Datatypes.S (length (queue q))) (queue q) off n) eqn:Hc; [|discriminate].
  assert (Hd : d = peekCopy (Datatypes.S (length (queue q))) (queue q) off n) by congruence.
  rewrite Hd. apply peekCopy_spec; auto.
  intros k e Hin. destruct (i_ent _ _ I _ _ Hin) as (_&A&_&B). auto.
Qed.

(** completeness: from the read position, Peek succeeds when all requested bytes are buffered *)
Lemma filter_length_lt {T} (f g : T -> bool) (l : list T) :
  (forall x, f x = true -> g x = true) -> (exists x, In x l /\ g x = true /\ f x = false) ->
  (length (filter f l) < length (filter g l))%nat.
Proof.
  intros Hfg (x&Hin&Hg&Hf). induction l as [|y l IH]; [destruct Hin|].
  assert (Hle : forall l', (length (filter f l') <= length (filter g l'))%nat).
  { induction l' as [|z l' IH']; simpl; auto. destruct (f z) eqn:E; [rewrite (Hfg _ E); simpl; lia|].
    destruct (g z); simpl; lia. }
  simpl. destruct Hin as [->|Hin].
  - rewrite Hg, Hf. simpl. specialize (Hle l). lia.
  - specialize (IH Hin). destruct (f y) eqn:E; [rewrite (Hfg _ E); simpl; lia|]. destruct (g y); simpl; lia.
Qed.

Lemma peekCheck_complete S q : Inv S q -> forall fuel pos rem,
  (pos = readPos q \/ exists k e, In (k, e) (queue q) /\ k + elen e = pos) ->
  (forall x, pos <= x < pos + rem -> cov (queue q) x) ->
  (length (filter (fun ke => Z.leb pos (fst ke)) (queue q)) < fuel)%nat ->
  peekCheck fuel (queue q) pos rem = true.
Proof.
  intros I. induction fuel as [|fuel IH]; intros pos rem Hal Hcov Hf; [lia|].
  cbn [peekCheck]. destruct (Z.leb_spec rem 0); auto.
  destruct (Hcov pos ltac:(lia)) as (k&e&Hin&Hk).
  destruct (i_ent _ _ I _ _ Hin) as (Hrp&Hl&_).
  assert (k = pos).
  { destruct Hal as [->|(k'&e'&Hin'&Hend)]; [lia|].
    destruct (Z.eq_dec k pos); auto. exfalso.
    destruct (i_ent _ _ I _ _ Hin') as (_&Hl'&_).
    assert (k = k') by (eapply (i_disj _ _ I k e k' e'); eauto; lia). subst k'.
    assert (e = e') by (apply In_qget in Hin; apply In_qget in Hin'; try apply (i_keys _ _ I); congruence).
    subst e'. lia. }
  subst k. rewrite (In_qget _ _ _ (i_keys _ _ I) Hin). fold (elen e).
  destruct (Z.leb_spec rem (elen e)); auto.
  apply IH.
  - right. exists pos, e. auto.
  - intros x Hx. apply Hcov. lia.
  - assert (Hlt : (length (filter (fun ke => Z.leb (pos + elen e) (fst ke)) (queue q)) <
                   length (filter (fun ke => Z.leb pos (fst ke)) (queue q)))%nat).
    { apply filter_length_lt.
      - intros [k0 e0]. simpl. intros Hx. apply Z.leb_le in Hx. apply Z.leb_le. lia.
      - exists (pos, e). split; auto. simpl. split; [apply Z.leb_le; lia|apply Z.leb_gt; lia]. }
    lia.
Qed.

Lemma Peek_complete S q n : Inv S q -> 0 < n ->
  (forall x, readPos q <= x < readPos q + n -> cov (queue q) x) ->
  exists d, Peek q (readPos q) n = Some d.
Proof.
  intros I Hn Hcov. unfold Peek. destruct (Z.leb_spec n 0); [lia|].
  rewrite (peekCheck_complete S q I); eauto.
  assert (Hle : forall (f : Z * entry -> bool) l, (length (filter f l) <= length l)%nat).
  { intros f l. induction l as [|y l IHl]; simpl; auto. destruct (f y); simpl; lia. }
  specialize (Hle (fun ke => Z.leb (readPos q) (fst ke)) (queue q)). lia.
Qed.
