(** push preserves [Inv] and refines the set of received bytes. *)
From Coq Require Import List ZArith Lia Bool Permutation.
From V Require Import Gen.Params Lib.Hex FrameSorter.Model FrameSorter.InvCheck FrameSorter.Spec FrameSorter.ProofsBase
  FrameSorter.ProofsLoops FrameSorter.ProofsFind FrameSorter.ProofsPop FrameSorter.ProofsInv
  FrameSorter.ProofsReinsert FrameSorter.ProofsTail FrameSorter.ProofsTailCases FrameSorter.ProofsStart.
Import ListNotations.
Open Scope Z_scope.

Lemma qset_In q k0 e0 k e : NoDup (map fst q) ->
  (In (k, e) (qset q k0 e0) <-> (k = k0 /\ e = e0) \/ (In (k, e) q /\ k <> k0)).
Proof.
  intros ND. unfold qset. simpl. rewrite qdel_In by auto. split.
  - intros [H|H]; [inversion H; auto|auto].
  - intros [(->&->)|H]; auto.
Qed.
Lemma qset_NoDup q k0 e0 : NoDup (map fst q) -> NoDup (map fst (qset q k0 e0)).
Proof.
  intros ND. unfold qset. simpl. constructor; [|apply qdel_NoDup; auto].
  intros Hin. apply in_map_iff in Hin. destruct Hin as ([k e]&Hk&Hin). simpl in Hk. subst k.
  apply qdel_In in Hin; auto. lia.
Qed.
Lemma qdel_absent q k : (forall e, ~ In (k, e) q) -> qdel q k = q.
Proof.
  induction q as [|[k0 e0] q IH]; simpl; auto. intros H.
  destruct (Z.eqb_spec k0 k).
  - subst. exfalso. apply (H e0). auto.
  - f_equal. apply IH. intros e He. apply (H e). auto.
Qed.

Section WithS.
Variable S : Z -> Z.

(** what one call of push establishes *)
Definition PushPost (s : st) (data : list Z) (offset : Z) (cb : option Z) (out : st * res) : Prop :=
  let endp := offset + len data in
  let s' := fst out in
  match snd out with
  | Bug => False
  | Dup => s' = s /\ forall x, offset <= x < endp -> readPos s <= x -> cov (queue s) x
  | Ok => Inv S s' /\ readPos s' = readPos s /\
          (forall x, cov (queue s') x <-> cov (queue s) x \/ (offset <= x < endp /\ readPos s <= x)) /\
          Z.of_nat (length (gaps s')) <= MaxGaps /\
          Permutation (fired s' ++ live (queue s')) (optl cb ++ fired s ++ live (queue s)) /\
          exists l, fired s' = fired s ++ l
  | TooManyGaps => MaxGaps < Z.of_nat (length (gaps s')) /\ readPos s' = readPos s /\
          (exists l, fired s' = fired s ++ l) /\
          (* the state left behind (the connection closes): the queue only lost entries, and the
             callback accounting is still exact except that the refused frame's own callback may be
             neither fired nor queued (its buffer is simply dropped) *)
          (forall k e, In (k, e) (queue s') -> In (k, e) (queue s)) /\
          (exists rest, (rest = [] \/ rest = optl cb) /\
             Permutation (fired s' ++ live (queue s') ++ rest) (optl cb ++ fired s ++ live (queue s)))
  end.

Lemma tail_to_post s data offset cb a' endp1 q1 f1 out :
  Inv S s -> TailOK S s a' endp1 cb q1 f1 out ->
  offset <= a' -> readPos s <= a' -> endp1 <= offset + len data -> offset + len data < MaxBC ->
  (forall x, offset <= x < a' -> readPos s <= x -> cov (queue s) x) ->
  (forall x, endp1 <= x < offset + len data -> cov (queue s) x) ->
  (ing (gaps s) a' \/ exists e, In (a', e) (queue s)) ->
  Permutation (f1 ++ live q1) (fired s ++ live (queue s)) -> (exists l, f1 = fired s ++ l) ->
  PushPost s data offset cb out.
Proof.
  intros I (b'&G'&q4&f4&cb7&f7&T1&T2&T3&T4&T5&T6&T7&T8&T9&(l4&T10)&T11&T12) H1 H2 H3 H4 H5 H6 H7 H8 (l1&H9).
  assert (Hf7 : exists l, f7 = fired s ++ l).
  { destruct T11 as [(_&->)|(_&->)].
    - rewrite fire_optl, T10, H9. exists ((l1 ++ l4) ++ optl cb). rewrite !app_assoc. reflexivity.
    - rewrite T10, H9. exists (l1 ++ l4). rewrite !app_assoc. reflexivity. }
  subst out. unfold PushPost. destruct (Z.ltb_spec MaxGaps (Z.of_nat (length G'))); cbn [fst snd gaps readPos fired queue].
  - split; [lia|]. split; [reflexivity|]. split; [exact Hf7|]. split.
    + intros k e Hin. apply T7 in Hin. tauto.
    + destruct T11 as [(_&->)|(_&->)].
      * exists []. split; auto. rewrite app_nil_r, fire_optl.
        rewrite <- app_assoc. rewrite (Permutation_app_comm (optl cb) (live q4)). rewrite app_assoc.
        rewrite T9, H8. apply Permutation_app_comm.
      * exists (optl cb). split; auto. rewrite app_assoc. rewrite T9, H8. apply Permutation_app_comm.
  - set (new := {| e_data := slice S a' (b' - a'); e_cb := cb7 |}).
    destruct (reinsert S s G' (qset q4 a' new) a' b' new f7 I) as (I'&Hcov); auto; try lia.
    + apply qset_NoDup; auto.
    + intros k e. rewrite qset_In by auto. rewrite T7. split.
      * intros [?|((?&?)&?)]; auto.
      * intros [?|(?&?)]; auto. right. split; auto. lia.
    + split; [exact I'|]. split; [reflexivity|]. split.
      { intros x. rewrite Hcov. split.
        - intros [?|?]; auto. right. lia.
        - intros [?|(Hx&Hr)]; auto.
          destruct (Z.lt_ge_cases x a'); [left; apply H5; auto; lia|].
          destruct (Z.lt_ge_cases x b'); [right; lia|].
          destruct (Z.lt_ge_cases x endp1); [left; apply T2; lia|left; apply H6; lia]. }
      split; [exact H|]. split; [|exact Hf7].
      assert (Hlive : live (qset q4 a' new) = optl cb7 ++ live q4).
      { unfold qset. rewrite qdel_absent; [reflexivity|].
        intros e He. apply T7 in He. lia. }
      rewrite Hlive.
      assert (Hp : Permutation (f7 ++ optl cb7 ++ live q4) (optl cb ++ f4 ++ live q4)).
      { destruct T11 as [(->&->)|(->&->)]; rewrite ?fire_optl; simpl.
        - rewrite <- app_assoc. rewrite Permutation_app_comm. rewrite <- app_assoc.
          apply Permutation_app_head. apply Permutation_app_comm.
        - rewrite app_assoc. rewrite (Permutation_app_comm f4 (optl cb)). rewrite <- app_assoc. reflexivity. }
      rewrite Hp. apply Permutation_app_head. rewrite T9. exact H8.
Qed.

(* the gaps of [A] end before [lo], the next gap starts at s1: nothing in [lo, s1) is in a gap *)
Lemma dup_before_gap s A s1 e1 B0 offset endp :
  Inv S s -> gaps s = A ++ (s1, e1) :: B0 -> (forall u v, In (u, v) A -> v < offset) -> endp <= s1 ->
  forall x, offset <= x < endp -> readPos s <= x -> cov (queue s) x.
Proof. intros I Hg HA He x Hx Hr. eapply covered_before_gap; eauto. lia. Qed.

Theorem push_post s data offset cb :
  Inv S s -> 0 <= offset -> offset + len data < MaxBC -> data = slice S offset (len data) ->
  PushPost s data offset cb (push s data offset cb).
Proof.
  intros I Hoff Hmax Hdata. rewrite push_unfold.
  destruct (Z.eqb_spec (len data) 0) as [Hl0|Hl0].
  { unfold PushPost; simpl. split; auto. intros; lia. }
  pose proof (len_nonneg data) as Hln.
  cbv zeta. set (endp := offset + len data) in *.
  destruct (inv_first_gap S s I) as (g1s&g1e&gr&Hgfirst&G1&G2&G3).
  assert (Hg0 : gnth (gaps s) 0 = (g1s, g1e)) by (rewrite Hgfirst; reflexivity).
  rewrite Hg0. cbn [fst].
  destruct (Z.leb_spec endp g1s) as [Hd1|Hd1].
  { unfold PushPost; simpl. split; auto. intros x Hx Hr.
    eapply (dup_before_gap s [] g1s g1e gr offset endp); eauto. simpl. tauto. }
  pose proof (i_sorted _ _ I) as Hs.
  destruct (findStartGap_spec (gaps s) 0 offset (readPos s) MaxBC Hs (i_last _ _ I)) as (A&s1&e1&B0&Hg&Efs&HA&Hoe); [lia|].
  rewrite Efs. simpl Nat.add.
  rewrite Hg in Hs. pose proof (gsorted_mid _ _ _ _ _ Hs) as (M1&M2&M3&M4&M5&M6).
  assert (Hskip : skipn (length A) (gaps s) = (s1, e1) :: B0) by (rewrite Hg; apply skipn_app_len).
  rewrite Hskip.
  assert (Hs' : gsorted (readPos s) ((s1, e1) :: B0)) by (simpl; auto).
  assert (Hlast' : exists pre sl, (s1, e1) :: B0 = pre ++ [(sl, MaxBC)]).
  { destruct (i_last _ _ I) as (pre&sl&Hl). rewrite Hg in Hl. apply last_split in Hl.
    destruct Hl as [(->&E)|(B'&->)]; [exists [], sl; rewrite E; reflexivity|].
    exists ((s1, e1) :: B'), sl. reflexivity. }
  destruct (findEndGap_spec ((s1, e1) :: B0) (length A) endp (readPos s) MaxBC Hs' Hlast') as (X&c&d&B'&HX&HXe&Hfe); [lia|].
  assert (Hsg : gnth (gaps s) (length A) = (s1, e1)) by (rewrite Hg; apply gnth_app).
  assert (Hgs1 : In (s1, e1) (gaps s)) by (rewrite Hg; apply in_or_app; right; simpl; auto).
  (* the first gap is at or before the start gap, so the frame reaches beyond the start gap's start *)
  assert (Hs1e : g1s <= s1).
  { rewrite Hgfirst in Hg. destruct A as [|a0 A']; simpl in Hg.
    - inversion Hg; lia.
    - inversion Hg; subst a0. assert (Hin : In (g1s, g1e) ((g1s, g1e) :: A')) by (simpl; auto).
      apply M5 in Hin. lia. }
  destruct X as [|x0 X'].
  - (* the end gap search stops at the start gap itself *)
    simpl in HX. inversion HX; subst c d B'. clear HX. rewrite Nat.add_0_r in Hfe.
    destruct Hfe as [(Hin&->)|(Hout&->)].
    + (* start gap = end gap, ends inside *)
      rewrite Hsg. cbn [fst snd]. rewrite Nat.eqb_refl. cbn [andb negb orb].
      destruct (Z.leb_spec endp s1) as [Hd2|Hd2].
      { unfold PushPost; simpl. split; auto. eapply dup_before_gap; eauto. }
      cbn [orb].
      destruct (replLoop (Datatypes.S (length (queue s))) (queue s) (fired s) offset endp false)
        as [[[[q1 f1] pos] replaced] r] eqn:Erepl.
      destruct (start_class S s A s1 e1 B0 data offset q1 f1 pos replaced r I Hg HA Hoe Hoff Hd2 Hmax ltac:(lia) Hdata Erepl)
        as (Hr&Hr1&Hrest).
      destruct (Z.eqb_spec r 3); [lia|]. destruct (Z.eqb_spec r 1) as [Er1|Er1].
      { unfold PushPost; simpl. split; auto. }
      destruct (Hrest Er1) as (data2&a'&wasCut2&endp1&h&HK&F1&F2&F3&F4&F5&F6&F7&F8&F9&F10&F11&F12&F13&F14&F15&Fcls).
      rewrite HK.
      destruct Fcls as [(C1&C2&C3&C3'&C4)|(C1&_)]; [|fold endp in F5; lia].
      eapply tail_to_post; eauto.
      subst endp1. unfold endp in *. eapply tail_same_in; eauto; lia.
    + (* the frame ends before the start gap's start: duplicate *)
      assert (Hdup : forall x, offset <= x < endp -> readPos s <= x -> cov (queue s) x)
        by (eapply dup_before_gap; eauto; lia).
      rewrite Hsg. cbn [fst snd].
      destruct (Nat.eqb_spec (length A) (Nat.pred (length A))) as [Esame|Esame]; cbn [andb negb orb].
      * destruct (Z.leb_spec endp s1); [|lia]. unfold PushPost; simpl. auto.
      * destruct A as [|a0 A0] using rev_ind; [simpl in Esame; lia|]. clear IHA0.
        destruct a0 as [u v].
        assert (Hpg : gnth (gaps s) (Nat.pred (length (A0 ++ [(u, v)]))) = (u, v)).
        { rewrite Hg, <- app_assoc. apply gnth_app'. rewrite app_length. simpl. lia. }
        rewrite Hpg. cbn [fst snd].
        assert (Huv : In (u, v) (A0 ++ [(u, v)])) by (apply in_or_app; right; simpl; auto).
        apply M5 in Huv.
        destruct (Z.leb_spec u e1); [|lia]. destruct (Z.leb_spec endp s1); [|lia].
        unfold PushPost; simpl. auto.
  - (* the frame reaches beyond the start gap *)
    simpl in HX. inversion HX; subst x0. clear HX. rename H1 into HB0.
    assert (He1 : e1 <= endp) by (apply (HXe s1 e1); simpl; auto).
    destruct (replLoop (Datatypes.S (length (queue s))) (queue s) (fired s) offset endp false)
      as [[[[q1 f1] pos] replaced] r] eqn:Erepl.
    destruct (start_class S s A s1 e1 B0 data offset q1 f1 pos replaced r I Hg HA Hoe Hoff ltac:(lia) Hmax ltac:(lia) Hdata Erepl)
      as (Hr&Hr1&Hrest).
    assert (Hg2 : gaps s = A ++ (s1, e1) :: X' ++ (c, d) :: B') by (rewrite Hg, HB0; reflexivity).
    rewrite HB0 in Hs. rewrite HB0 in Hfe.
    pose proof (gsorted_mid _ _ _ _ _ Hs) as (_&_&_&N4&_&_).
    pose proof (gsorted_mid _ _ _ _ _ N4) as (P1&P2&P3&P4&P5&P6).
    destruct Hfe as [(Hin&->)|(Hout&->)].
    + (* start gap <> end gap, ends inside the end gap *)
      assert (Hegv : gnth (gaps s) (length A + length ((s1, e1) :: X')) = (c, d)).
      { rewrite Hg2. change (A ++ (s1, e1) :: X' ++ (c, d) :: B') with (A ++ ((s1, e1) :: X') ++ (c, d) :: B').
        rewrite app_assoc. apply gnth_app'. rewrite app_length. reflexivity. }
      rewrite Hsg, Hegv. cbn [fst snd].
      assert (Hne : Nat.eqb (length A) (length A + length ((s1, e1) :: X')) = false) by (apply Nat.eqb_neq; simpl; lia).
      rewrite Hne. cbn [andb negb orb].
      destruct (Z.leb_spec c e1); [lia|]. cbn [andb orb].
      destruct (Z.eqb_spec r 3); [lia|]. destruct (Z.eqb_spec r 1) as [Er1|Er1].
      { unfold PushPost; simpl. split; auto. }
      destruct (Hrest Er1) as (data2&a'&wasCut2&endp1&h&HK&F1&F2&F3&F4&F5&F6&F7&F8&F9&F10&F11&F12&F13&F14&F15&Fcls).
      rewrite HK. eapply tail_to_post; eauto.
      destruct Fcls as [(C1&C2&C3&C3'&C4)|(C1&C2&g&gd&B1&C3&C4)].
      * subst endp1. eapply (tail_diff S s A s1 e1 X' c d B'); eauto; try (simpl; lia).
        -- destruct C4; auto.
        -- destruct X' as [|[m0 n0] X'']; simpl; [lia|]. assert (Hmn : In (m0, n0) ((m0, n0) :: X'')) by (simpl; auto). apply P5 in Hmn. lia.
      * assert (Hgh : g = fst (hd (c, d) X')).
        { rewrite HB0 in C3. destruct X' as [|[m0 n0] X'']; simpl in *; inversion C3; reflexivity. }
        assert (Hgc : g <= c).
        { rewrite Hgh. destruct X' as [|[m0 n0] X'']; simpl; [lia|]. assert (Hmn : In (m0, n0) ((m0, n0) :: X'')) by (simpl; auto). apply P5 in Hmn. lia. }
        destruct C4 as [(D1&D2&D3)|(D1&D2&D3)]; [|fold endp in D2; lia].
        subst endp1 h. eapply (tail_diff S s A s1 e1 X' c d B'); eauto; try (simpl; lia); try (rewrite <- Hgh; lia).
    + (* ends in the data behind the last gap whose end it passed *)
      destruct X' as [|xl X''] using rev_ind.
      * (* start gap = end gap *)
        clear P5. simpl in HB0. simpl length. rewrite Nat.add_1_r. simpl Nat.pred.
        rewrite Hsg. cbn [fst snd]. rewrite Nat.eqb_refl. cbn [andb negb orb].
        destruct (Z.leb_spec endp s1); [lia|]. cbn [orb].
        destruct (Z.eqb_spec r 3); [lia|]. destruct (Z.eqb_spec r 1) as [Er1|Er1].
        { unfold PushPost; simpl. split; auto. }
        destruct (Hrest Er1) as (data2&a'&wasCut2&endp1&h&HK&F1&F2&F3&F4&F5&F6&F7&F8&F9&F10&F11&F12&F13&F14&F15&Fcls).
        rewrite HK. eapply tail_to_post; eauto.
        assert (HBs : forall u v, In (u, v) B0 -> endp < u).
        { intros u v Hin. rewrite HB0 in Hin. destruct Hin as [Hin|Hin]; [inversion Hin; subst; lia|].
          simpl in N4. apply P6 in Hin. lia. }
        destruct Fcls as [(C1&C2&C3&C3'&C4)|(C1&C2&g&gd&B1&C3&C4)].
        -- subst endp1. eapply (tail_same_out S s A s1 e1 B0); eauto; try lia; try (left; auto).
        -- rewrite HB0 in C3. inversion C3; subst g gd B1.
           destruct C4 as [(D1&D2&D3)|(D1&D2&D3)]; [fold endp in D3; lia|].
           subst h. eapply (tail_same_out S s A s1 e1 B0); eauto; try lia;
             try (intros u v Hin; apply HBs in Hin; fold endp in F5; lia); try (right; eauto).
      * (* start gap <> end gap *)
        clear IHX''. destruct xl as [c0 d0].
        assert (Hg3 : gaps s = A ++ (s1, e1) :: X'' ++ (c0, d0) :: (c, d) :: B').
        { rewrite Hg2, <- app_assoc. reflexivity. }
        assert (Hidx : Nat.pred (length A + length ((s1, e1) :: X'' ++ [(c0, d0)])) = (length A + Datatypes.S (length X''))%nat).
        { simpl. rewrite app_length. simpl. lia. }
        rewrite Hidx.
        assert (Hegv : gnth (gaps s) (length A + Datatypes.S (length X'')) = (c0, d0)).
        { rewrite Hg3. change (A ++ (s1, e1) :: X'' ++ (c0, d0) :: (c, d) :: B') with (A ++ ((s1, e1) :: X'') ++ (c0, d0) :: (c, d) :: B').
          rewrite app_assoc. apply gnth_app'. rewrite app_length. reflexivity. }
        rewrite Hsg, Hegv. cbn [fst snd].
        assert (Hne : Nat.eqb (length A) (length A + Datatypes.S (length X'')) = false) by (apply Nat.eqb_neq; lia).
        rewrite Hne. cbn [andb negb orb].
        pose proof (i_sorted _ _ I) as Hs3. rewrite Hg3 in Hs3.
        pose proof (gsorted_mid _ _ _ _ _ Hs3) as (_&_&_&N4'&_&_).
        pose proof (gsorted_mid _ _ _ _ _ N4') as (Q1&Q2&Q3&Q4&Q5&Q6).
        destruct (Z.leb_spec c0 e1); [lia|]. cbn [andb orb].
        destruct (Z.eqb_spec r 3); [lia|]. destruct (Z.eqb_spec r 1) as [Er1|Er1].
        { unfold PushPost; simpl. split; auto. }
        destruct (Hrest Er1) as (data2&a'&wasCut2&endp1&h&HK&F1&F2&F3&F4&F5&F6&F7&F8&F9&F10&F11&F12&F13&F14&F15&Fcls).
        rewrite HK. eapply tail_to_post; eauto.
        assert (Hd0 : d0 <= endp).
        { apply (HXe c0 d0). right. apply in_or_app. right. simpl. auto. }
        assert (HBs : forall u v, In (u, v) ((c, d) :: B') -> endp < u).
        { intros u v [Hin|Hin]; [inversion Hin; subst; lia|]. apply P6 in Hin. lia. }
        destruct Fcls as [(C1&C2&C3&C3'&C4)|(C1&C2&g&gd&B1&C3&C4)].
        -- subst endp1. eapply (tail_diff S s A s1 e1 X'' c0 d0 ((c, d) :: B')); eauto; try (simpl; lia).
           ++ destruct C4; auto.
           ++ destruct X'' as [|[m0 n0] X3]; simpl; [lia|]. assert (Hmn : In (m0, n0) ((m0, n0) :: X3)) by (simpl; auto). apply Q5 in Hmn. lia.
        -- assert (Hgh : g = fst (hd (c0, d0) X'')).
           { rewrite HB0 in C3. destruct X'' as [|[m0 n0] X3]; simpl in *; inversion C3; reflexivity. }
           assert (Hgc : g <= c0).
           { rewrite Hgh. destruct X'' as [|[m0 n0] X3]; simpl; [lia|]. assert (Hmn : In (m0, n0) ((m0, n0) :: X3)) by (simpl; auto). apply Q5 in Hmn. lia. }
           destruct C4 as [(D1&D2&D3)|(D1&D2&D3)]; [|fold endp in D2; lia].
           subst endp1 h. eapply (tail_diff S s A s1 e1 X'' c0 d0 ((c, d) :: B')); eauto; try (simpl; lia); try (rewrite <- Hgh; lia).
Qed.

End WithS.
