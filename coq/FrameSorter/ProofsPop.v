(** Pop: (L5 of the proof plan) the entry at the read position exists iff the read
    position is not in a gap; a successful Pop preserves [Inv], returns S[readPos, ...) of
    positive length and never reaches the "read position higher than a gap" panic. *)
From Coq Require Import List ZArith Lia Bool.
From V Require Import Gen.Params Lib.Hex FrameSorter.Model FrameSorter.InvCheck FrameSorter.ProofsBase.
Import ListNotations.
Open Scope Z_scope.

Section WithS.
Variable S : Z -> Z.

Lemma inv_first_gap s : Inv S s ->
  exists s1 e1 r, gaps s = (s1, e1) :: r /\ readPos s <= s1 /\ s1 < e1 /\ e1 <= MaxBC.
Proof.
  intros I. destruct (i_last _ _ I) as (pre&sl&Hl).
  pose proof (i_sorted _ _ I) as Hs.
  destruct (gaps s) as [|[s1 e1] r] eqn:E.
  - destruct pre; discriminate.
  - exists s1, e1, r. simpl in Hs. destruct Hs as (A&B&C).
    repeat split; auto.
    destruct pre as [|g pre]; simpl in Hl.
    + inversion Hl; subst. lia.
    + injection Hl as Hg Hr.
      assert (Hin : In (sl, MaxBC) r) by (rewrite Hr; apply in_or_app; right; simpl; auto).
      eapply gsorted_In in C; eauto. lia.
Qed.

Lemma inv_gap_bound s a b : Inv S s -> In (a, b) (gaps s) -> readPos s <= a /\ a < b /\ b <= MaxBC.
Proof.
  intros I Hin. pose proof (i_sorted _ _ I) as Hs.
  destruct (gsorted_In _ _ _ _ Hs Hin) as [A B]. repeat split; auto.
  destruct (i_last _ _ I) as (pre&sl&Hl). rewrite Hl in Hin, Hs.
  apply in_app_or in Hin. destruct Hin as [Hin|[Hin|[]]].
  - apply gsorted_mid in Hs. destruct Hs as (_&_&H3&_&H5&_). apply H5 in Hin. lia.
  - inversion Hin; subst. lia.
Qed.

Lemma inv_readPos_lt s : Inv S s -> readPos s < MaxBC.
Proof. intros I. destruct (inv_first_gap s I) as (s1&e1&r&_&?&?&?). lia. Qed.

(** L5a: nothing queued at the read position iff the read position lies in a gap *)
Lemma pop_none_iff_gap s : Inv S s ->
  (qget (queue s) (readPos s) = None <-> ing (gaps s) (readPos s)).
Proof.
  intros I. split.
  - intros Hn. destruct (i_cov _ _ I (readPos s)) as [Hg|(k&en&Hin&Hx)]; auto.
    + pose proof (inv_readPos_lt s I). pose proof (i_rp _ _ I). lia.
    + exfalso. destruct (i_ent _ _ I _ _ Hin) as (A&_).
      assert (k = readPos s) by lia. subst k.
      eapply qget_None; eauto.
  - intros Hg. destruct (qget (queue s) (readPos s)) as [en|] eqn:E; [|reflexivity].
    exfalso. apply qget_In in E. destruct (i_ent _ _ I _ _ E) as (_&B&_).
    apply (i_excl _ _ I (readPos s)); auto. exists (readPos s), en. split; auto. lia.
Qed.

(* an entry ends at or before the first gap that starts at or after its key *)
Lemma inv_entry_before_gap s k en a b : Inv S s ->
  In (k, en) (queue s) -> In (a, b) (gaps s) -> k <= a -> k + elen en <= a.
Proof.
  intros I Hq Hg Hle. destruct (Z.le_gt_cases (k + elen en) a); auto.
  exfalso. destruct (inv_gap_bound s a b I Hg) as (_&B&_).
  apply (i_excl _ _ I a); [exists a, b; split; auto; lia|exists k, en; split; auto; lia].
Qed.

Lemma Pop_empty s : qget (queue s) (readPos s) = None ->
  Pop s = (s, (readPos s, [], None), false).
Proof. unfold Pop. intros ->. reflexivity. Qed.

Lemma Pop_preserves s s' off d cb bug : Inv S s -> Pop s = (s', (off, d, cb), bug) ->
  Inv S s' /\ bug = false /\ off = readPos s /\ readPos s' = readPos s + len d /\
  d = slice S (readPos s) (len d) /\
  (0 < len d <-> ~ ing (gaps s) (readPos s)) /\
  gaps s' = gaps s /\ fired s' = fired s /\
  (forall k en, In (k, en) (queue s') <-> In (k, en) (queue s) /\ k <> readPos s).
Proof.
  intros I HP. unfold Pop in HP.
  destruct (qget (queue s) (readPos s)) as [en|] eqn:E.
  - inversion HP; subst; clear HP.
    pose proof (qget_In _ _ _ E) as Hin.
    destruct (i_ent _ _ I _ _ Hin) as (A&B&C&D).
    destruct (inv_first_gap s I) as (s1&e1&r&Hg&G1&G2&G3).
    assert (Hend : readPos s + elen en <= s1).
    { eapply inv_entry_before_gap; eauto. rewrite Hg. simpl. auto. }
    fold (elen en).
    assert (Hothers : forall k e', In (k, e') (queue s) -> k <> readPos s -> readPos s + elen en <= k).
    { intros k e' Hk Hne. destruct (i_ent _ _ I _ _ Hk) as (A'&B'&_).
      destruct (Z.le_gt_cases (readPos s + elen en) k); auto.
      exfalso. apply Hne. symmetry. eapply (i_disj _ _ I (readPos s) en k e'); eauto; lia. }
    split; [|split; [|split; [|split; [|split; [|split; [|split; [|split]]]]]]]; simpl; auto.
    + constructor; simpl.
      * pose proof (i_rp _ _ I). lia.
      * rewrite Hg. pose proof (i_sorted _ _ I) as Hs. rewrite Hg in Hs. simpl in *. intuition lia.
      * apply (i_last _ _ I).
      * apply qdel_NoDup. apply (i_keys _ _ I).
      * intros k e' Hk. apply qdel_In in Hk; [|apply (i_keys _ _ I)]. destruct Hk as [Hk Hne].
        destruct (i_ent _ _ I _ _ Hk) as (A'&B'&C'&D'). specialize (Hothers _ _ Hk Hne).
        repeat split; auto.
      * intros k1 e1' k2 e2' H1 H2. apply qdel_subset in H1. apply qdel_subset in H2.
        eapply (i_disj _ _ I); eauto.
      * intros x Hx. destruct (i_cov _ _ I x) as [Hc|(k&e'&Hk&Hkx)]; [lia|auto|].
        right. exists k, e'. split; auto. apply qdel_In; [apply (i_keys _ _ I)|]. split; auto.
        intros ->. assert (e' = en) by (apply In_qget in Hk; [congruence|apply (i_keys _ _ I)]). subst. lia.
      * intros x Hgx (k&e'&Hk&Hkx). apply qdel_subset in Hk.
        apply (i_excl _ _ I x); auto. exists k, e'. auto.
    + rewrite Hg. simpl. apply Z.leb_gt. lia.
    + split; [|intros _; exact B]. intros _ Hgap. apply pop_none_iff_gap in Hgap; auto. congruence.
    + intros k e'. rewrite qdel_In by apply (i_keys _ _ I). tauto.
  - inversion HP; subst; clear HP. rewrite len_nil.
    split; [exact I|]. split; [reflexivity|]. split; [reflexivity|]. split; [lia|].
    split; [reflexivity|]. split; [|split; [reflexivity|split; [reflexivity|]]].
    + split; [lia|]. intros Hgap. exfalso. apply Hgap. apply pop_none_iff_gap; auto.
    + intros k e'. split; [|tauto]. intros Hk. split; auto. intros ->. eapply qget_None; eauto.
Qed.

End WithS.
