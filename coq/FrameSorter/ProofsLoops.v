(** The two queue loops of push (replace loop, deleteConsecutive) on a well-formed queue:
    which keys they remove, where they stop, and the accounting of fired callbacks. *)
From Coq Require Import List ZArith Lia Bool Permutation.
From V Require Import Gen.Params Lib.Hex FrameSorter.Model FrameSorter.InvCheck FrameSorter.Spec FrameSorter.ProofsBase.
Import ListNotations.
Open Scope Z_scope.

(** well-formed queue: distinct keys, non-empty entries, pairwise disjoint *)
Definition QWF (Q : list (Z*entry)) : Prop :=
  NoDup (map fst Q) /\
  (forall k e, In (k, e) Q -> 0 < elen e) /\
  (forall k1 e1 k2 e2, In (k1, e1) Q -> In (k2, e2) Q ->
     k1 < k2 + elen e2 -> k2 < k1 + elen e1 -> k1 = k2).

Lemma QWF_sub Q Q' : QWF Q -> NoDup (map fst Q') -> (forall ke, In ke Q' -> In ke Q) -> QWF Q'.
Proof.
  intros (A&B&C) ND Hs. split; [auto|split].
  - intros k e H. eapply B; eauto.
  - intros k1 e1 k2 e2 H1 H2. eapply C; eauto.
Qed.
Lemma QWF_qdel Q k : QWF Q -> QWF (qdel Q k).
Proof.
  intros W. eapply QWF_sub; eauto.
  - apply qdel_NoDup. apply W.
  - intros [k' e]. apply qdel_subset.
Qed.
Lemma QWF_same Q k e e' : QWF Q -> In (k, e) Q -> In (k, e') Q -> e = e'.
Proof.
  intros (A&_) H1 H2. apply In_qget in H1; auto. apply In_qget in H2; auto. congruence.
Qed.

(** callbacks still attached to queued entries *)

Lemma fire_optl f cb : fire f cb = f ++ optl cb.
Proof. destruct cb; simpl; auto using app_nil_r. Qed.

Lemma live_qdel Q k e : qget Q k = Some e -> Permutation (live Q) (optl (e_cb e) ++ live (qdel Q k)).
Proof.
  induction Q as [|[k0 e0] Q IH]; simpl; [discriminate|].
  destruct (Z.eqb_spec k0 k).
  - intros [= ->]. apply Permutation_refl.
  - intros H. simpl. specialize (IH H).
    rewrite IH. rewrite !app_assoc. apply Permutation_app_tail. apply Permutation_app_comm.
Qed.

(** entries tile [p, p'): every byte is covered by an entry lying inside [p, p') *)
Definition tiled (Q : list (Z*entry)) (p p' : Z) : Prop :=
  forall x, p <= x < p' -> exists k e, In (k, e) Q /\ p <= k /\ k <= x < k + elen e /\ k + elen e <= p'.

Lemma tiled_nil Q p : tiled Q p p.
Proof. intros x Hx. lia. Qed.

(** deleteConsecutive *)
Lemma delConsec_spec : forall fuel Q f p Q' f',
  QWF Q -> (length Q < fuel)%nat -> delConsec fuel Q f p = (Q', f') ->
  exists p', p <= p' /\ qget Q p' = None /\ tiled Q p p' /\
    (forall k e, In (k, e) Q' <-> In (k, e) Q /\ ~ (p <= k < p')) /\
    NoDup (map fst Q') /\ Permutation (f' ++ live Q') (f ++ live Q) /\ (exists l, f' = f ++ l).
Proof.
  induction fuel as [|fuel IH]; intros Q f p Q' f' W Hf H; [lia|].
  cbn [delConsec] in H. destruct (qget Q p) as [old|] eqn:E.
  - pose proof (qget_In _ _ _ E) as Hin.
    assert (Hpos : 0 < elen old) by (eapply W; eauto).
    apply IH in H; [|apply QWF_qdel; auto|apply qdel_length in E; lia].
    destruct H as (p'&A1&A2&A3&A4&A5&A6&(l&A7)).
    fold (elen old) in *.
    exists p'. split; [lia|]. split.
    { rewrite qget_qdel_other in A2 by lia. exact A2. }
    split.
    { intros x Hx. destruct (Z.lt_ge_cases x (p + elen old)).
      - exists p, old. repeat split; auto; lia.
      - destruct (A3 x) as (k&e&B1&B2&B3&B4); [lia|].
        exists k, e. apply qdel_subset in B1. repeat split; auto; lia. }
    split.
    { intros k e. rewrite A4. rewrite qdel_In by apply W. split.
      - intros ((B1&B2)&B3). split; auto. intros B4.
        destruct (Z.lt_ge_cases k (p + elen old)); [|lia].
        apply B2. destruct W as (_&Wp&Wd). specialize (Wp _ _ B1).
        symmetry. eapply (Wd p old k e); eauto; lia.
      - intros (B1&B2). split; [split; auto; lia|lia]. }
    split; [exact A5|]. split.
    { rewrite A6. rewrite fire_optl. rewrite <- app_assoc. apply Permutation_app_head.
      symmetry. apply live_qdel. exact E. }
    exists (optl (e_cb old) ++ l). rewrite A7, fire_optl, app_assoc. reflexivity.
  - inversion H; subst. exists p. split; [lia|]. split; [exact E|]. split; [apply tiled_nil|].
    split; [intros; split; [intros; split; auto; lia|tauto]|].
    split; [apply W|]. split; [apply Permutation_refl|]. exists []. rewrite app_nil_r. reflexivity.
Qed.

(** the replace loop *)
Lemma replLoop_spec : forall fuel Q f p endp b Q' f' pos b' r,
  QWF Q -> (length Q < fuel)%nat -> replLoop fuel Q f p endp b = (Q', f', pos, b', r) ->
  p <= pos /\ (p < pos -> pos <= endp) /\ qget Q' pos = qget Q pos /\ tiled Q p pos /\
  (forall k e, In (k, e) Q' <-> In (k, e) Q /\ ~ (p <= k < pos)) /\
  NoDup (map fst Q') /\ Permutation (f' ++ live Q') (f ++ live Q) /\ (exists l, f' = f ++ l) /\
  b' = (b || (p <? pos)) /\
  (r = 0 \/ r = 1 \/ r = 2) /\
  (r = 0 -> qget Q pos = None) /\
  (r = 1 -> b' = false /\ exists old, qget Q pos = Some old /\ endp - pos <= elen old) /\
  (r = 2 -> b' = true /\ exists old, qget Q pos = Some old /\ endp - pos < elen old).
Proof.
  induction fuel as [|fuel IH]; intros Q f p endp b Q' f' pos b' r W Hf H; [lia|].
  cbn [replLoop] in H. destruct (qget Q p) as [old|] eqn:E.
  - fold (elen old) in H.
    pose proof (qget_In _ _ _ E) as Hin.
    assert (Hpos : 0 < elen old) by (eapply W; eauto).
    destruct ((elen old <? endp - p) || (b && (endp - p =? elen old))) eqn:Hc.
    + apply IH in H; [|apply QWF_qdel; auto|apply qdel_length in E; lia].
      destruct H as (A1&A1'&A1''&A3&A4&A5&A6&(l&A7)&A8&A9&A10&A11&A12).
      assert (Hpe : p + elen old <= endp) by lia.
      split; [lia|]. split; [lia|]. split.
      { rewrite A1''. apply qget_qdel_other. lia. }
      split.
      { intros x Hx. destruct (Z.lt_ge_cases x (p + elen old)).
        - exists p, old. repeat split; auto; lia.
        - destruct (A3 x) as (k&e&B1&B2&B3&B4); [lia|].
          exists k, e. apply qdel_subset in B1. repeat split; auto; lia. }
      split.
      { intros k e. rewrite A4. rewrite qdel_In by apply W. split.
        - intros ((B1&B2)&B3). split; auto. intros B4.
          destruct (Z.lt_ge_cases k (p + elen old)); [|lia].
          apply B2. destruct W as (_&Wp&Wd). specialize (Wp _ _ B1).
          symmetry. eapply (Wd p old k e); eauto; lia.
        - intros (B1&B2). split; [split; auto; lia|lia]. }
      split; [exact A5|]. split.
      { rewrite A6. rewrite fire_optl. rewrite <- app_assoc. apply Permutation_app_head.
        symmetry. apply live_qdel. exact E. }
      split. { exists (optl (e_cb old) ++ l). rewrite A7, fire_optl, app_assoc. reflexivity. }
      split. { rewrite A8. simpl. destruct b; simpl; auto. symmetry. apply Z.ltb_lt. lia. }
      split; [exact A9|].
      split. { intros Hr. rewrite <- (qget_qdel_other Q p pos) by lia. auto. }
      split.
      { intros Hr. destruct (A11 Hr) as (B1&old'&B2&B3). split; auto. exists old'.
        rewrite <- (qget_qdel_other Q p pos) by lia. auto. }
      { intros Hr. destruct (A12 Hr) as (B1&old'&B2&B3). split; auto. exists old'.
        rewrite <- (qget_qdel_other Q p pos) by lia. auto. }
    + assert (Hres : Q' = Q /\ f' = f /\ pos = p /\ b' = b /\ r = (if negb b then 1 else 2)).
      { destruct (negb b); inversion H; subst; auto. }
      destruct Hres as (-> & -> & -> & -> & ->). clear H.
      split; [lia|]. split; [lia|]. split; [reflexivity|]. split; [apply tiled_nil|].
      split; [intros; split; [intros; split; auto; lia|tauto]|].
      split; [apply W|]. split; [apply Permutation_refl|].
      split; [exists []; rewrite app_nil_r; reflexivity|].
      split; [rewrite Z.ltb_irrefl, orb_false_r; reflexivity|].
      split; [destruct b; simpl; auto|].
      split; [destruct b; simpl; discriminate|].
      split.
      * intros Hr. destruct b; simpl in *; [discriminate|]. split; auto. exists old. split; auto. lia.
      * intros Hr. destruct b; simpl in *; [|discriminate]. split; auto. exists old. split; auto. lia.
  - inversion H; subst. split; [lia|]. split; [lia|]. split; [reflexivity|]. split; [apply tiled_nil|].
    split; [intros; split; [intros; split; auto; lia|tauto]|].
    split; [apply W|]. split; [apply Permutation_refl|].
    split; [exists []; rewrite app_nil_r; reflexivity|].
    split; [rewrite Z.ltb_irrefl, orb_false_r; reflexivity|].
    split; [auto|]. split; [auto|]. split; discriminate.
Qed.
