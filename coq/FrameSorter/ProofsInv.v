(** Consequences of [Inv]: chain lemmas (L1-L3 of the proof plan), the loop over the
    middle gaps, gap list surgery, and the re-insert lemma. *)
From Coq Require Import List ZArith Lia Bool Permutation.
From V Require Import Gen.Params Lib.Hex FrameSorter.Model FrameSorter.InvCheck FrameSorter.Spec FrameSorter.ProofsBase
  FrameSorter.ProofsLoops FrameSorter.ProofsFind FrameSorter.ProofsPop.
Import ListNotations.
Open Scope Z_scope.

(** * sorted gap lists *)
Lemma gaps_apart lo G a b u v : gsorted lo G -> In (a, b) G -> In (u, v) G ->
  (a, b) = (u, v) \/ b < u \/ v < a.
Proof.
  revert lo; induction G as [|[s e] G IH]; simpl; [tauto|].
  intros lo (H1&H2&H3) [Ha|Ha] [Hu|Hu].
  - left. congruence.
  - inversion Ha; subst. apply (gsorted_In _ _ _ _ H3) in Hu. right. left. lia.
  - inversion Hu; subst. apply (gsorted_In _ _ _ _ H3) in Ha. right. right. lia.
  - eapply IH; eauto.
Qed.

Lemma gap_next lo X a b c d Y u v : gsorted lo (X ++ (a, b) :: (c, d) :: Y) ->
  In (u, v) (X ++ (a, b) :: (c, d) :: Y) -> u <= a \/ c <= u.
Proof.
  intros Hs Hin. apply gsorted_mid in Hs. destruct Hs as (_&_&_&H4&H5&_).
  apply in_app_or in Hin. destruct Hin as [Hin|[Hin|[Hin|Hin]]].
  - apply H5 in Hin. lia.
  - inversion Hin; subst. lia.
  - inversion Hin; subst. lia.
  - simpl in H4. destruct H4 as (_&Hcd&H4). apply (gsorted_In _ _ _ _ H4) in Hin. lia.
Qed.

Lemma gsorted_app_intro lo A m B : gsorted lo A -> (forall u v, In (u, v) A -> v + 1 <= m) -> lo <= m ->
  gsorted m B -> gsorted lo (A ++ B).
Proof.
  revert lo; induction A as [|[s e] A IH]; intros lo HA Hall Hlo HB.
  - simpl. eapply gsorted_weaken; eauto.
  - simpl in *. destruct HA as (H1&H2&H3). repeat split; auto.
    apply IH; auto.
    + intros u v Huv. apply (Hall u v). auto.
    + specialize (Hall s e (or_introl eq_refl)). lia.
Qed.

Section WithS.
Variable S : Z -> Z.

Lemma inv_QWF s : Inv S s -> QWF (queue s).
Proof.
  intros I. split; [apply (i_keys _ _ I)|split].
  - intros k e H. apply (i_ent _ _ I) in H. tauto.
  - apply (i_disj _ _ I).
Qed.

Lemma entry_gap_disj s k e a b : Inv S s -> In (k, e) (queue s) -> In (a, b) (gaps s) ->
  k + elen e <= a \/ b <= k.
Proof.
  intros I Hq Hg. destruct (i_ent _ _ I _ _ Hq) as (_&P&_).
  destruct (inv_gap_bound S s a b I Hg) as (_&Q&_).
  destruct (Z.le_gt_cases (k + elen e) a); auto. destruct (Z.le_gt_cases b k); auto.
  exfalso. apply (i_excl _ _ I (Z.max k a)).
  - exists a, b. split; auto. lia.
  - exists k, e. split; auto. lia.
Qed.

(** L2: the end of a gap (other than the last) is the key of a queued entry *)
Lemma gap_end_key s a b : Inv S s -> In (a, b) (gaps s) -> b < MaxBC -> exists e, In (b, e) (queue s).
Proof.
  intros I Hg Hb. destruct (inv_gap_bound S s a b I Hg) as (P1&P2&_).
  destruct (i_cov _ _ I b) as [(u&v&Hu&Hx)|(k&e&Hk&Hx)]; [lia| |].
  - exfalso. destruct (gaps_apart _ _ _ _ _ _ (i_sorted _ _ I) Hg Hu) as [E|[E|E]]; [inversion E; subst|..]; lia.
  - destruct (Z.eq_dec k b); [subst; eauto|].
    exfalso. destruct (entry_gap_disj s k e a b I Hk Hg); lia.
Qed.

(** L1/L3: a tiled chain that stops where no entry starts has reached the start of a gap *)
Lemma chain_pin s p p' : Inv S s -> readPos s <= p < p' -> tiled (queue s) p p' ->
  (forall e, ~ In (p', e) (queue s)) -> exists d, In (p', d) (gaps s).
Proof.
  intros I Hp Ht Hn.
  destruct (Ht (p' - 1)) as (k&e&K1&K2&K3&K4); [lia|].
  destruct (i_ent _ _ I _ _ K1) as (_&_&K5&_).
  destruct (i_cov _ _ I p') as [(u&v&Hu&Hx)|(k2&e2&Hk&Hx)]; [lia| |].
  - destruct (Z.eq_dec u p'); [subst; eauto|].
    exfalso. destruct (entry_gap_disj s k e u v I K1 Hu); lia.
  - exfalso. destruct (Z.eq_dec k2 p'); [subst; eapply Hn; eauto|].
    assert (k = k2) by (eapply (i_disj _ _ I k e k2 e2); eauto; lia). subst k2.
    assert (e = e2) by (eapply QWF_same; eauto using inv_QWF). subst e2. lia.
Qed.

Lemma tiled_no_gap s p p' x : Inv S s -> tiled (queue s) p p' -> p <= x < p' -> ~ ing (gaps s) x.
Proof.
  intros I Ht Hx Hg. destruct (Ht x Hx) as (k&e&K1&K2&K3&K4).
  apply (i_excl _ _ I x); auto. exists k, e. split; auto.
Qed.

(** a queue that coincides with the invariant's queue at and above some offset *)
Definition agree_from (Q q : list (Z*entry)) (lo : Z) : Prop :=
  NoDup (map fst q) /\ (forall ke, In ke q -> In ke Q) /\ (forall k e, lo <= k -> In (k, e) Q -> In (k, e) q).

Lemma agree_refl Q lo : NoDup (map fst Q) -> agree_from Q Q lo.
Proof. intros. split; auto. Qed.
Lemma agree_weaken Q q lo lo' : lo <= lo' -> agree_from Q q lo -> agree_from Q q lo'.
Proof. intros H (A&B&C). split; [auto|split; auto]. intros k e Hk. apply C. lia. Qed.
Lemma agree_QWF Q q lo : QWF Q -> agree_from Q q lo -> QWF q.
Proof. intros W (A&B&_). eapply QWF_sub; eauto. Qed.

Lemma tiled_sub q Q p p' : (forall ke, In ke q -> In ke Q) -> tiled q p p' -> tiled Q p p'.
Proof. intros Hs Ht x Hx. destruct (Ht x Hx) as (k&e&K1&K). exists k, e. split; auto. Qed.

(** L3: deleteConsecutive started at the end of a gap removes exactly the entries up to
    the start of the next gap *)
Lemma delConsec_block s X a b c d Y q f fuel q' f' :
  Inv S s -> gaps s = X ++ (a, b) :: (c, d) :: Y -> agree_from (queue s) q b ->
  (length q < fuel)%nat -> delConsec fuel q f b = (q', f') ->
  (forall k e, In (k, e) q' <-> In (k, e) q /\ ~ (b <= k < c)) /\
  agree_from (queue s) q' c /\ Permutation (f' ++ live q') (f ++ live q) /\ (exists l, f' = f ++ l).
Proof.
  intros I Hg Ha Hf Hd.
  pose proof (agree_QWF _ _ _ (inv_QWF s I) Ha) as Wq.
  destruct (delConsec_spec _ _ _ _ _ _ Wq Hf Hd) as (p'&A1&A2&A3&A4&A5&A6&A7).
  destruct Ha as (Ha1&Ha2&Ha3).
  assert (Hgab : In (a, b) (gaps s)) by (rewrite Hg; apply in_or_app; right; simpl; auto).
  assert (Hgcd : In (c, d) (gaps s)) by (rewrite Hg; apply in_or_app; right; simpl; auto).
  destruct (inv_gap_bound S s a b I Hgab) as (B1&B2&B3).
  destruct (inv_gap_bound S s c d I Hgcd) as (C1&C2&C3).
  pose proof (i_sorted _ _ I) as Hs. rewrite Hg in Hs.
  assert (Hbc : b < c).
  { apply gsorted_mid in Hs. destruct Hs as (_&_&_&H4&_). simpl in H4. lia. }
  assert (Hnk : forall e, ~ In (p', e) (queue s)).
  { intros e He. apply Ha3 in He; [|lia]. eapply qget_None; eauto. }
  assert (Htq : tiled (queue s) b p') by (eapply tiled_sub; eauto).
  assert (Hp' : p' = c).
  { destruct (Z.eq_dec p' b) as [->|Hne].
    - exfalso. destruct (gap_end_key s a b I Hgab) as (e&He); [lia|]. eapply Hnk; eauto.
    - destruct (chain_pin s b p' I) as (d'&Hd'); auto; [lia|].
      rewrite Hg in Hd'. destruct (gap_next _ _ _ _ _ _ _ _ _ Hs Hd') as [E|E]; [lia|].
      destruct (Z.eq_dec p' c); auto. exfalso.
      apply (tiled_no_gap s b p' c I Htq); [lia|]. exists c, d. split; auto. lia. }
  subst p'. split; [exact A4|]. split; [|split; auto].
  split; [auto|split].
  - intros ke Hin. destruct ke as [k e]. apply A4 in Hin. apply Ha2. tauto.
  - intros k e Hk Hin. apply A4. split; [apply Ha3; auto; lia|lia].
Qed.

Lemma delConsec_none fuel q f p : qget q p = None -> delConsec fuel q f p = (q, f).
Proof. destruct fuel; simpl; auto. intros ->. reflexivity. Qed.

(** the loop over the gaps strictly between start gap and end gap *)
Lemma midLoop_spec s : Inv S s -> forall M' m n P c d Y X q f fuel,
  gaps s = P ++ (m, n) :: M' ++ (c, d) :: Y ->
  agree_from (queue s) q n -> (length M' + 1 < fuel)%nat ->
  exists q' f',
    midLoop fuel (X ++ (m, n) :: M' ++ (c, d) :: Y) (length X) c q f = (X ++ (c, d) :: Y, q', f') /\
    (forall k e, In (k, e) q' <-> In (k, e) q /\ ~ (n <= k < c)) /\
    agree_from (queue s) q' c /\ Permutation (f' ++ live q') (f ++ live q) /\ (exists l, f' = f ++ l).
Proof.
  intros I. induction M' as [|[m2 n2] M' IH]; intros m n P c d Y X q f fuel Hg Ha Hf.
  - destruct fuel as [|[|fuel]]; try (simpl in Hf; lia).
    cbn [midLoop app]. rewrite gnth_app. cbn [snd].
    pose proof (i_sorted _ _ I) as Hs. rewrite Hg in Hs. simpl in Hs.
    assert (Hnc : n < c /\ c < d).
    { apply gsorted_mid in Hs. destruct Hs as (_&_&_&H4&_). simpl in H4. lia. }
    destruct (Z.ltb_spec n c); [|lia].
    destruct (delConsec (Datatypes.S (length q)) q f n) as [q1 f1] eqn:Ed.
    destruct (delConsec_block s P m n c d Y q f _ q1 f1 I Hg Ha (Nat.lt_succ_diag_r _) Ed) as (B1&B2&B3&B4).
    rewrite gdel_app. cbn [midLoop]. rewrite gnth_app. cbn [snd].
    destruct (Z.ltb_spec d c); [lia|].
    exists q1, f1. auto.
  - destruct fuel as [|fuel]; [lia|].
    cbn [midLoop app]. rewrite gnth_app. cbn [snd].
    pose proof (i_sorted _ _ I) as Hs. rewrite Hg in Hs.
    assert (Hord : n < m2 /\ m2 < n2 /\ n2 < c).
    { apply gsorted_mid in Hs. destruct Hs as (_&_&_&H4&_). simpl in H4. destruct H4 as (H41&H42&H43).
      change ((m2, n2) :: M' ++ (c, d) :: Y) with ([(m2, n2)] ++ M' ++ (c, d) :: Y) in *.
      assert (Hcd : In (c, d) (M' ++ (c, d) :: Y)) by (apply in_or_app; right; simpl; auto).
      apply (gsorted_In _ _ _ _ H43) in Hcd. lia. }
    destruct (Z.ltb_spec n c); [|lia].
    destruct (delConsec (Datatypes.S (length q)) q f n) as [q1 f1] eqn:Ed.
    assert (Hg' : gaps s = P ++ (m, n) :: (m2, n2) :: (M' ++ (c, d) :: Y)) by (rewrite Hg; reflexivity).
    destruct (delConsec_block s P m n m2 n2 _ q f _ q1 f1 I Hg' Ha (Nat.lt_succ_diag_r _) Ed) as (B1&B2&B3&(l1&B4)).
    rewrite gdel_app.
    assert (Hg'' : gaps s = (P ++ [(m, n)]) ++ (m2, n2) :: M' ++ (c, d) :: Y).
    { rewrite Hg. rewrite <- app_assoc. reflexivity. }
    destruct (IH m2 n2 (P ++ [(m, n)]) c d Y X q1 f1 fuel Hg'') as (q'&f'&C1&C2&C3&C4&(l2&C5)).
    { eapply agree_weaken; [|exact B2]. lia. }
    { simpl in Hf. lia. }
    exists q', f'. split; [exact C1|]. split; [|split; [exact C3|split]].
    + intros k e. rewrite C2, B1. split.
      * intros ((D1&D2)&D3). split; auto. intros D4.
        assert (Hin : In (k, e) (queue s)) by (apply Ha; auto).
        assert (Hgp : In (m2, n2) (gaps s)) by (rewrite Hg'; apply in_or_app; right; simpl; auto).
        destruct (entry_gap_disj s k e m2 n2 I Hin Hgp); [|lia].
        destruct (i_ent _ _ I _ _ Hin) as (_&?&_). lia.
      * intros (D1&D2). split; [split; auto; lia|lia].
    + rewrite C4. exact B3.
    + exists (l1 ++ l2). rewrite C5, B4, app_assoc. reflexivity.
Qed.

End WithS.
