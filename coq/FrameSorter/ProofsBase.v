(** Basic facts about the association-list queue, slices and gap lists. *)
From Coq Require Import List ZArith Lia Bool.
From V Require Import Gen.Params Lib.Hex FrameSorter.Model FrameSorter.InvCheck.
Import ListNotations.
Open Scope Z_scope.

Lemma MaxBC_val : MaxBC = 4611686018427387903.
Proof. reflexivity. Qed.
Lemma MaxBC_pos : 0 < MaxBC.
Proof. rewrite MaxBC_val. lia. Qed.

(** * len, slices *)
Lemma len_nonneg d : 0 <= len d.
Proof. unfold len. lia. Qed.
Lemma len_nil : len [] = 0.
Proof. reflexivity. Qed.
Lemma len_app a b : len (a ++ b) = len a + len b.
Proof. unfold len. rewrite app_length. lia. Qed.
Lemma len_zero_nil d : len d = 0 -> d = [].
Proof. destruct d; unfold len; simpl; intros; [reflexivity|lia]. Qed.

Lemma slice_from_length S a n : length (slice_from S a n) = n.
Proof. revert a; induction n; simpl; intros; auto. Qed.
Lemma len_slice S a n : 0 <= n -> len (slice S a n) = n.
Proof. intros. unfold len, slice. rewrite slice_from_length. lia. Qed.

Lemma slice_from_app S a n m :
  slice_from S a (n + m) = slice_from S a n ++ slice_from S (a + Z.of_nat n) m.
Proof.
  revert a; induction n; intros a.
  - simpl. f_equal. lia.
  - cbn [Nat.add slice_from app]. f_equal. rewrite IHn. f_equal. f_equal. lia.
Qed.
Lemma slice_app S a n m : 0 <= n -> 0 <= m ->
  slice S a (n + m) = slice S a n ++ slice S (a + n) m.
Proof.
  intros. unfold slice. rewrite Z2Nat.inj_add by lia. rewrite slice_from_app.
  do 2 f_equal. lia.
Qed.

Lemma dtake_slice S a n m : 0 <= m <= n -> dtake m (slice S a n) = slice S a m.
Proof.
  intros. replace n with (m + (n - m)) by lia. rewrite slice_app by lia.
  unfold dtake. rewrite firstn_app.
  replace (Z.to_nat m - length (slice S a m))%nat with 0%nat.
  2:{ unfold slice. rewrite slice_from_length. lia. }
  rewrite firstn_O, app_nil_r. apply firstn_all2.
  unfold slice. rewrite slice_from_length. lia.
Qed.
Lemma dskip_slice S a n m : 0 <= m <= n -> dskip m (slice S a n) = slice S (a + m) (n - m).
Proof.
  intros. replace n with (m + (n - m)) at 1 by lia. rewrite slice_app by lia.
  unfold dskip. rewrite skipn_app.
  replace (Z.to_nat m - length (slice S a m))%nat with 0%nat.
  2:{ unfold slice. rewrite slice_from_length. lia. }
  rewrite skipn_all2. 2:{ unfold slice. rewrite slice_from_length. lia. }
  reflexivity.
Qed.

(** * queue as association list *)
Lemma qget_In Q k e : qget Q k = Some e -> In (k, e) Q.
Proof.
  induction Q as [|[k' e'] Q IH]; simpl; [discriminate|].
  destruct (Z.eqb_spec k' k).
  - intros [= ->]. subst. auto.
  - auto.
Qed.
Lemma In_qget Q k e : NoDup (map fst Q) -> In (k, e) Q -> qget Q k = Some e.
Proof.
  induction Q as [|[k' e'] Q IH]; simpl; [tauto|].
  intros ND [H|H].
  - inversion H; subst. rewrite Z.eqb_refl. reflexivity.
  - inversion ND as [|? ? Hn ND']; subst.
    destruct (Z.eqb_spec k' k).
    + subst. exfalso. apply Hn. change k with (fst (k, e)). apply in_map. exact H.
    + auto.
Qed.
Lemma qget_None Q k : qget Q k = None -> forall e, ~ In (k, e) Q.
Proof.
  induction Q as [|[k' e'] Q IH]; simpl; [tauto|].
  destruct (Z.eqb_spec k' k); [discriminate|].
  intros H e [H1|H1]; [inversion H1; subst; lia|]. eapply IH; eauto.
Qed.
Lemma qget_None_iff Q k : qget Q k = None <-> forall e, ~ In (k, e) Q.
Proof.
  split; [apply qget_None|].
  intros H. destruct (qget Q k) eqn:E; [|reflexivity].
  apply qget_In in E. exfalso. eapply H; eauto.
Qed.

Lemma qdel_subset Q k k' e : In (k', e) (qdel Q k) -> In (k', e) Q.
Proof.
  induction Q as [|[k0 e0] Q IH]; simpl; [tauto|].
  destruct (Z.eqb_spec k0 k); [auto|]. simpl. intros [H|H]; auto.
Qed.
Lemma qdel_keys_subset Q k x : In x (map fst (qdel Q k)) -> In x (map fst Q).
Proof.
  rewrite !in_map_iff. intros [[k' e] [H1 H2]]. exists (k', e). split; auto.
  eapply qdel_subset; eauto.
Qed.
Lemma qdel_NoDup Q k : NoDup (map fst Q) -> NoDup (map fst (qdel Q k)).
Proof.
  induction Q as [|[k0 e0] Q IH]; simpl; [auto|].
  intros ND. inversion ND; subst.
  destruct (Z.eqb_spec k0 k); [auto|]. simpl. constructor; auto.
  intros Hin. apply qdel_keys_subset in Hin. auto.
Qed.
Lemma qdel_In Q k k' e : NoDup (map fst Q) ->
  (In (k', e) (qdel Q k) <-> In (k', e) Q /\ k' <> k).
Proof.
  induction Q as [|[k0 e0] Q IH]; simpl; [tauto|].
  intros ND. inversion ND as [|? ? Hn ND']; subst.
  destruct (Z.eqb_spec k0 k).
  - subst. split.
    + intros H. split; [auto|]. intros ->. apply Hn. change k with (fst (k, e)). apply in_map. exact H.
    + intros [[H|H] Hne]; [inversion H; subst; lia|auto].
  - simpl. rewrite IH by auto. split.
    + intros [H|[H Hne]]; [inversion H; subst; split; auto|split; auto].
    + intros [[H|H] Hne]; auto.
Qed.
Lemma qdel_length Q k e : qget Q k = Some e -> S (length (qdel Q k)) = length Q.
Proof.
  induction Q as [|[k0 e0] Q IH]; simpl; [discriminate|].
  destruct (Z.eqb_spec k0 k); [reflexivity|]. simpl. intros H. rewrite IH; auto.
Qed.
Lemma qget_qdel_other Q k k' : k' <> k -> qget (qdel Q k) k' = qget Q k'.
Proof.
  induction Q as [|[k0 e0] Q IH]; simpl; [auto|]. intros Hne.
  destruct (Z.eqb_spec k0 k).
  - subst. destruct (Z.eqb_spec k k'); [lia|reflexivity].
  - simpl. destruct (Z.eqb_spec k0 k'); auto.
Qed.

(** * gap lists *)
Lemma gsorted_weaken lo lo' gs : lo' <= lo -> gsorted lo gs -> gsorted lo' gs.
Proof. destruct gs as [|[s e] r]; simpl; [auto|]. intros ? (?&?&?). repeat split; auto; lia. Qed.

(* every gap of a sorted list lies at or above lo *)
Lemma gsorted_In lo gs s e : gsorted lo gs -> In (s, e) gs -> lo <= s /\ s < e.
Proof.
  revert lo; induction gs as [|[s0 e0] r IH]; simpl; [tauto|].
  intros lo (H1&H2&H3) [H|H].
  - inversion H; subst. lia.
  - apply IH with (lo := e0 + 1) in H; auto. lia.
Qed.

Lemma gsorted_app lo a b :
  gsorted lo (a ++ b) <->
  gsorted lo a /\ gsorted (match rev a with (_, e) :: _ => e + 1 | [] => lo end) b.
Proof.
  revert lo; induction a as [|[s e] a IH]; intros lo.
  - simpl. tauto.
  - cbn [app gsorted]. rewrite IH.
    assert (Hr : match rev ((s, e) :: a) with (_, e0) :: _ => e0 + 1 | [] => lo end =
                 match rev a with (_, e0) :: _ => e0 + 1 | [] => e + 1 end).
    { simpl. destruct (rev a) as [|[s1 e1] ra]; reflexivity. }
    rewrite Hr. tauto.
Qed.

(* a more convenient decomposition: the list split around one gap *)
Lemma gsorted_mid lo a s e b :
  gsorted lo (a ++ (s, e) :: b) ->
  gsorted lo a /\ lo <= s /\ s < e /\ gsorted (e + 1) b /\
  (forall s' e', In (s', e') a -> lo <= s' /\ s' < e' /\ e' < s) /\
  (forall s' e', In (s', e') b -> e < s' /\ s' < e').
Proof.
  revert lo; induction a as [|[s0 e0] a IH]; intros lo H.
  - simpl in H. destruct H as (H1&H2&H3).
    split; [exact I|]. split; [lia|]. split; [lia|]. split; [exact H3|]. split.
    + intros s' e' [].
    + intros s' e' Hin. eapply gsorted_In in H3; eauto. lia.
  - cbn [app gsorted] in H. destruct H as (H1&H2&H3).
    apply IH in H3. destruct H3 as (A1&A2&A3&A4&A5&A6).
    split; [simpl; auto|]. split; [lia|]. split; [lia|]. split; [exact A4|]. split.
    + intros s' e' [Hin|Hin]; [inversion Hin; subst; lia|]. apply A5 in Hin. lia.
    + exact A6.
Qed.

Lemma ing_app G1 G2 x : ing (G1 ++ G2) x <-> ing G1 x \/ ing G2 x.
Proof.
  unfold ing. split.
  - intros (s&e&H&Hx). apply in_app_or in H. destruct H; [left|right]; eauto.
  - intros [(s&e&H&Hx)|(s&e&H&Hx)]; exists s, e; split; auto; apply in_or_app; auto.
Qed.
Lemma ing_cons s e G x : ing ((s, e) :: G) x <-> (s <= x < e) \/ ing G x.
Proof.
  unfold ing. split.
  - intros (s'&e'&[H|H]&Hx); [inversion H; subst; auto|right; eauto].
  - intros [H|(s'&e'&H&Hx)]; [exists s, e; simpl; auto|exists s', e'; simpl; auto].
Qed.
Lemma ing_nil x : ~ ing [] x.
Proof. intros (s&e&[]&_). Qed.
