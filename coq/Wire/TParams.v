(** Transport parameters of internal/wire/transport_parameters.go: [unmarshal] (with the
    session-ticket form), [Marshal], [MarshalForSessionTicket].  Executable definitions only.

    The model mirrors what the code does, including its quirks:
    - the numeric parameters are parsed from the WHOLE remaining slice and the varint's own
      length is then compared with the declared parameter length;
    - preferred_address is read from the whole remaining slice as well and the number of bytes
      read is compared with the declared length only at the end;
    - max_idle_timeout 0 is "no idle timeout" (0, like an absent parameter), otherwise
      [max(MinRemoteIdleTimeout, val ms)]; durations that do not fit an int64 saturate at MaxInt64
      (saturatingDuration), for max_idle_timeout (ms) and min_ack_delay (us) alike;
    - duplicates are detected only after the loop, after the min_ack_delay / missing-parameter
      checks (sort + adjacent compare), so those errors take precedence.

    Error classes ([Err code aux], aux = the value the message carries where noted):
     1 "EOF"                         2 "unexpected EOF"        (id / length varint, ticket version)
     3 remaining length smaller than parameter length
     4 error while reading transport parameter <aux=id>: EOF
     5 error while reading transport parameter <aux=id>: unexpected EOF
     6 inconsistent transport parameter length for transport parameter <aux=id>
     7 initial_max_streams_bidi too large      8 initial_max_streams_uni too large
     9 max_udp_payload_size < 1200            10 ack_delay_exponent > 20
    11 max_ack_delay > 2^14-1 ms              12 active_connection_id_limit < 2
    13 client sent a preferred_address        14 client sent a stateless_reset_token
    15 client sent an original_destination_connection_id
    16 client sent a retry_source_connection_id
    17 wrong length for disable_active_migration   18 wrong length for stateless_reset_token
    19 invalid Connection ID length (connection-ID parameters > 20 bytes)
    20 preferred_address: invalid connection ID length <aux=len>
    21 preferred_address: bytes read <> declared length
    22 wrong length for reset_stream_at       23 min_ack_delay > max_ack_delay
    24 missing original_destination_connection_id   25 missing initial_source_connection_id
    26 received duplicate transport parameter <aux=id>
    27 unknown transport parameter marshaling version (session ticket)
    97 the "BUG" default of the numeric reader (unreachable: the caller passes numeric ids only)
    98 model out of fuel (never produced by the code; [unmarshal] always supplies enough) *)
From Coq Require Import List ZArith Bool.
From V Require Import Gen.Params Lib.Hex Wire.Varint Wire.FramesBase.
Import ListNotations.
Open Scope Z_scope.

Inductive perspective := Server | Client.

Definition is_client (p : perspective) : bool := match p with Client => true | Server => false end.
Definition is_server (p : perspective) : bool := match p with Server => true | Client => false end.

(** PreferredAddress: an address is [Some (ip bytes, port)] exactly when the Go value's
    netip.AddrPort is valid (the parser leaves it zero when the port or the address is zero). *)
Record paddr := mkPA {
  pa_v4 : option (list Z * Z);
  pa_v6 : option (list Z * Z);
  pa_cid : list Z;
  pa_srt : list Z }.

(** The Go struct; durations in nanoseconds (time.Duration), optional pointers as option,
    connection IDs and tokens as byte lists. Field order = the dump of harness/wire/tparams.go. *)
Record tparams := mkTP {
  tp_imsd_bl : Z;   (* InitialMaxStreamDataBidiLocal *)
  tp_imsd_br : Z;   (* InitialMaxStreamDataBidiRemote *)
  tp_imsd_uni : Z;  (* InitialMaxStreamDataUni *)
  tp_imd : Z;       (* InitialMaxData *)
  tp_mad : Z;       (* MaxAckDelay, ns *)
  tp_ade : Z;       (* AckDelayExponent *)
  tp_dam : bool;    (* DisableActiveMigration *)
  tp_mups : Z;      (* MaxUDPPayloadSize *)
  tp_mus : Z;       (* MaxUniStreamNum *)
  tp_mbs : Z;       (* MaxBidiStreamNum *)
  tp_mit : Z;       (* MaxIdleTimeout, ns *)
  tp_pa : option paddr;
  tp_odcid : list Z;
  tp_iscid : list Z;
  tp_rscid : option (list Z);
  tp_srt : option (list Z);
  tp_acil : Z;      (* ActiveConnectionIDLimit *)
  tp_mdfs : Z;      (* MaxDatagramFrameSize, -1 = InvalidByteCount *)
  tp_rsa : bool;    (* EnableResetStreamAt *)
  tp_minad : option Z; (* MinAckDelay, ns *)
  tp_override : option (list Z); (* [uQUIC] ClientOverride *)
  tp_amit : Z       (* AdvertisedMaxIdleTimeout, ns: max_idle_timeout exactly as the peer sent it (receive side only) *) }.

Definition set_imsd_bl v (p : tparams) : tparams :=
  mkTP v (tp_imsd_br p) (tp_imsd_uni p) (tp_imd p) (tp_mad p) (tp_ade p) (tp_dam p) (tp_mups p) (tp_mus p) (tp_mbs p) (tp_mit p) (tp_pa p) (tp_odcid p) (tp_iscid p) (tp_rscid p) (tp_srt p) (tp_acil p) (tp_mdfs p) (tp_rsa p) (tp_minad p) (tp_override p) (tp_amit p).
Definition set_imsd_br v (p : tparams) : tparams :=
  mkTP (tp_imsd_bl p) v (tp_imsd_uni p) (tp_imd p) (tp_mad p) (tp_ade p) (tp_dam p) (tp_mups p) (tp_mus p) (tp_mbs p) (tp_mit p) (tp_pa p) (tp_odcid p) (tp_iscid p) (tp_rscid p) (tp_srt p) (tp_acil p) (tp_mdfs p) (tp_rsa p) (tp_minad p) (tp_override p) (tp_amit p).
Definition set_imsd_uni v (p : tparams) : tparams :=
  mkTP (tp_imsd_bl p) (tp_imsd_br p) v (tp_imd p) (tp_mad p) (tp_ade p) (tp_dam p) (tp_mups p) (tp_mus p) (tp_mbs p) (tp_mit p) (tp_pa p) (tp_odcid p) (tp_iscid p) (tp_rscid p) (tp_srt p) (tp_acil p) (tp_mdfs p) (tp_rsa p) (tp_minad p) (tp_override p) (tp_amit p).
Definition set_imd v (p : tparams) : tparams :=
  mkTP (tp_imsd_bl p) (tp_imsd_br p) (tp_imsd_uni p) v (tp_mad p) (tp_ade p) (tp_dam p) (tp_mups p) (tp_mus p) (tp_mbs p) (tp_mit p) (tp_pa p) (tp_odcid p) (tp_iscid p) (tp_rscid p) (tp_srt p) (tp_acil p) (tp_mdfs p) (tp_rsa p) (tp_minad p) (tp_override p) (tp_amit p).
Definition set_mad v (p : tparams) : tparams :=
  mkTP (tp_imsd_bl p) (tp_imsd_br p) (tp_imsd_uni p) (tp_imd p) v (tp_ade p) (tp_dam p) (tp_mups p) (tp_mus p) (tp_mbs p) (tp_mit p) (tp_pa p) (tp_odcid p) (tp_iscid p) (tp_rscid p) (tp_srt p) (tp_acil p) (tp_mdfs p) (tp_rsa p) (tp_minad p) (tp_override p) (tp_amit p).
Definition set_ade v (p : tparams) : tparams :=
  mkTP (tp_imsd_bl p) (tp_imsd_br p) (tp_imsd_uni p) (tp_imd p) (tp_mad p) v (tp_dam p) (tp_mups p) (tp_mus p) (tp_mbs p) (tp_mit p) (tp_pa p) (tp_odcid p) (tp_iscid p) (tp_rscid p) (tp_srt p) (tp_acil p) (tp_mdfs p) (tp_rsa p) (tp_minad p) (tp_override p) (tp_amit p).
Definition set_dam v (p : tparams) : tparams :=
  mkTP (tp_imsd_bl p) (tp_imsd_br p) (tp_imsd_uni p) (tp_imd p) (tp_mad p) (tp_ade p) v (tp_mups p) (tp_mus p) (tp_mbs p) (tp_mit p) (tp_pa p) (tp_odcid p) (tp_iscid p) (tp_rscid p) (tp_srt p) (tp_acil p) (tp_mdfs p) (tp_rsa p) (tp_minad p) (tp_override p) (tp_amit p).
Definition set_mups v (p : tparams) : tparams :=
  mkTP (tp_imsd_bl p) (tp_imsd_br p) (tp_imsd_uni p) (tp_imd p) (tp_mad p) (tp_ade p) (tp_dam p) v (tp_mus p) (tp_mbs p) (tp_mit p) (tp_pa p) (tp_odcid p) (tp_iscid p) (tp_rscid p) (tp_srt p) (tp_acil p) (tp_mdfs p) (tp_rsa p) (tp_minad p) (tp_override p) (tp_amit p).
Definition set_mus v (p : tparams) : tparams :=
  mkTP (tp_imsd_bl p) (tp_imsd_br p) (tp_imsd_uni p) (tp_imd p) (tp_mad p) (tp_ade p) (tp_dam p) (tp_mups p) v (tp_mbs p) (tp_mit p) (tp_pa p) (tp_odcid p) (tp_iscid p) (tp_rscid p) (tp_srt p) (tp_acil p) (tp_mdfs p) (tp_rsa p) (tp_minad p) (tp_override p) (tp_amit p).
Definition set_mbs v (p : tparams) : tparams :=
  mkTP (tp_imsd_bl p) (tp_imsd_br p) (tp_imsd_uni p) (tp_imd p) (tp_mad p) (tp_ade p) (tp_dam p) (tp_mups p) (tp_mus p) v (tp_mit p) (tp_pa p) (tp_odcid p) (tp_iscid p) (tp_rscid p) (tp_srt p) (tp_acil p) (tp_mdfs p) (tp_rsa p) (tp_minad p) (tp_override p) (tp_amit p).
Definition set_mit v (p : tparams) : tparams :=
  mkTP (tp_imsd_bl p) (tp_imsd_br p) (tp_imsd_uni p) (tp_imd p) (tp_mad p) (tp_ade p) (tp_dam p) (tp_mups p) (tp_mus p) (tp_mbs p) v (tp_pa p) (tp_odcid p) (tp_iscid p) (tp_rscid p) (tp_srt p) (tp_acil p) (tp_mdfs p) (tp_rsa p) (tp_minad p) (tp_override p) (tp_amit p).
Definition set_pa v (p : tparams) : tparams :=
  mkTP (tp_imsd_bl p) (tp_imsd_br p) (tp_imsd_uni p) (tp_imd p) (tp_mad p) (tp_ade p) (tp_dam p) (tp_mups p) (tp_mus p) (tp_mbs p) (tp_mit p) v (tp_odcid p) (tp_iscid p) (tp_rscid p) (tp_srt p) (tp_acil p) (tp_mdfs p) (tp_rsa p) (tp_minad p) (tp_override p) (tp_amit p).
Definition set_odcid v (p : tparams) : tparams :=
  mkTP (tp_imsd_bl p) (tp_imsd_br p) (tp_imsd_uni p) (tp_imd p) (tp_mad p) (tp_ade p) (tp_dam p) (tp_mups p) (tp_mus p) (tp_mbs p) (tp_mit p) (tp_pa p) v (tp_iscid p) (tp_rscid p) (tp_srt p) (tp_acil p) (tp_mdfs p) (tp_rsa p) (tp_minad p) (tp_override p) (tp_amit p).
Definition set_iscid v (p : tparams) : tparams :=
  mkTP (tp_imsd_bl p) (tp_imsd_br p) (tp_imsd_uni p) (tp_imd p) (tp_mad p) (tp_ade p) (tp_dam p) (tp_mups p) (tp_mus p) (tp_mbs p) (tp_mit p) (tp_pa p) (tp_odcid p) v (tp_rscid p) (tp_srt p) (tp_acil p) (tp_mdfs p) (tp_rsa p) (tp_minad p) (tp_override p) (tp_amit p).
Definition set_rscid v (p : tparams) : tparams :=
  mkTP (tp_imsd_bl p) (tp_imsd_br p) (tp_imsd_uni p) (tp_imd p) (tp_mad p) (tp_ade p) (tp_dam p) (tp_mups p) (tp_mus p) (tp_mbs p) (tp_mit p) (tp_pa p) (tp_odcid p) (tp_iscid p) v (tp_srt p) (tp_acil p) (tp_mdfs p) (tp_rsa p) (tp_minad p) (tp_override p) (tp_amit p).
Definition set_srt v (p : tparams) : tparams :=
  mkTP (tp_imsd_bl p) (tp_imsd_br p) (tp_imsd_uni p) (tp_imd p) (tp_mad p) (tp_ade p) (tp_dam p) (tp_mups p) (tp_mus p) (tp_mbs p) (tp_mit p) (tp_pa p) (tp_odcid p) (tp_iscid p) (tp_rscid p) v (tp_acil p) (tp_mdfs p) (tp_rsa p) (tp_minad p) (tp_override p) (tp_amit p).
Definition set_acil v (p : tparams) : tparams :=
  mkTP (tp_imsd_bl p) (tp_imsd_br p) (tp_imsd_uni p) (tp_imd p) (tp_mad p) (tp_ade p) (tp_dam p) (tp_mups p) (tp_mus p) (tp_mbs p) (tp_mit p) (tp_pa p) (tp_odcid p) (tp_iscid p) (tp_rscid p) (tp_srt p) v (tp_mdfs p) (tp_rsa p) (tp_minad p) (tp_override p) (tp_amit p).
Definition set_mdfs v (p : tparams) : tparams :=
  mkTP (tp_imsd_bl p) (tp_imsd_br p) (tp_imsd_uni p) (tp_imd p) (tp_mad p) (tp_ade p) (tp_dam p) (tp_mups p) (tp_mus p) (tp_mbs p) (tp_mit p) (tp_pa p) (tp_odcid p) (tp_iscid p) (tp_rscid p) (tp_srt p) (tp_acil p) v (tp_rsa p) (tp_minad p) (tp_override p) (tp_amit p).
Definition set_rsa v (p : tparams) : tparams :=
  mkTP (tp_imsd_bl p) (tp_imsd_br p) (tp_imsd_uni p) (tp_imd p) (tp_mad p) (tp_ade p) (tp_dam p) (tp_mups p) (tp_mus p) (tp_mbs p) (tp_mit p) (tp_pa p) (tp_odcid p) (tp_iscid p) (tp_rscid p) (tp_srt p) (tp_acil p) (tp_mdfs p) v (tp_minad p) (tp_override p) (tp_amit p).
Definition set_minad v (p : tparams) : tparams :=
  mkTP (tp_imsd_bl p) (tp_imsd_br p) (tp_imsd_uni p) (tp_imd p) (tp_mad p) (tp_ade p) (tp_dam p) (tp_mups p) (tp_mus p) (tp_mbs p) (tp_mit p) (tp_pa p) (tp_odcid p) (tp_iscid p) (tp_rscid p) (tp_srt p) (tp_acil p) (tp_mdfs p) (tp_rsa p) v (tp_override p) (tp_amit p).
Definition set_override v (p : tparams) : tparams :=
  mkTP (tp_imsd_bl p) (tp_imsd_br p) (tp_imsd_uni p) (tp_imd p) (tp_mad p) (tp_ade p) (tp_dam p) (tp_mups p) (tp_mus p) (tp_mbs p) (tp_mit p) (tp_pa p) (tp_odcid p) (tp_iscid p) (tp_rscid p) (tp_srt p) (tp_acil p) (tp_mdfs p) (tp_rsa p) (tp_minad p) v (tp_amit p).
Definition set_amit v (p : tparams) : tparams :=
  mkTP (tp_imsd_bl p) (tp_imsd_br p) (tp_imsd_uni p) (tp_imd p) (tp_mad p) (tp_ade p) (tp_dam p) (tp_mups p) (tp_mus p) (tp_mbs p) (tp_mit p) (tp_pa p) (tp_odcid p) (tp_iscid p) (tp_rscid p) (tp_srt p) (tp_acil p) (tp_mdfs p) (tp_rsa p) (tp_minad p) (tp_override p) v.

(** the zero value of the Go struct *)
Definition tp_zero : tparams :=
  mkTP 0 0 0 0 0 0 false 0 0 0 0 None [] [] None None 0 0 false None None 0.

(** the four defaults [unmarshal] writes before the loop *)
Definition tp_init : tparams :=
  set_ade TP_DefaultAckDelayExponent (set_mad TP_DefaultMaxAckDelay
    (set_mdfs TP_InvalidByteCount (set_acil TP_DefaultActiveConnectionIDLimit tp_zero))).

(** parse state: the struct being filled, the two "read" flags, the ids seen (latest first) *)
Record pst := mkSt { st_p : tparams; st_odcid : bool; st_iscid : bool; st_ids : list Z }.

Definition upd (f : tparams -> tparams) (s : pst) : pst :=
  mkSt (f (st_p s)) (st_odcid s) (st_iscid s) (st_ids s).
Definition add_id (id : Z) (s : pst) : pst :=
  mkSt (st_p s) (st_odcid s) (st_iscid s) (id :: st_ids s).

Definition E_TP_EOF := 1.
Definition E_TP_UEOF := 2.
Definition E_TP_REMAINING := 3.
Definition E_TP_READ_EOF := 4.
Definition E_TP_READ_UEOF := 5.
Definition E_TP_INCONSISTENT := 6.
Definition E_TP_STREAMS_BIDI := 7.
Definition E_TP_STREAMS_UNI := 8.
Definition E_TP_MUPS := 9.
Definition E_TP_ADE := 10.
Definition E_TP_MAD := 11.
Definition E_TP_ACIL := 12.
Definition E_TP_CLIENT_PA := 13.
Definition E_TP_CLIENT_SRT := 14.
Definition E_TP_CLIENT_ODCID := 15.
Definition E_TP_CLIENT_RSCID := 16.
Definition E_TP_DAM_LEN := 17.
Definition E_TP_SRT_LEN := 18.
Definition E_TP_CID_LEN := 19.
Definition E_TP_PA_CIDLEN := 20.
Definition E_TP_PA_LEN := 21.
Definition E_TP_RSA_LEN := 22.
Definition E_TP_MINAD := 23.
Definition E_TP_MISSING_ODCID := 24.
Definition E_TP_MISSING_ISCID := 25.
Definition E_TP_DUP := 26.
Definition E_TP_VERSION := 27.
Definition E_TP_BUG := 97.
Definition E_TP_FUEL := 98.

Definition perr_cls (e : perr) : Z := match e with EOF => E_TP_EOF | UnexpectedEOF => E_TP_UEOF end.

(** the case list of the first arm of the switch in [unmarshal] *)
Definition is_numeric (id : Z) : bool :=
  (id =? TP_ID_mit) || (id =? TP_ID_mups) || (id =? TP_ID_imd) || (id =? TP_ID_imsd_bl) ||
  (id =? TP_ID_imsd_br) || (id =? TP_ID_imsd_uni) || (id =? TP_ID_mbs) || (id =? TP_ID_mus) ||
  (id =? TP_ID_mad) || (id =? TP_ID_mdfs) || (id =? TP_ID_ade) || (id =? TP_ID_acil) ||
  (id =? TP_ID_minad).

(** saturatingDuration(val, unit): val units as a time.Duration, the maximum when it does not fit *)
Definition sat_duration (val unit : Z) : Z :=
  if maxInt64 / unit <? val then maxInt64 else val * unit.

(** the numeric reader (b, paramID, expectedLen): [b] is the whole remaining input *)
Definition read_numeric (b : list Z) (id plen : Z) (p : tparams) : res tparams :=
  match vparse b with
  | inl EOF => Err E_TP_READ_EOF id
  | inl UnexpectedEOF => Err E_TP_READ_UEOF id
  | inr (val, l, _) =>
    if negb (l =? plen) then Err E_TP_INCONSISTENT id
    else if id =? TP_ID_imsd_bl then Ok (set_imsd_bl val p)
    else if id =? TP_ID_imsd_br then Ok (set_imsd_br val p)
    else if id =? TP_ID_imsd_uni then Ok (set_imsd_uni val p)
    else if id =? TP_ID_imd then Ok (set_imd val p)
    else if id =? TP_ID_mbs then
      if TP_MaxStreamCount <? val then Err E_TP_STREAMS_BIDI 0 else Ok (set_mbs val p)
    else if id =? TP_ID_mus then
      if TP_MaxStreamCount <? val then Err E_TP_STREAMS_UNI 0 else Ok (set_mus val p)
    else if id =? TP_ID_mit then
      if val =? 0 then Ok (set_amit 0 (set_mit 0 p))
      else Ok (set_amit (sat_duration val TP_Millisecond)
                 (set_mit (Z.max TP_MinRemoteIdleTimeout (sat_duration val TP_Millisecond)) p))
    else if id =? TP_ID_mups then
      if val <? 1200 then Err E_TP_MUPS 0 else Ok (set_mups val p)
    else if id =? TP_ID_ade then
      if TP_MaxAckDelayExponent <? val then Err E_TP_ADE 0 else Ok (set_ade val p)
    else if id =? TP_ID_mad then
      if TP_MaxMaxAckDelayMs <? val then Err E_TP_MAD 0 else Ok (set_mad (val * TP_Millisecond) p)
    else if id =? TP_ID_acil then
      if val <? 2 then Err E_TP_ACIL 0 else Ok (set_acil val p)
    else if id =? TP_ID_mdfs then Ok (set_mdfs val p)
    else if id =? TP_ID_minad then
      Ok (set_minad (Some (sat_duration val TP_Microsecond)) p)
    else Err E_TP_BUG id
  end.

Fixpoint all_zero (l : list Z) : bool :=
  match l with [] => true | x :: r => (x =? 0) && all_zero r end.

Definition addr_of (ip : list Z) (port : Z) : option (list Z * Z) :=
  if negb (port =? 0) && negb (all_zero ip) then Some (ip, port) else None.

(** readPreferredAddress(b, expectedLen): [b] is the whole remaining input *)
Definition read_pa (b : list Z) (plen : Z) : res paddr :=
  if zlen b <? 4 + 2 + 16 + 2 + 1 then Err E_TP_EOF 0
  else
    let ip4 := firstn 4 b in
    let port4 := unbe (firstn 2 (skipn 4 b)) 0 in
    let b1 := skipn 6 b in
    let ip6 := firstn 16 b1 in
    let port6 := unbe (firstn 2 (skipn 16 b1)) 0 in
    let b2 := skipn 18 b1 in
    let cl := nth 0 b2 0 in
    let b3 := skipn 1 b2 in
    if (cl =? 0) || (TP_MaxConnIDLen <? cl) then Err E_TP_PA_CIDLEN cl
    else if zlen b3 <? cl + 16 then Err E_TP_EOF 0
    else
      let cid := firstn (Z.to_nat cl) b3 in
      let tok := firstn 16 (skipn (Z.to_nat cl) b3) in
      let b4 := skipn 16 (skipn (Z.to_nat cl) b3) in
      if negb (zlen b - zlen b4 =? plen) then Err E_TP_PA_LEN 0
      else Ok (mkPA (addr_of ip4 port4) (addr_of ip6 port6) cid tok).

(** one arm of the switch; [b] is the input after the length varint, [zlen b >= plen] is known.
    Every successful arm advances the input by exactly [plen] bytes (the two empty-valued arms
    do not advance and have checked [plen = 0]; the token arm advances by 16 = [plen]), so the
    loop below does the advancing. *)
Definition tp_step (pers : perspective) (id plen : Z) (b : list Z) (s : pst) : res pst :=
  if is_numeric id then
    match read_numeric b id plen (st_p s) with
    | Err c a => Err c a
    | Ok p' => Ok (upd (fun _ => p') s)
    end
  else if id =? TP_ID_pa then
    if is_client pers then Err E_TP_CLIENT_PA 0
    else match read_pa b plen with
         | Err c a => Err c a
         | Ok pa => Ok (upd (set_pa (Some pa)) s)
         end
  else if id =? TP_ID_dam then
    if negb (plen =? 0) then Err E_TP_DAM_LEN 0 else Ok (upd (set_dam true) s)
  else if id =? TP_ID_srt then
    if is_client pers then Err E_TP_CLIENT_SRT 0
    else if negb (plen =? 16) then Err E_TP_SRT_LEN 0
    else if zlen b <? 16 then Err E_TP_EOF 0
    else Ok (upd (set_srt (Some (firstn 16 b))) s)
  else if id =? TP_ID_odcid then
    if is_client pers then Err E_TP_CLIENT_ODCID 0
    else if TP_MaxConnIDLen <? plen then Err E_TP_CID_LEN 0
    else let s' := upd (set_odcid (firstn (Z.to_nat plen) b)) s in
         Ok (mkSt (st_p s') true (st_iscid s') (st_ids s'))
  else if id =? TP_ID_iscid then
    if TP_MaxConnIDLen <? plen then Err E_TP_CID_LEN 0
    else let s' := upd (set_iscid (firstn (Z.to_nat plen) b)) s in
         Ok (mkSt (st_p s') (st_odcid s') true (st_ids s'))
  else if id =? TP_ID_rscid then
    if is_client pers then Err E_TP_CLIENT_RSCID 0
    else if TP_MaxConnIDLen <? plen then Err E_TP_CID_LEN 0
    else Ok (upd (set_rscid (Some (firstn (Z.to_nat plen) b))) s)
  else if id =? TP_ID_rsa then
    if negb (plen =? 0) then Err E_TP_RSA_LEN 0 else Ok (upd (set_rsa true) s)
  else Ok s.

(** the loop of [unmarshal]; every iteration consumes at least two bytes, so [length b]
    iterations always suffice *)
Fixpoint tp_loop (fuel : nat) (pers : perspective) (s : pst) (b : list Z) : res pst :=
  match b with
  | [] => Ok s
  | _ :: _ =>
    match fuel with
    | O => Err E_TP_FUEL 0
    | S f =>
      match vparse b with
      | inl e => Err (perr_cls e) 0
      | inr (id, _, b1) =>
        match vparse b1 with
        | inl e => Err (perr_cls e) 0
        | inr (plen, _, b2) =>
          if zlen b2 <? plen then Err E_TP_REMAINING 0
          else match tp_step pers id plen b2 (add_id id s) with
               | Err c a => Err c a
               | Ok s' => tp_loop f pers s' (skipn (Z.to_nat plen) b2)
               end
        end
      end
    end
  end.

(** slices.SortFunc with "a < b" as the order, then the adjacent compare *)
Fixpoint insert (x : Z) (l : list Z) : list Z :=
  match l with
  | [] => [x]
  | y :: r => if x <=? y then x :: l else y :: insert x r
  end.
Fixpoint isort (l : list Z) : list Z :=
  match l with [] => [] | x :: r => insert x (isort r) end.
Fixpoint adjdup (l : list Z) : option Z :=
  match l with
  | x :: r => match r with
              | y :: _ => if x =? y then Some x else adjdup r
              | [] => None
              end
  | [] => None
  end.

Definition dup_check (s : pst) (p : tparams) : res tparams :=
  match adjdup (isort (st_ids s)) with
  | Some id => Err E_TP_DUP id
  | None => Ok p
  end.

(** what follows the loop, in the code's order *)
Definition tp_finish (pers : perspective) (ticket : bool) (s : pst) : res tparams :=
  let p := st_p s in
  if (match tp_minad p with Some m => tp_mad p <? m | None => false end) then Err E_TP_MINAD 0
  else if negb ticket then
    if is_server pers && negb (st_odcid s) then Err E_TP_MISSING_ODCID 0
    else
      let p' := if tp_mups p =? 0 then set_mups TP_MaxByteCount p else p in
      if negb (st_iscid s) then Err E_TP_MISSING_ISCID 0
      else dup_check s p'
  else dup_check s p.

Definition st_init : pst := mkSt tp_init false false [].

(** unmarshal(b, sentBy, fromSessionTicket) into a fresh struct *)
Definition unmarshal (pers : perspective) (ticket : bool) (b : list Z) : res tparams :=
  match tp_loop (length b) pers st_init b with
  | Err c a => Err c a
  | Ok s => tp_finish pers ticket s
  end.

(** UnmarshalFromSessionTicket *)
Definition unmarshal_ticket (b : list Z) : res tparams :=
  match vparse b with
  | inl e => Err (perr_cls e) 0
  | inr (v, _, r) =>
    if negb (v =? TP_MarshalVersion) then Err E_TP_VERSION 0 else unmarshal Server true r
  end.

(** ---- Marshal ---- *)

(** marshalVarintParam: id, Len(val), val *)
Definition enc_varint_param (id v : Z) : list Z := vappend id ++ vappend (vlen v) ++ vappend v.
(** id, len(body), body *)
Definition enc_param (id : Z) (body : list Z) : list Z := vappend id ++ vappend (zlen body) ++ body.

Definition enc_addr (a : option (list Z * Z)) (n : nat) : list Z :=
  match a with
  | Some (ip, port) => ip ++ be 2 port
  | None => repeat 0 (n + 2)
  end.

Definition enc_pa (pa : paddr) : list Z :=
  vappend TP_ID_pa ++ vappend (4 + 2 + 16 + 2 + 1 + zlen (pa_cid pa) + 16) ++
  enc_addr (pa_v4 pa) 4 ++ enc_addr (pa_v6 pa) 16 ++
  [zlen (pa_cid pa)] ++ pa_cid pa ++ pa_srt pa.

(** the greased parameter: [rnd] are the 18 bytes read from crypto/rand *)
Definition grease_id (rnd : list Z) : Z := 27 + 31 * nth 0 rnd 0.
Definition enc_grease (rnd : list Z) : list Z :=
  let len := nth 1 rnd 0 mod 16 in
  vappend (grease_id rnd) ++ vappend len ++ firstn (Z.to_nat len) (skipn 2 rnd).

(** Marshal(pers).  Durations are divided with Go's truncating division; the model uses [/],
    which agrees for the non-negative values Marshal accepts (negative ones make
    quicvarint.Append panic).  The package-level map of additional client parameters is taken to be empty. *)
Definition marshal (pers : perspective) (rnd : list Z) (p : tparams) : list Z :=
  match tp_override p with
  | Some raw => raw
  | None =>
    enc_grease rnd ++
    enc_varint_param TP_ID_imsd_bl (tp_imsd_bl p) ++
    enc_varint_param TP_ID_imsd_br (tp_imsd_br p) ++
    enc_varint_param TP_ID_imsd_uni (tp_imsd_uni p) ++
    enc_varint_param TP_ID_imd (tp_imd p) ++
    enc_varint_param TP_ID_mbs (tp_mbs p) ++
    enc_varint_param TP_ID_mus (tp_mus p) ++
    enc_varint_param TP_ID_mit (tp_mit p / TP_Millisecond) ++
    (if 0 <? tp_mups p then enc_varint_param TP_ID_mups (tp_mups p) else []) ++
    (if negb (tp_mad p =? TP_DefaultMaxAckDelay)
     then enc_varint_param TP_ID_mad (tp_mad p / TP_Millisecond) else []) ++
    (if negb (tp_ade p =? TP_DefaultAckDelayExponent)
     then enc_varint_param TP_ID_ade (tp_ade p) else []) ++
    (if tp_dam p then enc_param TP_ID_dam [] else []) ++
    (if is_server pers then
       (match tp_srt p with Some t => vappend TP_ID_srt ++ vappend 16 ++ t | None => [] end) ++
       enc_param TP_ID_odcid (tp_odcid p) ++
       (match tp_pa p with Some pa => enc_pa pa | None => [] end)
     else []) ++
    (if negb (tp_acil p =? TP_DefaultActiveConnectionIDLimit)
     then enc_varint_param TP_ID_acil (tp_acil p) else []) ++
    enc_param TP_ID_iscid (tp_iscid p) ++
    (if is_server pers then
       match tp_rscid p with Some c => enc_param TP_ID_rscid c | None => [] end
     else []) ++
    (if negb (tp_mdfs p =? TP_InvalidByteCount)
     then enc_varint_param TP_ID_mdfs (tp_mdfs p) else []) ++
    (if tp_rsa p then enc_param TP_ID_rsa [] else []) ++
    (match tp_minad p with
     | Some m => enc_varint_param TP_ID_minad (m / TP_Microsecond)
     | None => []
     end)
  end.

(** MarshalForSessionTicket(b): the bytes appended to [b] *)
Definition marshal_ticket (p : tparams) : list Z :=
  match tp_override p with
  | Some raw => raw
  | None =>
    vappend TP_MarshalVersion ++
    enc_varint_param TP_ID_imsd_bl (tp_imsd_bl p) ++
    enc_varint_param TP_ID_imsd_br (tp_imsd_br p) ++
    enc_varint_param TP_ID_imsd_uni (tp_imsd_uni p) ++
    enc_varint_param TP_ID_imd (tp_imd p) ++
    enc_varint_param TP_ID_mbs (tp_mbs p) ++
    enc_varint_param TP_ID_mus (tp_mus p) ++
    enc_varint_param TP_ID_acil (tp_acil p) ++
    (if negb (tp_mdfs p =? TP_InvalidByteCount)
     then enc_varint_param TP_ID_mdfs (tp_mdfs p) else []) ++
    (if tp_rsa p then enc_param TP_ID_rsa [] else [])
  end.

(** ---- boolean equality (for the correspondence check) ---- *)
Definition opt_eqb {A} (e : A -> A -> bool) (a b : option A) : bool :=
  match a, b with
  | Some x, Some y => e x y
  | None, None => true
  | _, _ => false
  end.
Definition addr_eqb (a b : list Z * Z) : bool := zeqb_list (fst a) (fst b) && (snd a =? snd b).
Definition pa_eqb (a b : paddr) : bool :=
  opt_eqb addr_eqb (pa_v4 a) (pa_v4 b) && opt_eqb addr_eqb (pa_v6 a) (pa_v6 b) &&
  zeqb_list (pa_cid a) (pa_cid b) && zeqb_list (pa_srt a) (pa_srt b).
Definition tp_eqb (a b : tparams) : bool :=
  (tp_imsd_bl a =? tp_imsd_bl b) && (tp_imsd_br a =? tp_imsd_br b) &&
  (tp_imsd_uni a =? tp_imsd_uni b) && (tp_imd a =? tp_imd b) && (tp_mad a =? tp_mad b) &&
  (tp_ade a =? tp_ade b) && Bool.eqb (tp_dam a) (tp_dam b) && (tp_mups a =? tp_mups b) &&
  (tp_mus a =? tp_mus b) && (tp_mbs a =? tp_mbs b) && (tp_mit a =? tp_mit b) &&
  opt_eqb pa_eqb (tp_pa a) (tp_pa b) && zeqb_list (tp_odcid a) (tp_odcid b) &&
  zeqb_list (tp_iscid a) (tp_iscid b) && opt_eqb zeqb_list (tp_rscid a) (tp_rscid b) &&
  opt_eqb zeqb_list (tp_srt a) (tp_srt b) && (tp_acil a =? tp_acil b) && (tp_mdfs a =? tp_mdfs b) &&
  Bool.eqb (tp_rsa a) (tp_rsa b) && opt_eqb Z.eqb (tp_minad a) (tp_minad b) &&
  opt_eqb zeqb_list (tp_override a) (tp_override b) && (tp_amit a =? tp_amit b).
