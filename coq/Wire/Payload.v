(** A whole packet payload: the frame loop of connection.handleFrames (connection.go) over the
    frame parser — which frames are parsed, which are handled, what the tracer is given, which
    error wins.  Handling a frame (streams map, ACK handler, ...) is outside this unit: whether
    the handler of the i-th parsed frame fails is an oracle argument.  Executable definitions only. *)
From Coq Require Import List ZArith Bool.
From V Require Import Gen.Params Lib.Hex Wire.Varint Wire.FramesBase Wire.FramesCtl Wire.FramesStream Wire.FramesAck Wire.Frames.
Import ListNotations.
Open Scope Z_scope.

(** the frames of a payload, in order, or the first parse error (ParseType's io.EOF after
    trailing PADDING ends the payload).  Every frame consumes at least one byte, so
    fuel = length b suffices; running out is class 98. *)
Fixpoint parse_payload (fuel : nat) (c : cfg) (lvl : Z) (b : list Z) : res (list frame) :=
  match b with
  | [] => Ok []
  | _ :: _ =>
    match fuel with
    | O => Err 98 0
    | S fuel' =>
      match parse_next c lvl b with
      | Err e n => if e =? 1 then Ok [] else Err e n
      | Ok (f, _, rest) =>
        match parse_payload fuel' c lvl rest with
        | Ok l => Ok (f :: l)
        | Err e n => Err e n
        end
      end
    end
  end.

(** ackhandler.IsFrameTypeAckEliciting / wire.IsProbingFrameType, on the parsed frame *)
Definition ack_eliciting (f : frame) : bool :=
  match f with FAck _ _ _ _ _ | FConnectionClose _ _ _ _ => false | _ => true end.
Definition probing (f : frame) : bool :=
  match f with FPathChallenge _ | FPathResponse _ | FNewConnectionID _ _ _ _ => true | _ => false end.

(** outcome of handleFrames: [logged] is the number of frames given to the tracer callback,
    -1 when the callback is not called *)
Inductive hres :=
| HOk (isAckEliciting isNonProbing : bool) (logged : Z)
| HParseErr (cls : Z)
| HHandleErr (logged : Z).

(** [log]: a tracer is attached; [fails i]: the handler of the i-th parsed frame returns an error.
    State: i = index of the next frame, ae/np = the two flags, skip = skipHandling,
    herr = handleErr != nil, count = frames collected for the tracer. *)
Fixpoint handle_loop (fuel : nat) (c : cfg) (lvl : Z) (log : bool) (fails : nat -> bool)
         (i : nat) (b : list Z) (ae np skip herr : bool) (count : Z) : hres :=
  let finish :=
    if log then (if herr then HHandleErr count else HOk ae np count) else HOk ae np (-1) in
  match b with
  | [] => finish
  | _ :: _ =>
    match fuel with
    | O => HParseErr 98
    | S fuel' =>
      match parse_next c lvl b with
      | Err e _ => if e =? 1 then finish else HParseErr e
      | Ok (f, _, rest) =>
        let ae' := ae || ack_eliciting f in
        let np' := np || negb (probing f) in
        let count' := if log then count + 1 else count in
        if skip then handle_loop fuel' c lvl log fails (S i) rest ae' np' true herr count'
        else if fails i then
          (if log then handle_loop fuel' c lvl log fails (S i) rest ae' np' true true count'
           else HHandleErr (-1))
        else handle_loop fuel' c lvl log fails (S i) rest ae' np' false false count'
      end
    end
  end.

Definition handle_frames (c : cfg) (lvl : Z) (log : bool) (fails : nat -> bool) (b : list Z) : hres :=
  handle_loop (length b) c lvl log fails 0 b false false false false 0.

(** what a sender writes: frames with optional PADDING in front of each *)
Definition enc_frame (f : frame) : list Z := match append_frame f with Some e => e | None => [] end.
Fixpoint encode_payload (items : list (nat * frame)) : list Z :=
  match items with
  | [] => []
  | (k, f) :: r => repeat 0 k ++ enc_frame f ++ encode_payload r
  end.
