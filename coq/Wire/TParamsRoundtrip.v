(** Round trip of the transport-parameter model: [unmarshal (marshal p) = norm p]. *)
From Coq Require Import List ZArith Bool Lia.
From Coq Require Import ZifyBool ZifyNat.
From V Require Import Gen.Params Lib.Hex Wire.Varint Wire.VarintProofs Wire.FramesBase Wire.TParams Wire.TParamsProofs.
Import ListNotations.
Open Scope Z_scope.
Local Ltac Zify.zify_post_hook ::= Z.div_mod_to_equations.

(** * Well-formed values and what the code normalises *)

Definition addr_wf (n : nat) (a : option (list Z * Z)) : Prop :=
  match a with
  | Some (ip, port) => length ip = n /\ 0 <= port < 65536
  | None => True
  end.

Definition pa_wf (pa : paddr) : Prop :=
  addr_wf 4 (pa_v4 pa) /\ addr_wf 16 (pa_v6 pa) /\
  1 <= zlen (pa_cid pa) <= TP_MaxConnIDLen /\ length (pa_srt pa) = 16%nat.

Definition opt_wf {A} (P : A -> Prop) (o : option A) : Prop :=
  match o with Some x => P x | None => True end.

Definition cid_wf (c : list Z) : Prop := zlen c <= TP_MaxConnIDLen.

(** what Marshal can encode and Unmarshal accepts again *)
Definition tp_wf (p : tparams) : Prop :=
  vwf (tp_imsd_bl p) /\ vwf (tp_imsd_br p) /\ vwf (tp_imsd_uni p) /\ vwf (tp_imd p) /\
  0 <= tp_mbs p <= TP_MaxStreamCount /\ 0 <= tp_mus p <= TP_MaxStreamCount /\
  0 <= tp_mit p <= maxInt64 /\
  (tp_mups p = 0 \/ 1200 <= tp_mups p <= maxVarInt8) /\
  0 <= tp_mad p /\ tp_mad p / TP_Millisecond <= TP_MaxMaxAckDelayMs /\
  0 <= tp_ade p <= TP_MaxAckDelayExponent /\
  2 <= tp_acil p <= maxVarInt8 /\
  (tp_mdfs p = TP_InvalidByteCount \/ vwf (tp_mdfs p)) /\
  opt_wf (fun m => 0 <= m <= maxInt64 /\
                   m / TP_Microsecond * TP_Microsecond <= tp_mad p / TP_Millisecond * TP_Millisecond) (tp_minad p) /\
  cid_wf (tp_odcid p) /\ cid_wf (tp_iscid p) /\ opt_wf cid_wf (tp_rscid p) /\
  opt_wf (fun t => length t = 16%nat) (tp_srt p) /\ opt_wf pa_wf (tp_pa p) /\
  tp_override p = None.

Definition norm_addr (a : option (list Z * Z)) : option (list Z * Z) :=
  match a with Some (ip, port) => addr_of ip port | None => None end.
Definition norm_pa (pa : paddr) : paddr :=
  mkPA (norm_addr (pa_v4 pa)) (norm_addr (pa_v6 pa)) (pa_cid pa) (pa_srt pa).

(** the value a peer sees: durations quantised to the wire unit, max_idle_timeout raised to
    MinRemoteIdleTimeout, max_udp_payload_size 0 read as "no limit", unusable addresses dropped,
    server-only parameters absent when the client marshals *)
(** max_idle_timeout as the peer sees it: whole milliseconds; 0 = none; otherwise at least MinRemoteIdleTimeout *)
Definition norm_mit (d : Z) : Z :=
  if d / TP_Millisecond =? 0 then 0 else Z.max TP_MinRemoteIdleTimeout (d / TP_Millisecond * TP_Millisecond).

Definition tp_norm (pers : perspective) (p : tparams) : tparams :=
  mkTP (tp_imsd_bl p) (tp_imsd_br p) (tp_imsd_uni p) (tp_imd p)
       (tp_mad p / TP_Millisecond * TP_Millisecond) (tp_ade p) (tp_dam p)
       (if tp_mups p =? 0 then TP_MaxByteCount else tp_mups p)
       (tp_mus p) (tp_mbs p)
       (norm_mit (tp_mit p))
       (if is_server pers then option_map norm_pa (tp_pa p) else None)
       (if is_server pers then tp_odcid p else [])
       (tp_iscid p)
       (if is_server pers then tp_rscid p else None)
       (if is_server pers then tp_srt p else None)
       (tp_acil p) (tp_mdfs p) (tp_rsa p)
       (option_map (fun m => m / TP_Microsecond * TP_Microsecond) (tp_minad p))
       None
       (tp_mit p / TP_Millisecond * TP_Millisecond).

(** the session-ticket form keeps nine fields; the rest are the defaults of [unmarshal] *)
Definition tp_wf_ticket (p : tparams) : Prop :=
  vwf (tp_imsd_bl p) /\ vwf (tp_imsd_br p) /\ vwf (tp_imsd_uni p) /\ vwf (tp_imd p) /\
  0 <= tp_mbs p <= TP_MaxStreamCount /\ 0 <= tp_mus p <= TP_MaxStreamCount /\
  2 <= tp_acil p <= maxVarInt8 /\
  (tp_mdfs p = TP_InvalidByteCount \/ vwf (tp_mdfs p)) /\
  tp_override p = None.

Definition tp_norm_ticket (p : tparams) : tparams :=
  mkTP (tp_imsd_bl p) (tp_imsd_br p) (tp_imsd_uni p) (tp_imd p)
       TP_DefaultMaxAckDelay TP_DefaultAckDelayExponent false 0 (tp_mus p) (tp_mbs p) 0
       None [] [] None None (tp_acil p) (tp_mdfs p) (tp_rsa p) None None 0.

(** * The greased parameter never collides with a parameter the code knows *)

Definition known_ids : list Z :=
  [TP_ID_odcid; TP_ID_mit; TP_ID_srt; TP_ID_mups; TP_ID_imd; TP_ID_imsd_bl; TP_ID_imsd_br; TP_ID_imsd_uni;
   TP_ID_mbs; TP_ID_mus; TP_ID_ade; TP_ID_mad; TP_ID_dam; TP_ID_pa; TP_ID_acil; TP_ID_iscid; TP_ID_rscid;
   TP_ID_mdfs; TP_ID_rsa; TP_ID_minad].

Lemma grease_not_known k : 0 <= k < 256 -> ~ In (27 + 31 * k) known_ids.
Proof.
  intros Hk. unfold known_ids. tp_consts. cbn [In]. lia.
Qed.

Lemma tp_step_unknown pers id plen b s : ~ In id known_ids -> tp_step pers id plen b s = Ok s.
Proof.
  intros Hn. unfold known_ids in Hn. cbn [In] in Hn.
  unfold tp_step, is_numeric.
  repeat match goal with
         | |- context [?a =? ?b] => destruct (Z.eqb_spec a b) as [E|_]; [exfalso; apply Hn; rewrite E; tauto|]
         end.
  reflexivity.
Qed.

(** * One parameter at a time *)

Definition oc (c : bool) (id : Z) (l : list Z) : list Z := if c then id :: l else l.
Definition add_id_if (c : bool) (id : Z) (s : pst) : pst :=
  mkSt (st_p s) (st_odcid s) (st_iscid s) (oc c id (st_ids s)).

Definition is_some {A} (o : option A) : bool := match o with Some _ => true | None => false end.

Lemma run_grease pers s rnd rest :
  length rnd = 18%nat -> Forall is_byte rnd ->
  tp_run pers s (enc_grease rnd ++ rest) = tp_run pers (add_id (grease_id rnd) s) rest.
Proof.
  intros Hl Hb.
  destruct rnd as [|r0 [|r1 tl]]; try discriminate.
  inversion Hb as [|? ? H0 Hb']; subst. inversion Hb' as [|? ? H1 _]; subst.
  unfold is_byte in H0, H1.
  unfold enc_grease, grease_id. cbn [nth skipn].
  set (len := r1 mod 16).
  assert (Hlen : 0 <= len < 16) by (subst len; lia).
  set (body := firstn (Z.to_nat len) tl).
  assert (Hbody : zlen body = len).
  { subst body. unfold zlen. rewrite firstn_length_le; [lia|]. cbn [length] in Hl. lia. }
  rewrite <- Hbody at 1.
  change (vappend (27 + 31 * r0) ++ vappend (zlen body) ++ body) with (enc_param (27 + 31 * r0) body).
  rewrite tp_run_param.
  - rewrite tp_step_unknown; [reflexivity|]. apply grease_not_known. exact H0.
  - unfold vwf, maxVarInt8. lia.
  - rewrite Hbody. unfold vwf, maxVarInt8. lia.
Qed.

Lemma read_numeric_at id v rest p :
  vwf v ->
  read_numeric (vappend v ++ rest) id (vlen v) p =
  read_numeric (vappend v) id (vlen v) p.
Proof.
  intros Hv. unfold read_numeric.
  rewrite (vparse_vappend v rest Hv).
  pose proof (vparse_vappend v [] Hv) as E. rewrite app_nil_r in E. rewrite E. reflexivity.
Qed.

Lemma run_numeric pers s id v rest p' :
  In id numeric_ids -> vwf id -> vwf v ->
  read_numeric (vappend v) id (vlen v) (st_p s) = Ok p' ->
  tp_run pers s (enc_varint_param id v ++ rest) = tp_run pers (upd (fun _ => p') (add_id id s)) rest.
Proof.
  intros Hin Hid Hv Hr.
  rewrite enc_varint_param_eq by exact Hv.
  rewrite tp_run_param; [|exact Hid|rewrite zlen_vappend by exact Hv; apply vwf_vlen; exact Hv].
  rewrite (tp_step_numeric pers id (vappend v) rest v) by (assumption || apply varint_body_vappend; exact Hv).
  rewrite zlen_vappend by exact Hv. rewrite read_numeric_at by exact Hv.
  cbn [add_id st_p]. rewrite Hr. reflexivity.
Qed.

Lemma read_numeric_val id v p :
  vwf v ->
  read_numeric (vappend v) id (vlen v) p =
  (if id =? TP_ID_imsd_bl then Ok (set_imsd_bl v p)
   else if id =? TP_ID_imsd_br then Ok (set_imsd_br v p)
   else if id =? TP_ID_imsd_uni then Ok (set_imsd_uni v p)
   else if id =? TP_ID_imd then Ok (set_imd v p)
   else if id =? TP_ID_mbs then
     if TP_MaxStreamCount <? v then Err E_TP_STREAMS_BIDI 0 else Ok (set_mbs v p)
   else if id =? TP_ID_mus then
     if TP_MaxStreamCount <? v then Err E_TP_STREAMS_UNI 0 else Ok (set_mus v p)
   else if id =? TP_ID_mit then
     if v =? 0 then Ok (set_amit 0 (set_mit 0 p))
     else Ok (set_amit (sat_duration v TP_Millisecond)
                (set_mit (Z.max TP_MinRemoteIdleTimeout (sat_duration v TP_Millisecond)) p))
   else if id =? TP_ID_mups then
     if v <? 1200 then Err E_TP_MUPS 0 else Ok (set_mups v p)
   else if id =? TP_ID_ade then
     if TP_MaxAckDelayExponent <? v then Err E_TP_ADE 0 else Ok (set_ade v p)
   else if id =? TP_ID_mad then
     if TP_MaxMaxAckDelayMs <? v then Err E_TP_MAD 0 else Ok (set_mad (v * TP_Millisecond) p)
   else if id =? TP_ID_acil then
     if v <? 2 then Err E_TP_ACIL 0 else Ok (set_acil v p)
   else if id =? TP_ID_mdfs then Ok (set_mdfs v p)
   else if id =? TP_ID_minad then
     Ok (set_minad (Some (sat_duration v TP_Microsecond)) p)
   else Err E_TP_BUG id).
Proof.
  intros Hv. unfold read_numeric.
  pose proof (vparse_vappend v [] Hv) as E. rewrite app_nil_r in E. rewrite E.
  rewrite Z.eqb_refl. reflexivity.
Qed.

(** eta for the state, used to merge "parameter absent" with "parameter present" *)
Lemma pst_eta s : mkSt (st_p s) (st_odcid s) (st_iscid s) (st_ids s) = s.
Proof. destruct s; reflexivity. Qed.

Ltac eta_state s := destruct s as [[] ? ? ?]; reflexivity.

Ltac numeric_one Hv :=
  rewrite run_numeric with (p' := _);
  [ | cbn; tauto | vwf_id | exact Hv
    | rewrite read_numeric_val by exact Hv; tp_consts; cbn [Z.eqb Pos.eqb]; reflexivity ].

(** the seven integer parameters Marshal always sends *)
Lemma run_imsd_bl pers s v rest : vwf v ->
  tp_run pers s (enc_varint_param TP_ID_imsd_bl v ++ rest) =
  tp_run pers (upd (set_imsd_bl v) (add_id TP_ID_imsd_bl s)) rest.
Proof.
  intros Hv. rewrite (run_numeric pers s TP_ID_imsd_bl v rest (set_imsd_bl v (st_p s)));
    [reflexivity|cbn; tauto|vwf_id|exact Hv|].
  rewrite read_numeric_val by exact Hv. reflexivity.
Qed.

Lemma run_imsd_br pers s v rest : vwf v ->
  tp_run pers s (enc_varint_param TP_ID_imsd_br v ++ rest) =
  tp_run pers (upd (set_imsd_br v) (add_id TP_ID_imsd_br s)) rest.
Proof.
  intros Hv. rewrite (run_numeric pers s TP_ID_imsd_br v rest (set_imsd_br v (st_p s)));
    [reflexivity|cbn; tauto|vwf_id|exact Hv|].
  rewrite read_numeric_val by exact Hv. reflexivity.
Qed.

Lemma run_imsd_uni pers s v rest : vwf v ->
  tp_run pers s (enc_varint_param TP_ID_imsd_uni v ++ rest) =
  tp_run pers (upd (set_imsd_uni v) (add_id TP_ID_imsd_uni s)) rest.
Proof.
  intros Hv. rewrite (run_numeric pers s TP_ID_imsd_uni v rest (set_imsd_uni v (st_p s)));
    [reflexivity|cbn; tauto|vwf_id|exact Hv|].
  rewrite read_numeric_val by exact Hv. reflexivity.
Qed.

Lemma run_imd pers s v rest : vwf v ->
  tp_run pers s (enc_varint_param TP_ID_imd v ++ rest) =
  tp_run pers (upd (set_imd v) (add_id TP_ID_imd s)) rest.
Proof.
  intros Hv. rewrite (run_numeric pers s TP_ID_imd v rest (set_imd v (st_p s)));
    [reflexivity|cbn; tauto|vwf_id|exact Hv|].
  rewrite read_numeric_val by exact Hv. reflexivity.
Qed.

Lemma streams_vwf v : 0 <= v <= TP_MaxStreamCount -> vwf v.
Proof. unfold TP_MaxStreamCount, vwf, maxVarInt8. lia. Qed.

Lemma run_mbs pers s v rest : 0 <= v <= TP_MaxStreamCount ->
  tp_run pers s (enc_varint_param TP_ID_mbs v ++ rest) =
  tp_run pers (upd (set_mbs v) (add_id TP_ID_mbs s)) rest.
Proof.
  intros Hr. pose proof (streams_vwf v Hr) as Hv.
  rewrite (run_numeric pers s TP_ID_mbs v rest (set_mbs v (st_p s)));
    [reflexivity|cbn; tauto|vwf_id|exact Hv|].
  rewrite read_numeric_val by exact Hv. tp_consts. cbn [Z.eqb Pos.eqb].
  destruct (Z.ltb_spec TP_MaxStreamCount v); [lia|reflexivity].
Qed.

Lemma run_mus pers s v rest : 0 <= v <= TP_MaxStreamCount ->
  tp_run pers s (enc_varint_param TP_ID_mus v ++ rest) =
  tp_run pers (upd (set_mus v) (add_id TP_ID_mus s)) rest.
Proof.
  intros Hr. pose proof (streams_vwf v Hr) as Hv.
  rewrite (run_numeric pers s TP_ID_mus v rest (set_mus v (st_p s)));
    [reflexivity|cbn; tauto|vwf_id|exact Hv|].
  rewrite read_numeric_val by exact Hv. tp_consts. cbn [Z.eqb Pos.eqb].
  destruct (Z.ltb_spec TP_MaxStreamCount v); [lia|reflexivity].
Qed.

Lemma to_i64_small x : 0 <= x <= maxInt64 -> to_i64 x = x.
Proof.
  unfold to_i64, two64, maxInt64. intros H.
  replace (x mod 18446744073709551616) with x by lia.
  destruct (Z.leb_spec x 9223372036854775807); lia.
Qed.

Lemma sat_duration_small v u : 0 < u -> 0 <= v -> v * u <= maxInt64 -> sat_duration v u = v * u.
Proof.
  intros Hu Hv H. unfold sat_duration.
  destruct (Z.ltb_spec (maxInt64 / u) v) as [L|L]; [|reflexivity].
  exfalso. assert (maxInt64 / u * u <= maxInt64) by (pose proof (Z.mul_div_le maxInt64 u Hu); lia).
  assert (v * u <= maxInt64 -> v <= maxInt64 / u) by (intros; apply Z.div_le_lower_bound; lia). lia.
Qed.

Lemma run_mit pers s d rest : 0 <= d <= maxInt64 ->
  tp_run pers s (enc_varint_param TP_ID_mit (d / TP_Millisecond) ++ rest) =
  tp_run pers (upd (fun p => set_amit (d / TP_Millisecond * TP_Millisecond) (set_mit (norm_mit d) p)) (add_id TP_ID_mit s)) rest.
Proof.
  intros Hd.
  assert (Hv : vwf (d / TP_Millisecond)) by (unfold vwf, TP_Millisecond, maxVarInt8, maxInt64 in *; lia).
  rewrite (run_numeric pers s TP_ID_mit _ rest
             (set_amit (d / TP_Millisecond * TP_Millisecond) (set_mit (norm_mit d) (st_p s))));
    [reflexivity|cbn; tauto|vwf_id|exact Hv|].
  rewrite read_numeric_val by exact Hv. tp_consts. cbn [Z.eqb Pos.eqb].
  unfold norm_mit. destruct (Z.eqb_spec (d / TP_Millisecond) 0) as [E|E]; [rewrite E; reflexivity|].
  rewrite sat_duration_small; [reflexivity | reflexivity | unfold TP_Millisecond in *; lia |].
  unfold TP_Millisecond, maxInt64 in *. lia.
Qed.

(** the optional ones: [c] is Marshal's condition *)
Lemma run_opt_mups pers s (c : bool) v rest :
  (c = true -> 1200 <= v <= maxVarInt8) ->
  tp_run pers s ((if c then enc_varint_param TP_ID_mups v else []) ++ rest) =
  tp_run pers (upd (set_mups (if c then v else tp_mups (st_p s))) (add_id_if c TP_ID_mups s)) rest.
Proof.
  intros H. destruct c; [|cbn [app]; f_equal; eta_state s].
  specialize (H eq_refl). assert (Hv : vwf v) by (unfold vwf; lia).
  rewrite (run_numeric pers s TP_ID_mups v rest (set_mups v (st_p s)));
    [reflexivity|cbn; tauto|vwf_id|exact Hv|].
  rewrite read_numeric_val by exact Hv. tp_consts. cbn [Z.eqb Pos.eqb].
  destruct (Z.ltb_spec v 1200); [lia|reflexivity].
Qed.

Lemma run_opt_mad pers s (c : bool) d rest :
  (c = true -> 0 <= d /\ d / TP_Millisecond <= TP_MaxMaxAckDelayMs) ->
  tp_run pers s ((if c then enc_varint_param TP_ID_mad (d / TP_Millisecond) else []) ++ rest) =
  tp_run pers (upd (set_mad (if c then d / TP_Millisecond * TP_Millisecond else tp_mad (st_p s)))
                   (add_id_if c TP_ID_mad s)) rest.
Proof.
  intros H. destruct c; [|cbn [app]; f_equal; eta_state s].
  destruct (H eq_refl) as [H0 H1].
  assert (Hv : vwf (d / TP_Millisecond)) by (unfold vwf, TP_Millisecond, TP_MaxMaxAckDelayMs, maxVarInt8 in *; lia).
  rewrite (run_numeric pers s TP_ID_mad _ rest (set_mad (d / TP_Millisecond * TP_Millisecond) (st_p s)));
    [reflexivity|cbn; tauto|vwf_id|exact Hv|].
  rewrite read_numeric_val by exact Hv. tp_consts. cbn [Z.eqb Pos.eqb].
  destruct (Z.ltb_spec TP_MaxMaxAckDelayMs (d / TP_Millisecond)); [lia|reflexivity].
Qed.

Lemma run_opt_ade pers s (c : bool) v rest :
  (c = true -> 0 <= v <= TP_MaxAckDelayExponent) ->
  tp_run pers s ((if c then enc_varint_param TP_ID_ade v else []) ++ rest) =
  tp_run pers (upd (set_ade (if c then v else tp_ade (st_p s))) (add_id_if c TP_ID_ade s)) rest.
Proof.
  intros H. destruct c; [|cbn [app]; f_equal; eta_state s].
  specialize (H eq_refl).
  assert (Hv : vwf v) by (unfold vwf, TP_MaxAckDelayExponent, maxVarInt8 in *; lia).
  rewrite (run_numeric pers s TP_ID_ade v rest (set_ade v (st_p s)));
    [reflexivity|cbn; tauto|vwf_id|exact Hv|].
  rewrite read_numeric_val by exact Hv. tp_consts. cbn [Z.eqb Pos.eqb].
  destruct (Z.ltb_spec TP_MaxAckDelayExponent v); [lia|reflexivity].
Qed.

Lemma run_opt_acil pers s (c : bool) v rest :
  (c = true -> 2 <= v <= maxVarInt8) ->
  tp_run pers s ((if c then enc_varint_param TP_ID_acil v else []) ++ rest) =
  tp_run pers (upd (set_acil (if c then v else tp_acil (st_p s))) (add_id_if c TP_ID_acil s)) rest.
Proof.
  intros H. destruct c; [|cbn [app]; f_equal; eta_state s].
  specialize (H eq_refl). assert (Hv : vwf v) by (unfold vwf; lia).
  rewrite (run_numeric pers s TP_ID_acil v rest (set_acil v (st_p s)));
    [reflexivity|cbn; tauto|vwf_id|exact Hv|].
  rewrite read_numeric_val by exact Hv. tp_consts. cbn [Z.eqb Pos.eqb].
  destruct (Z.ltb_spec v 2); [lia|reflexivity].
Qed.

Lemma run_opt_mdfs pers s (c : bool) v rest :
  (c = true -> vwf v) ->
  tp_run pers s ((if c then enc_varint_param TP_ID_mdfs v else []) ++ rest) =
  tp_run pers (upd (set_mdfs (if c then v else tp_mdfs (st_p s))) (add_id_if c TP_ID_mdfs s)) rest.
Proof.
  intros H. destruct c; [|cbn [app]; f_equal; eta_state s].
  specialize (H eq_refl).
  rewrite (run_numeric pers s TP_ID_mdfs v rest (set_mdfs v (st_p s)));
    [reflexivity|cbn; tauto|vwf_id|exact H|].
  rewrite read_numeric_val by exact H. reflexivity.
Qed.

Lemma run_opt_minad pers s (o : option Z) rest :
  opt_wf (fun m => 0 <= m <= maxInt64) o ->
  tp_run pers s ((match o with
                  | Some m => enc_varint_param TP_ID_minad (m / TP_Microsecond)
                  | None => []
                  end) ++ rest) =
  tp_run pers (upd (set_minad (match o with
                               | Some m => Some (m / TP_Microsecond * TP_Microsecond)
                               | None => tp_minad (st_p s)
                               end)) (add_id_if (is_some o) TP_ID_minad s)) rest.
Proof.
  intros H. destruct o as [m|]; [|cbn [app is_some]; f_equal; eta_state s].
  cbn [opt_wf] in H.
  assert (Hv : vwf (m / TP_Microsecond)) by (unfold vwf, TP_Microsecond, maxVarInt8, maxInt64 in *; lia).
  rewrite (run_numeric pers s TP_ID_minad _ rest
             (set_minad (Some (m / TP_Microsecond * TP_Microsecond)) (st_p s)));
    [reflexivity|cbn; tauto|vwf_id|exact Hv|].
  rewrite read_numeric_val by exact Hv. tp_consts. cbn [Z.eqb Pos.eqb].
  rewrite sat_duration_small; [reflexivity | reflexivity | unfold TP_Microsecond in *; lia |].
  unfold TP_Microsecond, maxInt64 in *. lia.
Qed.

(** the two empty-valued flags *)
Lemma run_opt_dam pers s (c : bool) rest :
  tp_run pers s ((if c then enc_param TP_ID_dam [] else []) ++ rest) =
  tp_run pers (upd (set_dam (if c then true else tp_dam (st_p s))) (add_id_if c TP_ID_dam s)) rest.
Proof.
  destruct c; [|cbn [app]; f_equal; eta_state s].
  rewrite tp_run_param by vwf_id. reflexivity.
Qed.

Lemma run_opt_rsa pers s (c : bool) rest :
  tp_run pers s ((if c then enc_param TP_ID_rsa [] else []) ++ rest) =
  tp_run pers (upd (set_rsa (if c then true else tp_rsa (st_p s))) (add_id_if c TP_ID_rsa s)) rest.
Proof.
  destruct c; [|cbn [app]; f_equal; eta_state s].
  rewrite tp_run_param by vwf_id. reflexivity.
Qed.

(** connection IDs *)
Lemma cid_len_vwf c : cid_wf c -> vwf (zlen c).
Proof. unfold cid_wf, TP_MaxConnIDLen, vwf, maxVarInt8. pose proof (zlen_nonneg c). lia. Qed.

Lemma run_iscid pers s c rest : cid_wf c ->
  tp_run pers s (enc_param TP_ID_iscid c ++ rest) =
  tp_run pers (mkSt (set_iscid c (st_p s)) (st_odcid s) true (TP_ID_iscid :: st_ids s)) rest.
Proof.
  intros Hc. rewrite tp_run_param; [|vwf_id|apply cid_len_vwf; exact Hc].
  unfold tp_step. cbn [is_numeric]. tp_consts. cbn [Z.eqb Pos.eqb orb].
  unfold cid_wf in Hc. destruct (Z.ltb_spec TP_MaxConnIDLen (zlen c)); [lia|].
  rewrite firstn_zlen_app. reflexivity.
Qed.

Lemma run_odcid s c rest : cid_wf c ->
  tp_run Server s (enc_param TP_ID_odcid c ++ rest) =
  tp_run Server (mkSt (set_odcid c (st_p s)) true (st_iscid s) (TP_ID_odcid :: st_ids s)) rest.
Proof.
  intros Hc. rewrite tp_run_param; [|vwf_id|apply cid_len_vwf; exact Hc].
  unfold tp_step. cbn [is_numeric is_client]. tp_consts. cbn [Z.eqb Pos.eqb orb].
  unfold cid_wf in Hc. destruct (Z.ltb_spec TP_MaxConnIDLen (zlen c)); [lia|].
  rewrite firstn_zlen_app. reflexivity.
Qed.

Lemma run_opt_rscid s (o : option (list Z)) rest : opt_wf cid_wf o ->
  tp_run Server s ((match o with Some c => enc_param TP_ID_rscid c | None => [] end) ++ rest) =
  tp_run Server (upd (set_rscid (match o with Some c => Some c | None => tp_rscid (st_p s) end))
                     (add_id_if (is_some o) TP_ID_rscid s)) rest.
Proof.
  intros H. destruct o as [c|]; [|cbn [app is_some]; f_equal; eta_state s].
  cbn [opt_wf] in H. rewrite tp_run_param; [|vwf_id|apply cid_len_vwf; exact H].
  unfold tp_step. cbn [is_numeric is_client]. tp_consts. cbn [Z.eqb Pos.eqb orb].
  unfold cid_wf in H. destruct (Z.ltb_spec TP_MaxConnIDLen (zlen c)); [lia|].
  rewrite firstn_zlen_app. reflexivity.
Qed.

Lemma run_opt_srt s (o : option (list Z)) rest : opt_wf (fun t => length t = 16%nat) o ->
  tp_run Server s ((match o with Some t => vappend TP_ID_srt ++ vappend 16 ++ t | None => [] end) ++ rest) =
  tp_run Server (upd (set_srt (match o with Some t => Some t | None => tp_srt (st_p s) end))
                     (add_id_if (is_some o) TP_ID_srt s)) rest.
Proof.
  intros H. destruct o as [t|]; [|cbn [app is_some]; f_equal; eta_state s].
  cbn [opt_wf] in H.
  assert (Hz : zlen t = 16) by (unfold zlen; lia).
  rewrite <- Hz at 1. change (vappend TP_ID_srt ++ vappend (zlen t) ++ t) with (enc_param TP_ID_srt t).
  rewrite tp_run_param; [|vwf_id|rewrite Hz; vwf_id].
  unfold tp_step. cbn [is_numeric is_client]. tp_consts. cbn [Z.eqb Pos.eqb orb].
  rewrite Hz. cbn [Z.eqb Pos.eqb negb].
  rewrite zlen_app, Hz. destruct (Z.ltb_spec (16 + zlen rest) 16); [pose proof (zlen_nonneg rest); lia|].
  change 16%nat with (Z.to_nat 16). rewrite <- Hz, firstn_zlen_app. reflexivity.
Qed.

(** * preferred_address *)

Definition pa_body (pa : paddr) : list Z :=
  enc_addr (pa_v4 pa) 4 ++ enc_addr (pa_v6 pa) 16 ++ [zlen (pa_cid pa)] ++ pa_cid pa ++ pa_srt pa.

Lemma unbe2 p : 0 <= p < 65536 -> unbe [p / 256 mod 256; p mod 256] 0 = p.
Proof. intros H. cbn [unbe]. lia. Qed.

Lemma enc_addr4_shape a : addr_wf 4 a ->
  exists a0 a1 a2 a3 p, enc_addr a 4 = [a0; a1; a2; a3; p / 256 mod 256; p mod 256] /\
                        0 <= p < 65536 /\ norm_addr a = addr_of [a0; a1; a2; a3] p.
Proof.
  destruct a as [[ip port]|]; cbn [addr_wf].
  - intros [Hl Hp]. destruct ip as [|a0 [|a1 [|a2 [|a3 [|]]]]]; try discriminate.
    exists a0, a1, a2, a3, port. repeat split; try lia; try reflexivity.
  - intros _. exists 0, 0, 0, 0, 0. repeat split; try lia; try reflexivity.
Qed.

Lemma enc_addr16_shape a : addr_wf 16 a ->
  exists b0 b1 b2 b3 b4 b5 b6 b7 b8 b9 b10 b11 b12 b13 b14 b15 p,
    enc_addr a 16 = [b0; b1; b2; b3; b4; b5; b6; b7; b8; b9; b10; b11; b12; b13; b14; b15; p / 256 mod 256; p mod 256] /\
    0 <= p < 65536 /\
    norm_addr a = addr_of [b0; b1; b2; b3; b4; b5; b6; b7; b8; b9; b10; b11; b12; b13; b14; b15] p.
Proof.
  destruct a as [[ip port]|]; cbn [addr_wf].
  - intros [Hl Hp].
    destruct ip as [|b0 [|b1 [|b2 [|b3 [|b4 [|b5 [|b6 [|b7 [|b8 [|b9 [|b10 [|b11 [|b12 [|b13 [|b14 [|b15 [|]]]]]]]]]]]]]]]]]; try discriminate.
    exists b0, b1, b2, b3, b4, b5, b6, b7, b8, b9, b10, b11, b12, b13, b14, b15, port.
    repeat split; try lia; try reflexivity.
  - intros _. exists 0, 0, 0, 0, 0, 0, 0, 0, 0, 0, 0, 0, 0, 0, 0, 0, 0. repeat split; try lia; try reflexivity.
Qed.

Lemma firstn16 (t rest : list Z) : length t = 16%nat -> firstn 16 (t ++ rest) = t.
Proof. intros H. rewrite <- H. rewrite firstn_app, firstn_all, Nat.sub_diag. cbn. apply app_nil_r. Qed.

Lemma skipn16 (t rest : list Z) : length t = 16%nat -> skipn 16 (t ++ rest) = rest.
Proof. intros H. rewrite <- H. rewrite skipn_app, skipn_all, Nat.sub_diag. reflexivity. Qed.

Lemma pa_body_len pa : pa_wf pa -> zlen (pa_body pa) = 4 + 2 + 16 + 2 + 1 + zlen (pa_cid pa) + 16.
Proof.
  intros (H4 & H6 & Hc & Ht). unfold pa_body.
  destruct (enc_addr4_shape _ H4) as (a0&a1&a2&a3&p&E4&_&_).
  destruct (enc_addr16_shape _ H6) as (b0&b1&b2&b3&b4&b5&b6&b7&b8&b9&b10&b11&b12&b13&b14&b15&q&E6&_&_).
  rewrite E4, E6, !zlen_app. unfold zlen. cbn [length]. lia.
Qed.

Local Arguments firstn {A} !n !l : simpl nomatch.
Local Arguments skipn {A} !n !l : simpl nomatch.

Lemma read_pa_enc pa rest : pa_wf pa ->
  read_pa (pa_body pa ++ rest) (zlen (pa_body pa)) = Ok (norm_pa pa).
Proof.
  intros Hwf. rewrite (pa_body_len pa Hwf). destruct Hwf as (H4 & H6 & Hc & Ht).
  unfold pa_body, norm_pa.
  destruct (enc_addr4_shape _ H4) as (a0&a1&a2&a3&p&E4&Hp&N4).
  destruct (enc_addr16_shape _ H6) as (b0&b1&b2&b3&b4&b5&b6&b7&b8&b9&b10&b11&b12&b13&b14&b15&q&E6&Hq&N6).
  rewrite E4, E6, N4, N6. clear E4 E6 N4 N6 H4 H6.
  set (cid := pa_cid pa) in *. set (tok := pa_srt pa) in *.
  unfold read_pa. rewrite <- !app_assoc. cbn [app].
  match goal with |- context [zlen ?b <? 4 + 2 + 16 + 2 + 1] => destruct (Z.ltb_spec (zlen b) (4 + 2 + 16 + 2 + 1)) as [L|_] end.
  { exfalso. unfold zlen in L. cbn [length] in L. lia. }
  cbn [firstn skipn nth].
  rewrite !unbe2 by assumption.
  unfold TP_MaxConnIDLen in *.
  destruct (Z.eqb_spec (zlen cid) 0); [lia|]. destruct (Z.ltb_spec 20 (zlen cid)); [lia|]. cbn [orb]. rewrite !skipn_O.
  rewrite !zlen_app.
  assert (Hzt : zlen tok = 16) by (unfold zlen; lia).
  destruct (Z.ltb_spec (zlen cid + (zlen tok + zlen rest)) (zlen cid + 16)); [pose proof (zlen_nonneg rest); lia|].
  rewrite firstn_zlen_app, skipn_zlen_app, firstn16, skipn16 by exact Ht.
  match goal with |- context [negb (?x =? ?y)] => replace (x =? y) with true end.
  - reflexivity.
  - symmetry. apply Z.eqb_eq. unfold zlen at 1. cbn [length]. rewrite app_length. fold (zlen rest).
    unfold zlen in *. rewrite !app_length. lia.
Qed.

Lemma enc_pa_eq pa : pa_wf pa -> enc_pa pa = enc_param TP_ID_pa (pa_body pa).
Proof.
  intros H. unfold enc_pa, enc_param. rewrite (pa_body_len pa H). reflexivity.
Qed.

Lemma pa_body_vwf pa : pa_wf pa -> vwf (zlen (pa_body pa)).
Proof.
  intros H. rewrite (pa_body_len pa H). destruct H as (_ & _ & Hc & _).
  unfold TP_MaxConnIDLen, vwf, maxVarInt8 in *. lia.
Qed.

Lemma run_opt_pa s (o : option paddr) rest : opt_wf pa_wf o ->
  tp_run Server s ((match o with Some pa => enc_pa pa | None => [] end) ++ rest) =
  tp_run Server (upd (set_pa (match o with Some pa => Some (norm_pa pa) | None => tp_pa (st_p s) end))
                     (add_id_if (is_some o) TP_ID_pa s)) rest.
Proof.
  intros H. destruct o as [pa|]; [|cbn [app is_some]; f_equal; eta_state s].
  cbn [opt_wf] in H. rewrite enc_pa_eq by exact H.
  rewrite tp_run_param; [|vwf_id|apply pa_body_vwf; exact H].
  unfold tp_step. cbn [is_numeric is_client]. tp_consts. cbn [Z.eqb Pos.eqb orb].
  rewrite read_pa_enc by exact H. reflexivity.
Qed.

(** * The ids Marshal writes are pairwise distinct *)

Lemma NoDup_oc c id l : ~ In id l -> NoDup l -> NoDup (oc c id l).
Proof. destruct c; cbn [oc]; [intros; constructor; assumption|auto]. Qed.

Lemma In_oc x c id l : In x (oc c id l) -> id = x \/ In x l.
Proof. destruct c; cbn [oc In]; auto. Qed.

Ltac not_in :=
  let H := fresh "Hin" in
  intro H;
  repeat (first [apply In_oc in H | apply in_inv in H]; destruct H as [H|H]; [lia|]);
  exact H.

Ltac nodup_ids :=
  repeat first [apply NoDup_oc; [not_in|] | apply NoDup_cons; [not_in|]]; apply NoDup_nil.

Lemma byte_nth0 rnd : Forall is_byte rnd -> 0 <= nth 0 rnd 0 < 256.
Proof. intros H. destruct rnd; cbn; [lia|]. inversion H; assumption. Qed.

(** merges of "absent: keep the default" with "present: the decoded value" *)
Lemma merge_mad d : (if negb (d =? TP_DefaultMaxAckDelay) then d / TP_Millisecond * TP_Millisecond else TP_DefaultMaxAckDelay)
                    = d / TP_Millisecond * TP_Millisecond.
Proof. unfold TP_DefaultMaxAckDelay, TP_Millisecond. destruct (Z.eqb_spec d 25000000); cbn [negb]; lia. Qed.

Lemma merge_dflt (v d : Z) : (if negb (v =? d) then v else d) = v.
Proof. destruct (Z.eqb_spec v d); cbn [negb]; congruence. Qed.

Lemma merge_bool (b : bool) : (if b then true else false) = b.
Proof. destruct b; reflexivity. Qed.

Lemma merge_opt {A} (o : option A) : match o with Some t => Some t | None => None end = o.
Proof. destruct o; reflexivity. Qed.

Lemma merge_mups m : m = 0 \/ 1200 <= m -> (if 0 <? m then m else 0) = m.
Proof. intros H. destruct (Z.ltb_spec 0 m); lia. Qed.

Ltac norm_st :=
  cbn [upd add_id add_id_if st_p st_odcid st_iscid st_ids st_init tp_init tp_zero
       set_imsd_bl set_imsd_br set_imsd_uni set_imd set_mad set_ade set_dam set_mups set_mus set_mbs set_mit
       set_pa set_odcid set_iscid set_rscid set_srt set_acil set_mdfs set_rsa set_minad set_override set_amit
       tp_imsd_bl tp_imsd_br tp_imsd_uni tp_imd tp_mad tp_ade tp_dam tp_mups tp_mus tp_mbs tp_mit
       tp_pa tp_odcid tp_iscid tp_rscid tp_srt tp_acil tp_mdfs tp_rsa tp_minad tp_override tp_amit].

(** * Round trip, server *)
Theorem roundtrip_server rnd p :
  length rnd = 18%nat -> Forall is_byte rnd -> tp_wf p ->
  unmarshal Server false (marshal Server rnd p) = Ok (tp_norm Server p).
Proof.
  intros Hl Hb Hwf.
  destruct Hwf as (Hbl & Hbr & Huni & Himd & Hmbs & Hmus & Hmit & Hmups & Hmad0 & Hmad1 & Hade & Hacil &
                   Hmdfs & Hminad & Hod & His & Hrs & Hsrt & Hpa & Hov).
  rewrite unmarshal_run.
  replace (marshal Server rnd p) with (marshal Server rnd p ++ []) by apply app_nil_r.
  unfold marshal. rewrite Hov. cbn [is_server]. rewrite <- !app_assoc.
  rewrite run_grease by assumption. norm_st.
  rewrite run_imsd_bl by assumption. norm_st.
  rewrite run_imsd_br by assumption. norm_st.
  rewrite run_imsd_uni by assumption. norm_st.
  rewrite run_imd by assumption. norm_st.
  rewrite run_mbs by assumption. norm_st.
  rewrite run_mus by assumption. norm_st.
  rewrite run_mit by assumption. norm_st.
  rewrite run_opt_mups by (intros E; lia). norm_st.
  rewrite run_opt_mad by (intros _; split; assumption). norm_st.
  rewrite run_opt_ade by (intros _; assumption). norm_st.
  rewrite run_opt_dam. norm_st.
  rewrite run_opt_srt by assumption. norm_st.
  rewrite run_odcid by assumption. norm_st.
  rewrite run_opt_pa by assumption. norm_st.
  rewrite run_opt_acil by (intros _; assumption). norm_st.
  rewrite run_iscid by assumption. norm_st.
  rewrite run_opt_rscid by assumption. norm_st.
  rewrite run_opt_mdfs by (intros E; unfold TP_InvalidByteCount in *; destruct Hmdfs; [lia|assumption]). norm_st.
  rewrite run_opt_rsa. norm_st.
  rewrite run_opt_minad by (destruct (tp_minad p); cbn [opt_wf] in *; tauto). norm_st.
  rewrite tp_run_nil.
  rewrite merge_mad, !merge_dflt, !merge_bool, ?merge_opt, merge_mups by lia.
  unfold tp_finish, dup_check. norm_st. cbn [negb andb is_server].
  (* min_ack_delay <= max_ack_delay *)
  match goal with |- (if ?c then _ else _) = _ => replace c with false end.
  2:{ destruct (tp_minad p) as [m|]; [|reflexivity]. cbn [opt_wf] in Hminad. symmetry. apply Z.ltb_ge. lia. }
  (* the ids are pairwise distinct *)
  rewrite nodup_passes.
  2:{ pose proof (byte_nth0 rnd Hb) as Hk. unfold grease_id. set (k := nth 0 rnd 0) in *. clearbody k.
      clear - Hk. tp_consts. nodup_ids. }
  unfold tp_norm, option_map. cbn [is_server].
  destruct (tp_mups p =? 0); norm_st; destruct (tp_pa p); reflexivity.
Qed.

(** * Round trip, client: the server-only parameters are not written *)
Theorem roundtrip_client rnd p :
  length rnd = 18%nat -> Forall is_byte rnd -> tp_wf p ->
  unmarshal Client false (marshal Client rnd p) = Ok (tp_norm Client p).
Proof.
  intros Hl Hb Hwf.
  destruct Hwf as (Hbl & Hbr & Huni & Himd & Hmbs & Hmus & Hmit & Hmups & Hmad0 & Hmad1 & Hade & Hacil &
                   Hmdfs & Hminad & Hod & His & Hrs & Hsrt & Hpa & Hov).
  rewrite unmarshal_run.
  replace (marshal Client rnd p) with (marshal Client rnd p ++ []) by apply app_nil_r.
  unfold marshal. rewrite Hov. cbn [is_server]. rewrite <- !app_assoc. cbn [app].
  rewrite run_grease by assumption. norm_st.
  rewrite run_imsd_bl by assumption. norm_st.
  rewrite run_imsd_br by assumption. norm_st.
  rewrite run_imsd_uni by assumption. norm_st.
  rewrite run_imd by assumption. norm_st.
  rewrite run_mbs by assumption. norm_st.
  rewrite run_mus by assumption. norm_st.
  rewrite run_mit by assumption. norm_st.
  rewrite run_opt_mups by (intros E; lia). norm_st.
  rewrite run_opt_mad by (intros _; split; assumption). norm_st.
  rewrite run_opt_ade by (intros _; assumption). norm_st.
  rewrite run_opt_dam. norm_st.
  rewrite run_opt_acil by (intros _; assumption). norm_st.
  rewrite run_iscid by assumption. norm_st.
  rewrite run_opt_mdfs by (intros E; unfold TP_InvalidByteCount in *; destruct Hmdfs; [lia|assumption]). norm_st.
  rewrite run_opt_rsa. norm_st.
  rewrite run_opt_minad by (destruct (tp_minad p); cbn [opt_wf] in *; tauto). norm_st.
  rewrite tp_run_nil.
  rewrite merge_mad, !merge_dflt, !merge_bool, ?merge_opt, merge_mups by lia.
  unfold tp_finish, dup_check. norm_st. cbn [negb andb is_server].
  match goal with |- (if ?c then _ else _) = _ => replace c with false end.
  2:{ destruct (tp_minad p) as [m|]; [|reflexivity]. cbn [opt_wf] in Hminad. symmetry. apply Z.ltb_ge. lia. }
  rewrite nodup_passes.
  2:{ pose proof (byte_nth0 rnd Hb) as Hk. unfold grease_id. set (k := nth 0 rnd 0) in *. clearbody k.
      clear - Hk. tp_consts. nodup_ids. }
  unfold tp_norm, option_map. cbn [is_server].
  destruct (tp_mups p =? 0); norm_st; reflexivity.
Qed.

Theorem tparams_roundtrip pers rnd p :
  length rnd = 18%nat -> Forall is_byte rnd -> tp_wf p ->
  unmarshal pers false (marshal pers rnd p) = Ok (tp_norm pers p).
Proof. destruct pers; [apply roundtrip_server|apply roundtrip_client]. Qed.

(** * Session-ticket form *)

Lemma run_acil pers s v rest : 2 <= v <= maxVarInt8 ->
  tp_run pers s (enc_varint_param TP_ID_acil v ++ rest) =
  tp_run pers (upd (set_acil v) (add_id TP_ID_acil s)) rest.
Proof. intros H. exact (run_opt_acil pers s true v rest (fun _ => H)). Qed.

Theorem ticket_roundtrip p :
  tp_wf_ticket p -> unmarshal_ticket (marshal_ticket p) = Ok (tp_norm_ticket p).
Proof.
  intros (Hbl & Hbr & Huni & Himd & Hmbs & Hmus & Hacil & Hmdfs & Hov).
  unfold unmarshal_ticket, marshal_ticket. rewrite Hov.
  rewrite (vparse_vappend TP_MarshalVersion) by vwf_id.
  rewrite Z.eqb_refl. cbn [negb].
  rewrite unmarshal_run.
  match goal with |- context [tp_run Server st_init ?b] => replace b with (b ++ []) by apply app_nil_r end.
  rewrite <- !app_assoc.
  rewrite run_imsd_bl by assumption. norm_st.
  rewrite run_imsd_br by assumption. norm_st.
  rewrite run_imsd_uni by assumption. norm_st.
  rewrite run_imd by assumption. norm_st.
  rewrite run_mbs by assumption. norm_st.
  rewrite run_mus by assumption. norm_st.
  rewrite run_acil by assumption. norm_st.
  rewrite run_opt_mdfs by (intros E; unfold TP_InvalidByteCount in *; destruct Hmdfs; [lia|assumption]). norm_st.
  rewrite run_opt_rsa. norm_st.
  rewrite tp_run_nil.
  rewrite !merge_dflt, !merge_bool.
  unfold tp_finish, dup_check. norm_st. cbn [negb].
  rewrite nodup_passes.
  2:{ tp_consts. nodup_ids. }
  reflexivity.
Qed.

(** * The hypotheses are satisfiable: a typical server and a typical client parameter set *)

Definition ex_rnd : list Z := [7; 3; 1; 2; 3; 4; 5; 6; 7; 8; 9; 10; 11; 12; 13; 14; 15; 16].

Definition ex_pa : paddr :=
  mkPA (Some ([192; 0; 2; 1], 4433)) None [1; 2; 3; 4] [0; 1; 2; 3; 4; 5; 6; 7; 8; 9; 10; 11; 12; 13; 14; 15].

Definition ex_tp : tparams :=
  mkTP 524288 524288 524288 786432 26000000 3 true 1452 100 100 30000000000
       (Some ex_pa) [1; 2; 3; 4; 5; 6; 7; 8] [9; 10; 11; 12] (Some []) (Some (pa_srt ex_pa))
       4 1200 true (Some 1000000) None 0.

Lemma ex_tp_wf : tp_wf ex_tp.
Proof.
  unfold tp_wf, ex_tp, vwf, cid_wf, opt_wf, pa_wf, addr_wf, ex_pa. cbn.
  repeat split; try reflexivity; try (vm_compute; discriminate); try lia; auto;
    right; unfold maxVarInt8; lia.
Qed.

Lemma ex_tp_wf_ticket : tp_wf_ticket ex_tp.
Proof.
  unfold tp_wf_ticket, ex_tp, vwf. cbn.
  repeat split; try reflexivity; try (vm_compute; discriminate); try lia; auto;
    right; unfold maxVarInt8; lia.
Qed.

Lemma ex_tp_roundtrip :
  tp_wf ex_tp /\ tp_wf_ticket ex_tp /\ length ex_rnd = 18%nat /\ Forall is_byte ex_rnd /\
  unmarshal Server false (marshal Server ex_rnd ex_tp) = Ok (tp_norm Server ex_tp) /\
  unmarshal Client false (marshal Client ex_rnd ex_tp) = Ok (tp_norm Client ex_tp) /\
  tp_norm Server ex_tp <> tp_norm Client ex_tp /\
  unmarshal_ticket (marshal_ticket ex_tp) = Ok (tp_norm_ticket ex_tp).
Proof.
  split; [exact ex_tp_wf|]. split; [exact ex_tp_wf_ticket|]. split; [reflexivity|].
  split; [repeat constructor; unfold is_byte; lia|].
  split; [vm_compute; reflexivity|]. split; [vm_compute; reflexivity|].
  split; [vm_compute; discriminate|]. vm_compute; reflexivity.
Qed.
