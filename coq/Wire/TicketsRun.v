(** Correspondence glue for the session-ticket cases of the tokens unit (harness/drv/tokens.go). *)
From Coq Require Import List ZArith Bool String.
From V Require Export Wire.FramesBase Wire.TParams.
From V Require Import Lib.Corr Lib.Hex Gen.Params Wire.Varint Wire.Tickets.
Import ListNotations.
Open Scope Z_scope.

Inductive case :=
| TicketEnc (p : tparams) (out : string)                         (* sessionTicket.Marshal *)
| TicketDec (input : string) (cls aux : Z) (p : option tparams). (* sessionTicket.Unmarshal *)

Inductive obs :=
| BytesObs (out : list Z)
| ParseObs (cls aux : Z) (p : option tparams).

Definition model_obs (c : case) : obs :=
  match c with
  | TicketEnc p _ => BytesObs (ticket_marshal p)
  | TicketDec input _ _ _ =>
    match ticket_unmarshal (hx input) with
    | Ok p => ParseObs 0 0 (Some p)
    | Err c a => ParseObs c a None
    end
  end.

Definition check_case (c : case) : bool :=
  match c, model_obs c with
  | TicketEnc _ out, BytesObs b => zeqb_list b (hx out)
  | TicketDec _ cls aux p, ParseObs cls' aux' p' =>
    (cls =? cls') && (aux =? aux') &&
    match p, p' with
    | Some a, Some b => tp_eqb a b
    | None, None => true
    | _, _ => false
    end
  | _, _ => false
  end.
