(** STREAM / CRYPTO / DATAGRAM: round trips, lengths, MaxDataLen and MaybeSplitOffFrame. *)
From Coq Require Import List ZArith Bool Lia.
From V Require Import Gen.Params Lib.Hex Wire.Varint Wire.VarintProofs Wire.FramesBase Wire.FramesBaseProofs Wire.FramesStream.
Import ListNotations.
Open Scope Z_scope.

Local Ltac bv := repeat (rewrite bindv_vappend by assumption; cbv beta).

(** unfold [vlen] and split on every threshold comparison *)
Ltac vl :=
  unfold vlen, maxVarInt1, maxVarInt2, maxVarInt4, maxVarInt8 in *;
  repeat match goal with
         | |- context [?a <=? ?b] => destruct (Z.leb_spec a b)
         | H : context [?a <=? ?b] |- _ => destruct (Z.leb_spec a b)
         end.

Lemma firstn_zlen_all {A} (b : list A) : firstn (Z.to_nat (zlen b)) b = b.
Proof. unfold zlen. rewrite Nat2Z.id. apply firstn_all. Qed.
Lemma skipn_zlen_all {A} (b : list A) : skipn (Z.to_nat (zlen b)) b = [].
Proof. unfold zlen. rewrite Nat2Z.id. apply skipn_all. Qed.

(** ------------------------------------------------------------------ STREAM *)

Definition wf_stream (sid off : Z) (data : list Z) (fin : bool) : Prop :=
  vwf sid /\ vwf off /\ zlen data <= W_MaxPacketBufferSize /\ off + zlen data <= W_MaxByteCount
  /\ (0 < zlen data \/ fin = true).

Definition body_stream (sid off : Z) (data : list Z) (dlp : bool) : list Z :=
  vappend sid ++ (if off =? 0 then [] else vappend off) ++ (if dlp then vappend (zlen data) else []) ++ data.

Lemma append_stream_shape sid off data fin dlp :
  0 < zlen data \/ fin = true ->
  append_stream sid off data fin dlp = Some ([stream_type off fin dlp] ++ body_stream sid off data dlp).
Proof.
  intros H. unfold append_stream, body_stream.
  destruct (Z.eqb_spec (zlen data) 0) as [E|E]; [|reflexivity].
  destruct H as [H|H]; [lia|]. subst fin. reflexivity.
Qed.

Lemma stream_type_bits off fin dlp :
  Z.testbit (stream_type off fin dlp) 0 = fin /\
  Z.testbit (stream_type off fin dlp) 1 = dlp /\
  Z.testbit (stream_type off fin dlp) 2 = negb (off =? 0).
Proof. unfold stream_type. destruct fin, dlp, (off =? 0); repeat split; reflexivity. Qed.

Lemma stream_type_range off fin dlp : 8 <= stream_type off fin dlp <= 15.
Proof. unfold stream_type. destruct fin, dlp, (off =? 0); lia. Qed.

Lemma stream_tail_ok sid off fin dlp d r :
  zlen d <= W_MaxPacketBufferSize -> off + zlen d <= W_MaxByteCount ->
  stream_tail sid off fin dlp (zlen d) (d ++ r) = Ok (FStream sid off d fin dlp, r).
Proof.
  intros H1 H2. unfold stream_tail.
  destruct (Z.ltb_spec W_MaxPacketBufferSize (zlen d)); [lia|]. rewrite andb_false_r.
  destruct (Z.ltb_spec W_MaxByteCount (off + zlen d)); [lia|].
  rewrite firstn_zlen_app, skipn_zlen_app. reflexivity.
Qed.

Lemma parse_stream_off off fin dlp r (k : Z -> list Z -> P) :
  vwf off ->
  bindv_if (Z.testbit (stream_type off fin dlp) 2) ((if off =? 0 then [] else vappend off) ++ r) k = k off r.
Proof.
  intros V. destruct (stream_type_bits off fin dlp) as (_ & _ & ->).
  destruct (Z.eqb_spec off 0) as [E|E]; cbn [negb bindv_if app].
  - subst. reflexivity.
  - apply bindv_vappend; exact V.
Qed.

(** with a length field: the frame is self-delimiting *)
Theorem stream_roundtrip_len sid off data fin rest :
  wf_stream sid off data fin ->
  parse_stream (stream_type off fin true) (body_stream sid off data true ++ rest)
  = Ok (FStream sid off data fin true, rest).
Proof.
  intros (Vs & Vo & Hl & Hm & Hne). unfold parse_stream, body_stream. rewrite <- !app_assoc.
  rewrite bindv_vappend by assumption. cbv beta.
  rewrite parse_stream_off by assumption.
  destruct (stream_type_bits off fin true) as (-> & -> & _).
  rewrite bindv_vappend by (unfold vwf, maxVarInt8, W_MaxPacketBufferSize in *; pose proof (zlen_nonneg data); lia).
  cbv beta. rewrite zlen_app.
  destruct (Z.ltb_spec (zlen data + zlen rest) (zlen data)); [pose proof (zlen_nonneg rest); lia|].
  apply stream_tail_ok; assumption.
Qed.

(** without a length field: the data extends to the end of the packet *)
Theorem stream_roundtrip_nolen sid off data fin :
  wf_stream sid off data fin ->
  parse_stream (stream_type off fin false) (body_stream sid off data false)
  = Ok (FStream sid off data fin false, []).
Proof.
  intros (Vs & Vo & Hl & Hm & Hne). unfold parse_stream, body_stream.
  rewrite bindv_vappend by assumption. cbv beta.
  rewrite parse_stream_off by assumption.
  destruct (stream_type_bits off fin false) as (-> & -> & _). cbn [app].
  rewrite <- (app_nil_r data) at 2. apply stream_tail_ok; assumption.
Qed.

Theorem stream_length sid off data fin dlp :
  wf_stream sid off data fin ->
  zlen ([stream_type off fin dlp] ++ body_stream sid off data dlp) = length_stream sid off data dlp.
Proof.
  intros (Vs & Vo & Hl & Hm & Hne). unfold body_stream, length_stream, stream_hdr_len.
  assert (Vd : vwf (zlen data)) by (unfold vwf, maxVarInt8, W_MaxPacketBufferSize in *; pose proof (zlen_nonneg data); lia).
  rewrite !zlen_app, zlen_cons, zlen_nil, zlen_vappend by assumption.
  destruct (off =? 0), dlp; rewrite ?zlen_vappend by assumption; change (@zlen Z []) with 0; lia.
Qed.

Theorem reject_stream_overflow sid off data fin rest :
  vwf sid -> vwf off -> zlen data <= W_MaxPacketBufferSize -> W_MaxByteCount < off + zlen data ->
  parse_stream (stream_type off fin true) (body_stream sid off data true ++ rest) = Err 12 0.
Proof.
  intros Vs Vo Hl Hm. unfold parse_stream, body_stream. rewrite <- !app_assoc.
  rewrite bindv_vappend by assumption. cbv beta.
  rewrite parse_stream_off by assumption.
  destruct (stream_type_bits off fin true) as (-> & -> & _).
  rewrite bindv_vappend by (unfold vwf, maxVarInt8, W_MaxPacketBufferSize in *; pose proof (zlen_nonneg data); lia).
  cbv beta. rewrite zlen_app.
  destruct (Z.ltb_spec (zlen data + zlen rest) (zlen data)); [pose proof (zlen_nonneg rest); lia|].
  unfold stream_tail.
  destruct (Z.ltb_spec W_MaxPacketBufferSize (zlen data)); [lia|]. rewrite andb_false_r.
  destruct (Z.ltb_spec W_MaxByteCount (off + zlen data)); [reflexivity | lia].
Qed.

(** ---- MaxDataLen (shared by STREAM, CRYPTO, DATAGRAM): header of [h] bytes, then an optional
    varint length field, then the data *)

Definition mdl (h : Z) (dlp : bool) (maxSize : Z) : Z :=
  let headerLen := h + (if dlp then 1 else 0) in
  if maxSize <? headerLen then 0
  else let m := maxSize - headerLen in if dlp then shrink_for_length_field m else m.

Definition glen (h : Z) (dlp : bool) (d : Z) : Z := h + (if dlp then vlen d else 0) + d.

Lemma vlen_mono a b : 0 <= a <= b -> b <= maxVarInt8 -> vlen a <= vlen b.
Proof. intros H1 H2. vl; lia. Qed.

Lemma shrink_loop_ok fuel : forall dl space,
  0 <= dl <= space -> space <= maxVarInt8 ->
  Z.max 0 (dl - (space - 7)) < Z.of_nat fuel ->
  (forall d, dl < d <= space -> space < vlen d - 1 + d) ->
  0 <= shrink_loop fuel dl space <= dl /\
  vlen (shrink_loop fuel dl space) - 1 + shrink_loop fuel dl space <= space /\
  (forall d, shrink_loop fuel dl space < d <= space -> space < vlen d - 1 + d).
Proof.
  induction fuel as [|fuel IH]; intros dl space Hd Hs Hf Hmax; [lia|].
  cbn [shrink_loop].
  assert (Vd : vwf dl) by (unfold vwf; lia).
  pose proof (vlen_pos dl Vd) as Hv.
  destruct (Z.ltb_spec 0 dl) as [Lp|Lp]; cbn [andb].
  - destruct (Z.ltb_spec space (vlen dl - 1 + dl)) as [Ln|Ln].
    + assert (Hrec : 0 <= dl - 1 <= space) by lia.
      specialize (IH (dl - 1) space Hrec Hs).
      destruct IH as (A & B & C).
      * lia.
      * intros d Hdd. destruct (Z.eq_dec d dl) as [->|Ne]; [exact Ln | apply Hmax; lia].
      * split; [lia|]. split; [exact B | exact C].
    + split; [lia|]. split; [lia | exact Hmax].
  - assert (dl = 0) by lia. subst dl. split; [lia|]. split; [|exact Hmax]. change (vlen 0) with 1. lia.
Qed.

Lemma shrink_spec space : 0 <= space <= maxVarInt8 ->
  0 <= shrink_for_length_field space <= space /\
  vlen (shrink_for_length_field space) - 1 + shrink_for_length_field space <= space /\
  (forall d, shrink_for_length_field space < d <= space -> space < vlen d - 1 + d).
Proof.
  intros H. unfold shrink_for_length_field. apply shrink_loop_ok; lia.
Qed.

Lemma mdl_range h dlp maxSize : 0 <= h -> 0 <= maxSize <= maxVarInt8 -> 0 <= mdl h dlp maxSize <= maxSize.
Proof.
  intros Hh Hm. unfold mdl.
  destruct (Z.ltb_spec maxSize (h + (if dlp then 1 else 0))); [lia|].
  destruct dlp; [|lia].
  pose proof (shrink_spec (maxSize - (h + 1)) ltac:(lia)) as (A & _). lia.
Qed.

(** any amount of data up to MaxDataLen fits, for every maxSize a varint can express *)
Lemma mdl_fits h dlp maxSize d :
  0 <= h -> maxSize <= maxVarInt8 -> 0 <= d <= mdl h dlp maxSize -> 0 < mdl h dlp maxSize ->
  glen h dlp d <= maxSize.
Proof.
  intros Hh Hm. unfold mdl, glen.
  destruct (Z.ltb_spec maxSize (h + (if dlp then 1 else 0))); [lia|].
  destruct dlp; [|lia].
  pose proof (shrink_spec (maxSize - (h + 1)) ltac:(lia)) as (A & B & _).
  set (n := shrink_for_length_field (maxSize - (h + 1))) in *. intros Hd Hn.
  assert (vlen d <= vlen n) by (apply vlen_mono; lia). lia.
Qed.

(** and it is the largest such amount *)
Lemma mdl_maximal h dlp maxSize d :
  0 < h -> 0 <= maxSize <= maxVarInt8 -> vwf d -> mdl h dlp maxSize < d -> maxSize < glen h dlp d.
Proof.
  intros Hh Hm Vd. pose proof (vlen_pos d Vd) as Hv. unfold vwf in Vd. unfold mdl, glen.
  destruct (Z.ltb_spec maxSize (h + (if dlp then 1 else 0))); [destruct dlp; lia|].
  destruct dlp; [|lia].
  pose proof (shrink_spec (maxSize - (h + 1)) ltac:(lia)) as (A & B & C).
  set (n := shrink_for_length_field (maxSize - (h + 1))) in *. intros Hd.
  destruct (Z.le_gt_cases d (maxSize - (h + 1))) as [Le|Gt].
  - specialize (C d ltac:(lia)). lia.
  - lia.
Qed.

Lemma stream_hdr_pos sid off : vwf sid -> vwf off -> 2 <= stream_hdr_len sid off.
Proof.
  intros Vs Vo. unfold stream_hdr_len. pose proof (vlen_pos sid Vs). pose proof (vlen_pos off Vo).
  destruct (off =? 0); lia.
Qed.

(** MaxDataLen: any amount of STREAM data up to MaxDataLen(maxSize) gives a frame of at most
    maxSize bytes — for every maxSize (the varint range), not only for packet-sized ones. *)
Theorem maxdatalen_stream_fits sid off dlp maxSize data :
  vwf sid -> vwf off -> maxSize <= maxVarInt8 ->
  zlen data <= maxdatalen_stream sid off dlp maxSize ->
  0 < maxdatalen_stream sid off dlp maxSize ->
  length_stream sid off data dlp <= maxSize.
Proof.
  intros Vs Vo Hm Hd Hn. pose proof (stream_hdr_pos sid off Vs Vo). pose proof (zlen_nonneg data).
  change (maxdatalen_stream sid off dlp maxSize) with (mdl (stream_hdr_len sid off) dlp maxSize) in *.
  change (length_stream sid off data dlp) with (glen (stream_hdr_len sid off) dlp (zlen data)).
  apply mdl_fits; lia.
Qed.

Theorem maxdatalen_stream_maximal sid off dlp maxSize data :
  0 <= maxSize <= maxVarInt8 -> 0 < stream_hdr_len sid off -> vwf (zlen data) ->
  maxdatalen_stream sid off dlp maxSize < zlen data ->
  maxSize < length_stream sid off data dlp.
Proof.
  intros Hm Hh V Hd.
  change (maxdatalen_stream sid off dlp maxSize) with (mdl (stream_hdr_len sid off) dlp maxSize) in *.
  change (length_stream sid off data dlp) with (glen (stream_hdr_len sid off) dlp (zlen data)).
  apply mdl_maximal; assumption.
Qed.

Lemma zlen_firstn_le {A} n (l : list A) : 0 <= n -> zlen (firstn (Z.to_nat n) l) <= n.
Proof. intros H. unfold zlen. pose proof (firstn_le_length (Z.to_nat n) l). lia. Qed.

Lemma zlen_firstn {A} n (l : list A) : 0 <= n <= zlen l -> zlen (firstn (Z.to_nat n) l) = n.
Proof. intros H. unfold zlen in *. rewrite firstn_length. lia. Qed.

(** MaybeSplitOffFrame preserves the byte range, and the frame split off fits. *)
Theorem split_stream_spec sid off data fin dlp maxSize :
  wf_stream sid off data fin -> 0 <= maxSize <= maxVarInt8 ->
  match split_stream sid off data fin dlp maxSize with
  | (None, false, f') => f' = FStream sid off data fin dlp /\ length_stream sid off data dlp <= maxSize
  | (None, true, f') => f' = FStream sid off data fin dlp /\ maxSize < length_stream sid off data dlp
                        /\ maxdatalen_stream sid off dlp maxSize = 0
  | (Some (FStream s1 o1 d1 fin1 l1), true, FStream s2 o2 d2 fin2 l2) =>
      s1 = sid /\ s2 = sid /\ o1 = off /\ o2 = off + zlen d1 /\ d1 ++ d2 = data
      /\ fin1 = false /\ fin2 = fin /\ l1 = dlp /\ l2 = dlp
      /\ 0 < zlen d1 < zlen data /\ length_stream sid off d1 dlp <= maxSize
  | _ => False
  end.
Proof.
  intros W Hm. pose proof W as (Vs & Vo & Hl & Hb & Hne). unfold split_stream.
  destruct (Z.leb_spec (length_stream sid off data dlp) maxSize) as [L|L]; [auto|].
  set (n := maxdatalen_stream sid off dlp maxSize).
  destruct (Z.eqb_spec n 0) as [E|E]; [auto|].
  pose proof (stream_hdr_pos sid off Vs Vo) as Hh.
  assert (Hn0 : 0 <= n <= maxSize) by (apply (mdl_range (stream_hdr_len sid off) dlp maxSize); lia).
  assert (Hlt : n < zlen data).
  { destruct (Z.ltb_spec n (zlen data)) as [|G]; [assumption|]. exfalso.
    assert (length_stream sid off data dlp <= maxSize); [|lia].
    apply maxdatalen_stream_fits; try assumption; fold n; lia. }
  repeat split; try reflexivity.
  - rewrite zlen_firstn by lia. reflexivity.
  - apply firstn_skipn.
  - rewrite zlen_firstn by lia. lia.
  - rewrite zlen_firstn by lia. exact Hlt.
  - apply maxdatalen_stream_fits; try assumption; fold n; try lia.
    apply zlen_firstn_le; lia.
Qed.


(** ------------------------------------------------------------------ CRYPTO *)

Definition wf_crypto (off : Z) (data : list Z) : Prop := vwf off /\ vwf (zlen data).

Theorem crypto_roundtrip off data rest :
  wf_crypto off data -> parse_crypto (body_crypto off data ++ rest) = Ok (FCrypto off data, rest).
Proof.
  intros (Vo & Vd). unfold parse_crypto, body_crypto. rewrite <- !app_assoc. bv.
  rewrite take_app. reflexivity.
Qed.

Theorem crypto_length off data :
  wf_crypto off data -> zlen ([FT_Crypto] ++ body_crypto off data) = length_crypto off data.
Proof.
  intros (Vo & Vd). unfold body_crypto, length_crypto.
  rewrite !zlen_app, zlen_cons, zlen_nil, !zlen_vappend by assumption. lia.
Qed.

Theorem maxdatalen_crypto_fits off maxSize data :
  vwf off -> maxSize <= maxVarInt8 ->
  zlen data <= maxdatalen_crypto off maxSize ->
  0 < maxdatalen_crypto off maxSize ->
  length_crypto off data <= maxSize.
Proof.
  intros Vo Hm Hd Hn. pose proof (vlen_pos off Vo). pose proof (zlen_nonneg data).
  change (maxdatalen_crypto off maxSize) with (mdl (1 + vlen off) true maxSize) in *.
  change (length_crypto off data) with (glen (1 + vlen off) true (zlen data)).
  apply mdl_fits; lia.
Qed.

Theorem maxdatalen_crypto_maximal off maxSize data :
  vwf off -> 0 <= maxSize <= maxVarInt8 -> vwf (zlen data) ->
  maxdatalen_crypto off maxSize < zlen data -> maxSize < length_crypto off data.
Proof.
  intros Vo Hm V Hd. pose proof (vlen_pos off Vo).
  change (maxdatalen_crypto off maxSize) with (mdl (1 + vlen off) true maxSize) in *.
  change (length_crypto off data) with (glen (1 + vlen off) true (zlen data)).
  apply mdl_maximal; try assumption; lia.
Qed.

(** Regression: the former counter-example (before the repair MaxDataLen(16390) was 16386 and the
    frame 16392 bytes long). Now 16384 bytes of data are allowed and the frame has exactly 16390 bytes. *)
Example maxdatalen_crypto_large_regression :
  maxdatalen_crypto 0 16390 = 16384 /\
  (forall data, zlen data = 16384 -> length_crypto 0 data = 16390).
Proof. split; [vm_compute; reflexivity | intros data H; unfold length_crypto; rewrite H; reflexivity]. Qed.

Theorem split_crypto_spec off data maxSize :
  wf_crypto off data -> 0 <= maxSize <= maxVarInt8 ->
  match split_crypto off data maxSize with
  | (None, false, f') => f' = FCrypto off data /\ length_crypto off data <= maxSize
  | (None, true, f') => f' = FCrypto off data /\ maxSize < length_crypto off data /\ maxdatalen_crypto off maxSize = 0
  | (Some (FCrypto o1 d1), true, FCrypto o2 d2) =>
      o1 = off /\ o2 = off + zlen d1 /\ d1 ++ d2 = data /\ 0 < zlen d1 < zlen data
      /\ length_crypto off d1 <= maxSize
  | _ => False
  end.
Proof.
  intros (Vo & Vd) Hm. unfold split_crypto.
  destruct (Z.leb_spec (length_crypto off data) maxSize) as [L|L]; [auto|].
  set (n := maxdatalen_crypto off maxSize).
  destruct (Z.eqb_spec n 0) as [E|E]; [auto|].
  pose proof (vlen_pos off Vo) as Ho. pose proof (zlen_nonneg data) as Hd.
  assert (Hn : 0 <= n <= maxSize) by (apply (mdl_range (1 + vlen off) true maxSize); lia).
  assert (Hlt : n < zlen data).
  { destruct (Z.ltb_spec n (zlen data)) as [|G]; [assumption|]. exfalso.
    assert (length_crypto off data <= maxSize); [|lia].
    apply maxdatalen_crypto_fits; try assumption; fold n; lia. }
  repeat split; try reflexivity.
  - rewrite zlen_firstn by lia. reflexivity.
  - apply firstn_skipn.
  - rewrite zlen_firstn by lia. lia.
  - rewrite zlen_firstn by lia. exact Hlt.
  - apply maxdatalen_crypto_fits; try assumption; fold n; try lia.
    apply zlen_firstn_le; lia.
Qed.


(** ------------------------------------------------------------------ DATAGRAM *)

Theorem datagram_roundtrip_len data rest :
  vwf (zlen data) -> parse_datagram (datagram_type true) (body_datagram true data ++ rest) = Ok (FDatagram true data, rest).
Proof.
  intros V. unfold parse_datagram, body_datagram. cbn [datagram_type Z.testbit]. change (Z.testbit (48 + 1) 0) with true.
  cbv iota. rewrite <- app_assoc. bv. rewrite take_app. reflexivity.
Qed.

Theorem datagram_roundtrip_nolen data :
  parse_datagram (datagram_type false) (body_datagram false data) = Ok (FDatagram false data, []).
Proof. reflexivity. Qed.

Theorem datagram_length dlp data :
  vwf (zlen data) -> zlen ([datagram_type dlp] ++ body_datagram dlp data) = length_datagram dlp data.
Proof.
  intros V. unfold body_datagram, length_datagram. rewrite !zlen_app, zlen_cons, zlen_nil.
  destruct dlp; rewrite ?zlen_vappend by assumption; change (@zlen Z []) with 0; lia.
Qed.

Theorem maxdatalen_datagram_fits dlp maxSize data :
  maxSize <= maxVarInt8 ->
  zlen data <= maxdatalen_datagram dlp maxSize ->
  0 < maxdatalen_datagram dlp maxSize ->
  length_datagram dlp data <= maxSize.
Proof.
  intros Hm Hd Hn. pose proof (zlen_nonneg data).
  change (maxdatalen_datagram dlp maxSize) with (mdl 1 dlp maxSize) in *.
  assert (glen 1 dlp (zlen data) <= maxSize) by (apply mdl_fits; lia).
  unfold glen, length_datagram in *. lia.
Qed.
