(** STREAM / CRYPTO / DATAGRAM: round trips, lengths, MaxDataLen and MaybeSplitOffFrame. *)
From Coq Require Import List ZArith Bool Lia.
From V Require Import Gen.Params Lib.Hex Wire.Varint Wire.VarintProofs Wire.FramesBase Wire.FramesBaseProofs Wire.FramesStream.
Import ListNotations.
Open Scope Z_scope.

Local Ltac bv := repeat (rewrite bindv_vappend by assumption; cbv beta).

(** unfold [vlen] and split on every threshold comparison *)
Ltac vl :=
  unfold vlen, maxVarInt1, maxVarInt2, maxVarInt4, maxVarInt8 in *;
  repeat match goal with
         | |- context [?a <=? ?b] => destruct (Z.leb_spec a b)
         | H : context [?a <=? ?b] |- _ => destruct (Z.leb_spec a b)
         end.

Lemma firstn_zlen_all {A} (b : list A) : firstn (Z.to_nat (zlen b)) b = b.
Proof. unfold zlen. rewrite Nat2Z.id. apply firstn_all. Qed.
Lemma skipn_zlen_all {A} (b : list A) : skipn (Z.to_nat (zlen b)) b = [].
Proof. unfold zlen. rewrite Nat2Z.id. apply skipn_all. Qed.

(** ------------------------------------------------------------------ STREAM *)

Definition wf_stream (sid off : Z) (data : list Z) (fin : bool) : Prop :=
  vwf sid /\ vwf off /\ zlen data <= W_MaxPacketBufferSize /\ off + zlen data <= W_MaxByteCount
  /\ (0 < zlen data \/ fin = true).

Definition body_stream (sid off : Z) (data : list Z) (dlp : bool) : list Z :=
  vappend sid ++ (if off =? 0 then [] else vappend off) ++ (if dlp then vappend (zlen data) else []) ++ data.

Lemma append_stream_shape sid off data fin dlp :
  0 < zlen data \/ fin = true ->
  append_stream sid off data fin dlp = Some ([stream_type off fin dlp] ++ body_stream sid off data dlp).
Proof.
  intros H. unfold append_stream, body_stream.
  destruct (Z.eqb_spec (zlen data) 0) as [E|E]; [|reflexivity].
  destruct H as [H|H]; [lia|]. subst fin. reflexivity.
Qed.

Lemma stream_type_bits off fin dlp :
  Z.testbit (stream_type off fin dlp) 0 = fin /\
  Z.testbit (stream_type off fin dlp) 1 = dlp /\
  Z.testbit (stream_type off fin dlp) 2 = negb (off =? 0).
Proof. unfold stream_type. destruct fin, dlp, (off =? 0); repeat split; reflexivity. Qed.

Lemma stream_type_range off fin dlp : 8 <= stream_type off fin dlp <= 15.
Proof. unfold stream_type. destruct fin, dlp, (off =? 0); lia. Qed.

Lemma stream_tail_ok sid off fin dlp d r :
  zlen d <= W_MaxPacketBufferSize -> off + zlen d <= W_MaxByteCount ->
  stream_tail sid off fin dlp (zlen d) (d ++ r) = Ok (FStream sid off d fin dlp, r).
Proof.
  intros H1 H2. unfold stream_tail.
  destruct (Z.ltb_spec W_MaxPacketBufferSize (zlen d)); [lia|]. rewrite andb_false_r.
  destruct (Z.ltb_spec W_MaxByteCount (off + zlen d)); [lia|].
  rewrite firstn_zlen_app, skipn_zlen_app. reflexivity.
Qed.

Lemma parse_stream_off off fin dlp r (k : Z -> list Z -> P) :
  vwf off ->
  bindv_if (Z.testbit (stream_type off fin dlp) 2) ((if off =? 0 then [] else vappend off) ++ r) k = k off r.
Proof.
  intros V. destruct (stream_type_bits off fin dlp) as (_ & _ & ->).
  destruct (Z.eqb_spec off 0) as [E|E]; cbn [negb bindv_if app].
  - subst. reflexivity.
  - apply bindv_vappend; exact V.
Qed.

(** with a length field: the frame is self-delimiting *)
Theorem stream_roundtrip_len sid off data fin rest :
  wf_stream sid off data fin ->
  parse_stream (stream_type off fin true) (body_stream sid off data true ++ rest)
  = Ok (FStream sid off data fin true, rest).
Proof.
  intros (Vs & Vo & Hl & Hm & Hne). unfold parse_stream, body_stream. rewrite <- !app_assoc.
  rewrite bindv_vappend by assumption. cbv beta.
  rewrite parse_stream_off by assumption.
  destruct (stream_type_bits off fin true) as (-> & -> & _).
  rewrite bindv_vappend by (unfold vwf, maxVarInt8, W_MaxPacketBufferSize in *; pose proof (zlen_nonneg data); lia).
  cbv beta. rewrite zlen_app.
  destruct (Z.ltb_spec (zlen data + zlen rest) (zlen data)); [pose proof (zlen_nonneg rest); lia|].
  apply stream_tail_ok; assumption.
Qed.

(** without a length field: the data extends to the end of the packet *)
Theorem stream_roundtrip_nolen sid off data fin :
  wf_stream sid off data fin ->
  parse_stream (stream_type off fin false) (body_stream sid off data false)
  = Ok (FStream sid off data fin false, []).
Proof.
  intros (Vs & Vo & Hl & Hm & Hne). unfold parse_stream, body_stream.
  rewrite bindv_vappend by assumption. cbv beta.
  rewrite parse_stream_off by assumption.
  destruct (stream_type_bits off fin false) as (-> & -> & _). cbn [app].
  rewrite <- (app_nil_r data) at 2. apply stream_tail_ok; assumption.
Qed.

Theorem stream_length sid off data fin dlp :
  wf_stream sid off data fin ->
  zlen ([stream_type off fin dlp] ++ body_stream sid off data dlp) = length_stream sid off data dlp.
Proof.
  intros (Vs & Vo & Hl & Hm & Hne). unfold body_stream, length_stream, stream_hdr_len.
  assert (Vd : vwf (zlen data)) by (unfold vwf, maxVarInt8, W_MaxPacketBufferSize in *; pose proof (zlen_nonneg data); lia).
  rewrite !zlen_app, zlen_cons, zlen_nil, zlen_vappend by assumption.
  destruct (off =? 0), dlp; rewrite ?zlen_vappend by assumption; change (@zlen Z []) with 0; lia.
Qed.

Theorem reject_stream_overflow sid off data fin rest :
  vwf sid -> vwf off -> zlen data <= W_MaxPacketBufferSize -> W_MaxByteCount < off + zlen data ->
  parse_stream (stream_type off fin true) (body_stream sid off data true ++ rest) = Err 12 0.
Proof.
  intros Vs Vo Hl Hm. unfold parse_stream, body_stream. rewrite <- !app_assoc.
  rewrite bindv_vappend by assumption. cbv beta.
  rewrite parse_stream_off by assumption.
  destruct (stream_type_bits off fin true) as (-> & -> & _).
  rewrite bindv_vappend by (unfold vwf, maxVarInt8, W_MaxPacketBufferSize in *; pose proof (zlen_nonneg data); lia).
  cbv beta. rewrite zlen_app.
  destruct (Z.ltb_spec (zlen data + zlen rest) (zlen data)); [pose proof (zlen_nonneg rest); lia|].
  unfold stream_tail.
  destruct (Z.ltb_spec W_MaxPacketBufferSize (zlen data)); [lia|]. rewrite andb_false_r.
  destruct (Z.ltb_spec W_MaxByteCount (off + zlen data)); [reflexivity | lia].
Qed.

(** MaxDataLen: any amount of data up to MaxDataLen gives a frame of at most maxSize bytes,
    as long as that amount fits a 2-byte length (always the case for packets <= 16 kB). *)
Theorem maxdatalen_stream_fits sid off dlp maxSize data :
  vwf sid -> vwf off ->
  zlen data <= maxdatalen_stream sid off dlp maxSize ->
  zlen data <= maxVarInt2 ->
  0 < maxdatalen_stream sid off dlp maxSize ->
  length_stream sid off data dlp <= maxSize.
Proof.
  intros Vs Vo. unfold maxdatalen_stream, length_stream.
  pose proof (zlen_nonneg data) as Hd.
  set (h := stream_hdr_len sid off). set (n := zlen data) in *.
  destruct dlp; cbn [andb].
  - destruct (Z.ltb_spec maxSize (h + 1)); [lia|].
    destruct (Z.eqb_spec (vlen (maxSize - (h + 1))) 1) as [E|E]; cbn [negb]; intros H1 H2 H3.
    + assert (vlen n = 1) by (clear -E H1 Hd H3; vl; lia). lia.
    + assert (vlen n <= 2) by (clear -H2 Hd; vl; lia).
      assert (maxSize - (h + 1) <= 63 -> False) by (clear -E H3; intros; apply E; vl; lia). lia.
  - destruct (Z.ltb_spec maxSize (h + 0)); [lia|]. intros. lia.
Qed.

(** and it is the largest such amount *)
Theorem maxdatalen_stream_maximal sid off dlp maxSize data :
  0 <= maxSize -> 0 < stream_hdr_len sid off -> vwf (zlen data) ->
  maxdatalen_stream sid off dlp maxSize < zlen data ->
  maxSize < length_stream sid off data dlp.
Proof.
  intros Hm Hh V. unfold maxdatalen_stream, length_stream.
  set (h := stream_hdr_len sid off) in *. set (n := zlen data) in *.
  pose proof (vlen_pos n V) as Hv.
  destruct dlp; cbn [andb].
  - destruct (Z.ltb_spec maxSize (h + 1)); [intros; lia|].
    destruct (Z.eqb_spec (vlen (maxSize - (h + 1))) 1) as [E|E]; cbn [negb]; intros H1; [lia|].
    assert (64 <= maxSize - (h + 1)) by (clear -E H; vl; lia).
    assert (2 <= vlen n) by (clear -H0 H1 V Hv; unfold vwf in V; vl; lia). lia.
  - destruct (Z.ltb_spec maxSize (h + 0)); intros; lia.
Qed.

Lemma zlen_firstn_le {A} n (l : list A) : 0 <= n -> zlen (firstn (Z.to_nat n) l) <= n.
Proof. intros H. unfold zlen. pose proof (firstn_le_length (Z.to_nat n) l). lia. Qed.

Lemma zlen_firstn {A} n (l : list A) : 0 <= n <= zlen l -> zlen (firstn (Z.to_nat n) l) = n.
Proof. intros H. unfold zlen in *. rewrite firstn_length. lia. Qed.

(** MaybeSplitOffFrame preserves the byte range, and the frame split off fits. *)
Theorem split_stream_spec sid off data fin dlp maxSize :
  wf_stream sid off data fin -> 0 <= maxSize ->
  match split_stream sid off data fin dlp maxSize with
  | (None, false, f') => f' = FStream sid off data fin dlp /\ length_stream sid off data dlp <= maxSize
  | (None, true, f') => f' = FStream sid off data fin dlp /\ maxSize < length_stream sid off data dlp
                        /\ maxdatalen_stream sid off dlp maxSize = 0
  | (Some (FStream s1 o1 d1 fin1 l1), true, FStream s2 o2 d2 fin2 l2) =>
      s1 = sid /\ s2 = sid /\ o1 = off /\ o2 = off + zlen d1 /\ d1 ++ d2 = data
      /\ fin1 = false /\ fin2 = fin /\ l1 = dlp /\ l2 = dlp
      /\ 0 < zlen d1 < zlen data /\ length_stream sid off d1 dlp <= maxSize
  | _ => False
  end.
Proof.
  intros W Hm. pose proof W as (Vs & Vo & Hl & Hb & Hne). unfold split_stream.
  destruct (Z.leb_spec (length_stream sid off data dlp) maxSize) as [L|L]; [auto|].
  set (n := maxdatalen_stream sid off dlp maxSize).
  destruct (Z.eqb_spec n 0) as [E|E]; [auto|].
  assert (Hn0 : 0 <= n).
  { unfold n, maxdatalen_stream. destruct (Z.ltb_spec maxSize (stream_hdr_len sid off + (if dlp then 1 else 0))); [lia|].
    destruct dlp; cbn [andb]; [|lia].
    destruct (Z.eqb_spec (vlen (maxSize - (stream_hdr_len sid off + 1))) 1) as [E1|E1]; cbn [negb]; [lia|].
    assert (64 <= maxSize - (stream_hdr_len sid off + 1)) by (clear -E1 H; vl; lia). lia. }
  assert (Hh : 0 < stream_hdr_len sid off).
  { unfold stream_hdr_len. pose proof (vlen_pos sid Vs). pose proof (vlen_pos off Vo). destruct (off =? 0); lia. }
  assert (Hlt : n < zlen data).
  { destruct (Z.ltb_spec n (zlen data)) as [|G]; [assumption|]. exfalso.
    assert (length_stream sid off data dlp <= maxSize); [|lia].
    apply maxdatalen_stream_fits; try assumption; fold n; try lia.
    unfold maxVarInt2, W_MaxPacketBufferSize in *. lia. }
  repeat split; try reflexivity.
  - rewrite zlen_firstn by lia. reflexivity.
  - apply firstn_skipn.
  - rewrite zlen_firstn by lia. lia.
  - rewrite zlen_firstn by lia. exact Hlt.
  - apply maxdatalen_stream_fits; try assumption; fold n.
    + apply zlen_firstn_le; lia.
    + rewrite zlen_firstn by lia. unfold maxVarInt2, W_MaxPacketBufferSize in *. lia.
    + lia.
Qed.

(** ------------------------------------------------------------------ CRYPTO *)

Definition wf_crypto (off : Z) (data : list Z) : Prop := vwf off /\ vwf (zlen data).

Theorem crypto_roundtrip off data rest :
  wf_crypto off data -> parse_crypto (body_crypto off data ++ rest) = Ok (FCrypto off data, rest).
Proof.
  intros (Vo & Vd). unfold parse_crypto, body_crypto. rewrite <- !app_assoc. bv.
  rewrite take_app. reflexivity.
Qed.

Theorem crypto_length off data :
  wf_crypto off data -> zlen ([FT_Crypto] ++ body_crypto off data) = length_crypto off data.
Proof.
  intros (Vo & Vd). unfold body_crypto, length_crypto.
  rewrite !zlen_app, zlen_cons, zlen_nil, !zlen_vappend by assumption. lia.
Qed.

Theorem maxdatalen_crypto_fits off maxSize data :
  vwf off ->
  zlen data <= maxdatalen_crypto off maxSize ->
  zlen data <= maxVarInt2 ->
  0 < maxdatalen_crypto off maxSize ->
  length_crypto off data <= maxSize.
Proof.
  intros Vo. unfold maxdatalen_crypto, length_crypto.
  pose proof (zlen_nonneg data) as Hd. set (n := zlen data) in *. set (h := 1 + vlen off + 1).
  destruct (Z.ltb_spec maxSize h); [lia|].
  destruct (Z.eqb_spec (vlen (maxSize - h)) 1) as [E|E]; cbn [negb]; intros H1 H2 H3.
  - assert (vlen n = 1) by (clear -E H1 Hd H3; vl; lia). lia.
  - assert (vlen n <= 2) by (clear -H2 Hd; vl; lia).
    assert (maxSize - h <= 63 -> False) by (clear -E H3; intros; apply E; vl; lia). lia.
Qed.

(** Beyond the 2-byte length boundary MaxDataLen is too generous (by 2 bytes): a CRYPTO frame
    cut to MaxDataLen(16390) bytes of data is 16392 bytes long. No caller reaches this: packets
    are at most MaxPacketBufferSize bytes. *)
Lemma maxdatalen_crypto_refuted_large :
  exists off maxSize, forall data,
    zlen data = maxdatalen_crypto off maxSize -> maxSize < length_crypto off data.
Proof.
  exists 0, 16390. intros data H. unfold length_crypto. rewrite H. vm_compute. reflexivity.
Qed.

Theorem split_crypto_spec off data maxSize :
  wf_crypto off data -> zlen data <= maxVarInt2 -> 0 <= maxSize ->
  match split_crypto off data maxSize with
  | (None, false, f') => f' = FCrypto off data /\ length_crypto off data <= maxSize
  | (None, true, f') => f' = FCrypto off data /\ maxSize < length_crypto off data /\ maxdatalen_crypto off maxSize = 0
  | (Some (FCrypto o1 d1), true, FCrypto o2 d2) =>
      o1 = off /\ o2 = off + zlen d1 /\ d1 ++ d2 = data /\ 0 < zlen d1 < zlen data
      /\ length_crypto off d1 <= maxSize
  | _ => False
  end.
Proof.
  intros (Vo & Vd) Hl Hm. unfold split_crypto.
  destruct (Z.leb_spec (length_crypto off data) maxSize) as [L|L]; [auto|].
  set (n := maxdatalen_crypto off maxSize).
  destruct (Z.eqb_spec n 0) as [E|E]; [auto|].
  pose proof (vlen_pos off Vo) as Ho. pose proof (zlen_nonneg data) as Hd.
  assert (Hn : 0 <= n <= maxSize).
  { unfold n, maxdatalen_crypto. destruct (Z.ltb_spec maxSize (1 + vlen off + 1)); [lia|].
    destruct (Z.eqb_spec (vlen (maxSize - (1 + vlen off + 1))) 1) as [E1|E1]; cbn [negb]; [lia|].
    assert (64 <= maxSize - (1 + vlen off + 1)) by (clear -E1 H; vl; lia). lia. }
  assert (Hlt : n < zlen data).
  { destruct (Z.ltb_spec n (zlen data)) as [|G]; [assumption|]. exfalso.
    assert (length_crypto off data <= maxSize); [|lia].
    apply maxdatalen_crypto_fits; try assumption; fold n; lia. }
  repeat split; try reflexivity.
  - rewrite zlen_firstn by lia. reflexivity.
  - apply firstn_skipn.
  - rewrite zlen_firstn by lia. lia.
  - rewrite zlen_firstn by lia. exact Hlt.
  - apply maxdatalen_crypto_fits; try assumption; fold n.
    + apply zlen_firstn_le; lia.
    + rewrite zlen_firstn by lia. lia.
    + lia.
Qed.

(** ------------------------------------------------------------------ DATAGRAM *)

Theorem datagram_roundtrip_len data rest :
  vwf (zlen data) -> parse_datagram (datagram_type true) (body_datagram true data ++ rest) = Ok (FDatagram true data, rest).
Proof.
  intros V. unfold parse_datagram, body_datagram. cbn [datagram_type Z.testbit]. change (Z.testbit (48 + 1) 0) with true.
  cbv iota. rewrite <- app_assoc. bv. rewrite take_app. reflexivity.
Qed.

Theorem datagram_roundtrip_nolen data :
  parse_datagram (datagram_type false) (body_datagram false data) = Ok (FDatagram false data, []).
Proof. reflexivity. Qed.

Theorem datagram_length dlp data :
  vwf (zlen data) -> zlen ([datagram_type dlp] ++ body_datagram dlp data) = length_datagram dlp data.
Proof.
  intros V. unfold body_datagram, length_datagram. rewrite !zlen_app, zlen_cons, zlen_nil.
  destruct dlp; rewrite ?zlen_vappend by assumption; change (@zlen Z []) with 0; lia.
Qed.

Theorem maxdatalen_datagram_fits dlp maxSize data :
  zlen data <= maxdatalen_datagram dlp maxSize ->
  zlen data <= maxVarInt2 ->
  0 < maxdatalen_datagram dlp maxSize ->
  length_datagram dlp data <= maxSize.
Proof.
  unfold maxdatalen_datagram, length_datagram.
  pose proof (zlen_nonneg data) as Hd. set (n := zlen data) in *.
  destruct dlp; cbn [andb].
  - destruct (Z.ltb_spec maxSize (1 + 1)); [lia|].
    destruct (Z.eqb_spec (vlen (maxSize - (1 + 1))) 1) as [E|E]; cbn [negb]; intros H1 H2 H3.
    + assert (vlen n = 1) by (clear -E H1 Hd H3; vl; lia). lia.
    + assert (vlen n <= 2) by (clear -H2 Hd; vl; lia).
      assert (maxSize - (1 + 1) <= 63 -> False) by (clear -E H3; intros; apply E; vl; lia). lia.
  - destruct (Z.ltb_spec maxSize (1 + 0)); intros; lia.
Qed.
