(** Model of quicvarint (quicvarint/varint.go): Len, Append, AppendWithLen, Parse.
    Bytes are [Z] in [0,256).  The four thresholds come from the generated Params. *)
From Coq Require Import List ZArith Bool.
From V Require Import Gen.Params.
Import ListNotations.
Open Scope Z_scope.

(* Len: panics above maxVarInt8 in Go; the model returns 0 there (never a valid length). *)
Definition vlen (v : Z) : Z :=
  if v <=? maxVarInt1 then 1 else if v <=? maxVarInt2 then 2
  else if v <=? maxVarInt4 then 4 else if v <=? maxVarInt8 then 8 else 0.

Definition be (n : nat) (v : Z) : list Z := (* n big-endian bytes of v *)
  (fix go (n : nat) (v : Z) (acc : list Z) : list Z :=
     match n with O => acc | S n' => go n' (v / 256) (v mod 256 :: acc) end) n v [].

Definition setTop (tag : Z) (l : list Z) : list Z :=
  match l with [] => [] | b :: r => (b + tag) :: r end.

(* Append: panics above maxVarInt8; model returns [] (excluded by the theorems' guard). *)
Definition vappend (v : Z) : list Z :=
  if v <=? maxVarInt1 then [v]
  else if v <=? maxVarInt2 then setTop 64 (be 2 v)
  else if v <=? maxVarInt4 then setTop 128 (be 4 v)
  else if v <=? maxVarInt8 then setTop 192 (be 8 v) else [].

(* AppendWithLen v l: l ∈ {1,2,4,8}, vlen v <= l *)
Definition vappend_len (v l : Z) : list Z :=
  if l =? vlen v then vappend v
  else if l =? 2 then setTop 64 (be 2 v)
  else if l =? 4 then setTop 128 (be 4 v)
  else if l =? 8 then setTop 192 (be 8 v) else [].

Fixpoint unbe (l : list Z) (acc : Z) : Z :=
  match l with [] => acc | b :: r => unbe r (acc * 256 + b) end.

Inductive perr := EOF | UnexpectedEOF.

(* Parse: value, bytes consumed, remaining input *)
Definition vparse (b : list Z) : perr + (Z * Z * list Z) :=
  match b with
  | [] => inl EOF
  | first :: r =>
    let k := first / 64 in
    let n : nat := if k =? 0 then 0%nat else if k =? 1 then 1%nat else if k =? 2 then 3%nat else 7%nat in
    if (length r <? n)%nat then inl UnexpectedEOF
    else inr (unbe (firstn n r) (first mod 64), Z.of_nat (S n), skipn n r)
  end.
