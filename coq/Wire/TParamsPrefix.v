(** Transport parameters: a parameter list the loop of [unmarshal] accepts is insensitive to
    what follows it, so the error reported for a longer input is exactly the error of the FIRST
    offending parameter (its class and auxiliary value), wherever it stands. *)
From Coq Require Import List ZArith Bool Lia.
From V Require Import Gen.Params Lib.Hex Wire.Varint Wire.VarintProofs Wire.FramesBase Wire.TParams Wire.TParamsProofs.
Import ListNotations.
Open Scope Z_scope.

Lemma firstn_app_le {A} (k : nat) (a r : list A) : (k <= length a)%nat -> firstn k (a ++ r) = firstn k a.
Proof. intros H. rewrite firstn_app. replace (k - length a)%nat with 0%nat by lia. cbn. apply app_nil_r. Qed.

Lemma skipn_app_le {A} (k : nat) (a r : list A) : (k <= length a)%nat -> skipn k (a ++ r) = skipn k a ++ r.
Proof. intros H. rewrite skipn_app. replace (k - length a)%nat with 0%nat by lia. reflexivity. Qed.

Lemma In_skipn_in {A} (x : A) n l : In x (skipn n l) -> In x l.
Proof. intros H. rewrite <- (firstn_skipn n l). apply in_or_app. right. exact H. Qed.

(** a varint that lies inside [body] is parsed the same whatever follows [body] *)
Lemma vparse_prefix body r r2 v l rr :
  vparse (body ++ r) = inr (v, l, rr) -> l <= zlen body ->
  exists rr2, vparse (body ++ r2) = inr (v, l, rr2).
Proof.
  destruct body as [|first rest].
  { intros H L. pose proof (vparse_consumed _ _ _ _ H). change (zlen (@nil Z)) with 0 in L. lia. }
  unfold vparse.
  cbn [app]. set (k := first / 64).
  set (n := if k =? 0 then 0%nat else if k =? 1 then 1%nat else if k =? 2 then 3%nat else 7%nat).
  destruct (Nat.ltb_spec (length (rest ++ r)) n) as [L1|L1]; [discriminate|].
  intros H L. inversion H; subst v l rr. clear H.
  unfold zlen in L. cbn [length] in L.
  destruct (Nat.ltb_spec (length (rest ++ r2)) n) as [L2|L2]; [rewrite app_length in L2; lia|].
  eexists. rewrite !firstn_app_le by lia. reflexivity.
Qed.

Lemma read_numeric_prefix body r r2 id p p' :
  read_numeric (body ++ r) id (zlen body) p = Ok p' -> read_numeric (body ++ r2) id (zlen body) p = Ok p'.
Proof.
  unfold read_numeric.
  destruct (vparse (body ++ r)) as [e|[[val l] rr]] eqn:E; [destruct e; discriminate|].
  destruct (Z.eqb_spec l (zlen body)) as [El|Nl]; cbn [negb]; [|discriminate].
  destruct (vparse_prefix body r r2 val l rr E ltac:(lia)) as (rr2 & E2). rewrite E2.
  rewrite El, Z.eqb_refl. cbn [negb]. auto.
Qed.

Lemma nth_bytes l k : Forall is_byte l -> 0 <= nth k l 0.
Proof.
  intros H. destruct (Nat.lt_ge_cases k (length l)) as [L|L].
  - rewrite Forall_forall in H. specialize (H (nth k l 0) (nth_In l 0 L)). unfold is_byte in H. lia.
  - rewrite nth_overflow by lia. lia.
Qed.

Lemma read_pa_prefix body r r2 pa :
  Forall is_byte (body ++ r) ->
  read_pa (body ++ r) (zlen body) = Ok pa -> read_pa (body ++ r2) (zlen body) = Ok pa.
Proof.
  intros Hbytes. unfold read_pa. cbv zeta.
  destruct (Z.ltb_spec (zlen (body ++ r)) (4 + 2 + 16 + 2 + 1)) as [L0|L0]; [discriminate|].
  set (cl := nth 0 (skipn 18 (skipn 6 (body ++ r))) 0).
  destruct ((cl =? 0) || (TP_MaxConnIDLen <? cl)) eqn:Ec; [discriminate|].
  set (b3 := skipn 1 (skipn 18 (skipn 6 (body ++ r)))).
  destruct (Z.ltb_spec (zlen b3) (cl + 16)) as [L3|L3]; [discriminate|].
  destruct (Z.eqb_spec (zlen (body ++ r) - zlen (skipn 16 (skipn (Z.to_nat cl) b3))) (zlen body)) as [El|Nl];
    cbn [negb]; [|discriminate].
  intros H. apply orb_false_iff in Ec. destruct Ec as (Ec0 & Ec1). apply Z.eqb_neq in Ec0. apply Z.ltb_ge in Ec1.
  (* the body is exactly 41 + cl bytes long *)
  assert (Zb3 : zlen b3 = zlen (body ++ r) - 25).
  { unfold b3, zlen in *. rewrite !skipn_length. lia. }
  assert (Hcl : 0 <= cl).
  { unfold cl. apply nth_bytes. apply Forall_forall. intros x Hx. rewrite Forall_forall in Hbytes. apply Hbytes.
    apply (In_skipn_in _ _ _ (In_skipn_in _ _ _ Hx)). }
  assert (Lb : zlen body = 41 + cl).
  { revert El. unfold zlen in *. rewrite !skipn_length. unfold b3 in *. rewrite !skipn_length in *. lia. }
  assert (Lbn : (length body = 41 + Z.to_nat cl)%nat) by (unfold zlen in Lb; lia).
  (* every read lies inside the body *)
  assert (S6 : forall q, skipn 6 (body ++ q) = skipn 6 body ++ q) by (intros; apply skipn_app_le; lia).
  assert (S18 : forall q, skipn 18 (skipn 6 body ++ q) = skipn 18 (skipn 6 body) ++ q)
    by (intros; apply skipn_app_le; rewrite skipn_length; lia).
  assert (S1 : forall q, skipn 1 (skipn 18 (skipn 6 body) ++ q) = skipn 1 (skipn 18 (skipn 6 body)) ++ q)
    by (intros; apply skipn_app_le; rewrite !skipn_length; lia).
  set (c3 := skipn 1 (skipn 18 (skipn 6 body))) in *.
  assert (Lc3 : (length c3 = 16 + Z.to_nat cl)%nat) by (unfold c3; rewrite !skipn_length; lia).
  assert (Ecl : forall q, nth 0 (skipn 18 (skipn 6 (body ++ q))) 0 = nth 0 (skipn 18 (skipn 6 body)) 0).
  { intros q. rewrite S6, S18. apply app_nth1. rewrite !skipn_length. lia. }
  assert (Ecl_r : cl = nth 0 (skipn 18 (skipn 6 body)) 0) by apply Ecl.
  assert (Eb3 : b3 = c3 ++ r) by (unfold b3; rewrite S6, S18, S1; reflexivity).
  rewrite Eb3 in *.
  destruct (Z.ltb_spec (zlen (body ++ r2)) (4 + 2 + 16 + 2 + 1)) as [M0|M0]; [rewrite zlen_app in M0; pose proof (zlen_nonneg r2); lia|].
  rewrite (Ecl r2), <- Ecl_r.
  replace ((cl =? 0) || (TP_MaxConnIDLen <? cl)) with false by (symmetry; apply orb_false_iff; split; [apply Z.eqb_neq | apply Z.ltb_ge]; assumption).
  rewrite S6, S18, S1. fold c3.
  destruct (Z.ltb_spec (zlen (c3 ++ r2)) (cl + 16)) as [M3|M3]; [rewrite zlen_app in M3; unfold zlen in M3; pose proof (zlen_nonneg r2); unfold zlen in *; lia|].
  assert (Ecut : forall q, skipn 16 (skipn (Z.to_nat cl) (c3 ++ q)) = q).
  { intros q. rewrite skipn_app_le by lia. rewrite skipn_app_le by (rewrite skipn_length; lia).
    rewrite (skipn_all2 (n := 16)) by (rewrite skipn_length; lia). reflexivity. }
  rewrite Ecut.
  replace (zlen (body ++ r2) - zlen r2 =? zlen body) with true by (symmetry; apply Z.eqb_eq; rewrite zlen_app; lia).
  cbn [negb].
  (* same fields *)
  revert H. rewrite ?S6.
  rewrite (skipn_app_le 4 body r), (skipn_app_le 4 body r2) by lia.
  rewrite (skipn_app_le 16 (skipn 6 body) r), (skipn_app_le 16 (skipn 6 body) r2) by (rewrite skipn_length; lia).
  rewrite (skipn_app_le (Z.to_nat cl) c3 r), (skipn_app_le (Z.to_nat cl) c3 r2) by lia.
  rewrite !firstn_app_le by (try rewrite !skipn_length; lia).
  auto.
Qed.

Lemma firstn_zlen_app2 {A} (a r : list A) : firstn (Z.to_nat (zlen a)) (a ++ r) = a.
Proof. apply firstn_zlen_app. Qed.

(** one parameter the switch accepts: the outcome does not depend on what follows its value *)
Lemma tp_step_prefix pers id body r r2 s s' :
  Forall is_byte (body ++ r) ->
  tp_step pers id (zlen body) (body ++ r) s = Ok s' -> tp_step pers id (zlen body) (body ++ r2) s = Ok s'.
Proof.
  intros Hb. unfold tp_step.
  destruct (is_numeric id).
  { destruct (read_numeric (body ++ r) id (zlen body) (st_p s)) as [p'|] eqn:E; [|discriminate].
    rewrite (read_numeric_prefix _ _ r2 _ _ _ E). auto. }
  destruct (id =? TP_ID_pa).
  { destruct (is_client pers); [auto|].
    destruct (read_pa (body ++ r) (zlen body)) as [pa|] eqn:E; [|discriminate].
    rewrite (read_pa_prefix _ _ r2 _ Hb E). auto. }
  destruct (id =? TP_ID_dam); [auto|].
  destruct (id =? TP_ID_srt).
  { destruct (is_client pers); [auto|].
    destruct (Z.eqb_spec (zlen body) 16) as [E16|N16]; cbn [negb]; [|auto].
    rewrite !zlen_app. pose proof (zlen_nonneg r). pose proof (zlen_nonneg r2).
    destruct (Z.ltb_spec (zlen body + zlen r) 16); [lia|]. destruct (Z.ltb_spec (zlen body + zlen r2) 16); [lia|].
    change 16%nat with (Z.to_nat 16). rewrite <- E16. rewrite !firstn_zlen_app2. auto. }
  destruct (id =? TP_ID_odcid).
  { destruct (is_client pers); [auto|]. destruct (TP_MaxConnIDLen <? zlen body); [auto|]. rewrite !firstn_zlen_app2. auto. }
  destruct (id =? TP_ID_iscid).
  { destruct (TP_MaxConnIDLen <? zlen body); [auto|]. rewrite !firstn_zlen_app2. auto. }
  destruct (id =? TP_ID_rscid).
  { destruct (is_client pers); [auto|]. destruct (TP_MaxConnIDLen <? zlen body); [auto|]. rewrite !firstn_zlen_app2. auto. }
  auto.
Qed.

Lemma enc_param_bytes_split id body rest :
  Forall is_byte (enc_param id body ++ rest) -> vwf id -> vwf (zlen body) -> Forall is_byte (body ++ rest).
Proof.
  unfold enc_param. rewrite <- !app_assoc. intros H _ _.
  apply Forall_app in H. destruct H as (_ & H). apply Forall_app in H. tauto.
Qed.

(** a parameter list the loop accepts is insensitive to what follows *)
Lemma tp_run_prefix pers : forall ps s s1 x,
  params_wf ps -> Forall is_byte (enc_params ps) ->
  tp_run pers s (enc_params ps) = Ok s1 ->
  tp_run pers s (enc_params ps ++ x) = tp_run pers s1 x.
Proof.
  induction ps as [|p ps IH]; intros s s1 x Hwf Hb H.
  - cbn [enc_params flat_map app] in *. rewrite tp_run_nil in H. inversion H; subst. reflexivity.
  - inversion Hwf as [|? ? (Hp1 & Hp2) Hps]; subst.
    rewrite enc_params_cons in *. rewrite <- app_assoc.
    rewrite tp_run_param in H by assumption. rewrite tp_run_param by assumption.
    destruct (tp_step pers (fst p) (zlen (snd p)) (snd p ++ enc_params ps) (add_id (fst p) s)) as [s'|] eqn:E; [|discriminate].
    rewrite (tp_step_prefix pers (fst p) (snd p) (enc_params ps) (enc_params ps ++ x) _ s'); [| |exact E].
    + apply (IH s' s1 x Hps); [|exact H].
      unfold enc_param in Hb. rewrite <- !app_assoc in Hb.
      apply Forall_app in Hb. destruct Hb as (_ & Hb). apply Forall_app in Hb. destruct Hb as (_ & Hb).
      apply Forall_app in Hb. tauto.
    + apply (enc_param_bytes_split (fst p)); assumption.
Qed.

(** The error of the first offending parameter, wherever it stands: if the loop accepts the
    parameters in front of it and the switch rejects it with class [c] (and auxiliary value [a])
    in every state, then [unmarshal] of the whole input fails with exactly [Err c a]. *)
Theorem unmarshal_first_error pers ticket ps s1 id body rest c a :
  params_wf ps -> Forall is_byte (enc_params ps) ->
  tp_run pers st_init (enc_params ps) = Ok s1 ->
  vwf id -> vwf (zlen body) ->
  (forall s, tp_step pers id (zlen body) (body ++ rest) s = Err c a) ->
  unmarshal pers ticket (enc_params ps ++ enc_param id body ++ rest) = Err c a.
Proof.
  intros Hwf Hb Hrun Hid Hlen Hstep. rewrite unmarshal_run.
  rewrite (tp_run_prefix pers ps st_init s1 _ Hwf Hb Hrun).
  rewrite tp_run_param by assumption. rewrite Hstep. reflexivity.
Qed.

(** and if the loop does not accept the parameters in front, that earlier error is the result,
    whatever follows (so "the first offending parameter decides" is complete) *)
Theorem unmarshal_prefix_error pers ticket ps x c a :
  params_wf ps -> tp_run pers st_init (enc_params ps ++ x) = Err c a ->
  unmarshal pers ticket (enc_params ps ++ x) = Err c a.
Proof. intros _ H. rewrite unmarshal_run, H. reflexivity. Qed.

(** the range rules with their exact error class at ANY position behind accepted parameters *)
Theorem reject_range_exact pers ticket ps s1 body v rest :
  params_wf ps -> Forall is_byte (enc_params ps) -> tp_run pers st_init (enc_params ps) = Ok s1 ->
  varint_body body v ->
  (TP_MaxAckDelayExponent < v -> unmarshal pers ticket (enc_params ps ++ enc_param TP_ID_ade body ++ rest) = Err E_TP_ADE 0) /\
  (TP_MaxMaxAckDelayMs < v -> unmarshal pers ticket (enc_params ps ++ enc_param TP_ID_mad body ++ rest) = Err E_TP_MAD 0) /\
  (v < 1200 -> unmarshal pers ticket (enc_params ps ++ enc_param TP_ID_mups body ++ rest) = Err E_TP_MUPS 0) /\
  (v < 2 -> unmarshal pers ticket (enc_params ps ++ enc_param TP_ID_acil body ++ rest) = Err E_TP_ACIL 0) /\
  (TP_MaxStreamCount < v -> unmarshal pers ticket (enc_params ps ++ enc_param TP_ID_mbs body ++ rest) = Err E_TP_STREAMS_BIDI 0) /\
  (TP_MaxStreamCount < v -> unmarshal pers ticket (enc_params ps ++ enc_param TP_ID_mus body ++ rest) = Err E_TP_STREAMS_UNI 0).
Proof.
  intros Hwf Hb Hrun Hv. pose proof (varint_body_len body v Hv) as Hl.
  repeat split; intros Hr;
    (eapply unmarshal_first_error; [exact Hwf | exact Hb | exact Hrun | vwf_id | exact Hl | intros s]).
  - apply (step_reject_ade pers body rest v s Hv Hr).
  - apply (step_reject_mad pers body rest v s Hv Hr).
  - apply (step_reject_mups pers body rest v s Hv Hr).
  - apply (step_reject_acil pers body rest v s Hv Hr).
  - apply (step_reject_mbs pers body rest v s Hv Hr).
  - apply (step_reject_mus pers body rest v s Hv Hr).
Qed.
