(** The RFC range rules, stated through ParseType and the type dispatch ([parse_next]) and for ANY
    valid encoding width of the fields in front (not only on the body parsers with minimal varints). *)
From Coq Require Import List ZArith Bool Lia.
From V Require Import Gen.Params Lib.Hex Wire.Varint Wire.VarintProofs Wire.FramesBase Wire.FramesBaseProofs
  Wire.FramesCtl Wire.FramesStream Wire.FramesStreamProofs Wire.FramesAck Wire.Frames Wire.FramesProofs Wire.FramesWidthProofs.
Import ListNotations.
Open Scope Z_scope.

Lemma parse_next_body_err c lvl t body e n :
  vwf t -> t <> 0 -> type_valid c t = true -> type_allowed lvl t = true ->
  parse_body c lvl t body = Err e n -> parse_next c lvl (vappend t ++ body) = Err e n.
Proof.
  intros V Hz Hv Ha Hb. unfold parse_next.
  destruct (vappend_nonempty t body V) as (x & r & E).
  assert (El : length (vappend t ++ body) = S (length r)) by (rewrite E; reflexivity).
  rewrite El. rewrite parse_type_hit by assumption. rewrite Hb. reflexivity.
Qed.

Local Ltac bw := repeat (rewrite bindv_any_width by assumption; cbv beta).

(** stream counts above 2^60: MAX_STREAMS and STREAMS_BLOCKED, both directions *)
Theorem reject_stream_count_via c lvl t n w rest :
  In t [FT_BidiMaxStreams; FT_UniMaxStreams; FT_BidiStreamBlocked; FT_UniStreamBlocked] ->
  width_ok n w -> 2 ^ 60 < n -> type_allowed lvl t = true ->
  parse_next c lvl ([t] ++ vappend_len n w ++ rest) = Err 13 0.
Proof.
  intros Ht Hw Hn Ha. cbn [In] in Ht.
  assert (Hgt : W_MaxStreamCount <? n = true) by (apply Z.ltb_lt; unfold W_MaxStreamCount; lia).
  destruct Ht as [<-|[<-|[<-|[<-|[]]]]];
    match goal with |- parse_next _ _ ([?T] ++ _) = _ => change [T] with (vappend T) end;
    (apply parse_next_body_err; [vm_compute; split; discriminate | discriminate | reflexivity | exact Ha | ]).
  - change (parse_body c lvl FT_BidiMaxStreams (vappend_len n w ++ rest)) with (parse_max_streams false (vappend_len n w ++ rest)).
    unfold parse_max_streams. bw. rewrite Hgt. reflexivity.
  - change (parse_body c lvl FT_UniMaxStreams (vappend_len n w ++ rest)) with (parse_max_streams true (vappend_len n w ++ rest)).
    unfold parse_max_streams. bw. rewrite Hgt. reflexivity.
  - change (parse_body c lvl FT_BidiStreamBlocked (vappend_len n w ++ rest)) with (parse_streams_blocked false (vappend_len n w ++ rest)).
    unfold parse_streams_blocked. bw. rewrite Hgt. reflexivity.
  - change (parse_body c lvl FT_UniStreamBlocked (vappend_len n w ++ rest)) with (parse_streams_blocked true (vappend_len n w ++ rest)).
    unfold parse_streams_blocked. bw. rewrite Hgt. reflexivity.
Qed.

(** NEW_CONNECTION_ID: Retire Prior To above the sequence number; connection ID length 0 or above 20 (exact class) *)
Theorem reject_new_cid_via c lvl s ws r wr l rest :
  width_ok s ws -> width_ok r wr -> type_allowed lvl FT_NewConnectionID = true ->
  (s < r -> parse_next c lvl ([FT_NewConnectionID] ++ vappend_len s ws ++ vappend_len r wr ++ rest) = Err 15 0) /\
  (r <= s -> l = 0 -> parse_next c lvl ([FT_NewConnectionID] ++ vappend_len s ws ++ vappend_len r wr ++ l :: rest) = Err 16 0) /\
  (r <= s -> 20 < l -> parse_next c lvl ([FT_NewConnectionID] ++ vappend_len s ws ++ vappend_len r wr ++ l :: rest) = Err 17 0).
Proof.
  intros Hs Hr Ha.
  repeat split; intros;
    change [FT_NewConnectionID] with (vappend FT_NewConnectionID);
    (apply parse_next_body_err; [vm_compute; split; discriminate | discriminate | reflexivity | exact Ha | ]);
    match goal with |- parse_body _ _ _ ?b = _ => change (parse_body c lvl FT_NewConnectionID b) with (parse_new_cid b) end;
    unfold parse_new_cid; bw.
  - destruct (Z.ltb_spec s r); [reflexivity | lia].
  - destruct (Z.ltb_spec s r); [lia|]. subst l. reflexivity.
  - destruct (Z.ltb_spec s r); [lia|]. destruct (Z.eqb_spec l 0); [lia|].
    destruct (Z.ltb_spec W_MaxConnIDLen l); [reflexivity | unfold W_MaxConnIDLen in *; lia].
Qed.

(** RESET_STREAM_AT with a reliable size above the final size *)
Theorem reject_reliable_size_via c lvl s ws e we fs wf rs wr rest :
  width_ok s ws -> width_ok e we -> width_ok fs wf -> width_ok rs wr -> fs < rs ->
  type_valid c FT_ResetStreamAt = true -> type_allowed lvl FT_ResetStreamAt = true ->
  parse_next c lvl ([FT_ResetStreamAt] ++ vappend_len s ws ++ vappend_len e we ++ vappend_len fs wf ++ vappend_len rs wr ++ rest) = Err 14 0.
Proof.
  intros Hs He Hf Hr Hlt Hv Ha.
  change [FT_ResetStreamAt] with (vappend FT_ResetStreamAt).
  apply parse_next_body_err; [vm_compute; split; discriminate | discriminate | exact Hv | exact Ha | ].
  match goal with |- parse_body _ _ _ ?b = _ => change (parse_body c lvl FT_ResetStreamAt b) with (parse_reset_stream true b) end.
  unfold parse_reset_stream. bw. cbn [bindv_if]. bw. destruct (Z.ltb_spec fs rs); [reflexivity | lia].
Qed.

(** STREAM data that would end beyond offset 2^62-1 (frame with offset and length field, any widths) *)
Theorem reject_stream_overflow_via c lvl sid ws off wo data wl fin rest :
  width_ok sid ws -> width_ok off wo -> width_ok (zlen data) wl -> off <> 0 ->
  zlen data <= W_MaxPacketBufferSize -> W_MaxByteCount < off + zlen data ->
  type_allowed lvl (stream_type off fin true) = true ->
  parse_next c lvl ([stream_type off fin true] ++ vappend_len sid ws ++ vappend_len off wo ++ vappend_len (zlen data) wl ++ data ++ rest)
  = Err 12 0.
Proof.
  intros Hs Ho Hl Hoff Hd Hov Ha.
  pose proof (stream_type_range off fin true) as Rg.
  rewrite <- (vappend_byte (stream_type off fin true)) by lia.
  apply parse_next_body_err; try assumption.
  - unfold vwf, maxVarInt8. lia.
  - lia.
  - unfold type_valid. destruct (Z.leb_spec (stream_type off fin true) 30); [reflexivity | lia].
  - rewrite parse_body_stream. unfold parse_stream.
    destruct (stream_type_bits off fin true) as (-> & -> & ->).
    destruct (Z.eqb_spec off 0); [contradiction|]. cbn [negb bindv_if]. bw.
    rewrite zlen_app. destruct (Z.ltb_spec (zlen data + zlen rest) (zlen data)); [pose proof (zlen_nonneg rest); lia|].
    unfold stream_tail. destruct (Z.ltb_spec W_MaxPacketBufferSize (zlen data)); [lia|]. rewrite andb_false_r.
    destruct (Z.ltb_spec W_MaxByteCount (off + zlen data)); [reflexivity | lia].
Qed.
