(** Correspondence glue for the frames unit: a case is what harness/drv/frames.go logged. *)
From Coq Require Import List ZArith Bool String.
From V Require Export Wire.FramesBase.
From V Require Import Lib.Corr Lib.Hex Gen.Params Wire.Varint Wire.FramesCtl Wire.FramesStream Wire.FramesAck Wire.Frames Wire.FramesLen.
Import ListNotations.
Open Scope Z_scope.

Inductive case :=
| EncCase (f : frame) (enc : option string) (len : Z)
| ParseCase (dg rsa af : bool) (exp lvl : Z) (input : string) (cls consumed : Z) (fr : option frame)
| SplitCase (f : frame) (maxSize maxDataLen : Z) (new : option frame) (split : bool) (after : frame)
| AckTruncCase (f : frame) (maxSize n : Z)
| MaxDataLenCase (kind sid off : Z) (dlp : bool) (maxSize r : Z). (* kind 0 STREAM, 1 CRYPTO, 2 DATAGRAM *)

Inductive obs :=
| EncObs (enc : option (list Z)) (len : Z)
| ParseObs (cls consumed : Z) (fr : option frame)
| SplitObs (maxDataLen : Z) (new : option frame) (split : bool) (after : frame)
| AckTruncObs (n : Z)
| MaxDataLenObs (r : Z)
| BadCase.

Definition model_obs (c : case) : obs :=
  match c with
  | EncCase f _ _ => EncObs (append_frame f) (length_frame f)
  | ParseCase dg rsa af exp lvl input _ _ _ =>
    (* the connection's loop: advance by the counts ParseType and the body parser REPORT *)
    match parse_next_rep (Cfg dg rsa af exp) lvl (hx input) with
    | Ok (f, n, _) => ParseObs 0 n (Some f)
    | Err e n => ParseObs e n None
    end
  | SplitCase (FStream sid off data fin dlp) maxSize _ _ _ _ =>
    let '(new, split, after) := split_stream sid off data fin dlp maxSize in
    SplitObs (maxdatalen_stream sid off dlp maxSize) new split after
  | SplitCase (FCrypto off data) maxSize _ _ _ _ =>
    let '(new, split, after) := split_crypto off data maxSize in
    SplitObs (maxdatalen_crypto off maxSize) new split after
  | AckTruncCase (FAck rs d e0 e1 ce) maxSize _ => AckTruncObs (num_encodable_ack_ranges rs d e0 e1 ce maxSize)
  | MaxDataLenCase kind sid off dlp maxSize _ =>
    MaxDataLenObs (if kind =? 0 then maxdatalen_stream sid off dlp maxSize
                   else if kind =? 1 then maxdatalen_crypto off maxSize
                   else maxdatalen_datagram dlp maxSize)
  | _ => BadCase
  end.

Definition opt_frame_eqb (a b : option frame) : bool :=
  match a, b with
  | Some x, Some y => frame_eqb x y
  | None, None => true
  | _, _ => false
  end.

Definition check_case (c : case) : bool :=
  match c, model_obs c with
  | EncCase _ enc len, EncObs e l =>
    (l =? len) &&
    match enc, e with
    | Some s, Some b => zeqb_list b (hx s)
    | None, None => true
    | _, _ => false
    end
  | ParseCase _ _ _ _ _ _ cls n fr, ParseObs cls' n' fr' => (cls =? cls') && (n =? n') && opt_frame_eqb fr fr'
  | SplitCase _ _ m new split after, SplitObs m' new' split' after' =>
    (m =? m') && opt_frame_eqb new new' && Bool.eqb split split' && frame_eqb after after'
  | AckTruncCase _ _ n, AckTruncObs n' => n =? n'
  | MaxDataLenCase _ _ _ _ _ r, MaxDataLenObs r' => r =? r'
  | _, _ => false
  end.
