(** Top level of the frame codecs: ParseType + dispatch on an encoded frame, for every frame
    kind; length prediction; PADDING; per-level and extension rejections. *)
From Coq Require Import List ZArith Bool Lia.
From V Require Import Gen.Params Lib.Hex Wire.Varint Wire.VarintProofs Wire.FramesBase Wire.FramesBaseProofs
  Wire.FramesCtl Wire.FramesCtlProofs Wire.FramesStream Wire.FramesStreamProofs Wire.FramesAck Wire.FramesAckProofs Wire.Frames.
Import ListNotations.
Open Scope Z_scope.

(** ---------------------------------------------------------------- ParseType *)

Lemma parse_type_hit c lvl t body parsed fuel :
  vwf t -> t <> 0 -> type_valid c t = true -> type_allowed lvl t = true ->
  parse_type (S fuel) c lvl (vappend t ++ body) parsed = Ok (t, parsed + vlen t, body).
Proof.
  intros V Hz Hv Ha. pose proof (vparse_vappend t body V) as E.
  destruct (vappend t ++ body) as [|x b] eqn:Eb; [cbn in E; discriminate|].
  cbn [parse_type]. rewrite E.
  destruct (Z.eqb_spec t 0); [contradiction|]. rewrite Hv, Ha. reflexivity.
Qed.

Lemma vparse_zero r : vparse (0 :: r) = inr (0, 1, r).
Proof. reflexivity. Qed.

Lemma parse_type_padding k : forall fuel c lvl b parsed,
  parse_type (k + fuel) c lvl (repeat 0 k ++ b) parsed = parse_type fuel c lvl b (parsed + Z.of_nat k).
Proof.
  induction k as [|k IH]; intros fuel c lvl b parsed.
  - cbn [repeat app plus]. f_equal. lia.
  - cbn [repeat app plus parse_type]. rewrite vparse_zero. cbn [Z.eqb]. rewrite IH. f_equal. lia.
Qed.

Definition shift_res (q : Z) (x : res (Z * Z * list Z)) : res (Z * Z * list Z) :=
  match x with
  | Ok (t, n, r) => Ok (t, n + q, r)
  | Err e n => Err e (n + q)
  end.

Lemma parse_type_shift fuel : forall c lvl b p q,
  parse_type fuel c lvl b (p + q) = shift_res q (parse_type fuel c lvl b p).
Proof.
  induction fuel as [|fuel IH]; intros c lvl b p q.
  - destruct b; reflexivity.
  - destruct b as [|x b]; [reflexivity|].
    cbn [parse_type]. destruct (vparse (x :: b)) as [e|[[v l] r]]; [reflexivity|].
    destruct (v =? 0).
    + replace (p + q + l) with (p + l + q) by lia. apply IH.
    + replace (p + q + l) with (p + l + q) by ring.
      destruct (negb (type_valid c v)); [reflexivity|].
      destruct (negb (type_allowed lvl v)); reflexivity.
Qed.

(** ---------------------------------------------------------------- one frame *)

Lemma vappend_nonempty t b : vwf t -> exists x r, vappend t ++ b = x :: r.
Proof.
  intros V. pose proof (vparse_vappend t b V) as E.
  destruct (vappend t ++ b) as [|x r]; [cbn in E; discriminate | eauto].
Qed.

Lemma parse_next_gen c lvl t body f rest' :
  vwf t -> t <> 0 -> type_valid c t = true -> type_allowed lvl t = true ->
  parse_body c lvl t body = Ok (f, rest') ->
  parse_next c lvl (vappend t ++ body) = Ok (f, zlen (vappend t ++ body) - zlen rest', rest').
Proof.
  intros V Hz Hv Ha Hb. unfold parse_next.
  destruct (vappend_nonempty t body V) as (x & r & E).
  assert (El : length (vappend t ++ body) = S (length r)) by (rewrite E; reflexivity).
  rewrite El. rewrite parse_type_hit by assumption. rewrite Hb. reflexivity.
Qed.

(** PADDING in front of a frame is skipped and counted *)
Theorem parse_next_padding c lvl k b f n rest :
  parse_next c lvl b = Ok (f, n, rest) ->
  parse_next c lvl (repeat 0 k ++ b) = Ok (f, n + Z.of_nat k, rest).
Proof.
  unfold parse_next. intros H.
  rewrite app_length, repeat_length, parse_type_padding, parse_type_shift.
  destruct (parse_type (length b) c lvl b 0) as [[[t m] r]|e m]; cbn [shift_res]; [|discriminate].
  destruct (parse_body c lvl t r) as [[f' rest']|e m']; [|discriminate].
  inversion H; subst. rewrite zlen_app. unfold zlen at 1. rewrite repeat_length. f_equal. f_equal. f_equal. lia.
Qed.

(** ---------------------------------------------------------------- all frame kinds *)

Definition wf_frame (f : frame) : Prop :=
  match f with
  | FStream sid off data fin _ => wf_stream sid off data fin
  | FAck rs d e0 e1 ce => wf_ack rs d e0 e1 ce
  | FCrypto off data => wf_crypto off data
  | FDatagram _ data => vwf (zlen data)
  | FAckFrequency a b m r => vwf a /\ vwf b /\ vwf r /\ 0 <= m <= maxInt64
  | FImmediateAck => True
  | _ => wf_ctl f
  end.

(** the exponent ParseAckFrame uses *)
Definition eff_exp (c : cfg) (lvl : Z) : Z := if lvl =? W_Encryption1RTT then c_exp c else W_DefaultAckDelayExponent.

(** what comes back: identity, except ACK (first 64 ranges, delay rescaled by the receiver's
    exponent) and ACK_FREQUENCY (delay in whole microseconds) *)
Definition norm (c : cfg) (lvl : Z) (f : frame) : frame :=
  match f with
  | FAck rs d e0 e1 ce =>
    FAck (firstn (Z.to_nat W_MaxNumAckRanges) rs) (ack_delay_ns (encode_ack_delay d) (eff_exp c lvl)) e0 e1 ce
  | FAckFrequency a b m r => FAckFrequency a b (m - m mod 1000) r
  | _ => f
  end.

(** STREAM / DATAGRAM without a length field extend to the end of the packet *)
Definition self_delimiting (f : frame) : bool :=
  match f with
  | FStream _ _ _ _ false | FDatagram false _ => false
  | _ => true
  end.

Lemma frame_type_range f : wf_frame f -> 1 <= frame_type f <= 175.
Proof.
  destruct f; cbn [wf_frame wf_ctl frame_type]; intros W; try contradiction;
    repeat match goal with |- context [if ?b then _ else _] => destruct b end;
    try (vm_compute; split; discriminate).
  all: try (pose proof (stream_type_range off fin dlp); lia).
  all: unfold datagram_type; destruct dlp; lia.
Qed.

Lemma parse_body_ctl c lvl f b : wf_ctl f -> parse_body c lvl (frame_type f) b = parse_ctl f b.
Proof.
  destruct f; cbn [wf_ctl frame_type parse_ctl]; intros W; try contradiction; try reflexivity.
  - destruct (0 <? reliable); reflexivity.
  - destruct uni; reflexivity.
  - destruct uni; reflexivity.
  - destruct app; reflexivity.
Qed.

Lemma parse_body_stream c lvl off fin dlp b :
  parse_body c lvl (stream_type off fin dlp) b = parse_stream (stream_type off fin dlp) b.
Proof.
  unfold parse_body, is_stream_type. pose proof (stream_type_range off fin dlp).
  destruct (Z.leb_spec 8 (stream_type off fin dlp)); [|lia].
  destruct (Z.leb_spec (stream_type off fin dlp) 15); [|lia]. reflexivity.
Qed.

Lemma ctl_enc f enc : wf_ctl f -> append_frame f = Some enc -> enc = vappend (frame_type f) ++ body_ctl f.
Proof.
  destruct f; cbn [wf_ctl]; intros W E; try contradiction; cbn [append_frame] in E; inversion E; clear E;
    try reflexivity.
  - destruct uni; reflexivity.
  - destruct uni; reflexivity.
  - destruct app; reflexivity.
Qed.

Lemma app_assoc3 {A} (a b c : list A) : (a ++ b) ++ c = a ++ b ++ c.
Proof. symmetry. apply app_assoc. Qed.

(** The main round-trip theorem over all 22 frame kinds. *)
Theorem frame_roundtrip c lvl f enc rest :
  wf_frame f -> append_frame f = Some enc ->
  type_valid c (frame_type f) = true -> type_allowed lvl (frame_type f) = true ->
  (self_delimiting f = false -> rest = []) ->
  parse_next c lvl (enc ++ rest) = Ok (norm c lvl f, zlen enc, rest).
Proof.
  intros W E Hv Ha Hsd.
  pose proof (frame_type_range f W) as Ht.
  assert (Vt : vwf (frame_type f)) by (unfold vwf, maxVarInt8; lia).
  assert (Hz : frame_type f <> 0) by lia.
  (* every encoding is [vappend type ++ body] and the body parses back *)
  assert (exists body, enc = vappend (frame_type f) ++ body /\
                       parse_body c lvl (frame_type f) (body ++ rest) = Ok (norm c lvl f, rest)) as (body & -> & Hb).
  { destruct f; cbn [wf_frame] in W;
      try (match type of E with append_frame ?g = Some _ =>
             exists (body_ctl g); split; [apply ctl_enc; assumption|];
             rewrite parse_body_ctl by exact W; cbn [norm]; apply ctl_body_roundtrip; exact W end).
    - (* ACK *)
      cbn [append_frame] in E. pose proof W as (Wr & _).
      rewrite append_ack_shape in E by exact Wr. inversion E; subst enc; clear E.
      exists (body_ack ranges delay_ns ect0 ect1 ecnce). split.
      + cbn [frame_type]. destruct (ack_has_ecn ect0 ect1 ecnce); reflexivity.
      + cbn [frame_type norm]. unfold parse_body, eff_exp.
        destruct (ack_has_ecn ect0 ect1 ecnce) eqn:Ee.
        * change (is_stream_type FT_AckECN) with false. change (is_ack_type FT_AckECN) with true.
          change (FT_AckECN =? FT_AckECN) with true. cbv iota. rewrite <- Ee. apply ack_roundtrip; exact W.
        * change (is_stream_type FT_Ack) with false. change (is_ack_type FT_Ack) with true.
          change (FT_Ack =? FT_AckECN) with false. cbv iota. rewrite <- Ee. apply ack_roundtrip; exact W.
    - (* CRYPTO *)
      cbn [append_frame] in E. inversion E; subst enc; clear E.
      exists (body_crypto off data). split; [reflexivity|].
      cbn [frame_type norm]. change (parse_body c lvl FT_Crypto (body_crypto off data ++ rest)) with (parse_crypto (body_crypto off data ++ rest)).
      apply crypto_roundtrip; exact W.
    - (* STREAM *)
      cbn [append_frame] in E. pose proof W as (_ & _ & _ & _ & Hne).
      rewrite append_stream_shape in E by exact Hne. inversion E; subst enc; clear E.
      exists (body_stream sid off data dlp). split.
      + cbn [frame_type]. rewrite vappend_byte by (pose proof (stream_type_range off fin dlp); lia). reflexivity.
      + cbn [frame_type norm]. rewrite parse_body_stream. destruct dlp.
        * apply stream_roundtrip_len; exact W.
        * rewrite (Hsd eq_refl), app_nil_r. apply stream_roundtrip_nolen; exact W.
    - (* DATAGRAM *)
      cbn [append_frame] in E. inversion E; subst enc; clear E.
      exists (body_datagram dlp data). split.
      + cbn [frame_type]. destruct dlp; reflexivity.
      + cbn [frame_type norm]. destruct dlp.
        * change (parse_body c lvl (datagram_type true) (body_datagram true data ++ rest))
            with (parse_datagram (datagram_type true) (body_datagram true data ++ rest)).
          apply datagram_roundtrip_len; exact W.
        * rewrite (Hsd eq_refl), app_nil_r. reflexivity.
    - (* ACK_FREQUENCY *)
      cbn [append_frame] in E. inversion E; subst enc; clear E.
      exists (body_ack_frequency seq aeth mad_ns rth). split; [reflexivity|].
      cbn [frame_type norm]. destruct W as (V1 & V2 & V3 & Hm).
      change (parse_body c lvl FT_AckFrequency (body_ack_frequency seq aeth mad_ns rth ++ rest))
        with (parse_ack_frequency (body_ack_frequency seq aeth mad_ns rth ++ rest)).
      apply ack_frequency_roundtrip; assumption.
    - (* IMMEDIATE_ACK *)
      cbn [append_frame] in E. inversion E; subst enc; clear E.
      exists []. split; [rewrite app_nil_r; reflexivity | reflexivity]. }
  rewrite app_assoc3.
  rewrite (parse_next_gen c lvl (frame_type f) (body ++ rest) _ _ Vt Hz Hv Ha Hb).
  replace (zlen (vappend (frame_type f) ++ body ++ rest) - zlen rest) with (zlen (vappend (frame_type f) ++ body))
    by (rewrite !zlen_app; lia).
  reflexivity.
Qed.

(** Length() predicts the encoded length of every frame kind. *)
Theorem frame_length f enc :
  wf_frame f -> append_frame f = Some enc -> zlen enc = length_frame f.
Proof.
  intros W E. destruct f; cbn [wf_frame] in W;
    try (rewrite (ctl_enc _ _ W E); rewrite zlen_app, ctl_body_length by exact W;
         cbn [length_frame]; f_equal;
         cbn [frame_type]; repeat match goal with |- context [if ?b then _ else _] => destruct b end; reflexivity).
  - (* ACK *)
    cbn [append_frame] in E. pose proof W as (Wr & _). rewrite append_ack_shape in E by exact Wr.
    inversion E; subst enc. apply ack_length; exact W.
  - (* CRYPTO *) cbn [append_frame] in E. inversion E; subst enc. apply crypto_length; exact W.
  - (* STREAM *)
    cbn [append_frame] in E. pose proof W as (_ & _ & _ & _ & Hne). rewrite append_stream_shape in E by exact Hne.
    inversion E; subst enc. apply (stream_length sid off data fin dlp W).
  - (* DATAGRAM *) cbn [append_frame] in E. inversion E; subst enc. apply datagram_length; exact W.
  - (* ACK_FREQUENCY *)
    cbn [append_frame] in E. inversion E; subst enc. destruct W as (V1 & V2 & V3 & Hm).
    apply ack_frequency_length; assumption.
  - (* IMMEDIATE_ACK *) cbn [append_frame] in E. inversion E; subst enc. reflexivity.
Qed.

(** ---------------------------------------------------------------- rejections by type *)

Theorem reject_not_allowed c lvl t body :
  vwf t -> t <> 0 -> type_valid c t = true -> type_allowed lvl t = false ->
  parse_next c lvl (vappend t ++ body) = Err 5 (vlen t).
Proof.
  intros V Hz Hv Ha. unfold parse_next.
  destruct (vappend_nonempty t body V) as (x & r & E).
  assert (El : length (vappend t ++ body) = S (length r)) by (rewrite E; reflexivity).
  rewrite El. pose proof (vparse_vappend t body V) as Ep. rewrite E in *.
  cbn [parse_type]. rewrite Ep. destruct (Z.eqb_spec t 0); [contradiction|]. rewrite Hv, Ha. reflexivity.
Qed.

Theorem reject_unknown_type c lvl t body :
  vwf t -> t <> 0 -> type_valid c t = false ->
  parse_next c lvl (vappend t ++ body) = Err 4 (vlen t).
Proof.
  intros V Hz Hv. unfold parse_next.
  destruct (vappend_nonempty t body V) as (x & r & E).
  assert (El : length (vappend t ++ body) = S (length r)) by (rewrite E; reflexivity).
  rewrite El. pose proof (vparse_vappend t body V) as Ep. rewrite E in *.
  cbn [parse_type]. rewrite Ep. destruct (Z.eqb_spec t 0); [contradiction|]. rewrite Hv. reflexivity.
Qed.

(** extension frames are unknown unless negotiated *)
Lemma ext_types_need_negotiation :
  type_valid (Cfg false true true 3) FT_DatagramNoLength = false /\
  type_valid (Cfg false true true 3) FT_DatagramWithLength = false /\
  type_valid (Cfg true false true 3) FT_ResetStreamAt = false /\
  type_valid (Cfg true true false 3) FT_AckFrequency = false /\
  type_valid (Cfg true true false 3) FT_ImmediateAck = false.
Proof. repeat split; reflexivity. Qed.

(** ---------------------------------------------------------------- the allow-list table *)

(** RFC 9000 section 12.4, table 3 (I = 1, H = 2, 0 = 3, 1 = 4), for the types of RFC 9000 *)
Definition rfc9000_allowed (lvl t : Z) : bool :=
  if (lvl =? 1) || (lvl =? 2) then (t =? 0) || (t =? 1) || (t =? 2) || (t =? 3) || (t =? 6) || (t =? 28)
  else if lvl =? 3 then negb ((t =? 2) || (t =? 3) || (t =? 6) || (t =? 7) || (t =? 25) || (t =? 27) || (t =? 30))
  else true.

Definition all_types : list Z := map Z.of_nat (seq 1 255).

(** isAllowedAtEncLevel IS table 3 of RFC 9000 (checked over all one-byte types and the four
    levels: the table is generated from the code), with one deliberate, stricter entry:
    CONNECTION_CLOSE of type 0x1c is refused in 0-RTT packets (table 3 would allow it). *)
Lemma allow_list_is_rfc_table3 :
  forallb (fun lvl => forallb (fun t =>
     Bool.eqb (type_allowed lvl t) (rfc9000_allowed lvl t && negb ((lvl =? 3) && (t =? 28)))) all_types) [1; 2; 3; 4] = true.
Proof. vm_compute. reflexivity. Qed.

(** Regression (the former counter-example): HANDSHAKE_DONE (0x1e) is refused at the 0-RTT level,
    before the parser looks at anything else, whatever the parser configuration. *)
Example handshake_done_0rtt_rejected c body :
  type_allowed 3 FT_HandshakeDone = false /\ parse_next c 3 (FT_HandshakeDone :: body) = Err 5 1.
Proof.
  split; [reflexivity|].
  change (FT_HandshakeDone :: body) with (vappend FT_HandshakeDone ++ body).
  apply reject_not_allowed; try reflexivity.
  - unfold vwf, FT_HandshakeDone, maxVarInt8. lia.
  - discriminate.
Qed.

(** at Initial and Handshake level only PING, ACK, CRYPTO, CONNECTION_CLOSE(0x1c) pass *)
Lemma allow_list_initial_handshake :
  forallb (fun lvl => forallb (fun t =>
     Bool.eqb (type_allowed lvl t) ((t =? 1) || (t =? 2) || (t =? 3) || (t =? 6) || (t =? 28))) all_types) [1; 2] = true.
Proof. vm_compute. reflexivity. Qed.
