(** Control frames of internal/wire: MAX_DATA, MAX_STREAM_DATA, MAX_STREAMS, DATA_BLOCKED,
    STREAM_DATA_BLOCKED, STREAMS_BLOCKED, RESET_STREAM(_AT), STOP_SENDING, NEW_CONNECTION_ID,
    RETIRE_CONNECTION_ID, CONNECTION_CLOSE, PATH_CHALLENGE/RESPONSE, NEW_TOKEN.
    Each parser gets the bytes AFTER the frame type and returns the value and the rest;
    each body_X is what Append writes after the type; each blen_X is Length() minus the type. *)
From Coq Require Import List ZArith Bool.
From V Require Import Gen.Params Lib.Hex Wire.Varint Wire.FramesBase.
Import ListNotations.
Open Scope Z_scope.

Definition P := res (frame * list Z).

(* max_data_frame.go / data_blocked_frame.go / retire_connection_id_frame.go *)
Definition parse_max_data (b : list Z) : P := bindv b (fun v b => Ok (FMaxData v, b)).
Definition parse_data_blocked (b : list Z) : P := bindv b (fun v b => Ok (FDataBlocked v, b)).
Definition parse_retire_cid (b : list Z) : P := bindv b (fun v b => Ok (FRetireConnectionID v, b)).

(* max_stream_data_frame.go / stream_data_blocked_frame.go / stop_sending_frame.go *)
Definition parse_max_stream_data (b : list Z) : P :=
  bindv b (fun sid b => bindv b (fun v b => Ok (FMaxStreamData sid v, b))).
Definition parse_stream_data_blocked (b : list Z) : P :=
  bindv b (fun sid b => bindv b (fun v b => Ok (FStreamDataBlocked sid v, b))).
Definition parse_stop_sending (b : list Z) : P :=
  bindv b (fun sid b => bindv b (fun ec b => Ok (FStopSending sid ec, b))).

(* max_streams_frame.go / streams_blocked_frame.go *)
Definition parse_max_streams (uni : bool) (b : list Z) : P :=
  bindv b (fun n b => if W_MaxStreamCount <? n then Err 13 0 else Ok (FMaxStreams uni n, b)).
Definition parse_streams_blocked (uni : bool) (b : list Z) : P :=
  bindv b (fun n b => if W_MaxStreamCount <? n then Err 13 0 else Ok (FStreamsBlocked uni n, b)).

(* reset_stream_frame.go *)
Definition parse_reset_stream (at_ : bool) (b : list Z) : P :=
  bindv b (fun sid b => bindv b (fun ec b => bindv b (fun fs b =>
  bindv_if at_ b (fun rs b =>
  if fs <? rs then Err 14 0 else Ok (FResetStream sid ec fs rs, b))))).

(* new_connection_id_frame.go *)
Definition parse_new_cid (b : list Z) : P :=
  bindv b (fun seq b => bindv b (fun rpt b =>
  if seq <? rpt then Err 15 0 else
  match b with
  | [] => Err E_EOF 0
  | l :: b =>
    if l =? 0 then Err 16 0
    else if W_MaxConnIDLen <? l then Err 17 0
    else take l b (fun cid b => take 16 b (fun tok b => Ok (FNewConnectionID seq rpt cid tok, b)))
  end)).

(* connection_close_frame.go *)
Definition parse_conn_close (app : bool) (b : list Z) : P :=
  bindv b (fun ec b => bindv_if (negb app) b (fun ft b => bindv b (fun rl b =>
  take rl b (fun reason b => Ok (FConnectionClose app ec ft reason, b))))).

(* path_challenge_frame.go / path_response_frame.go *)
Definition parse_path_challenge (b : list Z) : P := take 8 b (fun d b => Ok (FPathChallenge d, b)).
Definition parse_path_response (b : list Z) : P := take 8 b (fun d b => Ok (FPathResponse d, b)).

(* new_token_frame.go *)
Definition parse_new_token (b : list Z) : P :=
  bindv b (fun tl b => if tl =? 0 then Err 18 0 else take tl b (fun tok b => Ok (FNewToken tok, b))).

(** Append bodies (after the type) *)
Definition body_ctl (f : frame) : list Z :=
  match f with
  | FMaxData v | FDataBlocked v | FRetireConnectionID v => vappend v
  | FMaxStreamData s v | FStreamDataBlocked s v | FStopSending s v => vappend s ++ vappend v
  | FMaxStreams _ n | FStreamsBlocked _ n => vappend n
  | FResetStream s e fs rs => vappend s ++ vappend e ++ vappend fs ++ (if 0 <? rs then vappend rs else [])
  | FNewConnectionID s r cid tok => vappend s ++ vappend r ++ [zlen cid] ++ cid ++ tok
  | FConnectionClose app ec ft reason =>
    vappend ec ++ (if app then [] else vappend ft) ++ vappend (zlen reason) ++ reason
  | FPathChallenge d | FPathResponse d => d
  | FNewToken t => vappend (zlen t) ++ t
  | _ => []
  end.

(** Length() minus the one type byte *)
Definition blen_ctl (f : frame) : Z :=
  match f with
  | FMaxData v | FDataBlocked v | FRetireConnectionID v => vlen v
  | FMaxStreamData s v | FStreamDataBlocked s v | FStopSending s v => vlen s + vlen v
  | FMaxStreams _ n | FStreamsBlocked _ n => vlen n
  | FResetStream s e fs rs => (if 0 <? rs then vlen rs else 0) + vlen s + vlen e + vlen fs
  | FNewConnectionID s r cid tok => vlen s + vlen r + 1 + zlen cid + 16
  | FConnectionClose app ec ft reason =>
    vlen ec + vlen (zlen reason) + zlen reason + (if app then 0 else vlen ft)
  | FPathChallenge _ | FPathResponse _ => 8
  | FNewToken t => vlen (zlen t) + zlen t
  | _ => 0
  end.
