(** Lemmas shared by the frame codec proofs: the varint bind on an encoded varint, [take] on
    an appended byte string, list-length arithmetic. *)
From Coq Require Import List ZArith Bool Lia.
From V Require Import Gen.Params Lib.Hex Wire.Varint Wire.VarintProofs Wire.FramesBase.
Import ListNotations.
Open Scope Z_scope.

Lemma zlen_app {A} (a b : list A) : zlen (a ++ b) = zlen a + zlen b.
Proof. unfold zlen. rewrite app_length. lia. Qed.

Lemma zlen_nonneg {A} (a : list A) : 0 <= zlen a.
Proof. unfold zlen. lia. Qed.

Lemma zlen_cons {A} (x : A) (a : list A) : zlen (x :: a) = 1 + zlen a.
Proof. unfold zlen. cbn [length]. lia. Qed.

Lemma zlen_nil {A} : zlen (@nil A) = 0.
Proof. reflexivity. Qed.

Lemma zlen_vappend v : vwf v -> zlen (vappend v) = vlen v.
Proof. intros H. unfold zlen. apply vappend_length; exact H. Qed.

Lemma vlen_pos v : vwf v -> 1 <= vlen v <= 8.
Proof. intros H. destruct (vlen_cases v H) as [E|[E|[E|E]]]; rewrite E; lia. Qed.

Lemma firstn_zlen_app {A} (d r : list A) : firstn (Z.to_nat (zlen d)) (d ++ r) = d.
Proof.
  unfold zlen. rewrite Nat2Z.id. rewrite firstn_app, firstn_all, Nat.sub_diag. cbn. apply app_nil_r.
Qed.

Lemma skipn_zlen_app {A} (d r : list A) : skipn (Z.to_nat (zlen d)) (d ++ r) = r.
Proof.
  unfold zlen. rewrite Nat2Z.id. rewrite skipn_app, skipn_all, Nat.sub_diag. reflexivity.
Qed.

Lemma bindv_vappend {A} v r (k : Z -> list Z -> res A) :
  vwf v -> bindv (vappend v ++ r) k = k v r.
Proof. intros H. unfold bindv. rewrite (vparse_vappend v r H). reflexivity. Qed.

Lemma bindv_if_vappend {A} (c : bool) v r (k : Z -> list Z -> res A) :
  vwf v -> bindv_if c ((if c then vappend v else []) ++ r) k = k (if c then v else 0) r.
Proof. intros H. destruct c; cbn [bindv_if app]; [apply bindv_vappend; exact H | reflexivity]. Qed.

Lemma take_app {A} d r (k : list Z -> list Z -> res A) : take (zlen d) (d ++ r) k = k d r.
Proof.
  unfold take. rewrite zlen_app.
  destruct (Z.ltb_spec (zlen d + zlen r) (zlen d)) as [L|L].
  - pose proof (zlen_nonneg r). lia.
  - rewrite firstn_zlen_app, skipn_zlen_app. reflexivity.
Qed.

(** a frame type written as one byte is the one-byte varint *)
Lemma vappend_byte t : 0 <= t <= 63 -> vappend t = [t].
Proof. intros H. unfold vappend, maxVarInt1. destruct (Z.leb_spec t 63); [reflexivity | lia]. Qed.

Lemma vwf_small t : 0 <= t <= 16383 -> vwf t.
Proof. unfold vwf, maxVarInt8. lia. Qed.

(** [take] and [bindv] never return a rest longer than their input (used for the consumed bounds) *)
Lemma vparse_rest_len b v n r : vparse b = inr (v, n, r) -> zlen b = n + zlen r /\ 1 <= n.
Proof.
  unfold vparse. destruct b as [|first rest]; [discriminate|].
  set (k := first / 64).
  set (m := if k =? 0 then 0%nat else if k =? 1 then 1%nat else if k =? 2 then 3%nat else 7%nat).
  destruct (Nat.ltb_spec (length rest) m) as [L|L]; [discriminate|].
  intros E. inversion E; subst. rewrite zlen_cons. unfold zlen. rewrite skipn_length. lia.
Qed.
