(** Control frames: body round trips, lengths, rejections. *)
From Coq Require Import List ZArith Bool Lia.
From V Require Import Gen.Params Lib.Hex Wire.Varint Wire.VarintProofs Wire.FramesBase Wire.FramesBaseProofs Wire.FramesCtl.
Import ListNotations.
Open Scope Z_scope.

(** Well-formed control frames: what a sender may put into the struct. *)
Definition wf_ctl (f : frame) : Prop :=
  match f with
  | FMaxData v | FDataBlocked v | FRetireConnectionID v => vwf v
  | FMaxStreamData s v | FStreamDataBlocked s v | FStopSending s v => vwf s /\ vwf v
  | FMaxStreams _ n | FStreamsBlocked _ n => 0 <= n <= W_MaxStreamCount
  | FResetStream s e fs rs => vwf s /\ vwf e /\ vwf fs /\ 0 <= rs <= fs
  | FNewConnectionID s r cid tok => vwf s /\ vwf r /\ r <= s /\ 1 <= zlen cid <= W_MaxConnIDLen /\ zlen tok = 16
  | FConnectionClose app ec ft reason => vwf ec /\ vwf ft /\ (app = true -> ft = 0) /\ vwf (zlen reason)
  | FPathChallenge d | FPathResponse d => zlen d = 8
  | FNewToken t => 1 <= zlen t /\ vwf (zlen t)
  | FPing | FHandshakeDone => True
  | _ => False
  end.

(** The body parser selected by the frame's type *)
Definition parse_ctl (f : frame) (b : list Z) : P :=
  match f with
  | FMaxData _ => parse_max_data b
  | FDataBlocked _ => parse_data_blocked b
  | FRetireConnectionID _ => parse_retire_cid b
  | FMaxStreamData _ _ => parse_max_stream_data b
  | FStreamDataBlocked _ _ => parse_stream_data_blocked b
  | FStopSending _ _ => parse_stop_sending b
  | FMaxStreams u _ => parse_max_streams u b
  | FStreamsBlocked u _ => parse_streams_blocked u b
  | FResetStream _ _ _ rs => parse_reset_stream (0 <? rs) b
  | FNewConnectionID _ _ _ _ => parse_new_cid b
  | FConnectionClose app _ _ _ => parse_conn_close app b
  | FPathChallenge _ => parse_path_challenge b
  | FPathResponse _ => parse_path_response b
  | FNewToken _ => parse_new_token b
  | _ => Ok (f, b)
  end.

Local Ltac bv := repeat (rewrite bindv_vappend by assumption; cbv beta).

Lemma vwf_streamcount n : 0 <= n <= W_MaxStreamCount -> vwf n.
Proof. unfold vwf, W_MaxStreamCount, maxVarInt8. lia. Qed.

Theorem ctl_body_roundtrip f rest :
  wf_ctl f -> parse_ctl f (body_ctl f ++ rest) = Ok (f, rest).
Proof.
  destruct f; cbn [wf_ctl parse_ctl body_ctl]; intros W; try contradiction; try reflexivity; rewrite <- ?app_assoc.
  - (* RESET_STREAM *)
    destruct W as (Hs & He & Hf & Hr). unfold parse_reset_stream.
    bv.
    destruct (Z.ltb_spec 0 reliable) as [L|L]; cbn [bindv_if].
    + rewrite bindv_vappend by (unfold vwf in *; lia).
      destruct (Z.ltb_spec final reliable); [lia | reflexivity].
    + cbn [app]. destruct (Z.ltb_spec final 0); [unfold vwf in *; lia|]. replace reliable with 0 by lia. reflexivity.
  - (* STOP_SENDING *) destruct W. unfold parse_stop_sending. bv. reflexivity.
  - (* NEW_TOKEN *)
    destruct W as (L & V). unfold parse_new_token. rewrite bindv_vappend by assumption.
    destruct (Z.eqb_spec (zlen tok) 0); [lia|]. rewrite take_app; reflexivity.
  - (* MAX_DATA *) unfold parse_max_data. rewrite bindv_vappend by assumption. reflexivity.
  - (* MAX_STREAM_DATA *) destruct W. unfold parse_max_stream_data. bv. reflexivity.
  - (* MAX_STREAMS *)
    unfold parse_max_streams. rewrite bindv_vappend by (apply vwf_streamcount; exact W).
    destruct (Z.ltb_spec W_MaxStreamCount n); [lia | reflexivity].
  - (* DATA_BLOCKED *) unfold parse_data_blocked. rewrite bindv_vappend by assumption. reflexivity.
  - (* STREAM_DATA_BLOCKED *) destruct W. unfold parse_stream_data_blocked. bv. reflexivity.
  - (* STREAMS_BLOCKED *)
    unfold parse_streams_blocked. rewrite bindv_vappend by (apply vwf_streamcount; exact W).
    destruct (Z.ltb_spec W_MaxStreamCount n); [lia | reflexivity].
  - (* NEW_CONNECTION_ID *)
    destruct W as (Hs & Hr & Hle & Hc & Ht). unfold parse_new_cid.
    bv.
    destruct (Z.ltb_spec seq rpt); [lia|]. cbn [app].
    destruct (Z.eqb_spec (zlen cid) 0); [lia|].
    destruct (Z.ltb_spec W_MaxConnIDLen (zlen cid)); [lia|].
    rewrite take_app. rewrite <- Ht. rewrite take_app; reflexivity.
  - (* RETIRE_CONNECTION_ID *) unfold parse_retire_cid. rewrite bindv_vappend by assumption. reflexivity.
  - (* PATH_CHALLENGE *) unfold parse_path_challenge. rewrite <- W. rewrite take_app; reflexivity.
  - (* PATH_RESPONSE *) unfold parse_path_response. rewrite <- W. rewrite take_app; reflexivity.
  - (* CONNECTION_CLOSE *)
    destruct W as (He & Hf & Ha & Hl). unfold parse_conn_close.
    rewrite bindv_vappend by assumption.
    destruct app; cbn [negb bindv_if List.app].
    + rewrite bindv_vappend by assumption. rewrite take_app. rewrite (Ha eq_refl). reflexivity.
    + rewrite bindv_vappend by assumption. rewrite bindv_vappend by assumption. rewrite take_app; reflexivity.
Qed.

Theorem ctl_body_length f : wf_ctl f -> zlen (body_ctl f) = blen_ctl f.
Proof.
  destruct f; cbn [wf_ctl body_ctl blen_ctl]; intros W; try contradiction; try reflexivity;
    repeat rewrite zlen_app; repeat rewrite zlen_cons; repeat rewrite zlen_nil.
  - destruct W as (Hs & He & Hf & Hr). rewrite !zlen_vappend by assumption.
    destruct (Z.ltb_spec 0 reliable); [rewrite zlen_vappend by (unfold vwf in *; lia) | rewrite zlen_nil]; lia.
  - destruct W. rewrite !zlen_vappend by assumption. lia.
  - destruct W. rewrite !zlen_vappend by assumption. lia.
  - rewrite !zlen_vappend by assumption. lia.
  - destruct W. rewrite !zlen_vappend by assumption. lia.
  - rewrite !zlen_vappend by (apply vwf_streamcount; assumption). lia.
  - rewrite !zlen_vappend by assumption. lia.
  - destruct W. rewrite !zlen_vappend by assumption. lia.
  - rewrite !zlen_vappend by (apply vwf_streamcount; assumption). lia.
  - destruct W as (Hs & Hr & Hle & Hc & Ht). rewrite !zlen_vappend by assumption. lia.
  - rewrite !zlen_vappend by assumption. lia.
  - exact W.
  - exact W.
  - destruct W as (He & Hf & Ha & Hl). rewrite !zlen_vappend by assumption.
    destruct app; [rewrite zlen_nil | rewrite zlen_vappend by assumption]; lia.
Qed.

(** Rejections (whatever else the frame contains) *)
Lemma reject_stream_count_max_streams uni n rest :
  vwf n -> W_MaxStreamCount < n -> parse_max_streams uni (vappend n ++ rest) = Err 13 0.
Proof.
  intros V L. unfold parse_max_streams. rewrite bindv_vappend by assumption.
  destruct (Z.ltb_spec W_MaxStreamCount n); [reflexivity | lia].
Qed.

Lemma reject_stream_count_streams_blocked uni n rest :
  vwf n -> W_MaxStreamCount < n -> parse_streams_blocked uni (vappend n ++ rest) = Err 13 0.
Proof.
  intros V L. unfold parse_streams_blocked. rewrite bindv_vappend by assumption.
  destruct (Z.ltb_spec W_MaxStreamCount n); [reflexivity | lia].
Qed.

Lemma reject_reliable_size s e fs rs rest :
  vwf s -> vwf e -> vwf fs -> vwf rs -> fs < rs ->
  parse_reset_stream true (vappend s ++ vappend e ++ vappend fs ++ vappend rs ++ rest) = Err 14 0.
Proof.
  intros. unfold parse_reset_stream. bv. cbn [bindv_if].
  rewrite bindv_vappend by assumption. destruct (Z.ltb_spec fs rs); [reflexivity | lia].
Qed.

Lemma reject_retire_prior_to s r rest :
  vwf s -> vwf r -> s < r -> parse_new_cid (vappend s ++ vappend r ++ rest) = Err 15 0.
Proof.
  intros. unfold parse_new_cid. bv.
  destruct (Z.ltb_spec s r); [reflexivity | lia].
Qed.

Lemma reject_cid_len s r l rest :
  vwf s -> vwf r -> r <= s -> l = 0 \/ W_MaxConnIDLen < l ->
  exists e, (e = 16 \/ e = 17) /\ parse_new_cid (vappend s ++ vappend r ++ l :: rest) = Err e 0.
Proof.
  intros Vs Vr Le Hl. unfold parse_new_cid. bv.
  destruct (Z.ltb_spec s r); [lia|].
  destruct (Z.eqb_spec l 0).
  - exists 16. auto.
  - destruct (Z.ltb_spec W_MaxConnIDLen l); [exists 17; auto | lia].
Qed.

Lemma reject_empty_token rest : parse_new_token (vappend 0 ++ rest) = Err 18 0.
Proof. reflexivity. Qed.

(** The limits the theorems are about are the RFC's numbers. *)
Lemma max_stream_count_is_2_60 : W_MaxStreamCount = 2 ^ 60.
Proof. reflexivity. Qed.
Lemma max_conn_id_len_is_20 : W_MaxConnIDLen = 20.
Proof. reflexivity. Qed.
