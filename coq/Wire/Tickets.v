(** internal/handshake/session_ticket.go: the session-ticket codec (revision varint followed by the
    transport parameters in their session-ticket form).  This fork's ticket carries the parameters
    only (no RTT field).  Executable definitions only. *)
From Coq Require Import List ZArith Bool.
From V Require Import Gen.Params Lib.Hex Wire.Varint Wire.FramesBase Wire.TParams.
Import ListNotations.
Open Scope Z_scope.

(** error classes: 1 the revision varint cannot be read, 2 unknown revision (aux = the revision),
    3 the transport parameters are refused (whatever their own error) *)
Definition E_TK_READ := 1.
Definition E_TK_REVISION := 2.
Definition E_TK_PARAMS := 3.

(** sessionTicket.Marshal *)
Definition ticket_marshal (p : tparams) : list Z := vappend TK_Revision ++ marshal_ticket p.

(** sessionTicket.Unmarshal *)
Definition ticket_unmarshal (b : list Z) : res tparams :=
  match vparse b with
  | inl _ => Err E_TK_READ 0
  | inr (rev, _, r) =>
    if negb (rev =? TK_Revision) then Err E_TK_REVISION rev
    else match unmarshal_ticket r with
         | Ok p => Ok p
         | Err _ _ => Err E_TK_PARAMS 0
         end
  end.
