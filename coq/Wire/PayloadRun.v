(** Correspondence glue for the payload unit (harness/drv/payload.go). *)
From Coq Require Import List ZArith Bool String.
From V Require Export Wire.FramesBase.
From V Require Import Lib.Corr Lib.Hex Gen.Params Wire.Varint Wire.Frames Wire.Payload.
Import ListNotations.
Open Scope Z_scope.

(** handleFrames of a real connection: perspective, tracer attached, level, payload, indices of the
    parsed frames whose handler fails (oracle), then what was observed: kind 0 ok / 1 frame parser
    error / 2 handler error, the parser's error class, frames given to the tracer (-1: callback not
    called), the two flags *)
Inductive case :=
| HFCase (client tracer : bool) (lvl : Z) (payload : string) (fails : list Z)
         (kind cls logged : Z) (ae np : bool).

Definition model_obs (c : case) : hres :=
  match c with
  | HFCase _ tracer lvl payload fails _ _ _ _ _ =>
    (* the connection's parser: no DATAGRAM, no RESET_STREAM_AT, no ACK_FREQUENCY *)
    handle_frames (Cfg false false false 0) lvl tracer
                  (fun i => existsb (Z.eqb (Z.of_nat i)) fails) (hx payload)
  end.

Definition check_case (c : case) : bool :=
  match c, model_obs c with
  | HFCase _ _ _ _ _ kind cls logged ae np, HOk ae' np' logged' =>
    (kind =? 0) && (logged =? logged') && Bool.eqb ae ae' && Bool.eqb np np'
  | HFCase _ _ _ _ _ kind cls logged ae np, HParseErr cls' =>
    (kind =? 1) && (cls =? cls') && negb ae && negb np
  | HFCase _ _ _ _ _ kind cls logged ae np, HHandleErr logged' =>
    (kind =? 2) && (logged =? logged') && negb ae && negb np
  end.
