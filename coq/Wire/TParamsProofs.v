(** Proofs about the transport-parameter model (Wire/TParams.v). *)
From Coq Require Import List ZArith Bool Lia Sorting.Sorted Sorting.Permutation.
From Coq Require Import ZifyBool ZifyNat.
From V Require Import Gen.Params Lib.Hex Wire.Varint Wire.VarintProofs Wire.FramesBase Wire.TParams.
Import ListNotations.
Open Scope Z_scope.
Local Ltac Zify.zify_post_hook ::= Z.div_mod_to_equations.

(** * Generalities *)

Definition is_err {A} (r : res A) : Prop := match r with Err _ _ => True | Ok _ => False end.

Lemma zlen_app {A} (a b : list A) : zlen (a ++ b) = zlen a + zlen b.
Proof. unfold zlen. rewrite app_length. lia. Qed.

Lemma zlen_nonneg {A} (a : list A) : 0 <= zlen a.
Proof. unfold zlen. lia. Qed.

Lemma skipn_zlen_app {A} (a b : list A) : skipn (Z.to_nat (zlen a)) (a ++ b) = b.
Proof.
  unfold zlen. rewrite Nat2Z.id. rewrite skipn_app, skipn_all, Nat.sub_diag. reflexivity.
Qed.

Lemma firstn_zlen_app {A} (a b : list A) : firstn (Z.to_nat (zlen a)) (a ++ b) = a.
Proof.
  unfold zlen. rewrite Nat2Z.id. rewrite firstn_app, firstn_all, Nat.sub_diag. cbn. apply app_nil_r.
Qed.

(** * quicvarint facts *)

Lemma vparse_shorter b v n r : vparse b = inr (v, n, r) -> (length r < length b)%nat.
Proof.
  destruct b as [|first t]; [discriminate|]. cbn [vparse].
  set (k := if first / 64 =? 0 then 0%nat else if first / 64 =? 1 then 1%nat else if first / 64 =? 2 then 3%nat else 7%nat).
  destruct (length t <? k)%nat; [discriminate|]. intros H. inversion H; subst.
  rewrite skipn_length. cbn [length]. lia.
Qed.

Lemma vparse_consumed b v n r : vparse b = inr (v, n, r) -> 1 <= n <= 8.
Proof.
  destruct b as [|first t]; [discriminate|]. cbn [vparse].
  destruct (first / 64 =? 0); [|destruct (first / 64 =? 1); [|destruct (first / 64 =? 2)]];
    match goal with |- context [(length t <? ?k)%nat] => destruct (length t <? k)%nat end;
    try discriminate; intros H; inversion H; lia.
Qed.

Lemma vlen_range v : vwf v -> 1 <= vlen v <= 8.
Proof. intros H. destruct (vlen_cases v H) as [E|[E|[E|E]]]; rewrite E; lia. Qed.

Lemma vwf_vlen v : vwf v -> vwf (vlen v).
Proof. intros H. pose proof (vlen_range v H). unfold vwf, maxVarInt8. lia. Qed.

Lemma vappend_nonempty v : vwf v -> vappend v <> [].
Proof.
  intros H E. pose proof (vappend_length v H) as L. rewrite E in L. cbn in L.
  pose proof (vlen_range v H). lia.
Qed.

Lemma zlen_vappend v : vwf v -> zlen (vappend v) = vlen v.
Proof. intros H. unfold zlen. apply vappend_length. exact H. Qed.

(** a byte string that is exactly one varint of value [v] *)
Definition varint_body (body : list Z) (v : Z) : Prop :=
  forall rest, vparse (body ++ rest) = inr (v, zlen body, rest).

Lemma varint_body_vappend v : vwf v -> varint_body (vappend v) v.
Proof. intros H rest. rewrite zlen_vappend by exact H. apply vparse_vappend. exact H. Qed.

Lemma varint_body_len body v : varint_body body v -> vwf (zlen body).
Proof.
  intros H. specialize (H []). apply vparse_consumed in H. unfold vwf, maxVarInt8. lia.
Qed.

(** * The loop *)

Lemma tp_loop_fuel f1 : forall f2 pers s b,
  (length b <= f1)%nat -> (length b <= f2)%nat -> tp_loop f1 pers s b = tp_loop f2 pers s b.
Proof.
  induction f1 as [|f1 IH]; intros f2 pers s b H1 H2.
  - destruct b; [|cbn in H1; lia]. destruct f2; reflexivity.
  - destruct b as [|x t]; [destruct f2; reflexivity|].
    destruct f2 as [|f2]; [cbn in H2; lia|].
    cbn [tp_loop].
    destruct (vparse (x :: t)) as [e|[[id n1] b1]] eqn:E1; [reflexivity|].
    destruct (vparse b1) as [e|[[plen n2] b2]] eqn:E2; [reflexivity|].
    destruct (zlen b2 <? plen); [reflexivity|].
    destruct (tp_step pers id plen b2 (add_id id s)) as [s'|c a]; [|reflexivity].
    apply vparse_shorter in E1. apply vparse_shorter in E2.
    assert (length (skipn (Z.to_nat plen) b2) <= length b2)%nat by (rewrite skipn_length; lia).
    cbn [length] in *. apply IH; lia.
Qed.

Definition tp_run (pers : perspective) (s : pst) (b : list Z) : res pst :=
  tp_loop (length b) pers s b.

Lemma unmarshal_run pers ticket b :
  unmarshal pers ticket b =
  match tp_run pers st_init b with Err c a => Err c a | Ok s => tp_finish pers ticket s end.
Proof. reflexivity. Qed.

Lemma tp_run_nil pers s : tp_run pers s [] = Ok s.
Proof. reflexivity. Qed.

(** one well-delimited parameter at the front of the input *)
Lemma tp_run_param pers s id body rest :
  vwf id -> vwf (zlen body) ->
  tp_run pers s (enc_param id body ++ rest) =
  match tp_step pers id (zlen body) (body ++ rest) (add_id id s) with
  | Err c a => Err c a
  | Ok s' => tp_run pers s' rest
  end.
Proof.
  intros Hid Hlen. unfold tp_run, enc_param.
  rewrite <- !app_assoc.
  remember (vappend id ++ vappend (zlen body) ++ body ++ rest) as b eqn:Eb.
  destruct b as [|x t].
  { exfalso. destruct (vappend id) eqn:E; [apply (vappend_nonempty id Hid E)|discriminate]. }
  cbn [length tp_loop]. rewrite Eb.
  rewrite (vparse_vappend id _ Hid), (vparse_vappend (zlen body) _ Hlen).
  rewrite zlen_app.
  destruct (Z.ltb_spec (zlen body + zlen rest) (zlen body)) as [L|_].
  { pose proof (zlen_nonneg rest). lia. }
  destruct (tp_step pers id (zlen body) (body ++ rest) (add_id id s)) as [s'|c a]; [|reflexivity].
  rewrite skipn_zlen_app.
  apply tp_loop_fuel; [|lia].
  assert (length (x :: t) = length (vappend id ++ vappend (zlen body) ++ body ++ rest)) as L by (rewrite Eb; reflexivity).
  rewrite !app_length in L. cbn [length] in L.
  assert (1 <= length (vappend id))%nat.
  { destruct (vappend id) eqn:E; [exfalso; apply (vappend_nonempty id Hid E)|cbn; lia]. }
  lia.
Qed.

Lemma enc_varint_param_eq id v : vwf v -> enc_varint_param id v = enc_param id (vappend v).
Proof. intros H. unfold enc_varint_param, enc_param. rewrite zlen_vappend by exact H. reflexivity. Qed.

(** parameter lists: (id, value) pairs with minimal id / length varints *)
Definition enc_params (ps : list (Z * list Z)) : list Z :=
  flat_map (fun p => enc_param (fst p) (snd p)) ps.
Definition param_wf (p : Z * list Z) : Prop := vwf (fst p) /\ vwf (zlen (snd p)).
Definition params_wf (ps : list (Z * list Z)) : Prop := Forall param_wf ps.

Lemma enc_params_cons p ps : enc_params (p :: ps) = enc_param (fst p) (snd p) ++ enc_params ps.
Proof. reflexivity. Qed.

Lemma enc_params_app a b : enc_params (a ++ b) = enc_params a ++ enc_params b.
Proof. unfold enc_params. apply flat_map_app. Qed.

(** a parameter whose arm fails makes the whole input fail, wherever it stands *)
Lemma tp_run_reject_anywhere pers id body rest :
  vwf id -> vwf (zlen body) ->
  (forall s, is_err (tp_step pers id (zlen body) (body ++ rest) s)) ->
  forall ps s, params_wf ps ->
  is_err (tp_run pers s (enc_params ps ++ enc_param id body ++ rest)).
Proof.
  intros Hid Hlen Hstep. induction ps as [|p ps IH]; intros s Hwf.
  - cbn [enc_params flat_map app]. rewrite tp_run_param by assumption.
    specialize (Hstep (add_id id s)). destruct (tp_step pers id (zlen body) (body ++ rest) (add_id id s)); [contradiction|exact I].
  - inversion Hwf as [|? ? [Hp1 Hp2] Hps]; subst.
    rewrite enc_params_cons, <- app_assoc, tp_run_param by assumption.
    destruct (tp_step pers (fst p) (zlen (snd p)) _ (add_id (fst p) s)); [|exact I].
    apply IH. exact Hps.
Qed.

Lemma unmarshal_reject_anywhere pers ticket id body rest ps :
  vwf id -> vwf (zlen body) ->
  (forall s, is_err (tp_step pers id (zlen body) (body ++ rest) s)) ->
  params_wf ps ->
  is_err (unmarshal pers ticket (enc_params ps ++ enc_param id body ++ rest)).
Proof.
  intros Hid Hlen Hstep Hwf. rewrite unmarshal_run.
  pose proof (tp_run_reject_anywhere pers id body rest Hid Hlen Hstep ps st_init Hwf) as H.
  destruct (tp_run pers st_init _); [contradiction|exact I].
Qed.

Lemma unmarshal_reject_head pers ticket id body rest c a :
  vwf id -> vwf (zlen body) ->
  (forall s, tp_step pers id (zlen body) (body ++ rest) s = Err c a) ->
  unmarshal pers ticket (enc_param id body ++ rest) = Err c a.
Proof.
  intros Hid Hlen Hstep. rewrite unmarshal_run, tp_run_param by assumption.
  rewrite Hstep. reflexivity.
Qed.

(** * The arms of the switch *)

Ltac tp_consts :=
  cbv [TP_ID_odcid TP_ID_mit TP_ID_srt TP_ID_mups TP_ID_imd TP_ID_imsd_bl TP_ID_imsd_br TP_ID_imsd_uni
       TP_ID_mbs TP_ID_mus TP_ID_ade TP_ID_mad TP_ID_dam TP_ID_pa TP_ID_acil TP_ID_iscid TP_ID_rscid
       TP_ID_mdfs TP_ID_rsa TP_ID_minad] in *.

Definition numeric_ids : list Z :=
  [TP_ID_mit; TP_ID_mups; TP_ID_imd; TP_ID_imsd_bl; TP_ID_imsd_br; TP_ID_imsd_uni; TP_ID_mbs; TP_ID_mus;
   TP_ID_mad; TP_ID_mdfs; TP_ID_ade; TP_ID_acil; TP_ID_minad].

Lemma is_numeric_spec id : is_numeric id = true <-> In id numeric_ids.
Proof.
  unfold is_numeric, numeric_ids. rewrite !orb_true_iff, !Z.eqb_eq. cbn [In]. intuition.
Qed.

Ltac vwf_id := vm_compute; split; discriminate.

(** the numeric arm: a value that is one varint reaches the range rule *)
Lemma tp_step_numeric pers id body rest v s :
  In id numeric_ids -> varint_body body v ->
  tp_step pers id (zlen body) (body ++ rest) s =
  match read_numeric (body ++ rest) id (zlen body) (st_p s) with
  | Err c a => Err c a
  | Ok p' => Ok (upd (fun _ => p') s)
  end.
Proof.
  intros Hin _. unfold tp_step. apply is_numeric_spec in Hin. rewrite Hin. reflexivity.
Qed.

Ltac numeric_reject Hb :=
  intros; rewrite tp_step_numeric with (v := _) by (first [eassumption | cbn; tauto]);
  unfold read_numeric; rewrite Hb, Z.eqb_refl; cbn [negb];
  tp_consts; cbn [Z.eqb Pos.eqb].

Lemma step_reject_ade pers body rest v s :
  varint_body body v -> TP_MaxAckDelayExponent < v ->
  tp_step pers TP_ID_ade (zlen body) (body ++ rest) s = Err E_TP_ADE 0.
Proof.
  intros Hb Hv. rewrite (tp_step_numeric pers TP_ID_ade body rest v s) by (cbn; tauto || exact Hb).
  unfold read_numeric. rewrite (Hb rest), Z.eqb_refl. cbn [negb].
  tp_consts. cbn [Z.eqb Pos.eqb].
  destruct (Z.ltb_spec TP_MaxAckDelayExponent v); [reflexivity|lia].
Qed.

Lemma step_reject_mad pers body rest v s :
  varint_body body v -> TP_MaxMaxAckDelayMs < v ->
  tp_step pers TP_ID_mad (zlen body) (body ++ rest) s = Err E_TP_MAD 0.
Proof.
  intros Hb Hv. rewrite (tp_step_numeric pers TP_ID_mad body rest v s) by (cbn; tauto || exact Hb).
  unfold read_numeric. rewrite (Hb rest), Z.eqb_refl. cbn [negb].
  tp_consts. cbn [Z.eqb Pos.eqb].
  destruct (Z.ltb_spec TP_MaxMaxAckDelayMs v); [reflexivity|lia].
Qed.

Lemma step_reject_mups pers body rest v s :
  varint_body body v -> v < 1200 ->
  tp_step pers TP_ID_mups (zlen body) (body ++ rest) s = Err E_TP_MUPS 0.
Proof.
  intros Hb Hv. rewrite (tp_step_numeric pers TP_ID_mups body rest v s) by (cbn; tauto || exact Hb).
  unfold read_numeric. rewrite (Hb rest), Z.eqb_refl. cbn [negb].
  tp_consts. cbn [Z.eqb Pos.eqb].
  destruct (Z.ltb_spec v 1200); [reflexivity|lia].
Qed.

Lemma step_reject_acil pers body rest v s :
  varint_body body v -> v < 2 ->
  tp_step pers TP_ID_acil (zlen body) (body ++ rest) s = Err E_TP_ACIL 0.
Proof.
  intros Hb Hv. rewrite (tp_step_numeric pers TP_ID_acil body rest v s) by (cbn; tauto || exact Hb).
  unfold read_numeric. rewrite (Hb rest), Z.eqb_refl. cbn [negb].
  tp_consts. cbn [Z.eqb Pos.eqb].
  destruct (Z.ltb_spec v 2); [reflexivity|lia].
Qed.

Lemma step_reject_mbs pers body rest v s :
  varint_body body v -> TP_MaxStreamCount < v ->
  tp_step pers TP_ID_mbs (zlen body) (body ++ rest) s = Err E_TP_STREAMS_BIDI 0.
Proof.
  intros Hb Hv. rewrite (tp_step_numeric pers TP_ID_mbs body rest v s) by (cbn; tauto || exact Hb).
  unfold read_numeric. rewrite (Hb rest), Z.eqb_refl. cbn [negb].
  tp_consts. cbn [Z.eqb Pos.eqb].
  destruct (Z.ltb_spec TP_MaxStreamCount v); [reflexivity|lia].
Qed.

Lemma step_reject_mus pers body rest v s :
  varint_body body v -> TP_MaxStreamCount < v ->
  tp_step pers TP_ID_mus (zlen body) (body ++ rest) s = Err E_TP_STREAMS_UNI 0.
Proof.
  intros Hb Hv. rewrite (tp_step_numeric pers TP_ID_mus body rest v s) by (cbn; tauto || exact Hb).
  unfold read_numeric. rewrite (Hb rest), Z.eqb_refl. cbn [negb].
  tp_consts. cbn [Z.eqb Pos.eqb].
  destruct (Z.ltb_spec TP_MaxStreamCount v); [reflexivity|lia].
Qed.

(** server-only parameters sent by the client: whatever the length and the value *)
Lemma step_reject_client id plen b s :
  In id [TP_ID_odcid; TP_ID_srt; TP_ID_pa; TP_ID_rscid] ->
  exists c, tp_step Client id plen b s = Err c 0 /\
            In (id, c) [(TP_ID_odcid, E_TP_CLIENT_ODCID); (TP_ID_srt, E_TP_CLIENT_SRT);
                        (TP_ID_pa, E_TP_CLIENT_PA); (TP_ID_rscid, E_TP_CLIENT_RSCID)].
Proof.
  cbn [In]. intros [H|[H|[H|[H|[]]]]]; subst id; unfold tp_step; cbn;
    eexists; (split; [reflexivity|]); cbn; tauto.
Qed.

(** connection-ID parameters longer than MaxConnIDLen (20) *)
Lemma step_reject_cid_len pers id plen b s :
  In id [TP_ID_odcid; TP_ID_iscid; TP_ID_rscid] -> TP_MaxConnIDLen < plen ->
  is_err (tp_step pers id plen b s) /\
  (pers = Server \/ id = TP_ID_iscid -> tp_step pers id plen b s = Err E_TP_CID_LEN 0).
Proof.
  intros Hin Hlen. assert (E : (TP_MaxConnIDLen <? plen) = true) by (apply Z.ltb_lt; exact Hlen).
  cbn [In] in Hin. destruct Hin as [H|[H|[H|[]]]]; subst id; unfold tp_step; cbn -[Z.ltb]; rewrite E;
    destruct pers; cbn; (split; [exact I|]); intros [H|H]; try discriminate; reflexivity.
Qed.

(** * What a successful arm does to the bookkeeping *)

Lemma known_not_numeric id :
  In id [TP_ID_odcid; TP_ID_iscid; TP_ID_pa; TP_ID_dam; TP_ID_srt; TP_ID_rscid; TP_ID_rsa] -> is_numeric id = false.
Proof. cbn [In]. intros H. repeat (destruct H as [H|H]; [subst id; reflexivity|]). contradiction. Qed.

Lemma numeric_not id : In id numeric_ids -> (id =? TP_ID_odcid) = false /\ (id =? TP_ID_iscid) = false.
Proof.
  unfold numeric_ids. cbn [In]. intros H.
  repeat (destruct H as [H|H]; [subst id; split; reflexivity|]). contradiction.
Qed.

Lemma tp_step_bookkeeping pers id plen b s s' :
  tp_step pers id plen b s = Ok s' ->
  st_ids s' = st_ids s /\
  st_iscid s' = st_iscid s || (id =? TP_ID_iscid) /\
  st_odcid s' = st_odcid s || (id =? TP_ID_odcid).
Proof.
  unfold tp_step. destruct (is_numeric id) eqn:En.
  { apply is_numeric_spec, numeric_not in En. destruct En as [E1 E2]. rewrite E1, E2, !orb_false_r.
    destruct (read_numeric b id plen (st_p s)); [|discriminate]. intros H. inversion H. cbn. auto. }
  destruct (Z.eqb_spec id TP_ID_pa) as [->|].
  { destruct (is_client pers); [discriminate|]. destruct (read_pa b plen); [|discriminate].
    intros H. inversion H. cbn. rewrite !orb_false_r. auto. }
  destruct (Z.eqb_spec id TP_ID_dam) as [->|].
  { destruct (negb (plen =? 0)); [discriminate|]. intros H. inversion H. cbn. rewrite !orb_false_r. auto. }
  destruct (Z.eqb_spec id TP_ID_srt) as [->|].
  { destruct (is_client pers); [discriminate|]. destruct (negb (plen =? 16)); [discriminate|].
    destruct (zlen b <? 16); [discriminate|]. intros H. inversion H. cbn. rewrite !orb_false_r. auto. }
  destruct (Z.eqb_spec id TP_ID_odcid) as [->|].
  { destruct (is_client pers); [discriminate|]. destruct (TP_MaxConnIDLen <? plen); [discriminate|].
    intros H. inversion H. cbn. rewrite !orb_false_r, orb_true_r. auto. }
  destruct (Z.eqb_spec id TP_ID_iscid) as [->|].
  { destruct (TP_MaxConnIDLen <? plen); [discriminate|].
    intros H. inversion H. cbn. rewrite !orb_false_r, orb_true_r. auto. }
  rewrite !orb_false_r.
  destruct (Z.eqb_spec id TP_ID_rscid) as [->|].
  { destruct (is_client pers); [discriminate|]. destruct (TP_MaxConnIDLen <? plen); [discriminate|].
    intros H. inversion H. cbn. auto. }
  destruct (Z.eqb_spec id TP_ID_rsa) as [->|].
  { destruct (negb (plen =? 0)); [discriminate|]. intros H. inversion H. cbn. auto. }
  intros H. inversion H. auto.
Qed.

(** running over a well-formed parameter list: the ids and the two flags are what was seen *)
Lemma tp_run_bookkeeping pers : forall ps s s',
  params_wf ps -> tp_run pers s (enc_params ps) = Ok s' ->
  st_ids s' = rev (map fst ps) ++ st_ids s /\
  st_iscid s' = st_iscid s || existsb (fun p => fst p =? TP_ID_iscid) ps /\
  st_odcid s' = st_odcid s || existsb (fun p => fst p =? TP_ID_odcid) ps.
Proof.
  induction ps as [|p ps IH]; intros s s' Hwf H.
  - cbn in H. inversion H. cbn. rewrite !orb_false_r. auto.
  - inversion Hwf as [|? ? [Hp1 Hp2] Hps]; subst.
    rewrite enc_params_cons in H.
    rewrite <- (app_nil_r (enc_params ps)) in H.
    rewrite tp_run_param in H by assumption.
    rewrite app_nil_r in H.
    destruct (tp_step pers (fst p) (zlen (snd p)) (snd p ++ enc_params ps) (add_id (fst p) s)) as [s1|] eqn:Es; [|discriminate].
    apply tp_step_bookkeeping in Es. destruct Es as (Ei & Ec & Eo).
    apply IH in H; [|exact Hps]. destruct H as (Hi & Hc & Ho).
    cbn [map rev existsb]. rewrite Hi, Hc, Ho, Ei, Ec, Eo. cbn [add_id st_ids st_iscid st_odcid].
    rewrite <- !app_assoc, !orb_assoc. cbn [app]. auto.
Qed.

(** * Sorting and the adjacent-duplicate test *)

Lemma insert_perm x l : Permutation (x :: l) (insert x l).
Proof.
  induction l as [|y l IH]; cbn [insert]; [reflexivity|].
  destruct (x <=? y); [reflexivity|].
  rewrite perm_swap. apply perm_skip. exact IH.
Qed.

Lemma isort_perm l : Permutation l (isort l).
Proof.
  induction l as [|x l IH]; cbn [isort]; [reflexivity|].
  rewrite <- insert_perm. apply perm_skip. exact IH.
Qed.

Lemma insert_sorted x l : StronglySorted Z.le l -> StronglySorted Z.le (insert x l).
Proof.
  induction l as [|y l IH]; intros H; cbn [insert].
  - repeat constructor.
  - inversion H as [|? ? Hs Hf]; subst.
    destruct (Z.leb_spec x y).
    + constructor; [exact H|]. constructor; [lia|].
      eapply Forall_impl; [|exact Hf]. cbn. intros; lia.
    + constructor; [apply IH; exact Hs|].
      eapply Permutation_Forall; [apply insert_perm|]. constructor; [lia|exact Hf].
Qed.

Lemma isort_sorted l : StronglySorted Z.le (isort l).
Proof. induction l; cbn [isort]; [constructor|apply insert_sorted; assumption]. Qed.

Lemma adjdup_none_nodup l : StronglySorted Z.le l -> adjdup l = None -> NoDup l.
Proof.
  induction l as [|x l IH]; intros Hs Hd; [constructor|].
  inversion Hs as [|? ? Hs' Hf]; subst.
  destruct l as [|y l]; [repeat constructor; intros []|].
  cbn [adjdup] in Hd. destruct (Z.eqb_spec x y) as [|Hne]; [discriminate|].
  constructor; [|apply IH; assumption].
  inversion Hs' as [|? ? _ Hf']; subst. inversion Hf as [|? ? Hxy _]; subst.
  intros [E|Hin]; [congruence|].
  rewrite Forall_forall in Hf'. specialize (Hf' _ Hin). lia.
Qed.

Lemma adjdup_some_not_nodup l x : adjdup l = Some x -> ~ NoDup l.
Proof.
  induction l as [|a l IH]; [discriminate|].
  destruct l as [|b l]; [discriminate|]. cbn [adjdup].
  destruct (Z.eqb_spec a b) as [->|].
  - intros _ Hn. inversion Hn as [|? ? Hnin _]; subst. apply Hnin. left. reflexivity.
  - intros H Hn. inversion Hn; subst. apply (IH H). assumption.
Qed.

(** the duplicate check fires exactly when some id was seen twice *)
Lemma dup_detected ids : ~ NoDup ids -> exists x, adjdup (isort ids) = Some x.
Proof.
  intros Hn. destruct (adjdup (isort ids)) as [x|] eqn:E; [eauto|].
  exfalso. apply Hn. eapply Permutation_NoDup; [symmetry; apply isort_perm|].
  apply adjdup_none_nodup; [apply isort_sorted|exact E].
Qed.

Lemma nodup_passes ids : NoDup ids -> adjdup (isort ids) = None.
Proof.
  intros Hn. destruct (adjdup (isort ids)) as [x|] eqn:E; [|reflexivity].
  exfalso. apply adjdup_some_not_nodup in E. apply E.
  eapply Permutation_NoDup; [apply isort_perm|exact Hn].
Qed.

Lemma adjdup_in l x : adjdup l = Some x -> In x l.
Proof.
  induction l as [|a l IH]; [discriminate|]. destruct l as [|b l]; [discriminate|].
  cbn [adjdup]. destruct (a =? b).
  - intros H. inversion H. left. reflexivity.
  - intros H. right. apply IH. exact H.
Qed.

(** * Rejection theorems *)

Lemma tp_finish_dup pers ticket s :
  ~ NoDup (st_ids s) -> is_err (tp_finish pers ticket s).
Proof.
  intros Hn. destruct (dup_detected _ Hn) as [x Ex].
  unfold tp_finish, dup_check. rewrite Ex.
  repeat match goal with |- is_err (if ?c then _ else _) => destruct c end; exact I.
Qed.

(** a list of well-delimited parameters in which an id occurs twice is rejected *)
Theorem reject_duplicate pers ticket ps l1 x l2 l3 :
  params_wf ps -> map fst ps = l1 ++ x :: l2 ++ x :: l3 ->
  is_err (unmarshal pers ticket (enc_params ps)).
Proof.
  intros Hwf Hids. rewrite unmarshal_run.
  destruct (tp_run pers st_init (enc_params ps)) as [s|] eqn:E; [|exact I].
  apply tp_run_bookkeeping in E; [|exact Hwf]. destruct E as (Ei & _ & _).
  apply tp_finish_dup. rewrite Ei. cbn [st_init st_ids]. rewrite app_nil_r.
  intros Hn. apply NoDup_rev in Hn. rewrite rev_involutive, Hids in Hn.
  apply NoDup_remove_2 in Hn. apply Hn. rewrite in_app_iff. right. rewrite in_app_iff. right. left. reflexivity.
Qed.

(** ... and the converse direction: what is accepted has pairwise distinct ids *)
Theorem accepted_nodup pers ticket ps p :
  params_wf ps -> unmarshal pers ticket (enc_params ps) = Ok p -> NoDup (map fst ps).
Proof.
  intros Hwf H. rewrite unmarshal_run in H.
  destruct (tp_run pers st_init (enc_params ps)) as [s|] eqn:E; [|discriminate].
  apply tp_run_bookkeeping in E; [|exact Hwf]. destruct E as (Ei & _ & _).
  destruct (adjdup (isort (st_ids s))) as [x|] eqn:Ed.
  - exfalso. unfold tp_finish, dup_check in H. rewrite Ed in H.
    repeat match type of H with (if ?c then _ else _) = _ => destruct c end; discriminate.
  - apply adjdup_none_nodup in Ed; [|apply isort_sorted].
    eapply Permutation_NoDup in Ed; [|symmetry; apply isort_perm].
    rewrite Ei in Ed. cbn [st_init st_ids] in Ed. rewrite app_nil_r in Ed.
    apply NoDup_rev in Ed. rewrite rev_involutive in Ed. exact Ed.
Qed.

(** the reported id is one that was seen twice... at least seen *)
Theorem reject_missing_iscid pers ps :
  params_wf ps -> ~ In TP_ID_iscid (map fst ps) ->
  is_err (unmarshal pers false (enc_params ps)).
Proof.
  intros Hwf Hnin. rewrite unmarshal_run.
  destruct (tp_run pers st_init (enc_params ps)) as [s|] eqn:E; [|exact I].
  apply tp_run_bookkeeping in E; [|exact Hwf]. destruct E as (_ & Ec & _).
  assert (Hf : existsb (fun p => fst p =? TP_ID_iscid) ps = false).
  { destruct (existsb _ ps) eqn:Ex; [|reflexivity]. exfalso. apply existsb_exists in Ex.
    destruct Ex as (p & Hin & Hp). apply Z.eqb_eq in Hp. apply Hnin. rewrite <- Hp. apply in_map. exact Hin. }
  rewrite Hf in Ec. cbn in Ec.
  unfold tp_finish. rewrite Ec. cbn [negb].
  repeat match goal with |- is_err (if ?c then _ else _) => destruct c end; exact I.
Qed.

Theorem reject_missing_odcid ps :
  params_wf ps -> ~ In TP_ID_odcid (map fst ps) ->
  is_err (unmarshal Server false (enc_params ps)).
Proof.
  intros Hwf Hnin. rewrite unmarshal_run.
  destruct (tp_run Server st_init (enc_params ps)) as [s|] eqn:E; [|exact I].
  apply tp_run_bookkeeping in E; [|exact Hwf]. destruct E as (_ & _ & Eo).
  assert (Hf : existsb (fun p => fst p =? TP_ID_odcid) ps = false).
  { destruct (existsb _ ps) eqn:Ex; [|reflexivity]. exfalso. apply existsb_exists in Ex.
    destruct Ex as (p & Hin & Hp). apply Z.eqb_eq in Hp. apply Hnin. rewrite <- Hp. apply in_map. exact Hin. }
  rewrite Hf in Eo. cbn in Eo.
  unfold tp_finish. rewrite Eo. cbn [negb is_server andb].
  repeat match goal with |- is_err (if ?c then _ else _) => destruct c end; exact I.
Qed.

(** exact classes when nothing else is wrong before: the missing-parameter errors come before the
    duplicate check, the min_ack_delay check before both *)
Lemma tp_finish_missing_iscid pers s :
  st_iscid s = false -> (pers = Client \/ st_odcid s = true) ->
  (forall m, tp_minad (st_p s) = Some m -> m <= tp_mad (st_p s)) ->
  tp_finish pers false s = Err E_TP_MISSING_ISCID 0.
Proof.
  intros Hc Ho Hm. unfold tp_finish.
  destruct (tp_minad (st_p s)) as [m|] eqn:Em.
  - specialize (Hm m eq_refl). destruct (Z.ltb_spec (tp_mad (st_p s)) m); [lia|].
    cbn [negb]. rewrite Hc. destruct Ho as [->| ->]; cbn; reflexivity || (destruct (is_server pers); reflexivity).
  - cbn [negb]. rewrite Hc. destruct Ho as [->| ->]; cbn; reflexivity || (destruct (is_server pers); reflexivity).
Qed.

(** * The rejection rules in their final form

    [ps] is any list of well-delimited parameters standing before the offending one, [rest] any
    bytes behind it.  First conjunct: the input is rejected wherever the parameter stands (an
    earlier parameter may fail first, hence no class); second conjunct: the class when it is
    the first parameter. *)

Section numeric_rules.
  Variables (pers : perspective) (ticket : bool) (ps : list (Z * list Z)) (body : list Z) (v : Z) (rest : list Z).
  Hypothesis Hps : params_wf ps.
  Hypothesis Hbody : varint_body body v.

  Let numeric_rule id c :
    vwf id -> (forall s, tp_step pers id (zlen body) (body ++ rest) s = Err c 0) ->
    is_err (unmarshal pers ticket (enc_params ps ++ enc_param id body ++ rest)) /\
    unmarshal pers ticket (enc_param id body ++ rest) = Err c 0.
  Proof.
    intros Hid Hstep. pose proof (varint_body_len body v Hbody) as Hl. split.
    - apply unmarshal_reject_anywhere; try assumption. intros s. rewrite Hstep. exact I.
    - apply unmarshal_reject_head; assumption.
  Qed.

  Lemma reject_ack_delay_exponent : TP_MaxAckDelayExponent < v ->
    is_err (unmarshal pers ticket (enc_params ps ++ enc_param TP_ID_ade body ++ rest)) /\
    unmarshal pers ticket (enc_param TP_ID_ade body ++ rest) = Err E_TP_ADE 0.
  Proof. intros H. apply numeric_rule; [vwf_id|]. intros s. apply step_reject_ade with (v := v); assumption. Qed.

  Lemma reject_max_ack_delay : TP_MaxMaxAckDelayMs < v ->
    is_err (unmarshal pers ticket (enc_params ps ++ enc_param TP_ID_mad body ++ rest)) /\
    unmarshal pers ticket (enc_param TP_ID_mad body ++ rest) = Err E_TP_MAD 0.
  Proof. intros H. apply numeric_rule; [vwf_id|]. intros s. apply step_reject_mad with (v := v); assumption. Qed.

  Lemma reject_max_udp_payload_size : v < 1200 ->
    is_err (unmarshal pers ticket (enc_params ps ++ enc_param TP_ID_mups body ++ rest)) /\
    unmarshal pers ticket (enc_param TP_ID_mups body ++ rest) = Err E_TP_MUPS 0.
  Proof. intros H. apply numeric_rule; [vwf_id|]. intros s. apply step_reject_mups with (v := v); assumption. Qed.

  Lemma reject_active_cid_limit : v < 2 ->
    is_err (unmarshal pers ticket (enc_params ps ++ enc_param TP_ID_acil body ++ rest)) /\
    unmarshal pers ticket (enc_param TP_ID_acil body ++ rest) = Err E_TP_ACIL 0.
  Proof. intros H. apply numeric_rule; [vwf_id|]. intros s. apply step_reject_acil with (v := v); assumption. Qed.

  Lemma reject_stream_count : TP_MaxStreamCount < v ->
    (is_err (unmarshal pers ticket (enc_params ps ++ enc_param TP_ID_mbs body ++ rest)) /\
     unmarshal pers ticket (enc_param TP_ID_mbs body ++ rest) = Err E_TP_STREAMS_BIDI 0) /\
    (is_err (unmarshal pers ticket (enc_params ps ++ enc_param TP_ID_mus body ++ rest)) /\
     unmarshal pers ticket (enc_param TP_ID_mus body ++ rest) = Err E_TP_STREAMS_UNI 0).
  Proof.
    intros H. split; (apply numeric_rule; [vwf_id|]); intros s.
    - apply step_reject_mbs with (v := v); assumption.
    - apply step_reject_mus with (v := v); assumption.
  Qed.
End numeric_rules.

Definition server_only_ids : list Z := [TP_ID_odcid; TP_ID_srt; TP_ID_pa; TP_ID_rscid].

Lemma vwf_server_only id : In id server_only_ids -> vwf id.
Proof. cbn [server_only_ids In]. intros H. repeat (destruct H as [H|H]; [subst id; vwf_id|]). contradiction. Qed.

Lemma reject_client_server_only ticket ps id body rest :
  params_wf ps -> vwf (zlen body) -> In id server_only_ids ->
  is_err (unmarshal Client ticket (enc_params ps ++ enc_param id body ++ rest)) /\
  exists c, unmarshal Client ticket (enc_param id body ++ rest) = Err c 0 /\
            In (id, c) [(TP_ID_odcid, E_TP_CLIENT_ODCID); (TP_ID_srt, E_TP_CLIENT_SRT);
                        (TP_ID_pa, E_TP_CLIENT_PA); (TP_ID_rscid, E_TP_CLIENT_RSCID)].
Proof.
  intros Hps Hl Hin. pose proof (vwf_server_only id Hin) as Hid. split.
  - apply unmarshal_reject_anywhere; try assumption. intros s.
    destruct (step_reject_client id (zlen body) (body ++ rest) s Hin) as (c & E & _). rewrite E. exact I.
  - destruct (step_reject_client id (zlen body) (body ++ rest) st_init Hin) as (c & _ & Hc).
    exists c. split; [|exact Hc]. apply unmarshal_reject_head; try assumption.
    intros s. destruct (step_reject_client id (zlen body) (body ++ rest) s Hin) as (c' & E & Hc').
    rewrite E. f_equal.
    cbn [server_only_ids In] in Hin, Hc, Hc'.
    repeat (destruct Hin as [Hin|Hin]; [subst id;
      repeat (destruct Hc as [Hc|Hc]; [inversion Hc; subst|]); try contradiction;
      repeat (destruct Hc' as [Hc'|Hc']; [inversion Hc'; subst|]); try contradiction; try reflexivity; try discriminate|]).
    contradiction.
Qed.

Definition cid_param_ids : list Z := [TP_ID_odcid; TP_ID_iscid; TP_ID_rscid].

Lemma reject_cid_param_len pers ticket ps id body rest :
  params_wf ps -> vwf (zlen body) -> In id cid_param_ids -> TP_MaxConnIDLen < zlen body ->
  is_err (unmarshal pers ticket (enc_params ps ++ enc_param id body ++ rest)) /\
  (pers = Server \/ id = TP_ID_iscid -> unmarshal pers ticket (enc_param id body ++ rest) = Err E_TP_CID_LEN 0).
Proof.
  intros Hps Hl Hin Hlen.
  assert (Hid : vwf id) by (cbn [cid_param_ids In] in Hin; repeat (destruct Hin as [Hin|Hin]; [subst id; vwf_id|]); contradiction).
  split.
  - apply unmarshal_reject_anywhere; try assumption. intros s.
    apply (step_reject_cid_len pers id (zlen body) (body ++ rest) s Hin Hlen).
  - intros Hc. apply unmarshal_reject_head; try assumption. intros s.
    apply (step_reject_cid_len pers id (zlen body) (body ++ rest) s Hin Hlen). exact Hc.
Qed.

(** appending a second copy of a parameter (whatever its value) to a parameter list *)
Lemma reject_duplicate_appended pers ticket ps id body :
  params_wf ps -> param_wf (id, body) -> In id (map fst ps) ->
  is_err (unmarshal pers ticket (enc_params (ps ++ [(id, body)]))).
Proof.
  intros Hps Hp Hin. apply in_split in Hin. destruct Hin as (l1 & l2 & E).
  apply (reject_duplicate pers ticket (ps ++ [(id, body)]) l1 id l2 []).
  - apply Forall_app. split; [exact Hps|repeat constructor; apply Hp].
  - rewrite map_app, E, <- app_assoc. reflexivity.
Qed.

(** ** Non-vacuity witnesses (evaluated, independent of the proofs above) *)

Definition ex_ps_server : list (Z * list Z) :=
  [(TP_ID_iscid, [1; 2; 3; 4]); (TP_ID_imd, vappend 786432); (TP_ID_odcid, [5; 6; 7; 8; 9; 10; 11; 12]); (27, [0; 0])].

Lemma ex_ps_server_wf : params_wf ex_ps_server.
Proof. repeat constructor; vm_compute; discriminate. Qed.

Lemma ex_ps_server_accepted :
  exists p, unmarshal Server false (enc_params ex_ps_server) = Ok p /\ tp_imd p = 786432.
Proof. eexists. split; vm_compute; reflexivity. Qed.

Lemma ex_duplicate_rejected :
  unmarshal Server false (enc_params (ex_ps_server ++ [(TP_ID_imd, vappend 5)])) = Err E_TP_DUP TP_ID_imd /\
  unmarshal Server false (enc_params ((27, []) :: ex_ps_server)) = Err E_TP_DUP 27.
Proof. split; vm_compute; reflexivity. Qed.

Lemma ex_varint_body : varint_body (vappend 21) 21 /\ varint_body [64; 21] 21.
Proof.
  split; [apply varint_body_vappend; vm_compute; split; discriminate|].
  intros rest. reflexivity.
Qed.

Lemma ex_range_rejected :
  unmarshal Server false (enc_params ex_ps_server ++ enc_param TP_ID_ade [64; 21] ++ [255]) = Err E_TP_ADE 0 /\
  unmarshal Server false (enc_params ex_ps_server ++ enc_param TP_ID_mad (vappend 16384)) = Err E_TP_MAD 0 /\
  unmarshal Server false (enc_params ex_ps_server ++ enc_param TP_ID_mups (vappend 1199)) = Err E_TP_MUPS 0 /\
  unmarshal Server false (enc_params ex_ps_server ++ enc_param TP_ID_acil (vappend 1)) = Err E_TP_ACIL 0 /\
  unmarshal Server false (enc_params ex_ps_server ++ enc_param TP_ID_mbs (vappend (TP_MaxStreamCount + 1))) = Err E_TP_STREAMS_BIDI 0 /\
  unmarshal Client false (enc_params [(TP_ID_iscid, [])] ++ enc_param TP_ID_srt (repeat 7 16)) = Err E_TP_CLIENT_SRT 0 /\
  unmarshal Client false (enc_params [(TP_ID_iscid, repeat 1 21)]) = Err E_TP_CID_LEN 0 /\
  unmarshal Client false (enc_params [(TP_ID_imd, vappend 9)]) = Err E_TP_MISSING_ISCID 0 /\
  unmarshal Server false (enc_params [(TP_ID_iscid, [1])]) = Err E_TP_MISSING_ODCID 0.
Proof. repeat split; vm_compute; reflexivity. Qed.

Lemma reject_max_ack_delay_pow pers ticket ps body v rest :
  params_wf ps -> varint_body body v -> 2 ^ 14 <= v ->
  is_err (unmarshal pers ticket (enc_params ps ++ enc_param TP_ID_mad body ++ rest)) /\
  unmarshal pers ticket (enc_param TP_ID_mad body ++ rest) = Err E_TP_MAD 0.
Proof.
  intros Hps Hb Hv. apply (reject_max_ack_delay pers ticket ps body v rest Hps Hb).
  unfold TP_MaxMaxAckDelayMs. change (2 ^ 14) with 16384 in Hv. lia.
Qed.

Lemma reject_stream_count_pow pers ticket ps body v rest :
  params_wf ps -> varint_body body v -> 2 ^ 60 < v ->
  (is_err (unmarshal pers ticket (enc_params ps ++ enc_param TP_ID_mbs body ++ rest)) /\
   unmarshal pers ticket (enc_param TP_ID_mbs body ++ rest) = Err E_TP_STREAMS_BIDI 0) /\
  (is_err (unmarshal pers ticket (enc_params ps ++ enc_param TP_ID_mus body ++ rest)) /\
   unmarshal pers ticket (enc_param TP_ID_mus body ++ rest) = Err E_TP_STREAMS_UNI 0).
Proof.
  intros Hps Hb Hv. apply (reject_stream_count pers ticket ps body v rest Hps Hb).
  unfold TP_MaxStreamCount. change (2 ^ 60) with 1152921504606846976 in Hv. lia.
Qed.

Lemma ex_params :
  params_wf ex_ps_server /\
  (exists p, unmarshal Server false (enc_params ex_ps_server) = Ok p /\ tp_imd p = 786432) /\
  unmarshal Server false (enc_params (ex_ps_server ++ [(TP_ID_imd, vappend 5)])) = Err E_TP_DUP TP_ID_imd /\
  unmarshal Server false (enc_params ((27, []) :: ex_ps_server)) = Err E_TP_DUP 27 /\
  varint_body (vappend 21) 21 /\ varint_body [64; 21] 21.
Proof.
  split; [exact ex_ps_server_wf|]. split; [exact ex_ps_server_accepted|].
  destruct ex_duplicate_rejected as [A B]. destruct ex_varint_body as [C D]. auto.
Qed.
