(** Packet headers of internal/wire: header.go (ParseConnectionID, ParseArbitraryLenConnectionIDs,
    IsLongHeaderPacket, IsVersionNegotiationPacket, Is0RTTPacket, ParseVersion, parseHeader /
    parseLongHeader, ParsePacket, ParseExtended, readPacketNumber), extended_header.go
    (ExtendedHeader.parse / Append / GetLength, appendPacketNumber), short_header.go
    (ParseShortHeader / AppendShortHeader / ShortHeaderLen), version_negotiation.go
    (ParseVersionNegotiationPacket / ComposeVersionNegotiation) and
    protocol.GetGreasedVersions (position and reserved version are oracle inputs).

    Executable definitions only.  Bytes are [Z] in [0,256).  The bit tests of the Go code on a
    byte [x] are written arithmetically:  x&0x80 > 0  is  128 <= x;   x&0x40 == 0  is
    (x/64) mod 2 = 0;   x>>4&3  is  (x/16) mod 4;   x&3  is  x mod 4;   x&0xc  is  (x/4) mod 4;
    x&0x18  is  (x/8) mod 4;   x&4  is  (x/4) mod 2;   0xc0|t<<4|(n-1)  is  192+16t+(n-1) for
    t<4, n in 1..4;   r|0xc0  is  192 + r mod 64. *)
From Coq Require Import List ZArith Bool.
From V Require Import Gen.Params Lib.Hex Wire.Varint.
Import ListNotations.
Open Scope Z_scope.

(** Error classes (what harness/wire/headers.go derives from the Go error):
    0  nil
    1  io.EOF                              2  io.ErrUnexpectedEOF (truncated varint)
    3  "not a QUIC packet"                 4  protocol.ErrInvalidConnectionIDLen
    5  ErrUnsupportedVersion (the header is still returned)
    6  "not a long header packet" (ParsePacket)
    7  "packet length (..) is smaller than the expected length (..)" (ParsePacket)
    8  ErrInvalidReservedBits (the extended header / short header values are still returned)
    9  "not a short header packet"
    10 Version Negotiation packet has empty version list
    11 Version Negotiation packet has a version list with an invalid length
    12 Append: "invalid connection ID length" (unreachable: a protocol.ConnectionID has <= 20 bytes)
    13 "invalid packet number length"
    20 the Go code PANICS (AppendWithLen(Length, 2) with Length > 16383, slice bounds with a
       negative connection ID length, protocol.ParseConnectionID with > 20 bytes, parse of an
       empty slice); the callers' guarantees are listed in notes/C08-headers.md *)
Definition E_EOF := 1.
Definition E_UEOF := 2.
Definition E_NotQUIC := 3.
Definition E_CIDLen := 4.
Definition E_Unsupported := 5.
Definition E_NotLong := 6.
Definition E_TooShort := 7.
Definition E_Reserved := 8.
Definition E_NotShort := 9.
Definition E_VNEmpty := 10.
Definition E_VNLen := 11.
Definition E_AppCID := 12.
Definition E_PNLen := 13.
Definition E_Panic := 20.

Definition varint_err (e : perr) : Z := match e with EOF => E_EOF | UnexpectedEOF => E_UEOF end.

Definition zfirstn {A} (n : Z) (l : list A) : list A := firstn (Z.to_nat n) l.
Definition zskipn {A} (n : Z) (l : list A) : list A := skipn (Z.to_nat n) l.

(** wire.Header.  hType is protocol.PacketType (0 = not set), connection IDs and the token are
    their byte strings. *)
Record header := mkHeader {
  hTypeByte : Z; hType : Z; hVersion : Z; hSrc : list Z; hDst : list Z;
  hLength : Z; hToken : list Z; hParsedLen : Z }.

(** wire.ExtendedHeader (KeyPhase is never set by the long-header code) *)
Record exthdr := mkExt { eHdr : header; eTypeByte : Z; ePnLen : Z; ePn : Z; eParsedLen : Z }.

Definition set_parsed_len (h : header) (n : Z) : header :=
  mkHeader (hTypeByte h) (hType h) (hVersion h) (hSrc h) (hDst h) (hLength h) (hToken h) n.

(** ---- small predicates of header.go ---- *)
Definition is_long (fb : Z) : bool := 128 <=? fb.
Definition quic_bit (fb : Z) : bool := (fb / 64) mod 2 =? 1.
Definition type_bits (fb : Z) : Z := (fb / 16) mod 4.

Definition is_supported (v : Z) : bool := existsb (Z.eqb v) H_SupportedVersions.

(* ParseVersion: (class, version) *)
Definition parse_version (b : list Z) : Z * Z :=
  if zlen b <? 5 then (E_EOF, 0) else (0, unbe (firstn 4 (tl b)) 0).

Definition is_vneg (b : list Z) : bool :=
  if zlen b <? 5 then false
  else is_long (hd 0 b) && (unbe (firstn 4 (tl b)) 0 =? 0).

Definition is_0rtt (b : list Z) : bool :=
  if zlen b <? 5 then false
  else if negb (is_long (hd 0 b)) then false
  else let ver := unbe (firstn 4 (tl b)) 0 in
       if ver =? H_Version1 then type_bits (hd 0 b) =? 1
       else if ver =? H_Version2 then type_bits (hd 0 b) =? 2
       else false.

(** ---- ParseConnectionID ---- (class, connection ID) *)
Definition parse_connection_id (data : list Z) (shortLen : Z) : Z * list Z :=
  match data with
  | [] => (E_EOF, [])
  | fb :: r =>
    if negb (is_long fb) then
      if zlen data <? shortLen + 1 then (E_EOF, [])
      else if (shortLen <? 0) || (shortLen >? W_MaxConnIDLen) then (E_Panic, [])
      else (0, zfirstn shortLen r)
    else if zlen data <? 6 then (E_EOF, [])
    else let dl := nth 5 data 0 in
      if dl >? W_MaxConnIDLen then (E_CIDLen, [])
      else if zlen data <? 6 + dl then (E_EOF, [])
      else (0, zfirstn dl (skipn 6 data))
  end.

(** ---- ParseArbitraryLenConnectionIDs ---- (class, bytesParsed, dest, src) *)
Definition parse_arbitrary (data : list Z) : Z * Z * list Z * list Z :=
  if zlen data <? 6 then (E_EOF, 0, [], [])
  else
    let d1 := skipn 5 data in
    let dl := hd 0 d1 in
    let d2 := tl d1 in
    if zlen d2 <? dl + 1 then (E_EOF, 0, [], [])
    else
      let d3 := zskipn dl d2 in
      let sl := hd 0 d3 in
      let d4 := tl d3 in
      if zlen d4 <? sl then (E_EOF, 0, [], [])
      else (0, zlen data - zlen d4 + sl, zfirstn dl d2, zfirstn sl d4).

(** ---- parseLongHeader ---- *)
Definition long_type (ver fb : Z) : Z :=
  let k := type_bits fb in
  if ver =? H_Version2 then
    if k =? 0 then H_PacketTypeRetry else if k =? 1 then H_PacketTypeInitial
    else if k =? 2 then H_PacketType0RTT else H_PacketTypeHandshake
  else
    if k =? 0 then H_PacketTypeInitial else if k =? 1 then H_PacketType0RTT
    else if k =? 2 then H_PacketTypeHandshake else H_PacketTypeRetry.

(* the Length varint (after the token of an Initial): `return 0, err` on a truncated varint *)
Definition plh_length (tb startLen ver ty : Z) (src dst tok b4 : list Z) : header * Z * Z :=
  match vparse b4 with
  | inl e => (mkHeader tb ty ver src dst 0 tok 0, 0, varint_err e)
  | inr (pl, n, _) => (mkHeader tb ty ver src dst pl tok 0, startLen - zlen b4 + n, 0)
  end.

(* everything after the source connection ID; b3 is the remaining input *)
Definition plh_rest (tb startLen ver : Z) (src dst b3 : list Z) : header * Z * Z :=
  if ver =? 0 then (mkHeader tb 0 ver src dst 0 [] 0, startLen - zlen b3, 0)
  else if negb (is_supported ver) then (mkHeader tb 0 ver src dst 0 [] 0, startLen - zlen b3, E_Unsupported)
  else
    let ty := long_type ver tb in
    if ty =? H_PacketTypeRetry then
      let tl := zlen b3 - 16 in
      if tl <=? 0 then (mkHeader tb ty ver src dst 0 [] 0, startLen - zlen b3, E_EOF)
      else (mkHeader tb ty ver src dst 0 (zfirstn tl b3) 0, startLen - zlen b3 + tl + 16, 0)
    else if ty =? H_PacketTypeInitial then
      match vparse b3 with
      | inl e => (mkHeader tb ty ver src dst 0 [] 0, startLen - zlen b3, varint_err e)
      | inr (tl, n, b3') =>
        if tl >? zlen b3' then (mkHeader tb ty ver src dst 0 [] 0, startLen - zlen b3', E_EOF)
        else plh_length tb startLen ver ty src dst (zfirstn tl b3') (zskipn tl b3')
      end
    else plh_length tb startLen ver ty src dst [] b3.

(* (header as far as it was filled in, bytes read, class); b = the input after the first byte *)
Definition parse_long_header (tb : Z) (b : list Z) : header * Z * Z :=
  let startLen := zlen b in
  if zlen b <? 5 then (mkHeader tb 0 0 [] [] 0 [] 0, 0, E_EOF)
  else
    let ver := unbe (firstn 4 b) 0 in
    if negb (ver =? 0) && negb (quic_bit tb) then (mkHeader tb 0 ver [] [] 0 [] 0, 0, E_NotQUIC)
    else
      let dl := nth 4 b 0 in
      if dl >? W_MaxConnIDLen then (mkHeader tb 0 ver [] [] 0 [] 0, 0, E_CIDLen)
      else
        let b1 := skipn 5 b in
        if zlen b1 <? dl + 1 then (mkHeader tb 0 ver [] [] 0 [] 0, startLen - zlen b1, E_EOF)
        else
          let dst := zfirstn dl b1 in
          let sl := hd 0 (zskipn dl b1) in
          if sl >? W_MaxConnIDLen then (mkHeader tb 0 ver [] dst 0 [] 0, startLen - zlen b1, E_CIDLen)
          else
            let b2 := zskipn (dl + 1) b1 in
            if zlen b2 <? sl then (mkHeader tb 0 ver [] dst 0 [] 0, startLen - zlen b2, E_EOF)
            else plh_rest tb startLen ver (zfirstn sl b2) dst (zskipn sl b2).

(** parseHeader: None = (nil, io.EOF) on empty input; otherwise the header is returned together
    with the error class (parsedLen = bytes read + 1 even when an error is returned). *)
Definition parse_header (b : list Z) : option (header * Z) :=
  match b with
  | [] => None
  | tb :: r => let '(h, l, e) := parse_long_header tb r in Some (set_parsed_len h (l + 1), e)
  end.

(** ParsePacket: (class, header if one is returned, packet, rest) *)
Definition parse_packet (data : list Z) : Z * option header * list Z * list Z :=
  match data with
  | [] => (E_NotLong, None, [], [])
  | fb :: _ =>
    if negb (is_long fb) then (E_NotLong, None, [], [])
    else match parse_header data with
      | None => (E_EOF, None, [], [])
      | Some (h, e) =>
        if e =? E_Unsupported then (e, Some h, [], [])
        else if negb (e =? 0) then (e, None, [], [])
        else if zlen data <? hParsedLen h + hLength h then (E_TooShort, None, [], [])
        else let n := hParsedLen h + hLength h in (0, Some h, zfirstn n data, zskipn n data)
      end
  end.

(** ---- packet numbers ---- *)
(* readPacketNumber: data has at least pnLen bytes (checked by both callers) *)
Definition read_pn (data : list Z) (pnLen : Z) : option Z :=
  if (1 <=? pnLen) && (pnLen <=? 4) then Some (unbe (zfirstn pnLen data) 0) else None.

(* appendPacketNumber: uint8(pn) / uint16(pn) / uint32(pn)[1:] / uint32(pn) *)
Definition append_pn (pn pnLen : Z) : option (list Z) :=
  if pnLen =? 1 then Some (be 1 pn)
  else if pnLen =? 2 then Some (be 2 pn)
  else if pnLen =? 3 then Some (tl (be 4 pn))
  else if pnLen =? 4 then Some (be 4 pn)
  else None.

(** ---- Header.ParseExtended / ExtendedHeader.parse ----
    (class, extended header if one is returned).  data = [] panics in Go (data[0]); the only
    caller outside tests (unpackLongHeader) guarantees len(data) >= ParsedLen+20. *)
Definition parse_extended (h : header) (data : list Z) : Z * option exthdr :=
  match data with
  | [] => (E_Panic, None)
  | tb :: _ =>
    let pnLen := tb mod 4 + 1 in
    if zlen data <? hParsedLen h + pnLen then (E_EOF, None)
    else match read_pn (zskipn (hParsedLen h) data) pnLen with
      | None => (0, Some (mkExt h tb pnLen 0 0)) (* unreachable: pnLen in 1..4 *)
      | Some pn =>
        let e := mkExt h tb pnLen pn (hParsedLen h + pnLen) in
        if (tb / 4) mod 4 =? 0 then (0, Some e) else (E_Reserved, Some e)
      end
  end.

(** ---- ExtendedHeader.Append (version argument v) / GetLength ---- *)
Definition type_code (v ty : Z) : Z :=
  if v =? H_Version2 then
    if ty =? H_PacketTypeInitial then 1 else if ty =? H_PacketType0RTT then 2
    else if ty =? H_PacketTypeHandshake then 3 else 0
  else
    if ty =? H_PacketTypeInitial then 0 else if ty =? H_PacketType0RTT then 1
    else if ty =? H_PacketTypeHandshake then 2 else if ty =? H_PacketTypeRetry then 3 else 0.

(* first byte, version FIELD OF THE HEADER (not v), connection IDs *)
Definition long_prefix (e : exthdr) (v : Z) : list Z :=
  let h := eHdr e in
  let fb := 192 + 16 * type_code v (hType h) + (if hType h =? H_PacketTypeRetry then 0 else ePnLen e - 1) in
  fb :: be 4 (hVersion h) ++ [zlen (hDst h)] ++ hDst h ++ [zlen (hSrc h)] ++ hSrc h.

(* (class, bytes) *)
Definition append_ext (e : exthdr) (v : Z) : Z * list Z :=
  let h := eHdr e in
  if (zlen (hDst h) >? W_MaxConnIDLen) || (zlen (hSrc h) >? W_MaxConnIDLen) then (E_AppCID, [])
  else if hType h =? H_PacketTypeRetry then (0, long_prefix e v ++ hToken h)
  else
    let tok := if hType h =? H_PacketTypeInitial then vappend (zlen (hToken h)) ++ hToken h else [] in
    (* quicvarint.AppendWithLen(b, uint64(Length), 2) panics unless the value fits 2 bytes *)
    if (hLength h <? 0) || (hLength h >? maxVarInt2) then (E_Panic, [])
    else match append_pn (ePn e) (ePnLen e) with
      | None => (E_PNLen, [])
      | Some p => (0, long_prefix e v ++ tok ++ vappend_len (hLength h) 2 ++ p)
      end.

Definition get_length (e : exthdr) : Z :=
  let h := eHdr e in
  1 + 4 + 1 + zlen (hDst h) + 1 + zlen (hSrc h) + ePnLen e + 2
  + (if hType h =? H_PacketTypeInitial then vlen (zlen (hToken h)) + zlen (hToken h) else 0).

(** ---- short header ---- (class, (length, pn, pnLen, key phase)) *)
Definition parse_short (data : list Z) (cidLen : Z) : Z * (Z * Z * Z * Z) :=
  match data with
  | [] => (E_EOF, (0, 0, 0, 0))
  | fb :: _ =>
    if is_long fb then (E_NotShort, (0, 0, 0, 0))
    else if negb (quic_bit fb) then (E_NotQUIC, (0, 0, 0, 0))
    else
      let pnLen := fb mod 4 + 1 in
      if zlen data <? 1 + pnLen + cidLen then (E_EOF, (0, 0, 0, 0))
      else if 1 + cidLen <? 0 then (E_Panic, (0, 0, 0, 0)) (* data[pos:] with pos < 0 *)
      else match read_pn (zskipn (1 + cidLen) data) pnLen with
        | None => (E_PNLen, (0, 0, 0, 0)) (* unreachable *)
        | Some pn =>
          let kp := if (fb / 4) mod 2 =? 1 then H_KeyPhaseOne else H_KeyPhaseZero in
          ((if (fb / 8) mod 4 =? 0 then 0 else E_Reserved), (1 + cidLen + pnLen, pn, pnLen, kp))
        end
  end.

Definition append_short (cid : list Z) (pn pnLen kp : Z) : Z * list Z :=
  match append_pn pn pnLen with
  | None => (E_PNLen, [])
  | Some p => (0, (64 + (pnLen - 1) + (if kp =? H_KeyPhaseOne then 4 else 0)) :: cid ++ p)
  end.

Definition short_header_len (cid : list Z) (pnLen : Z) : Z := 1 + zlen cid + pnLen.

(** ---- Version Negotiation ---- *)
Fixpoint versions_of (b : list Z) : list Z :=
  match b with
  | a :: b' :: c :: d :: r => unbe [a; b'; c; d] 0 :: versions_of r
  | _ => []
  end.

(* (class, dest, src, versions) *)
Definition parse_vneg (b : list Z) : Z * list Z * list Z * list Z :=
  let '(e, n, dst, src) := parse_arbitrary b in
  if negb (e =? 0) then (e, [], [], [])
  else
    let r := zskipn n b in
    if zlen r =? 0 then (E_VNEmpty, [], [], [])
    else if negb (zlen r mod 4 =? 0) then (E_VNLen, [], [], [])
    else (0, dst, src, versions_of r).

(* protocol.GetGreasedVersions: the position and the reserved version are random (oracles) *)
Definition greased (pos rv : Z) (versions : list Z) : list Z :=
  zfirstn pos versions ++ rv :: zskipn pos versions.

(* rnd: the byte crypto/rand delivered; gv: the greased version list *)
Definition compose_vneg (rnd : Z) (dst src : list Z) (gv : list Z) : list Z :=
  (192 + rnd mod 64) :: [0; 0; 0; 0] ++ [zlen dst mod 256] ++ dst ++ [zlen src mod 256] ++ src
  ++ flat_map (be 4) gv.
