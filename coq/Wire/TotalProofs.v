(** "Total": every model parser is a Gallina function, hence defined on every input.  What is
    worth proving is that the FUEL of the three loops is always sufficient, i.e. the artificial
    out-of-fuel outcomes (class 98 of the frame parser, E_TP_FUEL of transport parameters) are
    unreachable: the models never answer with something the code cannot answer. *)
From Coq Require Import List ZArith Bool Lia.
From V Require Import Gen.Params Lib.Hex Wire.Varint Wire.VarintProofs Wire.FramesBase Wire.FramesBaseProofs
  Wire.FramesCtl Wire.FramesStream Wire.FramesAck Wire.Frames Wire.FramesConsumedProofs Wire.TParams Wire.TParamsProofs.
Import ListNotations.
Open Scope Z_scope.

Lemma vparse_len b v n r : vparse b = inr (v, n, r) -> (length r < length b)%nat.
Proof. intros H. pose proof (vparse_rest_len _ _ _ _ H) as (L & Hn). unfold zlen in L. lia. Qed.

(** ---- frames ---- *)

Lemma bindv_err {A} b (k : Z -> list Z -> res A) e n :
  bindv b k = Err e n -> e = E_EOF \/ exists v r, (length r < length b)%nat /\ k v r = Err e n.
Proof.
  unfold bindv. destruct (vparse b) as [x|[[v l] r]] eqn:E; intros H.
  - inversion H. auto.
  - right. exists v, r. split; [eapply vparse_len; exact E | exact H].
Qed.

Lemma take_err {A} m b (k : list Z -> list Z -> res A) e n :
  take m b k = Err e n -> e = E_EOF \/ exists d r, k d r = Err e n.
Proof. unfold take. destruct (zlen b <? m); intros H; [inversion H; auto | eauto]. Qed.

(* decompose an error of a parser built from bindv / bindv_if / take / if *)
Ltac err98 :=
  repeat match goal with
         | H : bindv _ _ = Err _ _ |- _ =>
           apply bindv_err in H; destruct H as [H | (? & ? & _ & H)]; [unfold E_EOF in H; lia|]; cbv beta in H
         | H : bindv_if ?c _ _ = Err _ _ |- _ => destruct c; cbn [bindv_if] in H
         | H : take _ _ _ = Err _ _ |- _ =>
           apply take_err in H; destruct H as [H | (? & ? & H)]; [unfold E_EOF in H; lia|]; cbv beta in H
         | H : (if ?c then _ else _) = Err _ _ |- _ => destruct c
         | H : match ?l with [] => _ | _ :: _ => _ end = Err _ _ |- _ => destruct l
         | H : Err _ _ = Err _ _ |- _ => inversion H; subst; clear H; try (unfold E_EOF; lia)
         | H : Ok _ = Err _ _ |- _ => discriminate
         end.

Lemma ack_loop_no_fuel fuel : forall n s b e m,
  (length b < fuel)%nat -> ack_loop fuel n s b = Err e m -> e <> 98.
Proof.
  induction fuel as [|fuel IH]; intros n s b e m Hf H; [lia|]. cbn [ack_loop] in H.
  destruct (n <=? 0); [discriminate|].
  apply bindv_err in H. destruct H as [H | (gap & b1 & L1 & H)]; [unfold E_EOF in H; lia|]. cbv beta in H.
  destruct (s <? gap + 2); [inversion H; lia|].
  apply bindv_err in H. destruct H as [H | (ab & b2 & L2 & H)]; [unfold E_EOF in H; lia|]. cbv beta in H.
  destruct (s - gap - 2 <? ab); [inversion H; lia|].
  destruct (ack_loop fuel (n - 1) (s - gap - 2 - ab) b2) as [[rs b']|e' m'] eqn:E; [discriminate|].
  inversion H; subst. eapply IH; [|exact E]. lia.
Qed.

Lemma parse_body_no_fuel c lvl t b e n : parse_body c lvl t b = Err e n -> e <> 98.
Proof.
  unfold parse_body. intros H.
  destruct (is_stream_type t).
  { unfold parse_stream, stream_tail in H. err98. }
  destruct (is_ack_type t).
  { unfold parse_ack in H.
    apply bindv_err in H. destruct H as [H | (la & b1 & _ & H)]; [unfold E_EOF in H; lia|]. cbv beta in H.
    apply bindv_err in H. destruct H as [H | (dl & b2 & _ & H)]; [unfold E_EOF in H; lia|]. cbv beta in H.
    apply bindv_err in H. destruct H as [H | (nb & b3 & _ & H)]; [unfold E_EOF in H; lia|]. cbv beta in H.
    apply bindv_err in H. destruct H as [H | (ab & b4 & _ & H)]; [unfold E_EOF in H; lia|]. cbv beta in H.
    destruct (la <? ab); [inversion H; lia|].
    destruct (ack_loop (S (length b4)) nb (la - ab) b4) as [[rs b']|e' m'] eqn:E.
    - err98.
    - inversion H; subst. eapply ack_loop_no_fuel; [|exact E]. lia. }
  destruct (is_datagram_type t).
  { unfold parse_datagram in H. err98. }
  unfold parse_less_common in H.
  repeat match type of H with (if ?c then _ else _) = _ => destruct c end;
    try discriminate;
    unfold parse_reset_stream, parse_stop_sending, parse_crypto, parse_new_token, parse_max_data, parse_max_stream_data,
      parse_max_streams, parse_data_blocked, parse_stream_data_blocked, parse_streams_blocked, parse_new_cid, parse_retire_cid,
      parse_path_challenge, parse_path_response, parse_conn_close, parse_ack_frequency in H;
    err98.
Qed.

Lemma parse_type_no_fuel fuel : forall c lvl b p e n,
  (length b <= fuel)%nat -> parse_type fuel c lvl b p = Err e n -> e <> 98.
Proof.
  induction fuel as [|fuel IH]; intros c lvl b p e n Hf H.
  - destruct b; [inversion H; lia | cbn in Hf; lia].
  - destruct b as [|x b0]; [inversion H; lia|]. cbn [parse_type] in H.
    destruct (vparse (x :: b0)) as [er|[[v l] r]] eqn:E; [inversion H; lia|].
    apply vparse_len in E. cbn [length] in *.
    destruct (v =? 0); [eapply IH; [|exact H]; lia|].
    destruct (negb (type_valid c v)); [inversion H; lia|].
    destruct (negb (type_allowed lvl v)); [inversion H; lia | discriminate].
Qed.

(** the frame parser never runs out of fuel: on every input it answers with a frame or with one
    of the error classes the implementation has *)
Theorem parse_next_no_fuel c lvl b e n : parse_next c lvl b = Err e n -> e <> 98.
Proof.
  unfold parse_next. intros H.
  destruct (parse_type (length b) c lvl b 0) as [[[t m] r]|e' n'] eqn:Et.
  - destruct (parse_body c lvl t r) as [[f rest]|e' n'] eqn:Eb; [discriminate|].
    inversion H; subst. eapply parse_body_no_fuel; exact Eb.
  - inversion H; subst. eapply parse_type_no_fuel; [|exact Et]. lia.
Qed.

(** ---- transport parameters ---- *)

Lemma read_numeric_no_fuel b id plen p c a : read_numeric b id plen p = Err c a -> c <> E_TP_FUEL.
Proof.
  unfold read_numeric. destruct (vparse b) as [e|[[val l] r]]; [destruct e; intros H; inversion H; discriminate|].
  intros H.
  repeat match type of H with (if ?x then _ else _) = _ => destruct x end;
    inversion H; subst; discriminate.
Qed.

Lemma tp_step_no_fuel pers id plen b s c a : tp_step pers id plen b s = Err c a -> c <> E_TP_FUEL.
Proof.
  unfold tp_step. intros H.
  destruct (is_numeric id).
  { destruct (read_numeric b id plen (st_p s)) eqn:E; [discriminate|]. inversion H; subst. eapply read_numeric_no_fuel; exact E. }
  unfold read_pa in H.
  repeat match type of H with
         | (if ?x then _ else _) = _ => destruct x
         | match (if ?x then _ else _) with _ => _ end = _ => destruct x
         end; try discriminate; inversion H; subst; discriminate.
Qed.

Lemma tp_loop_no_fuel fuel : forall pers s b c a,
  (length b <= fuel)%nat -> tp_loop fuel pers s b = Err c a -> c <> E_TP_FUEL.
Proof.
  induction fuel as [|fuel IH]; intros pers s b c a Hf H.
  - destruct b; [discriminate | cbn in Hf; lia].
  - destruct b as [|x t]; [discriminate|]. cbn [tp_loop] in H.
    destruct (vparse (x :: t)) as [e|[[id n1] b1]] eqn:E1; [destruct e; inversion H; discriminate|].
    destruct (vparse b1) as [e|[[plen n2] b2]] eqn:E2; [destruct e; inversion H; discriminate|].
    destruct (zlen b2 <? plen); [inversion H; discriminate|].
    destruct (tp_step pers id plen b2 (add_id id s)) as [s'|c' a'] eqn:Es.
    + apply vparse_shorter in E1. apply vparse_shorter in E2.
      assert (length (skipn (Z.to_nat plen) b2) <= length b2)%nat by (rewrite skipn_length; lia).
      cbn [length] in *. eapply IH; [|exact H]. lia.
    + inversion H; subst. eapply tp_step_no_fuel; exact Es.
Qed.

Theorem unmarshal_no_fuel pers ticket b c a : unmarshal pers ticket b = Err c a -> c <> E_TP_FUEL.
Proof.
  unfold unmarshal. destruct (tp_loop (length b) pers st_init b) as [s|c' a'] eqn:E; intros H.
  - unfold tp_finish, dup_check in H.
    repeat match type of H with
           | (if ?x then _ else _) = _ => destruct x
           | match ?x with Some _ => _ | None => _ end = _ => destruct x
           end; try discriminate; inversion H; subst; discriminate.
  - inversion H; subst. eapply tp_loop_no_fuel; [|exact E]. lia.
Qed.
