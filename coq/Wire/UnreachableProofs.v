(** The model error classes that stand for "the Go code would have a bug / panic here" are not
    reachable from the parsers on the inputs the callers can supply:
    E_TP_BUG (default arm of the numeric transport-parameter reader), E_PNLen (readPacketNumber's default arm),
    E_Panic (slice expression / index out of range). *)
From Coq Require Import List ZArith Bool Lia.
From V Require Import Gen.Params Lib.Hex Wire.Varint Wire.VarintProofs Wire.FramesBase Wire.TParams Wire.TParamsProofs
  Wire.Headers Wire.HeadersProofs.
Import ListNotations.
Open Scope Z_scope.
Local Ltac Zify.zify_post_hook ::= Z.div_mod_to_equations.

(** ---- transport parameters: the "BUG: transport parameter not found" arm ---- *)

Lemma read_numeric_no_bug b id plen p c a :
  is_numeric id = true -> read_numeric b id plen p = Err c a -> c <> E_TP_BUG.
Proof.
  intros Hn. unfold read_numeric.
  destruct (vparse b) as [e|[[val l] r]]; [destruct e; intros H; inversion H; discriminate|].
  intros H. unfold is_numeric in Hn.
  destruct (negb (l =? plen)); [inversion H; discriminate|].
  repeat match type of H with
         | (if ?id =? ?k then _ else _) = _ =>
           let E := fresh "E" in destruct (id =? k) eqn:E
         | (if ?x then _ else _) = _ => destruct x
         end; try (inversion H; subst; discriminate).
  (* the last arm needs every id test to be false, which contradicts [is_numeric id = true] (closed above) *)
Qed.

Lemma tp_step_no_bug pers id plen b s c a : tp_step pers id plen b s = Err c a -> c <> E_TP_BUG.
Proof.
  unfold tp_step. intros H.
  destruct (is_numeric id) eqn:En.
  { destruct (read_numeric b id plen (st_p s)) eqn:E; [discriminate|]. inversion H; subst.
    eapply read_numeric_no_bug; eassumption. }
  unfold read_pa in H.
  repeat match type of H with
         | (if ?x then _ else _) = _ => destruct x
         | match (if ?x then _ else _) with _ => _ end = _ => destruct x
         end; try discriminate; inversion H; subst; discriminate.
Qed.

Lemma tp_loop_no_bug fuel : forall pers s b c a, tp_loop fuel pers s b = Err c a -> c <> E_TP_BUG.
Proof.
  induction fuel as [|fuel IH]; intros pers s b c a H.
  - destruct b; [discriminate | inversion H; discriminate].
  - destruct b as [|x t]; [discriminate|]. cbn [tp_loop] in H.
    destruct (vparse (x :: t)) as [e|[[id n1] b1]]; [destruct e; inversion H; discriminate|].
    destruct (vparse b1) as [e|[[plen n2] b2]]; [destruct e; inversion H; discriminate|].
    destruct (zlen b2 <? plen); [inversion H; discriminate|].
    destruct (tp_step pers id plen b2 (add_id id s)) as [s'|c' a'] eqn:Es.
    + eapply IH; exact H.
    + inversion H; subst. eapply tp_step_no_bug; exact Es.
Qed.

Theorem unmarshal_no_bug pers ticket b c a : unmarshal pers ticket b = Err c a -> c <> E_TP_BUG.
Proof.
  unfold unmarshal. destruct (tp_loop (length b) pers st_init b) as [s|c' a'] eqn:E; intros H.
  - unfold tp_finish, dup_check in H.
    repeat match type of H with
           | (if ?x then _ else _) = _ => destruct x
           | match ?x with Some _ => _ | None => _ end = _ => destruct x
           end; try discriminate; inversion H; subst; discriminate.
  - inversion H; subst. eapply tp_loop_no_bug; exact E.
Qed.

(** ---- headers ---- *)

Lemma read_pn_some data fb : exists pn, read_pn data (fb mod 4 + 1) = Some pn.
Proof.
  unfold read_pn. pose proof (Z.mod_pos_bound fb 4 ltac:(lia)).
  destruct (Z.leb_spec 1 (fb mod 4 + 1)); [|lia]. destruct (Z.leb_spec (fb mod 4 + 1) 4); [|lia]. cbn. eauto.
Qed.

(** ParseShortHeader with the configured connection ID length (never negative): no panic, and
    readPacketNumber's default arm is never taken, on every input *)
Theorem parse_short_no_panic data k : 0 <= k ->
  fst (parse_short data k) <> E_Panic /\ fst (parse_short data k) <> E_PNLen.
Proof.
  intros Hk. unfold parse_short. destruct data as [|fb r]; [cbn; split; discriminate|].
  destruct (is_long fb); [cbn; split; discriminate|]. destruct (negb (quic_bit fb)); [cbn; split; discriminate|].
  cbv zeta. destruct (zlen (fb :: r) <? 1 + (fb mod 4 + 1) + k); [cbn; split; discriminate|].
  destruct (Z.ltb_spec (1 + k) 0); [lia|].
  destruct (read_pn_some (zskipn (1 + k) (fb :: r)) fb) as (pn & ->).
  cbn [fst]. destruct ((fb / 8) mod 4 =? 0); split; discriminate.
Qed.

(** Header.ParseExtended on non-empty data (its only caller checks the length first): no panic, and never E_PNLen *)
Theorem parse_extended_no_panic h data : data <> [] ->
  fst (parse_extended h data) <> E_Panic /\ fst (parse_extended h data) <> E_PNLen.
Proof.
  intros Hd. unfold parse_extended. destruct data as [|tb r]; [contradiction|]. cbv zeta.
  destruct (zlen (tb :: r) <? hParsedLen h + (tb mod 4 + 1)); [cbn; split; discriminate|].
  destruct (read_pn_some (zskipn (hParsedLen h) (tb :: r)) tb) as (pn & ->).
  destruct ((tb / 4) mod 4 =? 0); cbn; split; discriminate.
Qed.

(** ParseConnectionID with a configured short-header connection ID length in 0..20: no panic *)
Theorem parse_connection_id_no_panic data k : 0 <= k <= W_MaxConnIDLen ->
  fst (parse_connection_id data k) <> E_Panic /\ fst (parse_connection_id data k) <> E_PNLen.
Proof.
  intros Hk. unfold parse_connection_id. destruct data as [|fb r]; [cbn; split; discriminate|].
  destruct (negb (is_long fb)).
  - destruct (zlen (fb :: r) <? k + 1); [cbn; split; discriminate|].
    replace ((k <? 0) || (k >? W_MaxConnIDLen)) with false by lia. cbn; split; discriminate.
  - destruct (zlen (fb :: r) <? 6); [cbn; split; discriminate|]. cbv zeta.
    destruct (nth 5 (fb :: r) 0 >? W_MaxConnIDLen); [cbn; split; discriminate|].
    destruct (zlen (fb :: r) <? 6 + nth 5 (fb :: r) 0); cbn; split; discriminate.
Qed.

(** parseHeader / ParsePacket / the Version Negotiation parser never answer with the panic classes, on any input *)
Lemma plh_length_classes tb start ver ty src dst tok b4 h l e :
  plh_length tb start ver ty src dst tok b4 = (h, l, e) -> e <> E_Panic /\ e <> E_PNLen.
Proof.
  unfold plh_length. destruct (vparse b4) as [er|[[pl n] r]]; intros H; inversion H; subst;
    [destruct er|]; split; discriminate.
Qed.

Lemma plh_rest_classes tb start ver src dst b3 h l e :
  plh_rest tb start ver src dst b3 = (h, l, e) -> e <> E_Panic /\ e <> E_PNLen.
Proof.
  unfold plh_rest. intros H.
  repeat match type of H with
         | (if ?c then _ else _) = _ => destruct c
         | match vparse ?x with _ => _ end = _ => destruct (vparse x) as [er|[[? ?] ?]]; [destruct er|]
         | plh_length _ _ _ _ _ _ _ _ = _ => apply plh_length_classes in H; exact H
         end; inversion H; subst; split; discriminate.
Qed.

Theorem parse_header_no_panic b h e : parse_header b = Some (h, e) -> e <> E_Panic /\ e <> E_PNLen.
Proof.
  destruct b as [|tb r]; [discriminate|]. cbn [parse_header].
  destruct (parse_long_header tb r) as [[h' l] e'] eqn:E. intros X. inversion X; subst. clear X.
  unfold parse_long_header in E. cbv zeta in E.
  repeat match type of E with
         | (if ?c then _ else _) = _ => destruct c
         | plh_rest _ _ _ _ _ _ = _ => apply plh_rest_classes in E; exact E
         end; inversion E; subst; split; discriminate.
Qed.

Theorem parse_packet_no_panic data c h pkt rest : parse_packet data = (c, h, pkt, rest) -> c <> E_Panic /\ c <> E_PNLen.
Proof.
  unfold parse_packet. destruct data as [|fb r]; [intros H; inversion H; split; discriminate|].
  destruct (negb (is_long fb)); [intros H; inversion H; split; discriminate|].
  destruct (parse_header (fb :: r)) as [[h' e]|] eqn:E; [|intros H; inversion H; split; discriminate].
  pose proof (parse_header_no_panic _ _ _ E) as (P1 & P2).
  destruct (e =? E_Unsupported); [intros H; inversion H; subst; auto|].
  destruct (negb (e =? 0)); [intros H; inversion H; subst; auto|].
  destruct (zlen (fb :: r) <? hParsedLen h' + hLength h'); intros H; inversion H; split; discriminate.
Qed.
