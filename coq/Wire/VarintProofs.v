From Coq Require Import List ZArith Bool Lia.
From V Require Import Gen.Params Wire.Varint.
Import ListNotations.
Open Scope Z_scope.
Local Ltac Zify.zify_post_hook ::= Z.div_mod_to_equations.

Definition vwf (v : Z) : Prop := 0 <= v <= maxVarInt8.
Definition is_byte (b : Z) : Prop := 0 <= b < 256.

Lemma vlen_cases v : vwf v -> vlen v = 1 \/ vlen v = 2 \/ vlen v = 4 \/ vlen v = 8.
Proof.
  unfold vwf, vlen. intros H.
  destruct (v <=? maxVarInt1); auto. destruct (v <=? maxVarInt2); auto.
  destruct (v <=? maxVarInt4); auto. destruct (v <=? maxVarInt8) eqn:E; auto.
  apply Z.leb_gt in E. lia.
Qed.

Lemma vappend_length v : vwf v -> Z.of_nat (length (vappend v)) = vlen v.
Proof.
  unfold vwf, vappend, vlen. intros H.
  destruct (v <=? maxVarInt1); [reflexivity|]. destruct (v <=? maxVarInt2); [reflexivity|].
  destruct (v <=? maxVarInt4); [reflexivity|]. destruct (v <=? maxVarInt8) eqn:E; [reflexivity|].
  apply Z.leb_gt in E. lia.
Qed.

Theorem vparse_vappend v rest :
  vwf v -> vparse (vappend v ++ rest) = inr (v, vlen v, rest).
Proof.
  unfold vwf, vappend, vlen, maxVarInt1, maxVarInt2, maxVarInt4, maxVarInt8. intros H.
  destruct (Z.leb_spec v 63).
  { cbn [app vparse]. replace (v / 64) with 0 by lia. cbn. repeat f_equal. lia. }
  destruct (Z.leb_spec v 16383).
  { cbn [be setTop app vparse]. replace ((v / 256 mod 256 + 64) / 64) with 1 by lia.
    cbn. repeat f_equal. lia. }
  destruct (Z.leb_spec v 1073741823).
  { cbn [be setTop app vparse]. replace ((v / 256 / 256 / 256 mod 256 + 128) / 64) with 2 by lia.
    cbn. repeat f_equal. lia. }
  destruct (Z.leb_spec v 4611686018427387903); [|lia].
  cbn [be setTop app vparse].
  replace ((v / 256 / 256 / 256 / 256 / 256 / 256 / 256 mod 256 + 192) / 64) with 3 by lia.
  cbn. repeat f_equal. lia.
Qed.

Lemma vappend_bytes v : vwf v -> Forall is_byte (vappend v).
Proof.
  unfold vwf, vappend, is_byte, maxVarInt1, maxVarInt2, maxVarInt4, maxVarInt8. intros H.
  destruct (Z.leb_spec v 63). { repeat constructor; lia. }
  destruct (Z.leb_spec v 16383). { cbn. repeat constructor; lia. }
  destruct (Z.leb_spec v 1073741823). { cbn. repeat constructor; lia. }
  destruct (Z.leb_spec v 4611686018427387903); [|lia]. cbn. repeat constructor; lia.
Qed.
