(** Transport parameters, claim (c): whatever [unmarshal] accepts from a byte string is a
    well-formed value, Marshal can encode it, and the encoding is accepted again with the same
    value (parse -> Marshal -> parse is a fixpoint; the only normalisation left is a saturated
    max_idle_timeout, which is cut to whole milliseconds).  Holds for the repaired code
    (saturating durations, max_idle_timeout 0 = none). *)
From Coq Require Import List ZArith Bool Lia.
From V Require Import Gen.Params Lib.Hex Wire.Varint Wire.VarintProofs Wire.FramesBase Wire.FramesBaseProofs
  Wire.FramesConsumedProofs Wire.FramesReencodeProofs Wire.TParams Wire.TParamsProofs Wire.TParamsRoundtrip.
Import ListNotations.
Open Scope Z_scope.
Local Ltac Zify.zify_post_hook ::= Z.div_mod_to_equations.

(** what holds for the struct at every point of the loop (input made of bytes) *)
Definition whole (unit d : Z) : Prop := d mod unit = 0 \/ d = maxInt64.

Definition pa_ok (pa : paddr) : Prop := pa_wf pa /\ norm_pa pa = pa.

Definition inv (pers : perspective) (p : tparams) : Prop :=
  vwf (tp_imsd_bl p) /\ vwf (tp_imsd_br p) /\ vwf (tp_imsd_uni p) /\ vwf (tp_imd p) /\
  0 <= tp_mbs p <= TP_MaxStreamCount /\ 0 <= tp_mus p <= TP_MaxStreamCount /\
  (tp_mit p = 0 \/ (TP_MinRemoteIdleTimeout <= tp_mit p <= maxInt64 /\ whole TP_Millisecond (tp_mit p))) /\
  (tp_mups p = 0 \/ 1200 <= tp_mups p <= maxVarInt8) /\
  (0 <= tp_mad p /\ tp_mad p / TP_Millisecond <= TP_MaxMaxAckDelayMs /\ tp_mad p mod TP_Millisecond = 0) /\
  0 <= tp_ade p <= TP_MaxAckDelayExponent /\
  2 <= tp_acil p <= maxVarInt8 /\
  (tp_mdfs p = TP_InvalidByteCount \/ vwf (tp_mdfs p)) /\
  opt_wf (fun m => 0 <= m <= maxInt64 /\ whole TP_Microsecond m) (tp_minad p) /\
  cid_wf (tp_odcid p) /\ cid_wf (tp_iscid p) /\ opt_wf cid_wf (tp_rscid p) /\
  opt_wf (fun t => length t = 16%nat) (tp_srt p) /\ opt_wf pa_ok (tp_pa p) /\
  tp_override p = None /\
  (pers = Client -> tp_pa p = None /\ tp_odcid p = [] /\ tp_rscid p = None /\ tp_srt p = None) /\
  (* AdvertisedMaxIdleTimeout: what the peer sent (saturated); MaxIdleTimeout is derived from it *)
  ((tp_amit p = 0 /\ tp_mit p = 0) \/
   (0 < tp_amit p <= maxInt64 /\ whole TP_Millisecond (tp_amit p) /\ tp_mit p = Z.max TP_MinRemoteIdleTimeout (tp_amit p))).

Lemma inv_init pers : inv pers tp_init.
Proof.
  unfold inv, tp_init. cbn. unfold vwf, cid_wf, whole. cbn.
  repeat split; try (vm_compute; discriminate); auto; try (left; reflexivity); try (right; reflexivity).
Qed.

Lemma sat_duration_range v u : 0 < u -> 0 <= v -> 0 <= sat_duration v u <= maxInt64 /\ whole u (sat_duration v u).
Proof.
  intros Hu Hv. unfold sat_duration, whole.
  destruct (Z.ltb_spec (maxInt64 / u) v) as [L|L].
  - unfold maxInt64. split; [lia | right; reflexivity].
  - assert (v * u <= maxInt64).
    { pose proof (Z.mul_div_le maxInt64 u Hu). nia. }
    split; [nia|]. left. apply Z.mod_mul. lia.
Qed.

Lemma zlen_firstn_nat {A} (n : nat) (l : list A) : (n <= length l)%nat -> length (firstn n l) = n.
Proof. intros H. rewrite firstn_length. lia. Qed.

Lemma zlen_firstn_z_le {A} n (l : list A) : 0 <= n -> zlen (firstn (Z.to_nat n) l) <= n.
Proof. intros H. unfold zlen. pose proof (firstn_le_length (Z.to_nat n) l). lia. Qed.

Lemma addr_of_normal ip port : norm_addr (addr_of ip port) = addr_of ip port.
Proof.
  unfold addr_of. destruct (negb (port =? 0) && negb (all_zero ip)) eqn:E; [|reflexivity].
  cbn [norm_addr]. unfold addr_of. rewrite E. reflexivity.
Qed.

Lemma unbe2_range b : bytes b -> 0 <= unbe (firstn 2 b) 0 < 65536.
Proof.
  intros Hb. pose proof (unbe_bound (firstn 2 b) 0 (bytes_firstn 2 b Hb) ltac:(lia)) as B.
  assert (zlen (firstn 2 b) <= 2) by (unfold zlen; pose proof (firstn_le_length 2 b); lia).
  assert (0 <= zlen (firstn 2 b)) by apply zlen_nonneg.
  assert (256 ^ zlen (firstn 2 b) <= 256 ^ 2) by (apply Z.pow_le_mono_r; lia).
  change (256 ^ 2) with 65536 in *. lia.
Qed.

Lemma addr_of_wf n ip port : length ip = n -> 0 <= port < 65536 -> addr_wf n (addr_of ip port).
Proof. intros Hl Hp. unfold addr_of. destruct (_ && _); cbn [addr_wf]; auto. Qed.

Local Opaque firstn skipn.

Lemma read_pa_ok b plen pa : bytes b -> read_pa b plen = Ok pa -> pa_ok pa.
Proof.
  intros Hb. unfold read_pa.
  destruct (Z.ltb_spec (zlen b) (4 + 2 + 16 + 2 + 1)) as [L|L]; [discriminate|].
  set (b1 := skipn 6 b). set (b2 := skipn 18 b1). set (cl := nth 0 b2 0). set (b3 := skipn 1 b2).
  destruct ((cl =? 0) || (TP_MaxConnIDLen <? cl)) eqn:Ec; [discriminate|].
  destruct (Z.ltb_spec (zlen b3) (cl + 16)) as [L3|L3]; [discriminate|].
  destruct (negb _); [discriminate|]. intros H. inversion H; subst pa. clear H.
  apply orb_false_iff in Ec. destruct Ec as (Ec0 & Ec1). apply Z.eqb_neq in Ec0. apply Z.ltb_ge in Ec1.
  assert (Bb1 : bytes b1) by (eapply bytes_suffix; [apply suffix_skipn | exact Hb]).
  assert (Bb2 : bytes b2) by (eapply bytes_suffix; [apply suffix_skipn | exact Bb1]).
  assert (Lb : (25 <= length b)%nat) by (unfold zlen in L; lia).
  assert (Lb1 : (19 <= length b1)%nat) by (unfold b1; rewrite skipn_length; lia).
  assert (Lb2 : (1 <= length b2)%nat) by (unfold b2; rewrite skipn_length; lia).
  assert (Hcl : 0 <= cl).
  { unfold cl. destruct b2 as [|x r]; [cbn in Lb2; lia|]. cbn [nth]. inversion Bb2 as [|? ? Hx _]; subst. unfold is_byte in Hx. lia. }
  split.
  - unfold pa_wf. cbn [pa_v4 pa_v6 pa_cid pa_srt].
    split; [apply addr_of_wf; [apply zlen_firstn_nat; lia | apply unbe2_range; eapply bytes_suffix; [apply suffix_skipn | exact Hb]]|].
    split; [apply addr_of_wf; [apply zlen_firstn_nat; lia | apply unbe2_range; eapply bytes_suffix; [apply suffix_skipn | exact Bb1]]|].
    split.
    + assert (zlen (firstn (Z.to_nat cl) b3) = cl) by (unfold zlen in *; rewrite firstn_length; lia). lia.
    + apply zlen_firstn_nat. rewrite skipn_length. unfold zlen in L3. lia.
  - unfold norm_pa. cbn [pa_v4 pa_v6 pa_cid pa_srt]. rewrite !addr_of_normal. reflexivity.
Qed.

Ltac splits := repeat match goal with |- _ /\ _ => split end.

Ltac b2z :=
  repeat match goal with
         | H : (_ <? _) = false |- _ => apply Z.ltb_ge in H
         | H : (_ <? _) = true |- _ => apply Z.ltb_lt in H
         | H : (_ =? _) = false |- _ => apply Z.eqb_neq in H
         | H : (_ =? _) = true |- _ => apply Z.eqb_eq in H
         | H : negb _ = false |- _ => apply negb_false_iff in H
         | H : negb _ = true |- _ => apply negb_true_iff in H
         end.

Lemma mit_value_ok v : 0 <= v -> v <> 0 ->
  TP_MinRemoteIdleTimeout <= Z.max TP_MinRemoteIdleTimeout (sat_duration v TP_Millisecond) <= maxInt64 /\
  whole TP_Millisecond (Z.max TP_MinRemoteIdleTimeout (sat_duration v TP_Millisecond)).
Proof.
  intros Hv Hn. destruct (sat_duration_range v TP_Millisecond ltac:(reflexivity) Hv) as (R & W).
  assert (TP_MinRemoteIdleTimeout <= maxInt64) by (vm_compute; discriminate).
  split; [lia|].
  destruct (Z.max_spec TP_MinRemoteIdleTimeout (sat_duration v TP_Millisecond)) as [(_ & ->)|(_ & ->)];
    [exact W | left; reflexivity].
Qed.

Ltac fin H :=
    inversion H; subst; unfold inv;
    cbn [tp_imsd_bl tp_imsd_br tp_imsd_uni tp_imd tp_mad tp_ade tp_dam tp_mups tp_mus tp_mbs tp_mit tp_pa tp_odcid
         tp_iscid tp_rscid tp_srt tp_acil tp_mdfs tp_rsa tp_minad tp_override tp_amit
         set_imsd_bl set_imsd_br set_imsd_uni set_imd set_mad set_ade set_mups set_mus set_mbs set_mit set_acil set_mdfs set_minad set_amit];
    splits; try assumption; try lia.

Lemma read_numeric_inv pers b id plen p p' :
  bytes b -> inv pers p -> read_numeric b id plen p = Ok p' -> inv pers p'.
Proof.
  intros Hb Hi H. unfold read_numeric in H.
  destruct (vparse b) as [e|[[val l] r]] eqn:Ev; [destruct e; discriminate|].
  pose proof (vparse_vwf _ _ _ _ Hb Ev) as Vv.
  destruct Hi as (I1 & I2 & I3 & I4 & I5 & I6 & I7 & I8 & I9 & I10 & I11 & I12 & I13 & I14 & I15 & I16 & I17 & I18 & I19 & I20 & I21).
  destruct (negb (l =? plen)); [discriminate|].
  destruct (id =? TP_ID_imsd_bl); [fin H|].
  destruct (id =? TP_ID_imsd_br); [fin H|].
  destruct (id =? TP_ID_imsd_uni); [fin H|].
  destruct (id =? TP_ID_imd); [fin H|].
  destruct (id =? TP_ID_mbs).
  { revert H; destruct (Z.ltb_spec TP_MaxStreamCount val) as [E|E]; intros H; [discriminate|]. fin H; unfold vwf in *; lia. }
  destruct (id =? TP_ID_mus).
  { revert H; destruct (Z.ltb_spec TP_MaxStreamCount val) as [E|E]; intros H; [discriminate|]. fin H; unfold vwf in *; lia. }
  destruct (id =? TP_ID_mit).
  { assert (Hpos : val <> 0 -> 0 < sat_duration val TP_Millisecond).
    { intros E. unfold sat_duration. destruct (Z.ltb_spec (maxInt64 / TP_Millisecond) val); [vm_compute; reflexivity|].
      unfold TP_Millisecond, vwf in *. lia. }
    revert H; destruct (Z.eqb_spec val 0) as [E|E]; intros H.
    - fin H; first [left; split; reflexivity | left; reflexivity].
    - destruct (sat_duration_range val TP_Millisecond ltac:(reflexivity) ltac:(unfold vwf in *; lia)) as (R & W).
      specialize (Hpos E).
      fin H; first [ right; apply mit_value_ok; unfold vwf in *; lia
                   | right; split; [lia | split; [exact W | reflexivity]] ]. }
  destruct (id =? TP_ID_mups).
  { revert H; destruct (Z.ltb_spec val 1200) as [E|E]; intros H; [discriminate|]. fin H. right. unfold vwf in *; lia. }
  destruct (id =? TP_ID_ade).
  { revert H; destruct (Z.ltb_spec TP_MaxAckDelayExponent val) as [E|E]; intros H; [discriminate|]. fin H; unfold vwf in *; lia. }
  destruct (id =? TP_ID_mad).
  { revert H; destruct (Z.ltb_spec TP_MaxMaxAckDelayMs val) as [E|E]; intros H; [discriminate|]. fin H.
    - unfold vwf, TP_Millisecond in *. lia.
    - unfold TP_Millisecond. rewrite Z.div_mul by lia. lia.
    - unfold TP_Millisecond. apply Z.mod_mul. lia. }
  destruct (id =? TP_ID_acil).
  { revert H; destruct (Z.ltb_spec val 2) as [E|E]; intros H; [discriminate|]. fin H; unfold vwf in *; lia. }
  destruct (id =? TP_ID_mdfs); [fin H; right; exact Vv|].
  destruct (id =? TP_ID_minad); [|discriminate].
  fin H. cbn [opt_wf]. apply sat_duration_range; [reflexivity | unfold vwf in *; lia].
Qed.

Ltac finu :=
  unfold inv;
  cbn [st_p upd tp_imsd_bl tp_imsd_br tp_imsd_uni tp_imd tp_mad tp_ade tp_dam tp_mups tp_mus tp_mbs tp_mit tp_pa tp_odcid
       tp_iscid tp_rscid tp_srt tp_acil tp_mdfs tp_rsa tp_minad tp_override tp_amit
       set_pa set_dam set_srt set_odcid set_iscid set_rscid set_rsa];
  splits; try assumption; try lia; try (intro; discriminate).

Lemma cid_firstn plen b : 0 <= plen <= TP_MaxConnIDLen -> cid_wf (firstn (Z.to_nat plen) b).
Proof. intros H. unfold cid_wf. pose proof (zlen_firstn_z_le plen b ltac:(lia)). lia. Qed.

Lemma tp_step_inv pers id plen b s s' :
  bytes b -> 0 <= plen <= zlen b -> inv pers (st_p s) -> tp_step pers id plen b s = Ok s' -> inv pers (st_p s').
Proof.
  intros Hb Hp Hi H. unfold tp_step in H.
  destruct (is_numeric id).
  { destruct (read_numeric b id plen (st_p s)) as [p'|] eqn:E; [|discriminate].
    inversion H; subst s'. cbn [st_p upd]. eapply read_numeric_inv; eassumption. }
  pose proof Hi as (I1 & I2 & I3 & I4 & I5 & I6 & I7 & I8 & I9 & I10 & I11 & I12 & I13 & I14 & I15 & I16 & I17 & I18 & I19 & I20 & I21).
  destruct (id =? TP_ID_pa).
  { destruct pers; cbn [is_client] in H; [|discriminate].
    destruct (read_pa b plen) as [pa|] eqn:E; [|discriminate]. inversion H; subst s'.
    finu. cbn [opt_wf]. eapply read_pa_ok; eassumption. }
  destruct (id =? TP_ID_dam).
  { destruct (negb (plen =? 0)); [discriminate|]. inversion H; subst s'. finu. }
  destruct (id =? TP_ID_srt).
  { destruct pers; cbn [is_client] in H; [|discriminate].
    destruct (negb (plen =? 16)); [discriminate|].
    revert H; destruct (Z.ltb_spec (zlen b) 16) as [L|L]; intros H; [discriminate|]. inversion H; subst s'.
    finu. cbn [opt_wf]. apply zlen_firstn_nat. unfold zlen in L. lia. }
  destruct (id =? TP_ID_odcid).
  { destruct pers; cbn [is_client] in H; [|discriminate].
    revert H; destruct (Z.ltb_spec TP_MaxConnIDLen plen) as [L|L]; intros H; [discriminate|]. inversion H; subst s'.
    finu. apply cid_firstn; lia. }
  destruct (id =? TP_ID_iscid).
  { revert H; destruct (Z.ltb_spec TP_MaxConnIDLen plen) as [L|L]; intros H; [discriminate|]. inversion H; subst s'.
    finu. apply cid_firstn; lia. }
  destruct (id =? TP_ID_rscid).
  { destruct pers; cbn [is_client] in H; [|discriminate].
    revert H; destruct (Z.ltb_spec TP_MaxConnIDLen plen) as [L|L]; intros H; [discriminate|]. inversion H; subst s'.
    finu. cbn [opt_wf]. apply cid_firstn; lia. }
  destruct (id =? TP_ID_rsa).
  { destruct (negb (plen =? 0)); [discriminate|]. inversion H; subst s'. finu. }
  inversion H; subst s'. exact Hi.
Qed.

Lemma tp_loop_inv fuel : forall pers s b s',
  bytes b -> inv pers (st_p s) -> tp_loop fuel pers s b = Ok s' -> inv pers (st_p s').
Proof.
  induction fuel as [|fuel IH]; intros pers s b s' Hb Hi H.
  - destruct b; cbn [tp_loop] in H; [inversion H; subst; exact Hi | discriminate].
  - destruct b as [|x b0]; cbn [tp_loop] in H; [inversion H; subst; exact Hi|].
    destruct (vparse (x :: b0)) as [e|[[id l1] b1]] eqn:E1; [discriminate|].
    destruct (vparse_suffix _ _ _ _ E1) as (S1 & _).
    assert (B1 : bytes b1) by (eapply bytes_suffix; eassumption).
    destruct (vparse b1) as [e|[[plen l2] b2]] eqn:E2; [discriminate|].
    destruct (vparse_suffix _ _ _ _ E2) as (S2 & _).
    assert (B2 : bytes b2) by (eapply bytes_suffix; eassumption).
    pose proof (vparse_vwf _ _ _ _ B1 E2) as Vp.
    revert H; destruct (Z.ltb_spec (zlen b2) plen) as [L|L]; intros H; [discriminate|].
    destruct (tp_step pers id plen b2 (add_id id s)) as [s1|] eqn:Es; [|discriminate].
    apply (IH pers s1 (skipn (Z.to_nat plen) b2) s'); [| |exact H].
    + eapply bytes_suffix; [apply suffix_skipn | exact B2].
    + apply (tp_step_inv pers id plen b2 (add_id id s) s1); [exact B2 | clear - Vp L; unfold vwf in Vp; lia | exact Hi | exact Es].
Qed.

(** Everything [unmarshal] accepts from a byte string satisfies [tp_wf] ... *)
Theorem unmarshal_wf pers b p :
  bytes b -> unmarshal pers false b = Ok p ->
  tp_wf p /\
  ((tp_amit p = 0 /\ tp_mit p = 0) \/
   (0 < tp_amit p <= maxInt64 /\ tp_mit p = Z.max TP_MinRemoteIdleTimeout (tp_amit p))) /\
  (tp_mit p <> maxInt64 -> tp_amit p = 0 \/ TP_MinRemoteIdleTimeout <= tp_amit p -> tp_norm pers p = p).
Proof.
  intros Hb H. unfold unmarshal in H.
  destruct (tp_loop (length b) pers st_init b) as [s|] eqn:El; [|discriminate].
  apply tp_loop_inv in El; [|exact Hb|apply inv_init].
  destruct El as (I1 & I2 & I3 & I4 & I5 & I6 & I7 & I8 & (I9a & I9b & I9c) & I10 & I11 & I12 & I13 & I14 & I15 & I16 & I17 & I18 & I19 & I20 & I21).
  unfold tp_finish in H. cbn [negb] in H.
  destruct (match tp_minad (st_p s) with Some m => tp_mad (st_p s) <? m | None => false end) eqn:Em; [discriminate|].
  destruct (is_server pers && negb (st_odcid s)); [discriminate|].
  destruct (negb (st_iscid s)); [discriminate|].
  unfold dup_check in H. destruct (adjdup (isort (st_ids s))); [discriminate|]. inversion H; subst p. clear H.
  set (q := st_p s) in *.
  assert (Hminad : opt_wf (fun m => 0 <= m <= maxInt64 /\ m <= tp_mad q /\ m mod TP_Microsecond = 0) (tp_minad q)).
  { destruct (tp_minad q) as [m|]; cbn [opt_wf] in *; [|exact I].
    apply Z.ltb_ge in Em. destruct I13 as (R & [W|W]); [tauto|].
    exfalso. unfold TP_Millisecond, TP_MaxMaxAckDelayMs, maxInt64 in *. lia. }
  assert (Hpa : opt_wf pa_wf (tp_pa q)) by (destruct (tp_pa q); cbn [opt_wf] in *; [apply I18 | exact I]).
  assert (Hmit : 0 <= tp_mit q <= maxInt64).
  { destruct I7 as [->|(R & _)]; [unfold maxInt64; lia|]. unfold TP_MinRemoteIdleTimeout in R. lia. }
  assert (Hmad : tp_mad q / TP_Millisecond * TP_Millisecond = tp_mad q) by (unfold TP_Millisecond in *; lia).
  split; [|split].
  - (* tp_wf *)
    destruct (tp_mups q =? 0) eqn:Eu; unfold tp_wf;
      cbn [tp_imsd_bl tp_imsd_br tp_imsd_uni tp_imd tp_mad tp_ade tp_dam tp_mups tp_mus tp_mbs tp_mit tp_pa tp_odcid
           tp_iscid tp_rscid tp_srt tp_acil tp_mdfs tp_rsa tp_minad tp_override set_mups];
      splits; try assumption; try lia;
      try (right; unfold TP_MaxByteCount, maxVarInt8; lia);
      (destruct (tp_minad q) as [m|]; cbn [opt_wf] in *; [|exact I]; rewrite Hmad; unfold TP_Microsecond in *; lia).
  - (* AdvertisedMaxIdleTimeout and MaxIdleTimeout *)
    destruct (tp_mups q =? 0); cbn [tp_amit tp_mit set_mups];
      (destruct I21 as [I21|(R21 & _ & Em21)]; [left; exact I21 | right; split; assumption]).
  - (* fixpoint of the normalisation *)
    intros Hns Ham.
    assert (Eq0 : tp_mit (if tp_mups q =? 0 then set_mups TP_MaxByteCount q else q) = tp_mit q /\
                  tp_amit (if tp_mups q =? 0 then set_mups TP_MaxByteCount q else q) = tp_amit q)
      by (destruct (tp_mups q =? 0); split; reflexivity).
    destruct Eq0 as (Eq1 & Eq2).
    assert (Hns' : tp_mit q <> maxInt64) by (intro X; apply Hns; rewrite Eq1; exact X).
    assert (Ham' : tp_amit q = 0 \/ TP_MinRemoteIdleTimeout <= tp_amit q) by (rewrite <- Eq2; exact Ham).
    clear Hns Ham. rename Hns' into Hns. rename Ham' into Ham.
    assert (Eam : tp_mit q / TP_Millisecond * TP_Millisecond = tp_amit q).
    { destruct I21 as [(A0 & M0)|(R21 & W & Em21)]; [rewrite A0, M0; reflexivity|].
      assert (tp_mit q = tp_amit q) as Eqm by (destruct Ham; unfold TP_MinRemoteIdleTimeout in *; lia).
      rewrite Eqm in *. destruct W as [W|W]; [unfold TP_Millisecond in *; lia | contradiction]. }
    assert (Emit : norm_mit (tp_mit q) = tp_mit q).
    { unfold norm_mit. destruct I7 as [E0|(R & W)]; [rewrite E0; reflexivity|].
      destruct W as [W|W]; [|contradiction].
      unfold TP_MinRemoteIdleTimeout, TP_Millisecond in *.
      destruct (Z.eqb_spec (tp_mit q / 1000000) 0); lia. }
    assert (Eminad : option_map (fun m => m / TP_Microsecond * TP_Microsecond) (tp_minad q) = tp_minad q).
    { destruct (tp_minad q) as [m|]; cbn [opt_wf option_map] in *; [|reflexivity]. f_equal. unfold TP_Microsecond in *. lia. }
    assert (Epa : (if is_server pers then option_map norm_pa (tp_pa q) else None) = tp_pa q).
    { destruct pers; cbn [is_server].
      - destruct (tp_pa q) as [pa|]; cbn [opt_wf option_map] in *; [|reflexivity]. f_equal. apply I18.
      - symmetry. apply (I20 eq_refl). }
    assert (Eod : (if is_server pers then tp_odcid q else []) = tp_odcid q)
      by (destruct pers; cbn [is_server]; [reflexivity | symmetry; apply (I20 eq_refl)]).
    assert (Ers : (if is_server pers then tp_rscid q else None) = tp_rscid q)
      by (destruct pers; cbn [is_server]; [reflexivity | symmetry; apply (I20 eq_refl)]).
    assert (Esr : (if is_server pers then tp_srt q else None) = tp_srt q)
      by (destruct pers; cbn [is_server]; [reflexivity | symmetry; apply (I20 eq_refl)]).
    unfold tp_norm. destruct q as [f1 f2 f3 f4 f5 f6 f7 f8 f9 f10 f11 f12 f13 f14 f15 f16 f17 f18 f19 f20 f21 f22].
    cbn [tp_imsd_bl tp_imsd_br tp_imsd_uni tp_imd tp_mad tp_ade tp_dam tp_mups tp_mus tp_mbs tp_mit tp_pa tp_odcid
         tp_iscid tp_rscid tp_srt tp_acil tp_mdfs tp_rsa tp_minad tp_override set_mups] in *.
    destruct (f8 =? 0) eqn:Eu;
      cbn [tp_imsd_bl tp_imsd_br tp_imsd_uni tp_imd tp_mad tp_ade tp_dam tp_mups tp_mus tp_mbs tp_mit tp_pa tp_odcid
           tp_iscid tp_rscid tp_srt tp_acil tp_mdfs tp_rsa tp_minad tp_override set_mups];
      rewrite Hmad, Emit, Eminad, Epa, Eod, Ers, Esr, Eam; subst f21.
    + change (TP_MaxByteCount =? 0) with false. reflexivity.
    + rewrite Eu. reflexivity.
Qed.

(** ... so Marshal's encoding of it is accepted again, with the normalised value, which is the value
    itself unless max_idle_timeout was saturated (then it is cut to whole milliseconds). *)
Theorem tparams_reencode pers rnd b p :
  bytes b -> length rnd = 18%nat -> Forall is_byte rnd ->
  unmarshal pers false b = Ok p ->
  unmarshal pers false (marshal pers rnd p) = Ok (tp_norm pers p) /\
  (tp_mit p <> maxInt64 -> tp_amit p = 0 \/ TP_MinRemoteIdleTimeout <= tp_amit p ->
   unmarshal pers false (marshal pers rnd p) = Ok p).
Proof.
  intros Hb Hl Hr H. destruct (unmarshal_wf pers b p Hb H) as (W & _ & N).
  pose proof (tparams_roundtrip pers rnd p Hl Hr W) as R. split; [exact R|].
  intros Hm Ha. rewrite R, (N Hm Ha). reflexivity.
Qed.
