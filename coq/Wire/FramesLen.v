(** The byte count every frame parser REPORTS (the `l` the Go functions return), computed the way
    the Go code computes it — the varint's own length, sums of such lengths, `+ int(dataLen)`, `+ 16`,
    the constant 8, 0 for the frames without body — NOT as "input minus rest".  The caller
    (connection.handleFrames) then advances by that count: [parse_next_rep].  A parser that reports
    the length of the SHORTEST encoding instead of what it read (seeded change C08-g) is expressible
    here: it would change [reported_body] and break [reported_body_exact]. *)
From Coq Require Import List ZArith Bool.
From V Require Import Gen.Params Lib.Hex Wire.Varint Wire.FramesBase Wire.FramesCtl Wire.FramesStream Wire.FramesAck Wire.Frames.
Import ListNotations.
Open Scope Z_scope.

(** quicvarint.Parse: (value, bytes read, rest); (0, 0, []) on error (the reported count is only
    used when the parser succeeded) *)
Definition vl (b : list Z) : Z * Z * list Z :=
  match vparse b with inr x => x | inl _ => (0, 0, []) end.

Definition rep_one (b : list Z) : Z := let '(_, l, _) := vl b in l.                        (* return f, l, nil *)
Definition rep_two (b : list Z) : Z :=                                                     (* startLen - len(b) after two varints *)
  let '(_, l1, b1) := vl b in let '(_, l2, _) := vl b1 in l1 + l2.
Definition rep_reset (at_ : bool) (b : list Z) : Z :=
  let '(_, l1, b1) := vl b in let '(_, l2, b2) := vl b1 in let '(_, l3, b3) := vl b2 in
  if at_ then let '(_, l4, _) := vl b3 in l1 + l2 + l3 + l4 else l1 + l2 + l3.
Definition rep_new_token (b : list Z) : Z := let '(tl, l, _) := vl b in l + tl.            (* l + int(tokenLen) *)
Definition rep_crypto (b : list Z) : Z :=                                                  (* startLen - len(b) + int(dataLen) *)
  let '(_, l1, b1) := vl b in let '(dl, l2, _) := vl b1 in l1 + l2 + dl.
Definition rep_new_cid (b : list Z) : Z :=                                                 (* startLen - len(b) + 16 *)
  let '(_, l1, b1) := vl b in let '(_, l2, b2) := vl b1 in l1 + l2 + 1 + hd 0 b2 + 16.
Definition rep_conn_close (app : bool) (b : list Z) : Z :=                                 (* startLen - len(b) + int(reasonPhraseLen) *)
  let '(_, l1, b1) := vl b in
  if app then let '(rl, l3, _) := vl b1 in l1 + l3 + rl
  else let '(_, l2, b2) := vl b1 in let '(rl, l3, _) := vl b2 in l1 + l2 + l3 + rl.
Definition rep_stream (typ : Z) (b : list Z) : Z :=                                        (* startLen - len(b) + int(dataLen) *)
  let '(_, l1, b1) := vl b in
  let '(lo, b2) := if Z.testbit typ 2 then (let '(_, l, r) := vl b1 in (l, r)) else (0, b1) in
  if Z.testbit typ 1 then let '(dl, l3, _) := vl b2 in l1 + lo + l3 + dl
  else l1 + lo + zlen b2.
Definition rep_datagram (typ : Z) (b : list Z) : Z :=
  if Z.testbit typ 0 then let '(dl, l, _) := vl b in l + dl else zlen b.
Definition rep_ack_frequency (b : list Z) : Z :=
  let '(_, l1, b1) := vl b in let '(_, l2, b2) := vl b1 in let '(_, l3, b3) := vl b2 in let '(_, l4, _) := vl b3 in
  l1 + l2 + l3 + l4.

(** ACK: `startLen - len(b)` over a data-dependent number of varints; the count is the sum of the
    lengths of all varints read *)
Fixpoint rep_ack_loop (fuel : nat) (n : Z) (b : list Z) : Z * list Z :=
  if n <=? 0 then (0, b) else
  match fuel with
  | O => (0, b)
  | S fuel' =>
    let '(_, l1, b1) := vl b in let '(_, l2, b2) := vl b1 in
    let '(l, r) := rep_ack_loop fuel' (n - 1) b2 in (l1 + l2 + l, r)
  end.
Definition rep_ack (ecn : bool) (b : list Z) : Z :=
  let '(_, l1, b1) := vl b in let '(_, l2, b2) := vl b1 in let '(nb, l3, b3) := vl b2 in let '(_, l4, b4) := vl b3 in
  let '(l, b5) := rep_ack_loop (S (length b4)) nb b4 in
  if ecn then
    let '(_, e1, c1) := vl b5 in let '(_, e2, c2) := vl c1 in let '(_, e3, _) := vl c2 in l1 + l2 + l3 + l4 + l + e1 + e2 + e3
  else l1 + l2 + l3 + l4 + l.

(** the count the body parser selected by the dispatch reports *)
Definition reported_body (t : Z) (b : list Z) : Z :=
  if is_stream_type t then rep_stream t b
  else if is_ack_type t then rep_ack (t =? FT_AckECN) b
  else if is_datagram_type t then rep_datagram t b
  else if (t =? FT_Ping) || (t =? FT_HandshakeDone) || (t =? FT_ImmediateAck) then 0
  else if (t =? FT_ResetStream) then rep_reset false b
  else if (t =? FT_ResetStreamAt) then rep_reset true b
  else if (t =? FT_StopSending) || (t =? FT_MaxStreamData) || (t =? FT_StreamDataBlocked) then rep_two b
  else if (t =? FT_Crypto) then rep_crypto b
  else if (t =? FT_NewToken) then rep_new_token b
  else if (t =? FT_MaxData) || (t =? FT_BidiMaxStreams) || (t =? FT_UniMaxStreams) || (t =? FT_DataBlocked)
          || (t =? FT_BidiStreamBlocked) || (t =? FT_UniStreamBlocked) || (t =? FT_RetireConnectionID) then rep_one b
  else if (t =? FT_NewConnectionID) then rep_new_cid b
  else if (t =? FT_PathChallenge) || (t =? FT_PathResponse) then 8
  else if (t =? FT_ConnectionClose) then rep_conn_close false b
  else if (t =? FT_ApplicationClose) then rep_conn_close true b
  else if (t =? FT_AckFrequency) then rep_ack_frequency b
  else 0.

(** one frame as the connection reads it: ParseType reports [lt], the body parser reports [l], the
    caller advances by both *)
Definition parse_next_rep (c : cfg) (lvl : Z) (b : list Z) : res (frame * Z * list Z) :=
  match parse_type (length b) c lvl b 0 with
  | Err e n => Err e n
  | Ok (t, lt, r) =>
    match parse_body c lvl t r with
    | Err e n => Err e n
    | Ok (f, _) => let l := reported_body t r in Ok (f, lt + l, skipn (Z.to_nat l) (skipn (Z.to_nat lt) b))
    end
  end.
