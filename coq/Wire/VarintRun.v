(** Correspondence glue for the varint unit: a case is what the Go harness logged. *)
From Coq Require Import List ZArith Bool String.
From V Require Import Lib.Corr Lib.Hex Wire.Varint.
Import ListNotations.
Open Scope Z_scope.

Inductive case :=
| EncCase (v : Z) (enc : string) (len : Z) (withlen : option (Z * string))
| ParseCase (input : string) (cls : Z) (v : Z) (consumed : Z).

Inductive obs :=
| EncObs (enc : list Z) (len : Z) (withlen : option (list Z))
| ParseObs (cls v consumed : Z).

Definition model_obs (c : case) : obs :=
  match c with
  | EncCase v _ _ wl => EncObs (vappend v) (vlen v) (match wl with Some (l, _) => Some (vappend_len v l) | None => None end)
  | ParseCase i _ _ _ =>
    match vparse (hx i) with
    | inl EOF => ParseObs 2 0 0
    | inl UnexpectedEOF => ParseObs 1 0 0
    | inr (v, n, _) => ParseObs 0 v n
    end
  end.

Definition check_case (c : case) : bool :=
  match c, model_obs c with
  | EncCase v enc len wl, EncObs e l w =>
    zeqb_list e (hx enc) && (l =? len) &&
    match wl, w with
    | Some (_, s), Some b => zeqb_list b (hx s)
    | None, None => true
    | _, _ => false
    end
  | ParseCase _ cls v n, ParseObs c' v' n' => (cls =? c') && (v =? v') && (n =? n')
  | _, _ => false
  end.
