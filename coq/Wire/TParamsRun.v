(** Correspondence glue for the tparams unit: a case is what harness/drv/tparams.go logged. *)
From Coq Require Import List ZArith Bool String.
From V Require Export Wire.FramesBase Wire.TParams.
From V Require Import Lib.Corr Lib.Hex Gen.Params Wire.Varint.
Import ListNotations.
Open Scope Z_scope.

Inductive case :=
(* Marshal(pers) with the 18 bytes the scripted crypto/rand.Reader delivered *)
| TPMarshal (pers : perspective) (rnd : string) (p : tparams) (out : string)
(* MarshalForSessionTicket: the bytes appended *)
| TPTicketMarshal (p : tparams) (out : string)
(* Unmarshal(input, sentBy) into a fresh struct: error class, aux, the struct on success *)
| TPUnmarshal (pers : perspective) (input : string) (cls aux : Z) (p : option tparams)
(* UnmarshalFromSessionTicket(input) *)
| TPTicketUnmarshal (input : string) (cls aux : Z) (p : option tparams).

Inductive obs :=
| BytesObs (out : list Z)
| ParseObs (cls aux : Z) (p : option tparams).

Definition obs_of (r : res tparams) : obs :=
  match r with
  | Ok p => ParseObs 0 0 (Some p)
  | Err c a => ParseObs c a None
  end.

Definition model_obs (c : case) : obs :=
  match c with
  | TPMarshal pers rnd p _ => BytesObs (marshal pers (hx rnd) p)
  | TPTicketMarshal p _ => BytesObs (marshal_ticket p)
  | TPUnmarshal pers input _ _ _ => obs_of (unmarshal pers false (hx input))
  | TPTicketUnmarshal input _ _ _ => obs_of (unmarshal_ticket (hx input))
  end.

Definition check_case (c : case) : bool :=
  match c, model_obs c with
  | TPMarshal _ _ _ out, BytesObs b => zeqb_list b (hx out)
  | TPTicketMarshal _ out, BytesObs b => zeqb_list b (hx out)
  | TPUnmarshal _ _ cls aux p, ParseObs cls' aux' p' =>
    (cls =? cls') && (aux =? aux') && opt_eqb tp_eqb p p'
  | TPTicketUnmarshal _ cls aux p, ParseObs cls' aux' p' =>
    (cls =? cls') && (aux =? aux') && opt_eqb tp_eqb p p'
  | _, _ => false
  end.
