(** Proofs about the header codecs model (Wire.Headers). *)
From Coq Require Import List ZArith Bool Lia.
From Coq Require Import ZifyBool ZifyNat ZifyN.
From V Require Import Gen.Params Lib.Hex Wire.Varint Wire.VarintProofs Wire.Headers.
Import ListNotations.
Open Scope Z_scope.
Local Ltac Zify.zify_post_hook ::= Z.div_mod_to_equations.

(** ---- lists and lengths ---- *)
Lemma zlen_nil {A} : zlen (@nil A) = 0. Proof. reflexivity. Qed.
Lemma zlen_cons {A} (x : A) l : zlen (x :: l) = 1 + zlen l.
Proof. unfold zlen. cbn [length]. lia. Qed.
Lemma zlen_app {A} (a b : list A) : zlen (a ++ b) = zlen a + zlen b.
Proof. unfold zlen. rewrite app_length. lia. Qed.
Lemma zlen_nonneg {A} (l : list A) : 0 <= zlen l.
Proof. unfold zlen. lia. Qed.
Global Hint Rewrite @zlen_nil @zlen_cons @zlen_app : zl.

Ltac zl := autorewrite with zl in *.

Lemma zfirstn_app_exact {A} (a r : list A) : zfirstn (zlen a) (a ++ r) = a.
Proof.
  unfold zfirstn, zlen. rewrite Nat2Z.id.
  rewrite firstn_app, Nat.sub_diag, firstn_all. cbn. apply app_nil_r.
Qed.
Lemma zskipn_app_exact {A} (a r : list A) : zskipn (zlen a) (a ++ r) = r.
Proof.
  unfold zskipn, zlen. rewrite Nat2Z.id.
  rewrite skipn_app, Nat.sub_diag, skipn_all. reflexivity.
Qed.
Lemma zskipn_app_succ {A} (a : list A) x r : zskipn (zlen a + 1) (a ++ x :: r) = r.
Proof.
  unfold zskipn, zlen. replace (Z.to_nat (Z.of_nat (length a) + 1)) with (length a + 1)%nat by lia.
  rewrite skipn_app. replace (length a + 1 - length a)%nat with 1%nat by lia.
  rewrite skipn_all2 by lia. reflexivity.
Qed.
Lemma zskipn_succ_cons {A} (x : A) a r : zskipn (1 + zlen a) (x :: a ++ r) = r.
Proof.
  unfold zskipn, zlen. replace (Z.to_nat (1 + Z.of_nat (length a))) with (S (length a)) by lia.
  cbn [skipn]. rewrite skipn_app, Nat.sub_diag, skipn_all. reflexivity.
Qed.
Lemma zfirstn_skipn {A} n (l : list A) : zfirstn n l ++ zskipn n l = l.
Proof. apply firstn_skipn. Qed.
Lemma zlen_zfirstn_le {A} n (l : list A) : zlen (zfirstn n l) <= zlen l.
Proof. unfold zfirstn, zlen. rewrite firstn_length. lia. Qed.
Lemma zlen_zfirstn_le_n {A} n (l : list A) : 0 <= n -> zlen (zfirstn n l) <= n.
Proof. unfold zfirstn, zlen. rewrite firstn_length. lia. Qed.
Lemma zlen_zfirstn {A} n (l : list A) : 0 <= n <= zlen l -> zlen (zfirstn n l) = n.
Proof. unfold zfirstn, zlen. rewrite firstn_length. lia. Qed.
Lemma zlen_zskipn {A} n (l : list A) : zlen (zskipn n l) = zlen l - Z.min (Z.max 0 n) (zlen l).
Proof. unfold zskipn, zlen. rewrite skipn_length. lia. Qed.
Lemma zlen_skipn {A} n (l : list A) : zlen (skipn n l) = zlen l - Z.min (Z.of_nat n) (zlen l).
Proof. unfold zlen. rewrite skipn_length. lia. Qed.

(** ---- big-endian integers ---- *)
Lemma be1_eq v : be 1 v = [v mod 256]. Proof. reflexivity. Qed.
Lemma be2_eq v : be 2 v = [v / 256 mod 256; v mod 256]. Proof. reflexivity. Qed.
Lemma be4_eq v : be 4 v = [v / 256 / 256 / 256 mod 256; v / 256 / 256 mod 256; v / 256 mod 256; v mod 256].
Proof. reflexivity. Qed.

Lemma zlen_be4 v : zlen (be 4 v) = 4. Proof. reflexivity. Qed.
Global Hint Rewrite zlen_be4 : zl.

Lemma unbe_be1 v : unbe (be 1 v) 0 = v mod 2 ^ 8.
Proof. rewrite be1_eq. cbn [unbe]. change (2 ^ 8) with 256. lia. Qed.
Lemma unbe_be2 v : unbe (be 2 v) 0 = v mod 2 ^ 16.
Proof. rewrite be2_eq. cbn [unbe]. change (2 ^ 16) with 65536. lia. Qed.
Lemma unbe_be3 v : unbe (tl (be 4 v)) 0 = v mod 2 ^ 24.
Proof. rewrite be4_eq. cbn [unbe tl]. change (2 ^ 24) with 16777216. lia. Qed.
Lemma unbe_be4 v : unbe (be 4 v) 0 = v mod 2 ^ 32.
Proof. rewrite be4_eq. cbn [unbe]. change (2 ^ 32) with 4294967296. lia. Qed.

(** ---- packet numbers ---- *)
Lemma append_pn_some pn pnLen : 1 <= pnLen <= 4 ->
  exists p, append_pn pn pnLen = Some p /\ zlen p = pnLen /\ unbe p 0 = pn mod 2 ^ (8 * pnLen).
Proof.
  intros H. assert (C : pnLen = 1 \/ pnLen = 2 \/ pnLen = 3 \/ pnLen = 4) by lia.
  destruct C as [-> | [-> | [-> | ->]]]; unfold append_pn; cbn [Z.eqb Pos.eqb];
    eexists; (split; [reflexivity|]); (split; [reflexivity|]).
  - apply unbe_be1. - apply unbe_be2. - apply unbe_be3. - apply unbe_be4.
Qed.

Lemma read_pn_app p r pnLen : 1 <= pnLen <= 4 -> zlen p = pnLen -> read_pn (p ++ r) pnLen = Some (unbe p 0).
Proof.
  intros H L. unfold read_pn.
  replace ((1 <=? pnLen) && (pnLen <=? 4)) with true by lia.
  rewrite <- L, zfirstn_app_exact. reflexivity.
Qed.

(** ---- the 2-byte Length field ---- *)
Lemma vappend_len2_eq L : 0 <= L <= maxVarInt2 -> vappend_len L 2 = [L / 256 mod 256 + 64; L mod 256].
Proof.
  unfold vappend_len, vlen, vappend, maxVarInt1, maxVarInt2, maxVarInt4. intros H.
  destruct (Z.leb_spec L 63).
  - cbn [Z.eqb Pos.eqb]. reflexivity.
  - destruct (Z.leb_spec L 16383); [|lia]. cbn [Z.eqb Pos.eqb]. reflexivity.
Qed.

Lemma vparse_len2 L r : 0 <= L <= maxVarInt2 -> vparse (vappend_len L 2 ++ r) = inr (L, 2, r).
Proof.
  intros H. rewrite vappend_len2_eq by exact H. unfold maxVarInt2 in H.
  cbn [app vparse]. replace ((L / 256 mod 256 + 64) / 64) with 1 by lia.
  cbn. repeat f_equal. lia.
Qed.

Lemma vparse_consumed b v n r : vparse b = inr (v, n, r) -> 1 <= n <= zlen b /\ zlen r = zlen b - n.
Proof.
  destruct b as [|f t]; [discriminate|]. cbn [vparse].
  set (k := if f / 64 =? 0 then 0%nat else if f / 64 =? 1 then 1%nat else if f / 64 =? 2 then 3%nat else 7%nat).
  destruct (Nat.ltb_spec (length t) k) as [Hlt|Hge]; [discriminate|].
  intros E. inversion E; subst. rewrite zlen_cons. unfold zlen. rewrite skipn_length. lia.
Qed.

(** ---- parseLongHeader on the invariant part ---- *)
Lemma gtb_false a b : a <= b -> (a >? b) = false. Proof. lia. Qed.
Lemma ltb_false a b : b <= a -> (a <? b) = false. Proof. lia. Qed.

Lemma plh_cids tb ver dst src t :
  0 <= ver < 2 ^ 32 -> (ver = 0 \/ quic_bit tb = true) ->
  zlen dst <= W_MaxConnIDLen -> zlen src <= W_MaxConnIDLen ->
  parse_long_header tb (be 4 ver ++ [zlen dst] ++ dst ++ [zlen src] ++ src ++ t)
  = plh_rest tb (4 + 1 + zlen dst + 1 + zlen src + zlen t) ver src dst t.
Proof.
  intros Hv Hq Hd Hs. unfold parse_long_header.
  rewrite be4_eq. cbn [app firstn nth skipn].
  set (ver' := unbe _ 0).
  assert (Ev : ver' = ver).
  { subst ver'. cbn [unbe]. change (2 ^ 32) with 4294967296 in Hv. lia. }
  rewrite Ev. clear ver' Ev.
  pose proof (zlen_nonneg dst). pose proof (zlen_nonneg src). pose proof (zlen_nonneg t).
  rewrite ltb_false by (zl; lia).
  replace (negb (ver =? 0) && negb (quic_bit tb)) with false
    by (destruct Hq as [-> | ->]; [reflexivity | apply eq_sym, andb_false_r]).
  rewrite (gtb_false _ _ Hd).
  rewrite ltb_false by (zl; lia).
  rewrite zfirstn_app_exact.
  rewrite zskipn_app_exact. cbn [hd].
  rewrite (gtb_false _ _ Hs).
  rewrite zskipn_app_succ.
  rewrite ltb_false by (zl; lia).
  rewrite zfirstn_app_exact, zskipn_app_exact.
  f_equal. zl. lia.
Qed.

(** ---- the first byte Append writes ---- *)
Definition valid_version (v : Z) : Prop := v = H_Version1 \/ v = H_Version2.
Definition pn_type (ty : Z) : Prop :=
  ty = H_PacketTypeInitial \/ ty = H_PacketTypeHandshake \/ ty = H_PacketType0RTT.

Lemma type_code_range v ty : 0 <= type_code v ty <= 3.
Proof.
  unfold type_code.
  destruct (v =? H_Version2), (ty =? H_PacketTypeInitial), (ty =? H_PacketType0RTT),
    (ty =? H_PacketTypeHandshake), (ty =? H_PacketTypeRetry); lia.
Qed.

Lemma valid_version_supported v : valid_version v -> is_supported v = true /\ v <> 0 /\ 0 <= v < 2 ^ 32.
Proof. intros [-> | ->]; repeat split; try reflexivity; try discriminate. Qed.

Lemma type_bits_first c low : 0 <= c <= 3 -> 0 <= low < 16 -> type_bits (192 + 16 * c + low) = c.
Proof. unfold type_bits. lia. Qed.

Lemma quic_bit_first c low : 0 <= c <= 3 -> 0 <= low < 16 -> quic_bit (192 + 16 * c + low) = true.
Proof. unfold quic_bit. lia. Qed.

Lemma long_type_code v ty low :
  valid_version v -> (pn_type ty \/ ty = H_PacketTypeRetry) -> 0 <= low < 16 ->
  long_type v (192 + 16 * type_code v ty + low) = ty.
Proof.
  intros Hv Ht Hl. unfold long_type.
  rewrite type_bits_first by (auto using type_code_range).
  destruct Hv as [-> | ->]; destruct Ht as [[-> | [-> | ->]] | ->]; reflexivity.
Qed.

(** ---- parseLongHeader after the connection IDs ---- *)
Lemma plh_rest_pn tb start ver src dst tok L t :
  is_supported ver = true -> ver <> 0 -> pn_type (long_type ver tb) ->
  0 <= L <= maxVarInt2 -> 0 <= zlen tok <= maxVarInt8 ->
  let ty := long_type ver tb in
  let tokenc := if ty =? H_PacketTypeInitial then vappend (zlen tok) ++ tok else [] in
  plh_rest tb start ver src dst (tokenc ++ vappend_len L 2 ++ t)
  = (mkHeader tb ty ver src dst L (if ty =? H_PacketTypeInitial then tok else []) 0, start - zlen t, 0).
Proof.
  intros Hs Hv Ht HL Htok ty tokenc. unfold plh_rest.
  replace (ver =? 0) with false by lia. rewrite Hs. cbn [negb]. fold ty.
  assert (Hr : (ty =? H_PacketTypeRetry) = false).
  { subst ty. destruct Ht as [-> | [-> | ->]]; reflexivity. }
  rewrite Hr. subst tokenc.
  destruct (ty =? H_PacketTypeInitial) eqn:Ei.
  - rewrite <- app_assoc. rewrite vparse_vappend by (unfold vwf; lia).
    rewrite gtb_false by (zl; pose proof (zlen_nonneg (vappend_len L 2 ++ t)); zl; lia).
    rewrite zfirstn_app_exact, zskipn_app_exact.
    unfold plh_length. rewrite vparse_len2 by exact HL.
    f_equal. f_equal. zl. rewrite vappend_len2_eq by exact HL. zl. lia.
  - cbn [app]. unfold plh_length. rewrite vparse_len2 by exact HL.
    f_equal. f_equal. zl. rewrite vappend_len2_eq by exact HL. zl. lia.
Qed.

Lemma plh_rest_retry tb start ver src dst tok tag :
  is_supported ver = true -> ver <> 0 -> long_type ver tb = H_PacketTypeRetry ->
  0 < zlen tok -> zlen tag = 16 ->
  plh_rest tb start ver src dst (tok ++ tag)
  = (mkHeader tb H_PacketTypeRetry ver src dst 0 tok 0, start, 0).
Proof.
  intros Hs Hv Ht Htok Htag. unfold plh_rest.
  replace (ver =? 0) with false by lia. rewrite Hs, Ht. cbn [negb].
  change (H_PacketTypeRetry =? H_PacketTypeRetry) with true. cbv iota.
  zl. replace (zlen tok + zlen tag - 16) with (zlen tok) by lia.
  replace (zlen tok <=? 0) with false by lia.
  rewrite zfirstn_app_exact. f_equal. f_equal. lia.
Qed.

Ltac norm_app := repeat (progress cbn [app] || rewrite <- app_assoc).

(** ---- long header: Append then parse ---- *)
(** What Append needs to produce a header that parses back: the version argument is the
    header's Version and one we support, a packet type that has a packet number, Length fits
    the 2-byte field Append always writes, a packet number length of 1..4 bytes. *)
Record wf_long (e : exthdr) (v : Z) : Prop := {
  wf_ver : hVersion (eHdr e) = v;
  wf_sup : valid_version v;
  wf_type : pn_type (hType (eHdr e));
  wf_dst : zlen (hDst (eHdr e)) <= W_MaxConnIDLen;
  wf_src : zlen (hSrc (eHdr e)) <= W_MaxConnIDLen;
  wf_len : 0 <= hLength (eHdr e) <= maxVarInt2;
  wf_pnl : 1 <= ePnLen e <= 4;
  wf_tok : zlen (hToken (eHdr e)) <= maxVarInt8 }.

Definition first_byte (e : exthdr) (v : Z) : Z :=
  192 + 16 * type_code v (hType (eHdr e)) + (ePnLen e - 1).

(* the header parseHeader returns for Append's output *)
Definition parsed_header (e : exthdr) (v enclen : Z) : header :=
  let h := eHdr e in
  mkHeader (first_byte e v) (hType h) v (hSrc h) (hDst h) (hLength h)
    (if hType h =? H_PacketTypeInitial then hToken h else []) (enclen - ePnLen e).

Lemma pn_type_not_retry ty : pn_type ty -> (ty =? H_PacketTypeRetry) = false.
Proof. intros [-> | [-> | ->]]; reflexivity. Qed.

Theorem longhdr_roundtrip e v payload : wf_long e v ->
  exists enc, append_ext e v = (0, enc) /\
    parse_header (enc ++ payload) = Some (parsed_header e v (zlen enc), 0) /\
    parse_extended (parsed_header e v (zlen enc)) (enc ++ payload)
    = (0, Some (mkExt (parsed_header e v (zlen enc)) (first_byte e v) (ePnLen e)
                      (ePn e mod 2 ^ (8 * ePnLen e)) (zlen enc))).
Proof.
  intros [Hver Hsup Hty Hd Hs HL Hp Htok].
  destruct e as [h etb pnl pn epl]. cbn [eHdr ePnLen ePn] in *.
  destruct h as [htb ty hv src dst L tok hpl]. cbn [hVersion hType hDst hSrc hLength hToken] in *. subst hv.
  destruct (append_pn_some pn pnl Hp) as [p [Ep [Lp Up]]].
  destruct (valid_version_supported v Hsup) as [Sv [Nv Rv]].
  pose proof (type_code_range v ty) as Hc.
  pose proof (zlen_nonneg tok) as Htok0.
  set (fb := 192 + 16 * type_code v ty + (pnl - 1)).
  set (tokenc := if ty =? H_PacketTypeInitial then vappend (zlen tok) ++ tok else []).
  set (hdrpart := fb :: be 4 v ++ [zlen dst] ++ dst ++ [zlen src] ++ src ++ tokenc ++ vappend_len L 2).
  assert (Ety : long_type v fb = ty).
  { subst fb. apply long_type_code; auto. lia. }
  assert (Eapp : append_ext (mkExt (mkHeader htb ty v src dst L tok hpl) etb pnl pn epl) v = (0, hdrpart ++ p)).
  { unfold append_ext, long_prefix. cbn [eHdr ePnLen ePn hVersion hType hDst hSrc hLength hToken].
    rewrite (gtb_false _ _ Hd), (gtb_false _ _ Hs). cbn [orb].
    rewrite (pn_type_not_retry ty Hty).
    replace ((L <? 0) || (L >? maxVarInt2)) with false by lia.
    rewrite Ep. fold fb. fold tokenc. subst hdrpart.
    f_equal. norm_app. reflexivity. }
  assert (Eph : forall rest, parse_header (hdrpart ++ rest)
      = Some (mkHeader fb ty v src dst L (if ty =? H_PacketTypeInitial then tok else []) (zlen hdrpart), 0)).
  { intros rest. subst hdrpart. norm_app. cbn [parse_header].
    change (zlen dst :: dst ++ zlen src :: src ++ tokenc ++ vappend_len L 2 ++ rest)
      with ([zlen dst] ++ dst ++ [zlen src] ++ src ++ tokenc ++ vappend_len L 2 ++ rest).
    rewrite (plh_cids fb v dst src) by (auto; right; subst fb; apply quic_bit_first; lia).
    pose proof (plh_rest_pn fb (4 + 1 + zlen dst + 1 + zlen src + zlen (tokenc ++ vappend_len L 2 ++ rest)) v src dst tok L rest Sv Nv) as R.
    rewrite Ety in R. specialize (R Hty HL (conj Htok0 Htok)). cbv zeta in R. fold tokenc in R.
    rewrite R. unfold set_parsed_len. cbn [hTypeByte hType hVersion hSrc hDst hLength hToken].
    repeat f_equal. zl. lia. }
  exists (hdrpart ++ p). split; [exact Eapp|].
  unfold parsed_header, first_byte. cbn [eHdr ePnLen ePn hVersion hType hDst hSrc hLength hToken]. fold fb.
  replace (zlen (hdrpart ++ p) - pnl) with (zlen hdrpart) by (zl; lia).
  split.
  - rewrite <- app_assoc. apply Eph.
  - unfold parse_extended. cbn [hParsedLen].
    assert (Ehd : exists rest', (hdrpart ++ p) ++ payload = fb :: rest').
    { subst hdrpart. cbn [app]. eexists. reflexivity. }
    destruct Ehd as [rest' Ehd]. rewrite Ehd. rewrite <- Ehd.
    replace (fb mod 4 + 1) with pnl by (subst fb; lia).
    rewrite ltb_false by (zl; pose proof (zlen_nonneg payload); lia).
    rewrite <- app_assoc. rewrite zskipn_app_exact.
    rewrite (read_pn_app p payload pnl Hp Lp). rewrite Up.
    replace (fb / 4 mod 4 =? 0) with true by (subst fb; lia).
    repeat f_equal. zl. lia.
Qed.

Theorem longhdr_length e v : wf_long e v ->
  exists enc, append_ext e v = (0, enc) /\ zlen enc = get_length e.
Proof.
  intros [Hver Hsup Hty Hd Hs HL Hp Htok].
  destruct (append_pn_some (ePn e) (ePnLen e) Hp) as [p [Ep [Lp Up]]].
  unfold append_ext, get_length, long_prefix.
  rewrite (gtb_false _ _ Hd), (gtb_false _ _ Hs). cbn [orb].
  rewrite (pn_type_not_retry _ Hty).
  replace ((hLength (eHdr e) <? 0) || (hLength (eHdr e) >? maxVarInt2)) with false by lia.
  rewrite Ep. eexists. split; [reflexivity|].
  rewrite vappend_len2_eq by exact HL. rewrite be4_eq.
  destruct (hType (eHdr e) =? H_PacketTypeInitial); zl.
  - rewrite <- (vappend_length (zlen (hToken (eHdr e)))) by (unfold vwf; pose proof (zlen_nonneg (hToken (eHdr e))); lia).
    fold (zlen (vappend (zlen (hToken (eHdr e))))). lia.
  - lia.
Qed.

(** Retry: Append writes no integrity tag; the parser takes everything but the last 16 bytes
    as the token and rejects an empty token. *)
Theorem retry_roundtrip e v tag :
  hVersion (eHdr e) = v -> valid_version v -> hType (eHdr e) = H_PacketTypeRetry ->
  zlen (hDst (eHdr e)) <= W_MaxConnIDLen -> zlen (hSrc (eHdr e)) <= W_MaxConnIDLen ->
  0 < zlen (hToken (eHdr e)) -> zlen tag = 16 ->
  exists enc, append_ext e v = (0, enc) /\
    parse_header (enc ++ tag)
    = Some (mkHeader (192 + 16 * type_code v H_PacketTypeRetry) H_PacketTypeRetry v (hSrc (eHdr e)) (hDst (eHdr e)) 0
                     (hToken (eHdr e)) (zlen enc + 16), 0).
Proof.
  destruct e as [h etb pnl pn epl]. destruct h as [htb ty hv src dst L tok hpl].
  cbn [eHdr ePnLen ePn hVersion hType hDst hSrc hLength hToken].
  intros Hver Hsup Hty Hd Hs Htok Htag. subst hv ty.
  destruct (valid_version_supported v Hsup) as [Sv [Nv Rv]].
  pose proof (type_code_range v H_PacketTypeRetry) as Hc.
  unfold append_ext, long_prefix. cbn [eHdr ePnLen ePn hVersion hType hDst hSrc hLength hToken].
  rewrite (gtb_false _ _ Hd), (gtb_false _ _ Hs). cbn [orb].
  change (H_PacketTypeRetry =? H_PacketTypeRetry) with true. cbv iota.
  eexists. split; [reflexivity|].
  replace (192 + 16 * type_code v H_PacketTypeRetry + 0) with (192 + 16 * type_code v H_PacketTypeRetry) by lia.
  set (fb := 192 + 16 * type_code v H_PacketTypeRetry).
  norm_app. cbn [parse_header].
  change (zlen dst :: dst ++ zlen src :: src ++ tok ++ tag)
    with ([zlen dst] ++ dst ++ [zlen src] ++ src ++ tok ++ tag).
  rewrite (plh_cids fb v) by (auto; right; subst fb; replace (192 + 16 * type_code v H_PacketTypeRetry) with (192 + 16 * type_code v H_PacketTypeRetry + 0) by lia; apply quic_bit_first; lia).
  rewrite plh_rest_retry; auto.
  2:{ subst fb. replace (192 + 16 * type_code v H_PacketTypeRetry) with (192 + 16 * type_code v H_PacketTypeRetry + 0) by lia.
      apply long_type_code; auto. lia. }
  unfold set_parsed_len. cbn [hTypeByte hType hVersion hSrc hDst hLength hToken].
  do 3 f_equal. zl. lia.
Qed.

(** ---- short header ---- *)
Definition valid_kp (kp : Z) : Prop := kp = H_KeyPhaseZero \/ kp = H_KeyPhaseOne.

Theorem shorthdr_roundtrip cid pn pnLen kp payload : 1 <= pnLen <= 4 -> valid_kp kp ->
  exists enc, append_short cid pn pnLen kp = (0, enc) /\
    zlen enc = short_header_len cid pnLen /\
    parse_short (enc ++ payload) (zlen cid) = (0, (zlen enc, pn mod 2 ^ (8 * pnLen), pnLen, kp)).
Proof.
  intros Hp Hk. destruct (append_pn_some pn pnLen Hp) as [p [Ep [Lp Up]]].
  unfold append_short, short_header_len. rewrite Ep.
  set (fb := 64 + (pnLen - 1) + (if kp =? H_KeyPhaseOne then 4 else 0)).
  assert (Hfb : 64 <= fb < 72 /\ fb mod 4 = pnLen - 1 /\ (fb / 4) mod 2 = (if kp =? H_KeyPhaseOne then 1 else 0)).
  { subst fb. destruct (kp =? H_KeyPhaseOne); lia. }
  destruct Hfb as [Rfb [Mfb Kfb]].
  eexists. split; [reflexivity|]. split; [zl; lia|].
  pose proof (zlen_nonneg cid). pose proof (zlen_nonneg payload).
  cbn [app parse_short]. unfold is_long, quic_bit.
  replace (128 <=? fb) with false by lia.
  replace (fb / 64 mod 2 =? 1) with true by lia. cbn [negb].
  rewrite Mfb. replace (pnLen - 1 + 1) with pnLen by lia.
  rewrite ltb_false by (zl; lia).
  replace (1 + zlen cid <? 0) with false by lia.
  rewrite <- app_assoc. rewrite zskipn_succ_cons.
  rewrite (read_pn_app p payload pnLen Hp Lp), Up, Kfb.
  replace (fb / 8 mod 4 =? 0) with true by lia.
  replace (1 + zlen cid + pnLen) with (zlen (fb :: cid ++ p)) by (zl; lia).
  replace (if (if kp =? H_KeyPhaseOne then 1 else 0) =? 1 then H_KeyPhaseOne else H_KeyPhaseZero) with kp
    by (destruct Hk as [-> | ->]; reflexivity).
  reflexivity.
Qed.

(** ---- Version Negotiation ---- *)
Definition is_u32 (v : Z) : Prop := 0 <= v < 2 ^ 32.

Lemma versions_of_flat gv : Forall is_u32 gv -> versions_of (flat_map (be 4) gv) = gv.
Proof.
  induction 1 as [|v gv Hv _ IH]; [reflexivity|].
  cbn [flat_map]. rewrite be4_eq. cbn [app versions_of]. rewrite IH. f_equal.
  rewrite <- be4_eq. rewrite unbe_be4. unfold is_u32 in Hv. apply Z.mod_small. exact Hv.
Qed.

Lemma zlen_flat_be4 gv : zlen (flat_map (be 4) gv) = 4 * zlen gv.
Proof. induction gv as [|v gv IH]; [reflexivity|]. cbn [flat_map]. zl. lia. Qed.

Lemma parse_arbitrary_compose fb a b c d dst src t : zlen dst <= 255 -> zlen src <= 255 ->
  parse_arbitrary (fb :: [a; b; c; d] ++ [zlen dst mod 256] ++ dst ++ [zlen src mod 256] ++ src ++ t)
  = (0, 7 + zlen dst + zlen src, dst, src).
Proof.
  intros Hd Hs. pose proof (zlen_nonneg dst). pose proof (zlen_nonneg src). pose proof (zlen_nonneg t).
  unfold parse_arbitrary. cbn [app skipn hd tl].
  rewrite !Z.mod_small by lia.
  rewrite ltb_false by (zl; lia).
  rewrite ltb_false by (zl; lia).
  rewrite zskipn_app_exact. cbn [hd tl].
  rewrite ltb_false by (zl; lia).
  rewrite !zfirstn_app_exact. do 3 f_equal. zl. lia.
Qed.

Theorem vneg_roundtrip rnd dst src gv :
  zlen dst <= 255 -> zlen src <= 255 -> gv <> [] -> Forall is_u32 gv ->
  parse_vneg (compose_vneg rnd dst src gv) = (0, dst, src, gv).
Proof.
  intros Hd Hs Hne Hgv. unfold parse_vneg, compose_vneg.
  rewrite parse_arbitrary_compose by assumption. cbn [Z.eqb negb].
  set (A := [0; 0; 0; 0] ++ [zlen dst mod 256] ++ dst ++ [zlen src mod 256] ++ src).
  assert (E : [0; 0; 0; 0] ++ [zlen dst mod 256] ++ dst ++ [zlen src mod 256] ++ src ++ flat_map (be 4) gv
              = A ++ flat_map (be 4) gv) by (subst A; norm_app; reflexivity).
  rewrite E.
  replace (7 + zlen dst + zlen src) with (1 + zlen A) by (subst A; zl; lia).
  rewrite zskipn_succ_cons.
  rewrite zlen_flat_be4.
  assert (0 < zlen gv). { destruct gv; [congruence|]. zl. pose proof (zlen_nonneg gv). lia. }
  replace (4 * zlen gv =? 0) with false by lia.
  replace (4 * zlen gv mod 4 =? 0) with true by lia. cbn [negb].
  rewrite versions_of_flat by assumption. reflexivity.
Qed.

(** the greased list GetGreasedVersions builds is never empty, so every composed packet parses *)
Lemma greased_nonempty pos rv vs : greased pos rv vs <> [].
Proof. unfold greased. destruct (zfirstn pos vs); discriminate. Qed.

Lemma greased_u32 pos rv vs : is_u32 rv -> Forall is_u32 vs -> Forall is_u32 (greased pos rv vs).
Proof.
  intros Hr Hv. unfold greased. apply Forall_app. split.
  - rewrite <- (zfirstn_skipn pos vs) in Hv. apply Forall_app in Hv. tauto.
  - constructor; [exact Hr|]. rewrite <- (zfirstn_skipn pos vs) in Hv. apply Forall_app in Hv. tauto.
Qed.

(** ---- parseLongHeader on arbitrary input ---- *)
Definition accepted (e : Z) : Prop := e = 0 \/ e = E_Unsupported.

Lemma zlen_zfirstn_max {A} n (l : list A) : zlen (zfirstn n l) <= Z.max 0 n.
Proof. unfold zfirstn, zlen. rewrite firstn_length. lia. Qed.

(* whoever gets past the connection IDs has read them from the invariant positions *)
Lemma plh_reaches tb r h l e : parse_long_header tb r = (h, l, e) -> accepted e ->
  let dl := nth 4 r 0 in
  let b1 := skipn 5 r in
  let sl := hd 0 (zskipn dl b1) in
  let b2 := zskipn (dl + 1) b1 in
  5 <= zlen r /\ dl <= W_MaxConnIDLen /\ dl + 1 <= zlen b1 /\ sl <= W_MaxConnIDLen /\ sl <= zlen b2 /\
  (unbe (firstn 4 r) 0 = 0 \/ quic_bit tb = true) /\
  plh_rest tb (zlen r) (unbe (firstn 4 r) 0) (zfirstn sl b2) (zfirstn dl b1) (zskipn sl b2) = (h, l, e).
Proof.
  unfold parse_long_header, accepted. intros E He. cbv zeta.
  destruct (Z.ltb_spec (zlen r) 5) as [H1|H1].
  { inversion E; subst. unfold E_EOF, E_Unsupported in He. lia. }
  destruct (negb (unbe (firstn 4 r) 0 =? 0) && negb (quic_bit tb)) eqn:H2.
  { inversion E; subst. unfold E_NotQUIC, E_Unsupported in He. lia. }
  destruct (Z.gtb_spec (nth 4 r 0) W_MaxConnIDLen) as [H3|H3].
  { inversion E; subst. unfold E_CIDLen, E_Unsupported in He. lia. }
  destruct (Z.ltb_spec (zlen (skipn 5 r)) (nth 4 r 0 + 1)) as [H4|H4].
  { inversion E; subst. unfold E_EOF, E_Unsupported in He. lia. }
  destruct (Z.gtb_spec (hd 0 (zskipn (nth 4 r 0) (skipn 5 r))) W_MaxConnIDLen) as [H5|H5].
  { inversion E; subst. unfold E_CIDLen, E_Unsupported in He. lia. }
  destruct (Z.ltb_spec (zlen (zskipn (nth 4 r 0 + 1) (skipn 5 r))) (hd 0 (zskipn (nth 4 r 0) (skipn 5 r)))) as [H6|H6].
  { inversion E; subst. unfold E_EOF, E_Unsupported in He. lia. }
  repeat split; try assumption; try lia.
  destruct (unbe (firstn 4 r) 0 =? 0) eqn:Ev; [left; lia|].
  right. destruct (quic_bit tb); [reflexivity|discriminate].
Qed.

Lemma plh_length_fields tb start ver ty src dst tok b4 h l e :
  plh_length tb start ver ty src dst tok b4 = (h, l, e) ->
  hDst h = dst /\ hSrc h = src /\ hVersion h = ver /\ hTypeByte h = tb /\ hType h = ty.
Proof.
  unfold plh_length. destruct (vparse b4) as [err|[[pl n] r']]; intros E; inversion E; subst; cbn; auto.
Qed.

Lemma plh_rest_fields tb start ver src dst b3 h l e :
  plh_rest tb start ver src dst b3 = (h, l, e) ->
  hDst h = dst /\ hSrc h = src /\ hVersion h = ver /\ hTypeByte h = tb.
Proof.
  unfold plh_rest. intros E.
  repeat match type of E with
  | (if ?c then _ else _) = _ => destruct c
  | match vparse ?x with _ => _ end = _ => destruct (vparse x) as [?|[[? ?] ?]]
  | plh_length _ _ _ _ _ _ _ _ = _ => apply plh_length_fields in E; tauto
  end; inversion E; subst; cbn; auto.
Qed.

Lemma plh_length_len tb start ver ty src dst tok b4 h l e :
  plh_length tb start ver ty src dst tok b4 = (h, l, e) -> accepted e -> zlen b4 <= start ->
  0 <= l <= start /\ e = 0.
Proof.
  unfold plh_length, accepted. destruct (vparse b4) as [err|[[pl n] r']] eqn:Ev; intros E He Hb; inversion E; subst.
  - destruct err; cbn in He; unfold E_EOF, E_UEOF, E_Unsupported in He; lia.
  - apply vparse_consumed in Ev. lia.
Qed.

Lemma plh_rest_len tb start ver src dst b3 h l e :
  plh_rest tb start ver src dst b3 = (h, l, e) -> accepted e -> zlen b3 <= start -> 0 <= l <= start.
Proof.
  unfold plh_rest, accepted. intros E He Hb. pose proof (zlen_nonneg b3).
  destruct (ver =? 0). { inversion E; subst. lia. }
  destruct (negb (is_supported ver)). { inversion E; subst. lia. }
  destruct (long_type ver tb =? H_PacketTypeRetry).
  { destruct (Z.leb_spec (zlen b3 - 16) 0); inversion E; subst; lia. }
  destruct (long_type ver tb =? H_PacketTypeInitial).
  - destruct (vparse b3) as [err|[[tl n] b3']] eqn:Ev.
    + inversion E; subst. lia.
    + apply vparse_consumed in Ev.
      destruct (Z.gtb_spec tl (zlen b3')).
      * inversion E; subst. pose proof (zlen_nonneg b3'). lia.
      * apply plh_length_len in E; [tauto|exact He|].
        rewrite zlen_zskipn. lia.
  - apply plh_length_len in E; [tauto|exact He|exact Hb].
Qed.

(** ---- C08_*_consumed ---- *)
Theorem parse_header_consumed b h e : parse_header b = Some (h, e) -> accepted e ->
  1 <= hParsedLen h <= zlen b.
Proof.
  destruct b as [|tb r]; [discriminate|]. cbn [parse_header].
  destruct (parse_long_header tb r) as [[h' l] e'] eqn:E. intros X He. inversion X; subst. clear X.
  destruct (plh_reaches _ _ _ _ _ E He) as [H1 [H2 [H3 [H4 [H5 [_ R]]]]]].
  pose proof (plh_rest_len _ _ _ _ _ _ _ _ _ R He) as B.
  unfold set_parsed_len. cbn [hParsedLen]. zl.
  rewrite zlen_zskipn, zlen_zskipn, zlen_skipn in B.
  assert (0 <= l <= zlen r) by (apply B; lia). lia.
Qed.

Theorem parse_packet_consumed b h pkt rest : parse_packet b = (0, Some h, pkt, rest) ->
  parse_header b = Some (h, 0) /\ pkt ++ rest = b /\
  hParsedLen h + hLength h <= zlen b /\ (0 <= hLength h -> zlen pkt = hParsedLen h + hLength h).
Proof.
  unfold parse_packet. destruct b as [|fb r]; [discriminate|].
  destruct (negb (is_long fb)); [discriminate|].
  destruct (parse_header (fb :: r)) as [[h' e]|] eqn:E; [|discriminate].
  destruct (e =? E_Unsupported) eqn:E5. { intros X; inversion X; subst. unfold E_Unsupported in E5. lia. }
  destruct (e =? 0) eqn:E0; cbn [negb]; [|intros X; inversion X; subst; lia].
  destruct (Z.ltb_spec (zlen (fb :: r)) (hParsedLen h' + hLength h')); [discriminate|].
  intros X. inversion X; subst. assert (e = 0) by lia. subst e.
  split; [reflexivity|]. split; [apply zfirstn_skipn|]. split; [assumption|].
  intros HL. apply zlen_zfirstn.
  pose proof (parse_header_consumed _ _ _ E (or_introl eq_refl)). lia.
Qed.

Theorem parse_extended_consumed h data c e : parse_extended h data = (c, Some e) -> 0 <= hParsedLen h ->
  (c = 0 \/ c = E_Reserved) /\ eHdr e = h /\ 1 <= ePnLen e <= 4 /\
  eParsedLen e = hParsedLen h + ePnLen e /\ eParsedLen e <= zlen data.
Proof.
  unfold parse_extended. destruct data as [|tb r]; [discriminate|].
  intros X Hp.
  destruct (Z.ltb_spec (zlen (tb :: r)) (hParsedLen h + (tb mod 4 + 1))); [discriminate|].
  unfold read_pn in X. replace ((1 <=? tb mod 4 + 1) && (tb mod 4 + 1 <=? 4)) with true in X by lia.
  destruct (tb / 4 mod 4 =? 0); inversion X; subst; cbn [eHdr ePnLen eParsedLen]; repeat split; auto; lia.
Qed.

Theorem parse_short_consumed data k c l pn pnLen kp : parse_short data k = (c, (l, pn, pnLen, kp)) ->
  c = 0 \/ c = E_Reserved ->
  l = 1 + k + pnLen /\ 1 <= pnLen <= 4 /\ l <= zlen data /\ valid_kp kp.
Proof.
  unfold parse_short, valid_kp. destruct data as [|fb r]; intros X Hc.
  { inversion X; subst. unfold E_EOF, E_Reserved in Hc. lia. }
  destruct (is_long fb). { inversion X; subst. unfold E_NotShort, E_Reserved in Hc. lia. }
  destruct (negb (quic_bit fb)). { inversion X; subst. unfold E_NotQUIC, E_Reserved in Hc. lia. }
  destruct (Z.ltb_spec (zlen (fb :: r)) (1 + (fb mod 4 + 1) + k)). { inversion X; subst. unfold E_EOF, E_Reserved in Hc. lia. }
  destruct (1 + k <? 0). { inversion X; subst. unfold E_Panic, E_Reserved in Hc. lia. }
  unfold read_pn in X. replace ((1 <=? fb mod 4 + 1) && (fb mod 4 + 1 <=? 4)) with true in X by lia.
  remember (1 + k) as k1 eqn:Ek1.
  injection X as Ec El Epn Epl Ekp. subst c l pn pnLen kp. zl. repeat split; try lia.
  destruct (fb / 4 mod 2 =? 1); auto.
Qed.

(** ---- ParseConnectionID agrees with the header parsers ---- *)
Theorem connid_long b h e k : parse_header b = Some (h, e) -> accepted e -> is_long (hd 0 b) = true ->
  parse_connection_id b k = (0, hDst h).
Proof.
  destruct b as [|tb r]; [discriminate|]. cbn [parse_header hd].
  destruct (parse_long_header tb r) as [[h' l] e'] eqn:E. intros X He Hl. inversion X; subst. clear X.
  destruct (plh_reaches _ _ _ _ _ E He) as [H1 [H2 [H3 [H4 [H5 [_ R]]]]]].
  apply plh_rest_fields in R. destruct R as [Rd _].
  unfold set_parsed_len. cbn [hDst]. rewrite Rd.
  unfold parse_connection_id. rewrite Hl. cbn [negb].
  rewrite ltb_false by (zl; lia).
  cbn [nth skipn].
  rewrite (gtb_false _ _ H2).
  rewrite zlen_skipn in H3.
  rewrite ltb_false by (zl; lia).
  reflexivity.
Qed.

Theorem connid_short data k c l pn pnLen kp : parse_short data k = (c, (l, pn, pnLen, kp)) ->
  c = 0 \/ c = E_Reserved -> 0 <= k <= W_MaxConnIDLen ->
  parse_connection_id data k = (0, zfirstn k (tl data)).
Proof.
  intros X Hc Hk. pose proof (parse_short_consumed _ _ _ _ _ _ _ X Hc) as [El [Hp [Hl _]]].
  unfold parse_short in X. destruct data as [|fb r].
  { inversion X; subst. unfold E_EOF, E_Reserved in Hc. lia. }
  unfold parse_connection_id.
  destruct (is_long fb). { inversion X; subst. unfold E_NotShort, E_Reserved in Hc. lia. }
  cbn [negb tl]. rewrite ltb_false by lia.
  replace ((k <? 0) || (k >? W_MaxConnIDLen)) with false by lia. reflexivity.
Qed.

(** ---- connection IDs longer than 20 bytes are rejected in long headers ---- *)
Theorem accepted_cid_lens b h e : parse_header b = Some (h, e) -> accepted e ->
  zlen (hDst h) <= W_MaxConnIDLen /\ zlen (hSrc h) <= W_MaxConnIDLen.
Proof.
  destruct b as [|tb r]; [discriminate|]. cbn [parse_header].
  destruct (parse_long_header tb r) as [[h' l] e'] eqn:E. intros X He. inversion X; subst. clear X.
  destruct (plh_reaches _ _ _ _ _ E He) as [H1 [H2 [H3 [H4 [H5 [_ R]]]]]].
  apply plh_rest_fields in R. destruct R as [Rd [Rs _]].
  unfold set_parsed_len. cbn [hDst hSrc]. rewrite Rd, Rs.
  split.
  - pose proof (zlen_zfirstn_max (nth 4 r 0) (skipn 5 r)). unfold W_MaxConnIDLen in *. lia.
  - pose proof (zlen_zfirstn_max (hd 0 (zskipn (nth 4 r 0) (skipn 5 r))) (zskipn (nth 4 r 0 + 1) (skipn 5 r))).
    unfold W_MaxConnIDLen in *. lia.
Qed.

(* the length byte at offset 5 decides, whatever the version *)
Theorem reject_dst_cid_len b k : 6 <= zlen b -> is_long (hd 0 b) = true -> nth 5 b 0 > W_MaxConnIDLen ->
  (exists h e, parse_header b = Some (h, e) /\ (e = E_NotQUIC \/ e = E_CIDLen)) /\
  (exists pcls, parse_packet b = (pcls, None, [], []) /\ (pcls = E_NotQUIC \/ pcls = E_CIDLen)) /\
  parse_connection_id b k = (E_CIDLen, []).
Proof.
  destruct b as [|tb r]; [cbn; lia|]. cbn [hd nth]. zl. intros Hl Hlong Hd.
  assert (P : exists h e, parse_header (tb :: r) = Some (h, e) /\ (e = E_NotQUIC \/ e = E_CIDLen)).
  { cbn [parse_header]. unfold parse_long_header.
    rewrite ltb_false by lia.
    destruct (negb (unbe (firstn 4 r) 0 =? 0) && negb (quic_bit tb)).
    { eexists. eexists. split; [reflexivity|]. left. reflexivity. }
    replace (nth 4 r 0 >? W_MaxConnIDLen) with true by lia.
    eexists. eexists. split; [reflexivity|]. right. reflexivity. }
  split; [exact P|]. split.
  - destruct P as [h [e [P He]]]. unfold parse_packet. rewrite Hlong. cbn [negb]. rewrite P.
    exists e. split; [|exact He].
    destruct He as [-> | ->]; reflexivity.
  - unfold parse_connection_id. rewrite Hlong. cbn [negb].
    rewrite ltb_false by (zl; lia). cbn [nth].
    replace (nth 4 r 0 >? W_MaxConnIDLen) with true by lia. reflexivity.
Qed.

(** ---- Is0RTTPacket agrees with the parsed type ---- *)
Lemma plh_rest_type tb start ver src dst b3 h l : plh_rest tb start ver src dst b3 = (h, l, 0) ->
  (ver = 0 /\ hType h = 0) \/ (ver <> 0 /\ is_supported ver = true /\ hType h = long_type ver tb).
Proof.
  unfold plh_rest. intros E.
  destruct (Z.eqb_spec ver 0) as [E0|E0]. { inversion E; subst. left. auto. }
  right. split; [exact E0|].
  destruct (is_supported ver); cbn [negb] in E; [|inversion E].
  split; [reflexivity|].
  repeat match type of E with
  | (if ?c then _ else _) = _ => destruct c
  | match vparse ?x with _ => _ end = _ => destruct (vparse x) as [?|[[? ?] ?]]
  | plh_length _ _ _ _ _ _ _ _ = _ => apply plh_length_fields in E; tauto
  end; inversion E; subst; reflexivity.
Qed.

Lemma type_bits_cases tb : type_bits tb = 0 \/ type_bits tb = 1 \/ type_bits tb = 2 \/ type_bits tb = 3.
Proof. unfold type_bits. lia. Qed.

Lemma long_type_0rtt_v1 tb : (long_type H_Version1 tb =? H_PacketType0RTT) = (type_bits tb =? 1).
Proof. unfold long_type. destruct (type_bits_cases tb) as [-> | [-> | [-> | ->]]]; reflexivity. Qed.
Lemma long_type_0rtt_v2 tb : (long_type H_Version2 tb =? H_PacketType0RTT) = (type_bits tb =? 2).
Proof. unfold long_type. destruct (type_bits_cases tb) as [-> | [-> | [-> | ->]]]; reflexivity. Qed.

Lemma supported_cases ver : is_supported ver = true -> ver = H_Version1 \/ ver = H_Version2.
Proof. unfold is_supported, H_SupportedVersions, H_Version1, H_Version2. cbn [existsb]. lia. Qed.

Theorem is_0rtt_agrees b h : parse_header b = Some (h, 0) -> is_long (hd 0 b) = true ->
  is_0rtt b = (hType h =? H_PacketType0RTT).
Proof.
  destruct b as [|tb r]; [discriminate|]. cbn [parse_header hd].
  destruct (parse_long_header tb r) as [[h' l] e'] eqn:E. intros X Hl. inversion X; subst. clear X.
  destruct (plh_reaches _ _ _ _ _ E (or_introl eq_refl)) as [H1 [_ [_ [_ [_ [_ R]]]]]].
  unfold set_parsed_len. cbn [hType].
  unfold is_0rtt. cbn [hd tl]. rewrite ltb_false by (zl; lia). rewrite Hl. cbn [negb].
  set (ver := unbe (firstn 4 r) 0) in *.
  destruct (plh_rest_type _ _ _ _ _ _ _ _ R) as [[E0 ->] | [E0 [Es ->]]].
  - rewrite E0. reflexivity.
  - destruct (supported_cases _ Es) as [-> | ->].
    + change (H_Version1 =? H_Version1) with true. cbv iota. symmetry. apply long_type_0rtt_v1.
    + change (H_Version2 =? H_Version1) with false. change (H_Version2 =? H_Version2) with true. cbv iota.
      symmetry. apply long_type_0rtt_v2.
Qed.

(** ---- the statements of Props/C08.v with their hypotheses spelled out ---- *)
Lemma longhdr_roundtrip_full : forall e v payload,
  hVersion (eHdr e) = v -> (v = H_Version1 \/ v = H_Version2) ->
  (hType (eHdr e) = H_PacketTypeInitial \/ hType (eHdr e) = H_PacketTypeHandshake \/ hType (eHdr e) = H_PacketType0RTT) ->
  zlen (hDst (eHdr e)) <= W_MaxConnIDLen -> zlen (hSrc (eHdr e)) <= W_MaxConnIDLen ->
  0 <= hLength (eHdr e) <= maxVarInt2 -> 1 <= ePnLen e <= 4 -> zlen (hToken (eHdr e)) <= maxVarInt8 ->
  exists enc, append_ext e v = (0, enc) /\
    let fb := 192 + 16 * type_code v (hType (eHdr e)) + (ePnLen e - 1) in
    let h' := mkHeader fb (hType (eHdr e)) v (hSrc (eHdr e)) (hDst (eHdr e)) (hLength (eHdr e))
                (if hType (eHdr e) =? H_PacketTypeInitial then hToken (eHdr e) else []) (zlen enc - ePnLen e) in
    parse_header (enc ++ payload) = Some (h', 0) /\
    parse_extended h' (enc ++ payload) = (0, Some (mkExt h' fb (ePnLen e) (ePn e mod 2 ^ (8 * ePnLen e)) (zlen enc))).
Proof.
  intros e v payload H1 H2 H3 H4 H5 H6 H7 H8.
  exact (longhdr_roundtrip e v payload (Build_wf_long e v H1 H2 H3 H4 H5 H6 H7 H8)).
Qed.

Lemma longhdr_length_full : forall e v,
  hVersion (eHdr e) = v -> (v = H_Version1 \/ v = H_Version2) ->
  (hType (eHdr e) = H_PacketTypeInitial \/ hType (eHdr e) = H_PacketTypeHandshake \/ hType (eHdr e) = H_PacketType0RTT) ->
  zlen (hDst (eHdr e)) <= W_MaxConnIDLen -> zlen (hSrc (eHdr e)) <= W_MaxConnIDLen ->
  0 <= hLength (eHdr e) <= maxVarInt2 -> 1 <= ePnLen e <= 4 -> zlen (hToken (eHdr e)) <= maxVarInt8 ->
  exists enc, append_ext e v = (0, enc) /\ zlen enc = get_length e.
Proof.
  intros e v H1 H2 H3 H4 H5 H6 H7 H8. exact (longhdr_length e v (Build_wf_long e v H1 H2 H3 H4 H5 H6 H7 H8)).
Qed.

Lemma vneg_greased_roundtrip : forall rnd dst src pos rv versions,
  zlen dst <= 255 -> zlen src <= 255 -> 0 <= rv < 2 ^ 32 -> Forall (fun v => 0 <= v < 2 ^ 32) versions ->
  parse_vneg (compose_vneg rnd dst src (greased pos rv versions)) = (0, dst, src, greased pos rv versions).
Proof.
  intros rnd dst src pos rv versions Hd Hs Hr Hv.
  exact (vneg_roundtrip rnd dst src _ Hd Hs (greased_nonempty pos rv versions) (greased_u32 pos rv versions Hr Hv)).
Qed.

(** ---- parse -> Append -> parse is a fixpoint (long headers with a packet number) ---- *)
Lemma Forall_firstn {A} (P : A -> Prop) n l : Forall P l -> Forall P (firstn n l).
Proof.
  revert l; induction n as [|n IH]; intros l H; [constructor|].
  destruct l as [|x l]; [constructor|]. inversion H; subst. cbn [firstn]. constructor; auto.
Qed.
Lemma Forall_skipn {A} (P : A -> Prop) n l : Forall P l -> Forall P (skipn n l).
Proof.
  revert l; induction n as [|n IH]; intros l H; [exact H|].
  destruct l as [|x l]; [constructor|]. inversion H; subst. cbn [skipn]. auto.
Qed.

Lemma unbe_nonneg l : Forall is_byte l -> forall acc, 0 <= acc -> 0 <= unbe l acc.
Proof.
  induction 1 as [|b l Hb _ IH]; intros acc Ha; cbn [unbe]; [exact Ha|].
  apply IH. unfold is_byte in Hb. lia.
Qed.

Lemma vparse_nonneg b v n r : vparse b = inr (v, n, r) -> Forall is_byte b -> 0 <= v.
Proof.
  destruct b as [|f t]; [discriminate|]. cbn [vparse]. intros E Hb. inversion Hb as [|? ? Hf Ht]; subst.
  destruct (_ <? _)%nat; [discriminate|]. inversion E; subst.
  apply unbe_nonneg; [apply Forall_firstn; exact Ht|]. unfold is_byte in Hf. lia.
Qed.

(* a packet number of pnLen bytes is below 2^(8*pnLen) *)
Lemma unbe_pn_range l pnLen : Forall is_byte l -> zlen l = pnLen -> 1 <= pnLen <= 4 ->
  0 <= unbe l 0 < 2 ^ (8 * pnLen).
Proof.
  intros Hb Hl Hp. subst pnLen. unfold is_byte in Hb.
  destruct l as [|a [|b [|c [|d [|e l]]]]]; zl; try (pose proof (zlen_nonneg l)); try lia;
    repeat match goal with H : Forall _ (_ :: _) |- _ => inversion H; clear H; subst end;
    cbn [unbe].
  - change (2 ^ (8 * (1 + 0))) with 256. lia.
  - change (2 ^ (8 * (1 + (1 + 0)))) with 65536. lia.
  - change (2 ^ (8 * (1 + (1 + (1 + 0))))) with 16777216. lia.
  - change (2 ^ (8 * (1 + (1 + (1 + (1 + 0)))))) with 4294967296. lia.
Qed.

Lemma plh_length_token tb start ver ty src dst tok b4 h l e :
  plh_length tb start ver ty src dst tok b4 = (h, l, e) -> hToken h = tok.
Proof.
  unfold plh_length. destruct (vparse b4) as [err|[[pl n] r']]; intros E; inversion E; subst; reflexivity.
Qed.

Lemma plh_length_nonneg tb start ver ty src dst tok b4 h l :
  plh_length tb start ver ty src dst tok b4 = (h, l, 0) -> Forall is_byte b4 -> 0 <= hLength h.
Proof.
  unfold plh_length. destruct (vparse b4) as [err|[[pl n] r']] eqn:Ev; intros E Hb; inversion E; subst.
  - cbn [hLength]. lia.
  - cbn [hLength]. eapply vparse_nonneg; eauto.
Qed.

(* what a successfully parsed header with a packet number looks like *)
Lemma plh_rest_pn_facts tb start ver src dst b3 h l :
  plh_rest tb start ver src dst b3 = (h, l, 0) -> pn_type (hType h) -> Forall is_byte b3 ->
  valid_version ver /\ 0 <= hLength h /\ zlen (hToken h) <= zlen b3 /\
  (hType h =? H_PacketTypeInitial = false -> hToken h = []).
Proof.
  intros E Ht Hb.
  destruct (plh_rest_type _ _ _ _ _ _ _ _ E) as [[_ E0] | [Nv [Sv Ety]]].
  { rewrite E0 in Ht. destruct Ht as [X | [X | X]]; discriminate X. }
  split; [apply supported_cases; exact Sv|].
  unfold plh_rest in E. replace (ver =? 0) with false in E by lia. rewrite Sv in E. cbn [negb] in E.
  rewrite <- Ety in E. rewrite (pn_type_not_retry _ Ht) in E.
  destruct (hType h =? H_PacketTypeInitial) eqn:Ei.
  - destruct (vparse b3) as [err|[[tl n] b3']] eqn:Ev.
    { inversion E as [[X Y Z]]; destruct err; try discriminate Z. }
    pose proof (vparse_consumed _ _ _ _ Ev) as [Hn Hr].
    destruct (tl >? zlen b3'). { inversion E as [[X Y Z]]; try discriminate Z. }
    assert (Hb3' : Forall is_byte b3').
    { destruct b3 as [|f t]; [discriminate|]. cbn [vparse] in Ev. destruct (_ <? _)%nat; [discriminate|].
      inversion Ev; subst. apply Forall_skipn. inversion Hb; assumption. }
    split; [eapply plh_length_nonneg; [exact E|apply Forall_skipn; exact Hb3']|].
    apply plh_length_token in E. rewrite E. split; [|discriminate].
    pose proof (zlen_zfirstn_le tl b3'). lia.
  - split; [eapply plh_length_nonneg; eauto|].
    apply plh_length_token in E. rewrite E. split; [apply zlen_nonneg|reflexivity].
Qed.

Lemma parsed_pn_facts b h : Forall is_byte b -> parse_header b = Some (h, 0) -> pn_type (hType h) ->
  valid_version (hVersion h) /\ 0 <= hLength h /\ zlen (hToken h) <= zlen b /\
  (hType h =? H_PacketTypeInitial = false -> hToken h = []).
Proof.
  intros Hb Eh Hty.
  destruct b as [|tb r]; [discriminate|]. cbn [parse_header] in Eh.
  destruct (parse_long_header tb r) as [[h' l] e'] eqn:E. injection Eh as Eh' Ee. subst e'.
  destruct (plh_reaches _ _ _ _ _ E (or_introl eq_refl)) as [_ [_ [_ [_ [_ [_ R]]]]]].
  pose proof (plh_rest_fields _ _ _ _ _ _ _ _ _ R) as [_ [_ [Rv _]]].
  inversion Hb as [|? ? _ Hr]; subst.
  assert (Hb3 : Forall is_byte (zskipn (hd 0 (zskipn (nth 4 r 0) (skipn 5 r))) (zskipn (nth 4 r 0 + 1) (skipn 5 r))))
    by (repeat apply Forall_skipn; exact Hr).
  unfold set_parsed_len in *. cbn [hType hVersion hLength hToken] in *.
  destruct (plh_rest_pn_facts _ _ _ _ _ _ _ _ R Hty Hb3) as [F1 [F2 [F3 F4]]].
  rewrite Rv. repeat split; auto.
  rewrite !zlen_zskipn, zlen_skipn in F3. zl. pose proof (zlen_nonneg r). lia.
Qed.

Theorem longhdr_reencode b h c x payload :
  Forall is_byte b -> zlen b <= maxVarInt8 ->
  parse_header b = Some (h, 0) -> pn_type (hType h) -> hLength h <= maxVarInt2 ->
  parse_extended h b = (c, Some x) ->
  exists enc, append_ext x (hVersion h) = (0, enc) /\ zlen enc = get_length x /\
    let fb := first_byte x (hVersion h) in
    let h2 := mkHeader fb (hType h) (hVersion h) (hSrc h) (hDst h) (hLength h) (hToken h) (zlen enc - ePnLen x) in
    parse_header (enc ++ payload) = Some (h2, 0) /\
    parse_extended h2 (enc ++ payload) = (0, Some (mkExt h2 fb (ePnLen x) (ePn x) (zlen enc))).
Proof.
  intros Hb Hlen Eh Hty HL Ex.
  pose proof (parse_header_consumed _ _ _ Eh (or_introl eq_refl)) as Hpl.
  destruct (parse_extended_consumed _ _ _ _ Ex ltac:(lia)) as [_ [Exh [Hp [Epl Hdl]]]].
  pose proof (accepted_cid_lens _ _ _ Eh (or_introl eq_refl)) as [Hd Hs].
  pose proof (parsed_pn_facts b h Hb Eh Hty) as F.
  destruct F as [Fv [FL [Ftok Fnil]]].
  (* the packet number read from pnLen bytes is in range *)
  assert (Hpn : ePn x mod 2 ^ (8 * ePnLen x) = ePn x).
  { unfold parse_extended in Ex. destruct b as [|tb r]; [discriminate|].
    destruct (Z.ltb_spec (zlen (tb :: r)) (hParsedLen h + (tb mod 4 + 1))) as [|Hge]; [discriminate|].
    unfold read_pn in Ex. replace ((1 <=? tb mod 4 + 1) && (tb mod 4 + 1 <=? 4)) with true in Ex by lia.
    assert (R : 0 <= unbe (zfirstn (tb mod 4 + 1) (zskipn (hParsedLen h) (tb :: r))) 0 < 2 ^ (8 * (tb mod 4 + 1))).
    { apply unbe_pn_range; [apply Forall_firstn, Forall_skipn; exact Hb| |lia].
      apply zlen_zfirstn. rewrite zlen_zskipn. lia. }
    destruct (tb / 4 mod 4 =? 0); inversion Ex; subst; cbn [ePn ePnLen]; apply Z.mod_small; exact R. }
  assert (W : wf_long x (hVersion h)).
  { constructor; rewrite ?Exh; auto; try lia. }
  destruct (longhdr_roundtrip x (hVersion h) payload W) as [enc [Ea [Ep Ee]]].
  destruct (longhdr_length x (hVersion h) W) as [enc' [Ea' El]].
  rewrite Ea in Ea'. inversion Ea'; subst enc'. clear Ea'.
  exists enc. split; [exact Ea|]. split; [exact El|]. cbv zeta.
  unfold parsed_header in Ep, Ee. rewrite Exh, Hpn in *.
  assert (Et : (if hType h =? H_PacketTypeInitial then hToken h else []) = hToken h).
  { destruct (hType h =? H_PacketTypeInitial) eqn:Ei; [reflexivity|]. symmetry. apply Fnil. reflexivity. }
  rewrite Et in *. split; [exact Ep|exact Ee].
Qed.
