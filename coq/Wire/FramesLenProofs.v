(** The reported counts are exactly the bytes consumed (for byte inputs), for every frame kind, and
    the frame loop that advances by the reported counts is the parser of the other theorems. *)
From Coq Require Import List ZArith Bool Lia.
From V Require Import Gen.Params Lib.Hex Wire.Varint Wire.VarintProofs Wire.FramesBase Wire.FramesBaseProofs
  Wire.FramesCtl Wire.FramesStream Wire.FramesAck Wire.Frames Wire.FramesConsumedProofs Wire.FramesReencodeProofs Wire.FramesLen.
Import ListNotations.
Open Scope Z_scope.

Lemma bindv_inv {A} b (k : Z -> list Z -> res A) x : bytes b -> bindv b k = Ok x ->
  exists v l r, vl b = (v, l, r) /\ zlen b = l + zlen r /\ 1 <= l /\ 0 <= v /\ bytes r /\ k v r = Ok x.
Proof.
  intros Hb H. unfold bindv in H. unfold vl. destruct (vparse b) as [e|[[v l] r]] eqn:E; [discriminate|].
  pose proof (vparse_rest_len _ _ _ _ E) as (L & Hl). pose proof (vparse_vwf _ _ _ _ Hb E) as (V & _).
  destruct (vparse_suffix _ _ _ _ E) as (S & _).
  exists v, l, r. repeat split; try assumption. eapply bytes_suffix; eassumption.
Qed.

Lemma zlen_skipn_z {A} n (b : list A) : 0 <= n <= zlen b -> zlen (skipn (Z.to_nat n) b) = zlen b - n.
Proof. intros H. unfold zlen in *. rewrite skipn_length. lia. Qed.

Lemma take_inv {A} n b (k : list Z -> list Z -> res A) x : 0 <= n -> take n b k = Ok x ->
  n <= zlen b /\ k (firstn (Z.to_nat n) b) (skipn (Z.to_nat n) b) = Ok x /\ zlen (skipn (Z.to_nat n) b) = zlen b - n.
Proof.
  intros Hn H. unfold take in H. destruct (Z.ltb_spec (zlen b) n); [discriminate|].
  split; [lia|]. split; [exact H | apply zlen_skipn_z; lia].
Qed.

Ltac bi H := let v := fresh "v" in let l := fresh "l" in let r := fresh "r" in let Ev := fresh "Ev" in
  let L := fresh "L" in let P := fresh "P" in let Hl := fresh "Hl" in let B := fresh "B" in
  apply bindv_inv in H; [destruct H as (v & l & r & Ev & L & Hl & P & B & H); cbv beta in H | assumption].

Lemma rep_one_exact (k : Z -> frame) (c : Z -> bool) e b f rest : bytes b ->
  bindv b (fun v b' => if c v then Err e 0 else Ok (k v, b')) = Ok (f, rest) -> rep_one b = zlen b - zlen rest.
Proof. intros Hb H. bi H. destruct (c v); [discriminate|]. inversion H; subst. unfold rep_one. rewrite Ev. cbv beta iota zeta. lia. Qed.

Lemma rep_two_exact (k : Z -> Z -> frame) b f rest : bytes b ->
  bindv b (fun s b1 => bindv b1 (fun v b2 => Ok (k s v, b2))) = Ok (f, rest) -> rep_two b = zlen b - zlen rest.
Proof. intros Hb H. bi H. bi H. inversion H; subst. unfold rep_two. rewrite Ev, Ev0. cbv beta iota zeta. lia. Qed.

Lemma rep_ack_loop_exact fuel : forall n s b rs r, bytes b ->
  ack_loop fuel n s b = Ok (rs, r) -> rep_ack_loop fuel n b = (zlen b - zlen r, r).
Proof.
  induction fuel as [|fuel IH]; intros n s b rs r Hb H; cbn [ack_loop rep_ack_loop] in *.
  - destruct (n <=? 0); [inversion H; subst; f_equal; lia | discriminate].
  - destruct (n <=? 0); [inversion H; subst; f_equal; lia|].
    bi H. destruct (s <? v + 2); [discriminate|]. bi H. destruct (s - v - 2 <? v0); [discriminate|].
    destruct (ack_loop fuel (n - 1) (s - v - 2 - v0) r1) as [[rs' b']|] eqn:E; [|discriminate].
    inversion H; subst. rewrite Ev, Ev0. rewrite (IH _ _ _ _ _ B0 E). f_equal. lia.
Qed.

Local Opaque firstn skipn.

Theorem reported_body_exact c lvl t b f rest : bytes b ->
  parse_body c lvl t b = Ok (f, rest) -> reported_body t b = zlen b - zlen rest.
Proof.
  intros Hb H. unfold parse_body in H.
  destruct (is_stream_type t) eqn:Es.
  { unfold reported_body. rewrite Es. unfold parse_stream in H. unfold rep_stream. bi H. rewrite Ev.
    assert (exists lo b2, (if Z.testbit t 2 then (let '(_, l0, r0) := vl r in (l0, r0)) else (0, r)) = (lo, b2) /\
              zlen r = lo + zlen b2 /\ bytes b2 /\
              (if Z.testbit t 1
               then bindv b2 (fun dl b' => if zlen b' <? dl then Err E_EOF 0 else stream_tail v (if Z.testbit t 2 then fst (fst (vl r)) else 0) (Z.testbit t 0) true dl b')
               else stream_tail v (if Z.testbit t 2 then fst (fst (vl r)) else 0) (Z.testbit t 0) false (zlen b2) b2) = Ok (f, rest))
      as (lo & b2 & -> & L2 & B2 & H2).
    { destruct (Z.testbit t 2); cbn [bindv_if] in H.
      - bi H. rewrite Ev0. cbn [fst]. eauto 8.
      - exists 0, r. repeat split; try assumption; lia. }
    clear H. destruct (Z.testbit t 1).
    - bi H2. rewrite Ev0. destruct (Z.ltb_spec (zlen r0) v0); [discriminate|].
      unfold stream_tail in H2. destruct (_ && _); [discriminate|]. destruct (_ <? _); [discriminate|].
      inversion H2; subst. rewrite zlen_skipn_z by lia. lia.
    - unfold stream_tail in H2. destruct (_ && _); [discriminate|]. destruct (_ <? _); [discriminate|].
      inversion H2; subst. rewrite zlen_skipn_z by (pose proof (zlen_nonneg b2); lia). lia. }
  destruct (is_ack_type t) eqn:Ea.
  { unfold reported_body. rewrite Es, Ea. unfold parse_ack in H. unfold rep_ack. bi H. bi H. bi H. bi H. rewrite Ev, Ev0, Ev1, Ev2.
    destruct (v <? v2); [discriminate|].
    destruct (ack_loop (S (length r2)) v1 (v - v2) r2) as [[rs b5]|] eqn:E; [|discriminate].
    pose proof (ack_loop_suffix _ _ _ _ _ _ E) as S5. assert (B5 : bytes b5) by (eapply bytes_suffix; eassumption).
    rewrite (rep_ack_loop_exact _ _ _ _ _ _ B2 E).
    destruct (negb _); [discriminate|].
    destruct (t =? FT_AckECN).
    - bi H. bi H. bi H. inversion H; subst. rewrite Ev3, Ev4, Ev5. cbv beta iota zeta. lia.
    - inversion H; subst. lia. }
  destruct (is_datagram_type t) eqn:Ed.
  { unfold reported_body. rewrite Es, Ea, Ed. unfold parse_datagram in H. unfold rep_datagram. destruct (Z.testbit t 0).
    - bi H. rewrite Ev. apply take_inv in H; [|assumption]. destruct H as (_ & H & Z0). inversion H; subst. lia.
    - inversion H; subst. change (zlen (@nil Z)) with 0. lia. }
  unfold parse_less_common in H.
  repeat match type of H with
         | (if ?t =? ?k then _ else _) = _ => destruct (Z.eqb_spec t k); [subst t|]
         end; try discriminate;
  repeat match goal with Hn : _ <> _ |- _ => clear Hn end;
  first [ change (reported_body _ b) with 0 | change (reported_body _ b) with 8
        | change (reported_body _ b) with (rep_one b) | change (reported_body _ b) with (rep_two b)
        | change (reported_body _ b) with (rep_reset false b) | change (reported_body _ b) with (rep_reset true b)
        | change (reported_body _ b) with (rep_crypto b) | change (reported_body _ b) with (rep_new_token b)
        | change (reported_body _ b) with (rep_new_cid b)
        | change (reported_body _ b) with (rep_conn_close false b) | change (reported_body _ b) with (rep_conn_close true b)
        | change (reported_body _ b) with (rep_ack_frequency b) ].
  - inversion H; subst. lia.
  - unfold parse_reset_stream in H. cbn [bindv_if] in H. bi H. bi H. bi H. destruct (_ <? _); [discriminate|].
    inversion H; subst. unfold rep_reset. rewrite Ev, Ev0, Ev1. cbv beta iota zeta. lia.
  - eapply (rep_two_exact FStopSending); [exact Hb | exact H].
  - unfold parse_crypto in H. bi H. bi H. apply take_inv in H; [|assumption]. destruct H as (_ & H & Z0).
    inversion H; subst. unfold rep_crypto. rewrite Ev, Ev0. cbv beta iota zeta. lia.
  - unfold parse_new_token in H. bi H. destruct (v =? 0); [discriminate|]. apply take_inv in H; [|assumption].
    destruct H as (_ & H & Z0). inversion H; subst. unfold rep_new_token. rewrite Ev. cbv beta iota zeta. lia.
  - eapply (rep_one_exact FMaxData (fun _ => false) 0); [exact Hb | exact H].
  - eapply (rep_two_exact FMaxStreamData); [exact Hb | exact H].
  - eapply (rep_one_exact (FMaxStreams false) (fun n => W_MaxStreamCount <? n) 13); [exact Hb | exact H].
  - eapply (rep_one_exact (FMaxStreams true) (fun n => W_MaxStreamCount <? n) 13); [exact Hb | exact H].
  - eapply (rep_one_exact FDataBlocked (fun _ => false) 0); [exact Hb | exact H].
  - eapply (rep_two_exact FStreamDataBlocked); [exact Hb | exact H].
  - eapply (rep_one_exact (FStreamsBlocked false) (fun n => W_MaxStreamCount <? n) 13); [exact Hb | exact H].
  - eapply (rep_one_exact (FStreamsBlocked true) (fun n => W_MaxStreamCount <? n) 13); [exact Hb | exact H].
  - unfold parse_new_cid in H. bi H. bi H. destruct (v <? v0); [discriminate|]. unfold rep_new_cid. rewrite Ev, Ev0. cbv beta iota zeta.
    destruct r0 as [|x r0]; [discriminate|]. cbn [hd].
    inversion B0 as [|? ? Hx Br0]; subst. unfold is_byte in Hx.
    destruct (x =? 0); [discriminate|]. destruct (W_MaxConnIDLen <? x); [discriminate|].
    apply take_inv in H; [|lia]. destruct H as (_ & H & Z1). apply take_inv in H; [|lia]. destruct H as (_ & H & Z2).
    inversion H; subst. rewrite zlen_cons in *. change (Pos.to_nat 16) with (Z.to_nat 16). lia.
  - eapply (rep_one_exact FRetireConnectionID (fun _ => false) 0); [exact Hb | exact H].
  - unfold parse_path_challenge in H. apply take_inv in H; [|lia]. destruct H as (_ & H & Z0). inversion H; subst. change (Pos.to_nat 8) with (Z.to_nat 8). lia.
  - unfold parse_path_response in H. apply take_inv in H; [|lia]. destruct H as (_ & H & Z0). inversion H; subst. change (Pos.to_nat 8) with (Z.to_nat 8). lia.
  - unfold parse_conn_close in H. cbn [negb bindv_if] in H. bi H. bi H. bi H. apply take_inv in H; [|assumption].
    destruct H as (_ & H & Z0). inversion H; subst. unfold rep_conn_close, rep_crypto. rewrite Ev, Ev0, Ev1. cbv beta iota zeta. lia.
  - unfold parse_conn_close in H. cbn [negb bindv_if] in H. bi H. bi H. apply take_inv in H; [|assumption].
    destruct H as (_ & H & Z0). inversion H; subst. unfold rep_conn_close, rep_crypto. rewrite Ev, Ev0. cbv beta iota zeta. lia.
  - inversion H; subst. lia.
  - unfold parse_reset_stream in H. cbn [bindv_if] in H. bi H. bi H. bi H. bi H. destruct (_ <? _); [discriminate|].
    inversion H; subst. unfold rep_reset. rewrite Ev, Ev0, Ev1, Ev2. cbv beta iota zeta. lia.
  - unfold parse_ack_frequency in H. bi H. bi H. bi H. bi H. inversion H; subst. unfold rep_ack_frequency, rep_reset.
    rewrite Ev, Ev0, Ev1, Ev2. cbv beta iota zeta. lia.
  - inversion H; subst. lia.
Qed.

Local Transparent firstn skipn.

Lemma parse_type_reported fuel : forall c lvl b p t n r,
  parse_type fuel c lvl b p = Ok (t, n, r) -> n = p + (zlen b - zlen r).
Proof.
  induction fuel as [|fuel IH]; intros c lvl b p t n r H.
  - destruct b; discriminate.
  - destruct b as [|x b0]; [discriminate|]. cbn [parse_type] in H.
    destruct (vparse (x :: b0)) as [e|[[v l] r']] eqn:E; [discriminate|].
    pose proof (vparse_rest_len _ _ _ _ E) as (L & _).
    destruct (v =? 0); [apply IH in H; lia|].
    destruct (negb (type_valid c v)); [discriminate|]. destruct (negb (type_allowed lvl v)); [discriminate|].
    inversion H; subst. lia.
Qed.

Lemma skipn_suffix (r b : list Z) : suffix_of r b -> skipn (Z.to_nat (zlen b - zlen r)) b = r.
Proof.
  intros (pre & ->). rewrite zlen_app. replace (zlen pre + zlen r - zlen r) with (zlen pre) by lia.
  apply skipn_zlen_app.
Qed.

(** advancing by the reported counts is the same as handing over the rest: the frame loop of the
    connection (which slices by what ParseType and the body parser report) and the parser the other
    theorems speak about coincide on every byte string *)
Theorem parse_next_rep_eq c lvl b : bytes b -> parse_next_rep c lvl b = parse_next c lvl b.
Proof.
  intros Hb. unfold parse_next_rep, parse_next.
  destruct (parse_type (length b) c lvl b 0) as [[[t lt] r]|e n] eqn:Et; [|reflexivity].
  destruct (parse_body c lvl t r) as [[f rest]|e n] eqn:Eb; [|reflexivity].
  pose proof (parse_type_reported _ _ _ _ _ _ _ _ Et) as Elt.
  destruct (parse_type_suffix _ _ _ _ _ _ _ _ Et) as (S & _).
  assert (Br : bytes r) by (eapply bytes_suffix; eassumption).
  pose proof (reported_body_exact c lvl t r f rest Br Eb) as El.
  pose proof (parse_body_suffix _ _ _ _ _ _ Eb) as S2.
  rewrite El, Elt. replace (0 + (zlen b - zlen r)) with (zlen b - zlen r) by lia.
  rewrite (skipn_suffix r b S), (skipn_suffix rest r S2).
  replace (zlen b - zlen r + (zlen r - zlen rest)) with (zlen b - zlen rest) by lia. reflexivity.
Qed.

(** hence: the count a successful parse reports is the sum of what ParseType and the body parser
    report, and it is exactly the number of bytes in front of the rest *)
Corollary reported_count_exact c lvl b f n rest : bytes b ->
  parse_next_rep c lvl b = Ok (f, n, rest) -> suffix_of rest b /\ n = zlen b - zlen rest /\ 0 < n <= zlen b.
Proof. intros Hb H. rewrite parse_next_rep_eq in H by exact Hb. eapply parse_next_consumed; exact H. Qed.
