(** Session tickets (model Wire/Tickets.v) and the structure of address-validation tokens
    (model AmpToken/TokenModel.v, built and tied to the code by C14 — reused, not duplicated):
    round trips and rejections. *)
From Coq Require Import List ZArith Bool Lia.
From V Require Import Gen.Params Lib.Hex Wire.Varint Wire.VarintProofs Wire.FramesBase Wire.TParams Wire.TParamsProofs
  Wire.TParamsRoundtrip Wire.TParamsPrefix Wire.Tickets AmpToken.TokenModel AmpToken.TokenProofs.
Import ListNotations.
Open Scope Z_scope.

Lemma vwf_revision : vwf TK_Revision.
Proof. vm_compute. split; discriminate. Qed.

(** ---- session tickets ---- *)

Theorem ticket_codec_roundtrip p :
  tp_wf_ticket p -> ticket_unmarshal (ticket_marshal p) = Ok (tp_norm_ticket p).
Proof.
  intros W. unfold ticket_unmarshal, ticket_marshal.
  rewrite (vparse_vappend TK_Revision _ vwf_revision). rewrite Z.eqb_refl. cbn [negb].
  rewrite (ticket_roundtrip p W). reflexivity.
Qed.

Theorem ticket_reject_empty : ticket_unmarshal [] = Err E_TK_READ 0.
Proof. reflexivity. Qed.

Theorem ticket_reject_revision rev rest :
  vwf rev -> rev <> TK_Revision -> ticket_unmarshal (vappend rev ++ rest) = Err E_TK_REVISION rev.
Proof.
  intros V N. unfold ticket_unmarshal. rewrite (vparse_vappend rev rest V).
  destruct (Z.eqb_spec rev TK_Revision); [contradiction | reflexivity].
Qed.

Theorem ticket_reject_param_version v rest :
  vwf v -> v <> TP_MarshalVersion ->
  ticket_unmarshal (vappend TK_Revision ++ vappend v ++ rest) = Err E_TK_PARAMS 0.
Proof.
  intros V N. unfold ticket_unmarshal. rewrite (vparse_vappend TK_Revision _ vwf_revision). rewrite Z.eqb_refl. cbn [negb].
  unfold unmarshal_ticket. rewrite (vparse_vappend v rest V).
  destruct (Z.eqb_spec v TP_MarshalVersion); [contradiction | reflexivity].
Qed.

(** the parameters of a ticket as a list of (id, value) pairs *)
Definition ticket_ps (p : tparams) : list (Z * list Z) :=
  [(TP_ID_imsd_bl, vappend (tp_imsd_bl p)); (TP_ID_imsd_br, vappend (tp_imsd_br p));
   (TP_ID_imsd_uni, vappend (tp_imsd_uni p)); (TP_ID_imd, vappend (tp_imd p));
   (TP_ID_mbs, vappend (tp_mbs p)); (TP_ID_mus, vappend (tp_mus p)); (TP_ID_acil, vappend (tp_acil p))]
  ++ (if negb (tp_mdfs p =? TP_InvalidByteCount) then [(TP_ID_mdfs, vappend (tp_mdfs p))] else [])
  ++ (if tp_rsa p then [(TP_ID_rsa, [])] else []).

Lemma ticket_values_vwf p : tp_wf_ticket p ->
  vwf (tp_imsd_bl p) /\ vwf (tp_imsd_br p) /\ vwf (tp_imsd_uni p) /\ vwf (tp_imd p) /\ vwf (tp_mbs p) /\ vwf (tp_mus p) /\
  vwf (tp_acil p) /\ (tp_mdfs p =? TP_InvalidByteCount = false -> vwf (tp_mdfs p)).
Proof.
  intros (H1 & H2 & H3 & H4 & H5 & H6 & H7 & H8 & _). unfold vwf, TP_MaxStreamCount, maxVarInt8 in *.
  repeat split; try lia. all: intros E; apply Z.eqb_neq in E; destruct H8; [contradiction | lia].
Qed.

Lemma marshal_ticket_params p : tp_wf_ticket p ->
  marshal_ticket p = vappend TP_MarshalVersion ++ enc_params (ticket_ps p).
Proof.
  intros W. pose proof (ticket_values_vwf p W) as (V1 & V2 & V3 & V4 & V5 & V6 & V7 & V8).
  destruct W as (_ & _ & _ & _ & _ & _ & _ & _ & Ho). unfold marshal_ticket, ticket_ps. rewrite Ho.
  destruct (negb (tp_mdfs p =? TP_InvalidByteCount)) eqn:E; destruct (tp_rsa p);
    rewrite !enc_varint_param_eq by (try assumption; apply V8; apply negb_true_iff; exact E);
    unfold enc_params; cbn [flat_map fst snd app]; rewrite <- ?app_assoc, ?app_nil_r; reflexivity.
Qed.

Lemma ticket_ps_wf p : tp_wf_ticket p -> params_wf (ticket_ps p) /\ Forall is_byte (enc_params (ticket_ps p)).
Proof.
  intros W. pose proof (ticket_values_vwf p W) as (V1 & V2 & V3 & V4 & V5 & V6 & V7 & V8).
  assert (P : forall id v, vwf id -> vwf v -> param_wf (id, vappend v) /\ Forall is_byte (enc_param id (vappend v))).
  { intros id v Hi Hv. split.
    - split; [exact Hi|]. cbn [snd]. rewrite zlen_vappend by exact Hv. apply vwf_vlen; exact Hv.
    - unfold enc_param. rewrite zlen_vappend by exact Hv.
      repeat (apply Forall_app; split); apply vappend_bytes; try assumption. apply vwf_vlen; exact Hv. }
  assert (I : forall id, In id [TP_ID_imsd_bl; TP_ID_imsd_br; TP_ID_imsd_uni; TP_ID_imd; TP_ID_mbs; TP_ID_mus; TP_ID_acil; TP_ID_mdfs; TP_ID_rsa] -> vwf id).
  { intros id H. cbn [In] in H. repeat (destruct H as [<-|H]; [vm_compute; split; discriminate|]). contradiction. }
  assert (Prsa : param_wf (TP_ID_rsa, []) /\ Forall is_byte (enc_param TP_ID_rsa [])).
  { split; [split; vm_compute; split; discriminate | vm_compute; repeat constructor; discriminate]. }
  unfold ticket_ps, params_wf, enc_params.
  destruct (negb (tp_mdfs p =? TP_InvalidByteCount)) eqn:E; destruct (tp_rsa p); cbn [app flat_map fst snd];
    (split; [repeat constructor | rewrite ?app_nil_r; repeat (apply Forall_app; split)]);
    try (apply P; [apply I; cbn; tauto | first [assumption | apply V8; apply negb_true_iff; exact E]]);
    try apply Prsa; try (constructor; fail);
    try (assert (Vm : vwf (tp_mdfs p)) by (apply V8; apply negb_true_iff; exact E));
    try (apply vappend_bytes; first [assumption | rewrite zlen_vappend by assumption; apply vwf_vlen; assumption]);
    try (constructor; [vm_compute; split; [discriminate | reflexivity] | constructor]);
    try (vm_compute; repeat first [discriminate | reflexivity | constructor]).
Qed.

Lemma tp_run_one_byte pers s x : is_byte x -> is_err (tp_run pers s [x]).
Proof.
  intros (H0 & H1). unfold tp_run. cbn [length tp_loop]. unfold vparse.
  destruct (Z.eqb_spec (x / 64) 0) as [E|E]; cbn [length Nat.ltb Nat.leb firstn skipn]; [exact I|].
  destruct (x / 64 =? 1); cbn [length Nat.ltb Nat.leb]; [exact I|]. destruct (x / 64 =? 2); exact I.
Qed.

(** a stray byte behind a valid ticket is not silently dropped: the ticket is refused *)
Theorem ticket_reject_trailing_byte p x :
  tp_wf_ticket p -> is_byte x -> ticket_unmarshal (ticket_marshal p ++ [x]) = Err E_TK_PARAMS 0.
Proof.
  intros W Hx. pose proof (ticket_roundtrip p W) as R.
  assert (Vv : vwf TP_MarshalVersion) by (vm_compute; split; discriminate).
  destruct (ticket_ps_wf p W) as (Pw & Pb).
  rewrite (marshal_ticket_params p W) in R. unfold unmarshal_ticket in R.
  rewrite (vparse_vappend TP_MarshalVersion _ Vv), Z.eqb_refl in R. cbn [negb] in R.
  rewrite unmarshal_run in R.
  destruct (tp_run Server st_init (enc_params (ticket_ps p))) as [s1|] eqn:Er; [|discriminate]. clear R.
  unfold ticket_unmarshal, ticket_marshal. rewrite <- app_assoc.
  rewrite (vparse_vappend TK_Revision _ vwf_revision), Z.eqb_refl. cbn [negb].
  rewrite (marshal_ticket_params p W). rewrite <- app_assoc.
  unfold unmarshal_ticket. rewrite (vparse_vappend TP_MarshalVersion _ Vv), Z.eqb_refl. cbn [negb].
  rewrite unmarshal_run.
  rewrite (tp_run_prefix Server (ticket_ps p) st_init s1 [x] Pw Pb Er).
  pose proof (tp_run_one_byte Server s1 x Hx) as E. destruct (tp_run Server s1 [x]); [contradiction | reflexivity].
Qed.

(** ---- address-validation tokens: structure of DecodeToken beyond what C14 states ---- *)
Section Tokens.
  Variable K : Type.
  Variable prot_open : K -> list Z -> list Z -> option (list Z).
  Variable unmarshal : list Z -> option (rec * list Z).

  (** bytes behind the ASN.1 record inside the sealed payload make the token invalid *)
  Lemma token_reject_trailing k enc data r rest :
    tokenNonceSize <= zlen enc ->
    prot_open k (firstn nonceLen enc) (skipn nonceLen enc) = Some data ->
    unmarshal data = Some (r, rest) -> rest <> [] ->
    decode K prot_open unmarshal k enc = DErr.
  Proof.
    intros Hl Ho Hu Hr. unfold decode, decodeToken, protDecode.
    assert (0 < tokenNonceSize) by (rewrite nonce_size_32; lia).
    destruct (Z.eqb_spec (zlen enc) 0); [lia|].
    destruct (Z.ltb_spec (zlen enc) tokenNonceSize); [lia|].
    rewrite Ho, Hu. destruct (Z.eqb_spec (zlen rest) 0) as [E|E]; [|reflexivity].
    exfalso. apply Hr. destruct rest; [reflexivity | unfold zlen in E; cbn in E; lia].
  Qed.

  (** what the protector cannot open or ASN.1 cannot parse is an error, never a token *)
  Lemma token_reject_unopenable k enc :
    enc <> [] -> (tokenNonceSize <= zlen enc -> prot_open k (firstn nonceLen enc) (skipn nonceLen enc) = None) ->
    decode K prot_open unmarshal k enc = DErr.
  Proof.
    intros Hn Ho. unfold decode, decodeToken, protDecode.
    destruct (Z.eqb_spec (zlen enc) 0) as [E|E]; [destruct enc; [contradiction | unfold zlen in E; cbn in E; lia]|].
    destruct (Z.ltb_spec (zlen enc) tokenNonceSize); [reflexivity|]. rewrite Ho by assumption. reflexivity.
  Qed.
End Tokens.
