(** RFC 9000 section 16 lets a sender encode a varint in more bytes than necessary.  The parsers
    must accept every valid encoding of a field and consume exactly the bytes it occupies — not the
    length of the shortest encoding.  [vappend_len v w] is the w-byte encoding (w = 1, 2, 4, 8). *)
From Coq Require Import List ZArith Bool Lia.
From V Require Import Gen.Params Lib.Hex Wire.Varint Wire.VarintProofs Wire.FramesBase Wire.FramesBaseProofs
  Wire.FramesCtl Wire.FramesCtlProofs Wire.FramesStream Wire.Frames Wire.FramesProofs.
Import ListNotations.
Open Scope Z_scope.
Local Ltac Zify.zify_post_hook ::= Z.div_mod_to_equations.

(** w is a width in which v can be written *)
Definition width_ok (v w : Z) : Prop := vwf v /\ vlen v <= w /\ (w = 1 \/ w = 2 \/ w = 4 \/ w = 8).

Theorem vparse_any_width v w rest : width_ok v w -> vparse (vappend_len v w ++ rest) = inr (v, w, rest).
Proof.
  intros (V & L & W). unfold vappend_len.
  destruct (Z.eqb_spec w (vlen v)) as [E|N]; [rewrite E; apply vparse_vappend; exact V|].
  unfold vwf, vlen, maxVarInt1, maxVarInt2, maxVarInt4, maxVarInt8 in *.
  destruct W as [-> | [-> | [-> | ->]]]; cbn [Z.eqb Pos.eqb].
  - exfalso. destruct (Z.leb_spec v 63); [lia|]. destruct (Z.leb_spec v 16383); [lia|].
    destruct (Z.leb_spec v 1073741823); [lia|]. destruct (Z.leb_spec v 4611686018427387903); lia.
  - assert (v <= 63) by (destruct (Z.leb_spec v 63); [lia|]; destruct (Z.leb_spec v 16383); [lia|];
      destruct (Z.leb_spec v 1073741823); [lia|]; destruct (Z.leb_spec v 4611686018427387903); lia).
    cbn [be setTop app vparse]. replace ((v / 256 mod 256 + 64) / 64) with 1 by lia. cbn. repeat f_equal. lia.
  - assert (v <= 16383) by (destruct (Z.leb_spec v 63); [lia|]; destruct (Z.leb_spec v 16383); [lia|];
      destruct (Z.leb_spec v 1073741823); [lia|]; destruct (Z.leb_spec v 4611686018427387903); lia).
    cbn [be setTop app vparse]. replace ((v / 256 / 256 / 256 mod 256 + 128) / 64) with 2 by lia. cbn. repeat f_equal. lia.
  - cbn [be setTop app vparse].
    replace ((v / 256 / 256 / 256 / 256 / 256 / 256 / 256 mod 256 + 192) / 64) with 3 by lia. cbn. repeat f_equal. lia.
Qed.

Lemma zlen_vappend_len v w : width_ok v w -> zlen (vappend_len v w) = w.
Proof.
  intros H. pose proof (vparse_any_width v w [] H) as P. rewrite app_nil_r in P.
  pose proof (vparse_rest_len _ _ _ _ P) as (L & _). change (zlen (@nil Z)) with 0 in L. lia.
Qed.

Lemma bindv_any_width {A} v w r (k : Z -> list Z -> res A) :
  width_ok v w -> bindv (vappend_len v w ++ r) k = k v r.
Proof. intros H. unfold bindv. rewrite (vparse_any_width v w r H). reflexivity. Qed.

Local Ltac bw := repeat (rewrite bindv_any_width by assumption; cbv beta).

(** every valid encoding of the fields parses to the fields, whatever follows *)
Theorem one_field_any_width v w rest : width_ok v w ->
  parse_max_data (vappend_len v w ++ rest) = Ok (FMaxData v, rest) /\
  parse_data_blocked (vappend_len v w ++ rest) = Ok (FDataBlocked v, rest) /\
  parse_retire_cid (vappend_len v w ++ rest) = Ok (FRetireConnectionID v, rest) /\
  (forall uni, v <= W_MaxStreamCount ->
     parse_max_streams uni (vappend_len v w ++ rest) = Ok (FMaxStreams uni v, rest) /\
     parse_streams_blocked uni (vappend_len v w ++ rest) = Ok (FStreamsBlocked uni v, rest)).
Proof.
  intros H. unfold parse_max_data, parse_data_blocked, parse_retire_cid, parse_max_streams, parse_streams_blocked.
  bw. split; [reflexivity|]. split; [reflexivity|]. split; [reflexivity|].
  intros uni Hle. bw. destruct (Z.ltb_spec W_MaxStreamCount v); [lia | auto].
Qed.

Theorem two_fields_any_width s ws v wv rest : width_ok s ws -> width_ok v wv ->
  parse_max_stream_data (vappend_len s ws ++ vappend_len v wv ++ rest) = Ok (FMaxStreamData s v, rest) /\
  parse_stream_data_blocked (vappend_len s ws ++ vappend_len v wv ++ rest) = Ok (FStreamDataBlocked s v, rest) /\
  parse_stop_sending (vappend_len s ws ++ vappend_len v wv ++ rest) = Ok (FStopSending s v, rest).
Proof.
  intros Hs Hv. unfold parse_max_stream_data, parse_stream_data_blocked, parse_stop_sending. bw. auto.
Qed.

Theorem reset_stream_any_width s ws e we fs wf rs wr rest :
  width_ok s ws -> width_ok e we -> width_ok fs wf -> width_ok rs wr -> rs <= fs ->
  parse_reset_stream false (vappend_len s ws ++ vappend_len e we ++ vappend_len fs wf ++ rest) = Ok (FResetStream s e fs 0, rest) /\
  parse_reset_stream true (vappend_len s ws ++ vappend_len e we ++ vappend_len fs wf ++ vappend_len rs wr ++ rest)
    = Ok (FResetStream s e fs rs, rest).
Proof.
  intros Hs He Hf Hr Hle. unfold parse_reset_stream. bw. cbn [bindv_if]. bw.
  destruct Hf as ((F0 & _) & _). destruct (Z.ltb_spec fs 0); [lia|]. destruct (Z.ltb_spec fs rs); [lia|]. auto.
Qed.

Theorem crypto_any_width off wo data wl rest : width_ok off wo -> width_ok (zlen data) wl ->
  parse_crypto (vappend_len off wo ++ vappend_len (zlen data) wl ++ data ++ rest) = Ok (FCrypto off data, rest).
Proof. intros Ho Hl. unfold parse_crypto. bw. rewrite take_app. reflexivity. Qed.

(** at the top: the consumed count is the number of bytes the encoding occupies (here for
    MAX_STREAM_DATA, the frame of seeded change C08-g) and the following bytes are untouched *)
Theorem max_stream_data_consumed_any_width c lvl s ws v wv rest :
  width_ok s ws -> width_ok v wv -> type_allowed lvl FT_MaxStreamData = true ->
  parse_next c lvl ([FT_MaxStreamData] ++ vappend_len s ws ++ vappend_len v wv ++ rest)
  = Ok (FMaxStreamData s v, 1 + ws + wv, rest).
Proof.
  intros Hs Hv Ha.
  change [FT_MaxStreamData] with (vappend FT_MaxStreamData).
  rewrite (parse_next_gen c lvl FT_MaxStreamData _ (FMaxStreamData s v) rest); try reflexivity; try assumption.
  - rewrite !zlen_app, !zlen_vappend_len by assumption. change (zlen (vappend FT_MaxStreamData)) with 1.
    replace (1 + (ws + (wv + zlen rest)) - zlen rest) with (1 + ws + wv) by lia. reflexivity.
  - vm_compute. split; discriminate.
  - discriminate.
  - change (parse_body c lvl FT_MaxStreamData (vappend_len s ws ++ vappend_len v wv ++ rest))
      with (parse_max_stream_data (vappend_len s ws ++ vappend_len v wv ++ rest)).
    apply two_fields_any_width; assumption.
Qed.

Example any_width_example :
  width_ok 28 8 /\ vappend_len 28 8 = [192; 0; 0; 0; 0; 0; 0; 28] /\
  parse_next (Cfg false false false 3) 4 ([17; 4] ++ [192; 0; 0; 0; 0; 0; 0; 28] ++ [1]) = Ok (FMaxStreamData 4 28, 10, [1]).
Proof. split; [|split; vm_compute; reflexivity]. unfold width_ok, vwf. repeat split; try (vm_compute; discriminate). auto. Qed.
