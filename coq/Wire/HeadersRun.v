(** Correspondence glue for the headers unit: a case is what harness/drv/headers.go logged. *)
From Coq Require Import List ZArith Bool String.
From V Require Export Wire.Headers.
From V Require Import Lib.Corr Lib.Hex Gen.Params Wire.Varint.
Import ListNotations.
Open Scope Z_scope.

Inductive case :=
| LongCase (input : list Z) (hcls : Z) (h : option header) (pcls : Z) (phdr : bool) (pktLen restLen : Z)
| ExtCase (input ext : list Z) (cls : Z) (present : bool) (tb pnLen pn parsedLen : Z)
| AppCase (e : exthdr) (v cls : Z) (enc : list Z) (getlen : Z)
| ShortAppCase (cid : list Z) (pn pnLen kp cls : Z) (enc : list Z) (shlen : Z)
| ShortParseCase (input : list Z) (cidLen cls l pn pnLen kp : Z)
| ConnIDCase (input : list Z) (shortLen cls : Z) (cid : list Z)
| PredCase (input : list Z) (isLong isVN is0 : bool) (vcls ver : Z)
| ArbCase (input : list Z) (cls n : Z) (dst src : list Z)
| VNParseCase (input : list Z) (cls : Z) (dst src : list Z) (versions : list Z)
| VNComposeCase (rnd : Z) (dst src : list Z) (versions : list Z) (pos rv : Z) (out : list Z).

Definition header_eqb (a b : header) : bool :=
  (hTypeByte a =? hTypeByte b) && (hType a =? hType b) && (hVersion a =? hVersion b) &&
  zeqb_list (hSrc a) (hSrc b) && zeqb_list (hDst a) (hDst b) && (hLength a =? hLength b) &&
  zeqb_list (hToken a) (hToken b) && (hParsedLen a =? hParsedLen b).

Definition opt_header_eqb (a b : option header) : bool :=
  match a, b with
  | Some x, Some y => header_eqb x y
  | None, None => true
  | _, _ => false
  end.

(** What the model computes for a case, in the shape of the logged observables. *)
Inductive obs :=
| LongObs (hcls : Z) (h : option header) (pcls : Z) (ph : option header) (pktLen restLen : Z)
| ExtObs (cls : Z) (present : bool) (tb pnLen pn parsedLen : Z)
| AppObs (cls : Z) (enc : list Z) (getlen : Z)
| ShortAppObs (cls : Z) (enc : list Z) (shlen : Z)
| ShortParseObs (cls l pn pnLen kp : Z)
| ConnIDObs (cls : Z) (cid : list Z)
| PredObs (isLong isVN is0 : bool) (vcls ver : Z)
| ArbObs (cls n : Z) (dst src : list Z)
| VNParseObs (cls : Z) (dst src versions : list Z)
| VNComposeObs (out : list Z).

Definition model_obs (c : case) : obs :=
  match c with
  | LongCase input _ _ _ _ _ _ =>
    let '(pcls, ph, pkt, rest) := parse_packet input in
    match parse_header input with
    | None => LongObs E_EOF None pcls ph (zlen pkt) (zlen rest)
    | Some (h, e) => LongObs e (Some h) pcls ph (zlen pkt) (zlen rest)
    end
  | ExtCase input ext _ _ _ _ _ _ =>
    match parse_header input with
    | Some (h, _) =>
      match parse_extended h ext with
      | (cls, Some e) => ExtObs cls true (eTypeByte e) (ePnLen e) (ePn e) (eParsedLen e)
      | (cls, None) => ExtObs cls false 0 0 0 0
      end
    | None => ExtObs 99 false 0 0 0 0
    end
  | AppCase e v _ _ _ => let '(cls, enc) := append_ext e v in AppObs cls enc (get_length e)
  | ShortAppCase cid pn pnLen kp _ _ _ =>
    let '(cls, enc) := append_short cid pn pnLen kp in ShortAppObs cls enc (short_header_len cid pnLen)
  | ShortParseCase input cidLen _ _ _ _ _ =>
    let '(cls, (l, pn, pnLen, kp)) := parse_short input cidLen in ShortParseObs cls l pn pnLen kp
  | ConnIDCase input k _ _ => let '(cls, cid) := parse_connection_id input k in ConnIDObs cls cid
  | PredCase input _ _ _ _ _ =>
    let '(vcls, ver) := parse_version input in
    PredObs (match input with [] => false | fb :: _ => is_long fb end) (is_vneg input) (is_0rtt input) vcls ver
  | ArbCase input _ _ _ _ => let '(cls, n, dst, src) := parse_arbitrary input in ArbObs cls n dst src
  | VNParseCase input _ _ _ _ => let '(cls, dst, src, vs) := parse_vneg input in VNParseObs cls dst src vs
  | VNComposeCase rnd dst src versions pos rv _ => VNComposeObs (compose_vneg rnd dst src (greased pos rv versions))
  end.

Definition check_case (c : case) : bool :=
  match c, model_obs c with
  | LongCase _ hcls h pcls phdr pktLen restLen, LongObs hcls' h' pcls' ph' pktLen' restLen' =>
    (hcls =? hcls') && opt_header_eqb h h' && (pcls =? pcls') &&
    (* the header ParsePacket returns is parseHeader's (the harness monitors that), present in the same cases *)
    (if phdr then opt_header_eqb h ph' else match ph' with None => true | Some _ => false end) &&
    (pktLen =? pktLen') && (restLen =? restLen')
  | ExtCase _ _ cls present tb pnLen pn parsedLen, ExtObs cls' present' tb' pnLen' pn' parsedLen' =>
    (cls =? cls') && Bool.eqb present present' && (tb =? tb') && (pnLen =? pnLen') && (pn =? pn') && (parsedLen =? parsedLen')
  | AppCase _ _ cls enc getlen, AppObs cls' enc' getlen' => (cls =? cls') && zeqb_list enc enc' && (getlen =? getlen')
  | ShortAppCase _ _ _ _ cls enc shlen, ShortAppObs cls' enc' shlen' => (cls =? cls') && zeqb_list enc enc' && (shlen =? shlen')
  | ShortParseCase _ _ cls l pn pnLen kp, ShortParseObs cls' l' pn' pnLen' kp' =>
    (cls =? cls') && (l =? l') && (pn =? pn') && (pnLen =? pnLen') && (kp =? kp')
  | ConnIDCase _ _ cls cid, ConnIDObs cls' cid' => (cls =? cls') && zeqb_list cid cid'
  | PredCase _ a b c vcls ver, PredObs a' b' c' vcls' ver' =>
    Bool.eqb a a' && Bool.eqb b b' && Bool.eqb c c' && (vcls =? vcls') && (ver =? ver')
  | ArbCase _ cls n dst src, ArbObs cls' n' dst' src' => (cls =? cls') && (n =? n') && zeqb_list dst dst' && zeqb_list src src'
  | VNParseCase _ cls dst src vs, VNParseObs cls' dst' src' vs' =>
    (cls =? cls') && zeqb_list dst dst' && zeqb_list src src' && zeqb_list vs vs'
  | VNComposeCase _ _ _ _ _ _ out, VNComposeObs out' => zeqb_list out out'
  | _, _ => false
  end.
