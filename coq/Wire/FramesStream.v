(** Data-carrying frames of internal/wire: STREAM (stream_frame.go), CRYPTO (crypto_frame.go),
    DATAGRAM (datagram_frame.go), with MaxDataLen and MaybeSplitOffFrame. *)
From Coq Require Import List ZArith Bool.
From V Require Import Gen.Params Lib.Hex Wire.Varint Wire.FramesBase.
Import ListNotations.
Open Scope Z_scope.

Definition P := res (frame * list Z).

(** ParseStreamFrame(b, typ): typ is the frame type 0x08..0x0f *)
Definition stream_tail (sid off : Z) (fin dlp : bool) (dl : Z) (b : list Z) : P :=
  (* dataLen >= MinStreamFrameBufferSize: buffer from the pool, capacity MaxPacketBufferSize *)
  if (W_MinStreamFrameBufferSize <=? dl) && (W_MaxPacketBufferSize <? dl) then Err E_EOF 0
  else if W_MaxByteCount <? off + dl then Err 12 0
  else Ok (FStream sid off (firstn (Z.to_nat dl) b) fin dlp, skipn (Z.to_nat dl) b).

Definition parse_stream (typ : Z) (b : list Z) : P :=
  let hasOffset := Z.testbit typ 2 in
  let fin := Z.testbit typ 0 in
  let hasDataLen := Z.testbit typ 1 in
  bindv b (fun sid b => bindv_if hasOffset b (fun off b =>
  if hasDataLen then
    bindv b (fun dl b => if zlen b <? dl then Err E_EOF 0 else stream_tail sid off fin true dl b)
  else stream_tail sid off fin false (zlen b) b)).

Definition stream_type (off : Z) (fin dlp : bool) : Z :=
  8 + (if fin then 1 else 0) + (if dlp then 2 else 0) + (if off =? 0 then 0 else 4).

(** Append: None = the error "attempting to write empty frame without FIN" *)
Definition append_stream (sid off : Z) (data : list Z) (fin dlp : bool) : option (list Z) :=
  if (zlen data =? 0) && negb fin then None
  else Some ([stream_type off fin dlp] ++ vappend sid ++ (if off =? 0 then [] else vappend off)
             ++ (if dlp then vappend (zlen data) else []) ++ data).

Definition stream_hdr_len (sid off : Z) : Z := 1 + vlen sid + (if off =? 0 then 0 else vlen off).

Definition length_stream (sid off : Z) (data : list Z) (dlp : bool) : Z :=
  stream_hdr_len sid off + (if dlp then vlen (zlen data) else 0) + zlen data.

(** shrinkForLengthField(space): the loop `for dataLen > 0 && Len(dataLen)-1+dataLen > space { dataLen-- }`.
    It runs at most 7 times (a varint has at most 8 bytes); fuel 9 always suffices, running out
    is reported as -1 (excluded by [shrink_spec]). *)
Fixpoint shrink_loop (fuel : nat) (dataLen space : Z) : Z :=
  match fuel with
  | O => -1
  | S fuel' =>
    if (0 <? dataLen) && (space <? vlen dataLen - 1 + dataLen) then shrink_loop fuel' (dataLen - 1) space
    else dataLen
  end.
Definition shrink_for_length_field (space : Z) : Z := shrink_loop 9 space space.

Definition maxdatalen_stream (sid off : Z) (dlp : bool) (maxSize : Z) : Z :=
  let headerLen := stream_hdr_len sid off + (if dlp then 1 else 0) in
  if maxSize <? headerLen then 0
  else let m := maxSize - headerLen in
       if dlp then shrink_for_length_field m else m.

(** MaybeSplitOffFrame: (new frame, "was splitting required", the frame f afterwards) *)
Definition split_stream (sid off : Z) (data : list Z) (fin dlp : bool) (maxSize : Z)
  : option frame * bool * frame :=
  let f := FStream sid off data fin dlp in
  if length_stream sid off data dlp <=? maxSize then (None, false, f)
  else let n := maxdatalen_stream sid off dlp maxSize in
       if n =? 0 then (None, true, f)
       else (Some (FStream sid off (firstn (Z.to_nat n) data) false dlp), true,
             FStream sid (off + n) (skipn (Z.to_nat n) data) fin dlp).

(** CRYPTO *)
Definition parse_crypto (b : list Z) : P :=
  bindv b (fun off b => bindv b (fun dl b => take dl b (fun data b => Ok (FCrypto off data, b)))).

Definition body_crypto (off : Z) (data : list Z) : list Z := vappend off ++ vappend (zlen data) ++ data.
Definition length_crypto (off : Z) (data : list Z) : Z := 1 + vlen off + vlen (zlen data) + zlen data.

Definition maxdatalen_crypto (off maxSize : Z) : Z :=
  let headerLen := 1 + vlen off + 1 in
  if maxSize <? headerLen then 0
  else shrink_for_length_field (maxSize - headerLen).

Definition split_crypto (off : Z) (data : list Z) (maxSize : Z) : option frame * bool * frame :=
  let f := FCrypto off data in
  if length_crypto off data <=? maxSize then (None, false, f)
  else let n := maxdatalen_crypto off maxSize in
       if n =? 0 then (None, true, f)
       else (Some (FCrypto off (firstn (Z.to_nat n) data)), true, FCrypto (off + n) (skipn (Z.to_nat n) data)).

(** DATAGRAM: typ is 0x30 / 0x31 *)
Definition parse_datagram (typ : Z) (b : list Z) : P :=
  let dlp := Z.testbit typ 0 in
  if dlp then bindv b (fun dl b => take dl b (fun data b => Ok (FDatagram true data, b)))
  else Ok (FDatagram false b, []).

Definition datagram_type (dlp : bool) : Z := 48 + (if dlp then 1 else 0).
Definition body_datagram (dlp : bool) (data : list Z) : list Z :=
  (if dlp then vappend (zlen data) else []) ++ data.
Definition length_datagram (dlp : bool) (data : list Z) : Z :=
  1 + zlen data + (if dlp then vlen (zlen data) else 0).

Definition maxdatalen_datagram (dlp : bool) (maxSize : Z) : Z :=
  let headerLen := 1 + (if dlp then 1 else 0) in
  if maxSize <? headerLen then 0
  else let m := maxSize - headerLen in
       if dlp then shrink_for_length_field m else m.
