(** Frames of internal/wire — common definitions: result type with the error classes the
    Go harness logs, the varint bind used by every parser, byte-string helpers, the frame
    value type and its boolean equality.  Executable definitions only. *)
From Coq Require Import List ZArith Bool.
From V Require Import Gen.Params Lib.Hex Wire.Varint.
Import ListNotations.
Open Scope Z_scope.

(** Error classes (what the harness derives from the Go error):
    1  io.EOF returned by ParseType (input exhausted, possibly after PADDING)
    2  FrameEncodingError "EOF" (truncated frame body; io.ErrUnexpectedEOF is replaced by io.EOF)
    3  FrameEncodingError "unexpected EOF" (truncated frame TYPE varint in ParseType)
    4  unknown frame type            5  frame type not allowed at the encryption level
    10 invalid first ACK range       11 invalid ACK ranges
    12 stream data overflows maximum offset
    13 stream count exceeds 2^60     14 RESET_STREAM_AT reliable size > final size
    15 Retire Prior To > Sequence Number
    16 zero-length connection ID     17 invalid connection ID length (> 20)
    18 NEW_TOKEN with empty token
    98 model out of fuel (never produced by the code; excluded by the theorems) *)
Inductive res (A : Type) :=
| Ok (a : A)
| Err (code : Z) (consumed : Z).
Arguments Ok {A} a.
Arguments Err {A} code consumed.

Definition E_EOF := 2.

(** quicvarint.Parse followed by `return nil, 0, replaceUnexpectedEOF(err)` *)
Definition bindv {A} (b : list Z) (k : Z -> list Z -> res A) : res A :=
  match vparse b with
  | inl _ => Err E_EOF 0
  | inr (v, _, r) => k v r
  end.

(** the same, only when the flag is set (STREAM offset, CONNECTION_CLOSE frame type, ...) *)
Definition bindv_if {A} (c : bool) (b : list Z) (k : Z -> list Z -> res A) : res A :=
  if c then bindv b k else k 0 b.

(** `if n > len(b) { return io.EOF }; data := b[:n]; b = b[n:]` *)
Definition take {A} (n : Z) (b : list Z) (k : list Z -> list Z -> res A) : res A :=
  if zlen b <? n then Err E_EOF 0
  else k (firstn (Z.to_nat n) b) (skipn (Z.to_nat n) b).

Definition range := (Z * Z)%type. (* (Smallest, Largest) *)

(** Frame values. Durations are nanoseconds (time.Duration), byte strings are lists of
    bytes, connection IDs and tokens are their byte strings. *)
Inductive frame :=
| FPing
| FAck (ranges : list range) (delay_ns : Z) (ect0 ect1 ecnce : Z)
| FResetStream (sid ec final reliable : Z)
| FStopSending (sid ec : Z)
| FCrypto (off : Z) (data : list Z)
| FNewToken (tok : list Z)
| FStream (sid off : Z) (data : list Z) (fin dlp : bool)
| FMaxData (v : Z)
| FMaxStreamData (sid v : Z)
| FMaxStreams (uni : bool) (n : Z)
| FDataBlocked (v : Z)
| FStreamDataBlocked (sid v : Z)
| FStreamsBlocked (uni : bool) (n : Z)
| FNewConnectionID (seq rpt : Z) (cid : list Z) (tok : list Z)
| FRetireConnectionID (seq : Z)
| FPathChallenge (d : list Z)
| FPathResponse (d : list Z)
| FConnectionClose (app : bool) (ec ft : Z) (reason : list Z)
| FHandshakeDone
| FDatagram (dlp : bool) (data : list Z)
| FAckFrequency (seq aeth mad_ns rth : Z)
| FImmediateAck.

Fixpoint ranges_eqb (a b : list range) : bool :=
  match a, b with
  | [], [] => true
  | (s, l) :: a', (s', l') :: b' => (s =? s') && (l =? l') && ranges_eqb a' b'
  | _, _ => false
  end.

Definition frame_eqb (x y : frame) : bool :=
  match x, y with
  | FPing, FPing => true
  | FAck r d a b c, FAck r' d' a' b' c' => ranges_eqb r r' && (d =? d') && (a =? a') && (b =? b') && (c =? c')
  | FResetStream a b c d, FResetStream a' b' c' d' => (a =? a') && (b =? b') && (c =? c') && (d =? d')
  | FStopSending a b, FStopSending a' b' => (a =? a') && (b =? b')
  | FCrypto o d, FCrypto o' d' => (o =? o') && zeqb_list d d'
  | FNewToken t, FNewToken t' => zeqb_list t t'
  | FStream s o d f l, FStream s' o' d' f' l' => (s =? s') && (o =? o') && zeqb_list d d' && Bool.eqb f f' && Bool.eqb l l'
  | FMaxData v, FMaxData v' => v =? v'
  | FMaxStreamData s v, FMaxStreamData s' v' => (s =? s') && (v =? v')
  | FMaxStreams u n, FMaxStreams u' n' => Bool.eqb u u' && (n =? n')
  | FDataBlocked v, FDataBlocked v' => v =? v'
  | FStreamDataBlocked s v, FStreamDataBlocked s' v' => (s =? s') && (v =? v')
  | FStreamsBlocked u n, FStreamsBlocked u' n' => Bool.eqb u u' && (n =? n')
  | FNewConnectionID s r c t, FNewConnectionID s' r' c' t' => (s =? s') && (r =? r') && zeqb_list c c' && zeqb_list t t'
  | FRetireConnectionID s, FRetireConnectionID s' => s =? s'
  | FPathChallenge d, FPathChallenge d' => zeqb_list d d'
  | FPathResponse d, FPathResponse d' => zeqb_list d d'
  | FConnectionClose a e f r, FConnectionClose a' e' f' r' => Bool.eqb a a' && (e =? e') && (f =? f') && zeqb_list r r'
  | FHandshakeDone, FHandshakeDone => true
  | FDatagram l d, FDatagram l' d' => Bool.eqb l l' && zeqb_list d d'
  | FAckFrequency a b c d, FAckFrequency a' b' c' d' => (a =? a') && (b =? b') && (c =? c') && (d =? d')
  | FImmediateAck, FImmediateAck => true
  | _, _ => false
  end.

(** 64-bit machine arithmetic where the code relies on it (ACK delay scaling). *)
Definition two64 : Z := 18446744073709551616.
Definition maxInt64 : Z := 9223372036854775807.
Definition to_u64 (x : Z) : Z := x mod two64.
Definition to_i64 (x : Z) : Z := let y := x mod two64 in if y <=? maxInt64 then y else y - two64.
