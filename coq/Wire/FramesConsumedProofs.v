(** Claim (a) of C08 on the model: a successful parse consumes at least one byte, at most the
    input, reports exactly what it consumed, and returns a genuine suffix of its input. *)
From Coq Require Import List ZArith Bool Lia.
From V Require Import Gen.Params Lib.Hex Wire.Varint Wire.VarintProofs Wire.FramesBase Wire.FramesBaseProofs
  Wire.FramesCtl Wire.FramesStream Wire.FramesAck Wire.Frames.
Import ListNotations.
Open Scope Z_scope.

Definition suffix_of (r b : list Z) : Prop := exists pre, b = pre ++ r.

Lemma suffix_refl b : suffix_of b b.
Proof. exists []. reflexivity. Qed.

Lemma suffix_trans a b c : suffix_of a b -> suffix_of b c -> suffix_of a c.
Proof. intros (p & ->) (q & ->). exists (q ++ p). apply app_assoc. Qed.

Lemma suffix_nil b : suffix_of [] b.
Proof. exists b. symmetry. apply app_nil_r. Qed.

Lemma suffix_skipn n b : suffix_of (skipn n b) b.
Proof. exists (firstn n b). symmetry. apply firstn_skipn. Qed.

Lemma suffix_cons x r b : suffix_of r b -> suffix_of r (x :: b).
Proof. intros (p & ->). exists (x :: p). reflexivity. Qed.

Lemma suffix_uncons x a b : suffix_of (x :: a) b -> suffix_of a b.
Proof. intros (p & ->). exists (p ++ [x]). rewrite <- app_assoc. reflexivity. Qed.

Lemma suffix_len r b : suffix_of r b -> zlen r <= zlen b.
Proof. intros (p & ->). rewrite zlen_app. pose proof (zlen_nonneg p). lia. Qed.

Lemma vparse_suffix b v n r : vparse b = inr (v, n, r) -> suffix_of r b /\ zlen r < zlen b.
Proof.
  intros H. pose proof (vparse_rest_len _ _ _ _ H) as (L & Hn). split; [|lia].
  unfold vparse in H. destruct b as [|first rest]; [discriminate|].
  destruct (Nat.ltb _ _); [discriminate|]. inversion H; subst. apply suffix_cons, suffix_skipn.
Qed.

Lemma bindv_ok {A} b (k : Z -> list Z -> res A) x :
  bindv b k = Ok x -> exists v r, suffix_of r b /\ zlen r < zlen b /\ k v r = Ok x.
Proof.
  unfold bindv. destruct (vparse b) as [e|[[v n] r]] eqn:E; [discriminate|].
  intros H. destruct (vparse_suffix _ _ _ _ E). eauto.
Qed.

Lemma take_ok {A} n b (k : list Z -> list Z -> res A) x :
  take n b k = Ok x -> exists d r, suffix_of r b /\ k d r = Ok x.
Proof.
  unfold take. destruct (zlen b <? n); [discriminate|]. intros H.
  exists (firstn (Z.to_nat n) b), (skipn (Z.to_nat n) b). split; [apply suffix_skipn | exact H].
Qed.

Ltac inv_parse :=
  repeat match goal with
         | H : bindv _ _ = Ok _ |- _ =>
           let v := fresh "v" in let r := fresh "r" in let S := fresh "S" in let L := fresh "L" in
           apply bindv_ok in H; destruct H as (v & r & S & L & H); cbv beta in H
         | H : bindv_if ?c _ _ = Ok _ |- _ => destruct c; cbn [bindv_if] in H
         | H : take _ _ _ = Ok _ |- _ =>
           let d := fresh "d" in let r := fresh "r" in let S := fresh "S" in
           apply take_ok in H; destruct H as (d & r & S & H); cbv beta in H
         | H : (if ?c then _ else _) = Ok _ |- _ => destruct c; try discriminate
         | H : match ?l with [] => _ | _ :: _ => _ end = Ok _ |- _ => destruct l; try discriminate
         | H : Ok _ = Ok _ |- _ => inversion H; subst; clear H
         | H : Err _ _ = Ok _ |- _ => discriminate
         end.

Ltac suf :=
  repeat match goal with
         | H : suffix_of (_ :: _) _ |- _ => apply suffix_uncons in H
         end;
  repeat match goal with
         | |- suffix_of ?a ?a => apply suffix_refl
         | |- suffix_of [] _ => apply suffix_nil
         | H : suffix_of ?a ?b |- suffix_of ?a ?b => exact H
         | H : suffix_of ?r ?b |- suffix_of ?r ?c => apply (suffix_trans r b c H); clear H
         | |- suffix_of ?r (_ :: ?b) => apply suffix_cons
         end.

Lemma ack_loop_suffix fuel : forall n s b rs r, ack_loop fuel n s b = Ok (rs, r) -> suffix_of r b.
Proof.
  induction fuel as [|fuel IH]; intros n s b rs r H; cbn [ack_loop] in H.
  - destruct (n <=? 0); [inversion H; apply suffix_refl | discriminate].
  - destruct (n <=? 0); [inversion H; apply suffix_refl|].
    inv_parse.
    destruct (ack_loop fuel _ _ _) as [[rs' b']|] eqn:E; [|discriminate].
    inversion H; subst. apply IH in E. eapply suffix_trans; [exact E|]. eapply suffix_trans; eassumption.
Qed.

Lemma stream_tail_suffix sid off fin dlp dl b f r : stream_tail sid off fin dlp dl b = Ok (f, r) -> suffix_of r b.
Proof. unfold stream_tail. intros H. inv_parse. apply suffix_skipn. Qed.

Lemma parse_body_suffix c lvl t b f r : parse_body c lvl t b = Ok (f, r) -> suffix_of r b.
Proof.
  unfold parse_body. intros H.
  destruct (is_stream_type t).
  { unfold parse_stream in H. inv_parse; try (apply stream_tail_suffix in H); suf. }
  destruct (is_ack_type t).
  { unfold parse_ack in H. inv_parse.
    destruct (ack_loop _ _ _ _) as [[rs b']|] eqn:E; [|discriminate].
    apply ack_loop_suffix in E. inv_parse; suf. }
  destruct (is_datagram_type t).
  { unfold parse_datagram in H. inv_parse; suf. }
  unfold parse_less_common in H.
  repeat match type of H with (if ?c then _ else _) = _ => destruct c end;
    try discriminate;
    unfold parse_reset_stream, parse_stop_sending, parse_crypto, parse_new_token, parse_max_data, parse_max_stream_data,
      parse_max_streams, parse_data_blocked, parse_stream_data_blocked, parse_streams_blocked, parse_new_cid, parse_retire_cid,
      parse_path_challenge, parse_path_response, parse_conn_close, parse_ack_frequency in H;
    inv_parse; suf.
Qed.

Lemma parse_type_suffix fuel : forall c lvl b p t n r,
  parse_type fuel c lvl b p = Ok (t, n, r) -> suffix_of r b /\ zlen r < zlen b.
Proof.
  induction fuel as [|fuel IH]; intros c lvl b p t n r H.
  - destruct b; discriminate.
  - destruct b as [|x b]; [discriminate|]. cbn [parse_type] in H.
    destruct (vparse (x :: b)) as [e|[[v l] r']] eqn:E; [discriminate|].
    destruct (vparse_suffix _ _ _ _ E) as (S & L).
    destruct (v =? 0).
    + apply IH in H. destruct H as (S' & L'). split; [eapply suffix_trans; eassumption | lia].
    + destruct (negb (type_valid c v)); [discriminate|]. destruct (negb (type_allowed lvl v)); [discriminate|].
      inversion H; subst. auto.
Qed.

(** A successful parse: the rest is a suffix of the input, the reported count is exactly the
    number of bytes in front of it, at least 1 and at most the input length. *)
Theorem parse_next_consumed c lvl b f n rest :
  parse_next c lvl b = Ok (f, n, rest) ->
  suffix_of rest b /\ n = zlen b - zlen rest /\ 0 < n <= zlen b.
Proof.
  unfold parse_next. intros H.
  destruct (parse_type (length b) c lvl b 0) as [[[t m] r]|] eqn:Et; [|discriminate].
  destruct (parse_body c lvl t r) as [[f' rest']|] eqn:Eb; [|discriminate].
  inversion H; subst. apply parse_type_suffix in Et. destruct Et as (S & L).
  apply parse_body_suffix in Eb. pose proof (suffix_len _ _ Eb). pose proof (zlen_nonneg rest).
  split; [eapply suffix_trans; eassumption | lia].
Qed.
