(** Whole payloads: frame LISTS round trip (with PADDING and level restrictions), and the
    decision logic of the handleFrames loop (what is parsed, what is handled, what the tracer
    gets, which error wins). *)
From Coq Require Import List ZArith Bool Lia.
From V Require Import Gen.Params Lib.Hex Wire.Varint Wire.VarintProofs Wire.FramesBase Wire.FramesBaseProofs
  Wire.FramesCtl Wire.FramesStream Wire.FramesAck Wire.Frames Wire.FramesProofs Wire.FramesConsumedProofs
  Wire.TotalProofs Wire.Payload.
Import ListNotations.
Open Scope Z_scope.

(** ---- parse_payload: fuel ---- *)

Lemma parse_next_shorter c lvl b f n rest : parse_next c lvl b = Ok (f, n, rest) -> (length rest < length b)%nat.
Proof.
  intros H. destruct (parse_next_consumed _ _ _ _ _ _ H) as (_ & En & Hn). unfold zlen in *. lia.
Qed.

Lemma parse_payload_fuel f1 : forall f2 c lvl b, (length b <= f1)%nat -> (length b <= f2)%nat ->
  parse_payload f1 c lvl b = parse_payload f2 c lvl b.
Proof.
  induction f1 as [|f1 IH]; intros f2 c lvl b H1 H2.
  - destruct b; [destruct f2; reflexivity | cbn in H1; lia].
  - destruct b as [|x t]; [destruct f2; reflexivity|]. destruct f2 as [|f2]; [cbn in H2; lia|].
    cbn [parse_payload]. destruct (parse_next c lvl (x :: t)) as [[[f n] rest]|e n] eqn:E; [|reflexivity].
    apply parse_next_shorter in E. cbn [length] in *. rewrite (IH f2); [reflexivity | lia | lia].
Qed.

Theorem parse_payload_no_fuel fuel : forall c lvl b e n,
  (length b <= fuel)%nat -> parse_payload fuel c lvl b = Err e n -> e <> 98.
Proof.
  induction fuel as [|fuel IH]; intros c lvl b e n Hf H.
  - destruct b; [discriminate | cbn in Hf; lia].
  - destruct b as [|x t]; [discriminate|]. cbn [parse_payload] in H.
    destruct (parse_next c lvl (x :: t)) as [[[f m] rest]|e' n'] eqn:E.
    + destruct (parse_payload fuel c lvl rest) as [l|e'' n''] eqn:Er; [discriminate|].
      inversion H; subst. apply parse_next_shorter in E. cbn [length] in *. eapply IH; [|exact Er]. lia.
    + destruct (e' =? 1); [discriminate|]. inversion H; subst. eapply parse_next_no_fuel; exact E.
Qed.

(** ---- frame lists round trip ---- *)

(** a frame a sender may put in front of other frames *)
Definition item_ok (c : cfg) (lvl : Z) (it : nat * frame) : Prop :=
  wf_frame (snd it) /\ (exists enc, append_frame (snd it) = Some enc) /\
  type_valid c (frame_type (snd it)) = true /\ type_allowed lvl (frame_type (snd it)) = true /\
  self_delimiting (snd it) = true.

Lemma parse_next_all_padding c lvl k : parse_next c lvl (repeat 0 (S k)) = Err 1 (Z.of_nat (S k)).
Proof.
  unfold parse_next. rewrite repeat_length.
  replace (repeat 0 (S k)) with (repeat 0 (S k) ++ []) by apply app_nil_r.
  replace (S k) with (S k + 0)%nat at 1 by lia.
  rewrite parse_type_padding. destruct k; reflexivity.
Qed.

Lemma parse_next_item c lvl k f rest :
  item_ok c lvl (k, f) ->
  parse_next c lvl (repeat 0 k ++ enc_frame f ++ rest) = Ok (norm c lvl f, zlen (enc_frame f) + Z.of_nat k, rest).
Proof.
  intros (W & (enc & E) & Tv & Ta & Sd). cbn [snd] in *. unfold enc_frame. rewrite E.
  apply parse_next_padding. apply frame_roundtrip; try assumption. rewrite Sd. discriminate.
Qed.

(** Every list of well-formed, self-delimiting frames allowed at the level, with any amount of
    PADDING in front of each frame and behind the last, parses back to the list of normalised frames. *)
Theorem payload_roundtrip c lvl : forall items trail fuel,
  Forall (item_ok c lvl) items ->
  (length (encode_payload items ++ repeat 0%Z trail) <= fuel)%nat ->
  parse_payload fuel c lvl (encode_payload items ++ repeat 0 trail) = Ok (map (fun it => norm c lvl (snd it)) items).
Proof.
  induction items as [|[k f] items IH]; intros trail fuel Hok Hf.
  - cbn [encode_payload app map]. destruct trail as [|t]; [destruct fuel; reflexivity|].
    destruct fuel as [|fuel]; [cbn in Hf; lia|].
    change (repeat 0 (S t)) with (0 :: repeat 0 t). cbn [parse_payload].
    change (0 :: repeat 0 t) with (repeat 0 (S t)). rewrite parse_next_all_padding. reflexivity.
  - inversion Hok as [|? ? Hi Hr]; subst. cbn [encode_payload map snd] in *. rewrite <- !app_assoc in *.
    pose proof (parse_next_item c lvl k f (encode_payload items ++ repeat 0 trail) Hi) as P.
    remember (repeat 0 k ++ enc_frame f ++ encode_payload items ++ repeat 0 trail) as b eqn:Eb.
    destruct b as [|x t].
    { exfalso. apply parse_next_shorter in P. cbn in P. lia. }
    destruct fuel as [|fuel]; [cbn in Hf; lia|].
    cbn [parse_payload]. rewrite P.
    rewrite (IH trail fuel Hr).
    + reflexivity.
    + apply parse_next_shorter in P. cbn [length] in *. lia.
Qed.

(** the last frame of a payload may be one without a length field (STREAM / DATAGRAM) *)
Theorem payload_roundtrip_last c lvl items k f enc fuel :
  Forall (item_ok c lvl) items ->
  wf_frame f -> append_frame f = Some enc ->
  type_valid c (frame_type f) = true -> type_allowed lvl (frame_type f) = true ->
  (length (encode_payload items ++ repeat 0%Z k ++ enc) <= fuel)%nat ->
  parse_payload fuel c lvl (encode_payload items ++ repeat 0 k ++ enc)
  = Ok (map (fun it => norm c lvl (snd it)) items ++ [norm c lvl f]).
Proof.
  intros Hok W E Tv Ta. revert fuel. induction items as [|[k0 f0] items IH]; intros fuel Hf.
  - cbn [encode_payload app map].
    assert (P : parse_next c lvl (repeat 0 k ++ enc) = Ok (norm c lvl f, zlen enc + Z.of_nat k, [])).
    { apply parse_next_padding. rewrite <- (app_nil_r enc) at 1. apply frame_roundtrip; auto. }
    remember (repeat 0 k ++ enc) as b eqn:Eb. destruct b as [|x t].
    { exfalso. apply parse_next_shorter in P. cbn in P. lia. }
    destruct fuel as [|fuel]; [cbn in Hf; lia|]. cbn [parse_payload]. rewrite P. destruct fuel; reflexivity.
  - inversion Hok as [|? ? Hi Hr]; subst. cbn [encode_payload map snd] in *. rewrite <- !app_assoc in *.
    pose proof (parse_next_item c lvl k0 f0 (encode_payload items ++ repeat 0 k ++ enc) Hi) as P.
    remember (repeat 0 k0 ++ enc_frame f0 ++ encode_payload items ++ repeat 0 k ++ enc) as b eqn:Eb.
    destruct b as [|x t].
    { exfalso. apply parse_next_shorter in P. cbn in P. lia. }
    destruct fuel as [|fuel]; [cbn in Hf; lia|].
    cbn [parse_payload]. rewrite P. rewrite (IH Hr fuel).
    + reflexivity.
    + apply parse_next_shorter in P. cbn [length] in *. lia.
Qed.

(** ---- the handleFrames loop ---- *)

(** the loop on an already parsed frame list *)
Fixpoint run_list (log : bool) (fails : nat -> bool) (i : nat) (fs : list frame)
         (ae np skip herr : bool) (count : Z) : hres :=
  match fs with
  | [] => if log then (if herr then HHandleErr count else HOk ae np count) else HOk ae np (-1)
  | f :: r =>
    let ae' := ae || ack_eliciting f in
    let np' := np || negb (probing f) in
    let count' := if log then count + 1 else count in
    if skip then run_list log fails (S i) r ae' np' true herr count'
    else if fails i then (if log then run_list log fails (S i) r ae' np' true true count' else HHandleErr (-1))
    else run_list log fails (S i) r ae' np' false false count'
  end.

(** (A) a payload that parses: the outcome is a function of the frame list and the handler oracle *)
Lemma handle_loop_parsed fuel : forall c lvl log fails i b fs ae np skip herr count,
  parse_payload fuel c lvl b = Ok fs ->
  handle_loop fuel c lvl log fails i b ae np skip herr count = run_list log fails i fs ae np skip herr count.
Proof.
  induction fuel as [|fuel IH]; intros c lvl log fails i b fs ae np skip herr count H.
  - destruct b; [inversion H; reflexivity | discriminate].
  - destruct b as [|x t]; [inversion H; reflexivity|]. cbn [parse_payload handle_loop] in *.
    destruct (parse_next c lvl (x :: t)) as [[[f n] rest]|e n] eqn:E.
    + destruct (parse_payload fuel c lvl rest) as [l|] eqn:Er; [|discriminate]. inversion H; subst fs.
      cbn [run_list]. destruct skip; [apply IH; exact Er|].
      destruct (fails i); [destruct log; [apply IH; exact Er | reflexivity] | apply IH; exact Er].
    + destruct (e =? 1); [inversion H; subst; reflexivity | discriminate].
Qed.

(** (B) with a tracer attached the loop keeps parsing after a handler error, so a later parse
    error is what handleFrames returns (and the tracer callback is not called) *)
Lemma handle_loop_parse_error fuel : forall c lvl fails i b e n ae np skip herr count,
  parse_payload fuel c lvl b = Err e n ->
  handle_loop fuel c lvl true fails i b ae np skip herr count = HParseErr e.
Proof.
  induction fuel as [|fuel IH]; intros c lvl fails i b e n ae np skip herr count H.
  - destruct b; [discriminate | inversion H; reflexivity].
  - destruct b as [|x t]; [discriminate|]. cbn [parse_payload handle_loop] in *.
    destruct (parse_next c lvl (x :: t)) as [[[f m] rest]|e' n'] eqn:E.
    + destruct (parse_payload fuel c lvl rest) as [l|e'' n''] eqn:Er; [discriminate|]. inversion H; subst.
      destruct skip; [eapply IH; exact Er|]. destruct (fails i); eapply IH; exact Er.
    + destruct (e' =? 1); [discriminate|]. inversion H; subst. reflexivity.
Qed.

Theorem handle_frames_parsed c lvl log fails b fs :
  parse_payload (length b) c lvl b = Ok fs ->
  handle_frames c lvl log fails b = run_list log fails 0 fs false false false false 0.
Proof. intros H. unfold handle_frames. apply handle_loop_parsed. exact H. Qed.

Theorem handle_frames_tracer_parse_error c lvl fails b e n :
  parse_payload (length b) c lvl b = Err e n -> handle_frames c lvl true fails b = HParseErr e.
Proof. intros H. unfold handle_frames. eapply handle_loop_parse_error. exact H. Qed.

(** properties of the loop on a frame list *)
Definition no_failure (fails : nat -> bool) (i n : nat) : Prop := forall j, (i <= j < i + n)%nat -> fails j = false.

Lemma run_list_ok log fails : forall fs i ae np count,
  no_failure fails i (length fs) ->
  run_list log fails i fs ae np false false count =
  HOk (ae || existsb ack_eliciting fs) (np || existsb (fun f => negb (probing f)) fs)
      (if log then count + zlen fs else -1).
Proof.
  induction fs as [|f r IH]; intros i ae np count Hn.
  - cbn. rewrite !orb_false_r. destruct log; [f_equal; unfold zlen; cbn; lia | reflexivity].
  - cbn [run_list existsb length]. rewrite (Hn i) by (cbn [length]; lia).
    rewrite IH.
    + rewrite !orb_assoc. destruct log; [f_equal; rewrite zlen_cons; lia | reflexivity].
    + intros j Hj. apply Hn. cbn [length]. lia.
Qed.

(* once skipHandling is set nothing is handled any more: with a tracer everything is counted *)
Lemma run_list_skipping fails : forall fs i ae np count,
  run_list true fails i fs ae np true true count = HHandleErr (count + zlen fs).
Proof.
  induction fs as [|f r IH]; intros i ae np count; cbn [run_list].
  - f_equal. unfold zlen. cbn. lia.
  - rewrite IH. f_equal. rewrite zlen_cons. lia.
Qed.

(** the first handler failure: without a tracer the loop stops right there (the tracer callback
    is never called); with a tracer all frames are still parsed and given to the tracer, none of
    the later ones is handled, and the handler's error is returned *)
Lemma run_list_first_failure log fails : forall fs i j ae np count,
  (i <= j < i + length fs)%nat -> fails j = true -> no_failure fails i (j - i) ->
  run_list log fails i fs ae np false false count = HHandleErr (if log then count + zlen fs else -1).
Proof.
  induction fs as [|f r IH]; intros i j ae np count Hj Hf Hn; [cbn [length] in Hj; lia|].
  cbn [run_list]. destruct (Nat.eq_dec i j) as [->|Ne].
  - rewrite Hf. destruct log; [|reflexivity]. rewrite run_list_skipping. f_equal. rewrite zlen_cons. lia.
  - rewrite (Hn i) by lia. rewrite (IH (S i) j).
    + destruct log; [f_equal; rewrite zlen_cons; lia | reflexivity].
    + cbn [length] in Hj. lia.
    + exact Hf.
    + intros k Hk. apply Hn. lia.
Qed.

(** without a tracer, what follows the frame whose handler failed is never looked at *)
Lemma handle_loop_no_tracer_stops fuel : forall c lvl fails items i x ae np,
  Forall (item_ok c lvl) items -> items <> [] ->
  fails (i + length items - 1)%nat = true -> no_failure fails i (length items - 1) ->
  (length (encode_payload items ++ x) <= fuel)%nat ->
  handle_loop fuel c lvl false fails i (encode_payload items ++ x) ae np false false 0 = HHandleErr (-1).
Proof.
  induction fuel as [|fuel IH]; intros c lvl fails items i x ae np Hok Hne Hf Hn Hl.
  - destruct items as [|[k f] r]; [contradiction|]. inversion Hok as [|? ? Hi Hr]; subst.
    pose proof (parse_next_item c lvl k f (encode_payload r ++ x) Hi) as P. apply parse_next_shorter in P.
    cbn [encode_payload] in Hl. rewrite <- !app_assoc in Hl. lia.
  - destruct items as [|[k f] r]; [contradiction|]. inversion Hok as [|? ? Hi Hr]; subst.
    cbn [encode_payload] in *. rewrite <- !app_assoc in *.
    pose proof (parse_next_item c lvl k f (encode_payload r ++ x) Hi) as P.
    remember (repeat 0 k ++ enc_frame f ++ encode_payload r ++ x) as b eqn:Eb. destruct b as [|y t].
    { exfalso. apply parse_next_shorter in P. cbn in P. lia. }
    cbn [handle_loop]. rewrite P.
    destruct r as [|it r'].
    + cbn [length] in Hf. replace (i + 1 - 1)%nat with i in Hf by lia. rewrite Hf. reflexivity.
    + rewrite (Hn i) by (cbn [length]; lia).
      apply (IH c lvl fails (it :: r') (S i) x); try assumption; try discriminate.
      * cbn [length] in *. replace (S i + S (length r') - 1)%nat with (i + S (S (length r')) - 1)%nat by lia. exact Hf.
      * intros j Hj. apply Hn. cbn [length] in *. lia.
      * apply parse_next_shorter in P. cbn [length] in *. lia.
Qed.

Theorem handle_frames_no_tracer_stops c lvl fails items x :
  Forall (item_ok c lvl) items -> items <> [] ->
  fails (length items - 1)%nat = true -> no_failure fails 0 (length items - 1) ->
  handle_frames c lvl false fails (encode_payload items ++ x) = HHandleErr (-1).
Proof.
  intros Hok Hne Hf Hn. unfold handle_frames.
  apply (handle_loop_no_tracer_stops _ c lvl fails items 0%nat x); try assumption; try lia.
Qed.

(** The tracer changes the verdict: the same payload — a frame whose handler fails, followed by
    bytes that do not parse — yields the handler's error without a tracer and the frame parser's
    error with one. *)
Example tracer_changes_the_error :
  let c := Cfg false false false 0 in
  let b := [1; 30; 33] (* PING, HANDSHAKE_DONE (its handler fails on a server), unknown type 0x21 *) in
  handle_frames c 4 false (fun i => Nat.eqb i 1) b = HHandleErr (-1) /\
  handle_frames c 4 true (fun i => Nat.eqb i 1) b = HParseErr 4.
Proof. split; vm_compute; reflexivity. Qed.
