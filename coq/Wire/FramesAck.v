(** ACK (ack_frame.go, ack_range.go) and ACK_FREQUENCY (ack_frequency_frame.go). *)
From Coq Require Import List ZArith Bool.
From V Require Import Gen.Params Lib.Hex Wire.Varint Wire.FramesBase.
Import ListNotations.
Open Scope Z_scope.

Definition P := res (frame * list Z).

(** time.Duration(delay*1<<ackDelayExponent) * time.Microsecond, clamped to MaxInt64 when the
    (wrapped) product is negative.  uint64 shift, then int64 multiplication. *)
Definition ack_delay_ns (delay exp : Z) : Z :=
  let d1 := to_i64 (to_u64 (delay * 2 ^ exp)) in
  let d2 := to_i64 (d1 * 1000) in
  if d2 <? 0 then maxInt64 else d2.

(** validateAckRanges *)
Fixpoint ranges_each_ok (rs : list range) : bool :=
  match rs with [] => true | (s, l) :: r => (s <=? l) && ranges_each_ok r end.
Fixpoint ranges_consistent (prev_smallest : Z) (rs : list range) : bool :=
  match rs with
  | [] => true
  | (s, l) :: r => negb (prev_smallest <=? s) && negb (prev_smallest <=? l + 1) && ranges_consistent s r
  end.
Definition validate_ack_ranges (rs : list range) : bool :=
  match rs with
  | [] => false
  | (s, l) :: r => ranges_each_ok rs && ranges_consistent s r
  end.

(** the loop `for range numBlocks`: every iteration reads two varints (>= 2 bytes), so
    fuel = S (length b) always suffices; running out is reported as class 98. *)
Fixpoint ack_loop (fuel : nat) (n smallest : Z) (b : list Z) : res (list range * list Z) :=
  if n <=? 0 then Ok ([], b) else
  match fuel with
  | O => Err 98 0
  | S fuel' =>
    bindv b (fun gap b =>
    if smallest <? gap + 2 then Err 11 0 else
    let largest := smallest - gap - 2 in
    bindv b (fun ab b =>
    if largest <? ab then Err 11 0 else
    let s' := largest - ab in
    match ack_loop fuel' (n - 1) s' b with
    | Ok (rs, b') => Ok ((s', largest) :: rs, b')
    | Err e c => Err e c
    end))
  end.

(** parseAckFrame(frame, b, typ, ackDelayExponent) *)
Definition parse_ack (ecn : bool) (exp : Z) (b : list Z) : P :=
  bindv b (fun la b => bindv b (fun delay b =>
  let delay_ns := ack_delay_ns delay exp in
  bindv b (fun numBlocks b => bindv b (fun ab b =>
  if la <? ab then Err 10 0 else
  let smallest := la - ab in
  match ack_loop (S (length b)) numBlocks smallest b with
  | Err e c => Err e c
  | Ok (rs, b) =>
    let ranges := (smallest, la) :: rs in
    if negb (validate_ack_ranges ranges) then Err 11 0 else
    if ecn then
      bindv b (fun e0 b => bindv b (fun e1 b => bindv b (fun ce b =>
      Ok (FAck ranges delay_ns e0 e1 ce, b))))
    else Ok (FAck ranges delay_ns 0 0 0, b)
  end)))).

Definition encode_ack_delay (d : Z) : Z := Z.quot d (1000 * 2 ^ W_AckDelayExponent).
Definition ack_has_ecn (e0 e1 ce : Z) : bool := (0 <? e0) || (0 <? e1) || (0 <? ce).

(** gap/length pairs of ranges 1.. (encodeAckRange(i), i >= 1) *)
Fixpoint ack_tail (prev_smallest : Z) (rs : list range) : list Z :=
  match rs with
  | [] => []
  | (s, l) :: r => vappend (prev_smallest - l - 2) ++ vappend (l - s) ++ ack_tail s r
  end.
Fixpoint ack_tail_len (prev_smallest : Z) (rs : list range) : Z :=
  match rs with
  | [] => 0
  | (s, l) :: r => vlen (prev_smallest - l - 2) + vlen (l - s) + ack_tail_len s r
  end.

(** Append (None: AckRanges empty — the code would panic) *)
Definition append_ack (ranges : list range) (delay e0 e1 ce : Z) : option (list Z) :=
  match firstn (Z.to_nat W_MaxNumAckRanges) ranges with
  | [] => None
  | (s0, l0) :: rs =>
    let ecn := ack_has_ecn e0 e1 ce in
    Some ([if ecn then FT_AckECN else FT_Ack] ++ vappend l0 ++ vappend (encode_ack_delay delay)
          ++ vappend (zlen rs) ++ vappend (l0 - s0) ++ ack_tail s0 rs
          ++ (if ecn then vappend e0 ++ vappend e1 ++ vappend ce else []))
  end.

Definition length_ack (ranges : list range) (delay e0 e1 ce : Z) : Z :=
  match firstn (Z.to_nat W_MaxNumAckRanges) ranges with
  | [] => 0
  | (s0, l0) :: rs =>
    1 + vlen l0 + vlen (encode_ack_delay delay) + 1 + vlen (l0 - s0) + ack_tail_len s0 rs
    + (if ack_has_ecn e0 e1 ce then vlen e0 + vlen e1 + vlen ce else 0)
  end.

(** numEncodableAckRanges(maxSize): slow-path loop over ranges i = 1 .. numRanges-1 *)
Fixpoint ack_fit (i : Z) (len maxSize prev_smallest : Z) (rs : list range) : Z :=
  match rs with
  | [] => i
  | (s, l) :: r =>
    let rl := vlen (prev_smallest - l - 2) + vlen (l - s) in
    if maxSize <? len + rl then i else ack_fit (i + 1) (len + rl) maxSize s r
  end.

Definition num_encodable_ack_ranges (ranges : list range) (delay e0 e1 ce : Z) (maxSize : Z) : Z :=
  match firstn (Z.to_nat W_MaxNumAckRanges) ranges with
  | [] => 0
  | (s0, l0) :: rs =>
    let ecn := ack_has_ecn e0 e1 ce in
    let numRanges := 1 + zlen rs in
    let worst := 1 + 8 + 8 + 1 + 8 + (if ecn then 24 else 0) + 2 * 8 * (numRanges - 1) in
    if worst <=? maxSize then numRanges else
    let len := 1 + vlen l0 + vlen (encode_ack_delay delay) + 1 + vlen (l0 - s0)
               + (if ecn then vlen e0 + vlen e1 + vlen ce else 0) in
    ack_fit 1 len maxSize s0 rs
  end.

Definition truncate_ack (ranges : list range) (delay e0 e1 ce : Z) (maxSize : Z) : list range :=
  firstn (Z.to_nat (num_encodable_ack_ranges ranges delay e0 e1 ce maxSize)) ranges.

(** ACK_FREQUENCY *)
Definition ackfreq_delay_ns (mad : Z) : Z :=
  let d := to_i64 (mad * 1000) in if d <? 0 then maxInt64 else d.

Definition parse_ack_frequency (b : list Z) : P :=
  bindv b (fun seq b => bindv b (fun aeth b => bindv b (fun mad b => bindv b (fun rth b =>
  Ok (FAckFrequency seq aeth (ackfreq_delay_ns mad) rth, b))))).

Definition body_ack_frequency (seq aeth mad_ns rth : Z) : list Z :=
  vappend seq ++ vappend aeth ++ vappend (Z.quot mad_ns 1000) ++ vappend rth.
Definition length_ack_frequency (seq aeth mad_ns rth : Z) : Z :=
  2 + vlen seq + vlen aeth + vlen (Z.quot mad_ns 1000) + vlen rth.
