(** The header.go helpers the transport uses for routing before a connection exists
    (ParseArbitraryLenConnectionIDs, ParseVersion, IsVersionNegotiationPacket, Is0RTTPacket):
    what they consume, that they look at a fixed prefix only, and that they agree with the full
    long-header parser on everything both of them read. *)
From Coq Require Import List ZArith Bool Lia.
From V Require Import Gen.Params Lib.Hex Wire.Varint Wire.VarintProofs Wire.Headers Wire.HeadersProofs.
Import ListNotations.
Open Scope Z_scope.
Local Ltac Zify.zify_post_hook ::= Z.div_mod_to_equations.

Lemma tl_zskipn {A} n (l : list A) : 0 <= n -> tl (zskipn n l) = zskipn (n + 1) l.
Proof.
  intros H. unfold zskipn. replace (Z.to_nat (n + 1)) with (S (Z.to_nat n)) by lia.
  generalize (Z.to_nat n). clear. intros k. revert l. induction k as [|k IH]; intros l.
  - destruct l; reflexivity.
  - destruct l as [|x l]; [reflexivity|]. cbn [skipn]. rewrite IH. reflexivity.
Qed.

Lemma nth_hd_skipn {A} (d : A) n l : hd d (skipn n l) = nth n l d.
Proof. revert l. induction n as [|n IH]; intros [|x l]; cbn; auto. Qed.

Lemma plh_length_lower tb start ver ty src dst tok b4 h l e :
  plh_length tb start ver ty src dst tok b4 = (h, l, e) -> accepted e -> start - zlen b4 <= l.
Proof.
  unfold plh_length, accepted. destruct (vparse b4) as [err|[[pl n] r']] eqn:Ev; intros E He.
  - inversion E; subst. destruct err; unfold varint_err, E_EOF, E_UEOF, E_Unsupported in He; lia.
  - inversion E; subst. pose proof (vparse_consumed _ _ _ _ Ev). lia.
Qed.

(* whatever plh_rest reports as read includes everything in front of its input *)
Lemma plh_rest_lower tb start ver src dst b3 h l e :
  plh_rest tb start ver src dst b3 = (h, l, e) -> accepted e -> start - zlen b3 <= l.
Proof.
  unfold plh_rest. intros E He. pose proof (zlen_nonneg b3).
  destruct (ver =? 0). { inversion E; subst. lia. }
  destruct (negb (is_supported ver)). { inversion E; subst. lia. }
  destruct (long_type ver tb =? H_PacketTypeRetry).
  { destruct (Z.leb_spec (zlen b3 - 16) 0); inversion E; subst; lia. }
  destruct (long_type ver tb =? H_PacketTypeInitial).
  - destruct (vparse b3) as [err|[[tl n] b3']] eqn:Ev.
    + inversion E; subst. lia.
    + pose proof (vparse_consumed _ _ _ _ Ev).
      destruct (Z.gtb_spec tl (zlen b3')); [inversion E; subst; lia|].
      apply plh_length_lower in E; [|exact He]. revert E. rewrite zlen_zskipn. lia.
  - apply plh_length_lower in E; [lia | exact He].
Qed.

(** ---- ParseArbitraryLenConnectionIDs ---- *)

(** success: the reported length is exactly the invariant header (1 + 4 + 1 + dcil + 1 + scil),
    never more than the input *)
Theorem arbitrary_consumed data n dst src :
  Forall is_byte data -> parse_arbitrary data = (0, n, dst, src) ->
  n = 7 + zlen dst + zlen src /\ n <= zlen data /\ zlen dst <= 255 /\ zlen src <= 255.
Proof.
  intros Hb. unfold parse_arbitrary. cbv zeta.
  destruct (Z.ltb_spec (zlen data) 6) as [L0|L0]; [intros X; inversion X|].
  set (d1 := skipn 5 data). set (dl := hd 0 d1). set (d2 := tl d1).
  destruct (Z.ltb_spec (zlen d2) (dl + 1)) as [L1|L1]; [intros X; inversion X|].
  set (d3 := zskipn dl d2). set (sl := hd 0 d3). set (d4 := tl d3).
  destruct (Z.ltb_spec (zlen d4) sl) as [L2|L2]; [intros X; inversion X|].
  intros X. inversion X; subst n dst src. clear X.
  assert (B1 : Forall is_byte d1) by (apply Forall_skipn; exact Hb).
  assert (Z1 : zlen d1 = zlen data - 5) by (unfold d1; rewrite zlen_skipn; lia).
  assert (Hdl : 0 <= dl < 256).
  { unfold dl. destruct d1 as [|x r]; [rewrite zlen_nil in Z1; lia|]. inversion B1; subst. cbn [hd]. assumption. }
  assert (Z2 : zlen d2 = zlen d1 - 1).
  { unfold d2. destruct d1 as [|x r]; [rewrite zlen_nil in Z1; lia|]. cbn [tl]. rewrite zlen_cons. lia. }
  assert (B2 : Forall is_byte d2) by (unfold d2; destruct d1; [constructor | inversion B1; assumption]).
  assert (Z3 : zlen d3 = zlen d2 - dl) by (unfold d3; rewrite zlen_zskipn; lia).
  assert (B3 : Forall is_byte d3) by (apply Forall_skipn; exact B2).
  assert (Hsl : 0 <= sl < 256).
  { unfold sl. destruct d3 as [|x r]; [rewrite zlen_nil in Z3; lia|]. inversion B3; subst. cbn [hd]. assumption. }
  assert (Z4 : zlen d4 = zlen d3 - 1).
  { unfold d4. destruct d3 as [|x r]; [rewrite zlen_nil in Z3; lia|]. cbn [tl]. rewrite zlen_cons. lia. }
  rewrite !zlen_zfirstn by lia. lia.
Qed.

(** agreement: whenever the full long-header parser gets past the connection IDs (it accepts the
    header or reports an unsupported version), the version-independent parser returns the same two
    connection IDs *)
Theorem arbitrary_agrees b h e :
  Forall is_byte b -> parse_header b = Some (h, e) -> accepted e ->
  exists n, parse_arbitrary b = (0, n, hDst h, hSrc h) /\ n <= hParsedLen h.
Proof.
  intros Hb. destruct b as [|tb r]; [discriminate|]. cbn [parse_header].
  destruct (parse_long_header tb r) as [[h' l] e'] eqn:E. intros X He. inversion X; subst h e. clear X.
  pose proof (plh_reaches _ _ _ _ _ E He) as (H1 & H2 & H3 & H4 & H5 & _ & R).
  pose proof (plh_rest_fields _ _ _ _ _ _ _ _ _ R) as (Rd & Rs & _).
  pose proof (plh_rest_lower _ _ _ _ _ _ _ _ _ R He) as Rl.
  unfold set_parsed_len. cbn [hDst hSrc hParsedLen]. rewrite Rd, Rs.
  inversion Hb as [|? ? _ Hr]; subst.
  assert (Hdl : 0 <= nth 4 r 0).
  { rewrite <- nth_hd_skipn. assert (Z1 : zlen (skipn 4 r) = zlen r - 4) by (rewrite zlen_skipn; lia).
    pose proof (Forall_skipn _ 4 _ Hr) as B. destruct (skipn 4 r) as [|x q]; [rewrite zlen_nil in Z1; lia|].
    inversion B; subst. cbn [hd]. unfold is_byte in *. lia. }
  unfold parse_arbitrary. cbv zeta.
  rewrite ltb_false by (rewrite zlen_cons; lia).
  change (skipn 5 (tb :: r)) with (skipn 4 r).
  assert (Et : tl (skipn 4 r) = skipn 5 r).
  { change (skipn 5 r) with (zskipn (4 + 1) r). change (skipn 4 r) with (zskipn 4 r). apply tl_zskipn. lia. }
  rewrite Et. rewrite nth_hd_skipn.
  rewrite ltb_false by lia.
  rewrite tl_zskipn by exact Hdl.
  rewrite ltb_false by lia.
  eexists. split; [reflexivity|].
  (* the invariant part is a prefix of what parseHeader read *)
  rewrite zlen_cons.
  assert (Hsl : 0 <= hd 0 (zskipn (nth 4 r 0) (skipn 5 r))).
  { pose proof (Forall_skipn _ (Z.to_nat (nth 4 r 0)) _ (Forall_skipn _ 5 _ Hr)) as B. unfold zskipn.
    destruct (skipn (Z.to_nat (nth 4 r 0)) (skipn 5 r)) as [|x q]; [cbn; lia|]. inversion B; subst. cbn [hd]. unfold is_byte in *. lia. }
  revert Rl H3 H5. rewrite !zlen_zskipn, zlen_skipn. lia.
Qed.

(** ---- ParseVersion, IsVersionNegotiationPacket, Is0RTTPacket ---- *)

(** they look at the first five bytes only *)
Lemma firstn4_tl_app (b rest : list Z) : 5 <= zlen b -> firstn 4 (tl (b ++ rest)) = firstn 4 (tl b).
Proof.
  intros H. destruct b as [|x r]; [rewrite zlen_nil in H; lia|]. cbn [app tl].
  rewrite zlen_cons in H. rewrite firstn_app. unfold zlen in H.
  replace (4 - length r)%nat with 0%nat by lia. cbn [firstn]. apply app_nil_r.
Qed.

Lemma hd_app (b rest : list Z) : 1 <= zlen b -> hd 0 (b ++ rest) = hd 0 b.
Proof. destruct b; [rewrite zlen_nil; lia | reflexivity]. Qed.

Theorem prefix_only b rest : 5 <= zlen b ->
  parse_version (b ++ rest) = parse_version b /\ is_vneg (b ++ rest) = is_vneg b /\ is_0rtt (b ++ rest) = is_0rtt b.
Proof.
  intros H. pose proof (zlen_nonneg rest). unfold parse_version, is_vneg, is_0rtt.
  rewrite zlen_app, firstn4_tl_app, hd_app by lia.
  rewrite !ltb_false by lia. auto.
Qed.

(** shorter inputs: ParseVersion reports EOF, the two predicates say no *)
Theorem short_input b : zlen b < 5 -> parse_version b = (E_EOF, 0) /\ is_vneg b = false /\ is_0rtt b = false.
Proof.
  intros H. unfold parse_version, is_vneg, is_0rtt.
  destruct (Z.ltb_spec (zlen b) 5); [auto | lia].
Qed.

(* every header parseLongHeader returns for an input with the version field carries that version and the first byte *)
Lemma plh_version tb r h l e : parse_long_header tb r = (h, l, e) -> 5 <= zlen r ->
  hVersion h = unbe (firstn 4 r) 0 /\ hTypeByte h = tb.
Proof.
  unfold parse_long_header. cbv zeta. intros E H5.
  destruct (Z.ltb_spec (zlen r) 5); [lia|].
  repeat match type of E with
         | (if ?c then _ else _) = _ => destruct c
         | plh_rest _ _ _ _ _ _ = _ => apply plh_rest_fields in E; tauto
         end; inversion E; subst; cbn; auto.
Qed.

(** agreement with the long-header parser on the version and on "is a Version Negotiation packet" *)
Theorem version_agrees b h e : parse_header b = Some (h, e) -> 6 <= zlen b ->
  parse_version b = (0, hVersion h) /\ is_vneg b = is_long (hTypeByte h) && (hVersion h =? 0).
Proof.
  destruct b as [|tb r]; [discriminate|]. cbn [parse_header]. rewrite zlen_cons.
  destruct (parse_long_header tb r) as [[h' l] e'] eqn:E. intros X H6. inversion X; subst h e. clear X.
  destruct (plh_version _ _ _ _ _ E ltac:(lia)) as (Ev & Et).
  unfold set_parsed_len. cbn [hVersion hTypeByte]. rewrite Ev, Et.
  unfold parse_version, is_vneg. rewrite zlen_cons. cbn [tl hd].
  rewrite !ltb_false by lia. auto.
Qed.

(** a packet the long-header parser accepts as version 0 is a Version Negotiation packet, and has no type, token or length *)
Theorem vneg_header b h : parse_header b = Some (h, 0) -> 6 <= zlen b -> is_long (hd 0 b) = true ->
  is_vneg b = true <-> hVersion h = 0.
Proof.
  intros P H6 Hl. destruct (version_agrees b h 0 P H6) as (_ & ->).
  destruct b as [|tb r]; [discriminate|]. cbn [parse_header] in P.
  destruct (parse_long_header tb r) as [[h' l] e'] eqn:E. inversion P; subst.
  rewrite zlen_cons in H6. destruct (plh_version _ _ _ _ _ E ltac:(lia)) as (_ & Et).
  unfold set_parsed_len. cbn [hTypeByte hVersion]. rewrite Et. cbn [hd] in Hl. rewrite Hl. cbn [andb].
  apply Z.eqb_eq.
Qed.

(** ---- ParseVersionNegotiationPacket consumes the whole packet ---- *)
Lemma versions_of_len : forall n b, (length b = 4 * n)%nat -> length (versions_of b) = n.
Proof.
  induction n as [|n IH]; intros b H.
  - destruct b; [reflexivity | cbn in H; lia].
  - destruct b as [|a [|b' [|c [|d r]]]]; cbn [length] in H; try lia.
    cbn [versions_of length]. rewrite IH; [reflexivity | lia].
Qed.

Theorem vneg_consumed b dst src vs :
  Forall is_byte b -> parse_vneg b = (0, dst, src, vs) ->
  vs <> [] /\ zlen b = 7 + zlen dst + zlen src + 4 * zlen vs.
Proof.
  intros Hb. unfold parse_vneg.
  destruct (parse_arbitrary b) as [[[e n] d] s] eqn:Ea.
  destruct (Z.eqb_spec e 0) as [->|Ne]; cbn [negb]; [|intros X; inversion X; subst; contradiction].
  destruct (arbitrary_consumed b n d s Hb Ea) as (En & Hn & _ & _).
  destruct (Z.eqb_spec (zlen (zskipn n b)) 0); [intros X; inversion X|].
  destruct (Z.eqb_spec (zlen (zskipn n b) mod 4) 0) as [M|M]; cbn [negb]; [|intros X; inversion X].
  intros X. inversion X; subst d s vs. clear X.
  pose proof (zlen_nonneg dst). pose proof (zlen_nonneg src).
  assert (Zr : zlen (zskipn n b) = zlen b - n) by (rewrite zlen_zskipn; lia).
  assert (Hl : zlen (versions_of (zskipn n b)) = zlen (zskipn n b) / 4).
  { unfold zlen at 1. rewrite (versions_of_len (Z.to_nat (zlen (zskipn n b) / 4))); [|unfold zlen in *; lia].
    pose proof (zlen_nonneg (zskipn n b)). lia. }
  split.
  - intros Ev. rewrite Ev in Hl. rewrite zlen_nil in Hl. pose proof (zlen_nonneg (zskipn n b)). lia.
  - rewrite Hl. lia.
Qed.
