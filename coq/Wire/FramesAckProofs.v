(** ACK and ACK_FREQUENCY: round trip (with the 64-range cut and the delay quantisation),
    length, rejection of invalid ranges, truncation. *)
From Coq Require Import List ZArith Bool Lia.
From V Require Import Gen.Params Lib.Hex Wire.Varint Wire.VarintProofs Wire.FramesBase Wire.FramesBaseProofs Wire.FramesAck.
Import ListNotations.
Open Scope Z_scope.

Local Ltac bv := repeat (rewrite bindv_vappend by assumption; cbv beta).

(** Ranges as a sender holds them: descending, disjoint, not adjacent, non-negative. *)
Fixpoint chain (s : Z) (rs : list range) : Prop :=
  match rs with
  | [] => True
  | (s', l') :: r => 0 <= s' <= l' /\ l' + 2 <= s /\ chain s' r
  end.

Definition wf_ranges (ranges : list range) : Prop :=
  match ranges with
  | [] => False
  | (s0, l0) :: r => 0 <= s0 <= l0 /\ l0 <= maxVarInt8 /\ chain s0 r
  end.

Lemma chain_firstn n s rs : chain s rs -> chain s (firstn n rs).
Proof.
  revert s rs; induction n as [|n IH]; intros s [|[s' l'] r]; cbn [firstn chain]; auto.
  intros (A & B & C). auto.
Qed.

Lemma wf_ranges_firstn n ranges : wf_ranges ranges -> wf_ranges (firstn (S n) ranges).
Proof.
  destruct ranges as [|[s0 l0] r]; cbn [firstn wf_ranges]; auto.
  intros (A & B & C). auto using chain_firstn.
Qed.

Lemma chain_each_ok s rs : chain s rs -> ranges_each_ok rs = true.
Proof.
  revert s; induction rs as [|[s' l'] r IH]; intros s; cbn [chain ranges_each_ok]; auto.
  intros (A & B & C). rewrite (IH _ C). destruct (Z.leb_spec s' l'); [reflexivity | lia].
Qed.

Lemma chain_consistent s rs : chain s rs -> ranges_consistent s rs = true.
Proof.
  revert s; induction rs as [|[s' l'] r IH]; intros s; cbn [chain ranges_consistent]; auto.
  intros (A & B & C). rewrite (IH _ C).
  destruct (Z.leb_spec s s'); [lia|]. destruct (Z.leb_spec s (l' + 1)); [lia|]. reflexivity.
Qed.

(** what a sender holds passes the receiver's validateAckRanges *)
Lemma wf_ranges_validate ranges : wf_ranges ranges -> validate_ack_ranges ranges = true.
Proof.
  destruct ranges as [|[s0 l0] r]; cbn [wf_ranges validate_ack_ranges ranges_each_ok]; [contradiction|].
  intros (A & B & C). rewrite (chain_each_ok _ _ C), (chain_consistent _ _ C).
  destruct (Z.leb_spec s0 l0); [reflexivity | lia].
Qed.

Lemma chain_vwf s s' l' r : s <= maxVarInt8 -> chain s ((s', l') :: r) ->
  vwf (s - l' - 2) /\ vwf (l' - s') /\ s' <= maxVarInt8.
Proof. cbn [chain]. unfold vwf. intros H (A & B & C). lia. Qed.

Lemma ack_tail_length_ge s rs : s <= maxVarInt8 -> chain s rs -> (length rs <= length (ack_tail s rs))%nat.
Proof.
  revert s; induction rs as [|[s' l'] r IH]; intros s Hs C; cbn [ack_tail length]; [lia|].
  destruct (chain_vwf _ _ _ _ Hs C) as (V1 & V2 & Hs'). destruct C as (A & B & C).
  specialize (IH s' Hs' C). rewrite !app_length.
  pose proof (vappend_length _ V1). pose proof (vlen_pos _ V1). lia.
Qed.

Lemma ack_loop_tail rs : forall fuel s b,
  (length rs <= fuel)%nat -> s <= maxVarInt8 -> chain s rs ->
  ack_loop fuel (zlen rs) s (ack_tail s rs ++ b) = Ok (rs, b).
Proof.
  induction rs as [|[s' l'] r IH]; intros fuel s b Hf Hs C.
  - destruct fuel; reflexivity.
  - destruct fuel as [|fuel]; [cbn [length] in Hf; lia|].
    destruct (chain_vwf _ _ _ _ Hs C) as (V1 & V2 & Hs'). destruct C as (A & B & C).
    cbn [ack_loop ack_tail]. rewrite zlen_cons.
    destruct (Z.leb_spec (1 + zlen r) 0); [pose proof (zlen_nonneg r); lia|].
    rewrite <- !app_assoc. bv.
    destruct (Z.ltb_spec s (s - l' - 2 + 2)); [lia|].
    replace (s - (s - l' - 2) - 2) with l' by lia.
    destruct (Z.ltb_spec l' (l' - s')); [lia|].
    replace (l' - (l' - s')) with s' by lia. replace (1 + zlen r - 1) with (zlen r) by lia.
    rewrite IH; [reflexivity | cbn [length] in Hf; lia | exact Hs' | exact C].
Qed.

Lemma ack_tail_zlen s rs : s <= maxVarInt8 -> chain s rs -> zlen (ack_tail s rs) = ack_tail_len s rs.
Proof.
  revert s; induction rs as [|[s' l'] r IH]; intros s Hs C; cbn [ack_tail ack_tail_len]; [reflexivity|].
  destruct (chain_vwf _ _ _ _ Hs C) as (V1 & V2 & Hs'). destruct C as (A & B & C).
  rewrite !zlen_app, !zlen_vappend by assumption. rewrite (IH _ Hs' C). lia.
Qed.

Definition wf_ack (ranges : list range) (delay e0 e1 ce : Z) : Prop :=
  wf_ranges ranges /\ 0 <= delay /\ encode_ack_delay delay <= maxVarInt8 /\ vwf e0 /\ vwf e1 /\ vwf ce.

Lemma encode_ack_delay_nonneg d : 0 <= d -> 0 <= encode_ack_delay d.
Proof. intros H. unfold encode_ack_delay. apply Z.quot_pos; [exact H | reflexivity]. Qed.

(** what Append writes after the type byte *)
Definition body_ack (ranges : list range) (delay e0 e1 ce : Z) : list Z :=
  match firstn (Z.to_nat W_MaxNumAckRanges) ranges with
  | [] => []
  | (s0, l0) :: rs =>
    vappend l0 ++ vappend (encode_ack_delay delay) ++ vappend (zlen rs) ++ vappend (l0 - s0) ++ ack_tail s0 rs
    ++ (if ack_has_ecn e0 e1 ce then vappend e0 ++ vappend e1 ++ vappend ce else [])
  end.

Lemma append_ack_shape ranges delay e0 e1 ce :
  wf_ranges ranges ->
  append_ack ranges delay e0 e1 ce
  = Some ([if ack_has_ecn e0 e1 ce then FT_AckECN else FT_Ack] ++ body_ack ranges delay e0 e1 ce).
Proof.
  unfold append_ack, body_ack. destruct ranges as [|[s0 l0] r]; [contradiction|]. intros _.
  change (Z.to_nat W_MaxNumAckRanges) with 64%nat. cbn [firstn]. reflexivity.
Qed.

Lemma no_ecn_zero e0 e1 ce : vwf e0 -> vwf e1 -> vwf ce -> ack_has_ecn e0 e1 ce = false -> e0 = 0 /\ e1 = 0 /\ ce = 0.
Proof.
  unfold ack_has_ecn, vwf. intros H0 H1 H2 H.
  destruct (Z.ltb_spec 0 e0); [discriminate|]. destruct (Z.ltb_spec 0 e1); [discriminate|].
  destruct (Z.ltb_spec 0 ce); [discriminate|]. lia.
Qed.

(** The ACK round trip: the first MaxNumAckRanges ranges come back, the delay comes back as
    the encoded delay scaled by the RECEIVER's exponent, the ECN counts come back. *)
Theorem ack_roundtrip ranges delay e0 e1 ce exp rest :
  wf_ack ranges delay e0 e1 ce ->
  parse_ack (ack_has_ecn e0 e1 ce) exp (body_ack ranges delay e0 e1 ce ++ rest)
  = Ok (FAck (firstn (Z.to_nat W_MaxNumAckRanges) ranges)
             (ack_delay_ns (encode_ack_delay delay) exp) e0 e1 ce, rest).
Proof.
  intros (Wr & Hd & He & V0 & V1 & V2). unfold body_ack.
  change (Z.to_nat W_MaxNumAckRanges) with 64%nat.
  pose proof (wf_ranges_firstn 63 ranges Wr) as Wf.
  pose proof (firstn_le_length 64 ranges) as Hn.
  destruct (firstn 64 ranges) as [|[s0 l0] rs]; [contradiction|]. cbn [length] in Hn.
  pose proof (wf_ranges_validate _ Wf) as Hv.
  destruct Wf as (A & B & C).
  assert (Vl0 : vwf l0) by (unfold vwf; lia).
  assert (Vd : vwf (encode_ack_delay delay)) by (unfold vwf; split; [apply encode_ack_delay_nonneg; exact Hd | exact He]).
  assert (Hlen : (length rs <= length (ack_tail s0 rs))%nat) by (apply ack_tail_length_ge; [lia | exact C]).
  assert (Vn : vwf (zlen rs)).
  { unfold vwf, zlen, maxVarInt8. lia. }
  assert (Vab : vwf (l0 - s0)) by (unfold vwf; lia).
  unfold parse_ack. rewrite <- !app_assoc. bv.
  destruct (Z.ltb_spec l0 (l0 - s0)); [lia|].
  replace (l0 - (l0 - s0)) with s0 by lia.
  rewrite ack_loop_tail; [| rewrite app_length; lia | lia | exact C].
  match goal with |- context [validate_ack_ranges ?x] => replace (validate_ack_ranges x) with true by (symmetry; exact Hv) end.
  cbn [negb].
  destruct (ack_has_ecn e0 e1 ce) eqn:E.
  - rewrite <- !app_assoc. bv. reflexivity.
  - destruct (no_ecn_zero _ _ _ V0 V1 V2 E) as (-> & -> & ->). reflexivity.
Qed.

Theorem ack_length ranges delay e0 e1 ce :
  wf_ack ranges delay e0 e1 ce ->
  zlen ([if ack_has_ecn e0 e1 ce then FT_AckECN else FT_Ack] ++ body_ack ranges delay e0 e1 ce)
  = length_ack ranges delay e0 e1 ce.
Proof.
  intros (Wr & Hd & He & V0 & V1 & V2). unfold body_ack, length_ack.
  change (Z.to_nat W_MaxNumAckRanges) with 64%nat.
  pose proof (wf_ranges_firstn 63 ranges Wr) as Wf.
  pose proof (firstn_le_length 64 ranges) as Hn.
  destruct (firstn 64 ranges) as [|[s0 l0] rs]; [contradiction|]. cbn [length] in Hn.
  destruct Wf as (A & B & C).
  assert (Vl0 : vwf l0) by (unfold vwf; lia).
  assert (Vd : vwf (encode_ack_delay delay)) by (unfold vwf; split; [apply encode_ack_delay_nonneg; exact Hd | exact He]).
  assert (Vn : vwf (zlen rs)) by (unfold vwf, zlen, maxVarInt8; lia).
  assert (Vab : vwf (l0 - s0)) by (unfold vwf; lia).
  assert (Hn1 : vlen (zlen rs) = 1).
  { unfold vlen, maxVarInt1, zlen. destruct (Z.leb_spec (Z.of_nat (length rs)) 63); [reflexivity | lia]. }
  rewrite !zlen_app, zlen_cons, !zlen_vappend by assumption. rewrite Hn1.
  rewrite ack_tail_zlen by (try exact C; lia).
  destruct (ack_has_ecn e0 e1 ce); rewrite ?zlen_app, ?zlen_vappend by assumption; change (@zlen Z []) with 0; lia.
Qed.

(** the delay scaling without overflow *)
Lemma ack_delay_ns_exact v exp :
  0 <= v -> 0 <= exp -> v * 2 ^ exp * 1000 <= maxInt64 -> ack_delay_ns v exp = v * 2 ^ exp * 1000.
Proof.
  intros Hv He Hb. unfold ack_delay_ns, to_i64, to_u64.
  assert (Hp : 0 <= v * 2 ^ exp) by (apply Z.mul_nonneg_nonneg; [exact Hv | apply Z.pow_nonneg; lia]).
  set (p := v * 2 ^ exp) in *. unfold maxInt64, two64 in *.
  rewrite (Z.mod_small p) by lia. rewrite (Z.mod_small p) by lia.
  destruct (Z.leb_spec p 9223372036854775807); [|lia].
  rewrite (Z.mod_small (p * 1000)) by lia.
  destruct (Z.leb_spec (p * 1000) 9223372036854775807); [|lia].
  destruct (Z.ltb_spec (p * 1000) 0); [lia | reflexivity].
Qed.

(** sender and receiver use the same exponent (the code's AckDelayExponent = the default 3):
    the delay comes back rounded down to a multiple of 8 µs *)
Lemma ack_delay_quantised d :
  0 <= d <= maxInt64 ->
  ack_delay_ns (encode_ack_delay d) W_AckDelayExponent = d - d mod 8000.
Proof.
  intros H. unfold encode_ack_delay. change (1000 * 2 ^ W_AckDelayExponent) with 8000.
  rewrite Z.quot_div_nonneg by lia.
  rewrite ack_delay_ns_exact.
  - change (2 ^ W_AckDelayExponent) with 8. pose proof (Z.div_mod d 8000). lia.
  - apply Z.div_pos; lia.
  - vm_compute; discriminate.
  - change (2 ^ W_AckDelayExponent) with 8. unfold maxInt64 in *. pose proof (Z.div_mod d 8000).
    pose proof (Z.mod_pos_bound d 8000). lia.
Qed.

Lemma ack_delay_exponents_agree : W_AckDelayExponent = W_DefaultAckDelayExponent.
Proof. reflexivity. Qed.

Lemma max_num_ack_ranges_is_64 : W_MaxNumAckRanges = 64.
Proof. reflexivity. Qed.

(** Rejections *)
Lemma reject_ack_first_range ecn exp la d n ab rest :
  vwf la -> vwf d -> vwf n -> vwf ab -> la < ab ->
  parse_ack ecn exp (vappend la ++ vappend d ++ vappend n ++ vappend ab ++ rest) = Err 10 0.
Proof.
  intros. unfold parse_ack. bv. destruct (Z.ltb_spec la ab); [reflexivity | lia].
Qed.

Lemma reject_ack_gap ecn exp la d n ab gap rest :
  vwf la -> vwf d -> vwf n -> vwf ab -> vwf gap -> ab <= la -> 1 <= n -> la - ab < gap + 2 ->
  parse_ack ecn exp (vappend la ++ vappend d ++ vappend n ++ vappend ab ++ vappend gap ++ rest) = Err 11 0.
Proof.
  intros Vla Vd Vn Vab Vg Hab Hn Hg. unfold parse_ack. bv.
  destruct (Z.ltb_spec la ab); [lia|]. cbn [ack_loop].
  destruct (Z.leb_spec n 0); [lia|]. bv.
  destruct (Z.ltb_spec (la - ab) (gap + 2)); [reflexivity | lia].
Qed.

Lemma reject_ack_range_len ecn exp la d n ab gap len rest :
  vwf la -> vwf d -> vwf n -> vwf ab -> vwf gap -> vwf len -> ab <= la -> 1 <= n -> gap + 2 <= la - ab ->
  la - ab - gap - 2 < len ->
  parse_ack ecn exp (vappend la ++ vappend d ++ vappend n ++ vappend ab ++ vappend gap ++ vappend len ++ rest) = Err 11 0.
Proof.
  intros Vla Vd Vn Vab Vg Vl Hab Hn Hg Hl. unfold parse_ack. bv.
  destruct (Z.ltb_spec la ab); [lia|]. cbn [ack_loop].
  destruct (Z.leb_spec n 0); [lia|]. bv.
  destruct (Z.ltb_spec (la - ab) (gap + 2)); [lia|]. bv.
  destruct (Z.ltb_spec (la - ab - gap - 2) len); [reflexivity | lia].
Qed.

(** ACK_FREQUENCY: the requested max ack delay comes back rounded down to microseconds *)
Theorem ack_frequency_roundtrip seq aeth mad rth rest :
  vwf seq -> vwf aeth -> vwf rth -> 0 <= mad <= maxInt64 ->
  parse_ack_frequency (body_ack_frequency seq aeth mad rth ++ rest)
  = Ok (FAckFrequency seq aeth (mad - mad mod 1000) rth, rest).
Proof.
  intros Vs Va Vr Hm. unfold parse_ack_frequency, body_ack_frequency.
  rewrite Z.quot_div_nonneg by lia.
  assert (Vm : vwf (mad / 1000)).
  { unfold vwf, maxVarInt8, maxInt64 in *. split; [apply Z.div_pos; lia|].
    apply Z.div_le_upper_bound; lia. }
  rewrite <- !app_assoc. bv.
  unfold ackfreq_delay_ns, to_i64, two64, maxInt64 in *.
  pose proof (Z.div_mod mad 1000). pose proof (Z.mod_pos_bound mad 1000).
  assert (0 <= mad / 1000) by (apply Z.div_pos; lia).
  rewrite (Z.mod_small (mad / 1000 * 1000)) by lia.
  destruct (Z.leb_spec (mad / 1000 * 1000) 9223372036854775807); [|lia].
  destruct (Z.ltb_spec (mad / 1000 * 1000) 0); [lia|].
  replace (mad / 1000 * 1000) with (mad - mad mod 1000) by lia. reflexivity.
Qed.

Theorem ack_frequency_length seq aeth mad rth :
  vwf seq -> vwf aeth -> vwf rth -> 0 <= mad <= maxInt64 ->
  zlen (vappend FT_AckFrequency ++ body_ack_frequency seq aeth mad rth) = length_ack_frequency seq aeth mad rth.
Proof.
  intros Vs Va Vr Hm. unfold body_ack_frequency, length_ack_frequency.
  rewrite Z.quot_div_nonneg by lia.
  assert (Vm : vwf (mad / 1000)).
  { unfold vwf, maxVarInt8, maxInt64 in *. split; [apply Z.div_pos; lia|].
    apply Z.div_le_upper_bound; lia. }
  assert (Vt : vwf FT_AckFrequency) by (unfold vwf, FT_AckFrequency, maxVarInt8; lia).
  rewrite !zlen_app, !zlen_vappend by assumption. change (vlen FT_AckFrequency) with 2. lia.
Qed.

(** ---------------------------------------------------------------- Truncate *)

Lemma vlen_le8 x : 0 <= vlen x <= 8.
Proof.
  unfold vlen. destruct (x <=? maxVarInt1); [lia|]. destruct (x <=? maxVarInt2); [lia|].
  destruct (x <=? maxVarInt4); [lia|]. destruct (x <=? maxVarInt8); lia.
Qed.

Lemma ack_tail_len_bound s rs : 0 <= ack_tail_len s rs <= 16 * zlen rs.
Proof.
  revert s; induction rs as [|[s' l'] r IH]; intros s; cbn [ack_tail_len].
  - change (zlen (@nil range)) with 0. lia.
  - rewrite zlen_cons. specialize (IH s'). pose proof (vlen_le8 (s - l' - 2)). pose proof (vlen_le8 (l' - s')). lia.
Qed.

Lemma ack_fit_spec maxSize rs : forall i len s,
  len <= maxSize ->
  exists j : nat, ack_fit i len maxSize s rs = i + Z.of_nat j /\ (j <= length rs)%nat
                  /\ len + ack_tail_len s (firstn j rs) <= maxSize.
Proof.
  induction rs as [|[s' l'] r IH]; intros i len s Hl; cbn [ack_fit].
  - exists 0%nat. cbn. repeat split; lia.
  - destruct (Z.ltb_spec maxSize (len + (vlen (s - l' - 2) + vlen (l' - s')))) as [L|L].
    + exists 0%nat. cbn [firstn ack_tail_len length]. repeat split; lia.
    + destruct (IH (i + 1) (len + (vlen (s - l' - 2) + vlen (l' - s'))) s' L) as (j & E & Hj & Hb).
      exists (S j). cbn [firstn ack_tail_len length]. repeat split; lia.
Qed.

Lemma firstn_firstn_le {A} (j k : nat) (l : list A) : (j <= k)%nat -> firstn j (firstn k l) = firstn j l.
Proof. intros H. rewrite firstn_firstn. f_equal. lia. Qed.

(** Truncate keeps a non-empty prefix of at most 64 ranges whose encoding fits into maxSize,
    provided a frame with the first range alone fits (the documented precondition). *)
Theorem truncate_ack_fits ranges delay e0 e1 ce maxSize :
  wf_ranges ranges ->
  length_ack (firstn 1 ranges) delay e0 e1 ce <= maxSize ->
  let t := truncate_ack ranges delay e0 e1 ce maxSize in
  t <> [] /\ (exists rest, ranges = t ++ rest) /\ (length t <= 64)%nat /\ length_ack t delay e0 e1 ce <= maxSize.
Proof.
  intros Wr H1. unfold truncate_ack, num_encodable_ack_ranges.
  destruct ranges as [|[s0 l0] r]; [contradiction|].
  change (Z.to_nat W_MaxNumAckRanges) with 64%nat in *.
  change (firstn 64 ((s0, l0) :: r)) with ((s0, l0) :: firstn 63 r).
  change (firstn 1 ((s0, l0) :: r)) with [(s0, l0)] in H1.
  set (rs := firstn 63 r).
  assert (Hrs : (length rs <= 63)%nat) by (unfold rs; apply firstn_le_length).
  set (ecn := ack_has_ecn e0 e1 ce) in *.
  set (base := 1 + vlen l0 + vlen (encode_ack_delay delay) + 1 + vlen (l0 - s0) + (if ecn then vlen e0 + vlen e1 + vlen ce else 0)).
  assert (Hb1 : base <= maxSize).
  { unfold length_ack in H1. change (Z.to_nat W_MaxNumAckRanges) with 64%nat in H1.
    change (firstn 64 [(s0, l0)]) with [(s0, l0)] in H1. cbn [ack_tail_len] in H1.
    fold ecn in H1. unfold base. lia. }
  (* both paths keep 1 + j ranges with j <= length rs and base + tail(j) <= maxSize *)
  cbv zeta.
  match goal with |- context [firstn (Z.to_nat ?k) _] =>
    assert (exists j : nat, (j <= length rs)%nat /\ base + ack_tail_len s0 (firstn j rs) <= maxSize /\ k = 1 + Z.of_nat j)
      as (j & Hj & Hfit & Ek)
  end.
  { fold rs. fold ecn.
    match goal with |- context [if ?c <=? maxSize then _ else _] => destruct (Z.leb_spec c maxSize) as [F|F] end.
    - exists (length rs). rewrite firstn_all. split; [lia|]. split; [|unfold zlen; lia].
      pose proof (ack_tail_len_bound s0 rs). unfold base.
      pose proof (vlen_le8 l0). pose proof (vlen_le8 (encode_ack_delay delay)). pose proof (vlen_le8 (l0 - s0)).
      pose proof (vlen_le8 e0). pose proof (vlen_le8 e1). pose proof (vlen_le8 ce). destruct ecn; lia.
    - destruct (ack_fit_spec maxSize rs 1 base s0 Hb1) as (j & E & Hj & Hb). exists j. split; [exact Hj|]. split; [exact Hb | exact E]. }
  fold rs in Ek. fold ecn in Ek. rewrite Ek.
  replace (Z.to_nat (1 + Z.of_nat j)) with (S j) by lia.
  change (firstn (S j) ((s0, l0) :: r)) with ((s0, l0) :: firstn j r).
  assert (Ej : firstn j rs = firstn j r) by (unfold rs; apply firstn_firstn_le; lia).
  repeat split.
  - discriminate.
  - exists (skipn j r). rewrite <- app_comm_cons. f_equal. symmetry. apply firstn_skipn.
  - cbn [length]. pose proof (firstn_le_length j r). lia.
  - unfold length_ack. change (Z.to_nat W_MaxNumAckRanges) with 64%nat.
    change (firstn 64 ((s0, l0) :: firstn j r)) with ((s0, l0) :: firstn 63 (firstn j r)).
    rewrite (firstn_all2 (n := 63)) by (pose proof (firstn_le_length j r); lia). rewrite <- Ej. fold ecn. unfold base in Hfit. lia.
Qed.
