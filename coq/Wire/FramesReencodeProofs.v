(** Claim (c) of C08 on the model: whatever the frame parser accepts is a well-formed value, so
    it can be re-encoded, and the re-encoding parses back (parse -> append -> parse). *)
From Coq Require Import List ZArith Bool Lia.
From V Require Import Gen.Params Lib.Hex Wire.Varint Wire.VarintProofs Wire.FramesBase Wire.FramesBaseProofs
  Wire.FramesCtl Wire.FramesCtlProofs Wire.FramesStream Wire.FramesStreamProofs Wire.FramesAck Wire.FramesAckProofs
  Wire.Frames Wire.FramesProofs Wire.FramesConsumedProofs.
Import ListNotations.
Open Scope Z_scope.

Definition bytes (b : list Z) : Prop := Forall is_byte b.

Lemma bytes_suffix r b : suffix_of r b -> bytes b -> bytes r.
Proof. intros (p & ->) H. apply Forall_app in H. tauto. Qed.

Lemma bytes_firstn n b : bytes b -> bytes (firstn n b).
Proof.
  intros H. rewrite <- (firstn_skipn n b) in H. apply Forall_app in H. tauto.
Qed.

(** big-endian accumulation stays below (acc+1) * 256^len *)
Lemma unbe_bound l : forall acc, bytes l -> 0 <= acc -> 0 <= unbe l acc < (acc + 1) * 256 ^ (zlen l).
Proof.
  induction l as [|x l IH]; intros acc Hb Ha; cbn [unbe].
  - change (zlen (@nil Z)) with 0. lia.
  - inversion Hb as [|? ? Hx Hl]; subst. unfold is_byte in Hx.
    specialize (IH (acc * 256 + x) Hl ltac:(lia)).
    rewrite zlen_cons. rewrite Z.pow_add_r by (pose proof (zlen_nonneg l); lia).
    assert (0 < 256 ^ zlen l) by (apply Z.pow_pos_nonneg; [lia | apply zlen_nonneg]).
    nia.
Qed.

Lemma vparse_vwf b v n r : bytes b -> vparse b = inr (v, n, r) -> vwf v.
Proof.
  unfold vparse. destruct b as [|first rest]; [discriminate|]. intros Hb.
  inversion Hb as [|? ? Hf Hr]; subst. unfold is_byte in Hf.
  set (k := first / 64).
  set (m := if k =? 0 then 0%nat else if k =? 1 then 1%nat else if k =? 2 then 3%nat else 7%nat).
  destruct (Nat.ltb_spec (length rest) m) as [L|L]; [discriminate|].
  intros E. inversion E; subst v n r. clear E.
  assert (Hm : (m = 0 \/ m = 1 \/ m = 3 \/ m = 7)%nat) by (unfold m; destruct (k =? 0), (k =? 1), (k =? 2); auto).
  pose proof (unbe_bound (firstn m rest) (first mod 64) (bytes_firstn m rest Hr) ltac:(lia)) as B.
  assert (Hl : zlen (firstn m rest) = Z.of_nat m) by (unfold zlen; rewrite firstn_length; lia).
  rewrite Hl in B. unfold vwf, maxVarInt8.
  assert (first mod 64 + 1 <= 64) by lia.
  set (u := unbe (firstn m rest) (first mod 64)) in *. set (w := first mod 64) in *.
  destruct Hm as [-> | [-> | [-> | ->]]];
    match type of B with context [256 ^ ?e] => let v := eval vm_compute in (256 ^ e) in change (256 ^ e) with v in B end; lia.
Qed.

(** [bindv] on bytes: the value is a varint value *)
Lemma bindv_okb {A} b (k : Z -> list Z -> res A) x :
  bytes b -> bindv b k = Ok x -> exists v r, vwf v /\ suffix_of r b /\ bytes r /\ k v r = Ok x.
Proof.
  unfold bindv. intros Hb. destruct (vparse b) as [e|[[v n] r]] eqn:E; [discriminate|].
  intros H. destruct (vparse_suffix _ _ _ _ E) as (S & _).
  exists v, r. split; [eapply vparse_vwf; eassumption|]. split; [exact S|].
  split; [eapply bytes_suffix; eassumption | exact H].
Qed.

Lemma take_okb {A} n b (k : list Z -> list Z -> res A) x :
  bytes b -> 0 <= n -> take n b k = Ok x ->
  exists d r, zlen d = n /\ suffix_of r b /\ bytes r /\ k d r = Ok x.
Proof.
  unfold take. intros Hb Hn. destruct (Z.ltb_spec (zlen b) n) as [G|G]; [discriminate|]. intros H.
  exists (firstn (Z.to_nat n) b), (skipn (Z.to_nat n) b).
  repeat split; [apply zlen_firstn; lia | apply suffix_skipn | eapply bytes_suffix; [apply suffix_skipn | exact Hb] | exact H].
Qed.

Ltac invb :=
  repeat match goal with
         | H : bindv ?b _ = Ok _, Hb : bytes ?b |- _ =>
           let v := fresh "v" in let r := fresh "r" in let V := fresh "V" in let S := fresh "S" in let B := fresh "B" in
           apply (bindv_okb b _ _ Hb) in H; destruct H as (v & r & V & S & B & H); cbv beta in H
         | H : bindv_if ?c _ _ = Ok _ |- _ => destruct c eqn:?; cbn [bindv_if] in H
         | H : (if ?c then _ else _) = Ok _ |- _ => destruct c eqn:?; try discriminate
         | H : Ok _ = Ok _ |- _ => inversion H; subst; clear H
         | H : Err _ _ = Ok _ |- _ => discriminate
         end.

Lemma vwf0 : vwf 0.
Proof. unfold vwf, maxVarInt8. lia. Qed.

(** the loop of parseAckFrame only produces descending, disjoint, non-negative ranges *)
Lemma ack_loop_chain fuel : forall n s b rs r,
  bytes b -> ack_loop fuel n s b = Ok (rs, r) -> chain s rs /\ suffix_of r b.
Proof.
  induction fuel as [|fuel IH]; intros n s b rs r Hb H; cbn [ack_loop] in H.
  - destruct (n <=? 0); [inversion H; subst; split; [exact I | apply suffix_refl] | discriminate].
  - destruct (n <=? 0); [inversion H; subst; split; [exact I | apply suffix_refl]|].
    invb.
    destruct (ack_loop fuel _ _ _) as [[rs' b']|] eqn:E; [|discriminate].
    inversion H; subst. apply IH in E; [|assumption]. destruct E as (C & S').
    split.
    + cbn [chain]. unfold vwf in *.
      repeat match goal with H : (_ <? _) = false |- _ => apply Z.ltb_ge in H end.
      repeat split; try lia. exact C.
    + eapply suffix_trans; [exact S'|]. eapply suffix_trans; eassumption.
Qed.

Lemma ack_delay_ns_range d e : 0 <= ack_delay_ns d e <= maxInt64.
Proof.
  unfold ack_delay_ns. set (x := to_i64 (to_i64 (to_u64 (d * 2 ^ e)) * 1000)).
  assert (x <= maxInt64).
  { unfold x, to_i64 at 1. unfold two64, maxInt64.
    match goal with |- context [?a mod ?m] => pose proof (Z.mod_pos_bound a m ltac:(lia)) end.
    destruct (Z.leb_spec ((to_i64 (to_u64 (d * 2 ^ e)) * 1000) mod 18446744073709551616) 9223372036854775807); lia. }
  destruct (Z.ltb_spec x 0); unfold maxInt64 in *; lia.
Qed.

Lemma ackfreq_delay_ns_range m : 0 <= ackfreq_delay_ns m <= maxInt64.
Proof.
  unfold ackfreq_delay_ns. set (x := to_i64 (m * 1000)).
  assert (x <= maxInt64).
  { unfold x, to_i64. unfold two64, maxInt64.
    pose proof (Z.mod_pos_bound (m * 1000) 18446744073709551616 ltac:(lia)).
    destruct (Z.leb_spec ((m * 1000) mod 18446744073709551616) 9223372036854775807); lia. }
  destruct (Z.ltb_spec x 0); unfold maxInt64 in *; lia.
Qed.

Lemma encode_delay_small d : 0 <= d <= maxInt64 -> encode_ack_delay d <= maxVarInt8.
Proof.
  intros H. unfold encode_ack_delay. change (1000 * 2 ^ W_AckDelayExponent) with 8000.
  rewrite Z.quot_div_nonneg by lia. unfold maxInt64, maxVarInt8 in *.
  apply Z.div_le_upper_bound; lia.
Qed.

Ltac invt :=
  repeat match goal with
         | H : take ?n ?b _ = Ok _, Hb : bytes ?b |- _ =>
           let d := fresh "d" in let r := fresh "r" in let Zd := fresh "Zd" in let S := fresh "S" in let B := fresh "B" in
           apply (take_okb n b _ _ Hb ltac:(unfold vwf in *; lia)) in H; destruct H as (d & r & Zd & S & B & H); cbv beta in H
         end.

Ltac ltb2z :=
  repeat match goal with
         | H : (_ <? _) = false |- _ => apply Z.ltb_ge in H
         | H : (_ <? _) = true |- _ => apply Z.ltb_lt in H
         | H : (_ =? _) = false |- _ => apply Z.eqb_neq in H
         | H : (_ =? _) = true |- _ => apply Z.eqb_eq in H
         | H : (_ <=? _) = false |- _ => apply Z.leb_gt in H
         | H : (_ <=? _) = true |- _ => apply Z.leb_le in H
         end.

(** how the type Append writes relates to the type that was parsed *)
Definition type_rel (t : Z) (f : frame) : Prop :=
  frame_type f = t
  \/ (is_stream_type t = true /\ is_stream_type (frame_type f) = true)
  \/ (t = FT_AckECN /\ frame_type f = FT_Ack)
  \/ (t = FT_ResetStreamAt /\ frame_type f = FT_ResetStream).

Lemma stream_tail_inv sid off fin dlp dl b f r :
  0 <= dl <= zlen b -> stream_tail sid off fin dlp dl b = Ok (f, r) ->
  exists data, f = FStream sid off data fin dlp /\ zlen data = dl /\ dl <= W_MaxPacketBufferSize /\ off + dl <= W_MaxByteCount.
Proof.
  intros Hd. unfold stream_tail. intros H.
  destruct ((W_MinStreamFrameBufferSize <=? dl) && (W_MaxPacketBufferSize <? dl)) eqn:E1; [discriminate|].
  destruct (W_MaxByteCount <? off + dl) eqn:E2; [discriminate|]. inversion H; subst.
  eexists; split; [reflexivity|]. split; [apply zlen_firstn; lia|].
  apply andb_false_iff in E1. unfold W_MinStreamFrameBufferSize, W_MaxPacketBufferSize in *.
  ltb2z. destruct E1 as [E1|E1]; ltb2z; lia.
Qed.

Lemma parse_stream_wf t b f r :
  bytes b -> is_stream_type t = true -> parse_stream t b = Ok (f, r) ->
  (forall enc, append_frame f = Some enc -> wf_frame f) /\ type_rel t f.
Proof.
  intros Hb Ht H. unfold parse_stream in H.
  assert (Hst : forall sid off data fin dlp, type_rel t (FStream sid off data fin dlp)).
  { intros. right. left. split; [exact Ht|]. cbn [frame_type]. unfold is_stream_type.
    pose proof (stream_type_range off fin dlp). destruct (Z.leb_spec 8 (stream_type off fin dlp)); [|lia].
    destruct (Z.leb_spec (stream_type off fin dlp) 15); [reflexivity | lia]. }
  assert (Hap : forall sid off data fin dlp enc, append_frame (FStream sid off data fin dlp) = Some enc -> 0 < zlen data \/ fin = true).
  { intros sid off data fin dlp enc. cbn [append_frame]. unfold append_stream.
    destruct (Z.eqb_spec (zlen data) 0) as [E|E]; [|pose proof (zlen_nonneg data); intros; lia].
    destruct fin; [auto | discriminate]. }
  apply (bindv_okb b _ _ Hb) in H. destruct H as (sid & r1 & Vs & S1 & B1 & H). cbv beta in H.
  assert (exists off r2, vwf off /\ bytes r2 /\
            (if Z.testbit t 1 then bindv r2 (fun dl b => if zlen b <? dl then Err E_EOF 0 else stream_tail sid off (Z.testbit t 0) true dl b)
             else stream_tail sid off (Z.testbit t 0) false (zlen r2) r2) = Ok (f, r)) as (off & r2 & Vo & B2 & H2).
  { destruct (Z.testbit t 2); cbn [bindv_if] in H.
    - apply (bindv_okb r1 _ _ B1) in H. destruct H as (off & r2 & Vo & S2 & B2 & H). eauto.
    - exists 0, r1. split; [apply vwf0 | auto]. }
  clear H. destruct (Z.testbit t 1).
  - apply (bindv_okb r2 _ _ B2) in H2. destruct H2 as (dl & r3 & Vd & S3 & B3 & H). cbv beta in H.
    destruct (Z.ltb_spec (zlen r3) dl); [discriminate|].
    apply stream_tail_inv in H; [|unfold vwf in Vd; lia]. destruct H as (data & -> & Zd & L1 & L2).
    split; [|apply Hst]. intros enc E. cbn [wf_frame]. unfold wf_stream.
    split; [exact Vs|]. split; [exact Vo|]. split; [lia|]. split; [lia|]. eapply Hap; exact E.
  - apply stream_tail_inv in H2; [|pose proof (zlen_nonneg r2); lia]. destruct H2 as (data & -> & Zd & L1 & L2).
    split; [|apply Hst]. intros enc E. cbn [wf_frame]. unfold wf_stream.
    split; [exact Vs|]. split; [exact Vo|]. split; [lia|]. split; [lia|]. eapply Hap; exact E.
Qed.

Lemma parse_ack_wf ecn exp b f r :
  bytes b -> parse_ack ecn exp b = Ok (f, r) ->
  wf_frame f /\ (frame_type f = (if ecn then FT_AckECN else FT_Ack) \/ (ecn = true /\ frame_type f = FT_Ack)).
Proof.
  intros Hb H. unfold parse_ack in H. invb.
  destruct (ack_loop _ _ _ _) as [[rs b']|] eqn:E; [|discriminate].
  apply ack_loop_chain in E; [|assumption]. destruct E as (C & S').
  assert (Bb' : bytes b') by (eapply bytes_suffix; eassumption).
  destruct (negb (validate_ack_ranges _)); [discriminate|].
  assert (Wr : wf_ranges ((v - v2, v) :: rs)).
  { cbn [wf_ranges]. unfold vwf in *. ltb2z. repeat split; try lia. exact C. }
  pose proof (ack_delay_ns_range v0 exp) as Hd.
  assert (Wd : 0 <= ack_delay_ns v0 exp /\ encode_ack_delay (ack_delay_ns v0 exp) <= maxVarInt8)
    by (split; [lia | apply encode_delay_small; exact Hd]).
  destruct ecn.
  - invb. split.
    + cbn [wf_frame]. unfold wf_ack. tauto.
    + cbn [frame_type]. destruct (ack_has_ecn v3 v4 v5); auto.
  - inversion H; subst. split.
    + cbn [wf_frame]. unfold wf_ack. destruct Wd as (Wd1 & Wd2).
      split; [exact Wr|]. split; [exact Wd1|]. split; [exact Wd2|]. split; [apply vwf0|]. split; apply vwf0.
    + left. reflexivity.
Qed.

Lemma parse_datagram_wf t b f r :
  bytes b -> zlen b <= maxVarInt8 -> is_datagram_type t = true -> parse_datagram t b = Ok (f, r) ->
  wf_frame f /\ frame_type f = t.
Proof.
  intros Hb Hl Ht H. unfold is_datagram_type in Ht. apply orb_true_iff in Ht.
  destruct Ht as [Ht|Ht]; apply Z.eqb_eq in Ht; subst t; unfold parse_datagram in H.
  - change (Z.testbit FT_DatagramNoLength 0) with false in H. cbv iota in H. inversion H; subst.
    split; [|reflexivity]. cbn [wf_frame]. unfold vwf. pose proof (zlen_nonneg b). lia.
  - change (Z.testbit FT_DatagramWithLength 0) with true in H. cbv iota in H. invb. invt. invb.
    split; [|reflexivity]. cbn [wf_frame]. assumption.
Qed.

Local Ltac fin_wf :=
  cbn [wf_frame wf_ctl frame_type]; unfold vwf, W_MaxStreamCount, W_MaxConnIDLen, maxVarInt8, maxInt64 in *; ltb2z;
  split; [repeat split; try lia; try assumption | try (left; reflexivity)].

Lemma parse_less_common_wf t b f r :
  bytes b -> parse_less_common t b = Ok (f, r) ->
  wf_frame f /\ (frame_type f = t \/ (t = FT_ResetStreamAt /\ frame_type f = FT_ResetStream)).
Proof.
  intros Hb H. unfold parse_less_common in H.
  repeat match type of H with
         | (if ?t =? ?c then _ else _) = _ => destruct (Z.eqb_spec t c); [subst t|]
         end; try discriminate.
  - inversion H; subst. fin_wf.
  - unfold parse_reset_stream in H. invb. fin_wf.
  - unfold parse_stop_sending in H. invb. fin_wf.
  - unfold parse_crypto in H. invb. invt. invb. cbn [wf_frame frame_type]. unfold wf_crypto. auto.
  - unfold parse_new_token in H. invb. invt. invb. fin_wf.
  - unfold parse_max_data in H. invb. fin_wf.
  - unfold parse_max_stream_data in H. invb. fin_wf.
  - unfold parse_max_streams in H. invb. fin_wf.
  - unfold parse_max_streams in H. invb. fin_wf.
  - unfold parse_data_blocked in H. invb. fin_wf.
  - unfold parse_stream_data_blocked in H. invb. fin_wf.
  - unfold parse_streams_blocked in H. invb. fin_wf.
  - unfold parse_streams_blocked in H. invb. fin_wf.
  - unfold parse_new_cid in H. invb. destruct r1 as [|l r1]; [discriminate|].
    inversion B0 as [|? ? Hl Br1]; subst. unfold is_byte in Hl. invb.
    apply (take_okb l r1 _ _ Br1 ltac:(lia)) in H. destruct H as (cid & r2 & Zc & S2 & B2 & H). cbv beta in H.
    apply (take_okb 16 r2 _ _ B2 ltac:(lia)) in H. destruct H as (tok & r3 & Zt & S3 & B3 & H). cbv beta in H.
    inversion H; subst. fin_wf.
  - unfold parse_retire_cid in H. invb. fin_wf.
  - unfold parse_path_challenge in H. apply (take_okb 8 b _ _ Hb ltac:(lia)) in H. destruct H as (d & r2 & Zd & S2 & B2 & H).
    inversion H; subst. fin_wf.
  - unfold parse_path_response in H. apply (take_okb 8 b _ _ Hb ltac:(lia)) in H. destruct H as (d & r2 & Zd & S2 & B2 & H).
    inversion H; subst. fin_wf.
  - unfold parse_conn_close in H. cbn [negb] in H. invb. invt. invb. fin_wf. discriminate.
  - unfold parse_conn_close in H. cbn [negb bindv_if] in H. invb. invt. invb. fin_wf.
  - inversion H; subst. fin_wf.
  - unfold parse_reset_stream in H. invb.
    cbn [wf_frame wf_ctl frame_type]. unfold vwf in *. ltb2z.
    split; [repeat split; try lia|]. destruct (Z.ltb_spec 0 v2); [left; reflexivity | right; split; reflexivity].
  - unfold parse_ack_frequency in H. invb. cbn [wf_frame frame_type].
    pose proof (ackfreq_delay_ns_range v1). split; [tauto | left; reflexivity].
  - inversion H; subst. cbn [wf_frame frame_type]. auto.
Qed.

Lemma parse_type_ok fuel : forall c lvl b p t n r,
  parse_type fuel c lvl b p = Ok (t, n, r) ->
  type_valid c t = true /\ type_allowed lvl t = true /\ suffix_of r b.
Proof.
  induction fuel as [|fuel IH]; intros c lvl b p t n r H.
  - destruct b; discriminate.
  - destruct b as [|x b]; [discriminate|]. cbn [parse_type] in H.
    destruct (vparse (x :: b)) as [e|[[v l] r']] eqn:E; [discriminate|].
    destruct (vparse_suffix _ _ _ _ E) as (S & L).
    destruct (v =? 0).
    + apply IH in H. destruct H as (A & B & S'). repeat split; try assumption. eapply suffix_trans; eassumption.
    + destruct (type_valid c v) eqn:Ev; [|discriminate]. destruct (type_allowed lvl v) eqn:Ea; [|discriminate].
      cbn [negb] in H. inversion H; subst. auto.
Qed.

Lemma valid_small c t : t <= 30 -> type_valid c t = true.
Proof. intros H. unfold type_valid. destruct (Z.leb_spec t 30); [reflexivity | lia]. Qed.

Lemma stream_allowed lvl t : 1 <= lvl <= 4 -> 8 <= t <= 15 -> type_allowed lvl t = (3 <=? lvl).
Proof.
  intros Hl Ht.
  assert (lvl = 1 \/ lvl = 2 \/ lvl = 3 \/ lvl = 4) as [-> | [-> | [-> | ->]]] by lia;
  assert (t = 8 \/ t = 9 \/ t = 10 \/ t = 11 \/ t = 12 \/ t = 13 \/ t = 14 \/ t = 15)
    as [-> | [-> | [-> | [-> | [-> | [-> | [-> | ->]]]]]]] by lia; reflexivity.
Qed.

Lemma stream_type_iff t : is_stream_type t = true -> 8 <= t <= 15.
Proof. unfold is_stream_type. intros H. apply andb_true_iff in H. destruct H. ltb2z. lia. Qed.

Lemma type_rel_valid c t f : type_rel t f -> type_valid c t = true -> type_valid c (frame_type f) = true.
Proof.
  intros [E | [(A & B) | [(A & B) | (A & B)]]] H.
  - rewrite E. exact H.
  - apply valid_small. apply stream_type_iff in B. lia.
  - rewrite B. reflexivity.
  - rewrite B. reflexivity.
Qed.

Lemma type_rel_allowed lvl t f : 1 <= lvl <= 4 -> type_rel t f -> type_allowed lvl t = true -> type_allowed lvl (frame_type f) = true.
Proof.
  intros Hl [E | [(A & B) | [(A & B) | (A & B)]]] H.
  - rewrite E. exact H.
  - apply stream_type_iff in A. apply stream_type_iff in B.
    rewrite stream_allowed in * by assumption. exact H.
  - subst t. rewrite B.
    assert (lvl = 1 \/ lvl = 2 \/ lvl = 3 \/ lvl = 4) as [-> | [-> | [-> | ->]]] by lia; first [reflexivity | exact H].
  - subst t. rewrite B.
    assert (lvl = 1 \/ lvl = 2 \/ lvl = 3 \/ lvl = 4) as [-> | [-> | [-> | ->]]] by lia; first [reflexivity | exact H].
Qed.

(** Whatever the parser accepts (at an existing level, from a byte string) is well-formed, and
    the type Append will write for it is valid and allowed wherever the parsed type was. *)
Theorem parse_next_wf c lvl b f n rest :
  bytes b -> zlen b <= maxVarInt8 -> 1 <= lvl <= 4 ->
  parse_next c lvl b = Ok (f, n, rest) ->
  (forall enc, append_frame f = Some enc -> wf_frame f) /\
  type_valid c (frame_type f) = true /\ type_allowed lvl (frame_type f) = true.
Proof.
  intros Hb Hl Hlvl H. unfold parse_next in H.
  destruct (parse_type (length b) c lvl b 0) as [[[t m] r]|] eqn:Et; [|discriminate].
  destruct (parse_body c lvl t r) as [[f' rest']|] eqn:Eb; [|discriminate].
  inversion H; subst f' rest' n. clear H.
  apply parse_type_ok in Et. destruct Et as (Tv & Ta & S).
  assert (Br : bytes r) by (eapply bytes_suffix; eassumption).
  assert (Lr : zlen r <= maxVarInt8) by (pose proof (suffix_len _ _ S); lia).
  assert (W : (forall enc, append_frame f = Some enc -> wf_frame f) /\ type_rel t f).
  { unfold parse_body in Eb.
    destruct (is_stream_type t) eqn:Es; [apply parse_stream_wf in Eb; assumption|].
    destruct (is_ack_type t) eqn:Ea.
    { apply parse_ack_wf in Eb; [|assumption]. destruct Eb as (W & Ty). split; [intros; exact W|].
      unfold is_ack_type in Ea. apply orb_true_iff in Ea. unfold type_rel.
      destruct Ea as [Ea|Ea]; apply Z.eqb_eq in Ea; subst t.
      - change (FT_Ack =? FT_AckECN) with false in Ty. destruct Ty as [Ty|(Ty & _)]; [left; exact Ty | discriminate].
      - change (FT_AckECN =? FT_AckECN) with true in Ty. destruct Ty as [Ty|(_ & Ty)]; [left; exact Ty | right; right; left; auto]. }
    destruct (is_datagram_type t) eqn:Ed.
    { apply parse_datagram_wf in Eb; try assumption. destruct Eb as (W & Ty). split; [intros; exact W | left; exact Ty]. }
    apply parse_less_common_wf in Eb; [|assumption]. destruct Eb as (W & Ty). split; [intros; exact W|].
    unfold type_rel. destruct Ty as [Ty|Ty]; [left; exact Ty | right; right; right; exact Ty]. }
  destruct W as (W & Ty). split; [exact W|].
  split; [eapply type_rel_valid; eassumption | eapply type_rel_allowed; eassumption].
Qed.

(** parse -> append -> parse: the re-encoding of an accepted frame is accepted again and yields
    the normalised value; it is consumed completely. *)
Theorem parse_reencode c lvl b f n rest enc :
  bytes b -> zlen b <= maxVarInt8 -> 1 <= lvl <= 4 ->
  parse_next c lvl b = Ok (f, n, rest) -> append_frame f = Some enc ->
  parse_next c lvl enc = Ok (norm c lvl f, zlen enc, []).
Proof.
  intros Hb Hl Hlvl H E.
  destruct (parse_next_wf c lvl b f n rest Hb Hl Hlvl H) as (W & Tv & Ta).
  rewrite <- (app_nil_r enc) at 1. apply frame_roundtrip; try assumption; [eapply W; exact E | reflexivity].
Qed.

(** for every frame kind but ACK and ACK_FREQUENCY the normalisation is the identity, so the value is a fixpoint *)
Corollary parse_reencode_fixpoint c lvl b f n rest enc :
  bytes b -> zlen b <= maxVarInt8 -> 1 <= lvl <= 4 ->
  parse_next c lvl b = Ok (f, n, rest) -> append_frame f = Some enc ->
  (match f with FAck _ _ _ _ _ | FAckFrequency _ _ _ _ => False | _ => True end) ->
  parse_next c lvl enc = Ok (f, zlen enc, []).
Proof.
  intros Hb Hl Hlvl H E Hk. rewrite (parse_reencode c lvl b f n rest enc Hb Hl Hlvl H E).
  destruct f; try contradiction; reflexivity.
Qed.
