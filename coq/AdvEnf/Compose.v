(** C12 x C04: a window update computed by the flow controllers (FlowCtl model, C04) is an
    instance of the game's [EvGrant]: it is strictly above the window enforced so far, and
    afterwards the flow controller enforces exactly the value sent. Together with
    [AdvEnf.Proofs.grants_sync] this discharges, for the two flow-control kinds, the former
    assumption "a window update carries exactly the window the client then enforces".
    Pure proof-level composition of already-tied pieces (C04's correspondence and C12's). *)
From Coq Require Import List ZArith Bool Lia.
From V Require Import Gen.Params.
From V Require FlowCtl.Model FlowCtl.ProofsBase FlowCtl.ProofsInv FlowCtl.Proofs.
From V Require Import AdvEnf.Model AdvEnf.Proofs.
Import ListNotations.
Open Scope Z_scope.

Module F := V.FlowCtl.Model.
Module FI := V.FlowCtl.ProofsInv.
Module FP := V.FlowCtl.Proofs.

(* the game's grant on one counter *)
Definition grant_ctr (c : ctr) (w : Z) : ctr := mkCtr (used c) (Z.max (rw c) w) (Z.max (cr c) w).

(** stream level: GetWindowUpdate of stream [i] returned [v <> 0] *)
Theorem stream_update_is_grant cw cmax s g i x st now rtt fast al c :
  0 < cw -> FI.reach cw cmax s g -> FI.valid_index s i ->
  nth_error (FI.gs g) (Z.to_nat i) = Some x -> nth_error (F.streams s) (Z.to_nat i) = Some st ->
  rw c = F.receiveWindow (F.sb st) -> cr c <= rw c ->
  let v := fst (snd (F.step s (F.SWinUpd i now rtt fast al))) in
  v <> 0 ->
  exists st', nth_error (F.streams (fst (F.step s (F.SWinUpd i now rtt fast al)))) (Z.to_nat i) = Some st' /\
    rw c < v /\                                        (* the grant is increasing *)
    rw (grant_ctr c v) = F.receiveWindow (F.sb st') /\  (* the game's enforced window is the flow controller's *)
    rw (grant_ctr c v) = v /\ cr (grant_ctr c v) = v.   (* and equals the value sent, which is the peer's new credit *)
Proof.
  intros Hcw Hr Hi Hx Hst Hrw Hcr v Hv.
  destruct (FP.window_update_stream cw cmax s g i x now rtt fast al Hcw Hr Hi Hx Hv) as (st' & Hst' & Hlt & _ & _ & Hw).
  pose proof (FI.reach_Inv cw cmax s g Hcw Hr) as HI.
  destruct (FI.lookup s g HI i Hi) as (_ & st0 & x0 & H1 & H2 & HR).
  rewrite Hst in H1. inversion H1; subst st0. rewrite Hx in H2. inversion H2; subst x0.
  pose proof (FI.r_adv _ _ HR) as Hadv.
  exists st'. split; [exact Hst'|]. unfold grant_ctr. simpl. fold v in Hlt, Hw. lia.
Qed.

(** connection level *)
Theorem conn_update_is_grant cw cmax s g now rtt fast al c :
  0 < cw -> FI.reach cw cmax s g ->
  rw c = F.receiveWindow (F.conn s) -> cr c <= rw c ->
  let v := fst (snd (F.step s (F.CWinUpd now rtt fast al))) in
  v <> 0 ->
  rw c < v /\
  rw (grant_ctr c v) = F.receiveWindow (F.conn (fst (F.step s (F.CWinUpd now rtt fast al)))) /\
  rw (grant_ctr c v) = v /\ cr (grant_ctr c v) = v.
Proof.
  intros Hcw Hr Hrw Hcr v Hv.
  destruct (FP.window_update_conn cw cmax s g now rtt fast al Hcw Hr Hv) as (Hlt & _ & _ & Hw).
  pose proof (FI.reach_Inv cw cmax s g Hcw Hr) as [_ HC].
  pose proof (FI.c_adv _ _ _ HC) as Hadv.
  unfold grant_ctr. cbn [rw cr]. cbv zeta in Hlt, Hw. subst v. cbv zeta. lia.
Qed.

(* [grant_ctr] is what [client_step] does for [EvGrant] *)
Lemma client_step_grant e s k w :
  client_step e s (EvGrant k w) = (upd s k (grant_ctr (s k) w), None).
Proof. reflexivity. Qed.

(** C12 x C15: a MAX_STREAMS frame queued by an incoming streams map (StreamsMap model) is an
    instance of [EvGrant] on the stream-count counter: strictly above the limit enforced so far
    ([STREAM_LIMIT_ERROR] exactly above [in_adv]), and the new enforced limit is the value sent. *)
From V Require StreamsMap.Model StreamsMap.ProofsIn.
Module SM := V.StreamsMap.Model.
Module SI := V.StreamsMap.ProofsIn.

Theorem max_streams_is_grant uni client N m op m' r fr c :
  0 <= N -> SI.ireach uni client N m ->
  SI.iop_ok (SM.first_incoming uni client) op -> SM.istep m op = (m', r, fr) -> fr <> [] ->
  rw c = SI.in_adv m -> cr c <= rw c ->
  exists n, fr = [SM.FMax (SM.i_uni m) n] /\
    rw c < n /\ rw (grant_ctr c n) = SI.in_adv m' /\ rw (grant_ctr c n) = n /\ cr (grant_ctr c n) = n /\
    (* and the limit so advertised is what the map enforces: the error exactly above it *)
    (forall id, SI.on_lattice (SM.first_incoming uni client) id ->
       (snd (SM.in_get_or_open m id) = SM.RErr SM.ErrLimit <-> rw c < SM.id_stream_num id)).
Proof.
  intros HN Hr Hop Hs Hfr Hrw Hcr.
  destruct (SI.in_reach_facts uni client N m HN Hr) as [(Herr & _ & Hmax & _) _].
  destruct (Hmax op m' r fr Hop Hs Hfr) as (_ & _ & n & Hf & Hlt & Hn & _).
  exists n. split; [exact Hf|]. unfold grant_ctr. simpl.
  repeat split; try lia.
  - intros E. apply Herr in E; [lia | assumption].
  - intros E. apply Herr; [assumption | lia].
Qed.
