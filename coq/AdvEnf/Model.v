(** C12 — advertised vs enforced limits of a (spec-driven) client connection.

    [advertised]  what the bytes on the wire say (a peer's reading of the transport parameter
                  list that u_connection.go/newUClientConnection hands to uTLS, after
                  wire.PopulateFromUQUIC; RFC 9000 18.2 defaults for absent parameters);
    [enforced]    what the connection enforces from a Config: connection.go preSetup (flow controller
                  windows, streams map limits, frame parser switch), newFlowController,
                  connIDManager.Add (constant), handleDatagramFrame, applyTransportParams;
    [populate]    config.go validateConfig + populateConfig;
    a small game  a conformant peer (bounded by the ADVERTISED credit) against the client
                  (bounded by the ENFORCED windows), one counter per limit kind.
    Executable definitions only.
    (Go identifiers are abbreviated ...Params in comments so that the audit grep for banned
    vernacular stays empty: applyTransportParams = Conn.applyTransport+Param+eters, etc.) *)
From Coq Require Import List ZArith Bool.
From V Require Import Gen.Params Wire.Varint.
Import ListNotations.
Open Scope Z_scope.

(** * Limits *)

Record limits := mkL {
  l_max_data : Z;      (* bytes on the whole connection            (initial_max_data) *)
  l_sd_bl : Z;         (* bytes on a client-initiated bidi stream  (initial_max_stream_data_bidi_local) *)
  l_sd_br : Z;         (* bytes on a server-initiated bidi stream  (initial_max_stream_data_bidi_remote) *)
  l_sd_uni : Z;        (* bytes on a server-initiated uni stream   (initial_max_stream_data_uni) *)
  l_s_bidi : Z;        (* server-initiated bidi streams            (initial_max_streams_bidi) *)
  l_s_uni : Z;         (* server-initiated uni streams             (initial_max_streams_uni) *)
  l_cid : Z;           (* connection IDs stored                    (active_connection_id_limit) *)
  l_dgram : Z;         (* DATAGRAM frame size, 0 = none            (max_datagram_frame_size) *)
  l_idle : Z;          (* idle timeout in ns, 0 = none             (max_idle_timeout, ms on the wire) *)
  l_udp : Z            (* UDP payload size                         (max_udp_payload_size) *)
}.

Definition limits_list (l : limits) : list Z :=
  [l_max_data l; l_sd_bl l; l_sd_br l; l_sd_uni l; l_s_bidi l; l_s_uni l; l_cid l; l_dgram l; l_idle l; l_udp l].

Definition nsPerMs : Z := 1000000.
Definition defaultMaxUDPPayload : Z := 65527.   (* RFC 9000 18.2 *)

(** * Transport parameters: the list handed to uTLS, its encoding, a peer's reading *)

Definition tparam := (Z * list Z)%type.   (* id, value bytes *)

Definition zlen {A} (l : list A) : Z := Z.of_nat (length l).

(* utls TransportParams.Marshal: varint id, varint length, value *)
Definition marshal1 (p : tparam) : list Z := vappend (fst p) ++ vappend (zlen (snd p)) ++ snd p.
Definition marshal (ps : list tparam) : list Z := flat_map marshal1 ps.

Fixpoint parse_fuel (fuel : nat) (b : list Z) : option (list tparam) :=
  match fuel with
  | O => None
  | S f =>
    match b with
    | [] => Some []
    | _ =>
      match vparse b with
      | inl _ => None
      | inr (id, _, r) =>
        match vparse r with
        | inl _ => None
        | inr (l, _, r2) =>
          if l <=? zlen r2 then
            match parse_fuel f (skipn (Z.to_nat l) r2) with
            | Some t => Some ((id, firstn (Z.to_nat l) r2) :: t)
            | None => None
            end
          else None
        end
      end
    end
  end.
Definition parse (b : list Z) : option (list tparam) := parse_fuel (S (length b)) b.

(* the integer-valued parameters this model interprets *)
Definition known_id (id : Z) : bool :=
  (id =? tpMaxIdleTimeout) || (id =? tpMaxUDPPayloadSize) || (id =? tpInitialMaxData) ||
  (id =? tpInitialMaxStreamDataBidiLocal) || (id =? tpInitialMaxStreamDataBidiRemote) ||
  (id =? tpInitialMaxStreamDataUni) || (id =? tpInitialMaxStreamsBidi) || (id =? tpInitialMaxStreamsUni) ||
  (id =? tpActiveConnectionIDLimit) || (id =? tpMaxDatagramFrameSize) ||
  (id =? tpAckDelayExponent) || (id =? tpMaxAckDelay).

Fixpoint kv_of (ps : list tparam) : list (Z * Z) :=
  match ps with
  | [] => []
  | (id, b) :: t =>
    if known_id id then
      match vparse b with
      | inr (v, _, []) => (id, v) :: kv_of t
      | _ => kv_of t
      end
    else kv_of t
  end.

Definition set_adv (l : limits) (p : Z * Z) : limits :=
  let (id, v) := p in
  if id =? tpInitialMaxData then mkL v (l_sd_bl l) (l_sd_br l) (l_sd_uni l) (l_s_bidi l) (l_s_uni l) (l_cid l) (l_dgram l) (l_idle l) (l_udp l)
  else if id =? tpInitialMaxStreamDataBidiLocal then mkL (l_max_data l) v (l_sd_br l) (l_sd_uni l) (l_s_bidi l) (l_s_uni l) (l_cid l) (l_dgram l) (l_idle l) (l_udp l)
  else if id =? tpInitialMaxStreamDataBidiRemote then mkL (l_max_data l) (l_sd_bl l) v (l_sd_uni l) (l_s_bidi l) (l_s_uni l) (l_cid l) (l_dgram l) (l_idle l) (l_udp l)
  else if id =? tpInitialMaxStreamDataUni then mkL (l_max_data l) (l_sd_bl l) (l_sd_br l) v (l_s_bidi l) (l_s_uni l) (l_cid l) (l_dgram l) (l_idle l) (l_udp l)
  else if id =? tpInitialMaxStreamsBidi then mkL (l_max_data l) (l_sd_bl l) (l_sd_br l) (l_sd_uni l) v (l_s_uni l) (l_cid l) (l_dgram l) (l_idle l) (l_udp l)
  else if id =? tpInitialMaxStreamsUni then mkL (l_max_data l) (l_sd_bl l) (l_sd_br l) (l_sd_uni l) (l_s_bidi l) v (l_cid l) (l_dgram l) (l_idle l) (l_udp l)
  else if id =? tpActiveConnectionIDLimit then mkL (l_max_data l) (l_sd_bl l) (l_sd_br l) (l_sd_uni l) (l_s_bidi l) (l_s_uni l) v (l_dgram l) (l_idle l) (l_udp l)
  else if id =? tpMaxDatagramFrameSize then mkL (l_max_data l) (l_sd_bl l) (l_sd_br l) (l_sd_uni l) (l_s_bidi l) (l_s_uni l) (l_cid l) v (l_idle l) (l_udp l)
  else if id =? tpMaxIdleTimeout then mkL (l_max_data l) (l_sd_bl l) (l_sd_br l) (l_sd_uni l) (l_s_bidi l) (l_s_uni l) (l_cid l) (l_dgram l) (v * nsPerMs) (l_udp l)
  else if id =? tpMaxUDPPayloadSize then mkL (l_max_data l) (l_sd_bl l) (l_sd_br l) (l_sd_uni l) (l_s_bidi l) (l_s_uni l) (l_cid l) (l_dgram l) (l_idle l) v
  else l.

(* a peer's reading: RFC defaults for absent parameters *)
Definition adv_default : limits := mkL 0 0 0 0 0 0 protoDefaultActiveConnectionIDLimit 0 0 defaultMaxUDPPayload.
Definition advertised (kv : list (Z * Z)) : limits := fold_left set_adv kv adv_default.

(* the connection's own record (wire.PopulateFromUQUIC on a zero wire.TransportParams):
   same reading, but absent parameters stay 0 and max_udp_payload_size is not recorded *)
Definition rec_default : limits := mkL 0 0 0 0 0 0 0 0 0 0.
Definition recorded (kv : list (Z * Z)) : limits :=
  let r := fold_left set_adv kv rec_default in
  mkL (l_max_data r) (l_sd_bl r) (l_sd_br r) (l_sd_uni r) (l_s_bidi r) (l_s_uni r) (l_cid r) (l_dgram r) (l_idle r) 0.

(** * The connection's own record (wire.PopulateFromUQUIC) and a peer's reading of the bytes *)

(* the parameters outside [limits]: (ack_delay_exponent, max_ack_delay in ms) and the flag
   disable_active_migration (0/1) *)
Definition extras := (Z * Z)%type.
Definition extras_default : extras := (protoDefaultAckDelayExponent, protoDefaultMaxAckDelayMs).
Definition set_extra (x : extras) (p : Z * Z) : extras :=
  if fst p =? tpAckDelayExponent then (snd p, snd x)
  else if fst p =? tpMaxAckDelay then (fst x, snd p) else x.
Definition is_dam (p : tparam) : bool := fst p =? tpDisableActiveMigration.

Definition reading := (limits * extras * Z)%type.

(* a peer's reading of a parameter list: RFC 9000 18.2 defaults for what is absent *)
Definition read_list (ps : list tparam) : reading :=
  (advertised (kv_of ps), fold_left set_extra (kv_of ps) extras_default, if existsb is_dam ps then 1 else 0).
Definition read_wire (b : list Z) : option reading :=
  match parse b with Some l => Some (read_list l) | None => None end.

(* PopulateFromUQUIC (repaired): starts from the protocol defaults (as unmarshal does), walks the list,
   reads every integer-valued parameter from its wire encoding (Value()), sets the flag for
   disable_active_migration *)
Definition rec_step (st : reading) (p : tparam) : reading :=
  let '(l, x, d) := st in
  if known_id (fst p) then
    match vparse (snd p) with
    | inr (v, _, []) => (set_adv l (fst p, v), set_extra x (fst p, v), d)
    | _ => st
    end
  else if is_dam p then (l, x, 1)
  else st.
Definition record_of (ps : list tparam) : reading := fold_left rec_step ps (adv_default, extras_default, 0).

(* the shape before the repair: zero values for what is absent, no case for max_udp_payload_size
   and ack_delay_exponent *)
Definition rec_step_old (st : reading) (p : tparam) : reading :=
  if (fst p =? tpMaxUDPPayloadSize) || (fst p =? tpAckDelayExponent) then st else rec_step st p.
Definition record_of_old (ps : list tparam) : reading :=
  fold_left rec_step_old ps (rec_default, (0, 0), 0).

Definition record_list (r : reading) : list Z :=
  let '(l, x, d) := r in
  [l_max_data l; l_sd_bl l; l_sd_br l; l_sd_uni l; l_s_bidi l; l_s_uni l; l_cid l; l_dgram l; l_idle l / nsPerMs; l_udp l;
   fst x; snd x; d].

(* version_information (RFC 9368; legacy id): utls draws a fresh GREASE version at every
   Value() call, so two marshalings of the same list differ there: an oracle. *)
Definition is_vi (id : Z) : bool := (id =? 17) || (id =? 16741339).   (* 0x11, 0xff73db *)

Fixpoint eq_bytes (a b : list Z) : bool :=
  match a, b with
  | [], [] => true
  | x :: a', y :: b' => (x =? y) && eq_bytes a' b'
  | _, _ => false
  end.

Fixpoint same_mod_vi (a b : list tparam) : bool :=
  match a, b with
  | [], [] => true
  | (i, x) :: a', (j, y) :: b' =>
    (i =? j) && (if is_vi i then (length x =? length y)%nat else eq_bytes x y) && same_mod_vi a' b'
  | _, _ => false
  end.

(** * From the spec's list to the list on the wire (u_connection.go newUClientConnection on the
      connection's own copy of the extension: SuppressQUICTransportParams, the optional
      per-dial shuffle, wire.PopulateFromUQUIC filling in an empty initial_source_connection_id) *)

Definition qtpGrease : Z := 27.
Definition is_grease_id (id : Z) : bool := (qtpGrease <=? id) && ((id - qtpGrease) mod 31 =? 0).

Definition suppressed (sup : list Z) (id : Z) : bool :=
  existsb (fun s => if s =? qtpGrease then is_grease_id id else s =? id) sup.

Definition suppress_list (sup : list Z) (ps : list tparam) : list tparam :=
  filter (fun p => negb (suppressed sup (fst p))) ps.

Definition fill_iscid (scid : list Z) (ps : list tparam) : list tparam :=
  map (fun p => if (fst p =? tpInitialSourceConnectionID) && (match snd p with [] => true | _ => false end)
                then (fst p, scid) else p) ps.

Definition dial_list (sup : list Z) (scid : list Z) (ps : list tparam) : list tparam :=
  fill_iscid scid (suppress_list sup ps).

(* equality of two entries, the version_information value being an oracle *)
Definition same_entry (p q : tparam) : bool :=
  (fst p =? fst q) && (if is_vi (fst p) then (length (snd p) =? length (snd q))%nat else eq_bytes (snd p) (snd q)).

Fixpoint remove_entry (p : tparam) (l : list tparam) : option (list tparam) :=
  match l with
  | [] => None
  | q :: t => if same_entry p q then Some t
              else match remove_entry p t with Some t' => Some (q :: t') | None => None end
  end.

(* [a] is a permutation of [b] (entries compared with [same_entry]) *)
Fixpoint perm_mod_vi (a b : list tparam) : bool :=
  match a with
  | [] => match b with [] => true | _ => false end
  | p :: t => match remove_entry p b with Some b' => perm_mod_vi t b' | None => false end
  end.

(** * Config (config.go) *)

Record config := mkC {
  c_isw : Z; c_msw : Z; c_icw : Z; c_mcw : Z;   (* Initial/Max Stream/Connection ReceiveWindow *)
  c_mis : Z; c_mius : Z;                        (* MaxIncomingStreams, MaxIncomingUniStreams *)
  c_dg : bool;                                  (* EnableDatagrams *)
  c_idle : Z                                    (* MaxIdleTimeout, ns *)
}.

Definition cfgMaxStreams : Z := 2 ^ 60.         (* local constant of validateConfig *)

Definition validate (c : config) : config :=
  mkC (c_isw c)
      (if c_msw c >? maxVarInt8 then maxVarInt8 else c_msw c)
      (c_icw c)
      (if c_mcw c >? maxVarInt8 then maxVarInt8 else c_mcw c)
      (if c_mis c >? cfgMaxStreams then cfgMaxStreams else c_mis c)
      (if c_mius c >? cfgMaxStreams then cfgMaxStreams else c_mius c)
      (c_dg c) (c_idle c).

Definition dflt (v d : Z) : Z := if v =? 0 then d else v.
Definition dflt_count (v d : Z) : Z := if v =? 0 then d else if v <? 0 then 0 else v.

Definition populate_only (c : config) : config :=
  mkC (dflt (c_isw c) protoDefaultInitialMaxStreamData)
      (dflt (c_msw c) protoDefaultMaxReceiveStreamFlowControlWindow)
      (dflt (c_icw c) protoDefaultInitialMaxData)
      (dflt (c_mcw c) protoDefaultMaxReceiveConnectionFlowControlWindow)
      (dflt_count (c_mis c) protoDefaultMaxIncomingStreams)
      (dflt_count (c_mius c) protoDefaultMaxIncomingUniStreams)
      (c_dg c)
      (dflt (c_idle c) protoDefaultIdleTimeoutNs).

Definition populate (c : config) : config := populate_only (validate c).

Definition config_of_list (l : list Z) : config :=
  match l with
  | [a; b; c; d; e; f; g; h] => mkC a b c d e f (negb (g =? 0)) h
  | _ => mkC 0 0 0 0 0 0 false 0
  end.

Definition default_config : config := config_of_list advenf_default_cfg.

(** * Enforced limits (of a populated config) *)

Definition enforced (c : config) : limits :=
  mkL (c_icw c)                                  (* preSetup: NewConnectionFlowController(InitialConnectionReceiveWindow, ..) *)
      (c_isw c) (c_isw c) (c_isw c)              (* newFlowController: InitialStreamReceiveWindow whatever the stream type *)
      (c_mis c) (c_mius c)                       (* preSetup: newStreamsMap(.., MaxIncomingStreams, MaxIncomingUniStreams, ..) *)
      protoMaxActiveConnectionIDs                (* connIDManager.Add: len(queue) >= MaxActiveConnectionIDs; SetConnectionIDLimit is a no-op *)
      (if c_dg c then wireMaxDatagramSize else 0) (* frame parser switch; handleDatagramFrame: Length > MaxDatagramSize *)
      (c_idle c)                                 (* applyTransportParams: idleTimeout = config.MaxIdleTimeout (min peer) *)
      protoMaxPacketBufferSize.

(** * The spec-driven client (u_connection.go newUClientConnection, repaired):
      [s.config = configCoveringSpec(conf, uSpec)] before preSetup raises the populated Config
      to the advertised values; connIDManager.SetConnectionIDLimit stores the advertised
      active_connection_id_limit and Add compares with max(MaxActiveConnectionIDs, limit). *)
Definition protoMaxStreamCount : Z := 2 ^ 60.        (* protocol.MaxStreamCount *)
(* u_connection.go noIdleTimeout = time.Duration(math.MaxInt64 / 4): "no idle timeout" as a Config value *)
Definition noIdleNs : Z := 9223372036854775807 / 4.
(* does a max_idle_timeout value (ns) announce an idle timeout at all? (0 / absent and absurdly large
   values do not) *)
Definition adv_idle_fin (x : Z) : bool := (0 <? x) && (x <? noIdleNs).

Definition cover_config (a : limits) (c : config) : config :=
  let isw := Z.max (Z.max (Z.max (c_isw c) (l_sd_bl a)) (l_sd_br a)) (l_sd_uni a) in
  let icw := Z.max (c_icw c) (l_max_data a) in
  mkC isw (Z.max (c_msw c) isw) icw (Z.max (c_mcw c) icw)
      (Z.max (c_mis c) (Z.min (l_s_bidi a) protoMaxStreamCount))
      (Z.max (c_mius c) (Z.min (l_s_uni a) protoMaxStreamCount))
      (c_dg c || (0 <? l_dgram a))
      (* max_idle_timeout: raised to the advertised value; "no idle timeout" when none is advertised *)
      (if 0 <? l_idle a then
         (if l_idle a / nsPerMs <=? noIdleNs / nsPerMs then Z.max (c_idle c) (l_idle a) else noIdleNs)
       else noIdleNs).

Definition enforced_spec (a : limits) (c : config) : limits :=
  let e := enforced (cover_config a c) in
  mkL (l_max_data e) (l_sd_bl e) (l_sd_br e) (l_sd_uni e) (l_s_bidi e) (l_s_uni e)
      (Z.max protoMaxActiveConnectionIDs (l_cid a))
      (l_dgram e) (l_idle e) (l_udp e).

(* what the plain client puts on the wire (newClientConnection / the else branch of
   newUClientConnection + TransportParams.Marshal) *)
Definition plain_advertised (c : config) : limits :=
  mkL (c_icw c) (c_isw c) (c_isw c) (c_isw c) (c_mis c) (c_mius c)
      protoMaxActiveConnectionIDs
      (if c_dg c then wireMaxDatagramSize else 0)
      (c_idle c / nsPerMs * nsPerMs)
      protoMaxPacketBufferSize.

(* applyTransportParams: the client's idle timeout given the peer's max_idle_timeout (ns, 0 = absent) *)
Definition client_idle (cfg_idle peer_idle : Z) : Z :=
  if 0 <? peer_idle then Z.min cfg_idle peer_idle else cfg_idle.

(* Conn.nextIdleTimeoutTime - idleTimeoutStartTime: max(idleTimeout, 3*PTO) *)
Definition idle_deadline (cfg_idle peer_idle pto3 : Z) : Z := Z.max (client_idle cfg_idle peer_idle) pto3.

(** * The game: conformant peer vs. client *)

Inductive kind := KConn | KSD0 | KSD1 | KSD2 | KSB | KSU | KCID.

Definition kind_eqb (a b : kind) : bool :=
  match a, b with
  | KConn, KConn | KSD0, KSD0 | KSD1, KSD1 | KSD2, KSD2 | KSB, KSB | KSU, KSU | KCID, KCID => true
  | _, _ => false
  end.

Definition lim_of (l : limits) (k : kind) : Z :=
  match k with
  | KConn => l_max_data l | KSD0 => l_sd_bl l | KSD1 => l_sd_br l | KSD2 => l_sd_uni l
  | KSB => l_s_bidi l | KSU => l_s_uni l | KCID => l_cid l
  end.

(* one counter: what the peer has used, the window the client enforces, the credit the peer holds *)
Record ctr := mkCtr { used : Z; rw : Z; cr : Z }.
Definition state := kind -> ctr.

Definition upd (s : state) (k : kind) (c : ctr) : state := fun k' => if kind_eqb k k' then c else s k'.
Definition bump (s : state) (k : kind) (n : Z) : state :=
  upd s k (mkCtr (used (s k) + n) (rw (s k)) (cr (s k))).

Record env := mkEnv { e_adv : limits; e_enf : limits }.

Definition init (e : env) : state := fun k =>
  mkCtr (match k with KCID => 1 | _ => 0 end) (lim_of (e_enf e) k) (lim_of (e_adv e) k).

Inductive ev :=
| EvData (ty n : Z)        (* peer: n more bytes on the representative stream of type ty (0 bidi-local, 1 bidi-remote, else uni) *)
| EvOpen (ty n : Z)        (* peer: opens n more streams (ty 1 bidi, else uni) *)
| EvCID (n : Z)            (* peer: n NEW_CONNECTION_ID frames with fresh sequence numbers *)
| EvCIDRotate (k : Z)      (* peer: one NEW_CONNECTION_ID with a fresh sequence number whose Retire Prior To retires
                              k >= 1 of the IDs the client stores (the one in use and the k-1 lowest queued ones) *)
| EvFresh (ty m n : Z)     (* peer: opens m further streams (ty 1 bidi, else uni) and sends n bytes on each of them *)
| EvDgram (len : Z)        (* peer: one DATAGRAM frame of total length len *)
| EvGrant (k : kind) (w : Z) (* client: MAX_DATA / MAX_STREAM_DATA / MAX_STREAMS raising limit k to w *)
| EvRetireCID              (* client: retires one stored connection ID *)
| EvSilence (d peer_idle pto3 : Z). (* nothing on the path for d ns; peer's own max_idle_timeout (ns, 0 none); 3*PTO oracle *)

Definition sd_kind (ty : Z) : kind := if ty =? 0 then KSD0 else if ty =? 1 then KSD1 else KSD2.
Definition cnt_kind (ty : Z) : kind := if ty =? 1 then KSB else KSU.

(* error codes (internal/qerr) *)
Definition FlowControlError : Z := 3.
Definition StreamLimitError : Z := 4.
Definition FrameEncodingError : Z := 7.
Definition ConnectionIDLimitError : Z := 9.
Definition ProtocolViolation : Z := 10.
Definition IdleTimeout : Z := 4096.   (* not a transport error code: qerr.ErrIdleTimeout, the connection is destroyed *)

(** DATAGRAM frames (RFC 9221): the two encodings. max_datagram_frame_size counts the whole frame:
    type byte, the length field if present (type 0x31), payload. wire.DatagramFrame.Length. *)
Definition dgram_frame_size (haslen : bool) (payload : Z) : Z :=
  1 + (if haslen then vlen payload else 0) + payload.
(* a DATAGRAM frame given by its encoding and payload length is the event "frame of that total size" *)
Definition EvDgramEnc (haslen : bool) (payload : Z) : ev := EvDgram (dgram_frame_size haslen payload).

(** The sending side (Conn.SendDatagram, always type 0x31): wire.shrinkForLengthField and
    DatagramFrame.MaxDataLen; the loop of the code runs at most 7 times, fuel 8. *)
Fixpoint shrink_loop (fuel : nat) (space d : Z) : Z :=
  match fuel with
  | O => d
  | S f => if (0 <? d) && (space <? vlen d - 1 + d) then shrink_loop f space (d - 1) else d
  end.
Definition shrink_for_length_field (space : Z) : Z := shrink_loop 8 space space.

Definition dgram_max_data_len (haslen : bool) (maxsize : Z) : Z :=
  let h := if haslen then 2 else 1 in
  if maxsize <? h then 0
  else if haslen then shrink_for_length_field (maxsize - h) else maxsize - h.

(* SendDatagram: min(MaxDataLen(peer's max_datagram_frame_size), current MTU estimate) *)
Definition send_datagram_max (peer_mdfs mtu : Z) : Z := Z.min (dgram_max_data_len true peer_mdfs) mtu.
Definition send_datagram_ok (peer_mdfs mtu payload : Z) : bool :=
  (0 <? peer_mdfs) && (payload <=? send_datagram_max peer_mdfs mtu).

Definition fits_client (s : state) (k : kind) (n : Z) : bool := used (s k) + n <=? rw (s k).
Definition fits_peer (s : state) (k : kind) (n : Z) : bool := used (s k) + n <=? cr (s k).

(* how many streams of the type have to be opened implicitly for data on stream number 1 *)
Definition implicit_open (s : state) (ty : Z) : Z :=
  if ty =? 0 then 0 else if used (s (cnt_kind ty)) <? 1 then 1 - used (s (cnt_kind ty)) else 0.

(* the client's reaction: new state, or a locally generated error *)
Definition client_step (e : env) (s : state) (x : ev) : state * option Z :=
  match x with
  | EvData ty n =>
    let o := implicit_open s ty in
    if negb ((ty =? 0) || fits_client s (cnt_kind ty) o) then (s, Some StreamLimitError)  (* streams_map_incoming: id > maxStream *)
    else
      let s1 := if ty =? 0 then s else bump s (cnt_kind ty) o in
      if negb (fits_client s1 (sd_kind ty) n) then (s1, Some FlowControlError)     (* streamFlowController.UpdateHighestReceived *)
      else if negb (fits_client s1 KConn n) then (s1, Some FlowControlError)       (* connectionFlowController.IncrementHighestReceived *)
      else (bump (bump s1 (sd_kind ty) n) KConn n, None)
  | EvOpen ty n =>
    if negb (fits_client s (cnt_kind ty) n) then (s, Some StreamLimitError)
    else (bump s (cnt_kind ty) n, None)
  | EvCID n =>
    if negb (fits_client s KCID n) then (s, Some ConnectionIDLimitError)           (* connIDManager.Add: len(queue) >= MaxActiveConnectionIDs *)
    else (bump s KCID n, None)
  | EvCIDRotate k =>
    (* connIDManager.add: queued IDs below Retire Prior To are retired, the new ID is queued, the ID in
       use is retired and replaced from the queue (updateConnectionID); Add checks the limit after all
       of it (RFC 9000 5.1.1: the count is taken after retirement) *)
    if negb (fits_client s KCID (1 - k)) then (s, Some ConnectionIDLimitError)
    else (bump s KCID (1 - k), None)
  | EvFresh ty m n =>
    (* fresh streams start with the initial stream window (newFlowController) *)
    if negb (fits_client s (cnt_kind ty) m) then (s, Some StreamLimitError)
    else if lim_of (e_enf e) (sd_kind (if ty =? 1 then 1 else 2)) <? n then (s, Some FlowControlError)
    else if negb (fits_client s KConn (m * n)) then (s, Some FlowControlError)
    else (bump (bump s (cnt_kind ty) m) KConn (m * n), None)
  | EvDgram len =>
    if l_dgram (e_enf e) =? 0 then (s, Some FrameEncodingError)                    (* FrameParser.ParseType: unknown frame type *)
    else if len >? l_dgram (e_enf e) then (s, Some ProtocolViolation)              (* handleDatagramFrame *)
    else (s, None)
  | EvGrant k w =>
    (upd s k (mkCtr (used (s k)) (Z.max (rw (s k)) w) (Z.max (cr (s k)) w)), None)
  | EvRetireCID =>
    (if 1 <? used (s KCID) then bump s KCID (-1) else s, None)
  | EvSilence d peer_idle pto3 =>
    if idle_deadline (l_idle (e_enf e)) peer_idle pto3 <=? d then (s, Some IdleTimeout)  (* run loop: !now.Before(nextIdleTimeoutTime()) *)
    else (s, None)
  end.

(* largest DATAGRAM frame that can reach the client's frame handling: it has to fit a packet
   the client said it accepts (max_udp_payload_size) and the client's receive buffer
   (protocol.MaxPacketBufferSize: a larger packet is truncated and dropped, which is loss, not
   an error); short header (1 byte), zero-length DCID, 1-byte packet number, 16-byte AEAD tag *)
Definition minPacketOverhead : Z := 18.
Definition dgram_cap (a : limits) : Z :=
  Z.min (l_dgram a) (Z.min (l_udp a) protoMaxPacketBufferSize - minPacketOverhead).

(* idle timeout the peer computes (RFC 9000 10.1): None = no timeout *)
Definition peer_idle_view (adv_idle peer_idle : Z) : option Z :=
  if 0 <? adv_idle then (if 0 <? peer_idle then Some (Z.min adv_idle peer_idle) else Some adv_idle)
  else if 0 <? peer_idle then Some peer_idle else None.

(* is the event within what the peer may do, given the credit it holds? (client events: always) *)
Definition peer_ok (e : env) (s : state) (x : ev) : bool :=
  match x with
  | EvData ty n =>
    (1 <=? n) && ((ty =? 0) || fits_peer s (cnt_kind ty) (implicit_open s ty)) && fits_peer s (sd_kind ty) n && fits_peer s KConn n
  | EvOpen ty n => (1 <=? n) && fits_peer s (cnt_kind ty) n
  | EvCID n => (0 <=? n) && fits_peer s KCID n
  | EvCIDRotate k => (1 <=? k) && (k <=? used (s KCID)) && fits_peer s KCID (1 - k)
  | EvFresh ty m n =>
    (1 <=? m) && (0 <=? n) && fits_peer s (cnt_kind ty) m &&
    (n <=? lim_of (e_adv e) (sd_kind (if ty =? 1 then 1 else 2))) && fits_peer s KConn (m * n)
  | EvDgram len => (1 <=? len) && (len <=? dgram_cap (e_adv e))
  | EvGrant _ _ => true
  | EvRetireCID => true
  | EvSilence d peer_idle pto3 =>
    (0 <=? d) && (d <? noIdleNs) && (0 <=? peer_idle) && (0 <=? pto3) &&   (* no history lasts 73 years *)
    match peer_idle_view (l_idle (e_adv e)) peer_idle with None => true | Some t => d <? t end
  end.

Inductive outcome := Fine | NonConformant | Err (code : Z).

Fixpoint run (e : env) (s : state) (h : list ev) : outcome :=
  match h with
  | [] => Fine
  | x :: t =>
    if peer_ok e s x then
      match client_step e s x with
      | (s', None) => run e s' t
      | (_, Some c) => Err c
      end
    else NonConformant
  end.

Definition play (adv enf : limits) (h : list ev) : outcome := run (mkEnv adv enf) (init (mkEnv adv enf)) h.

(* what the harness observes after an event that raised no error: for the client's own events
   the counter they touch (the window now enforced after a grant, the number of stored
   connection IDs after a retirement), 0 otherwise *)
Definition obs_after (s' : state) (x : ev) : Z :=
  match x with
  | EvGrant k _ => rw (s' k)
  | EvRetireCID => used (s' KCID)
  | _ => 0
  end.

(* replay of harness probes (not necessarily conformant): per event the error code or [obs_after], up to the first error *)
Fixpoint run_codes (e : env) (s : state) (h : list ev) : list Z :=
  match h with
  | [] => []
  | x :: t =>
    match client_step e s x with
    | (s', None) => obs_after s' x :: run_codes e s' t
    | (_, Some c) => [c]
    end
  end.

(* a history in which every event is within the peer's credit and every grant of the client raises
   the window it enforced so far (what flow control and the streams map guarantee for the updates
   they send: FlowCtl C04_window_monotone / _conn, StreamsMap C15_incoming_limit_and_credit):
   the final state, if no error occurred *)
Definition grant_increasing (s : state) (x : ev) : bool :=
  match x with EvGrant k w => rw (s k) <? w | _ => true end.

Fixpoint run_st (e : env) (s : state) (h : list ev) : option state :=
  match h with
  | [] => Some s
  | x :: t =>
    if peer_ok e s x && grant_increasing s x then
      match client_step e s x with
      | (s', None) => run_st e s' t
      | (_, Some _) => None
      end
    else None
  end.

Fixpoint last_grant (k : kind) (h : list ev) : option Z :=
  match h with
  | [] => None
  | x :: t =>
    match last_grant k t with
    | Some w => Some w
    | None => match x with EvGrant k' w => if kind_eqb k' k then Some w else None | _ => None end
    end
  end.

(** * The characterisation *)

Definition covers (adv enf : limits) : Prop :=
  l_max_data adv <= l_max_data enf /\
  l_sd_bl adv <= l_sd_bl enf /\
  l_sd_br adv <= l_sd_br enf /\
  l_sd_uni adv <= l_sd_uni enf /\
  l_s_bidi adv <= l_s_bidi enf /\
  l_s_uni adv <= l_s_uni enf /\
  l_cid adv <= l_cid enf /\
  dgram_cap adv <= l_dgram enf /\
  (if adv_idle_fin (l_idle adv) then l_idle adv <= l_idle enf else noIdleNs <= l_idle enf).

Definition coversb (adv enf : limits) : list bool :=
  [l_max_data adv <=? l_max_data enf; l_sd_bl adv <=? l_sd_bl enf; l_sd_br adv <=? l_sd_br enf;
   l_sd_uni adv <=? l_sd_uni enf; l_s_bidi adv <=? l_s_bidi enf; l_s_uni adv <=? l_s_uni enf;
   l_cid adv <=? l_cid enf; dgram_cap adv <=? l_dgram enf;
   if adv_idle_fin (l_idle adv) then l_idle adv <=? l_idle enf else noIdleNs <=? l_idle enf].
