(** Correspondence glue for the advenf unit (C12): a case is what the Go harness read from a
    client connection constructed as (U)Transport.dial constructs it, and what that
    connection answered to boundary frames. *)
From Coq Require Import List ZArith Bool String.
From V Require Import Gen.Params Lib.Hex Wire.Varint.
From V Require Export AdvEnf.Model.   (* the case terms mention [ev] constructors *)
Import ListNotations.
Open Scope Z_scope.

Inductive case :=
| AdvCase (spec_driven : bool)
          (params : list (Z * string))  (* spec-driven: the SPEC's extension (ID, Value), untouched by the dial; plain: entries read from the wire *)
          (suppress : list Z)           (* QUICSpec.SuppressTransportParams *)
          (randomize : bool)            (* QUICSpec.RandomizeTransportParams: the wire order is an oracle *)
          (scid : string)               (* the connection's source connection ID *)
          (rawcfg : list Z)             (* the Config as the user passed it *)
          (peer_idle : Z)               (* the peer's max_idle_timeout, ns *)
          (wire : string)               (* quic_transport_parameters extension bytes of the ClientHello *)
          (override : option string)    (* ourParams.ClientOverride *)
          (adv : list Z)                (* the harness's own reading of the wire (limits_list order; idle in ms) *)
          (rec : list Z)                (* ourParams fields (same order; idle in ms) *)
          (enf : list Z)                (* read from the connection *)
          (idle : Z)                    (* Conn.idleTimeout after applyTransportParams, ns *)
          (deadline pto3 : Z)           (* nextIdleTimeoutTime - idleTimeoutStartTime, and the 3*PTO that entered it (oracle), ns *)
          (probes : list (ev * Z))      (* boundary events and the error code each produced (stops at the first error) *)
(* Conn.SendDatagram of [payload] bytes with the peer's max_datagram_frame_size and the MTU estimate:
   accepted?, the limit a DatagramTooLargeError reports (-1 if none), the size of the queued frame (0 if none) *)
| SendCase (peer_mdfs mtu payload : Z) (ok : bool) (reported frame_size : Z).

Record obs := mkObs {
  o_wire_ok : bool;      (* the parameter list marshals to the wire bytes (version_information: oracle) and the wire parses back *)
  o_override_ok : bool;
  o_adv : list Z;
  o_rec : list Z;
  o_enf : list Z;
  o_idle : Z;
  o_deadline : Z;
  o_codes : list Z;
  o_plain_ok : bool
}.

Definition ms_list (l : limits) : list Z :=
  [l_max_data l; l_sd_bl l; l_sd_br l; l_sd_uni l; l_s_bidi l; l_s_uni l; l_cid l; l_dgram l; l_idle l / nsPerMs; l_udp l].

Definition enf_list (c : config) : list Z :=
  let e := enforced c in
  [l_max_data e; l_sd_bl e; l_sd_br e; l_sd_uni e;
   c_mis c; c_mius c;          (* streamsMap.maxIncomingBidiStreams / maxIncomingUniStreams *)
   l_s_bidi e; l_s_uni e;      (* incoming maps: highest stream number the peer may open *)
   (if l_dgram e =? 0 then 0 else 1);
   l_cid e;                    (* cap(connIDManager.queue) *)
   c_mcw c; c_msw c].          (* auto-tuning maxima *)

Definition send_obs (peer_mdfs mtu payload : Z) : bool * Z * Z :=
  if send_datagram_ok peer_mdfs mtu payload then (true, -1, dgram_frame_size true payload)
  else (false, (if 0 <? peer_mdfs then send_datagram_max peer_mdfs mtu else -1), 0).

Definition dummy_obs : obs := mkObs true true [] [] [] 0 0 [] true.

Definition model_obs (c : case) : obs :=
  match c with
  | SendCase m t p _ _ _ =>
    let '(ok, r, f) := send_obs m t p in
    mkObs ok true [r; f] [] [] 0 0 [] true
  | AdvCase sd params sup rnd scid rawcfg peer_idle wire override _ _ _ _ _ pto3 probes =>
    let ps := map (fun p => (fst p, hx (snd p))) params in
    let w := hx wire in
    let cfg0 := populate (config_of_list rawcfg) in
    let pw := match parse w with Some l => l | None => [] end in
    let kv := kv_of pw in
    let a := advertised kv in
    (* the Config the connection works with: spec-driven connections raise it to the spec *)
    let cfg := if sd then cover_config a cfg0 else cfg0 in
    let e := mkEnv a (if sd then enforced_spec a cfg0 else enforced cfg0) in
    mkObs
      (match parse w with
       | Some l =>
         let expected := dial_list sup (hx scid) ps in
         (if rnd then perm_mod_vi expected l else same_mod_vi expected l) && eq_bytes (marshal l) w
       | None => false
       end)
      (match override with
       | Some o => sd && eq_bytes (hx o) w      (* the record is the very byte string sent *)
       | None => negb sd
       end)
      (* the harness's reading of the wire: all thirteen fields *)
      (record_list (read_list pw))
      (* the record: spec-driven: PopulateFromUQUIC on the list the dial works on (NOT on the parse of the
         wire); plain: the struct the parameters were marshaled from, i.e. the reading of the wire *)
      (record_list (if sd then record_of (dial_list sup (hx scid) ps) else read_list pw))
      (enf_list cfg)
      (client_idle (c_idle cfg) peer_idle)
      (idle_deadline (c_idle cfg) peer_idle pto3)
      (run_codes e (init e) (map fst probes))
      (if sd then true else eq_bytes (limits_list a) (limits_list (plain_advertised cfg)))
  end.

Definition check_case (c : case) : bool :=
  match c with
  | SendCase m t p ok r f =>
    let '(ok', r', f') := send_obs m t p in Bool.eqb ok ok' && (r =? r') && (f =? f')
  | AdvCase _ _ _ _ _ _ _ _ _ adv rec enf idle deadline _ probes =>
    let o := model_obs c in
    o_wire_ok o && o_override_ok o && eq_bytes (o_adv o) adv && eq_bytes (o_rec o) rec &&
    eq_bytes (o_enf o) enf && (o_idle o =? idle) && (o_deadline o =? deadline) && eq_bytes (o_codes o) (map snd probes) && o_plain_ok o
  end.
