(** C12 — the built-in parrots (tables generated from QUICID2Spec in Gen/Params.v) against
    Config values: which advertised limits the connection does not cover, with concrete
    conformant-peer histories that end in a locally generated error. *)
From Coq Require Import List ZArith Bool Lia.
From V Require Import Gen.Params Wire.Varint AdvEnf.Model AdvEnf.Proofs.
Import ListNotations.
Open Scope Z_scope.

Definition enf_default : limits := enforced default_config.

(* the generated default Config is what populate yields for the zero Config *)
Lemma default_config_is_populated_zero : default_config = populate (mkC 0 0 0 0 0 0 false 0).
Proof. reflexivity. Qed.

(** One witness per limit kind: the peer goes exactly to the advertised boundary. *)
Definition w_max_data (a : limits) : list ev := [EvData 2 400000; EvData 1 400000].
Definition w_sd_bl (a : limits) : list ev := [EvData 0 (l_sd_bl a)].
Definition w_sd_br (a : limits) : list ev := [EvData 1 (l_sd_br a)].
Definition w_sd_uni (a : limits) : list ev := [EvData 2 (l_sd_uni a)].
Definition w_s_bidi (a : limits) : list ev := [EvOpen 1 (l_s_bidi a)].
Definition w_s_uni (a : limits) : list ev := [EvOpen 2 (l_s_uni a)].
Definition w_cid (a : limits) : list ev := [EvCID (l_cid a - 1)].
Definition w_dgram (a : limits) : list ev := [EvDgram (dgram_cap a)].
Definition w_idle (e : limits) : list ev := [EvSilence (l_idle e) 0 0].

(* Chrome parrots under the default Config *)
Definition chrome_default_refuted (kv : list (Z * Z)) : Prop :=
  let a := advertised kv in
  play a enf_default (w_max_data a) = Err FlowControlError /\
  play a enf_default (w_sd_bl a) = Err FlowControlError /\
  play a enf_default (w_sd_br a) = Err FlowControlError /\
  play a enf_default (w_sd_uni a) = Err FlowControlError /\
  play a enf_default (w_s_uni a) = Err StreamLimitError /\
  play a enf_default (w_dgram a) = Err FrameEncodingError /\
  coversb a enf_default = [false; false; false; false; true; false; true; false; true].

(* Firefox parrots under the default Config *)
Definition firefox_default_refuted (kv : list (Z * Z)) : Prop :=
  let a := advertised kv in
  play a enf_default (w_max_data a) = Err FlowControlError /\
  play a enf_default (w_sd_bl a) = Err FlowControlError /\
  play a enf_default (w_sd_br a) = Err FlowControlError /\
  play a enf_default (w_sd_uni a) = Err FlowControlError /\
  play a enf_default (w_cid a) = Err ConnectionIDLimitError /\
  play a enf_default (w_dgram a) = Err FrameEncodingError /\
  coversb a enf_default = [false; false; false; false; true; true; false; false; true].

Ltac refute := unfold chrome_default_refuted, firefox_default_refuted; vm_compute; repeat split; reflexivity.

Lemma Chrome_115_IPv4_default : chrome_default_refuted advenf_spec_Chrome_115_IPv4. Proof. refute. Qed.
Lemma Chrome_115_IPv6_default : chrome_default_refuted advenf_spec_Chrome_115_IPv6. Proof. refute. Qed.
Lemma Chrome_146_IPv4_default : chrome_default_refuted advenf_spec_Chrome_146_IPv4. Proof. refute. Qed.
Lemma Chrome_146_IPv6_default : chrome_default_refuted advenf_spec_Chrome_146_IPv6. Proof. refute. Qed.
Lemma Firefox_116A_default : firefox_default_refuted advenf_spec_Firefox_116A. Proof. refute. Qed.
Lemma Firefox_116B_default : firefox_default_refuted advenf_spec_Firefox_116B. Proof. refute. Qed.
Lemma Firefox_116C_default : firefox_default_refuted advenf_spec_Firefox_116C. Proof. refute. Qed.

(* every built-in parrot: the default Config does not cover it *)
Lemma all_parrots_default_uncovered :
  Forall (fun kv => ~ covers (advertised kv) enf_default) advenf_all_specs.
Proof.
  unfold advenf_all_specs. repeat constructor; intros C; apply coversb_spec in C; vm_compute in C; discriminate.
Qed.

(** The connection ID limit is a constant: no Config repairs the Firefox parrots. *)
Definition advertises_cid_above (kv : list (Z * Z)) : Prop :=
  protoMaxActiveConnectionIDs < l_cid (advertised kv).

Lemma cid_any_config kv (c : config) : advertises_cid_above kv ->
  play (advertised kv) (enforced c) (w_cid (advertised kv)) = Err ConnectionIDLimitError /\
  ~ covers (advertised kv) (enforced c).
Proof.
  intros H. split.
  - apply wit_cid; simpl; [unfold protoMaxActiveConnectionIDs; lia | exact H].
  - intros C. unfold covers in C. simpl in C. unfold advertises_cid_above in H. lia.
Qed.

Lemma firefox_cid_above :
  advertises_cid_above advenf_spec_Firefox_116A /\ advertises_cid_above advenf_spec_Firefox_116B /\
  advertises_cid_above advenf_spec_Firefox_116C.
Proof. repeat split. Qed.

(** Config-dependent kinds: the idle timeout and the bidirectional stream count *)
Definition cfg_idle10s : config := populate (mkC 0 0 0 0 0 0 false 10000000000).
Definition cfg_streams50 : config := populate (mkC 0 0 0 0 50 0 false 0).

Lemma idle10s_refuted :
  Forall (fun kv => play (advertised kv) (enforced cfg_idle10s) (w_idle (enforced cfg_idle10s)) = Err IdleTimeout) advenf_all_specs.
Proof. unfold advenf_all_specs. repeat constructor. Qed.

Lemma idle_default_covered :
  Forall (fun kv => 0 < l_idle (advertised kv) /\ l_idle (advertised kv) <= l_idle enf_default) advenf_all_specs.
Proof. unfold advenf_all_specs. repeat constructor; vm_compute; congruence. Qed.

Lemma chrome_streams50_refuted :
  play (advertised advenf_spec_Chrome_115_IPv4) (enforced cfg_streams50) (w_s_bidi (advertised advenf_spec_Chrome_115_IPv4)) = Err StreamLimitError.
Proof. reflexivity. Qed.

(** A Config that covers the Chrome parrots: then no conformant history errs. *)
Definition cfg_roomy : config :=
  populate (mkC 6291456 6291456 15728640 15728640 100 103 true 30000000000).

Lemma chrome_roomy_covered :
  covers (advertised advenf_spec_Chrome_115_IPv4) (enforced cfg_roomy) /\
  covers (advertised advenf_spec_Chrome_115_IPv6) (enforced cfg_roomy) /\
  covers (advertised advenf_spec_Chrome_146_IPv4) (enforced cfg_roomy) /\
  covers (advertised advenf_spec_Chrome_146_IPv6) (enforced cfg_roomy).
Proof. repeat split; vm_compute; congruence. Qed.

Lemma chrome_roomy_ok h c :
  play (advertised advenf_spec_Chrome_146_IPv4) (enforced cfg_roomy) h <> Err c.
Proof. apply covers_safe. apply chrome_roomy_covered. Qed.

(* non-vacuity: a long conformant history exists and is played to the end *)
Lemma chrome_roomy_example :
  let a := advertised advenf_spec_Chrome_146_IPv4 in
  play a (enforced cfg_roomy)
    [EvData 2 6291456; EvData 1 6291456; EvData 0 3145728; EvOpen 2 102; EvOpen 1 99; EvCID 1; EvDgram 1434;
     EvSilence 29999999999 0 0; EvGrant KConn 20000000; EvGrant KSD0 9000000; EvData 0 4271272; EvRetireCID; EvCID 1] = Fine.
Proof. reflexivity. Qed.

(** Regression, old shape: record and wire were two marshalings; two GREASE draws differ *)
Lemma old_record_wire_bytes_can_differ :
  exists o1 o2 ps, Forall wf_param ps /\ override_bytes_old o1 ps <> wire_bytes o2 ps.
Proof.
  exists (fun _ _ => [0;0;0;1; 10;10;10;10; 0;0;0;1]), (fun _ _ => [0;0;0;1; 26;10;10;10; 0;0;0;1]),
         [(4, [128;240;0;0]); (16741339, [0;0;0;1; 10;10;10;10; 0;0;0;1])].
  split.
  - repeat constructor; vm_compute; intuition congruence.
  - vm_compute. congruence.
Qed.

(** * The repaired spec-driven client: every built-in parrot, EVERY Config *)

Definition parrot_ok (kv : list (Z * Z)) : Prop :=
  forall (raw : config),
    covers (advertised kv) (enforced_spec (advertised kv) (populate raw)) /\
    forall h code, play (advertised kv) (enforced_spec (advertised kv) (populate raw)) h <> Err code.

Lemma valid_parrot_ok kv : spec_valid (advertised kv) -> parrot_ok kv.
Proof. intros V raw. split; [apply spec_covers, V | apply spec_client_ok, V]. Qed.

Ltac valid := apply valid_parrot_ok; vm_compute; repeat split; congruence.

Lemma Chrome_115_IPv4_ok : parrot_ok advenf_spec_Chrome_115_IPv4. Proof. valid. Qed.
Lemma Chrome_115_IPv6_ok : parrot_ok advenf_spec_Chrome_115_IPv6. Proof. valid. Qed.
Lemma Chrome_146_IPv4_ok : parrot_ok advenf_spec_Chrome_146_IPv4. Proof. valid. Qed.
Lemma Chrome_146_IPv6_ok : parrot_ok advenf_spec_Chrome_146_IPv6. Proof. valid. Qed.
Lemma Firefox_116A_ok : parrot_ok advenf_spec_Firefox_116A. Proof. valid. Qed.
Lemma Firefox_116B_ok : parrot_ok advenf_spec_Firefox_116B. Proof. valid. Qed.
Lemma Firefox_116C_ok : parrot_ok advenf_spec_Firefox_116C. Proof. valid. Qed.

Lemma all_parrots_valid : Forall (fun kv => spec_valid (advertised kv)) advenf_all_specs.
Proof. unfold advenf_all_specs. repeat constructor; vm_compute; congruence. Qed.

(* the old witnesses are now played to the end: default Config, the 10 s idle Config, the
   50-stream Config *)
Definition old_witnesses (a : limits) : list (list ev) :=
  [w_max_data a; w_sd_bl a; w_sd_br a; w_sd_uni a; w_s_bidi a; w_s_uni a; w_cid a; w_dgram a].

Lemma old_witnesses_now_fine :
  Forall (fun kv =>
    let a := advertised kv in
    Forall (fun h => play a (enforced_spec a default_config) h = Fine) (old_witnesses a) /\
    play a (enforced_spec a cfg_idle10s) (w_idle (enforced cfg_idle10s)) = Fine /\
    play a (enforced_spec a cfg_streams50) (w_s_bidi a) = Fine) advenf_all_specs.
Proof. unfold advenf_all_specs. repeat constructor. Qed.

(** Rotation at the advertised connection ID limit (RFC 9000 5.1.1): the peer fills the limit,
    then replaces the ID in use (Retire Prior To), also after the client's own rotation, also
    retiring several at once: conformant, and played to the end for every parrot. *)
Definition cid_rotation_history (a : limits) : list ev :=
  [EvCID (l_cid a - 1); EvCIDRotate 1; EvCIDRotate 1; EvRetireCID; EvCID 1; EvCIDRotate 1; EvCIDRotate (l_cid a); EvCID (l_cid a - 1)].

Lemma cid_rotation_fine :
  Forall (fun kv => let a := advertised kv in play a (enforced_spec a default_config) (cid_rotation_history a) = Fine)
         advenf_all_specs.
Proof. unfold advenf_all_specs. repeat constructor. Qed.

(* a client that counted the new ID before retiring the one in use would be one short: the
   same step against an enforced limit of advertised-1 *)
Lemma cid_rotation_needs_full_limit :
  let a := advertised advenf_spec_Firefox_116A in
  play a (mkL (l_max_data a) (l_sd_bl a) (l_sd_br a) (l_sd_uni a) (l_s_bidi a) (l_s_uni a) (l_cid a - 1)
              (l_dgram a) (l_idle a) (l_udp a)) [EvCID (l_cid a - 2); EvCID 1] = Err ConnectionIDLimitError.
Proof. reflexivity. Qed.

(* non-vacuity of [grants_sync]: a conformant history with increasing grants exists *)
Lemma grants_example :
  let a := advertised advenf_spec_Chrome_146_IPv4 in
  let e := mkEnv a (enforced_spec a default_config) in
  option_map (fun s' => [rw (s' KSD2); cr (s' KSD2); rw (s' KSU); cr (s' KSU); rw (s' KSD1) - cr (s' KSD1)])
    (run_st e (init e)
      [EvData 2 3000000; EvGrant KSD2 9291456; EvGrant KConn 18728640; EvData 2 6291456; EvOpen 2 102;
       EvGrant KSU 104; EvOpen 2 1; EvCID 1; EvRetireCID; EvCID 1])
  = Some [9291456; 9291456; 104; 104; 0].
Proof. reflexivity. Qed.

(** The histories the simulated connections (simlimits) play, by shape, for every parrot under the
    default Config: many fresh streams sharing initial_max_data, the advertised stream counts, the
    counts after two completed streams and the MAX_STREAMS they earn: conformant and Fine. *)
Definition sim_shaped (a : limits) : list (list ev) :=
  [ [EvFresh 2 (Z.min (l_s_uni a) 20) (Z.min (l_sd_uni a) (l_max_data a / 40)); EvFresh 1 (Z.min (l_s_bidi a) 20) (Z.min (l_sd_br a) (l_max_data a / 40))];
    [EvFresh 2 (l_s_uni a) 1]; [EvFresh 1 (l_s_bidi a) 1];
    [EvFresh 2 2 4; EvGrant KSU (l_s_uni a + 2); EvFresh 2 (l_s_uni a) 1];
    [EvFresh 1 2 4; EvGrant KSB (l_s_bidi a + 2); EvFresh 1 (l_s_bidi a) 1];
    [EvDgramEnc true 1100]; [EvDgramEnc false 1100] ].

Lemma sim_shaped_fine :
  Forall (fun kv => let a := advertised kv in
            Forall (fun h => play a (enforced_spec a default_config) h = Fine) (sim_shaped a)) advenf_all_specs.
Proof. unfold advenf_all_specs. repeat constructor. Qed.

(** The record, field by field. The list of a Chrome parrot as typed parameters (integer-valued ones). *)
Definition tparams_of (kv : list (Z * Z)) : list tparam := map (fun p => (fst p, vappend (snd p))) kv.

(* the shape before the repair: max_udp_payload_size (Chrome: 1472) was not recorded, and absent
   parameters were recorded as 0 instead of their defaults (active_connection_id_limit 2,
   ack_delay_exponent 3, max_ack_delay 25 ms) *)
Lemma old_record_differs_from_wire :
  record_list (record_of_old (tparams_of advenf_spec_Chrome_146_IPv4)) =
    [15728640; 6291456; 6291456; 6291456; 100; 103; 0; 65536; 30000; 0; 0; 0; 0] /\
  record_list (read_list (tparams_of advenf_spec_Chrome_146_IPv4)) =
    [15728640; 6291456; 6291456; 6291456; 100; 103; 2; 65536; 30000; 1472; 3; 25; 0].
Proof. split; reflexivity. Qed.

Lemma new_record_is_wire_all_parrots :
  Forall (fun kv => record_of (tparams_of kv) = read_list (tparams_of kv) /\
                    parse (marshal (tparams_of kv)) = Some (tparams_of kv)) advenf_all_specs.
Proof. unfold advenf_all_specs. repeat constructor; vm_compute; reflexivity. Qed.

(** What the game does NOT let the peer do: DATAGRAM frames above [dgram_cap]. For the Chrome parrots
    max_datagram_frame_size is 65536 and max_udp_payload_size 1472, the receive buffer 1452: frames of
    1435..1454 bytes fit what was advertised, but a packet carrying one exceeds the receive buffer and
    is dropped before any frame is looked at -- no error (so outside "never a locally generated
    error"), and no delivery either. *)
Lemma dgram_cap_narrowing :
  let a := advertised advenf_spec_Chrome_146_IPv4 in
  (l_dgram a, l_udp a, dgram_cap a) = (65536, 1472, 1434) /\
  play a (enforced_spec a default_config) [EvDgram 1434] = Fine /\
  play a (enforced_spec a default_config) [EvDgram 1435] = NonConformant.
Proof. repeat split. Qed.
