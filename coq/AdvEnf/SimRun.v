(** Correspondence glue for the simlimits unit (C12): a case is the history a conformant peer -- the
    in-tree server, knowing only the client's wire parameters -- played against the real, running
    client in a simulated connection, as events of the game, with what was observed of the client. *)
From Coq Require Import List ZArith Bool String.
From V Require Import Gen.Params Lib.Hex Wire.Varint.
From V Require Export AdvEnf.Model.
Import ListNotations.
Open Scope Z_scope.

Inductive case :=
| SimCase (spec_driven : bool)
          (kv : list (Z * Z))       (* the client's parameters as the in-tree server parsed them from the wire *)
          (rawcfg : list Z)         (* the client's Config as the user passed it *)
          (conformant : bool)       (* every event is meant to be within the peer's credit *)
          (probes : list (ev * Z)). (* the history; 0, the client's transport error code, or 4096 for an idle timeout *)

Record obs := mkObs { o_codes : list Z; o_conformant : bool }.

Definition env_of (sd : bool) (kv : list (Z * Z)) (rawcfg : list Z) : env :=
  let cfg := populate (config_of_list rawcfg) in
  if sd then let a := advertised kv in mkEnv a (enforced_spec a cfg)
  else mkEnv (plain_advertised cfg) (enforced cfg).

Definition model_obs (c : case) : obs :=
  match c with
  | SimCase sd kv rawcfg _ probes =>
    let e := env_of sd kv rawcfg in
    mkObs (run_codes e (init e) (map fst probes))
          (match run e (init e) (map fst probes) with NonConformant => false | _ => true end)
  end.

Fixpoint eqz (a b : list Z) : bool :=
  match a, b with
  | [], [] => true
  | x :: a', y :: b' => (x =? y) && eqz a' b'
  | _, _ => false
  end.

(* the conformance verdict of [run] counts the representative stream of a type ([EvData]) and further
   streams ([EvFresh]) separately; a history that uses both for one server-initiated type would get one
   stream of allowance too many, so such histories are not accepted as cases *)
Definition uses_data (ty : Z) (x : ev) : bool := match x with EvData t _ => t =? ty | _ => false end.
Definition uses_fresh (ty : Z) (x : ev) : bool := match x with EvFresh t _ _ => (if ty =? 1 then t =? 1 else negb (t =? 1)) | _ => false end.
Definition no_mix (h : list ev) : bool :=
  negb (existsb (uses_data 1) h && existsb (uses_fresh 1) h) &&
  negb (existsb (fun x => match x with EvData t _ => negb (t =? 0) && negb (t =? 1) | _ => false end) h && existsb (uses_fresh 2) h).

Definition check_case (c : case) : bool :=
  match c with
  | SimCase _ _ _ conf probes =>
    let o := model_obs c in
    eqz (o_codes o) (map snd probes) && (negb conf || o_conformant o) && no_mix (map fst probes)
  end.
