(** C12 — proofs about the advertised-vs-enforced model. *)
From Coq Require Import List ZArith Bool Lia.
From V Require Import Gen.Params Wire.Varint Wire.VarintProofs AdvEnf.Model.
Import ListNotations.
Open Scope Z_scope.

(** * Counters *)

Lemma kind_eqb_refl k : kind_eqb k k = true.
Proof. destruct k; reflexivity. Qed.

Lemma kind_eqb_eq a b : kind_eqb a b = true -> a = b.
Proof. destruct a, b; simpl; congruence. Qed.

Lemma upd_same s k c : upd s k c k = c.
Proof. unfold upd. now rewrite kind_eqb_refl. Qed.

Lemma upd_other s k c k' : kind_eqb k k' = false -> upd s k c k' = s k'.
Proof. unfold upd. intros ->. reflexivity. Qed.

Lemma sd_cnt_distinct ty ty' : kind_eqb (cnt_kind ty) (sd_kind ty') = false.
Proof. unfold cnt_kind, sd_kind. destruct (ty =? 1), (ty' =? 0), (ty' =? 1); reflexivity. Qed.

Lemma sd_conn_distinct ty : kind_eqb (sd_kind ty) KConn = false.
Proof. unfold sd_kind. destruct (ty =? 0), (ty =? 1); reflexivity. Qed.

Lemma cnt_conn_distinct ty : kind_eqb (cnt_kind ty) KConn = false.
Proof. unfold cnt_kind. destruct (ty =? 1); reflexivity. Qed.

(** the peer's credit never exceeds the window the client enforces *)
Definition inv (s : state) : Prop := forall k, cr (s k) <= rw (s k).

Lemma inv_upd s k c : inv s -> cr c <= rw c -> inv (upd s k c).
Proof.
  intros I H k'. unfold upd. destruct (kind_eqb k k'); [exact H | apply I].
Qed.

Lemma inv_bump s k n : inv s -> inv (bump s k n).
Proof. intros I. unfold bump. apply inv_upd; [exact I | simpl; apply I]. Qed.

Lemma fits_peer_client s k n : inv s -> fits_peer s k n = true -> fits_client s k n = true.
Proof.
  unfold fits_peer, fits_client. intros I H. specialize (I k).
  apply Z.leb_le in H. apply Z.leb_le. lia.
Qed.

Definition counters_cover (adv enf : limits) : Prop := forall k, lim_of adv k <= lim_of enf k.

Lemma inv_init adv enf : counters_cover adv enf -> inv (init (mkEnv adv enf)).
Proof. intros H k. unfold init. simpl. apply H. Qed.

Lemma covers_counters adv enf : covers adv enf -> counters_cover adv enf.
Proof.
  unfold covers. intros (H1 & H2 & H3 & H4 & H5 & H6 & H7 & _) k. destruct k; simpl; assumption.
Qed.

(** * Safety: a covered client never raises an error against a conformant peer *)

Definition static_ok (e : env) : Prop :=
  (forall k, lim_of (e_adv e) k <= lim_of (e_enf e) k) /\
  dgram_cap (e_adv e) <= l_dgram (e_enf e) /\
  (if adv_idle_fin (l_idle (e_adv e)) then l_idle (e_adv e) <= l_idle (e_enf e) else noIdleNs <= l_idle (e_enf e)).

Lemma step_safe e s x :
  inv s -> static_ok e -> peer_ok e s x = true ->
  exists s', client_step e s x = (s', None) /\ inv s'.
Proof.
  intros I (Hl & Hd & Hi) P. destruct x as [ty n | ty n | n | k | ty m n | len | k w | | d pidle pto3]; simpl in P |- *.
  - (* EvData *)
    apply andb_prop in P as [P Pc]. apply andb_prop in P as [P Ps]. apply andb_prop in P as [Pn Po].
    assert (Ho : (ty =? 0) || fits_client s (cnt_kind ty) (implicit_open s ty) = true).
    { apply orb_prop in Po as [Po | Po]; [rewrite Po; reflexivity|].
      rewrite (fits_peer_client _ _ _ I Po). apply orb_true_r. }
    rewrite Ho. simpl.
    set (s1 := if ty =? 0 then s else bump s (cnt_kind ty) (implicit_open s ty)).
    assert (I1 : inv s1). { unfold s1. destruct (ty =? 0); [exact I | apply inv_bump; exact I]. }
    assert (E1 : s1 (sd_kind ty) = s (sd_kind ty)).
    { unfold s1. destruct (ty =? 0); [reflexivity|]. unfold bump. apply upd_other. apply sd_cnt_distinct. }
    assert (E2 : s1 KConn = s KConn).
    { unfold s1. destruct (ty =? 0); [reflexivity|]. unfold bump. apply upd_other. apply cnt_conn_distinct. }
    assert (F1 : fits_client s1 (sd_kind ty) n = true).
    { apply fits_peer_client; [exact I1|]. unfold fits_peer in *. rewrite E1. exact Ps. }
    assert (F2 : fits_client s1 KConn n = true).
    { apply fits_peer_client; [exact I1|]. unfold fits_peer in *. rewrite E2. exact Pc. }
    rewrite F1, F2. simpl. eexists. split; [reflexivity|]. apply inv_bump, inv_bump. exact I1.
  - (* EvOpen *)
    apply andb_prop in P as [_ P]. rewrite (fits_peer_client _ _ _ I P). simpl.
    eexists. split; [reflexivity|]. apply inv_bump. exact I.
  - (* EvCID *)
    apply andb_prop in P as [_ P]. rewrite (fits_peer_client _ _ _ I P). simpl.
    eexists. split; [reflexivity|]. apply inv_bump. exact I.
  - (* EvCIDRotate *)
    apply andb_prop in P as [_ P]. rewrite (fits_peer_client _ _ _ I P). simpl.
    eexists. split; [reflexivity|]. apply inv_bump. exact I.
  - (* EvFresh *)
    apply andb_prop in P as [P Pc]. apply andb_prop in P as [P Pn]. apply andb_prop in P as [P Ps].
    rewrite (fits_peer_client _ _ _ I Ps). cbn [negb].
    apply Z.leb_le in Pn. specialize (Hl (sd_kind (if ty =? 1 then 1 else 2))).
    destruct (Z.ltb_spec (lim_of (e_enf e) (sd_kind (if ty =? 1 then 1 else 2))) n); [lia|].
    rewrite (fits_peer_client _ _ _ I Pc). cbn [negb].
    eexists. split; [reflexivity|]. apply inv_bump, inv_bump. exact I.
  - (* EvDgram *)
    apply andb_prop in P as [P1 P2]. apply Z.leb_le in P1, P2.
    destruct (Z.eqb_spec (l_dgram (e_enf e)) 0) as [E|E]; [lia|].
    destruct (Z.gtb_spec len (l_dgram (e_enf e))); [lia|].
    eexists. split; [reflexivity | exact I].
  - (* EvGrant *)
    eexists. split; [reflexivity|]. apply inv_upd; [exact I|]. simpl. specialize (I k). lia.
  - (* EvRetireCID *)
    eexists. split; [reflexivity|]. destruct (1 <? used (s KCID)); [apply inv_bump|]; exact I.
  - (* EvSilence *)
    apply andb_prop in P as [P Pv]. apply andb_prop in P as [P P3]. apply andb_prop in P as [P P2].
    apply andb_prop in P as [P1 Pb].
    apply Z.leb_le in P1, P2, P3. apply Z.ltb_lt in Pb.
    unfold peer_idle_view in Pv. unfold idle_deadline, client_idle.
    unfold adv_idle_fin in Hi.
    assert (G : d < (if 0 <? pidle then Z.min (l_idle (e_enf e)) pidle else l_idle (e_enf e))).
    { destruct (Z.ltb_spec 0 (l_idle (e_adv e))) as [A|A]; cbn [andb] in Hi.
      - destruct (Z.ltb_spec (l_idle (e_adv e)) noIdleNs);
          destruct (Z.ltb_spec 0 pidle); apply Z.ltb_lt in Pv; lia.
      - destruct (Z.ltb_spec 0 pidle); [apply Z.ltb_lt in Pv|]; lia. }
    destruct (Z.leb_spec (Z.max (if 0 <? pidle then Z.min (l_idle (e_enf e)) pidle else l_idle (e_enf e)) pto3) d); [lia|].
    eexists. split; [reflexivity | exact I].
Qed.

Lemma run_safe e : static_ok e -> forall h s, inv s -> forall c, run e s h <> Err c.
Proof.
  intros S h. induction h as [|x t IH]; intros s I c; simpl; [discriminate|].
  destruct (peer_ok e s x) eqn:P; [|discriminate].
  destruct (step_safe e s x I S P) as (s' & -> & I'). apply IH. exact I'.
Qed.

Lemma covers_safe adv enf : covers adv enf -> forall h c, play adv enf h <> Err c.
Proof.
  intros C h c. unfold play. apply run_safe.
  - unfold static_ok. simpl. split; [apply covers_counters, C|]. unfold covers in C. tauto.
  - apply inv_init, covers_counters, C.
Qed.

(** * Completeness: every uncovered limit has a conformant history that ends in an error *)

Definition enf_sane (enf : limits) : Prop :=
  0 <= l_max_data enf /\ 0 <= l_sd_bl enf /\ 0 <= l_sd_br enf /\ 0 <= l_sd_uni enf /\
  0 <= l_s_bidi enf /\ 0 <= l_s_uni enf /\ 0 <= l_cid enf /\ 0 <= l_dgram enf /\ 0 < l_idle enf.

Ltac zb :=
  repeat match goal with
  | |- context [?a <=? ?b] =>
    first [ rewrite (proj2 (Z.leb_le a b)) by lia | rewrite (proj2 (Z.leb_gt a b)) by lia ]
  | |- context [?a <? ?b] =>
    first [ rewrite (proj2 (Z.ltb_lt a b)) by lia | rewrite (proj2 (Z.ltb_ge a b)) by lia ]
  | |- context [?a =? ?b] =>
    first [ rewrite (proj2 (Z.eqb_eq a b)) by lia | rewrite (proj2 (Z.eqb_neq a b)) by lia ]
  end.

Ltac game1 :=
  unfold peer_ok, client_step, fits_peer, fits_client, implicit_open, sd_kind, cnt_kind, bump, upd, init;
  cbn -[Z.max Z.min Z.leb Z.ltb Z.eqb Z.gtb Z.add Z.sub]; zb;
  cbn -[Z.max Z.min Z.leb Z.ltb Z.eqb Z.gtb Z.add Z.sub].
Ltac game := unfold play; cbn [run]; repeat (progress game1).

Lemma wit_conn adv enf : 0 <= l_max_data enf -> l_max_data enf < l_max_data adv ->
  play adv enf [EvGrant KSD0 (l_max_data adv); EvData 0 (l_max_data adv)] = Err FlowControlError.
Proof. intros H0 H. game. reflexivity. Qed.

Lemma wit_sd0 adv enf : 0 <= l_sd_bl enf -> l_sd_bl enf < l_sd_bl adv ->
  play adv enf [EvGrant KConn (l_sd_bl adv); EvData 0 (l_sd_bl adv)] = Err FlowControlError.
Proof. intros H0 H. game. reflexivity. Qed.

Lemma wit_sd1 adv enf : 0 <= l_sd_br enf -> l_sd_br enf < l_sd_br adv ->
  play adv enf [EvGrant KConn (l_sd_br adv); EvGrant KSB 1; EvData 1 (l_sd_br adv)] = Err FlowControlError.
Proof. intros H0 H. game. reflexivity. Qed.

Lemma wit_sd2 adv enf : 0 <= l_sd_uni enf -> l_sd_uni enf < l_sd_uni adv ->
  play adv enf [EvGrant KConn (l_sd_uni adv); EvGrant KSU 1; EvData 2 (l_sd_uni adv)] = Err FlowControlError.
Proof. intros H0 H. game. reflexivity. Qed.

Lemma wit_sb adv enf : 0 <= l_s_bidi enf -> l_s_bidi enf < l_s_bidi adv ->
  play adv enf [EvOpen 1 (l_s_bidi adv)] = Err StreamLimitError.
Proof. intros H0 H. game. reflexivity. Qed.

Lemma wit_su adv enf : 0 <= l_s_uni enf -> l_s_uni enf < l_s_uni adv ->
  play adv enf [EvOpen 2 (l_s_uni adv)] = Err StreamLimitError.
Proof. intros H0 H. game. reflexivity. Qed.

Lemma wit_cid adv enf : 0 <= l_cid enf -> l_cid enf < l_cid adv ->
  play adv enf [EvCID (l_cid adv - 1)] = Err ConnectionIDLimitError.
Proof. intros H0 H. game. reflexivity. Qed.

Lemma wit_dgram adv enf : 0 <= l_dgram enf -> l_dgram enf < dgram_cap adv ->
  exists c, play adv enf [EvDgram (dgram_cap adv)] = Err c.
Proof.
  intros H0 H. unfold play. cbn -[Z.leb Z.ltb Z.eqb Z.gtb dgram_cap].
  rewrite (proj2 (Z.leb_le 1 (dgram_cap adv))) by lia. rewrite Z.leb_refl. cbn -[Z.leb Z.ltb Z.eqb Z.gtb dgram_cap].
  destruct (l_dgram enf =? 0); [eexists; reflexivity|].
  rewrite Z.gtb_ltb. rewrite (proj2 (Z.ltb_lt _ _) H). eexists; reflexivity.
Qed.

Lemma wit_idle adv enf : 0 < l_idle enf < noIdleNs -> (l_idle adv <= 0 \/ l_idle enf < l_idle adv) ->
  play adv enf [EvSilence (l_idle enf) 0 0] = Err IdleTimeout.
Proof.
  intros H0 H. unfold play. cbn [run]. unfold peer_ok, client_step, peer_idle_view, idle_deadline, client_idle.
  cbn [e_adv e_enf]. zb. cbn [andb].
  destruct (Z.ltb_spec 0 (l_idle adv)).
  - zb. reflexivity.
  - zb. reflexivity.
Qed.

Lemma safe_covers adv enf : enf_sane enf ->
  (forall h c, play adv enf h <> Err c) -> covers adv enf.
Proof.
  intros (S1 & S2 & S3 & S4 & S5 & S6 & S7 & S8 & S9) N. unfold covers.
  repeat split.
  - destruct (Z_le_gt_dec (l_max_data adv) (l_max_data enf)); [assumption|]. exfalso. eapply N, wit_conn; lia.
  - destruct (Z_le_gt_dec (l_sd_bl adv) (l_sd_bl enf)); [assumption|]. exfalso. eapply N, wit_sd0; lia.
  - destruct (Z_le_gt_dec (l_sd_br adv) (l_sd_br enf)); [assumption|]. exfalso. eapply N, wit_sd1; lia.
  - destruct (Z_le_gt_dec (l_sd_uni adv) (l_sd_uni enf)); [assumption|]. exfalso. eapply N, wit_sd2; lia.
  - destruct (Z_le_gt_dec (l_s_bidi adv) (l_s_bidi enf)); [assumption|]. exfalso. eapply N, wit_sb; lia.
  - destruct (Z_le_gt_dec (l_s_uni adv) (l_s_uni enf)); [assumption|]. exfalso. eapply N, wit_su; lia.
  - destruct (Z_le_gt_dec (l_cid adv) (l_cid enf)); [assumption|]. exfalso. eapply N, wit_cid; lia.
  - destruct (Z_le_gt_dec (dgram_cap adv) (l_dgram enf)); [assumption|]. exfalso.
    destruct (wit_dgram adv enf S8) as [c Hc]; [lia|]. eapply N, Hc.
  - unfold adv_idle_fin.
    destruct (Z.ltb_spec 0 (l_idle adv)); destruct (Z.ltb_spec (l_idle adv) noIdleNs); cbn [andb].
    + destruct (Z_le_gt_dec (l_idle adv) (l_idle enf)); [assumption|]. exfalso. eapply N, wit_idle; [lia | right; lia].
    + destruct (Z_le_gt_dec noIdleNs (l_idle enf)); [assumption|]. exfalso. eapply N, wit_idle; [lia | right; lia].
    + destruct (Z_le_gt_dec noIdleNs (l_idle enf)); [assumption|]. exfalso. eapply N, wit_idle; [lia | left; lia].
    + destruct (Z_le_gt_dec noIdleNs (l_idle enf)); [assumption|]. exfalso. eapply N, wit_idle; [lia | left; lia].
Qed.

Theorem no_error_iff adv enf : enf_sane enf ->
  (forall h c, play adv enf h <> Err c) <-> covers adv enf.
Proof. intros S. split; [apply safe_covers, S | apply covers_safe]. Qed.

(** [coversb] decides [covers] *)
Lemma coversb_spec adv enf : covers adv enf <-> forallb (fun b => b) (coversb adv enf) = true.
Proof.
  unfold covers, coversb. simpl. rewrite !andb_true_iff, !Z.leb_le.
  destruct (adv_idle_fin (l_idle adv)); rewrite Z.leb_le; tauto.
Qed.

(** * The enforced side in terms of Config and constants *)

Lemma enforced_sane c :
  0 <= c_isw c -> 0 <= c_icw c -> 0 <= c_mis c -> 0 <= c_mius c -> 0 < c_idle c -> enf_sane (enforced c).
Proof.
  intros. unfold enf_sane, enforced. simpl. unfold protoMaxActiveConnectionIDs, wireMaxDatagramSize.
  destruct (c_dg c); lia.
Qed.

Definition raw_sane (r : config) : Prop :=
  0 <= c_isw r /\ 0 <= c_msw r /\ 0 <= c_icw r /\ 0 <= c_mcw r /\ 0 <= c_idle r.

Lemma dflt_pos v d : 0 <= v -> 0 < d -> 0 < dflt v d.
Proof. unfold dflt. intros. destruct (Z.eqb_spec v 0); lia. Qed.

Lemma dflt_count_nonneg v d : 0 <= d -> 0 <= dflt_count v d.
Proof. unfold dflt_count. intros. destruct (Z.eqb_spec v 0); [lia|]. destruct (Z.ltb_spec v 0); lia. Qed.

Lemma populate_sane r : raw_sane r ->
  let c := populate r in 0 < c_isw c /\ 0 < c_icw c /\ 0 <= c_mis c /\ 0 <= c_mius c /\ 0 < c_idle c.
Proof.
  intros (H1 & H2 & H3 & H4 & H5). unfold populate, populate_only, validate. cbn [c_isw c_icw c_mis c_mius c_idle].
  repeat split.
  - apply dflt_pos; [assumption | reflexivity].
  - apply dflt_pos; [assumption | reflexivity].
  - apply dflt_count_nonneg. discriminate.
  - apply dflt_count_nonneg. discriminate.
  - apply dflt_pos; [assumption | reflexivity].
Qed.

Lemma populated_enforced_sane r : raw_sane r -> enf_sane (enforced (populate r)).
Proof.
  intros H. destruct (populate_sane r H) as (A & B & C & D & E). apply enforced_sane; lia.
Qed.

(* the right-hand side spelled out: spec values against Config fields and constants *)
Lemma covers_enforced_explicit a c :
  covers a (enforced c) <->
  l_max_data a <= c_icw c /\
  l_sd_bl a <= c_isw c /\ l_sd_br a <= c_isw c /\ l_sd_uni a <= c_isw c /\
  l_s_bidi a <= c_mis c /\ l_s_uni a <= c_mius c /\
  l_cid a <= protoMaxActiveConnectionIDs /\
  Z.min (l_dgram a) (Z.min (l_udp a) protoMaxPacketBufferSize - minPacketOverhead) <= (if c_dg c then wireMaxDatagramSize else 0) /\
  (if adv_idle_fin (l_idle a) then l_idle a <= c_idle c else noIdleNs <= c_idle c).
Proof. unfold covers, enforced, dgram_cap. simpl. tauto. Qed.

(** * The plain client advertises what it enforces *)

Lemma plain_covers c : nsPerMs <= c_idle c -> covers (plain_advertised c) (enforced c).
Proof.
  intros H. unfold nsPerMs in H.
  assert (A : 1 <= c_idle c / 1000000) by (apply Z.div_le_lower_bound; lia).
  pose proof (Z.mul_div_le (c_idle c) 1000000 eq_refl) as B.
  unfold covers, plain_advertised, enforced, dgram_cap, nsPerMs, adv_idle_fin.
  cbn [l_max_data l_sd_bl l_sd_br l_sd_uni l_s_bidi l_s_uni l_cid l_dgram l_idle l_udp].
  repeat split; try apply Z.le_refl.
  - apply Z.le_min_l.
  - destruct (Z.ltb_spec 0 (c_idle c / 1000000 * 1000000)); [|lia].
    destruct (Z.ltb_spec (c_idle c / 1000000 * 1000000) noIdleNs); cbn [andb]; lia.
Qed.

(** * The spec-driven client covers what its spec advertises, whatever the Config *)

(* the only demand on the parameter list: stream counts within the protocol maximum (a larger value is
   a TRANSPORT_PARAMETER_ERROR at the peer anyway). Whether and what idle timeout is advertised does
   not matter any more: without one the client has none of its own. *)
Definition spec_valid (a : limits) : Prop :=
  l_s_bidi a <= protoMaxStreamCount /\ l_s_uni a <= protoMaxStreamCount.

Lemma spec_covers a c : spec_valid a -> covers a (enforced_spec a c).
Proof.
  intros (Hb & Hu). unfold covers, enforced_spec, enforced, cover_config, dgram_cap.
  cbn [l_max_data l_sd_bl l_sd_br l_sd_uni l_s_bidi l_s_uni l_cid l_dgram l_idle l_udp
       c_isw c_msw c_icw c_mcw c_mis c_mius c_dg c_idle].
  unfold protoMaxStreamCount in *.
  repeat split; try lia.
  - unfold protoMaxPacketBufferSize, minPacketOverhead, wireMaxDatagramSize.
    destruct (c_dg c); cbn [orb]; [lia|].
    destruct (Z.ltb_spec 0 (l_dgram a)); lia.
  - unfold adv_idle_fin.
    destruct (Z.ltb_spec 0 (l_idle a)); cbn [andb]; [|lia].
    destruct (Z.ltb_spec (l_idle a) noIdleNs);
      destruct (Z.leb_spec (l_idle a / nsPerMs) (noIdleNs / nsPerMs)); try lia;
      exfalso; assert (l_idle a / nsPerMs <= noIdleNs / nsPerMs) by (apply Z.div_le_mono; [reflexivity | lia]); lia.
Qed.

Lemma spec_client_ok a c : spec_valid a -> forall h code, play a (enforced_spec a c) h <> Err code.
Proof. intros V. apply covers_safe, spec_covers, V. Qed.

(* Regression: the shape before this repair -- a list without max_idle_timeout, the client still giving
   up after Config.MaxIdleTimeout ([enforced] alone, no "no idle timeout" value) -- was refuted *)
Lemma idle_not_advertised_old_shape_refuted a (c : config) : l_idle a <= 0 -> 0 < c_idle c < noIdleNs ->
  play a (enforced c) [EvSilence (c_idle c) 0 0] = Err IdleTimeout.
Proof. intros H0 Hc. apply (wit_idle a (enforced c)); [exact Hc | left; exact H0]. Qed.

(* now: whatever the Config, such a list is covered; the client's idle timeout is the peer's or none *)
Lemma idle_not_advertised_ok a c : l_idle a <= 0 -> noIdleNs <= l_idle (enforced_spec a c).
Proof.
  intros H0. unfold enforced_spec, enforced, cover_config. cbn [l_idle c_idle].
  destruct (Z.ltb_spec 0 (l_idle a)); lia.
Qed.

(** * Transport parameter encoding: a peer parsing the bytes gets the list back *)

Definition wf_param (p : tparam) : Prop := vwf (fst p) /\ vwf (zlen (snd p)).

Lemma vappend_nonempty v : vwf v -> vappend v <> [].
Proof.
  intros H E. pose proof (vappend_length v H) as L. rewrite E in L. simpl in L.
  destruct (vlen_cases v H) as [X|[X|[X|X]]]; lia.
Qed.

Lemma firstn_app_exact {A} (a b : list A) : firstn (length a) (a ++ b) = a.
Proof. induction a; simpl; [destruct b; reflexivity | f_equal; assumption]. Qed.

Lemma skipn_app_exact {A} (a b : list A) : skipn (length a) (a ++ b) = b.
Proof. induction a; simpl; [reflexivity | assumption]. Qed.

Lemma parse_fuel_marshal ps : Forall wf_param ps ->
  forall fuel, (length ps < fuel)%nat -> parse_fuel fuel (marshal ps) = Some ps.
Proof.
  induction 1 as [|p ps [Hid Hlen] _ IH]; intros fuel F.
  - destruct fuel; [lia|]. reflexivity.
  - destruct fuel as [|f]; [simpl in F; lia|].
    destruct p as [id b]. simpl in Hid, Hlen.
    change (marshal ((id, b) :: ps)) with ((vappend id ++ vappend (zlen b) ++ b) ++ marshal ps).
    rewrite <- !app_assoc.
    cbn [parse_fuel].
    destruct (vappend id ++ vappend (zlen b) ++ b ++ marshal ps) eqn:E.
    { exfalso. apply app_eq_nil in E as [E _]. exact (vappend_nonempty id Hid E). }
    rewrite <- E. rewrite (vparse_vappend id _ Hid). rewrite (vparse_vappend (zlen b) _ Hlen).
    assert (L : zlen b <=? zlen (b ++ marshal ps) = true).
    { apply Z.leb_le. unfold zlen. rewrite app_length. lia. }
    rewrite L. unfold zlen at 1 2. rewrite Nat2Z.id.
    rewrite skipn_app_exact, firstn_app_exact. rewrite IH by (simpl in F; lia). reflexivity.
Qed.

Lemma marshal1_length p : wf_param p -> (2 <= length (marshal1 p))%nat.
Proof.
  intros [H1 H2]. unfold marshal1. rewrite !app_length.
  pose proof (vappend_length _ H1). pose proof (vappend_length _ H2).
  destruct (vlen_cases _ H1) as [X|[X|[X|X]]], (vlen_cases _ H2) as [Y|[Y|[Y|Y]]]; lia.
Qed.

Lemma marshal_length ps : Forall wf_param ps -> (length ps <= length (marshal ps))%nat.
Proof.
  induction 1 as [|p ps Hp _ IH]; [simpl; lia|].
  change (marshal (p :: ps)) with (marshal1 p ++ marshal ps). rewrite app_length.
  pose proof (marshal1_length p Hp). simpl. lia.
Qed.

Theorem parse_marshal ps : Forall wf_param ps -> parse (marshal ps) = Some ps.
Proof.
  intros H. unfold parse. apply parse_fuel_marshal; [exact H|].
  pose proof (marshal_length ps H). lia.
Qed.

(** * The record and the wire: two marshalings of the same list may differ only in
      version_information (utls draws its GREASE version at every Value() call) *)

(* [redraw o ps]: the list with the version_information values replaced by an oracle's draw *)
Definition redraw (o : Z -> list Z -> list Z) (ps : list tparam) : list tparam :=
  map (fun p => if is_vi (fst p) then (fst p, o (fst p) (snd p)) else p) ps.

Lemma is_vi_not_known id : is_vi id = true -> known_id id = false.
Proof.
  unfold is_vi, known_id, tpMaxIdleTimeout, tpMaxUDPPayloadSize, tpInitialMaxData, tpInitialMaxStreamDataBidiLocal,
    tpInitialMaxStreamDataBidiRemote, tpInitialMaxStreamDataUni, tpInitialMaxStreamsBidi, tpInitialMaxStreamsUni,
    tpActiveConnectionIDLimit, tpMaxDatagramFrameSize, tpAckDelayExponent, tpMaxAckDelay.
  intros H. apply orb_prop in H as [H|H]; apply Z.eqb_eq in H; subst; reflexivity.
Qed.

Lemma kv_of_redraw o ps : kv_of (redraw o ps) = kv_of ps.
Proof.
  induction ps as [|[id b] t IH]; [reflexivity|].
  simpl. destruct (is_vi id) eqn:V.
  - simpl. rewrite (is_vi_not_known id V). exact IH.
  - simpl. rewrite IH. reflexivity.
Qed.

Lemma wf_redraw o ps : (forall id b, vwf (zlen (o id b))) -> Forall wf_param ps -> Forall wf_param (redraw o ps).
Proof.
  intros Ho H. induction H as [|[id b] t [H1 H2] _ IH]; [constructor|].
  simpl. constructor; [|exact IH]. destruct (is_vi id); split; simpl; auto.
Qed.

(* The old shape of newUClientConnection: ClientOverride = a marshaling of its own
   (PopulateFromUQUIC), the ClientHello extension = another one (uTLS): two draws. *)
Definition override_bytes_old (o : Z -> list Z -> list Z) (ps : list tparam) : list Z := marshal (redraw o ps).
Definition wire_bytes (o : Z -> list Z -> list Z) (ps : list tparam) : list Z := marshal (redraw o ps).
(* The repaired shape: the record is taken from the extension's own (cached) encoding, the
   byte string uTLS then writes into the ClientHello: one draw [o]. *)
Definition override_bytes (o : Z -> list Z -> list Z) (ps : list tparam) : list Z := wire_bytes o ps.

(* by construction of the model (it mirrors the repaired code, which takes ClientOverride from the
   extension's cached encoding); the check that the code does so is the correspondence (o_override_ok) *)
Theorem record_bytes_are_wire_bytes_by_construction o ps : override_bytes o ps = wire_bytes o ps.
Proof. reflexivity. Qed.



Theorem record_equals_wire_limits o ps :
  (forall id b, vwf (zlen (o id b))) -> Forall wf_param ps ->
  exists l,
    parse (override_bytes o ps) = Some l /\ parse (wire_bytes o ps) = Some l /\
    recorded (kv_of l) = recorded (kv_of ps) /\ advertised (kv_of l) = advertised (kv_of ps).
Proof.
  intros H W. exists (redraw o ps). unfold override_bytes, wire_bytes.
  rewrite (parse_marshal _ (wf_redraw o ps H W)). rewrite !kv_of_redraw. repeat split; reflexivity.
Qed.

(** * The record is what a peer reads from the bytes sent, field by field *)

Lemma known_not_dam id : known_id id = true -> (id =? tpDisableActiveMigration) = false.
Proof.
  unfold known_id, tpMaxIdleTimeout, tpMaxUDPPayloadSize, tpInitialMaxData, tpInitialMaxStreamDataBidiLocal,
    tpInitialMaxStreamDataBidiRemote, tpInitialMaxStreamDataUni, tpInitialMaxStreamsBidi, tpInitialMaxStreamsUni,
    tpActiveConnectionIDLimit, tpMaxDatagramFrameSize, tpAckDelayExponent, tpMaxAckDelay, tpDisableActiveMigration.
  intros H. destruct (Z.eqb_spec id 12) as [->|]; [discriminate | reflexivity].
Qed.

Lemma record_fold ps : forall l x d,
  fold_left rec_step ps (l, x, d) =
  (fold_left set_adv (kv_of ps) l, fold_left set_extra (kv_of ps) x, if existsb is_dam ps then 1 else d).
Proof.
  induction ps as [|[id b] t IH]; intros l x d; [reflexivity|].
  cbn [fold_left existsb]. unfold rec_step at 2. cbn [fst snd kv_of].
  destruct (known_id id) eqn:K.
  - assert (D : is_dam (id, b) = false) by (unfold is_dam; cbn [fst]; apply known_not_dam, K).
    rewrite D. cbn [orb].
    destruct (vparse b) as [e | [[v n] r]]; [apply IH|].
    destruct r; [|apply IH]. cbn [fold_left]. apply IH.
  - destruct (is_dam (id, b)); cbn [orb].
    + rewrite IH. destruct (existsb is_dam t); reflexivity.
    + apply IH.
Qed.

Theorem record_is_reading ps : record_of ps = read_list ps.
Proof. unfold record_of, read_list, advertised. apply record_fold. Qed.

Lemma existsb_dam_redraw o ps : existsb is_dam (redraw o ps) = existsb is_dam ps.
Proof.
  induction ps as [|[id b] t IH]; [reflexivity|]. cbn [redraw map existsb fst snd].
  rewrite <- IH. unfold redraw. f_equal. unfold is_dam. destruct (is_vi id); reflexivity.
Qed.

Lemma read_list_redraw o ps : read_list (redraw o ps) = read_list ps.
Proof. unfold read_list. rewrite kv_of_redraw, existsb_dam_redraw. reflexivity. Qed.

(* The record (what PopulateFromUQUIC stores, field by field, from the typed list) is what a peer
   reads from the bytes that go on the wire -- for every well-formed list, whatever GREASE version the
   marshaling draws *)
Theorem record_equals_wire_fields o ps :
  (forall id b, vwf (zlen (o id b))) -> Forall wf_param ps ->
  read_wire (wire_bytes o ps) = Some (record_of ps).
Proof.
  intros Ho W. unfold read_wire, wire_bytes.
  rewrite (parse_marshal _ (wf_redraw o ps Ho W)). rewrite read_list_redraw, record_is_reading. reflexivity.
Qed.


(** * After any history of grants, what the client enforces is what it last advertised *)

(* a step changes the enforced window and the peer's credit of a counter only by a grant on it *)
Lemma client_step_windows e s x s1 o : client_step e s x = (s1, o) ->
  forall k,
    (exists w, x = EvGrant k w /\ rw (s1 k) = Z.max (rw (s k)) w /\ cr (s1 k) = Z.max (cr (s k)) w) \/
    ((forall w, x <> EvGrant k w) /\ rw (s1 k) = rw (s k) /\ cr (s1 k) = cr (s k)).
Proof.
  intros H k.
  assert (B : forall (t : state) k0 n, rw (bump t k0 n k) = rw (t k) /\ cr (bump t k0 n k) = cr (t k)).
  { intros t k0 n. unfold bump, upd. destruct (kind_eqb k0 k) eqn:E; [apply kind_eqb_eq in E; subst|]; simpl; auto. }
  destruct x as [ty n | ty n | n | j | ty m n | len | k0 w | | d pidle pto3]; cbn [client_step] in H.
  - right. split; [discriminate|].
    destruct ((ty =? 0) || fits_client s (cnt_kind ty) (implicit_open s ty)); cbn [negb orb] in H; [|inversion H; subst; auto].
    set (t := if ty =? 0 then s else bump s (cnt_kind ty) (implicit_open s ty)) in *.
    assert (T : rw (t k) = rw (s k) /\ cr (t k) = cr (s k)).
    { unfold t. destruct (ty =? 0); [auto | apply B]. }
    destruct (fits_client t (sd_kind ty) n); cbn [negb orb] in H; [|inversion H; subst; exact T].
    destruct (fits_client t KConn n); cbn [negb orb] in H; inversion H; subst; [|exact T].
    destruct (B (bump t (sd_kind ty) n) KConn n) as [B1 B2]. destruct (B t (sd_kind ty) n) as [B3 B4].
    destruct T. split; congruence.
  - right. split; [discriminate|]. destruct (fits_client s (cnt_kind ty) n); cbn [negb orb] in H; inversion H; subst; auto; try apply B.
  - right. split; [discriminate|]. destruct (fits_client s KCID n); cbn [negb orb] in H; inversion H; subst; auto; try apply B.
  - right. split; [discriminate|]. destruct (fits_client s KCID (1 - j)); cbn [negb orb] in H; inversion H; subst; auto; try apply B.
  - right. split; [discriminate|].
    destruct (fits_client s (cnt_kind ty) m); cbn [negb orb] in H; [|inversion H; subst; auto].
    destruct (lim_of (e_enf e) (sd_kind (if ty =? 1 then 1 else 2)) <? n); [inversion H; subst; auto|].
    destruct (fits_client s KConn (m * n)); cbn [negb orb] in H; inversion H; subst; auto.
    destruct (B (bump s (cnt_kind ty) m) KConn (m * n)) as [B1 B2]. destruct (B s (cnt_kind ty) m) as [B3 B4].
    split; congruence.
  - right. split; [discriminate|].
    destruct (l_dgram (e_enf e) =? 0); [inversion H; subst; auto|].
    destruct (len >? l_dgram (e_enf e)); inversion H; subst; auto.
  - inversion H; subst. unfold upd. destruct (kind_eqb k0 k) eqn:E.
    + apply kind_eqb_eq in E. subst. left. exists w. simpl. auto.
    + right. split; [|auto]. intros w' Q. inversion Q; subst. rewrite kind_eqb_refl in E. discriminate.
  - right. split; [discriminate|]. inversion H; subst. destruct (1 <? used (s KCID)); auto; try apply B.
  - right. split; [discriminate|].
    destruct (idle_deadline (l_idle (e_enf e)) pidle pto3 <=? d); inversion H; subst; auto.
Qed.

Lemma client_step_inv e s x s1 o : client_step e s x = (s1, o) -> inv s -> inv s1.
Proof.
  intros H I k. destruct (client_step_windows e s x s1 o H k) as [(w & _ & -> & ->) | (_ & -> & ->)];
    specialize (I k); lia.
Qed.

Theorem grants_sync e : forall h s s', inv s -> run_st e s h = Some s' ->
  forall k,
    match last_grant k h with
    | Some w => rw (s' k) = w /\ cr (s' k) = w
    | None => rw (s' k) = rw (s k) /\ cr (s' k) = cr (s k)
    end.
Proof.
  induction h as [|x t IH]; intros s s' I R k; simpl in R |- *.
  - inversion R. auto.
  - destruct (peer_ok e s x && grant_increasing s x) eqn:G; [|discriminate].
    apply andb_prop in G as [_ G].
    destruct (client_step e s x) as [s1 [c|]] eqn:C; [discriminate|].
    pose proof (client_step_inv _ _ _ _ _ C I) as I1.
    specialize (IH s1 s' I1 R k).
    destruct (last_grant k t) as [w|]; [exact IH|].
    destruct IH as [-> ->].
    destruct (client_step_windows _ _ _ _ _ C k) as [(w & -> & Hr & Hc) | (N & Hr & Hc)].
    + rewrite kind_eqb_refl. simpl in G. apply Z.ltb_lt in G. specialize (I k). split; lia.
    + destruct x as [? ? | ? ? | ? | ? | ? ? ? | ? | k0 w | | ? ? ?]; auto.
      destruct (kind_eqb k0 k) eqn:E; [|auto]. apply kind_eqb_eq in E. subst. exfalso. exact (N w eq_refl).
Qed.

(* in particular, with [inv] (enforced >= advertised) at the start, enforced = advertised for a
   counter from its first grant on, and everywhere if they were equal at the start *)
Corollary grants_keep_equal e h s s' :
  (forall k, rw (s k) = cr (s k)) -> run_st e s h = Some s' -> forall k, rw (s' k) = cr (s' k).
Proof.
  intros E R k. assert (I : inv s) by (intros j; rewrite E; lia).
  pose proof (grants_sync e h s s' I R k) as G. destruct (last_grant k h); destruct G as [-> ->]; auto.
Qed.

(** the windows the client enforces and the credit the peer may rely on never decrease: a peer
    may keep relying on max(advertised initial value, every MAX_* frame seen), and a covered
    client keeps enforcing at least that *)
Lemma client_step_monotone e s x s1 o : client_step e s x = (s1, o) ->
  forall k, rw (s k) <= rw (s1 k) /\ cr (s k) <= cr (s1 k).
Proof.
  intros H k. destruct (client_step_windows e s x s1 o H k) as [(w & _ & -> & ->) | (_ & -> & ->)]; lia.
Qed.

Theorem limits_never_decrease e : forall h s s', inv s -> run_st e s h = Some s' ->
  forall k, cr (s k) <= cr (s' k) /\ rw (s k) <= rw (s' k) /\ cr (s' k) <= rw (s' k).
Proof.
  induction h as [|x t IH]; intros s s' I R k; simpl in R.
  - inversion R; subst. specialize (I k). lia.
  - destruct (peer_ok e s x && grant_increasing s x); [|discriminate].
    destruct (client_step e s x) as [s1 [c|]] eqn:C; [discriminate|].
    pose proof (client_step_inv _ _ _ _ _ C I) as I1.
    destruct (client_step_monotone _ _ _ _ _ C k) as [M1 M2].
    destruct (IH s1 s' I1 R k) as (A & B & D). lia.
Qed.

(** * DATAGRAM frames: both encodings are judged by their total size; the sending side *)

Lemma dgram_enc_client e s hl p :
  client_step e s (EvDgramEnc hl p) =
    (s, if l_dgram (e_enf e) =? 0 then Some FrameEncodingError
        else if l_dgram (e_enf e) <? dgram_frame_size hl p then Some ProtocolViolation else None).
Proof.
  unfold EvDgramEnc. cbn [client_step]. destruct (l_dgram (e_enf e) =? 0); [reflexivity|].
  rewrite Z.gtb_ltb. destruct (l_dgram (e_enf e) <? dgram_frame_size hl p); reflexivity.
Qed.

Theorem dgram_accept_iff e s hl p :
  snd (client_step e s (EvDgramEnc hl p)) = None <->
  l_dgram (e_enf e) <> 0 /\ dgram_frame_size hl p <= l_dgram (e_enf e).
Proof.
  rewrite dgram_enc_client. cbn [snd].
  destruct (Z.eqb_spec (l_dgram (e_enf e)) 0) as [E|E].
  - split; [discriminate | intros [H _]; contradiction].
  - destruct (Z.ltb_spec (l_dgram (e_enf e)) (dgram_frame_size hl p)) as [L|L]; split; intros Q; try discriminate; auto.
    destruct Q. lia.
Qed.

Lemma dgram_enc_peer_ok e s hl p :
  peer_ok e s (EvDgramEnc hl p) = (1 <=? dgram_frame_size hl p) && (dgram_frame_size hl p <=? dgram_cap (e_adv e)).
Proof. reflexivity. Qed.

Lemma vlen_le_8 v : vlen v <= 8.
Proof. unfold vlen. repeat match goal with |- context [if ?c then _ else _] => destruct c end; lia. Qed.

Lemma vlen_ge_1 v : 0 <= v <= maxVarInt8 -> 1 <= vlen v.
Proof. intros H. destruct (vlen_cases v H) as [X|[X|[X|X]]]; lia. Qed.

Lemma vlen_mono a b : 0 <= a <= b -> b <= maxVarInt8 -> vlen a <= vlen b.
Proof.
  unfold vlen, maxVarInt1, maxVarInt2, maxVarInt4, maxVarInt8. intros H Hb.
  destruct (Z.leb_spec a 63), (Z.leb_spec b 63), (Z.leb_spec a 16383), (Z.leb_spec b 16383),
    (Z.leb_spec a 1073741823), (Z.leb_spec b 1073741823), (Z.leb_spec a 4611686018427387903),
    (Z.leb_spec b 4611686018427387903); lia.
Qed.

(* the loop ends on a length that fits (or 0) ... *)
Lemma shrink_loop_fits space : forall fuel d, 0 <= d <= space -> 7 <= space - d + Z.of_nat fuel ->
  let r := shrink_loop fuel space d in 0 <= r <= d /\ (r = 0 \/ vlen r - 1 + r <= space).
Proof.
  induction fuel as [|f IH]; intros d Hd Hf; cbn [shrink_loop].
  - split; [lia|]. right. pose proof (vlen_le_8 d). lia.
  - destruct (Z.ltb_spec 0 d); cbn [andb].
    + destruct (Z.ltb_spec space (vlen d - 1 + d)).
      * destruct (IH (d - 1)) as (A & B); [lia | lia |]. split; [lia | exact B].
      * split; [lia | right; lia].
    + split; [lia | left; lia].
Qed.

(* ... and on the largest such length *)
Lemma shrink_loop_max space p : 0 <= p -> vlen p - 1 + p <= space -> space <= maxVarInt8 ->
  forall fuel d, p <= d <= space -> p <= shrink_loop fuel space d.
Proof.
  intros Hp Hfit Hs. induction fuel as [|f IH]; intros d Hd; cbn [shrink_loop]; [lia|].
  destruct (Z.ltb_spec 0 d); cbn [andb]; [|lia].
  destruct (Z.ltb_spec space (vlen d - 1 + d)); [|lia].
  apply IH. assert (p <> d) by (intros ->; lia). lia.
Qed.

(* SendDatagram accepts a payload iff the frame it makes (type 0x31, with length field) is within the
   peer's max_datagram_frame_size (and the payload within the MTU estimate) *)
Theorem send_datagram_iff mdfs mtu p : 0 <= p -> 2 <= mdfs <= maxVarInt8 ->
  send_datagram_ok mdfs mtu p = true <-> (dgram_frame_size true p <= mdfs /\ p <= mtu).
Proof.
  intros Hp Hm. unfold send_datagram_ok, send_datagram_max, dgram_max_data_len, dgram_frame_size.
  rewrite (proj2 (Z.ltb_lt 0 mdfs)) by lia. cbn [andb]. rewrite Z.leb_le.
  rewrite (proj2 (Z.ltb_ge mdfs 2)) by lia.
  unfold shrink_for_length_field.
  destruct (shrink_loop_fits (mdfs - 2) 8 (mdfs - 2)) as ((R0 & R1) & R2); [lia | simpl; lia |].
  split; intros H0.
  - assert (Hle : p <= shrink_loop 8 (mdfs - 2) (mdfs - 2)) by lia.
    split; [|lia].
    destruct R2 as [R2|R2]; [assert (p = 0) by lia; subst; unfold vlen, maxVarInt1; simpl; lia|].
    pose proof (vlen_mono p (shrink_loop 8 (mdfs - 2) (mdfs - 2))). lia.
  - destruct H0 as [H1 H2]. apply Z.min_glb; [|exact H2].
    destruct (Z_le_gt_dec p maxVarInt8) as [Q|Q].
    + pose proof (vlen_ge_1 p). apply shrink_loop_max; lia.
    + exfalso. unfold vlen in H1. unfold maxVarInt1, maxVarInt2, maxVarInt4, maxVarInt8 in *.
      destruct (Z.leb_spec p 63), (Z.leb_spec p 16383), (Z.leb_spec p 1073741823), (Z.leb_spec p 4611686018427387903); lia.
Qed.

(* the corner the theorem excludes: a peer advertising max_datagram_frame_size = 1 (room for the type
   byte only) is sent the empty datagram as a 2-byte frame (type 0x31 + length 0) *)
Lemma send_datagram_mdfs1_corner : send_datagram_ok 1 1200 0 = true /\ dgram_frame_size true 0 = 2.
Proof. split; reflexivity. Qed.

(** * Every dial derives its own list from the spec's (untouched) list *)

Lemma fill_iscid_fst (scid : list Z) (q : tparam) :
  fst (if (fst q =? tpInitialSourceConnectionID) && (match snd q with [] => true | _ :: _ => false end)
       then (fst q, scid) else q) = fst q.
Proof. destruct ((fst q =? tpInitialSourceConnectionID) && _); reflexivity. Qed.

Lemma dial_list_not_suppressed sup scid ps p :
  In p (dial_list sup scid ps) -> suppressed sup (fst p) = false.
Proof.
  unfold dial_list, fill_iscid, suppress_list. intros H. apply in_map_iff in H as (q & E & I).
  apply filter_In in I as [_ N]. subst p. rewrite fill_iscid_fst. apply negb_true_iff. exact N.
Qed.

Lemma dial_list_own_scid sup scid ps :
  (forall q, In q ps -> fst q = tpInitialSourceConnectionID -> snd q = []) ->
  forall p, In p (dial_list sup scid ps) -> fst p = tpInitialSourceConnectionID -> snd p = scid.
Proof.
  unfold dial_list, fill_iscid, suppress_list. intros E p H F. apply in_map_iff in H as (q & Eq & I).
  apply filter_In in I as [I _]. subst p. rewrite fill_iscid_fst in F.
  rewrite F, Z.eqb_refl, (E q I F). reflexivity.
Qed.
