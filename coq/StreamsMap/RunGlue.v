(** Correspondence glue for unit streamsglue: packets of stream-related frames handled by a real
    Conn (connection.go handleFrames in front of the streams map), with or without a qlog tracer.
    The model's verdict for the frame sequence is the connection's close error: frames are handled
    in order by the StreamsMap model; the first error ends the packet (no later frame of the packet
    has any effect) and the connection. A tracer does not occur in the model: the verdict must not
    depend on it. *)
From Coq Require Import List ZArith Bool String.
From V Require Import Gen.Params Lib.Corr Lib.Hex.
From V Require Export StreamsMap.Model.
Import ListNotations.
Open Scope Z_scope.

Inductive gframe :=
| GStream (id : Z) | GResetStream (id : Z) | GStreamDataBlocked (id : Z)   (* getReceiveStream *)
| GStopSending (id : Z) | GMaxStreamData (id : Z)                            (* getSendStream *)
| GPing
| GMaxStreams (uni : bool) (n : Z).

Definition gframe_op (f : gframe) : option op :=
  match f with
  | GStream id | GResetStream id | GStreamDataBlocked id => Some (ORecv id)
  | GStopSending id | GMaxStreamData id => Some (OSend id)
  | GPing => None
  | GMaxStreams u n => Some (OMaxStreams u n)
  end.

(** handleFrames: None = no error, else the error class of the first failing frame *)
Fixpoint handle_packet (s : smap) (fs : list gframe) : smap * option Z :=
  match fs with
  | [] => (s, None)
  | f :: r =>
    match gframe_op f with
    | None => handle_packet s r
    | Some o =>
      let '(s', x, _) := tstep s o in
      match x with RErr e => (s', Some e) | _ => handle_packet s' r end
    end
  end.

(** packets until the first error (the connection is closed with it) *)
Fixpoint handle_conn (s : smap) (pkts : list (list gframe)) : smap * list Z :=
  match pkts with
  | [] => (s, [])
  | p :: r =>
    match handle_packet s p with
    | (s', None) => let '(s2, es) := handle_conn s' r in (s2, 0 :: es)
    | (s', Some e) => (s', [e])
    end
  end.

(** (nextStreamToAccept, nextStreamToOpen, maxStream, number of streams in the map) *)
Definition gsnap := (Z * Z * Z * Z)%type.
Definition gsnap_of (m : inmap) : gsnap :=
  (i_nextAccept m, i_nextOpen m, i_max m, Z.of_nat (List.length (i_streams m))).

Inductive case :=
| GlueCase (client tracer : bool) (maxBidi maxUni : Z) (pkts : list (list gframe))
           (verdicts : list Z) (ib iu : gsnap).

Inductive obs := GlueObs (verdicts : list Z) (ib iu : gsnap).

Definition model_obs (c : case) : obs :=
  match c with
  | GlueCase client _ mb mu pkts _ _ _ =>
    let '(s, es) := handle_conn (init_sm client mb mu) pkts in
    GlueObs es (gsnap_of (s_ib s)) (gsnap_of (s_iu s))
  end.

Fixpoint zlist_eqb (a b : list Z) : bool :=
  match a, b with [], [] => true | x :: r, y :: s => (x =? y) && zlist_eqb r s | _, _ => false end.
Definition gsnap_eqb (a b : gsnap) : bool :=
  let '(a1, a2, a3, a4) := a in let '(b1, b2, b3, b4) := b in
  (a1 =? b1) && (a2 =? b2) && (a3 =? b3) && (a4 =? b4).

Definition check_case (c : case) : bool :=
  match c, model_obs c with
  | GlueCase _ _ _ _ _ vs ib iu, GlueObs vs' ib' iu' =>
    zlist_eqb vs vs' && gsnap_eqb ib ib' && gsnap_eqb iu iu'
  end.
