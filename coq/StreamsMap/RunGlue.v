(** Correspondence glue for unit streamsglue: packets of stream-related frames handled by a real
    Conn (connection.go handleFrames in front of the streams map), with or without a qlog tracer.
    The model's verdict for the frame sequence is the connection's close error: frames are handled
    in order by the StreamsMap model; the first error ends the packet (no later frame of the packet
    has any effect) and the connection. The qlog tracer is a parameter of the model: it only matters
    when a malformed frame follows the failing one (the parser then goes on and its error wins). *)
From Coq Require Import List ZArith Bool String.
From V Require Import Gen.Params Lib.Corr Lib.Hex.
From V Require Export StreamsMap.Model.
Import ListNotations.
Open Scope Z_scope.

Inductive gframe :=
| GStream (id : Z) | GResetStream (id : Z) | GStreamDataBlocked (id : Z)   (* getReceiveStream *)
| GStopSending (id : Z) | GMaxStreamData (id : Z)                            (* getSendStream *)
| GPing
| GMaxStreams (uni : bool) (n : Z)
| GStreamFin (id : Z)                                                        (* STREAM with FIN *)
| GMalformed.                                                                (* unknown frame type: parse error *)

Definition gframe_op (f : gframe) : option op :=
  match f with
  | GStream id | GResetStream id | GStreamDataBlocked id | GStreamFin id => Some (ORecv id)
  | GStopSending id | GMaxStreamData id => Some (OSend id)
  | GPing | GMalformed => None
  | GMaxStreams u n => Some (OMaxStreams u n)
  end.

Definition ErrFrameEncoding : Z := 8.   (* FRAME_ENCODING_ERROR *)
Definition is_malformed (f : gframe) : bool := match f with GMalformed => true | _ => false end.

(** the frames that tell the final size of a stream *)
Definition gframe_final (f : gframe) : option Z :=
  match f with GStreamFin id | GResetStream id => Some id | _ => None end.

(** The connection's side of a stream's life (stream.go / receive_stream.go / send_stream.go as
    far as the streams map is concerned): the application abandons a stream it holds (CancelRead,
    CancelWrite, the RESET_STREAM gets acknowledged) - [g_cancel]; the peer's FIN or RESET_STREAM
    fixes the final size - [g_final]. A stream with a receive half is completed when both have
    happened, our own unidirectional stream when it is abandoned; at that moment, once,
    Conn.onStreamCompleted calls streamsMap.DeleteStream - [g_done]. *)
Record gstate := mkG {
  g_sm : smap;
  g_cancel : list Z;
  g_final : list Z;
  g_done : list Z;
  g_nextA : Z           (* fresh ids for AcceptStream calls *)
}.

Definition g_init (client : bool) (mb mu : Z) : gstate := mkG (init_sm client mb mu) [] [] [] 0.

Definition has_recv_half (s : smap) (id : Z) : bool := negb (id_is_uni id && by_self s id).

Definition maybe_complete (g : gstate) (id : Z) : gstate * list frame :=
  if zmem id (g_cancel g) && (negb (has_recv_half (g_sm g) id) || zmem id (g_final g)) && negb (zmem id (g_done g))
  then let '(s', _, fr) := tstep (g_sm g) (ODelete id) in
       (mkG s' (g_cancel g) (g_final g) (zadd id (g_done g)) (g_nextA g), fr)
  else (g, []).

(** handleFrames: None = no error, else the error class the packet fails with; the control frames
    queued meanwhile. A frame that cannot be parsed ends the packet with FRAME_ENCODING_ERROR. After a
    frame whose HANDLING failed no further frame is handled; without a qlog tracer the packet ends
    there with that error; with a tracer the rest of the packet is still parsed (to be logged), and
    a malformed frame in it makes the parser's error the packet's error. *)
Fixpoint handle_packet (tracer : bool) (g : gstate) (fs : list gframe) : gstate * option Z * list frame :=
  match fs with
  | [] => (g, None, [])
  | f :: r =>
    if is_malformed f then (g, Some ErrFrameEncoding, []) else
    match gframe_op f with
    | None => handle_packet tracer g r
    | Some o =>
      let '(s', x, fr1) := tstep (g_sm g) o in
      let g1 := mkG s' (g_cancel g) (g_final g) (g_done g) (g_nextA g) in
      match x with
      | RErr e => (g1, Some (if tracer && existsb is_malformed r then ErrFrameEncoding else e), fr1)
      | _ =>
        let '(g2, fr2) :=
          match x, gframe_final f with
          | RId _, Some id =>
            maybe_complete (mkG s' (g_cancel g) (zadd id (g_final g)) (g_done g) (g_nextA g)) id
          | _, _ => (g1, [])
          end in
        let '(g3, e, fr3) := handle_packet tracer g2 r in (g3, e, fr1 ++ fr2 ++ fr3)
      end
    end
  end.

(** what the application / the handshake does between packets *)
Inductive gaction :=
| GAAccept (uni : bool)                 (* AcceptStream with a cancelled context: never blocks *)
| GAAbandon (id : Z)                    (* CancelRead + CancelWrite on a stream it holds, reset acked *)
| GAOpen (uni : bool)                   (* OpenStream / OpenUniStream *)
| GAParams (nb nu : Z) (rsa : bool)     (* restore / apply the peer's transport params *)
| GAReject0RTT                          (* dropEncryptionLevel(0-RTT) *)
| GAUseReset                            (* NextConnection *)
| GAOldStream.                          (* the application abandons a stream of before the 0-RTT rejection *)

Inductive gstep := SPacket (fs : list gframe) | SApp (a : gaction).

Definition res_code (x : res) : Z :=
  match x with RId id => id | RErr e => - e | RParked => - ErrCtx | _ => 0 end.

(** result code: packets: 0 or the error class; Accept/Open: the stream ID or minus the error class *)
Definition glue_step (tracer : bool) (g : gstate) (st : gstep) : gstate * Z * list frame :=
  match st with
  | SPacket fs =>
    let '(g', e, fr) := handle_packet tracer g fs in (g', match e with Some c => c | None => 0 end, fr)
  | SApp (GAAccept uni) =>
    let a := g_nextA g in
    let '(s1, x, fr) := tstep (g_sm g) (OAcceptCall uni a) in
    let s2 := match x with RParked => fst (fst (tstep s1 (OAcceptCancel uni a))) | _ => s1 end in
    (mkG s2 (g_cancel g) (g_final g) (g_done g) (a + 1), res_code x, fr)
  | SApp (GAAbandon id) =>
    let '(g', fr) := maybe_complete (mkG (g_sm g) (zadd id (g_cancel g)) (g_final g) (g_done g) (g_nextA g)) id in
    (g', 0, fr)
  | SApp (GAOpen uni) =>
    let '(s1, x, fr) := tstep (g_sm g) (OOpen uni) in
    (mkG s1 (g_cancel g) (g_final g) (g_done g) (g_nextA g), res_code x, fr)
  | SApp (GAParams nb nu rsa) =>
    let '(s1, _, fr) := tstep (g_sm g) (OTransportParams nb nu rsa) in
    (mkG s1 (g_cancel g) (g_final g) (g_done g) (g_nextA g), 0, fr)
  | SApp GAReject0RTT =>
    let '(s1, _, fr) := tstep (g_sm g) OReset in (mkG s1 [] [] [] (g_nextA g), 0, fr)
  | SApp GAUseReset =>
    let '(s1, _, fr) := tstep (g_sm g) OUseReset in
    (mkG s1 (g_cancel g) (g_final g) (g_done g) (g_nextA g), 0, fr)
  | SApp GAOldStream => (g, 0, [])
  end.

(** steps until a packet fails (the connection is closed with that error) *)
Fixpoint glue_run (tracer : bool) (g : gstate) (sts : list gstep) : gstate * list (Z * list frame) :=
  match sts with
  | [] => (g, [])
  | st :: r =>
    let '(g', c, fr) := glue_step tracer g st in
    match st with
    | SPacket _ => if c =? 0 then let '(g2, out) := glue_run tracer g' r in (g2, (c, fr) :: out) else (g', [(c, fr)])
    | _ => let '(g2, out) := glue_run tracer g' r in (g2, (c, fr) :: out)
    end
  end.

(** (nextStreamToAccept, nextStreamToOpen, maxStream, streams with shouldDelete) *)
Definition gsnap := (Z * Z * Z * list (Z * bool))%type.
Definition gsnap_of (m : inmap) : gsnap := (i_nextAccept m, i_nextOpen m, i_max m, i_streams m).
(** (nextStream, maxStream, blockedSent, streams) *)
Definition gosnap := (Z * Z * bool * list Z)%type.
Definition gosnap_of (m : outmap) : gosnap := (o_next m, o_max m, o_blockedSent m, o_streams m).

Inductive case :=
| GlueCase (client tracer : bool) (maxBidi maxUni : Z) (steps : list gstep)
           (outs : list (Z * list frame)) (ib iu : gsnap) (ob ou : gosnap).

Inductive obs := GlueObs (outs : list (Z * list frame)) (ib iu : gsnap) (ob ou : gosnap).

Definition model_obs (c : case) : obs :=
  match c with
  | GlueCase client tracer mb mu steps _ _ _ _ _ =>
    let '(g, outs) := glue_run tracer (g_init client mb mu) steps in
    let s := g_sm g in
    GlueObs outs (gsnap_of (s_ib s)) (gsnap_of (s_iu s)) (gosnap_of (s_ob s)) (gosnap_of (s_ou s))
  end.

Fixpoint list_eqb {A} (f : A -> A -> bool) (a b : list A) : bool :=
  match a, b with [], [] => true | x :: r, y :: s => f x y && list_eqb f r s | _, _ => false end.
Definition frame_eqb (a b : frame) : bool :=
  match a, b with
  | FMax u x, FMax v y => Bool.eqb u v && (x =? y)
  | FBlocked u x, FBlocked v y => Bool.eqb u v && (x =? y)
  | _, _ => false
  end.
Definition out_eqb (a b : Z * list frame) : bool := (fst a =? fst b) && list_eqb frame_eqb (snd a) (snd b).
Definition zb_eqb (a b : Z * bool) : bool := (fst a =? fst b) && Bool.eqb (snd a) (snd b).
Definition gsnap_eqb (a b : gsnap) : bool :=
  let '(a1, a2, a3, a4) := a in let '(b1, b2, b3, b4) := b in
  (a1 =? b1) && (a2 =? b2) && (a3 =? b3) && list_eqb zb_eqb a4 b4.
Definition gosnap_eqb (a b : gosnap) : bool :=
  let '(a1, a2, a3, a4) := a in let '(b1, b2, b3, b4) := b in
  (a1 =? b1) && (a2 =? b2) && Bool.eqb a3 b3 && list_eqb Z.eqb a4 b4.

Definition check_case (c : case) : bool :=
  match c, model_obs c with
  | GlueCase _ _ _ _ _ outs ib iu ob ou, GlueObs outs' ib' iu' ob' ou' =>
    list_eqb out_eqb outs outs' && gsnap_eqb ib ib' && gsnap_eqb iu iu' && gosnap_eqb ob ob' && gosnap_eqb ou ou'
  end.
