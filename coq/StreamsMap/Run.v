(** Correspondence glue for the StreamsMap unit: a case is one history the Go harness
    drove through the real newStreamsMap (inside a synctest bubble), with the result and the
    queued control frames of every step and the final values of the fields the property is
    about. *)
From Coq Require Import List ZArith Bool String.
From V Require Import Gen.Params Lib.Corr Lib.Hex. (* Corr, Hex: needed by the generated case files *)
From V Require Export StreamsMap.Model.
Import ListNotations.
Open Scope Z_scope.

(** (nextStreamToAccept, nextStreamToOpen, maxStream, streams, closed, AcceptStream callers still blocked) *)
Definition insnap := (Z * Z * Z * list (Z * bool) * bool * list Z)%type.
(** (nextStream, maxStream, blockedSent, streams, openQueue with channel fill, closed) *)
Definition outsnap := (Z * Z * bool * list Z * list (Z * bool) * bool)%type.

Inductive case :=
| SMCase (client : bool) (maxBidi maxUni : Z) (steps : list (op * res * list frame))
         (ib iu : insnap) (ob ou : outsnap) (reset : bool) (rsa : bool) (rsaIDs : list Z).

Inductive obs :=
| SMObs (outs : list (res * list frame)) (ib iu : insnap) (ob ou : outsnap) (reset : bool) (rsa : bool) (rsaIDs : list Z).

Definition is_some {A} (o : option A) : bool := match o with Some _ => true | None => false end.
Definition snap_in (m : inmap) : insnap :=
  (i_nextAccept m, i_nextOpen m, i_max m, i_streams m, is_some (i_closed m), i_parked m).
Definition snap_out (m : outmap) : outsnap :=
  (o_next m, o_max m, o_blockedSent m, o_streams m, o_queue m, is_some (o_closed m)).

Definition model_obs (c : case) : obs :=
  match c with
  | SMCase client mb mu steps _ _ _ _ _ _ _ =>
    let '(s, outs) := trun (init_sm client mb mu) (map (fun x => fst (fst x)) steps) in
    SMObs outs (snap_in (s_ib s)) (snap_in (s_iu s)) (snap_out (s_ob s)) (snap_out (s_ou s)) (s_reset s) (s_rsa s) (s_rsaIDs s)
  end.

Definition res_eqb (a b : res) : bool :=
  match a, b with
  | RId x, RId y => x =? y
  | RNil, RNil => true
  | RErr x, RErr y => x =? y
  | RParked, RParked => true
  | RUnit, RUnit => true
  | RNotEnabled, RNotEnabled => true
  | _, _ => false
  end.
Definition frame_eqb (a b : frame) : bool :=
  match a, b with
  | FMax u x, FMax v y => Bool.eqb u v && (x =? y)
  | FBlocked u x, FBlocked v y => Bool.eqb u v && (x =? y)
  | _, _ => false
  end.
Fixpoint list_eqb {A} (f : A -> A -> bool) (a b : list A) : bool :=
  match a, b with
  | [], [] => true
  | x :: r, y :: s => f x y && list_eqb f r s
  | _, _ => false
  end.
Definition zb_eqb (a b : Z * bool) : bool := (fst a =? fst b) && Bool.eqb (snd a) (snd b).
Definition out_eqb (a b : res * list frame) : bool :=
  res_eqb (fst a) (fst b) && list_eqb frame_eqb (snd a) (snd b).
Definition insnap_eqb (a b : insnap) : bool :=
  let '(a1, a2, a3, a4, a5, a6) := a in
  let '(b1, b2, b3, b4, b5, b6) := b in
  (a1 =? b1) && (a2 =? b2) && (a3 =? b3) && list_eqb zb_eqb a4 b4 && Bool.eqb a5 b5 && list_eqb Z.eqb a6 b6.
Definition outsnap_eqb (a b : outsnap) : bool :=
  let '(a1, a2, a3, a4, a5, a6) := a in
  let '(b1, b2, b3, b4, b5, b6) := b in
  (a1 =? b1) && (a2 =? b2) && Bool.eqb a3 b3 && list_eqb Z.eqb a4 b4 && list_eqb zb_eqb a5 b5 && Bool.eqb a6 b6.

Definition check_case (c : case) : bool :=
  match c, model_obs c with
  | SMCase _ _ _ steps ib iu ob ou rs ra ri, SMObs outs ib' iu' ob' ou' rs' ra' ri' =>
    list_eqb out_eqb (map (fun x => (snd (fst x), snd x)) steps) outs &&
    insnap_eqb ib ib' && insnap_eqb iu iu' && outsnap_eqb ob ob' && outsnap_eqb ou ou' && Bool.eqb rs rs' && Bool.eqb ra ra' && list_eqb Z.eqb ri ri'
  end.
