(** The packet-level glue (RunGlue.handle_packet, mirror of connection.go handleFrames): the first
    frame whose handling fails ends the handling; what follows it can only change WHICH error the
    packet fails with, and only when a qlog tracer makes the parser go on and a later frame is
    malformed. *)
From Coq Require Import List ZArith Bool.
From V Require Import StreamsMap.Model StreamsMap.RunGlue.
Import ListNotations.
Open Scope Z_scope.

Lemma op_not_malformed : forall f o, gframe_op f = Some o -> is_malformed f = false.
Proof. intros [] o H; try reflexivity; discriminate. Qed.

Lemma handle_packet_first_error : forall tr pre g g1 fr0 f o s2 e fr rest,
  handle_packet tr g pre = (g1, None, fr0) -> gframe_op f = Some o ->
  tstep (g_sm g1) o = (s2, RErr e, fr) ->
  handle_packet tr g (pre ++ f :: rest) =
    (mkG s2 (g_cancel g1) (g_final g1) (g_done g1) (g_nextA g1),
     Some (if tr && existsb is_malformed rest then ErrFrameEncoding else e), fr0 ++ fr).
Proof.
  intros tr. induction pre as [|p pre IH]; intros g g1 fr0 f o s2 e fr rest H G T; cbn [app handle_packet] in *.
  - injection H as H1 H2. subst g1 fr0. rewrite (op_not_malformed _ _ G), G, T. reflexivity.
  - destruct (is_malformed p); [discriminate|].
    destruct (gframe_op p) as [op|]; [|eapply IH; eauto].
    destruct (tstep (g_sm g) op) as [[s' x] f1].
    assert (K : forall g2 fr2,
      (let '(g3, e0, fr3) := handle_packet tr g2 pre in (g3, e0, f1 ++ fr2 ++ fr3)) = (g1, None, fr0) ->
      (let '(g3, e0, fr3) := handle_packet tr g2 (pre ++ f :: rest) in (g3, e0, f1 ++ fr2 ++ fr3)) =
      (mkG s2 (g_cancel g1) (g_final g1) (g_done g1) (g_nextA g1),
       Some (if tr && existsb is_malformed rest then ErrFrameEncoding else e), fr0 ++ fr)).
    { intros g2 fr2 H2. destruct (handle_packet tr g2 pre) as [[g3 e3] fr3] eqn:HP.
      injection H2 as E1 E2 E3. subst g3 e3 fr0.
      rewrite (IH _ _ _ _ _ _ _ _ rest HP G T). rewrite <- !app_assoc. reflexivity. }
    destruct x; try discriminate; try (apply K; exact H);
      destruct (gframe_final p); try (apply K; exact H);
      match goal with H : (let '(_, _) := ?M in _) = _ |- _ => destruct M as [g2 fr2] end; apply K; exact H.
Qed.

(** frames behind the failing one are never handled: same state, same queued frames, and the packet
    fails in any case; the error is the failing frame's unless (tracer and a malformed frame behind it) *)
Lemma handle_packet_rest : forall tr pre g g1 fr0 f o s2 e fr rest,
  handle_packet tr g pre = (g1, None, fr0) -> gframe_op f = Some o ->
  tstep (g_sm g1) o = (s2, RErr e, fr) ->
  fst (fst (handle_packet tr g (pre ++ f :: rest))) = fst (fst (handle_packet tr g (pre ++ [f]))) /\
  snd (handle_packet tr g (pre ++ f :: rest)) = snd (handle_packet tr g (pre ++ [f])) /\
  snd (fst (handle_packet tr g (pre ++ f :: rest))) <> None /\
  (tr = false \/ existsb is_malformed rest = false ->
   snd (fst (handle_packet tr g (pre ++ f :: rest))) = Some e).
Proof.
  intros tr pre g g1 fr0 f o s2 e fr rest H G T.
  rewrite (handle_packet_first_error tr pre g g1 fr0 f o s2 e fr rest H G T).
  rewrite (handle_packet_first_error tr pre g g1 fr0 f o s2 e fr [] H G T). cbn [fst snd].
  repeat split; [destruct (tr && _); discriminate|].
  intros [Ht|Hm]; [subst tr; reflexivity|rewrite Hm, andb_false_r; reflexivity].
Qed.
