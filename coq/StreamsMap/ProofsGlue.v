(** The packet-level glue (RunGlue.handle_packet, mirror of connection.go handleFrames):
    the first failing frame decides, whatever follows it in the packet. *)
From Coq Require Import List ZArith Bool.
From V Require Import StreamsMap.Model StreamsMap.RunGlue.
Import ListNotations.
Open Scope Z_scope.

Lemma handle_packet_first_error : forall pre s s1 f o s2 e fr rest,
  handle_packet s pre = (s1, None) -> gframe_op f = Some o -> tstep s1 o = (s2, RErr e, fr) ->
  handle_packet s (pre ++ f :: rest) = (s2, Some e).
Proof.
  induction pre as [|g pre IH]; intros s s1 f o s2 e fr rest H G T; cbn [app handle_packet] in *.
  - injection H as H. subst s1. rewrite G, T. reflexivity.
  - destruct (gframe_op g) as [og|]; [|eapply IH; eauto].
    destruct (tstep s og) as [[s' x] f0]. destruct x; try (eapply IH; eauto).
    discriminate.
Qed.

(** frames behind the failing one have no effect at all: same verdict, same state *)
Lemma handle_packet_rest_irrelevant : forall pre s s1 f o s2 e fr rest rest',
  handle_packet s pre = (s1, None) -> gframe_op f = Some o -> tstep s1 o = (s2, RErr e, fr) ->
  handle_packet s (pre ++ f :: rest) = handle_packet s (pre ++ f :: rest').
Proof.
  intros. erewrite !handle_packet_first_error; eauto.
Qed.
