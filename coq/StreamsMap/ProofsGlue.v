(** The packet-level glue (RunGlue.handle_packet, mirror of connection.go handleFrames):
    the first failing frame decides, whatever follows it in the packet. *)
From Coq Require Import List ZArith Bool.
From V Require Import StreamsMap.Model StreamsMap.RunGlue.
Import ListNotations.
Open Scope Z_scope.

Lemma handle_packet_first_error : forall pre g g1 fr0 f o s2 e fr rest,
  handle_packet g pre = (g1, None, fr0) -> gframe_op f = Some o ->
  tstep (g_sm g1) o = (s2, RErr e, fr) ->
  handle_packet g (pre ++ f :: rest) =
    (mkG s2 (g_cancel g1) (g_final g1) (g_done g1) (g_nextA g1), Some e, fr0 ++ fr).
Proof.
  induction pre as [|p pre IH]; intros g g1 fr0 f o s2 e fr rest H G T; cbn [app handle_packet] in *.
  - injection H as H1 H2. subst g1 fr0. rewrite G, T. reflexivity.
  - destruct (gframe_op p) as [op|]; [|eapply IH; eauto].
    destruct (tstep (g_sm g) op) as [[s' x] f1].
    assert (K : forall g2 fr2,
      (let '(g3, e0, fr3) := handle_packet g2 pre in (g3, e0, f1 ++ fr2 ++ fr3)) = (g1, None, fr0) ->
      (let '(g3, e0, fr3) := handle_packet g2 (pre ++ f :: rest) in (g3, e0, f1 ++ fr2 ++ fr3)) =
      (mkG s2 (g_cancel g1) (g_final g1) (g_done g1) (g_nextA g1), Some e, fr0 ++ fr)).
    { intros g2 fr2 H2. destruct (handle_packet g2 pre) as [[g3 e3] fr3] eqn:HP.
      injection H2 as E1 E2 E3. subst g3 e3 fr0.
      rewrite (IH _ _ _ _ _ _ _ _ rest HP G T). rewrite <- !app_assoc. reflexivity. }
    destruct x; try discriminate; try (apply K; exact H);
      destruct (gframe_final p); try (apply K; exact H);
      match goal with H : (let '(_, _) := ?M in _) = _ |- _ => destruct M as [g2 fr2] end; apply K; exact H.
Qed.

(** frames behind the failing one have no effect at all: same verdict, same state, same frames *)
Lemma handle_packet_rest_irrelevant : forall pre g g1 fr0 f o s2 e fr rest rest',
  handle_packet g pre = (g1, None, fr0) -> gframe_op f = Some o ->
  tstep (g_sm g1) o = (s2, RErr e, fr) ->
  handle_packet g (pre ++ f :: rest) = handle_packet g (pre ++ f :: rest').
Proof. intros. erewrite !handle_packet_first_error; eauto. Qed.
